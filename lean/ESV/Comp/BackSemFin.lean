import ESV.Comp.BackSemDec
import ESV.Props.Tables
/-
Back-end correctness, middle pass: the jumps `LabelFinalizer` drops (a `Jump` to a label right after it) do not change
the behaviour of labelled code (`finalize_drop_preserves`).
-/
namespace ESV.Comp
open ESV ESV.Beh

/-- `op_was_removed` for the item `x` followed by `r` -/
def finDrop (x : LItem) (r : List LItem) : Bool :=
  match x with
  | .ljump root l => jumpRemoved root l r
  | _ => false

/-- the decisions of `LabelFinalizer` on one routine -/
def finDec : List LItem → List Dec
  | [] => []
  | x :: r => (x, if finDrop x r then none else some x) :: finDec r

theorem finDec_old (its : List LItem) : (finDec its).map (·.1) = its := by
  induction its with
  | nil => rfl
  | cons x r ih => simp [finDec, ih]

theorem finRoutine_new (its : List LItem) : ∀ st, (finRoutine its st).1 = (finDec its).filterMap (·.2) := by
  induction its with
  | nil => intro st; rfl
  | cons x r ih =>
    intro st
    cases x with
    | label id nm => simp [finRoutine, finDec, finDrop, ih]
    | op o => simp [finRoutine, finDec, finDrop, ih]
    | ljump root l =>
      simp only [finRoutine, finDec, finDrop]
      split
      · rename_i h; simp [h, ih]
      · rename_i h; simp [h, ih]

theorem finalize_new (s : List (List LItem)) : ∀ st, (finalize s st).1 = newOf (s.map finDec) := by
  induction s with
  | nil => intro st; rfl
  | cons r rs ih =>
    intro st
    simp only [finalize, List.map_cons, newOf]
    rw [← finRoutine_new r st]
    have := ih (finRoutine r st).2
    simp only [newOf] at this
    rw [← this]

theorem finalize_old (s : List (List LItem)) : oldOf (s.map finDec) = s := by
  simp only [oldOf, List.map_map]
  conv => rhs; rw [← List.map_id s]
  apply List.map_congr_left
  intro its _
  simp [finDec_old]

theorem finDec_get (its : List LItem) : ∀ (i : Nat) (x : LItem), its[i]? = some x →
    (finDec its)[i]? = some (x, if finDrop x (its.drop (i + 1)) then none else some x) := by
  induction its with
  | nil => intro i x h; simp at h
  | cons y r ih =>
    intro i x h
    cases i with
    | zero => simp at h; subst h; simp [finDec]
    | succ i => simp at h; simpa [finDec] using ih i x h

theorem finDec_length (its : List LItem) : (finDec its).length = its.length := by
  have := congrArg List.length (finDec_old its)
  simpa using this

theorem finDec_mem (its : List LItem) (x : LItem) (d : Option LItem) (h : (x, d) ∈ finDec its) :
    d = some x ∨ (d = none ∧ ∃ root l, x = .ljump root l ∧ root.name = Gen.op_jump) := by
  induction its with
  | nil => simp [finDec] at h
  | cons y r ih =>
    simp only [finDec, List.mem_cons] at h
    rcases h with h | h
    · simp only [Prod.mk.injEq] at h
      obtain ⟨rfl, rfl⟩ := h
      cases hd : finDrop x r with
      | false => left; simp
      | true =>
        right
        refine ⟨by simp, ?_⟩
        cases x with
        | label id nm => simp [finDrop] at hd
        | op o => simp [finDrop] at hd
        | ljump root l =>
          simp only [finDrop, jumpRemoved, Bool.and_eq_true, beq_iff_eq] at hd
          exact ⟨root, l, rfl, hd.1⟩
    · exact ih h

theorem gen_jump_isJump (n : String) (h : n = Gen.op_jump) : isJump n = true := by
  subst h; decide

theorem fin_decHyp (s : List (List LItem)) (hctx : s.all ctxOK = true) : DecHyp (s.map finDec) := by
  refine ⟨?_, ?_, by rw [finalize_old]; exact hctx⟩
  · intro dl hdl x y hm
    obtain ⟨its, _, rfl⟩ := List.mem_map.mp hdl
    rcases finDec_mem its x _ hm with h | ⟨h, _⟩
    · simp at h; subst h; rfl
    · cases h
  · intro dl hdl x hm
    obtain ⟨its, _, rfl⟩ := List.mem_map.mp hdl
    rcases finDec_mem its x _ hm with h | ⟨_, root, l, rfl, hn⟩
    · cases h
    · simp [afterCtxOK, gen_jump_isJump _ hn]

theorem fin_labOK (s : List (List LItem)) (l : Nat) : LabOK l (s.map finDec) := by
  intro dl hdl x d hm
  obtain ⟨its, _, rfl⟩ := List.mem_map.mp hdl
  rcases finDec_mem its x _ hm with h | ⟨h, root, l', rfl, _⟩
  · subst h; rfl
  · subst h; rfl

/-! ### the labels after a dropped jump -/

theorem labelsRun_sub_after (r : List LItem) : ∀ l, l ∈ labelsRun r → l ∈ labelsAfter r := by
  induction r with
  | nil => intro l h; simp [labelsRun] at h
  | cons x r ih =>
    intro l h
    cases x with
    | label id nm =>
      simp only [labelsRun, labelsAfter, List.mem_cons] at h ⊢
      rcases h with h | h
      · exact .inl h
      · exact .inr (ih l h)
    | op o => simp [labelsRun] at h
    | ljump root t => simp [labelsRun] at h

/-- a label found by `_labels_after` is reached over labels and jumps that are dropped themselves -/
theorem labelsAfter_spec (rest : List LItem) : ∀ l, l ∈ labelsAfter rest →
    ∃ n nm, rest[n]? = some (.label l nm) ∧
      ∀ k, k < n → ∃ y, rest[k]? = some y ∧ (isLabelOf l y = false) ∧
        ((∃ id nm', y = .label id nm') ∨ finDrop y (rest.drop (k + 1)) = true) := by
  induction rest with
  | nil => intro l h; simp [labelsAfter] at h
  | cons x r ih =>
    intro l h
    cases x with
    | op o => simp [labelsAfter] at h
    | label id nm =>
      simp only [labelsAfter, List.mem_cons] at h
      by_cases hid : l = id
      · subst hid
        exact ⟨0, nm, by simp, fun k hk => by omega⟩
      · have h' : l ∈ labelsAfter r := by
          rcases h with h | h
          · exact absurd h hid
          · exact h
        obtain ⟨n, nm', h1, h2⟩ := ih l h'
        refine ⟨n + 1, nm', by simpa using h1, fun k hk => ?_⟩
        cases k with
        | zero =>
          refine ⟨.label id nm, by simp, ?_, .inl ⟨id, nm, rfl⟩⟩
          simp only [isLabelOf, beq_eq_false_iff_ne, ne_eq]
          exact fun e => hid e.symm
        | succ k =>
          obtain ⟨y, e1, e2, e3⟩ := h2 k (by omega)
          exact ⟨y, by simpa using e1, e2, by simpa using e3⟩
    | ljump root t =>
      cases t with
      | none => simp [labelsAfter] at h
      | some t =>
        simp only [labelsAfter] at h
        split at h
        · rename_i hc
          obtain ⟨n, nm', h1, h2⟩ := ih l h
          refine ⟨n + 1, nm', by simpa using h1, fun k hk => ?_⟩
          cases k with
          | zero =>
            refine ⟨.ljump root (some t), by simp, rfl, .inr ?_⟩
            simp only [Bool.and_eq_true, beq_iff_eq, List.contains_iff_mem] at hc
            simp only [finDrop, jumpRemoved, List.drop_succ_cons, List.drop_zero, Bool.and_eq_true, beq_iff_eq,
              List.contains_iff_mem]
            exact ⟨hc.1, labelsRun_sub_after r t hc.2⟩
          | succ k =>
            obtain ⟨y, e1, e2, e3⟩ := h2 k (by omega)
            exact ⟨y, by simpa using e1, e2, by simpa using e3⟩
        · simp at h

/-! ### unique labels -/

theorem labelIds_eq_filterMap (l : List LItem) :
    labelIds l = l.filterMap fun
      | .label id _ => some id
      | _ => none := by
  induction l with
  | nil => rfl
  | cons x r ih => cases x <;> simp [labelIds, ih]

theorem labelIds_append (a b : List LItem) : labelIds (a ++ b) = labelIds a ++ labelIds b := by
  simp [labelIds_eq_filterMap]

theorem labelIds_mem (its : List LItem) (x : LItem) (l : Nat) (hx : x ∈ its) (hl : isLabelOf l x = true) : l ∈ labelIds its := by
  induction its with
  | nil => simp at hx
  | cons y r ih =>
    simp only [List.mem_cons] at hx
    rcases hx with rfl | hx
    · cases x <;> simp [isLabelOf] at hl
      subst hl; simp [labelIds]
    · have := ih hx
      cases y <;> simp [labelIds, this]

theorem findIdx_label_unique (l : Nat) (nm : Bool) : ∀ (its : List LItem) (j : Nat), (labelIds its).Nodup →
    its[j]? = some (.label l nm) → its.findIdx? (isLabelOf l) = some j := by
  intro its
  induction its with
  | nil => intro j _ h; simp at h
  | cons x r ih =>
    intro j hn h
    cases j with
    | zero => simp at h; subst h; simp [List.findIdx?_cons, isLabelOf]
    | succ j =>
      simp at h
      have hmem : l ∈ labelIds r := labelIds_mem r _ l (List.mem_of_getElem? h) (by simp [isLabelOf])
      have hx : isLabelOf l x = false := by
        cases x with
        | label id nm' =>
          simp only [labelIds, List.nodup_cons] at hn
          simp only [isLabelOf, beq_eq_false_iff_ne, ne_eq]
          intro e; subst e; exact hn.1 hmem
        | op o => rfl
        | ljump root t => rfl
      have hn' : (labelIds r).Nodup := by
        cases x <;> simp [labelIds] at hn <;> first | exact hn | exact hn.2
      rw [List.findIdx?_cons, hx, ih j hn' h]
      rfl

theorem findLabel_unique (l : Nat) (nm : Bool) : ∀ (rs : List (List LItem)) (k r : Nat) (its : List LItem) (j : Nat),
    (labelIds rs.flatten).Nodup → rs[r]? = some its → its[j]? = some (.label l nm) →
    findLabel l rs k = some ⟨k + r, j⟩ := by
  intro rs
  induction rs with
  | nil => intro k r its j _ h; simp at h
  | cons a rs ih =>
    intro k r its j hn hr hj
    simp only [List.flatten_cons, labelIds_append] at hn
    cases r with
    | zero =>
      simp at hr; subst hr
      simp [findLabel, findIdx_label_unique l nm a j (List.Nodup.sublist (List.sublist_append_left _ _) hn) hj]
    | succ r =>
      simp at hr
      have hmem : l ∈ labelIds rs.flatten :=
        labelIds_mem _ _ l (List.mem_flatten.mpr ⟨its, List.mem_of_getElem? hr, List.mem_of_getElem? hj⟩) (by simp [isLabelOf])
      have hnone : a.findIdx? (isLabelOf l) = none := by
        rw [List.findIdx?_eq_none_iff]
        intro x hx
        cases hlx : isLabelOf l x with
        | false => rfl
        | true =>
          exfalso
          have := labelIds_mem a x l hx hlx
          exact (List.nodup_append.mp hn).2.2 l this l hmem rfl
      simp only [findLabel, hnone]
      rw [ih (k + 1) r its j (List.Nodup.sublist (List.sublist_append_right _ _) hn) hr hj]
      congr 2; omega

/-! ### the pass -/

section pass
variable (s : List (List LItem))

/-- kept positions (and positions outside the code) -/
def GoodF (x : LPos) : Prop := ∀ dl y, (s.map finDec)[x.rtn]? = some dl → dl[x.idx]? = some (y, none) → False

theorem fin_ds_get (r : Nat) (its : List LItem) (hr : s[r]? = some its) : (s.map finDec)[r]? = some (finDec its) := by
  simp [hr]

theorem fin_walk (r : Nat) (its : List LItem) (i : Nat) (hr : s[r]? = some its) : ∀ n,
    (∀ k, k < n → ∃ y, its[i + k]? = some y ∧ ((∃ id nm, y = .label id nm) ∨ finDrop y (its.drop (i + k + 1)) = true)) →
    SilentStar (labLTS (newOf (s.map finDec))) (decMap (s.map finDec) ⟨r, i⟩) (decMap (s.map finDec) ⟨r, i + n⟩) := by
  intro n
  induction n with
  | zero => intro _; exact .refl _
  | succ n ih =>
    intro h
    have h1 := ih (fun k hk => h k (by omega))
    obtain ⟨y, hy, hc⟩ := h n (by omega)
    have hd := finDec_get its (i + n) y hy
    refine h1.trans ?_
    rcases hc with ⟨id, nm, rfl⟩ | hc
    · simp only [finDrop, Bool.false_eq_true, if_false] at hd
      have hit := dec_itemAt_new (s.map finDec) r (i + n) _ _ _ (fin_ds_get s r its hr) hd
      have hst : (labLTS (newOf (s.map finDec))).step (decMap (s.map finDec) ⟨r, i + n⟩) =
          .silent (decMap (s.map finDec) ⟨r, i + n⟩).next := by
        show lstep _ _ = _
        rw [lstep_item _ _ _ hit]; rfl
      rw [← dec_next (s.map finDec) r (i + n) _ _ _ (fin_ds_get s r its hr) hd] at hst
      exact .one hst
    · simp only [hc, if_true] at hd
      rw [show i + (n + 1) = i + n + 1 from rfl, dec_skip (s.map finDec) r (i + n) _ _ (fin_ds_get s r its hr) hd]
      exact .refl _

theorem fin_ok (hn : (labelIds s.flatten).Nodup) (p : LPos) :
    MapRel (labLTS (oldOf (s.map finDec))) (labLTS (newOf (s.map finDec))) (decMap (s.map finDec)) (GoodF s) p
      (decMap (s.map finDec) p) := by
  obtain ⟨r, i⟩ := p
  by_cases hg : ∃ dl y, (s.map finDec)[r]? = some dl ∧ dl[i]? = some (y, none)
  case neg =>
    exact MapRel.good (fun dl y h1 h2 => hg ⟨dl, y, h1, h2⟩)
  case pos =>
    obtain ⟨dl, y, hdl, hy⟩ := hg
    obtain ⟨its, hits⟩ : ∃ its, s[r]? = some its := by
      cases h : s[r]? with
      | none => simp [h] at hdl
      | some its => exact ⟨its, rfl⟩
    have : dl = finDec its := by simp [hits] at hdl; exact hdl.symm
    subst this
    have hyi : its[i]? = some y := by
      have := congrArg (fun l => l[i]?) (finDec_old its)
      simp only [List.getElem?_map, hy, Option.map_some] at this
      exact this.symm
    have hd := finDec_get its i y hyi
    rw [hy] at hd
    have hdrop : finDrop y (its.drop (i + 1)) = true := by
      cases h : finDrop y (its.drop (i + 1)) with
      | true => rfl
      | false => simp [h] at hd
    cases y with
    | label id nm => simp [finDrop] at hdrop
    | op o => simp [finDrop] at hdrop
    | ljump root l =>
      cases l with
      | none => simp [finDrop, jumpRemoved] at hdrop
      | some t =>
        simp only [finDrop, jumpRemoved, Bool.and_eq_true, beq_iff_eq, List.contains_iff_mem] at hdrop
        obtain ⟨n, nm, h1, h2⟩ := labelsAfter_spec _ t hdrop.2
        have hq : its[i + 1 + n]? = some (.label t nm) := by simpa using h1
        have htgt : target s t = ⟨r, i + 1 + n⟩ := by
          have := findLabel_unique t nm s 0 r its (i + 1 + n) hn hits hq
          simp [target, this]
        have hstep : (labLTS (oldOf (s.map finDec))).step ⟨r, i⟩ = .silent ⟨r, i + 1 + n⟩ := by
          rw [finalize_old]
          show lstep s ⟨r, i⟩ = _
          rw [lstep_item s ⟨r, i⟩ (.ljump root (some t)) (by simp [itemAt, hits, hyi])]
          simp only [itemStep, gen_jump_isJump _ hdrop.1, htgt, if_true]
          rfl
        have hgq : GoodF s ⟨r, i + 1 + n⟩ := by
          intro dl' y' hdl' hy'
          rw [fin_ds_get s r its hits] at hdl'
          cases hdl'
          have := finDec_get its (i + 1 + n) _ hq
          rw [hy'] at this
          simp [finDrop] at this
        have hwalk := fin_walk s r its (i + 1) hits n (fun k hk => by
          obtain ⟨y', e1, _, e3⟩ := h2 k hk
          refine ⟨y', by simpa using e1, ?_⟩
          rcases e3 with e3 | e3
          · exact .inl e3
          · right; simpa [Nat.add_assoc] using e3)
        rw [dec_skip (s.map finDec) r i _ _ (fin_ds_get s r its hits) hy] at hwalk
        exact .inl ⟨⟨r, i + 1 + n⟩, hgq, .one hstep, hwalk⟩

theorem fin_stepCorr (hn : (labelIds s.flatten).Nodup) (hctx : s.all ctxOK = true) (x : LPos) (hg : GoodF s x) :
    StepCorr (labLTS (oldOf (s.map finDec))) (labLTS (newOf (s.map finDec))) (decMap (s.map finDec)) (GoodF s) x := by
  obtain ⟨r, i⟩ := x
  cases hr : (s.map finDec)[r]? with
  | none => exact dec_stepCorr_end _ _ r i (fun dl h => by rw [hr] at h; cases h)
  | some dl =>
    cases hi : dl[i]? with
    | none =>
      refine dec_stepCorr_end _ _ r i (fun dl' h => ?_)
      rw [hr] at h; cases h
      rcases Nat.lt_or_ge i dl.length with h | h
      · rw [List.getElem?_eq_getElem h] at hi; cases hi
      · exact h
    | some xd =>
      obtain ⟨y, d⟩ := xd
      have hdl : dl ∈ s.map finDec := List.mem_of_getElem? hr
      obtain ⟨its, _, rfl⟩ := List.mem_map.mp hdl
      rcases finDec_mem its y d (List.mem_of_getElem? hi) with h | ⟨h, _⟩
      · subst h
        exact dec_stepCorr_same _ _ (fin_decHyp s hctx) r i _ y hr hi (fun _ l _ => fin_labOK s l)
          (fun p _ => fin_ok s hn p)
      · subst h
        exact absurd hi (fun h => hg _ y hr h)

/-- **Dropping the jumps that `LabelFinalizer` drops preserves behaviour.** -/
theorem finalize_drop_preserves (hn : (labelIds s.flatten).Nodup) (hctx : s.all ctxOK = true) (st : FinSt) (r : Nat) :
    Equivalent (labLTS s) (labLTS (finalize s st).1) (labEntry s r) (labEntry (finalize s st).1 r) := by
  have := equiv_of_map (fin_stepCorr s hn hctx) _ _ (fin_ok s hn ⟨r, 0⟩)
  rw [finalize_old, ← finalize_new s st] at this
  have he : decMap (s.map finDec) ⟨r, 0⟩ = ⟨r, 0⟩ := by
    simp only [decMap, List.take_zero, cntK_nil]
    cases (s.map finDec)[r]? <;> rfl
  rw [he] at this
  exact this

end pass

end ESV.Comp
