import ESV.Comp.CgRet
/-
`codegen_correct`, switches: the case translation of the source semantics in normal form, the cases waiting for a block
(`cases_waiting_for_a_block`) as source cases with empty bodies, the header jumps built for them.
-/
namespace ESV.Comp
open ESV ESV.Beh

/-! ### `trCases` in normal form -/

theorem trStmts_nil (fuel : Nat) (sm : List Src.Macro) (env : Src.Env) (k : Nat) (b : Src.B) : Src.trStmts fuel sm env .nil k b = (b, k) := by
  rw [Src.trStmts]

theorem trCases_nil (fuel : Nat) (sm : List Src.Macro) (env : Src.Env) (k nt : Nat) (b : Src.B) : Src.trCases fuel sm env .nil k nt b = (b, k, nt, none) := by
  rw [Src.trCases]

theorem trCases_default (fuel : Nat) (sm : List Src.Macro) (env : Src.Env) (t : Ev) (body : Src.Stmts) (r : Src.Cases) (k nt : Nat) (b : Src.B)
    {R : Src.B × Nat × Nat × Option Nat} (hR : Src.trCases fuel sm env r k nt b = R) {Bd : Src.B × Nat}
    (hB : Src.trStmts fuel sm env body R.2.1 R.1 = Bd) :
    Src.trCases fuel sm env (.cons true t body r) k nt b = (Bd.1, Bd.2, R.2.2.1, some Bd.2) := by
  subst hR hB
  rw [Src.trCases]; rfl

theorem trCases_case (fuel : Nat) (sm : List Src.Macro) (env : Src.Env) (t : Ev) (body : Src.Stmts) (r : Src.Cases) (k nt : Nat) (b : Src.B)
    {R : Src.B × Nat × Nat × Option Nat} (hR : Src.trCases fuel sm env r k nt b = R) {Bd : Src.B × Nat}
    (hB : Src.trStmts fuel sm env body R.2.1 R.1 = Bd) :
    Src.trCases fuel sm env (.cons false t body r) k nt b =
      ((Bd.1.push (.test (Src.substEv env.subst t) Bd.2 R.2.2.1)).1, Bd.2, (tbl Bd.1).length, R.2.2.2) := by
  subst hR hB
  rw [Src.trCases]; rfl

/-! ### cases waiting for a block -/

/-- the environment of the case bodies -/
def brkEnv (env : Src.Env) (k : Nat) : Src.Env := { env with brk := some k }

theorem plainEnv_brkEnv {cx : Cx} {env : Src.Env} (he : EnvOK cx env) (k : Nat) : EnvOK cx (brkEnv env k) := ⟨he.1, he.2, he.3⟩

/-- the events of the labelled side (parameters substituted by the copy) are the events of the source under `sb` -/
def EvOK (cx : Cx) (sb : List (String × Beh.Param)) : Prop :=
  ∀ (n : String) (ps : List ESV.Param), (⟨n, convParams (ps.map cx.cp.sub)⟩ : Ev) = Src.substEv sb ⟨n, convParams ps⟩

/-- the handlers waiting for a block are cases without a body -/
def wSrc : List (Option BP) → Src.Cases → Src.Cases
  | [], r => r
  | none :: w, r => .cons true ⟨"", []⟩ .nil (wSrc w r)
  | some bp :: w, r => .cons false ⟨bp.name, convParams bp.params⟩ .nil (wSrc w r)

theorem wSrc_append (w : List (Option BP)) (x : Option BP) (r : Src.Cases) : wSrc (w ++ [x]) r = wSrc w (wSrc [x] r) := by
  induction w with
  | nil => rfl
  | cons y w ih => cases y <;> simp only [List.cons_append, wSrc, ih]

def hasNone : List (Option BP) → Bool
  | [] => false
  | none :: _ => true
  | some _ :: w => hasNone w

def WaitOK (w : List (Option BP)) : Prop := ∀ bp, some bp ∈ w → isTest bp.name = true

/-- what the header jumps `hs` built for the waiting handlers do, and what became of the default ops -/
structure WaitSem (cx : Cx) (fuel : Nat) (sL : Nat) (w : List (Option BP)) (hs dIn d1 : List LItem) : Prop where
  nonone : NoNone hs
  dsome : hasNone w = true → ∃ o, d1 = [.ljump ⟨o, Gen.op_jump, []⟩ (some sL)]
  dnone : hasNone w = false → d1 = dIn
  sem : ∀ (envC : Src.Env), EvOK cx envC.subst → ∀ (k nt : Nat) (SC0 : Src.Cases) (b : Src.B),
    Pushes (Src.trCases fuel cx.sm envC SC0 k nt b).1 (Src.trCases fuel cx.sm envC (wSrc w SC0) k nt b).1 ∧
    (Src.trCases fuel cx.sm envC (wSrc w SC0) k nt b).2.1 = (Src.trCases fuel cx.sm envC SC0 k nt b).2.1 ∧
    (Src.trCases fuel cx.sm envC (wSrc w SC0) k nt b).2.2.2 =
      (if hasNone w then some (Src.trCases fuel cx.sm envC SC0 k nt b).2.1 else (Src.trCases fuel cx.sm envC SC0 k nt b).2.2.2) ∧
    ∀ r pH, Placed cx.cp cx.rs r pH hs →
      AgreeOn cx.N cx.Z (Src.trCases fuel cx.sm envC SC0 k nt b).1 (Src.trCases fuel cx.sm envC (wSrc w SC0) k nt b).1 → ∀ m j,
      EE cx m (target cx.rs (cx.cp.σ sL)) (Src.trCases fuel cx.sm envC SC0 k nt b).2.1 →
      R2 cx m j ⟨r, pH + hs.length⟩ (Src.trCases fuel cx.sm envC SC0 k nt b).2.2.1 →
      R2 cx m j ⟨r, pH⟩ (Src.trCases fuel cx.sm envC (wSrc w SC0) k nt b).2.2.1

theorem waiting_sem (cx : Cx) (fuel : Nat) (sL : Nat) : ∀ (w : List (Option BP)) (dops : List LItem) (s : St) (hs dops' : List LItem) (s' : St),
    WaitOK w → buildWaiting sL defJmpBP w dops s = .ok ((hs, dops'), s') → SameStk s s' ∧ WaitSem cx fuel sL w hs dops dops' := by
  intro w
  induction w with
  | nil =>
    intro dops s hs dops' s' _ h
    simp only [buildWaiting, pure_ok, Prod.mk.injEq] at h
    obtain ⟨⟨rfl, rfl⟩, rfl⟩ := h
    refine ⟨SameStk.refl _, fun x hx => by simp at hx, fun h => by simp [hasNone] at h, fun _ => rfl, ?_⟩
    intro envC _ k nt SC0 b
    refine ⟨Pushes.refl _, rfl, rfl, fun r pH _ _ m j _ h => ?_⟩
    simpa [wSrc] using h
  | cons x w ih =>
    intro dops s hs dops' s' hw h
    cases x with
    | none =>
      simp only [buildWaiting, bind_ok] at h
      obtain ⟨jj, s1, h1, h2⟩ := h
      obtain ⟨e1, n, rfl⟩ := buildFor_stk h1
      obtain ⟨e2, ws⟩ := ih _ _ _ _ _ (fun b hb => hw b (List.mem_cons_of_mem _ hb)) h2
      refine ⟨e1.trans e2, ws.nonone, fun _ => ?_, fun h => by simp [hasNone] at h, ?_⟩
      · cases hn : hasNone w with
        | true => exact ws.dsome hn
        | false => exact ⟨n, ws.dnone hn⟩
      · intro envC he k nt SC0 b
        obtain ⟨g, eb, _, c⟩ := ws.sem envC he k nt SC0 b
        have htr := trCases_default fuel cx.sm envC ⟨"", []⟩ .nil (wSrc w SC0) k nt b rfl (trStmts_nil fuel cx.sm envC _ _)
        simp only [wSrc, htr, hasNone, if_true]
        exact ⟨g, eb, by rw [eb], c⟩
    | some bp =>
      simp only [buildWaiting, bind_ok, pure_ok] at h
      obtain ⟨jj, s1, h1, p, s2, h2, h3⟩ := h
      obtain ⟨hs0, dops0⟩ := p
      simp only [Prod.mk.injEq] at h3
      obtain ⟨⟨rfl, rfl⟩, rfl⟩ := h3
      obtain ⟨e1, n, rfl⟩ := buildFor_stk h1
      obtain ⟨e2, ws⟩ := ih _ _ _ _ _ (fun b hb => hw b (List.mem_cons_of_mem _ hb)) h2
      have htest : isTest bp.name = true := hw bp (by simp)
      refine ⟨e1.trans e2, (noNone_jump _ _).append ws.nonone, fun h => ws.dsome (by simpa [hasNone] using h),
        fun h => ws.dnone (by simpa [hasNone] using h), ?_⟩
      intro envC he k nt SC0 b
      obtain ⟨g, eb, ed, c⟩ := ws.sem envC he k nt SC0 b
      have htr := trCases_case fuel cx.sm envC ⟨bp.name, convParams bp.params⟩ .nil (wSrc w SC0) k nt b rfl (trStmts_nil fuel cx.sm envC _ _)
      simp only [wSrc, htr, hasNone]
      refine ⟨g.trans (Pushes.push _ _), eb, ed, fun r pH hp hag m j hT hrest => ?_⟩
      have hit : ItemC cx.cp cx.rs ⟨r, pH⟩ (.ljump ⟨n, bp.name, bp.params⟩ (some sL)) := by simpa using hp.item (d := 0) rfl
      have hstep := lab_test hit (isTest_not_jump _ htest) htest
      simp only [he bp.name bp.params] at hstep
      have hpR : Placed cx.cp cx.rs r (pH + 1) hs0 := by
        have := Placed.right (a := [LItem.ljump ⟨n, bp.name, bp.params⟩ (some sL)]) (b := hs0) hp
        simpa using this
      have agR := hag.sub_grow (Grow.refl _) (Grow.push _ _)
      have hN : cx.N[(tbl (Src.trCases fuel cx.sm envC (wSrc w SC0) k nt b).1).length]? =
          some (.test (Src.substEv envC.subst ⟨bp.name, convParams bp.params⟩) (Src.trCases fuel cx.sm envC (wSrc w SC0) k nt b).2.1
            (Src.trCases fuel cx.sm envC (wSrc w SC0) k nt b).2.2.1) := by
        obtain ⟨a1, a2⟩ := tbl_push (Src.trCases fuel cx.sm envC (wSrc w SC0) k nt b).1
          (.test (Src.substEv envC.subst ⟨bp.name, convParams bp.params⟩) (Src.trCases fuel cx.sm envC (wSrc w SC0) k nt b).2.1
            (Src.trCases fuel cx.sm envC (wSrc w SC0) k nt b).2.2.1)
        rw [hag.2 _ g.len (by rw [a1]; simp), a1]
        simp
      have hrest' := c r (pH + 1) hpR agR m j hT (by
        have e : pH + 1 + hs0.length = pH + (LItem.ljump ⟨n, bp.name, bp.params⟩ (some sL) :: hs0).length := by simp; omega
        rw [e]; exact hrest)
      rw [eb] at hN
      exact R2.test hstep (nodeStep_of hN) hT (by rw [LPos.next_eq r pH (pH + 1) rfl]; exact hrest'.1)

/-! ### the blueprints of the cases -/

/-- the blueprints step 1 made for the (non-default) cases -/
def BpsOK (sw : String) : Cases → List BP → Prop
  | .nil, _ => True
  | .cons true _ _ _ r, bps => BpsOK sw r bps
  | .cons false name ps _ r, bp :: bps => bp.name = caseName sw name ∧ bp.params = ps ∧ bp.positive = true ∧ BpsOK sw r bps
  | .cons false _ _ _ _, [] => False

theorem caseBPs_ok (sw : String) : ∀ (cs : Cases) (s : St) (bps : List BP) (s' : St), caseBPs sw cs s = .ok (bps, s') →
    SameStk s s' ∧ BpsOK sw cs bps
  | .nil, s, bps, s', h => by
    simp only [caseBPs, pure_ok, Prod.mk.injEq] at h
    obtain ⟨rfl, rfl⟩ := h
    exact ⟨SameStk.refl _, trivial⟩
  | .cons true _ _ _ r, s, bps, s', h => by
    simp only [caseBPs] at h
    exact caseBPs_ok sw r _ _ _ h
  | .cons false name params _ r, s, bps, s', h => by
    simp only [caseBPs, bind_ok, allocate_ok, pure_ok] at h
    obtain ⟨n, s1, h1, bs, s2, h2, h3⟩ := h
    simp only [Prod.mk.injEq] at h1 h3
    obtain ⟨rfl, rfl⟩ := h1
    obtain ⟨rfl, rfl⟩ := h3
    obtain ⟨e2, ok2⟩ := caseBPs_ok sw r _ _ _ h2
    exact ⟨(sameStk_tickedOp _ _).trans e2, rfl, rfl, rfl, ok2⟩

/-! ### the block of a case -/

/-- the block of a case handler: folded into the header jumps (the body is one `Jump`), or with its labels -/
theorem case_block_shape {hjbs : List BP} {cf : Bool} {bodyM : M (List LItem)}
    {sa sc : St} {blk : Blk} (h : blockOf hjbs cf false bodyM sa = .ok (blk, sc)) :
    ∃ ops sb, bodyM sa = .ok (ops, sb) ∧ SameStk sb sc ∧
      ((∃ l eB, cf = true ∧ hjbs ≠ [] ∧ loneJump ops = some (some l) ∧ blk.items = [.label eB false] ∧ blk.start = some l ∧
          HdrsTo (fun _ => l) hjbs blk.hdrs) ∨
       (∃ sL eB, blk.items = [.label sL false] ++ ops ++ [.label eB false] ∧
          blk.start = some sL ∧ HdrsTo (fun b => if b.positive then sL else eB) hjbs blk.hdrs)) := by
  simp only [blockOf, bind_ok] at h
  obtain ⟨ops, sb, h1, h2⟩ := h
  obtain ⟨hst, hshape⟩ := processBlock_shape h2
  refine ⟨ops, sb, h1, hst, ?_⟩
  rcases hshape with ⟨l, hsc, hitems, hstart, hh⟩ | ⟨_, sL, js, hitems, hstart, _, hjs, hh⟩
  · refine .inl ⟨l, _, ?_, ?_, ?_, hitems, hstart, hh⟩
    · simp only [shortcutOf] at hsc
      split at hsc
      · rename_i hc
        simp only [Bool.and_eq_true] at hc
        exact hc.1.1
      · cases hsc
    · intro he
      subst he
      simp [shortcutOf] at hsc
    · simp only [shortcutOf] at hsc
      split at hsc
      · exact hsc
      · cases hsc
  · rcases hjs with ⟨rfl, _⟩ | ⟨o, _, hc⟩
    · exact .inr ⟨sL, _, by simpa using hitems, hstart, hh⟩
    · simp at hc

end ESV.Comp
