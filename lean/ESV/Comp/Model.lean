import ESV.Comp.Ast
import ESV.Gen.Tables
/-
Executable model of the ExplorerScript compiler after parsing (explorerscript/ssb_converting/ssb_compiler.py
`ExplorerScriptSsbCompiler.compile` from "Compiling macros..." on), statement by statement:

  compiler/utils.py                       Counter (`__call__`, `allocate`), CompilerCtx (loop / case stacks),
                                          SsbLabelJumpBlueprint.build_for, does_op_end_control_flow
  compiler/compile_handlers/abstract.py   _generate_operation, _process_block (lone-jump shortcut, empty jump),
                                          loop handlers' labels allocated in __init__, collect_ops with the
                                          trailing-label dummy end
  compile_handlers/blocks/**              if / elseif / else, switch / case / default, forever / while / for, with
  compile_handlers/operations/*.py        operation (inline context), macro call
  compile_handlers/statements/*.py        jump, call, control statements;  atoms/label.py
  compiler_visitor/statement_visitor.py   handlers are constructed in parse-tree order while *visiting* a routine,
                                          collected afterwards: the visiting phase takes the loop labels and collects
                                          the headers of `while` / `for` (ForBlock/WhileBlock.add)
  compiler_visitor/routine_visitor.py     routine ids, _enlarge_routine_info
  compiler_visitor/macro_visitor.py       one CompilerCtx (counters, label table) for all macros of the file,
                                          blueprints compiled in resolution order
  explorerscript/macro.py                 ExplorerScriptMacro.build

The back end (strip_last_label, LabelFinalizer, OpsLabelJumpToRemover) is in ESV/Comp/Backend.lean.

Python object identity becomes ids: a label is its id (`SsbOperation.__eq__` on two labels compares offset and
`[id]`; there is one object per id, so this is equality of ids).  Source maps are not modelled; the op counter
is explicit in the state, every number taken from it is visible as a `tickOp` / `allocate`.
-/
namespace ESV.Comp
open ESV


/-- `SsbOperation(offset, SsbOpCode(-1, name), params)`; offsets handed out by `Counter` are positive naturals -/
structure Op where
  offset : Nat
  name : String
  params : List Param
deriving DecidableEq, Repr

/-- the compiler's intermediate op list: `SsbOperation | SsbLabel(id, original_name is not None) |
SsbLabelJump(root, label | None)` -/
inductive LItem where
  | op (o : Op)
  | label (id : Nat) (named : Bool)
  | ljump (root : Op) (lbl : Option Nat)
deriving DecidableEq, Repr

/-- the mutable part of `CompilerCtx` -/
structure St where
  /-- `counter_ops.count` -/
  opc : Nat
  /-- `counter_labels.count` -/
  lbc : Nat
  /-- `collected_labels`: label name ↦ label id -/
  named : List (String × Nat)
  /-- `_loops`, innermost first: (label `continue` goes to, label `break_loop` goes to) -/
  loops : List (Nat × Nat)
  /-- `_switch_cases`, innermost first: the `_end_label` of the case handler -/
  cases : List Nat
deriving Repr

def St.init : St := ⟨0, 0, [], [], []⟩

abbrev M := StateT St (Except Err)

def St.tickedOp (s : St) (n : Nat) : St := { s with opc := s.opc + n }
def St.tickedLbl (s : St) (n : Nat) : St := { s with lbc := s.lbc + n }
def St.withNamed (s : St) (n : String) (i : Nat) : St := { s with named := s.named ++ [(n, i)] }
def St.pushLoop (s : St) (l : Nat × Nat) : St := { s with loops := l :: s.loops }
def St.popLoop (s : St) : St := { s with loops := s.loops.tail }
def St.pushCase (s : St) (l : Nat) : St := { s with cases := l :: s.cases }
def St.popCase (s : St) : St := { s with cases := s.cases.tail }

/-- `Counter.__call__` on `counter_ops` -/
def tickOp : M Nat := fun s => .ok (s.opc + 1, s.tickedOp 1)
/-- `Counter.allocate(how_many)` on `counter_ops`: returns the first allocated number -/
def allocate (n : Nat) : M Nat := fun s => .ok (s.opc + 1, s.tickedOp n)
/-- `Counter.__call__` on `counter_labels` -/
def tickLbl : M Nat := fun s => .ok (s.lbc + 1, s.tickedLbl 1)
def fail {α : Type} (e : Err) : M α := fun _ => .error e
def getSt : M St := fun s => .ok (s, s)
def pushLoop (l : Nat × Nat) : M Unit := fun s => .ok ((), s.pushLoop l)
def popLoop : M Unit := fun s => .ok ((), s.popLoop)
def pushCase (l : Nat) : M Unit := fun s => .ok ((), s.pushCase l)
def popCase : M Unit := fun s => .ok ((), s.popCase)

/-- `_generate_operation` -/
def genOp (name : String) (params : List Param) : M Op := do
  let n ← tickOp
  pure ⟨n, name, params⟩

/-- `_generate_jump_operation(OP_JUMP, [], label)` -/
def genJump (lbl : Option Nat) : M LItem := do
  let o ← genOp Gen.op_jump []
  pure (.ljump o lbl)

/-- label / jump / call handlers: `collected_labels[label_name]`, created on first use -/
def userLabel (name : String) : M Nat := fun s =>
  match s.named.lookup name with
  | some i => .ok (i, s)
  | none => .ok (s.lbc + 1, (s.tickedLbl 1).withNamed name (s.lbc + 1))

/-- `SsbLabelJumpBlueprint` -/
structure BP where
  name : String
  params : List Param
  number : Option Nat
  positive : Bool
deriving Repr

def BP.withNumber (b : BP) (n : Nat) : BP := { b with number := some n }
def BP.withName (b : BP) (n : String) : BP := { b with name := n }

/-- `build_for(label)` -/
def buildFor (b : BP) (lbl : Nat) : M LItem :=
  match b.number with
  | some n => pure (.ljump ⟨n, b.name, b.params⟩ (some lbl))
  | none => do
    let n ← tickOp
    pure (.ljump ⟨n, b.name, b.params⟩ (some lbl))

def buildAll (lbl : Nat) : List BP → M (List LItem)
  | [] => pure []
  | b :: r => do
    let j ← buildFor b lbl
    let js ← buildAll lbl r
    pure (j :: js)

/-- `for hjb in blueprints: build_for(start_label if hjb.jump_is_positive else end_label)` -/
def buildEach (startL endL : Nat) : List BP → M (List LItem)
  | [] => pure []
  | b :: r => do
    let j ← buildFor b (if b.positive then startL else endL)
    let js ← buildEach startL endL r
    pure (j :: js)

def inBranchTable (n : String) : Bool := Gen.opsBranch.any fun kv => kv.1 == n

/-- `IfHeaderCompileHandler.collect()`: a header written as an operation is collected through
`OperationCompileHandler.collect()` (one op number is taken and dropped) and must be a Branch* op -/
def collectHdr (h : Hdr) (positive : Bool) : M BP := do
  if h.isOp then
    let _ ← tickOp
    if inBranchTable h.name then pure ⟨h.name, h.params, none, positive⟩
    else fail .ssbCompilerError
  else pure ⟨h.name, h.params, none, positive⟩

/-- headers of the if-block itself: `h.collect()` then `allocate(1)`, header by header -/
def collectIfHdrs (positive : Bool) : List Hdr → M (List BP)
  | [] => pure []
  | h :: r => do
    let b ← collectHdr h positive
    let n ← allocate 1
    let bs ← collectIfHdrs positive r
    pure (b.withNumber n :: bs)

/-- `ElseIfBlock.create_header_jump_templates()`: all headers collected first … -/
def collectHdrs (positive : Bool) : List Hdr → M (List BP)
  | [] => pure []
  | h :: r => do
    let b ← collectHdr h positive
    let bs ← collectHdrs positive r
    pure (b :: bs)

/-- … then one `allocate(1)` per blueprint -/
def allocateAll : List BP → M (List BP)
  | [] => pure []
  | b :: r => do
    let n ← allocate 1
    let bs ← allocateAll r
    pure (b.withNumber n :: bs)

/-! ### does_op_end_control_flow -/

def isCtxItem : LItem → Bool
  | .op o => Gen.opsCtx.contains o.name
  | _ => false

def endsName : LItem → Bool
  | .op o => Gen.opsEndFlow.contains o.name
  | .ljump r _ => Gen.opsEndFlow.contains r.name
  | .label _ _ => false

def endsFlow (op : LItem) (prev : Option LItem) : Bool :=
  match prev with
  | some p => if isCtxItem p then false else endsName op
  | none => endsName op

/-- `len(ops) < 1 or not does_op_end_control_flow(ops[-1], ops[-2] if len(ops) > 1 else None)` -/
def needsEndJump (ops : List LItem) : Bool :=
  match ops.reverse with
  | [] => true
  | [a] => !endsFlow a none
  | a :: b :: _ => !endsFlow a (some b)

/-- `len(ops) == 1 and isinstance(ops[0], SsbLabelJump) and ops[0].root.op_code.name == OP_JUMP` -/
def loneJump : List LItem → Option (Option Nat)
  | [.ljump r l] => if r.name == Gen.op_jump then some l else none
  | _ => none

/-- result of `_process_block`: the returned op list, `processed_header_jumps`, `start_label` -/
structure Blk where
  items : List LItem
  hdrs : List LItem
  start : Option Nat
deriving Repr

/-- `_process_block(insert_the_jump_if_needed)` after the sub-handlers have been collected into `ops`;
`canFold` is the handler attribute `lone_jump_can_be_folded` -/
def shortcutOf (hjbs : List BP) (canFold : Bool) (ops : List LItem) : Option (Option Nat) :=
  if canFold && !hjbs.isEmpty && hjbs.all (·.positive) then loneJump ops else none

/-- the `if insert_the_jump_if_needed and (…)` that appends the empty end jump -/
def withEndJump (insertJump : Bool) (ops : List LItem) : M (List LItem) :=
  if insertJump && needsEndJump ops then (do let j ← genJump none; pure (ops ++ [j])) else pure ops

def processBlockAt (endL : Nat) (hjbs : List BP) (insertJump : Bool) (ops : List LItem) : Option (Option Nat) → M Blk
  | some none => fail .assertionError
  | some (some l) => do
    let hs ← buildAll l hjbs
    pure ⟨[.label endL false], hs, some l⟩
  | none => do
    let ops' ← withEndJump insertJump ops
    let startL ← tickLbl
    let hs ← buildEach startL endL hjbs
    pure ⟨[.label startL false] ++ ops' ++ [.label endL false], hs, some startL⟩

def processBlock (hjbs : List BP) (canFold insertJump : Bool) (ops : List LItem) : M Blk := do
  let endL ← tickLbl
  processBlockAt endL hjbs insertJump ops (shortcutOf hjbs canFold ops)

/-- step 6 of `IfBlock.collect`: `Jump`s without target go to the if's end label -/
def patchItem (endL : Nat) : LItem → LItem
  | .ljump r none => if r.name == Gen.op_jump then .ljump r (some endL) else .ljump r none
  | x => x

def patchNone (endL : Nat) (l : List LItem) : List LItem := l.map (patchItem endL)

/-! ### macros -/

/-- `ExplorerScriptMacro`: variables and blueprint ops -/
structure MacroBP where
  vars : List String
  bp : List LItem
deriving Repr

/-- `dict(zip(macro.variables, args))`, looked up by key (a later duplicate key wins) -/
def zipDict : List String → List Param → List (String × Param)
  | v :: vs, a :: as => zipDict vs as ++ [(v, a)]   -- searched from the front: later pairs first
  | _, _ => []

/-- `_process_parameters`: `SsbOpParamConstant`s named like a macro variable are replaced -/
def substParam (d : List (String × Param)) (p : Param) : Param :=
  match p with
  | .const n => match d.lookup n with
    | some v => v
    | none => p
  | _ => p

/-- `_build_op` (without the source map) -/
def buildOp (d : List (String × Param)) (o : Op) : M Op := do
  let n ← tickOp
  pure ⟨n, o.name, o.params.map (substParam d)⟩

/-- `new_labels[id]`, copied with a fresh id on first sight -/
def freshCopy (nl : List (Nat × Nat)) (id : Nat) : M (List (Nat × Nat) × Nat) :=
  match nl.lookup id with
  | some i => pure (nl, i)
  | none => do
    let i ← tickLbl
    pure (nl ++ [(id, i)], i)

/-- the loop over `self.blueprints` in `ExplorerScriptMacro.build` -/
def buildItems (d : List (String × Param)) (endL : Nat) : List LItem → List (Nat × Nat) → M (List LItem)
  | [], _ => pure []
  | .label id _ :: r, nl => do
    let (nl', i) ← freshCopy nl id
    let rest ← buildItems d endL r nl'
    pure (.label i false :: rest)
  | .ljump _ none :: _, _ => fail .assertionError
  | .ljump root (some l) :: r, nl => do
    let (nl', i) ← freshCopy nl l
    let root' ← buildOp d root
    let rest ← buildItems d endL r nl'
    pure (.ljump root' (some i) :: rest)
  | .op o :: r, nl =>
    if o.name == Gen.op_return then do
      let root' ← buildOp d ⟨o.offset, Gen.op_jump, []⟩
      let rest ← buildItems d endL r nl
      pure (.ljump root' (some endL) :: rest)
    else do
      let o' ← buildOp d o
      let rest ← buildItems d endL r nl
      pure (.op o' :: rest)

/-- `ExplorerScriptMacro.build(counter_ops, counter_labels, dict(zip(variables, args)), smb)` -/
def buildMacro (m : MacroBP) (args : List Param) : M (List LItem) := do
  let d := zipDict m.vars args
  if m.vars.all (fun v => (d.lookup v).isSome) then
    let startL ← tickLbl
    let endL ← tickLbl
    let out ← buildItems d endL m.bp []
    pure ([.label startL false] ++ out ++ [.label endL false])
  else fail .valueError

abbrev Macros := List (String × MacroBP)

/-! ### the visiting phase (StatementVisitor): what handler construction and `add` already do -/

mutual
/-- label counter ticks of handler constructors: forever/while 2 (start, end), for 5 -/
def vlStmt : Stmt → Nat
  | .ite _ _ body elifs _ els => vlStmts body + vlElifs elifs + vlStmts els
  | .switch _ cs => vlCases cs
  | .forever body => 2 + vlStmts body
  | .while_ _ _ body => 2 + vlStmts body
  | .for_ _ _ _ body => 5 + vlStmts body
  | _ => 0
def vlStmts : Stmts → Nat
  | .nil => 0
  | .cons s r => vlStmt s + vlStmts r
def vlElifs : Elifs → Nat
  | .nil => 0
  | .cons _ _ body r => vlStmts body + vlElifs r
def vlCases : Cases → Nat
  | .nil => 0
  | .cons _ _ _ body r => vlStmts body + vlCases r
end

mutual
/-- op counter ticks while visiting: `WhileBlock.add` / `ForBlock.add` collect their if-header at once -/
def voStmt : Stmt → Nat
  | .ite _ _ body elifs _ els => voStmts body + voElifs elifs + voStmts els
  | .switch _ cs => voCases cs
  | .forever body => voStmts body
  | .while_ _ h body => (if h.isOp then 1 else 0) + voStmts body
  | .for_ _ h _ body => (if h.isOp then 1 else 0) + voStmts body
  | _ => 0
def voStmts : Stmts → Nat
  | .nil => 0
  | .cons s r => voStmt s + voStmts r
def voElifs : Elifs → Nat
  | .nil => 0
  | .cons _ _ body r => voStmts body + voElifs r
def voCases : Cases → Nat
  | .nil => 0
  | .cons _ _ _ body r => voStmts body + voCases r
end

def countDefaults : Cases → Nat
  | .nil => 0
  | .cons d _ _ _ r => (if d then 1 else 0) + countDefaults r

def Stmt.isLabel : Stmt → Bool
  | .label _ => true
  | _ => false

mutual
/-- errors raised while visiting (all `SsbCompilerError`): a second `default`, a label in a with-block,
a `while`/`for` header operation that is no Branch* op -/
def vbadStmt : Stmt → Bool
  | .with_ _ _ inner => inner.isLabel
  | .ite _ _ body elifs _ els => vbadStmts body || vbadElifs elifs || vbadStmts els
  | .switch _ cs => decide (countDefaults cs > 1) || vbadCases cs
  | .forever body => vbadStmts body
  | .while_ _ h body => (h.isOp && !inBranchTable h.name) || vbadStmts body
  | .for_ init h inc body => vbadStmt init || (h.isOp && !inBranchTable h.name) || vbadStmt inc || vbadStmts body
  | _ => false
def vbadStmts : Stmts → Bool
  | .nil => false
  | .cons s r => vbadStmt s || vbadStmts r
def vbadElifs : Elifs → Bool
  | .nil => false
  | .cons _ _ body r => vbadStmts body || vbadElifs r
def vbadCases : Cases → Bool
  | .nil => false
  | .cons _ _ _ body r => vbadStmts body || vbadCases r
end

/-! ### collect -/

/-- what phase A of `IfBlock.collect` (step 2) leaves for one elseif: numbered blueprints, and the block if it was
already output (negated elseif) -/
structure ElifA where
  neg : Bool
  bps : List BP
  early : Option Blk
deriving Repr

/-- state of step 3 of `SwitchBlock.collect` -/
structure SwSt where
  /-- `cases_waiting_for_a_block`: `none` = the default handler, `some bp` = a case's header blueprint -/
  waiting : List (Option BP)
  /-- processed header jumps of the handlers seen so far, in handler order -/
  hdrJumps : List LItem
  defaultOps : List LItem
  caseOps : List LItem
deriving Repr

/-- `for h_waiting in cases_waiting_for_a_block: …build_for(start_label)`; returns (header jumps, default ops) -/
def buildWaiting (startL : Nat) (defJmp : BP) : List (Option BP) → List LItem → M (List LItem × List LItem)
  | [], dops => pure ([], dops)
  | none :: r, _ => do
    let j ← buildFor defJmp startL
    buildWaiting startL defJmp r [j]
  | some b :: r, dops => do
    let j ← buildFor b startL
    let (hs, dops') ← buildWaiting startL defJmp r dops
    pure (j :: hs, dops')

/-- step 1 of `SwitchBlock.collect`: one blueprint per (non-default) case, `allocate(1)` each, CaseValue under
SwitchScenario becomes CaseScenario -/
def caseBPs (switchName : String) : Cases → M (List BP)
  | .nil => pure []
  | .cons true _ _ _ r => caseBPs switchName r
  | .cons false name params _ r => do
    let n ← allocate 1
    let name' := if switchName == Gen.op_switch_scenario && name == Gen.op_case_value then Gen.op_case_scenario else name
    let bs ← caseBPs switchName r
    pure (⟨name', params, some n, true⟩ :: bs)

def hasDefault : Cases → Bool
  | .nil => false
  | .cons d _ _ _ r => d || hasDefault r

/-- steps 2 and 7: per elseif its header jumps, followed by its block if that was output early (negated) -/
def elifsFront : List ElifA → List Blk → List LItem
  | a :: as, b :: bs => b.hdrs ++ (if a.neg then b.items else []) ++ elifsFront as bs
  | _, _ => []

/-- step 5: the blocks of the positive elseifs -/
def elifsBack : List ElifA → List Blk → List LItem
  | a :: as, b :: bs => (if a.neg then [] else b.items) ++ elifsBack as bs
  | _, _ => []

/-! The handlers' `collect()` methods, each with the `collect()` of its sub-handlers as a parameter (`body`, `inner`, …:
the computation that collects the statements of the sub-block). The recursion over the statement tree is `cStmt` below. -/

/-- `_process_block`: collect the sub-handlers (`stmts`), then `processBlock` -/
def blockOf (hjbs : List BP) (canFold insertJump : Bool) (stmts : M (List LItem)) : M Blk := do
  let ops ← stmts
  processBlock hjbs canFold insertJump ops

def opStmt (name : String) (params : List Param) : M (List LItem) := do
  let o ← genOp name params
  pure [.op o]

/-- `OperationCompileHandler.collect()` with an inline context -/
def inlStmt (cname : String) (cparam : Param) (name : String) (params : List Param) : M (List LItem) := do
  let c ← genOp cname [cparam]
  let o ← genOp name params
  pure [.op c, .op o]

/-- `CtxBlockCompileHandler.collect()` -/
def withOf (cname : String) (cparam : Param) (inner : M (List LItem)) : M (List LItem) := do
  let c ← genOp cname [cparam]
  let sub ← inner
  if sub.length == 1 then pure (.op c :: sub) else fail .ssbCompilerError

def labelStmt (n : String) : M (List LItem) := do
  let i ← userLabel n
  pure [.label i true]

def jumpStmt (n : String) : M (List LItem) := do
  let i ← userLabel n
  let j ← genJump (some i)
  pure [j]

def callStmt (n : String) : M (List LItem) := do
  let i ← userLabel n
  let o ← genOp Gen.op_call []
  pure [.ljump o (some i)]

/-- `break;` : `CompilerCtx.break_case` -/
def brkStmt : M (List LItem) := do
  let s ← getSt
  match s.cases with
  | [] => fail .ssbCompilerError
  | e :: _ => do
    let j ← genJump (some e)
    pure [j]

/-- `continue;` : `CompilerCtx.continue_loop` -/
def contStmt : M (List LItem) := do
  let s ← getSt
  match s.loops with
  | [] => fail .ssbCompilerError
  | l :: _ => do
    let j ← genJump (some l.1)
    pure [j]

/-- `break_loop;` : `CompilerCtx.break_loop` -/
def brkLoopStmt : M (List LItem) := do
  let s ← getSt
  match s.loops with
  | [] => fail .ssbCompilerError
  | l :: _ => do
    let j ← genJump (some l.2)
    pure [j]

/-- step 3 of `IfBlock.collect`: the else block, or an else block of one jump without target -/
def elsePartOf (hasElse : Bool) (els : M (List LItem)) : M (List LItem) :=
  if hasElse then (do let b ← blockOf [] true true els; pure b.items)
  else (do let j ← genJump none; pure [j])

/-- `block bps` if it was not output already -/
def lateBlock (early : Option Blk) (block : M Blk) : M Blk :=
  match early with
  | some b => pure b
  | none => block

/-- `if neg: ops += _process_block()` right after the headers -/
def earlyBlock (neg : Bool) (block : M Blk) : M (Option Blk) :=
  if neg then (do let b ← block; pure (some b)) else pure none

/-- `IfBlockCompileHandler.collect()`. `body` collects the statements of the if's own block, `els` those of the else block;
`elifsA` / `elifsB` are steps 2 and 5 over the elseif handlers. -/
def iteOf (neg : Bool) (hdrs : List Hdr) (body : M (List LItem)) (elifsA : M (List ElifA)) (hasElse : Bool) (els : M (List LItem))
    (elifsB : List ElifA → M (List Blk)) : M (List LItem) := do
  -- 0.
  let endL ← tickLbl
  -- 1.
  let bps ← collectIfHdrs (!neg) hdrs
  let early ← earlyBlock neg (blockOf bps true true body)
  -- 2.
  let as ← elifsA
  -- 3.
  let elsePart ← elsePartOf hasElse els
  -- 4.
  let ifBlk ← lateBlock early (blockOf bps true true body)
  -- 5.
  let late ← elifsB as
  -- 6. 7.
  let ops := ifBlk.hdrs ++ (if neg then ifBlk.items else []) ++ elifsFront as late ++ elsePart
              ++ (if neg then [] else ifBlk.items) ++ elifsBack as late
  pure (patchNone endL ops ++ [.label endL false])

/-- one elseif in step 2 of `IfBlock.collect` -/
def elifAOf (neg : Bool) (hdrs : List Hdr) (body : M (List LItem)) : M ElifA := do
  let bps0 ← collectHdrs (!neg) hdrs
  let bps ← allocateAll bps0
  let early ← earlyBlock neg (blockOf bps true true body)
  pure ⟨neg, bps, early⟩

/-- one elseif in step 5 of `IfBlock.collect` -/
def elifBOf (a : ElifA) (body : M (List LItem)) : M Blk := lateBlock a.early (blockOf a.bps true true body)

/-- `SwitchHeaderCompileHandler.collect()`: an operation as header is collected (one number dropped) and generated again -/
def switchHdrOp (hdr : Hdr) : M Op := do
  if hdr.isOp then
    let _ ← tickOp
    genOp hdr.name hdr.params
  else genOp hdr.name hdr.params

/-- step 2c of `SwitchBlock.collect`: without a default handler the default block is one jump to the end label -/
def defaultOps0 (hasDef : Bool) (endL : Nat) : M (List LItem) :=
  if hasDef then pure [] else (do let j ← genJump (some endL); pure [j])

/-- the jump blueprint of the default block (no number yet) -/
def defJmpBP : BP := ⟨Gen.op_jump, [], none, true⟩

/-- `SwitchBlockCompileHandler.collect()`. `run endL bps st0` is step 3 over the case handlers. -/
def switchOf (hdr : Hdr) (cases : Cases) (run : Nat → List BP → SwSt → M SwSt) : M (List LItem) := do
  -- 0.
  let defStart ← tickLbl
  let endL ← tickLbl
  -- 0b.
  let switchOp ← switchHdrOp hdr
  match cases with
  | .nil => pure [.op switchOp]
  | _ => do
    -- 1.
    let bps ← caseBPs switchOp.name cases
    -- 2.
    let dops0 ← defaultOps0 (hasDefault cases) endL
    -- 3.
    let r ← run endL bps ⟨[], [], dops0, []⟩
    -- 3c.
    if !r.waiting.isEmpty then fail .ssbCompilerError
    else
      -- 4.
      pure ([.op switchOp] ++ r.hdrJumps ++ [.label defStart false] ++ r.defaultOps ++ r.caseOps ++ [.label endL false])

/-- the loop of `SwitchBlockCompileHandler._falls_through`: (trailing labels, real ops in reverse order) -/
def ftScan : List LItem → List (Nat × Bool) → List LItem → List (Nat × Bool) × List LItem
  | [], tl, real => (tl, real)
  | .label id nm :: r, tl, real => ftScan r (tl ++ [(id, nm)]) real
  | x :: r, _, real => ftScan r [] (x :: real)

def isJumpTo (id : Nat) : LItem → Bool
  | .ljump _ (some l) => l == id
  | _ => false

/-- `_falls_through(case_ops)`: can control run from the end of the case blocks collected so far into the next one -/
def fallsThrough (caseOps : List LItem) : Bool :=
  let r := ftScan caseOps [] []
  match r.2 with
  | [] => !caseOps.isEmpty
  | [a] => !endsFlow a none || r.1.any fun l => l.2 || r.2.any (isJumpTo l.1)
  | a :: b :: _ => !endsFlow a (some b) || r.1.any fun l => l.2 || r.2.any (isJumpTo l.1)

def SwSt.wait (st : SwSt) (w : Option BP) : SwSt := { st with waiting := st.waiting ++ [w] }

/-- the default handler in step 3 of `SwitchBlock.collect`; `body` collects its statements -/
def defaultStep (endL : Nat) (bodyNil : Bool) (body : M (List LItem)) (st : SwSt) : M SwSt := do
  if bodyNil then pure (st.wait none)
  else
    pushCase endL
    let b ← blockOf [] (!fallsThrough st.caseOps) false body
    popCase
    match b.start with
    | none => fail .assertionError
    | some startL => do
      let j ← buildFor defJmpBP startL
      let (hs, dops) ← buildWaiting startL defJmpBP st.waiting [j]
      pure ⟨[], st.hdrJumps ++ hs, dops, st.caseOps ++ b.items⟩

/-- a case handler in step 3 of `SwitchBlock.collect` -/
def caseStep (endL : Nat) (bp : BP) (bodyNil : Bool) (body : M (List LItem)) (st : SwSt) : M SwSt := do
  if bodyNil then pure (st.wait (some bp))
  else
    pushCase endL
    let b ← blockOf [bp] (!fallsThrough st.caseOps) false body
    popCase
    match b.start with
    | none => fail .assertionError
    | some startL => do
      let (hs, dops) ← buildWaiting startL defJmpBP st.waiting st.defaultOps
      pure ⟨[], st.hdrJumps ++ hs ++ b.hdrs, dops, st.caseOps ++ b.items⟩

/-- `ForeverBlockCompileHandler.collect()`; the two labels were taken by the constructor (`lb + 1`, `lb + 2`) -/
def foreverOf (lb : Nat) (body : M (List LItem)) : M (List LItem) := do
  let startL := lb + 1
  let endL := lb + 2
  pushLoop (startL, endL)
  let b ← blockOf [] true false body
  let j ← genJump (some startL)
  popLoop
  pure ([.label startL false] ++ b.items ++ [j, .label endL false])

/-- the blueprint `WhileBlock.add` / `ForBlock.add` made while visiting (its op number tick is in `voStmt`) -/
def loopBP (h : Hdr) : BP := ⟨h.name, h.params, none, true⟩

def whileNeg (lb : Nat) (h : Hdr) (body : M (List LItem)) : M (List LItem) := do
  let startL := lb + 1
  let endL := lb + 2
  let br ← buildFor (loopBP h) endL
  let b ← blockOf [] true false body
  let j ← genJump (some startL)
  pure ([.label startL false, br] ++ b.items ++ [j, .label endL false])

def whilePos (lb : Nat) (h : Hdr) (body : M (List LItem)) : M (List LItem) := do
  let startL := lb + 1
  let endL := lb + 2
  let checkL ← tickLbl
  let blockL ← tickLbl
  let j ← genJump (some checkL)
  let b ← blockOf [] true false body
  let br ← buildFor (loopBP h) blockL
  pure ([.label startL false, j, .label blockL false] ++ b.items ++ [.label checkL false, br, .label endL false])

/-- `WhileBlockCompileHandler.collect()` -/
def whileOf (lb : Nat) (neg : Bool) (h : Hdr) (body : M (List LItem)) : M (List LItem) := do
  pushLoop (lb + 1, lb + 2)
  let r ← if neg then whileNeg lb h body else whilePos lb h body
  popLoop
  pure r

/-- `ForBlockCompileHandler.collect()`; five labels were taken by the constructor -/
def forOf (lb : Nat) (h : Hdr) (init inc body : M (List LItem)) : M (List LItem) := do
  let startL := lb + 1
  let endL := lb + 2
  let blockL := lb + 3
  let newRunL := lb + 4
  let initialL := lb + 5
  pushLoop (newRunL, endL)
  let i ← init
  let j ← genJump (some initialL)
  let b ← blockOf [] true false body
  let e ← inc
  let br ← buildFor (loopBP h) blockL
  popLoop
  pure ([.label startL false] ++ i ++ [j, .label blockL false] ++ b.items ++ [.label newRunL false] ++ e
          ++ [.label initialL false, br, .label endL false])

/-- `MacroCallCompileHandler.collect()` -/
def macroStmt (ms : Macros) (name : String) (args : List Param) : M (List LItem) :=
  match ms.lookup name with
  | none => fail .ssbCompilerError
  | some m => buildMacro m args

mutual
/-- `collect()` of the handler of one statement. `lb` = value of the label counter when the visitor reached the
statement (loop labels were taken then). -/
def cStmt (ms : Macros) (lb : Nat) : Stmt → M (List LItem)
  | .op name params => opStmt name params
  | .inl cname cparam name params => inlStmt cname cparam name params
  | .with_ cname cparam inner => withOf cname cparam (cStmt ms lb inner)
  | .label n => labelStmt n
  | .jump n => jumpStmt n
  | .call n => callStmt n
  | .ret => opStmt Gen.op_return []
  | .end_ => opStmt Gen.op_end []
  | .hold => opStmt Gen.op_hold []
  | .brk => brkStmt
  | .cont => contStmt
  | .brkLoop => brkLoopStmt
  | .ite neg hdrs body elifs hasElse els =>
    iteOf neg hdrs (cStmts ms lb body) (cElifsA ms (lb + vlStmts body) elifs) hasElse
      (cStmts ms (lb + vlStmts body + vlElifs elifs) els) (cElifsB ms (lb + vlStmts body) elifs)
  | .switch hdr cases => switchOf hdr cases (fun endL bps st0 => cCases ms lb endL cases bps st0)
  | .forever body => foreverOf lb (cStmts ms (lb + 2) body)
  | .while_ neg h body => whileOf lb neg h (cStmts ms (lb + 2) body)
  | .for_ init h inc body => forOf lb h (cStmt ms (lb + 5) init) (cStmt ms (lb + 5) inc) (cStmts ms (lb + 5) body)
  | .macroCall name args => macroStmt ms name args

/-- `for h in self._added_handlers: ops += h.collect()` -/
def cStmts (ms : Macros) (lb : Nat) : Stmts → M (List LItem)
  | .nil => pure []
  | .cons s r => do
    let a ← cStmt ms lb s
    let b ← cStmts ms (lb + vlStmt s) r
    pure (a ++ b)

/-- step 2 of `IfBlock.collect` -/
def cElifsA (ms : Macros) (lb : Nat) : Elifs → M (List ElifA)
  | .nil => pure []
  | .cons neg hdrs body r => do
    let a ← elifAOf neg hdrs (cStmts ms lb body)
    let rest ← cElifsA ms (lb + vlStmts body) r
    pure (a :: rest)

/-- step 5 of `IfBlock.collect`: the blocks of the elseifs not yet output, in order -/
def cElifsB (ms : Macros) (lb : Nat) : Elifs → List ElifA → M (List Blk)
  | .nil, _ => pure []
  | .cons _ _ body r, as =>
    match as with
    | [] => fail .indexError
    | a :: as' => do
      let b ← elifBOf a (cStmts ms lb body)
      let rest ← cElifsB ms (lb + vlStmts body) r as'
      pure (b :: rest)

/-- step 3 of `SwitchBlock.collect`, handlers in source order (the default at its written position);
`bps`: the blueprints of the remaining non-default cases -/
def cCases (ms : Macros) (lb : Nat) (endL : Nat) : Cases → List BP → SwSt → M SwSt
  | .nil, _, st => pure st
  | .cons true _ _ body r, bps, st => do
    let st1 ← defaultStep endL body.isNil (cStmts ms lb body) st
    cCases ms (lb + vlStmts body) endL r bps st1
  | .cons false _ _ body r, bps, st =>
    match bps with
    | [] => fail .indexError
    | bp :: bps' => do
      let st1 ← caseStep endL bp body.isNil (cStmts ms lb body) st
      cCases ms (lb + vlStmts body) endL r bps' st1
end

end ESV.Comp
