import ESV.Comp.CodegenF0b
import ESV.Comp.Front5
/-
`codegen_correct`, fragment F0, part c: statement lists, the graph of a program, the front end's output, the theorem.
-/
namespace ESV.Comp
open ESV ESV.Beh

/-! ### the source side -/

theorem trStmts_f0 (fuel : Nat) (ms : List Src.Macro) (env : Src.Env) (he : PlainEnv env) : ∀ (ss : Stmts), f0Stmts ss = true →
    ∀ (k : Nat) (b : Src.B), ∃ extra, (Src.trStmts fuel ms env (toSrcStmts ss) k b).1.nodes.toList = b.nodes.toList ++ extra ∧
      PathOK (Src.trStmts fuel ms env (toSrcStmts ss) k b).1.nodes.toList false (Src.trStmts fuel ms env (toSrcStmts ss) k b).2
        (stmtsCode ss) k
  | .nil, _, k, b => by
    simp only [toSrcStmts]
    rw [Src.trStmts]
    exact ⟨[], by simp, rfl⟩
  | .cons s r, h, k, b => by
    simp only [f0Stmts, Bool.and_eq_true] at h
    simp only [toSrcStmts, stmtsCode]
    rw [Src.trStmts]
    obtain ⟨x1, e1, p1⟩ := trStmts_f0 fuel ms env he r h.2 k b
    generalize Src.trStmts fuel ms env (toSrcStmts r) k b = R at e1 p1 ⊢
    obtain ⟨b1, re⟩ := R
    simp only at e1 p1 ⊢
    obtain ⟨x2, e2, p2⟩ := tr_f0 fuel ms env he s h.1 (stmtsCode r) k re b1 p1
    exact ⟨x1 ++ x2, by rw [e2, e1, List.append_assoc], p2⟩

mutual
theorem labels_f0_stmt : ∀ (s : Stmt), f0Stmt s = true → Src.labelsOf (toSrcStmt s) = []
  | .op _ _, _ => by simp [toSrcStmt, Src.labelsOf]
  | .inl _ _ _ _, _ => by simp [toSrcStmt, Src.labelsOf]
  | .with_ c cp inner, h => by
    simp only [f0Stmt, Bool.and_eq_true] at h
    cases inner <;> simp [f0Inner] at h <;> simp [toSrcStmt, Src.labelsOf]
  | .ret, _ => by simp [toSrcStmt, Src.labelsOf]
  | .end_, _ => by simp [toSrcStmt, Src.labelsOf]
  | .hold, _ => by simp [toSrcStmt, Src.labelsOf]
  | .label _, h => by simp [f0Stmt] at h
  | .jump _, h => by simp [f0Stmt] at h
  | .call _, h => by simp [f0Stmt] at h
  | .brk, h => by simp [f0Stmt] at h
  | .cont, h => by simp [f0Stmt] at h
  | .brkLoop, h => by simp [f0Stmt] at h
  | .ite .., h => by simp [f0Stmt] at h
  | .switch .., h => by simp [f0Stmt] at h
  | .forever .., h => by simp [f0Stmt] at h
  | .while_ .., h => by simp [f0Stmt] at h
  | .for_ .., h => by simp [f0Stmt] at h
  | .macroCall .., h => by simp [f0Stmt] at h
theorem labels_f0 : ∀ (ss : Stmts), f0Stmts ss = true → Src.labelsOfStmts (toSrcStmts ss) = []
  | .nil, _ => by simp [toSrcStmts, Src.labelsOfStmts]
  | .cons s r, h => by
    simp only [f0Stmts, Bool.and_eq_true] at h
    simp [toSrcStmts, Src.labelsOfStmts, labels_f0_stmt s h.1, labels_f0 r h.2]
end

/-- the loop of `Program.graph` over routines with bodies -/
def graphStep (fuel : Nat) (ms : List Src.Macro) (env : Src.Env) (fell : Nat) (acc : Src.B × List (Option Nat)) (r : Src.Routine) :
    Src.B × List (Option Nat) :=
  match r.body with
  | none => (acc.1, acc.2 ++ [none])
  | some body =>
    let (b', e) := Src.trStmts fuel ms env body fell acc.1
    (b', acc.2 ++ [some e])

theorem graph_fold_f0 (fuel : Nat) (ms : List Src.Macro) (env : Src.Env) (he : PlainEnv env) (fell : Nat) :
    ∀ (bodies : List Stmts), (∀ b ∈ bodies, f0Stmts b = true) → ∀ (acc : Src.B × List (Option Nat)),
    ∃ extra, ((bodies.map fun b => (⟨some (toSrcStmts b)⟩ : Src.Routine)).foldl (graphStep fuel ms env fell) acc).1.nodes.toList =
        acc.1.nodes.toList ++ extra ∧
      (∀ j, j < acc.2.length →
        ((bodies.map fun b => (⟨some (toSrcStmts b)⟩ : Src.Routine)).foldl (graphStep fuel ms env fell) acc).2[j]? = acc.2[j]?) ∧
      ∀ j body, bodies[j]? = some body → ∃ e,
        ((bodies.map fun b => (⟨some (toSrcStmts b)⟩ : Src.Routine)).foldl (graphStep fuel ms env fell) acc).2[acc.2.length + j]? = some (some e) ∧
        PathOK ((bodies.map fun b => (⟨some (toSrcStmts b)⟩ : Src.Routine)).foldl (graphStep fuel ms env fell) acc).1.nodes.toList
          false e (stmtsCode body) fell := by
  intro bodies
  induction bodies with
  | nil => intro _ acc; exact ⟨[], by simp, fun _ _ => rfl, fun j body h => by simp at h⟩
  | cons b0 rest ih =>
    intro hall acc
    simp only [List.map_cons, List.foldl_cons]
    obtain ⟨x0, e0, p0⟩ := trStmts_f0 fuel ms env he b0 (hall b0 (by simp)) fell acc.1
    have hstep : graphStep fuel ms env fell acc ⟨some (toSrcStmts b0)⟩ =
        ((Src.trStmts fuel ms env (toSrcStmts b0) fell acc.1).1, acc.2 ++ [some (Src.trStmts fuel ms env (toSrcStmts b0) fell acc.1).2]) := rfl
    rw [hstep]
    generalize Src.trStmts fuel ms env (toSrcStmts b0) fell acc.1 = R at e0 p0 ⊢
    obtain ⟨b1, en⟩ := R
    simp only at e0 p0 ⊢
    obtain ⟨x1, e1, keep, paths⟩ := ih (fun b hb => hall b (by simp [hb])) (b1, acc.2 ++ [some en])
    simp only at e1 keep paths
    refine ⟨x0 ++ x1, by rw [e1, e0, List.append_assoc], fun j hj => ?_, fun j body hj => ?_⟩
    · rw [keep j (by simp; omega)]
      exact List.getElem?_append_left hj
    · cases j with
      | zero =>
        simp only [List.getElem?_cons_zero, Option.some.injEq] at hj
        subst hj
        refine ⟨en, ?_, ?_⟩
        · rw [Nat.add_zero, keep acc.2.length (by simp)]
          simp
        · rw [e1]; exact p0.ext _
      | succ j =>
        simp only [List.getElem?_cons_succ] at hj
        obtain ⟨e, h1, h2⟩ := paths j body hj
        refine ⟨e, ?_, h2⟩
        rw [← h1]
        congr 1
        simp; omega

theorem routineId_seq (r : Routine) (a : Nat) (h : (r.rid == none || r.rid == some a) = true) : routineId r a = a := by
  unfold routineId
  cases hr : r.rid with
  | none => rfl
  | some n => simp [hr] at h; exact h

theorem placeRoutines_seq : ∀ (rs : List Routine) (a : Nat) (acc : List Src.Routine), seqFrom rs a = true → acc.length = a →
    placeRoutines rs a acc = acc ++ rs.map fun r => (⟨some (toSrcStmts r.body)⟩ : Src.Routine) := by
  intro rs
  induction rs with
  | nil => intro a acc _ _; simp [placeRoutines]
  | cons r rs ih =>
    intro a acc h hl
    simp only [seqFrom, Bool.and_eq_true] at h
    simp only [placeRoutines, routineId_seq r a h.1]
    have e1 : a + 1 - acc.length = 1 := by omega
    rw [e1]
    have e2 : (acc ++ List.replicate 1 (⟨none⟩ : Src.Routine)).set a ⟨some (toSrcStmts r.body)⟩ = acc ++ [⟨some (toSrcStmts r.body)⟩] := by
      rw [← hl]; simp
    rw [e2, ih (a + 1) _ h.2 (by simp [hl])]
    simp

end ESV.Comp
