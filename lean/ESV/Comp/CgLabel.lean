import ESV.Comp.CgLoop
/-
`codegen_correct`, user labels: the label statement, `jump @l`, `call @l` as pieces.
-/
namespace ESV.Comp
open ESV ESV.Beh

theorem userLabel_stk {n : String} {s : St} {id : Nat} {s' : St} (h : userLabel n s = .ok (id, s')) :
    SameStk s s' ∧ s'.named.lookup n = some id := by
  unfold userLabel at h
  cases hl : s.named.lookup n with
  | some j =>
    simp only [hl, Except.ok.injEq, Prod.mk.injEq] at h
    obtain ⟨rfl, rfl⟩ := h
    exact ⟨SameStk.refl _, hl⟩
  | none =>
    simp only [hl, Except.ok.injEq, Prod.mk.injEq] at h
    obtain ⟨rfl, rfl⟩ := h
    have hlk : ∀ m, ((s.tickedLbl 1).withNamed n (s.lbc + 1)).named.lookup m =
        (s.named.lookup m).or (if m == n then some (s.lbc + 1) else none) := by
      intro m
      simp only [St.withNamed, St.tickedLbl, List.lookup_append, List.lookup_cons, List.lookup_nil]
      cases m == n <;> rfl
    refine ⟨⟨rfl, rfl, fun m id hm => ?_⟩, ?_⟩
    · rw [hlk, hm]; rfl
    · rw [hlk, hl]; simp

/-- `§name;` : the node of the label is what a jump to the label reaches -/
theorem label_pm (cx : Cx) (fuel : Nat) (env : Src.Env) (he : EnvOK cx env) (n : String) (hn : n ∈ cx.defs) :
    PM cx (labelStmt n) (fun k b => Src.tr fuel cx.sm env (.label n) k b) env := by
  intro s items s' h
  simp only [labelStmt, bind_ok, pure_ok] at h
  obtain ⟨id, s1, h1, h2⟩ := h
  simp only [Prod.mk.injEq] at h2
  obtain ⟨rfl, rfl⟩ := h2
  obtain ⟨hst, hid⟩ := userLabel_stk h1
  have htr : ∀ k b, Src.tr fuel cx.sm env (.label n) k b =
      match env.labels.lookup n with
      | some i => (b.set i (.silent k), i)
      | none => Src.invalid b ("unallocated label " ++ n) := by
    intro k b; rw [Src.tr]
    cases List.lookup n env.labels <;> rfl
  refine ⟨hst.1, hst.2, hst.3, ?_, ?_, ?_, ?_, ?_, ?_⟩
  · simp [lastNotCtx, isCtxL]
  · intro x hx root e; simp at hx; subst hx; cases e
  · intro h0; simp at h0
  · intro l hl; simp [loneJump] at hl
  · intro k b
    rw [htr]
    cases hlk : env.labels.lookup n with
    | some i => exact Grow.set_lab b (he.3 n i hlk) k
    | none => exact Grow.push _ _
  intro r i0 hp _ k b _ m j hex hin hcont
  obtain ⟨i, hlk, hR⟩ := hex.labs n id hn (hin n id hid)
  have hit : ItemC cx.cp cx.rs ⟨r, i0⟩ (.label id true) := by simpa using hp.item (d := 0) rfl
  have htg : target cx.rs (cx.cp.σ id) = ⟨r, i0⟩ := by simpa using hp.resolve cx.hlab (d := 0) (l := id) (nm := true) rfl
  rw [htr, hlk]
  simp only
  refine ⟨by rw [← htg]; exact hR, ?_⟩
  intro i' kn hi' e1 e2
  have hii : i = i' := by
    by_cases e : i = i'
    · exact e
    · exact absurd (by rw [tbl_set, List.getElem?_set_ne e]) e2
  subst hii
  have hk : kn = k := by
    rw [tbl_set, List.getElem?_set_self hi'] at e1
    simpa using e1.symm
  subst hk
  refine ⟨n, id, ⟨r, i0⟩, true, hlk, hin n id hid, hit, ?_⟩
  have := hcont (by simp [falls, needsEndJump, Comp.endsFlow, endsName])
  simpa [LPos.next] using this

/-- `jump @name;` -/
theorem jump_pm (cx : Cx) (fuel : Nat) (env : Src.Env) (n : String) (hn : n ∈ cx.defs) :
    PM cx (jumpStmt n) (fun k b => Src.tr fuel cx.sm env (.jump n) k b) env := by
  intro s items s' h
  simp only [jumpStmt, bind_ok, pure_ok] at h
  obtain ⟨id, s1, h1, jj, s2, h2, h3⟩ := h
  simp only [Prod.mk.injEq] at h3
  obtain ⟨rfl, rfl⟩ := h3
  obtain ⟨hst, hid⟩ := userLabel_stk h1
  obtain ⟨e2, rfl⟩ := genJump_stk h2
  refine exit_piece cx _ id s s' (hst.trans e2) env _ (fun k b => ?_) (fun m j hx hin => ?_)
  · rw [Src.tr]
    simp only [Src.lookupLabel]
    cases env.labels.lookup n with
    | some t => exact Grow.refl b
    | none => exact Grow.push _ _
  · obtain ⟨i, hlk, hR⟩ := hx.labs n id hn (hin n id (e2.3 n id hid))
    exact ⟨i, fun k b => by rw [Src.tr]; simp [Src.lookupLabel, hlk], hR⟩

/-- `call @name;` : a test that goes to the label when taken -/
theorem call_pm (cx : Cx) (fuel : Nat) (env : Src.Env) (n : String) (hn : n ∈ cx.defs) :
    PM cx (callStmt n) (fun k b => Src.tr fuel cx.sm env (.call n) k b) env := by
  intro s items s' h
  simp only [callStmt, bind_ok, pure_ok] at h
  obtain ⟨id, s1, h1, o, s2, h2, h3⟩ := h
  simp only [Prod.mk.injEq] at h3
  obtain ⟨rfl, rfl⟩ := h3
  obtain ⟨hst, hid⟩ := userLabel_stk h1
  obtain ⟨rfl, rfl⟩ := genOp_spec h2
  have hst2 : SameStk s (s1.tickedOp 1) := hst.trans (sameStk_tickedOp _ _)
  have htr : ∀ k b, Src.tr fuel cx.sm env (.call n) k b =
      ((Src.lookupLabel env b n).1.push (.test ⟨ESV.Spec.op_call, []⟩ (Src.lookupLabel env b n).2 k)) := by
    intro k b; rw [Src.tr]
  have hgrow : ∀ k b, Grow cx.Z b (Src.tr fuel cx.sm env (.call n) k b).1 := by
    intro k b
    rw [htr]
    simp only [Src.lookupLabel]
    cases env.labels.lookup n with
    | some t => exact Grow.push _ _
    | none => exact (Grow.push _ _).trans (Grow.push _ _)
  refine ⟨hst2.1, hst2.2, hst2.3, ?_, ?_, ?_, ?_, hgrow, ?_⟩
  · simp [lastNotCtx, isCtxL]
  · intro x hx root e; simp at hx; subst hx; cases e
  · intro h0; simp at h0
  · intro l hl
    have : (Gen.op_call == Gen.op_jump) = false := by decide
    simp [loneJump, this] at hl
  intro r i0 hp _ k b hag m j hex hin hcont
  obtain ⟨i, hlk, hR⟩ := hex.labs n id hn (hin n id hid)
  have hit : ItemC cx.cp cx.rs ⟨r, i0⟩ (.ljump ⟨s1.opc + 1, Gen.op_call, []⟩ (some id)) := by simpa using hp.item (d := 0) rfl
  have hstep := lab_test hit (isTest_not_jump _ call_isTest) call_isTest
  rw [htr] at hag ⊢
  have hlook : Src.lookupLabel env b n = (b, i) := by simp [Src.lookupLabel, hlk]
  rw [hlook] at hag ⊢
  simp only at hag ⊢
  obtain ⟨a1, a2⟩ := tbl_push b (.test ⟨ESV.Spec.op_call, []⟩ i k)
  have hN := agree_last hag a1
  have hev : (⟨Gen.op_call, convParams ([].map cx.cp.sub)⟩ : Ev) = ⟨ESV.Spec.op_call, []⟩ := by
    show (⟨Gen.op_call, []⟩ : Ev) = _
    decide
  simp only [hev] at hstep
  have hfalls : falls [LItem.ljump ⟨s1.opc + 1, Gen.op_call, []⟩ (some id)] = true := by
    show (!(Gen.opsEndFlow.contains Gen.op_call)) = true
    decide
  rw [a2]
  refine ⟨R2.test hstep (nodeStep_of hN) hR.1 (by simpa [LPos.next] using (hcont hfalls).1), ?_⟩
  exact LabExport.same (fun i' hi' => (Pushes.push _ _).same hi')

end ESV.Comp
