import ESV.Comp.BackSemFin
import ESV.Comp.BackSemRem
/-
Back-end correctness: `LabelFinalizer`'s output satisfies the hypotheses of the remover pass (no trailing labels, context
ops still followed by plain ops, and the label table maps every label to the offset of the next op), hence
`finalize_remover_preserves`.
-/
namespace ESV.Comp
open ESV ESV.Beh

/-! ### shape of the output -/

theorem finDrop_nil (x : LItem) : finDrop x [] = false := by
  cases x with
  | label id nm => rfl
  | op o => rfl
  | ljump root l => cases l <;> simp [finDrop, jumpRemoved, labelsAfter]

theorem fin_last (its : List LItem) : ∀ x, its.getLast? = some x →
    ((finDec its).filterMap (·.2)).getLast? = some x := by
  induction its with
  | nil => intro x h; simp at h
  | cons a r ih =>
    intro x h
    cases r with
    | nil =>
      simp at h; subst h
      simp [finDec, finDrop_nil]
    | cons b r' =>
      rw [List.getLast?_cons_cons] at h
      have := ih x h
      rw [show finDec (a :: b :: r') = (a, if finDrop a (b :: r') then none else some a) :: finDec (b :: r') from rfl]
      generalize finDec (b :: r') = D at this ⊢
      cases hd : finDrop a (b :: r') with
      | true => simpa using this
      | false =>
        simp only [Bool.false_eq_true, if_false, List.filterMap_cons]
        rw [List.getLast?_cons, this]; rfl

theorem fin_noTrail (its : List LItem) (h : noTrail its = true) : noTrail ((finDec its).filterMap (·.2)) = true := by
  cases hl : its.getLast? with
  | none =>
    have : its = [] := List.getLast?_eq_none_iff.mp hl
    subst this; rfl
  | some x =>
    simp only [noTrail, hl] at h
    simp only [noTrail, fin_last its x hl]
    exact h

def headOK (y : LItem) : List LItem → Bool
  | [] => true
  | z :: _ => !isCtxL y || afterCtxOK z

theorem ctxOK_cons (y : LItem) (L : List LItem) : ctxOK (y :: L) = (headOK y L && ctxOK L) := by
  cases L <;> simp [ctxOK, headOK]

/-- dropping items that may not follow a context op anyway keeps `ctxOK` -/
theorem ctxOK_dec (dl : List Dec)
    (hs : ∀ x y, (x, some y) ∈ dl → isCtxL y = isCtxL x ∧ (afterCtxOK x = true → afterCtxOK y = true))
    (hd : ∀ x, (x, none) ∈ dl → afterCtxOK x = false) (h : ctxOK (dl.map (·.1)) = true) :
    ctxOK (dl.filterMap (·.2)) = true := by
  induction dl with
  | nil => rfl
  | cons a r ih =>
    obtain ⟨x, d⟩ := a
    simp only [List.map_cons, ctxOK_cons, Bool.and_eq_true] at h
    have ih' := ih (fun x y hm => hs x y (List.mem_cons_of_mem _ hm)) (fun x hm => hd x (List.mem_cons_of_mem _ hm)) h.2
    cases d with
    | none => simpa using ih'
    | some y =>
      simp only [List.filterMap_cons, ctxOK_cons, Bool.and_eq_true]
      refine ⟨?_, ih'⟩
      obtain ⟨e1, _⟩ := hs x y (List.mem_cons_self ..)
      cases r with
      | nil => rfl
      | cons b r' =>
        obtain ⟨z, dz⟩ := b
        have hh := h.1
        simp only [List.map_cons, headOK, Bool.or_eq_true, Bool.not_eq_true'] at hh
        rcases hh with hh | hh
        · cases hL : List.filterMap (fun x => x.2) ((z, dz) :: r') with
          | nil => rfl
          | cons w ws => simp [headOK, e1, hh]
        · cases dz with
          | none =>
            have := hd z (by simp)
            rw [this] at hh; cases hh
          | some z' =>
            have := (hs z z' (by simp)).2 hh
            simp [headOK, this]

theorem fin_ctxOK (its : List LItem) (h : ctxOK its = true) : ctxOK ((finDec its).filterMap (·.2)) = true := by
  apply ctxOK_dec
  · intro x y hm
    rcases finDec_mem its x _ hm with h | ⟨h, _⟩
    · simp at h; subst h; exact ⟨rfl, id⟩
    · cases h
  · intro x hm
    rcases finDec_mem its x _ hm with h | ⟨_, root, l, rfl, hn⟩
    · cases h
    · simp [afterCtxOK, gen_jump_isJump _ hn]
  · rw [finDec_old]; exact h

/-! ### the label table -/

/-- the table bookkeeping of `LabelFinalizer` run over the items that stay -/
def tblRun : List LItem → FinSt → FinSt
  | [], st => st
  | .label id _ :: r, st => tblRun r { st with waiting := st.waiting ++ [id] }
  | .op o :: r, st => tblRun r ⟨[], setAll st.offsets st.waiting o.offset⟩
  | .ljump root _ :: r, st => tblRun r ⟨[], setAll st.offsets st.waiting root.offset⟩

theorem tblRun_append (a b : List LItem) : ∀ st, tblRun (a ++ b) st = tblRun b (tblRun a st) := by
  induction a with
  | nil => intro st; rfl
  | cons x r ih => intro st; cases x <;> simp [tblRun, ih]

theorem finRoutine_tbl (its : List LItem) : ∀ st, (finRoutine its st).2 = tblRun (finRoutine its st).1 st := by
  induction its with
  | nil => intro st; rfl
  | cons x r ih =>
    intro st
    cases x with
    | label id nm => simp only [finRoutine, tblRun]; exact ih _
    | op o => simp only [finRoutine, tblRun]; exact ih _
    | ljump root l =>
      simp only [finRoutine]
      split
      · exact ih st
      · simp only [tblRun]; exact ih _

theorem finalize_tbl (s : List (List LItem)) : ∀ st, (finalize s st).2 = tblRun (finalize s st).1.flatten st := by
  induction s with
  | nil => intro st; rfl
  | cons r rs ih =>
    intro st
    simp only [finalize, List.flatten_cons, tblRun_append]
    rw [← finRoutine_tbl r st]
    exact ih _

theorem get?_setAll (ids : List Nat) (v : Nat) (l : Nat) : ∀ (d : List (Nat × Nat)),
    Dict.get? (setAll d ids v) l = if l ∈ ids then some v else Dict.get? d l := by
  induction ids with
  | nil => intro d; simp [setAll]
  | cons i r ih =>
    intro d
    simp only [setAll, List.foldl_cons]
    have := ih (Dict.set d i v)
    simp only [setAll] at this
    rw [this]
    by_cases h1 : l ∈ r
    · simp [h1]
    · by_cases h2 : l = i
      · subst h2; simp [h1, Dict.get?_set_self]
      · simp [h1, h2, Dict.get?_set_other d i l v (fun e => h2 e.symm)]

/-- where a table entry comes from -/
theorem tblRun_spec (L : List LItem) : ∀ (st : FinSt) (l t : Nat), Dict.get? (tblRun L st).offsets l = some t →
    Dict.get? st.offsets l = some t ∨ (l ∈ st.waiting ∧ firstOff L = some t) ∨
    (∃ pre nm post, L = pre ++ .label l nm :: post ∧ firstOff post = some t) := by
  induction L with
  | nil => intro st l t h; exact .inl h
  | cons x r ih =>
    intro st l t h
    have shift : (∃ pre nm post, r = pre ++ LItem.label l nm :: post ∧ firstOff post = some t) →
        ∃ pre nm post, x :: r = pre ++ LItem.label l nm :: post ∧ firstOff post = some t := by
      rintro ⟨pre, nm, post, e1, e2⟩
      exact ⟨x :: pre, nm, post, by simp [e1], e2⟩
    cases x with
    | label id nm =>
      simp only [tblRun] at h
      rcases ih _ l t h with h1 | ⟨h1, h2⟩ | h1
      · exact .inl h1
      · simp only [List.mem_append, List.mem_singleton] at h1
        rcases h1 with h1 | h1
        · exact .inr (.inl ⟨h1, by simpa [firstOff] using h2⟩)
        · subst h1
          exact .inr (.inr ⟨[], nm, r, rfl, h2⟩)
      · exact .inr (.inr (shift h1))
    | op o =>
      simp only [tblRun] at h
      rcases ih _ l t h with h1 | ⟨h1, _⟩ | h1
      · simp only [get?_setAll] at h1
        split at h1
        · rename_i hm
          simp at h1; subst h1
          exact .inr (.inl ⟨hm, rfl⟩)
        · exact .inl h1
      · simp at h1
      · exact .inr (.inr (shift h1))
    | ljump root tl =>
      simp only [tblRun] at h
      rcases ih _ l t h with h1 | ⟨h1, _⟩ | h1
      · simp only [get?_setAll] at h1
        split at h1
        · rename_i hm
          simp at h1; subst h1
          exact .inr (.inl ⟨hm, rfl⟩)
        · exact .inl h1
      · simp at h1
      · exact .inr (.inr (shift h1))

/-- a place in the flattened code is a place in a routine -/
theorem flatten_split (f : List (List LItem)) : ∀ (pre : List LItem) (x : LItem) (post : List LItem),
    f.flatten = pre ++ x :: post →
    ∃ r its j, f[r]? = some its ∧ its[j]? = some x ∧ post = its.drop (j + 1) ++ (f.drop (r + 1)).flatten := by
  induction f with
  | nil => intro pre x post h; simp at h
  | cons a rest ih =>
    intro pre x post h
    simp only [List.flatten_cons] at h
    rcases List.append_eq_append_iff.mp h with ⟨c, e1, e2⟩ | ⟨c, e1, e2⟩
    · obtain ⟨r, its, j, h1, h2, h3⟩ := ih c x post e2
      exact ⟨r + 1, its, j, by simpa using h1, h2, by simpa using h3⟩
    · cases c with
      | nil =>
        simp only [List.nil_append] at e2
        obtain ⟨r, its, j, h1, h2, h3⟩ := ih [] x post (by simpa using e2.symm)
        exact ⟨r + 1, its, j, by simpa using h1, h2, by simpa using h3⟩
      | cons y c' =>
        simp only [List.cons_append, List.cons.injEq] at e2
        obtain ⟨rfl, e3⟩ := e2
        refine ⟨0, a, pre.length, by simp, by simp [e1], ?_⟩
        simp [e1, e3]

theorem firstOff_append (A B : List LItem) (h : 1 ≤ cntOps A) : firstOff (A ++ B) = firstOff A := by
  induction A with
  | nil => simp at h
  | cons x r ih =>
    cases x with
    | label id nm => simp only [List.cons_append, firstOff]; exact ih (by simpa [cntOps] using h)
    | op o => rfl
    | ljump root l => rfl

/-! ### composition -/

/-- hypotheses on the code handed to `LabelFinalizer` -/
structure FinHyp (s : List (List LItem)) : Prop where
  distinct : DistinctOffsets s
  labels : (labelIds s.flatten).Nodup
  raw : s.flatten.all rawOK = true
  root : s.flatten.all rootOK = true
  ctx : s.all ctxOK = true
  trail : s.all noTrail = true

theorem finalize_routines (s : List (List LItem)) (st : FinSt) :
    (finalize s st).1 = s.map fun its => (finDec its).filterMap (·.2) := by
  rw [finalize_new]; simp [newOf]

theorem labelIds_sublist {a b : List LItem} (h : a.Sublist b) : (labelIds a).Sublist (labelIds b) := by
  rw [labelIds_eq_filterMap, labelIds_eq_filterMap]; exact h.filterMap _

theorem fin_remHyp (s : List (List LItem)) (H : FinHyp s) (ops : List (List Op))
    (hrem : remover (finalize s ⟨[], []⟩).2.offsets (finalize s ⟨[], []⟩).1 = .ok ops) :
    RemHyp (finalize s ⟨[], []⟩).1 (finalize s ⟨[], []⟩).2.offsets ops := by
  obtain ⟨hsub, _, _⟩ := finalize_spec s ⟨[], []⟩ _ _ rfl
  have hlab : (labelIds (finalize s ⟨[], []⟩).1.flatten).Nodup := (labelIds_sublist hsub).nodup H.labels
  have htrail : (finalize s ⟨[], []⟩).1.all noTrail = true := by
    rw [finalize_routines, List.all_map, List.all_eq_true]
    intro its hits
    exact fin_noTrail its (List.all_eq_true.mp H.trail its hits)
  refine ⟨hrem, (offs_sublist hsub).nodup H.distinct, htrail, ?_, ?_, ?_, ?_⟩
  · rw [List.all_eq_true]; intro x hx; exact List.all_eq_true.mp H.raw x (hsub.subset hx)
  · rw [List.all_eq_true]; intro x hx; exact List.all_eq_true.mp H.root x (hsub.subset hx)
  · rw [finalize_routines, List.all_map, List.all_eq_true]
    intro its hits
    exact fin_ctxOK its (List.all_eq_true.mp H.ctx its hits)
  · intro l t hget
    rw [finalize_tbl] at hget
    rcases tblRun_spec _ _ l t hget with h | ⟨h, _⟩ | ⟨pre, nm, post, h1, h2⟩
    · simp [Dict.get?] at h
    · simp at h
    · obtain ⟨r, its, j, e1, e2, e3⟩ := flatten_split _ pre _ post h1
      have hnt : noTrail its = true := List.all_eq_true.mp htrail its (List.mem_of_getElem? e1)
      have hj := noTrail_label_not_last its hnt j l nm e2
      have hc : 1 ≤ cntOps (its.drop (j + 1)) := by
        have h1 := cntOps_take_lt its hnt (j + 1) hj
        have h2 := cntOps_append (its.take (j + 1)) (its.drop (j + 1))
        rw [List.take_append_drop] at h2
        omega
      rw [e3, firstOff_append _ _ hc] at h2
      refine ⟨⟨r, j⟩, its, ?_, e1, ?_⟩
      · have := findLabel_unique l nm _ 0 r its j hlab e1 e2
        simpa using this
      · have hd : its.drop j = .label l nm :: its.drop (j + 1) := by
          have hjl : j < its.length := by omega
          rw [List.drop_eq_getElem_cons hjl]
          congr 1
          rw [List.getElem?_eq_getElem hjl] at e2
          exact Option.some.inj e2
        show firstOff (its.drop j) = some t
        rw [hd]; exact h2

/-- **`LabelFinalizer` followed by `OpsLabelJumpToRemover` preserves behaviour** for labelled code without trailing
labels. -/
theorem finalize_remover_preserves (s : List (List LItem)) (H : FinHyp s) (ops : List (List Op))
    (hrem : remover (finalize s ⟨[], []⟩).2.offsets (finalize s ⟨[], []⟩).1 = .ok ops) (r : Nat) (hr : r < s.length) :
    Equivalent (labLTS s) (Machine.lts ⟨flatten (conv ops)⟩) (labEntry s r) (Machine.entry ⟨flatten (conv ops)⟩ r) := by
  have h1 := finalize_drop_preserves s H.labels H.ctx ⟨[], []⟩ r
  have hlen : (finalize s ⟨[], []⟩).1.length = s.length := by rw [finalize_routines]; simp
  have h2 := remover_preserves (fin_remHyp s H ops hrem) r (by omega)
  exact h1.trans h2

end ESV.Comp
