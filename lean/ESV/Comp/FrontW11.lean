import ESV.Comp.FrontW10
/-
`frontend_wfl`, part 11: the recursion over the statement tree.
-/
namespace ESV.Comp
open ESV ESV.Beh

theorem earlyItems_cons (a : ElifA) (r : List ElifA) : earlyItems (a :: r) = earlyItems [a] ++ earlyItems r := by
  simp [earlyItems]

theorem bnd_sub {c : LCtx} {lb vl lb' vl' : Nat} (h : Bnd c lb vl) (h1 : lb ≤ lb') (h2 : lb' + vl' ≤ lb + vl) : Bnd c lb' vl' :=
  ⟨Nat.le_trans h.1 h1, Nat.le_trans h2 h.2⟩

theorem bnd_res {c : LCtx} {lb vl k : Nat} (h : Bnd c lb vl) (h1 : lb < k) (h2 : k ≤ lb + vl) : c.LB < k ∧ k ≤ c.HB :=
  ⟨Nat.lt_of_le_of_lt h.1 h1, Nat.le_trans h2 h.2⟩

mutual
theorem cStmt_w (ms : Macros) (hms : MsW ms) (c : LCtx) : ∀ (st : Stmt) (lb : Nat), wStmt st = true → Bnd c lb (vlStmt st) →
    WM c (rsStmt lb st) (dfStmt st) (cStmt ms lb st)
  | .op name ps, lb, hw, _ => by
    simp only [cStmt, rsStmt, dfStmt]
    exact opStmt_w ps (by simpa [wStmt] using hw)
  | .inl cn cp n ps, lb, hw, _ => by
    simp only [cStmt, rsStmt, dfStmt]
    simp only [wStmt, Bool.and_eq_true, Bool.not_eq_true'] at hw
    exact inlStmt_w cp ps hw.1 hw.2
  | .with_ cn cp inner, lb, hw, _ => by
    simp only [cStmt, rsStmt, dfStmt]
    simp only [wStmt] at hw
    obtain ⟨a, b⟩ := inner_w (c := c) ms lb inner hw
    exact withOf_w cp a b
  | .label n, lb, _, _ => by simp only [cStmt, rsStmt, dfStmt]; exact labelStmt_w n
  | .jump n, lb, _, _ => by simp only [cStmt, rsStmt, dfStmt]; exact jumpStmt_w n
  | .call n, lb, _, _ => by simp only [cStmt, rsStmt, dfStmt]; exact callStmt_w n
  | .ret, lb, _, _ => by simp only [cStmt, rsStmt, dfStmt]; exact opStmt_w [] end_facts.2.2.2.2.1
  | .end_, lb, _, _ => by simp only [cStmt, rsStmt, dfStmt]; exact opStmt_w [] end_facts.1
  | .hold, lb, _, _ => by simp only [cStmt, rsStmt, dfStmt]; exact opStmt_w [] end_facts.2.2.1
  | .brk, lb, _, _ => by simp only [cStmt, rsStmt, dfStmt]; exact brkStmt_w
  | .cont, lb, _, _ => by simp only [cStmt, rsStmt, dfStmt]; exact contStmt_w
  | .brkLoop, lb, _, _ => by simp only [cStmt, rsStmt, dfStmt]; exact brkLoopStmt_w
  | .ite neg hdrs body elifs hasElse els, lb, hw, hb => by
    simp only [cStmt, rsStmt, dfStmt]
    simp only [wStmt, Bool.and_eq_true] at hw
    simp only [vlStmt] at hb
    exact iteOf_w neg hdrs (hdrsOK_of_all hdrs hw.1.1.1) hasElse
      (cStmts_w ms hms c body lb hw.1.1.2 (bnd_sub hb (Nat.le_refl _) (by omega)))
      (elsePartOf_w (cStmts_w ms hms c els _ hw.2 (bnd_sub hb (by omega) (by omega))))
      (cElifsA_w ms hms c elifs _ hw.1.2 (bnd_sub hb (by omega) (by omega)))
      (cElifsB_w ms hms c elifs _ hw.1.2 (bnd_sub hb (by omega) (by omega)))
  | .switch hdr cs, lb, hw, hb => by
    simp only [cStmt, rsStmt, dfStmt]
    simp only [wStmt, Bool.and_eq_true, Bool.not_eq_true'] at hw
    simp only [vlStmt] at hb
    exact switchOf_w hdr cs hw.1 (casesOK_of_w cs hw.2) (cCases_w ms hms c cs lb hw.2 hb)
  | .forever body, lb, hw, hb => by
    simp only [cStmt, rsStmt, dfStmt]
    simp only [wStmt] at hw
    simp only [vlStmt] at hb
    exact foreverOf_w lb (cStmts_w ms hms c body _ hw (bnd_sub hb (by omega) (by omega)))
      (bnd_res hb (by omega) (by omega)) (bnd_res hb (by omega) (by omega))
  | .while_ neg h body, lb, hw, hb => by
    simp only [cStmt, rsStmt, dfStmt]
    simp only [wStmt, Bool.and_eq_true] at hw
    simp only [vlStmt] at hb
    exact whileOf_w lb neg h hw.1 (cStmts_w ms hms c body _ hw.2 (bnd_sub hb (by omega) (by omega)))
      (bnd_res hb (by omega) (by omega)) (bnd_res hb (by omega) (by omega))
  | .for_ init h inc body, lb, hw, hb => by
    simp only [cStmt, rsStmt, dfStmt]
    simp only [wStmt, Bool.and_eq_true] at hw
    simp only [vlStmt] at hb
    obtain ⟨⟨⟨⟨⟨ht, si⟩, se⟩, wi⟩, we⟩, wb⟩ := hw
    have hi := cStmt_w ms hms c init (lb + 5) wi (by rw [simple_vl init si]; exact bnd_sub hb (by omega) (by omega))
    have he := cStmt_w ms hms c inc (lb + 5) we (by rw [simple_vl inc se]; exact bnd_sub hb (by omega) (by omega))
    rw [simple_rs _ init si] at hi
    rw [simple_rs _ inc se] at he
    exact forOf_w lb h ht hi he (cStmts_w ms hms c body _ wb (bnd_sub hb (by omega) (by omega)))
      (fun k h1 h2 => bnd_res hb (by omega) (by omega))
  | .macroCall name args, lb, _, _ => by simp only [cStmt, rsStmt, dfStmt]; exact macroStmt_w hms name args

theorem cStmts_w (ms : Macros) (hms : MsW ms) (c : LCtx) : ∀ (ss : Stmts) (lb : Nat), wStmts ss = true → Bnd c lb (vlStmts ss) →
    WM c (rsStmts lb ss) (dfStmts ss) (cStmts ms lb ss)
  | .nil, lb, _, _ => by
    intro s items s' hs h
    simp only [cStmts, pure_ok, Prod.mk.injEq] at h
    obtain ⟨rfl, rfl⟩ := h
    simp only [rsStmts, dfStmts]
    exact W.nil hs
  | .cons st r, lb, hw, hb => by
    intro s items s' hs h
    simp only [wStmts, Bool.and_eq_true] at hw
    simp only [vlStmts] at hb
    simp only [cStmts, bind_ok, pure_ok] at h
    obtain ⟨a, s1, h1, b, s2, h2, h3⟩ := h
    simp only [Prod.mk.injEq] at h3
    obtain ⟨rfl, rfl⟩ := h3
    have w1 := cStmt_w ms hms c st lb hw.1 (bnd_sub hb (Nat.le_refl _) (by omega)) _ _ _ hs h1
    have w2 := cStmts_w ms hms c r _ hw.2 (bnd_sub hb (by omega) (by omega)) _ _ _ w1.ok h2
    simp only [rsStmts, dfStmts]
    exact w1.append w2

theorem cElifsA_w (ms : Macros) (hms : MsW ms) (c : LCtx) : ∀ (es : Elifs) (lb : Nat), wElifs es = true → Bnd c lb (vlElifs es) →
    EAS (negsOf es) c (rsElifsA lb es) (dfElifsA es) (cElifsA ms lb es)
  | .nil, lb, _, _ => by
    intro s as s' hs h
    simp only [cElifsA, pure_ok, Prod.mk.injEq] at h
    obtain ⟨rfl, rfl⟩ := h
    simp only [rsElifsA, dfElifsA]
    exact ⟨rfl, by simpa [earlyItems] using W.nil hs, fun a ha => by simp at ha⟩
  | .cons neg hdrs body r, lb, hw, hb => by
    intro s as s' hs h
    simp only [wElifs, Bool.and_eq_true] at hw
    simp only [vlElifs] at hb
    simp only [cElifsA, bind_ok, pure_ok] at h
    obtain ⟨a, s1, h1, rest, s2, h2, h3⟩ := h
    simp only [Prod.mk.injEq] at h3
    obtain ⟨rfl, rfl⟩ := h3
    obtain ⟨w1, wf, hn⟩ := elifAOf_w neg hdrs (hdrsOK_of_all hdrs hw.1.1)
      (cStmts_w ms hms c body lb hw.1.2 (bnd_sub hb (Nat.le_refl _) (by omega))) hs h1
    obtain ⟨l2, w2, wfs⟩ := cElifsA_w ms hms c r _ hw.2 (bnd_sub hb (by omega) (by omega)) _ _ _ w1.ok h2
    refine ⟨by simp [negsOf, hn, l2], ?_, fun x hx => ?_⟩
    · rw [earlyItems_cons]
      simp only [rsElifsA, dfElifsA]
      exact w1.append w2
    · simp only [List.mem_cons] at hx
      rcases hx with rfl | hx
      · exact wf
      · exact wfs x hx

theorem cElifsB_w (ms : Macros) (hms : MsW ms) (c : LCtx) : ∀ (es : Elifs) (lb : Nat), wElifs es = true → Bnd c lb (vlElifs es) →
    EBS (negsOf es) c (rsElifsB lb es) (dfElifsB es) (cElifsB ms lb es)
  | .nil, lb, _, _ => by
    intro as hl _ s late s' hs h
    simp only [cElifsB, pure_ok, Prod.mk.injEq] at h
    obtain ⟨rfl, rfl⟩ := h
    have : as = [] := by simpa [negsOf] using hl
    subst this
    simp only [rsElifsB, dfElifsB]
    exact ⟨by simpa [elifsBack] using W.nil hs, fun n => by simp [elifsFront, earlyItems], fun n => by simp [elifsFront, earlyItems],
      fun z hz => by simp [elifsFront] at hz, by simpa [elifsFront] using CtxP.nil⟩
  | .cons neg hdrs body r, lb, hw, hb => by
    intro as hl wfs s late s' hs h
    simp only [wElifs, Bool.and_eq_true] at hw
    simp only [vlElifs] at hb
    cases as with
    | nil => simp [cElifsB, fail_ok] at h
    | cons a as' =>
      simp only [negsOf, List.map_cons, List.cons.injEq] at hl
      obtain ⟨hneg, hl'⟩ := hl
      simp only [cElifsB, bind_ok, pure_ok] at h
      obtain ⟨b, s1, h1, rest, s2, h2, h3⟩ := h
      simp only [Prod.mk.injEq] at h3
      obtain ⟨rfl, rfl⟩ := h3
      have wfa := wfs a (by simp)
      obtain ⟨w1, jb, he, cb, rb⟩ := elifBOf_w wfa
        (cStmts_w ms hms c body lb hw.1.2 (bnd_sub hb (Nat.le_refl _) (by omega))) hs h1
      obtain ⟨w2, f1, f2, f3, f4⟩ := cElifsB_w ms hms c r _ hw.2 (bnd_sub hb (by omega) (by omega)) as' hl'
        (fun x hx => wfs x (by simp [hx])) _ _ _ w1.ok h2
      rw [hneg] at w1
      simp only [rsElifsB, dfElifsB]
      refine ⟨by simpa [elifsBack, hneg] using w1.append w2, fun n => ?_, fun n => ?_, fun z hz => ?_, ?_⟩
      · have := f1 n
        cases hn : a.neg with
        | true =>
          simp only [elifsFront, earlyItems, hn, he hn, ↓reduceIte, intIds_append, List.count_append, jb.intIds, List.count_nil]
          omega
        | false =>
          simp only [elifsFront, earlyItems, hn, wfa.pos_early hn, Bool.false_eq_true, ↓reduceIte, intIds_append, List.count_append,
            jb.intIds, List.count_nil, intIds_nil]
          omega
      · have := f2 n
        cases hn : a.neg with
        | true =>
          simp only [elifsFront, earlyItems, hn, he hn, ↓reduceIte, usrIds_append, List.count_append, jb.usrIds, List.count_nil]
          omega
        | false =>
          simp only [elifsFront, earlyItems, hn, wfa.pos_early hn, Bool.false_eq_true, ↓reduceIte, usrIds_append, List.count_append,
            jb.usrIds, List.count_nil, usrIds_nil]
          omega
      · simp only [elifsFront, List.mem_append] at hz
        rcases hz with (hz | hz) | hz
        · exact jb.root z hz
        · split at hz
          · exact rb z hz
          · simp at hz
        · exact f3 z hz
      · simp only [elifsFront]
        refine (jb.noCtx.ctxP.append ?_).append f4
        split
        · exact cb
        · exact CtxP.nil

theorem cCases_w (ms : Macros) (hms : MsW ms) (c : LCtx) : ∀ (cs : Cases) (lb : Nat), wCases cs = true → Bnd c lb (vlCases cs) →
    CSW c (rsCases lb cs) (dfCases cs) (fun endL bps st0 => cCases ms lb endL cs bps st0)
  | .nil, lb, _, _ => by
    intro endL bps st s st' s' hs hst _ h
    simp only [cCases, pure_ok, Prod.mk.injEq] at h
    obtain ⟨rfl, rfl⟩ := h
    simp only [rsCases, dfCases]
    exact ⟨[], by simp, W.nil hs, hst⟩
  | .cons true nm ps body r, lb, hw, hb => by
    intro endL bps st s st' s' hs hst hbps h
    simp only [wCases, Bool.and_eq_true] at hw
    simp only [vlCases] at hb
    simp only [cCases, bind_ok] at h
    obtain ⟨st1, s1, h1, h2⟩ := h
    obtain ⟨x1, e1, w1, ok1⟩ := defaultStep_w endL body.isNil
      (cStmts_w ms hms c body lb hw.1.2 (bnd_sub hb (Nat.le_refl _) (by omega))) _ _ _ _ hs hst h1
    obtain ⟨x2, e2, w2, ok2⟩ := cCases_w ms hms c r _ hw.2 (bnd_sub hb (by omega) (by omega)) _ _ _ _ _ _ w1.ok ok1 hbps h2
    simp only [rsCases, dfCases]
    exact ⟨x1 ++ x2, by rw [e2, e1, List.append_assoc], w1.append w2, ok2⟩
  | .cons false nm ps body r, lb, hw, hb => by
    intro endL bps st s st' s' hs hst hbps h
    simp only [wCases, Bool.and_eq_true] at hw
    simp only [vlCases] at hb
    cases bps with
    | nil => simp [cCases, fail_ok] at h
    | cons bp bps' =>
      simp only [cCases, bind_ok] at h
      obtain ⟨st1, s1, h1, h2⟩ := h
      obtain ⟨x1, e1, w1, ok1⟩ := caseStep_w endL bp (hbps bp (by simp)) body.isNil
        (cStmts_w ms hms c body lb hw.1.2 (bnd_sub hb (Nat.le_refl _) (by omega))) _ _ _ _ hs hst h1
      obtain ⟨x2, e2, w2, ok2⟩ := cCases_w ms hms c r _ hw.2 (bnd_sub hb (by omega) (by omega)) _ _ _ _ _ _ w1.ok ok1
        (fun b hb' => hbps b (List.mem_cons_of_mem _ hb')) h2
      simp only [rsCases, dfCases]
      exact ⟨x1 ++ x2, by rw [e2, e1, List.append_assoc], w1.append w2, ok2⟩
end

end ESV.Comp
