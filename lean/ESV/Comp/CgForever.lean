import ESV.Comp.CgLoop
/-
`codegen_correct`, loops: `forever`.
-/
namespace ESV.Comp
open ESV ESV.Beh

/-- the environment of a loop body -/
def loopEnv (env : Src.Env) (c bl : Nat) : Src.Env := { env with cont := some c, brkLoop := some bl }

theorem plainEnv_loopEnv {cx : Cx} {env : Src.Env} (he : EnvOK cx env) (c bl : Nat) : EnvOK cx (loopEnv env c bl) := ⟨he.1, he.2, he.3⟩

theorem NoNone.append {a b : List LItem} (ha : NoNone a) (hb : NoNone b) : NoNone (a ++ b) := by
  intro x hx
  rcases List.mem_append.mp hx with h | h
  · exact ha x h
  · exact hb x h

theorem noNone_label (l : Nat) (nm : Bool) : NoNone [LItem.label l nm] := by
  intro x hx root e; simp at hx; subst hx; cases e

theorem noNone_jump (o : Op) (l : Nat) : NoNone [LItem.ljump o (some l)] := by
  intro x hx root e; simp at hx; subst hx; cases e

/-- exits of a loop body from the exits around the loop -/
theorem exitsOK_push {cx : Cx} {m j : Nat} {s : St} {env : Src.Env} (hex : ExitsOK cx m j s env) (cl bl : Nat) {c k : Nat}
    (h1 : R2 cx m j (target cx.rs (cx.cp.σ cl)) c) (h2 : R2 cx m j (target cx.rs (cx.cp.σ bl)) k) {sa : St} (hl : sa.loops = (cl, bl) :: s.loops)
    (hc : sa.cases = s.cases) : ExitsOK cx m j sa (loopEnv env c k) := by
  refine ⟨fun cl' bl' rest hs => ?_, fun e rest hs => hex.case e rest (by rw [← hc]; exact hs), hex.labs, hex.ret⟩
  rw [hl] at hs
  simp only [List.cons.injEq, Prod.mk.injEq] at hs
  obtain ⟨⟨rfl, rfl⟩, _⟩ := hs
  exact ⟨c, k, rfl, rfl, h1, h2⟩

theorem tr_forever (fuel : Nat) (sm : List Src.Macro) (env : Src.Env) (B : Src.Stmts) (k : Nat) (b : Src.B) :
    Src.tr fuel sm env (.forever B) k b =
      ((Src.trStmts fuel sm (loopEnv env (tbl b).length k) B (tbl b).length (b.push (.halt (evInvalid "loop head"))).1).1.set (tbl b).length
        (.silent (Src.trStmts fuel sm (loopEnv env (tbl b).length k) B (tbl b).length (b.push (.halt (evInvalid "loop head"))).1).2),
       (tbl b).length) := by
  rw [Src.tr]; rfl

theorem forever_pm (cx : Cx) (fuel : Nat) (env : Src.Env) (he : EnvOK cx env) (lb : Nat) (body : Stmts) (bodyM : M (List LItem))
    (hBody : ∀ env', EnvOK cx env' → PM cx bodyM (fun k b => Src.trStmts fuel cx.sm env' (toSrcStmts body) k b) env') :
    PM cx (foreverOf lb bodyM) (fun k b => Src.tr fuel cx.sm env (.forever (toSrcStmts body)) k b) env := by
  intro s items s' h
  simp only [foreverOf, bind_ok, pushLoop_ok, popLoop_ok, pure_ok] at h
  obtain ⟨u1, sa, h1, blk, sc, h2, jj, sd, h3, u2, se, h4, h5⟩ := h
  simp only [Prod.mk.injEq] at h1 h4 h5
  obtain ⟨_, rfl⟩ := h1
  obtain ⟨_, rfl⟩ := h4
  obtain ⟨rfl, rfl⟩ := h5
  obtain ⟨e3, rfl⟩ := genJump_stk h3
  obtain ⟨ops, sb, sL, eB, hrun, e2, hitems⟩ := loop_block_shape h2
  have hP : ∀ env', EnvOK cx env' →
      PieceOK cx ops (s.pushLoop (lb + 1, lb + 2)) sb (fun k b => Src.trStmts fuel cx.sm env' (toSrcStmts body) k b) env' :=
    fun env' he' => hBody env' he' _ _ _ hrun
  have hP0 := hP env he
  have hstkL : sd.loops = (lb + 1, lb + 2) :: s.loops := by rw [e3.1, e2.1, hP0.loops]; rfl
  have hstkC : sd.cases = s.cases := by rw [e3.2, e2.2, hP0.cases]; rfl
  rw [hitems]
  have htr := fun k b => tr_forever fuel cx.sm env (toSrcStmts body) k b
  have hgrow : ∀ k b, Grow cx.Z b (Src.tr fuel cx.sm env (.forever (toSrcStmts body)) k b).1 := by
    intro k b
    rw [htr]
    exact ((Grow.push b _).trans ((hP _ (plainEnv_loopEnv he _ _)).grow _ _)).set_ge (Nat.le_refl _) _
  have hfalls : falls ([LItem.label (lb + 1) false] ++ ([LItem.label sL false] ++ ops ++ [LItem.label eB false]) ++
      [LItem.ljump ⟨sc.opc + 1, Gen.op_jump, []⟩ (some (lb + 1)), LItem.label (lb + 2) false]) = true := by
    have := falls_snoc_label ([LItem.label (lb + 1) false] ++ ([LItem.label sL false] ++ ops ++ [LItem.label eB false]) ++
      [LItem.ljump ⟨sc.opc + 1, Gen.op_jump, []⟩ (some (lb + 1))]) (lb + 2) false
    simpa [List.append_assoc] using this
  refine ⟨?_, ?_, fun n id h => e3.3 n id (e2.3 n id (hP0.named n id h)), ?_, ?_, ?_, ?_, hgrow, ?_⟩
  · show sd.loops.tail = s.loops
    rw [hstkL]; rfl
  · exact hstkC
  · have := lastNotCtx_snoc_label ([LItem.label (lb + 1) false] ++ ([LItem.label sL false] ++ ops ++ [LItem.label eB false]) ++
      [LItem.ljump ⟨sc.opc + 1, Gen.op_jump, []⟩ (some (lb + 1))]) (lb + 2) false
    simpa [List.append_assoc] using this
  · exact ((noNone_label _ _).append (((noNone_label _ _).append hP0.nonone).append (noNone_label _ _))).append
      ((noNone_jump _ _).append (noNone_label _ _))
  · intro h0; simp at h0
  · intro l hl
    simp only [List.append_assoc, List.cons_append, List.nil_append, loneJump_two] at hl
    cases hl
  intro r i0 hp hpre k b hag m j hex hin hcont
  have hinB : NamedIn cx sb := fun n id h => hin n id (e3.3 n id (e2.3 n id h))
  have hend := hcont hfalls
  rw [htr] at hag ⊢
  simp only at hag ⊢
  have hPe := hP (loopEnv env (tbl b).length k) (plainEnv_loopEnv he _ _)
  obtain ⟨hNh, hagB⟩ := agree_set hag (hPe.grow _ _)
  -- positions
  have hit0 : ItemC cx.cp cx.rs ⟨r, i0⟩ (.label (lb + 1) false) := by simpa using hp.item (d := 0) (by simp)
  have htgt1 : target cx.rs (cx.cp.σ (lb + 1)) = ⟨r, i0⟩ := by
    simpa using hp.resolve cx.hlab (d := 0) (l := lb + 1) (nm := false) (by simp)
  have hpBlk : Placed cx.cp cx.rs r (i0 + 1) ([LItem.label sL false] ++ ops ++ [LItem.label eB false] ++
      [LItem.ljump ⟨sc.opc + 1, Gen.op_jump, []⟩ (some (lb + 1)), LItem.label (lb + 2) false]) := by
    have : Placed cx.cp cx.rs r i0 ([LItem.label (lb + 1) false] ++ ([LItem.label sL false] ++ ops ++ [LItem.label eB false] ++
      [LItem.ljump ⟨sc.opc + 1, Gen.op_jump, []⟩ (some (lb + 1)), LItem.label (lb + 2) false])) := by
      simpa [List.append_assoc] using hp
    simpa using this.right
  have hitJ : ItemC cx.cp cx.rs ⟨r, i0 + ops.length + 3⟩ (.ljump ⟨sc.opc + 1, Gen.op_jump, []⟩ (some (lb + 1))) := by
    have e : i0 + ops.length + 3 = i0 + ([LItem.label (lb + 1) false] ++ ([LItem.label sL false] ++ ops ++ [LItem.label eB false])).length := by
      simp; omega
    rw [e]
    exact Placed.here (post := [LItem.label (lb + 2) false]) (by simpa [List.append_assoc] using hp)
  have hpE : Placed cx.cp cx.rs r i0 (([LItem.label (lb + 1) false] ++ ([LItem.label sL false] ++ ops ++ [LItem.label eB false]) ++
      [LItem.ljump ⟨sc.opc + 1, Gen.op_jump, []⟩ (some (lb + 1))]) ++ LItem.label (lb + 2) false :: []) := by
    simpa [List.append_assoc] using hp
  have eE : i0 + ([LItem.label (lb + 1) false] ++ ([LItem.label sL false] ++ ops ++ [LItem.label eB false]) ++
      [LItem.ljump ⟨sc.opc + 1, Gen.op_jump, []⟩ (some (lb + 1))]).length = i0 + ops.length + 4 := by
    simp; omega
  have hitE : ItemC cx.cp cx.rs ⟨r, i0 + ops.length + 4⟩ (.label (lb + 2) false) := by
    rw [← eE]; exact hpE.here
  have htgt2 : target cx.rs (cx.cp.σ (lb + 2)) = ⟨r, i0 + ops.length + 4⟩ := by
    rw [← eE]; exact hpE.lbl cx.hlab
  have hlen : ([LItem.label (lb + 1) false] ++ ([LItem.label sL false] ++ ops ++ [LItem.label eB false]) ++
      [LItem.ljump ⟨sc.opc + 1, Gen.op_jump, []⟩ (some (lb + 1)), LItem.label (lb + 2) false]).length = ops.length + 5 := by
    simp
  rw [hlen] at hend
  -- the body, given the loop head
  have hbodyAt : ∀ m j, ExitsOK cx m j s env ∧ R2 cx m j ⟨r, i0 + (ops.length + 5)⟩ k → R2 cx m j ⟨r, i0⟩ (tbl b).length →
      R2 cx m j ⟨r, i0 + 1⟩ (Src.trStmts fuel cx.sm (loopEnv env (tbl b).length k) (toSrcStmts body) (tbl b).length
        (b.push (.halt (evInvalid "loop head"))).1).2 ∧
      LabExport cx (loopEnv env (tbl b).length k) m j (b.push (.halt (evInvalid "loop head"))).1
        (Src.trStmts fuel cx.sm (loopEnv env (tbl b).length k) (toSrcStmts body) (tbl b).length
          (b.push (.halt (evInvalid "loop head"))).1).1 := by
    intro m j hyp hPh
    have hbrk : R2 cx m j (target cx.rs (cx.cp.σ (lb + 2))) k := by
      rw [htgt2]
      refine R2.silL (lab_label hitE) ?_
      have e : (⟨r, i0 + ops.length + 4⟩ : LPos).next = ⟨r, i0 + (ops.length + 5)⟩ := by
        simp only [LPos.next, LPos.mk.injEq, true_and]; omega
      rw [e]; exact hyp.2
    have hex' : ExitsOK cx m j (s.pushLoop (lb + 1, lb + 2)) (loopEnv env (tbl b).length k) :=
      exitsOK_push hyp.1 (lb + 1) (lb + 2) (by rw [htgt1]; exact hPh) hbrk rfl rfl
    have hafter : R2 cx m j ⟨r, i0 + 1 + ops.length + 2⟩ (tbl b).length := by
      have e : i0 + 1 + ops.length + 2 = i0 + ops.length + 3 := by omega
      rw [e]
      refine R2.silL (lab_jump hitJ jump_isJump) ?_
      rw [htgt1]; exact hPh
    exact loop_body_run cx hPe sL eB _ hpBlk (tbl b).length _ hagB m j hex' hinB (fun _ => hafter)
  -- the induction over the loop
  have hhead : ∀ m j, ExitsOK cx m j s env ∧ R2 cx m j ⟨r, i0 + (ops.length + 5)⟩ k → R2 cx m j ⟨r, i0⟩ (tbl b).length := by
    refine loop_ind (fun m j => ExitsOK cx m j s env ∧ R2 cx m j ⟨r, i0 + (ops.length + 5)⟩ k)
      (fun m j m' j' h hlt => ⟨h.1.down j' hlt, h.2.down j' hlt⟩) (fun m j j' h hle => ⟨h.1.monoJ hle, h.2.monoJ hle⟩) ?_
    intro m j hyp lower lowerJ
    refine ⟨EE_of_lower lower, ?_⟩
    cases j with
    | zero => exact GG_zero cx m _ _
    | succ j =>
      have hPh := lowerJ j (Nat.lt_succ_self j)
      have hbody := (hbodyAt m j ⟨hyp.1.monoJ (Nat.le_succ j), hyp.2.monoJ (Nat.le_succ j)⟩ hPh).1
      exact G.silB (lab_label hit0) (nodeStep_of hNh) hbody.2
  have hP' := hhead m j ⟨hex, hend⟩
  refine ⟨hP', ?_⟩
  have hexp := (hbodyAt m j ⟨hex, hend⟩ hP').2
  have hpush := Pushes.push b (.halt (evInvalid "loop head"))
  refine LabExport.mono hexp hpush.len (fun i hi => hpush.same hi) (fun i hi => ?_)
  rw [tbl_set, List.getElem?_set_ne (by omega)]

end ESV.Comp
