import ESV.Comp.ToSrc
import ESV.Comp.BackSemSim
/-
`codegen_correct`, fragment F0 (straight-line routines), part a: a node path of the source graph that spells a list of
ops is behaviourally equal to a labelled routine consisting of these ops.
-/
namespace ESV.Comp
open ESV ESV.Beh

abbrev Code := List (String × List ESV.Param)

def evOf (x : String × List ESV.Param) : Ev := ⟨x.1, convParams x.2⟩

/-- from node `e` the graph performs the ops of `code` (an op directly after a context op never stops the routine) and
then is at node `k`; `pc`: the op before was a context op -/
def PathOK (N : List Src.Node) : Bool → Nat → Code → Nat → Prop
  | _, e, [], k => e = k
  | pc, e, x :: rest, k =>
    if isCtx x.1 then ∃ e', N[e]? = some (.emit (evOf x) e') ∧ PathOK N true e' rest k
    else if Beh.endsFlow x.1 && !pc then N[e]? = some (.halt (evOf x))
    else ∃ e', N[e]? = some (.emit (evOf x) e') ∧ PathOK N false e' rest k

/-- more nodes do not disturb a path -/
theorem PathOK.ext {N : List Src.Node} (extra : List Src.Node) : ∀ {pc : Bool} {e : Nat} {code : Code} {k : Nat},
    PathOK N pc e code k → PathOK (N ++ extra) pc e code k := by
  intro pc e code
  induction code generalizing pc e with
  | nil => intro k h; exact h
  | cons x rest ih =>
    intro k h
    have lift : ∀ (i : Nat) (v : Src.Node), N[i]? = some v → (N ++ extra)[i]? = some v := by
      intro i v hv
      have hi : i < N.length := by
        rcases Nat.lt_or_ge i N.length with h' | h'
        · exact h'
        · rw [List.getElem?_eq_none h'] at hv; cases hv
      rw [List.getElem?_append_left hi]; exact hv
    simp only [PathOK] at h ⊢
    split
    · rename_i hc
      rw [if_pos hc] at h
      obtain ⟨e', h1, h2⟩ := h
      exact ⟨e', lift _ _ h1, ih h2⟩
    · rename_i hc
      rw [if_neg hc] at h
      split
      · rename_i he
        rw [if_pos he] at h
        exact lift _ _ h
      · rename_i he
        rw [if_neg he] at h
        obtain ⟨e', h1, h2⟩ := h
        exact ⟨e', lift _ _ h1, ih h2⟩

def shapeOf : LItem → Option (String × List ESV.Param)
  | .op o => some (o.name, o.params)
  | _ => none

/-- the names of a piece of straight-line code: no jump-carrying names -/
def CodeOK (code : Code) : Prop := ∀ x ∈ code, (isJump x.1 || isTest x.1) = false

def pcAt (code : Code) : Nat → Bool
  | 0 => false
  | j + 1 =>
    match code[j]? with
    | some x => isCtx x.1
    | none => false

section bisim
variable (g : Src.Graph) (rs : List (List LItem)) (r : Nat) (its : List LItem) (code : Code)

/-- position `pos` of routine `r` and node `n` stand at the same place of the code -/
def F0Rel (pos : LPos) (n : Nat) : Prop :=
  pos.rtn = r ∧ PathOK g.nodes.toList (pcAt code pos.idx) n (code.drop pos.idx) 0

variable {g rs r its code}

theorem afterCtxL_pcAt (hr : rs[r]? = some its) (hs : its.map shapeOf = code.map some) (i : Nat) :
    afterCtxL rs ⟨r, i⟩ = pcAt code i := by
  cases i with
  | zero => rfl
  | succ j =>
    simp only [afterCtxL, itemAt, hr, pcAt]
    have := congrArg (fun l => l[j]?) hs
    simp only [List.getElem?_map] at this
    cases hi : its[j]? with
    | none => rw [hi] at this; cases hc : code[j]? with
      | none => rfl
      | some x => rw [hc] at this; simp at this
    | some y =>
      rw [hi] at this
      cases hc : code[j]? with
      | none => rw [hc] at this; simp at this
      | some x =>
        rw [hc] at this
        simp only [Option.map_some, Option.some.injEq] at this
        cases y with
        | op o => simp only [shapeOf, Option.some.injEq] at this; rw [← this]
        | label a b => simp [shapeOf] at this
        | ljump a b => simp [shapeOf] at this

/-- the two systems make the same step from related states -/
theorem f0_step (h0 : g.nodes.toList[0]? = some (.halt evReturn)) (hr : rs[r]? = some its)
    (hs : its.map shapeOf = code.map some) (hc : CodeOK code) (pos : LPos) (n : Nat) (hR : F0Rel g r code pos n) :
    (∃ e n', g.step n = .emit e n' ∧ lstep rs pos = .emit e pos.next ∧ F0Rel g r code pos.next n') ∨
    (∃ e, g.step n = .halt e ∧ lstep rs pos = .halt e) := by
  obtain ⟨r', i⟩ := pos
  obtain ⟨hrr, hp⟩ := hR
  simp only at hrr hp
  subst hrr
  have hstep : ∀ m v, g.nodes.toList[m]? = some v → g.step m = v := by
    intro m v hv
    simp only [Src.Graph.step]
    rw [← Array.getElem?_toList, hv]
  have hlen : its.length = code.length := by simpa using congrArg List.length hs
  rcases Nat.lt_or_ge i code.length with hi | hi
  · -- an op
    obtain ⟨x, hx⟩ : ∃ x, code[i]? = some x := ⟨code[i], by simp [hi]⟩
    have hd : code.drop i = x :: code.drop (i + 1) := by
      rw [List.drop_eq_getElem_cons hi]
      congr 1
      rw [List.getElem?_eq_getElem hi] at hx
      exact Option.some.inj hx
    obtain ⟨o, ho, hon, hop⟩ : ∃ o, its[i]? = some (.op o) ∧ o.name = x.1 ∧ o.params = x.2 := by
      have := congrArg (fun l => l[i]?) hs
      simp only [List.getElem?_map, hx, Option.map_some] at this
      cases hy : its[i]? with
      | none => rw [hy] at this; simp at this
      | some y =>
        rw [hy] at this
        simp only [Option.map_some, Option.some.injEq] at this
        cases y with
        | op o => simp only [shapeOf, Option.some.injEq] at this; exact ⟨o, rfl, by rw [← this], by rw [← this]⟩
        | label a b => simp [shapeOf] at this
        | ljump a b => simp [shapeOf] at this
    have hok := hc x (List.mem_of_getElem? hx)
    have hac := afterCtxL_pcAt hr hs i
    have hnext : pcAt code (i + 1) = isCtx x.1 := by simp [pcAt, hx]
    have hl : lstep rs ⟨r', i⟩ = if Beh.endsFlow x.1 && !pcAt code i then .halt (evOf x) else .emit (evOf x) ⟨r', i + 1⟩ := by
      simp only [lstep, hr, ho, hon, hop, hok, Bool.false_eq_true, if_false, hac, evOf, LPos.next]
    rw [hd] at hp
    simp only [PathOK] at hp
    by_cases hcx : isCtx x.1 = true
    · rw [if_pos hcx] at hp
      obtain ⟨e', h1, h2⟩ := hp
      have hef : Beh.endsFlow x.1 = false := by
        have hall : ∀ nm ∈ ESV.Spec.opsCtx, Beh.endsFlow nm = false := by decide
        exact hall _ (by simpa [isCtx] using hcx)
      left
      refine ⟨evOf x, e', hstep _ _ h1, by rw [hl]; simp [hef, LPos.next], rfl, ?_⟩
      simp only [LPos.next, hnext, hcx]; exact h2
    · rw [if_neg hcx] at hp
      by_cases he : (Beh.endsFlow x.1 && !pcAt code i) = true
      · rw [if_pos he] at hp
        right
        exact ⟨evOf x, hstep _ _ hp, by rw [hl, if_pos he]⟩
      · rw [if_neg he] at hp
        obtain ⟨e', h1, h2⟩ := hp
        left
        refine ⟨evOf x, e', hstep _ _ h1, by rw [hl, if_neg he]; rfl, rfl, ?_⟩
        have : isCtx x.1 = false := by simpa using hcx
        simp only [LPos.next, hnext, this]; exact h2
  · -- past the end
    rw [List.drop_eq_nil_of_le hi] at hp
    simp only [PathOK] at hp
    subst hp
    right
    refine ⟨evReturn, hstep _ _ h0, ?_⟩
    simp only [lstep, hr]
    rw [List.getElem?_eq_none (by omega)]

theorem f0_equiv (h0 : g.nodes.toList[0]? = some (.halt evReturn)) (hr : rs[r]? = some its)
    (hs : its.map shapeOf = code.map some) (hc : CodeOK code) (e : Nat) (hp : PathOK g.nodes.toList false e code 0) :
    Equivalent g.lts (labLTS rs) e (labEntry rs r) := by
  have hR : F0Rel g r code ⟨r, 0⟩ e := ⟨rfl, by simpa [pcAt] using hp⟩
  constructor
  · refine sim_of_rel g.lts (labLTS rs) (fun n pos => F0Rel g r code pos n) (fun n pos h => ?_) e ⟨r, 0⟩ hR
    unfold Matches
    rcases f0_step h0 hr hs hc pos n h with ⟨ev, n', h1, h2, h3⟩ | ⟨ev, h1, h2⟩
    · rw [show g.lts.step n = g.step n from rfl, h1]
      exact ⟨pos, pos.next, .refl _, h2, h3⟩
    · rw [show g.lts.step n = g.step n from rfl, h1]
      exact ⟨pos, .refl _, h2⟩
  · refine sim_of_rel (labLTS rs) g.lts (fun pos n => F0Rel g r code pos n) (fun pos n h => ?_) ⟨r, 0⟩ e hR
    unfold Matches
    rcases f0_step h0 hr hs hc pos n h with ⟨ev, n', h1, h2, h3⟩ | ⟨ev, h1, h2⟩
    · rw [show (labLTS rs).step pos = lstep rs pos from rfl, h2]
      exact ⟨n, n', .refl _, h1, h3⟩
    · rw [show (labLTS rs).step pos = lstep rs pos from rfl, h2]
      exact ⟨n, .refl _, h1⟩

end bisim

end ESV.Comp
