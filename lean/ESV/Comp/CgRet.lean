import ESV.Comp.CgFrag
/-
`codegen_correct`, switches: what the collected code of a statement looks like at its ends (no recursion needed: every
handler ends in one `pure`), so that a case body which is not a single `break` / `continue` / `break_loop` is never a lone
jump (`_process_block` does not fold it).
-/
namespace ESV.Comp
open ESV ESV.Beh

/-- every result of the computation has the property -/
def Ret (P : List LItem → Prop) (m : M (List LItem)) : Prop := ∀ s r s', m s = .ok (r, s') → P r

theorem Ret.bind {α : Type} {P : List LItem → Prop} {x : M α} {f : α → M (List LItem)} (h : ∀ a, Ret P (f a)) : Ret P (x >>= f) := by
  intro s r s' hr
  obtain ⟨a, s1, _, h2⟩ := (bind_ok x f s (r, s')).mp hr
  exact h a s1 r s' h2

theorem Ret.bind2 {P Q : List LItem → Prop} {x : M (List LItem)} {f : List LItem → M (List LItem)} (hx : Ret Q x)
    (h : ∀ a, Q a → Ret P (f a)) : Ret P (x >>= f) := by
  intro s r s' hr
  obtain ⟨a, s1, h1, h2⟩ := (bind_ok x f s (r, s')).mp hr
  exact h a (hx s a s1 h1) s1 r s' h2

theorem Ret.pure {P : List LItem → Prop} {a : List LItem} (h : P a) : Ret P (pure a : M (List LItem)) := by
  intro s r s' hr
  have := (pure_ok a s (r, s')).mp hr
  simp only [Prod.mk.injEq] at this
  rw [this.1]; exact h

theorem Ret.fail {P : List LItem → Prop} (e : Err) : Ret P (fail e : M (List LItem)) :=
  fun s r s' hr => ((fail_ok e s (r, s')).mp hr).elim

theorem loneJump_cons_label (i : Nat) (b : Bool) (l : List LItem) : loneJump (.label i b :: l) = none := by cases l <;> rfl
theorem loneJump_cons_op (o : Op) (l : List LItem) : loneJump (.op o :: l) = none := by cases l <;> rfl

theorem loneJump_append_ne {a b : List LItem} (ha : a ≠ []) (hb : b ≠ []) : loneJump (a ++ b) = none := by
  cases a with
  | nil => exact absurd rfl ha
  | cons x xs =>
    cases b with
    | nil => exact absurd rfl hb
    | cons y ys =>
      cases xs with
      | nil => exact loneJump_two _ _ _
      | cons z zs => exact loneJump_two _ _ _

abbrev EndsP (st : Stmt) (r : List LItem) : Prop := r ≠ [] ∧ (isExit st = false → loneJump r = none)

theorem opStmt_ret (st : Stmt) (_hx : isExit st = false) (n : String) (ps : List Param) : Ret (EndsP st) (opStmt n ps) :=
  Ret.bind (fun o => Ret.pure ⟨by simp, fun _ => rfl⟩)

theorem cStmt_ret (cm : Macros) (lv : Nat) (st : Stmt) (lb : Nat) (hg : cgStmt lv st = true) : Ret (EndsP st) (cStmt cm lb st) := by
  cases st with
  | op n ps => simp only [cStmt]; exact opStmt_ret _ rfl n ps
  | ret => simp only [cStmt]; exact opStmt_ret _ rfl _ _
  | end_ => simp only [cStmt]; exact opStmt_ret _ rfl _ _
  | hold => simp only [cStmt]; exact opStmt_ret _ rfl _ _
  | inl c cp n ps =>
    simp only [cStmt, inlStmt]
    exact Ret.bind (fun _ => Ret.bind (fun _ => Ret.pure ⟨by simp, fun _ => rfl⟩))
  | with_ c cp inner =>
    simp only [cStmt, withOf]
    refine Ret.bind (fun c => Ret.bind (fun sub => ?_))
    split
    · exact Ret.pure ⟨by simp, fun _ => loneJump_cons_op _ _⟩
    · exact Ret.fail _
  | brk =>
    simp only [cStmt, brkStmt]
    refine Ret.bind (fun s => ?_)
    split
    · exact Ret.fail _
    · exact Ret.bind (fun j => Ret.pure ⟨by simp, fun h => by simp [isExit] at h⟩)
  | cont =>
    simp only [cStmt, contStmt]
    refine Ret.bind (fun s => ?_)
    split
    · exact Ret.fail _
    · exact Ret.bind (fun j => Ret.pure ⟨by simp, fun h => by simp [isExit] at h⟩)
  | brkLoop =>
    simp only [cStmt, brkLoopStmt]
    refine Ret.bind (fun s => ?_)
    split
    · exact Ret.fail _
    · exact Ret.bind (fun j => Ret.pure ⟨by simp, fun h => by simp [isExit] at h⟩)
  | ite neg hdrs body elifs hasElse els =>
    simp only [cStmt, iteOf]
    exact Ret.bind (fun _ => Ret.bind (fun _ => Ret.bind (fun _ => Ret.bind (fun _ => Ret.bind (fun _ => Ret.bind (fun _ => Ret.bind (fun _ =>
      Ret.pure ⟨by simp, fun _ => loneJump_snoc_label _ _ _⟩)))))))
  | forever body =>
    simp only [cStmt, foreverOf]
    exact Ret.bind (fun _ => Ret.bind (fun _ => Ret.bind (fun _ => Ret.bind (fun _ =>
      Ret.pure ⟨by simp, fun _ => loneJump_cons_label _ _ _⟩))))
  | while_ neg hd body =>
    simp only [cStmt, whileOf]
    refine Ret.bind (fun _ => ?_)
    cases neg with
    | true =>
      simp only [↓reduceIte, whileNeg]
      refine Ret.bind2 (Q := EndsP (.while_ true hd body)) ?_ (fun a ha => Ret.bind (fun _ => Ret.pure ha))
      exact Ret.bind (fun _ => Ret.bind (fun _ => Ret.bind (fun _ => Ret.pure ⟨by simp, fun _ => loneJump_cons_label _ _ _⟩)))
    | false =>
      simp only [Bool.false_eq_true, ↓reduceIte, whilePos]
      refine Ret.bind2 (Q := EndsP (.while_ false hd body)) ?_ (fun a ha => Ret.bind (fun _ => Ret.pure ha))
      exact Ret.bind (fun _ => Ret.bind (fun _ => Ret.bind (fun _ => Ret.bind (fun _ => Ret.bind (fun _ =>
        Ret.pure ⟨by simp, fun _ => loneJump_cons_label _ _ _⟩)))))
  | for_ init hd inc body =>
    simp only [cStmt, forOf]
    exact Ret.bind (fun _ => Ret.bind (fun _ => Ret.bind (fun _ => Ret.bind (fun _ => Ret.bind (fun _ => Ret.bind (fun _ => Ret.bind (fun _ =>
      Ret.pure ⟨by simp, fun _ => by simp only [List.append_assoc, List.cons_append, List.nil_append]; exact loneJump_cons_label _ _ _⟩)))))))
  | switch hdr cs =>
    simp only [cStmt, switchOf]
    refine Ret.bind (fun _ => Ret.bind (fun _ => Ret.bind (fun sw => ?_)))
    cases cs with
    | nil => exact Ret.pure ⟨by simp, fun _ => rfl⟩
    | cons d n ps b r =>
      refine Ret.bind (fun _ => Ret.bind (fun _ => Ret.bind (fun _ => ?_)))
      split
      · exact Ret.fail _
      · exact Ret.pure ⟨by simp, fun _ => loneJump_cons_op _ _⟩
  | label n =>
    simp only [cStmt, labelStmt]
    exact Ret.bind (fun _ => Ret.pure ⟨by simp, fun _ => rfl⟩)
  | jump n =>
    simp only [cStmt, jumpStmt]
    exact Ret.bind (fun _ => Ret.bind (fun _ => Ret.pure ⟨by simp, fun h => by simp [isExit] at h⟩))
  | call n =>
    simp only [cStmt, callStmt]
    intro s r s' h
    simp only [bind_ok, pure_ok] at h
    obtain ⟨i, s1, _, o, s2, h2, h3⟩ := h
    simp only [Prod.mk.injEq] at h3
    obtain ⟨rfl, _⟩ := h3
    obtain ⟨rfl, _⟩ := genOp_spec h2
    exact ⟨by simp, fun _ => by
      have : (Gen.op_call == Gen.op_jump) = false := by decide
      simp [loneJump, this]⟩
  | macroCall name args =>
    simp only [cStmt, macroStmt]
    split
    · exact Ret.fail _
    · simp only [buildMacro]
      split
      · exact Ret.bind (fun _ => Ret.bind (fun _ => Ret.bind (fun out => Ret.pure ⟨by simp, fun _ => by
          simp only [List.singleton_append, List.cons_append]; exact loneJump_cons_label _ _ _⟩)))
      · exact Ret.fail _

/-- a case body that is not a single exit statement is not collected as a lone jump -/
theorem cStmts_ret (cm : Macros) (lv : Nat) (body : Stmts) (lb : Nat) (hg : cgStmts lv body = true) (hx : loneExit body = false) :
    Ret (fun r => loneJump r = none) (cStmts cm lb body) := by
  cases body with
  | nil => simp only [cStmts]; exact Ret.pure rfl
  | cons s r =>
    simp only [cgStmts, Bool.and_eq_true] at hg
    cases r with
    | nil =>
      simp only [cStmts, pure_bind]
      simp only [loneExit] at hx
      exact Ret.bind2 (cStmt_ret cm lv s lb hg.1) (fun a ha => Ret.pure (by simpa using ha.2 hx))
    | cons s2 r2 =>
      simp only [cgStmts, Bool.and_eq_true] at hg
      simp only [cStmts]
      refine Ret.bind2 (cStmt_ret cm lv s lb hg.1) (fun a ha => ?_)
      refine Ret.bind2 (Q := fun r => r ≠ []) ?_ (fun b hb => Ret.pure (loneJump_append_ne ha.1 hb))
      exact Ret.bind2 (cStmt_ret cm lv s2 _ hg.2.1) (fun a2 ha2 => Ret.bind (fun b2 => Ret.pure (by simp [ha2.1])))

theorem cStmts_cons_ne (cm : Macros) (lv : Nat) (st : Stmt) (r : Stmts) (lb : Nat) (hg : cgStmt lv st = true) :
    Ret (fun x => x ≠ []) (cStmts cm lb (.cons st r)) := by
  simp only [cStmts]
  exact Ret.bind2 (cStmt_ret cm lv st lb hg) (fun a ha => Ret.bind (fun b => Ret.pure (by simp [ha.1])))

/-- behind a `return` / `end` / `hold` / `break` / `continue` / `break_loop` / `jump` control does not go on -/
theorem ends_items {cm : Macros} {st : Stmt} (he : endsStmt st = true) {lb : Nat} {s : St} {items : List LItem} {s' : St}
    (h : cStmt cm lb st s = .ok (items, s')) : falls items = false := by
  have hop : ∀ (nm : String) (ps : List Param), Gen.opsEndFlow.contains nm = true → ∀ {s : St} {items : List LItem} {s' : St},
      opStmt nm ps s = .ok (items, s') → falls items = false := by
    intro nm ps hnm s items s' h
    simp only [opStmt, bind_ok, pure_ok] at h
    obtain ⟨o, s1, h1, h2⟩ := h
    simp only [Prod.mk.injEq] at h2
    obtain ⟨rfl, _⟩ := h2
    obtain ⟨rfl, _⟩ := genOp_spec h1
    show (!(Gen.opsEndFlow.contains nm)) = false
    rw [hnm]; rfl
  have hj : ∀ (l : Option Nat) {s : St} {j : LItem} {s' : St}, genJump l s = .ok (j, s') → falls [j] = false := by
    intro l s j s' h
    obtain ⟨rfl, _⟩ := genJump_spec h
    show (!(Gen.opsEndFlow.contains Gen.op_jump)) = false
    decide
  cases st with
  | op n ps => simp only [cStmt] at h; exact hop n ps (by simpa [endsStmt] using he) h
  | ret => simp only [cStmt] at h; exact hop _ [] (by decide) h
  | end_ => simp only [cStmt] at h; exact hop _ [] (by decide) h
  | hold => simp only [cStmt] at h; exact hop _ [] (by decide) h
  | brk =>
    simp only [cStmt, brkStmt, bind_ok, getSt_ok] at h
    obtain ⟨s0, s1, h1, h2⟩ := h
    simp only [Prod.mk.injEq] at h1
    obtain ⟨rfl, rfl⟩ := h1
    cases hc : s1.cases with
    | nil => rw [hc] at h2; simp [fail_ok] at h2
    | cons e rest =>
      rw [hc] at h2
      simp only [bind_ok, pure_ok] at h2
      obtain ⟨jj, s2, h3, h4⟩ := h2
      simp only [Prod.mk.injEq] at h4
      obtain ⟨rfl, _⟩ := h4
      exact hj _ h3
  | cont =>
    simp only [cStmt, contStmt, bind_ok, getSt_ok] at h
    obtain ⟨s0, s1, h1, h2⟩ := h
    simp only [Prod.mk.injEq] at h1
    obtain ⟨rfl, rfl⟩ := h1
    cases hc : s1.loops with
    | nil => rw [hc] at h2; simp [fail_ok] at h2
    | cons e rest =>
      rw [hc] at h2
      simp only [bind_ok, pure_ok] at h2
      obtain ⟨jj, s2, h3, h4⟩ := h2
      simp only [Prod.mk.injEq] at h4
      obtain ⟨rfl, _⟩ := h4
      exact hj _ h3
  | brkLoop =>
    simp only [cStmt, brkLoopStmt, bind_ok, getSt_ok] at h
    obtain ⟨s0, s1, h1, h2⟩ := h
    simp only [Prod.mk.injEq] at h1
    obtain ⟨rfl, rfl⟩ := h1
    cases hc : s1.loops with
    | nil => rw [hc] at h2; simp [fail_ok] at h2
    | cons e rest =>
      rw [hc] at h2
      simp only [bind_ok, pure_ok] at h2
      obtain ⟨jj, s2, h3, h4⟩ := h2
      simp only [Prod.mk.injEq] at h4
      obtain ⟨rfl, _⟩ := h4
      exact hj _ h3
  | jump n =>
    simp only [cStmt, jumpStmt, bind_ok, pure_ok] at h
    obtain ⟨id, s1, h1, jj, s2, h2, h3⟩ := h
    simp only [Prod.mk.injEq] at h3
    obtain ⟨rfl, _⟩ := h3
    exact hj _ h2
  | _ => simp [endsStmt] at he

theorem loneExit_ends : ∀ (body : Stmts), loneExit body = true → endsFlowStmts body = true
  | .nil, h => by simp [loneExit] at h
  | .cons s .nil, h => by
    simp only [loneExit] at h
    simp only [endsFlowStmts]
    cases s <;> simp_all [isExit, endsStmt]
  | .cons s (.cons s2 r), h => by simp [loneExit] at h

end ESV.Comp
