import ESV.Comp.BackSemStrip1
/-
Back-end correctness, first pass (strip_last_label), part 2: one round preserves behaviour (`round_preserves`).
-/
namespace ESV.Comp
open ESV ESV.Beh

def jumpTargetsDefined (rs : List (List LItem)) : Prop :=
  ∀ root l, LItem.ljump root (some l) ∈ rs.flatten → l ∈ labelIds rs.flatten

/-- hypotheses of one round: routine `A.length` is `body ++ [label lbl]` -/
structure RoundHyp (all : List Nat) (lbl : Nat) (nm : Bool) (A : List (List LItem)) (body : List LItem)
    (B : List (List LItem)) : Prop where
  labels : (labelIds (A ++ (body ++ [.label lbl nm]) :: B).flatten).Nodup
  ctx : (A ++ (body ++ [.label lbl nm]) :: B).all ctxOK = true
  raw : (A ++ (body ++ [.label lbl nm]) :: B).flatten.all rawOK = true
  root : (A ++ (body ++ [.label lbl nm]) :: B).flatten.all rootOK = true
  jumps : ∀ root l, LItem.ljump root (some l) ∈ (A ++ (body ++ [.label lbl nm]) :: B).flatten → jumpedTo all l = true
  cond : ∀ root, LItem.ljump root (some lbl) ∈ body → isJump root.name = true
  defined : jumpTargetsDefined (A ++ stripScan all lbl false false body :: B)

section round
variable {all : List Nat} {lbl : Nat} {nm : Bool} {A : List (List LItem)} {body : List LItem} {B : List (List LItem)}

theorem round_get_r0 : (roundDec all lbl nm A body B)[A.length]? =
    some (scanDec all lbl false false body ++ [(.label lbl nm, none)]) := by
  simp [roundDec]

theorem round_get_other (r : Nat) (dl : List Dec) (hr : r ≠ A.length) (h : (roundDec all lbl nm A body B)[r]? = some dl) :
    ∃ its, dl = idDec its := by
  simp only [roundDec] at h
  rcases Nat.lt_or_ge r A.length with hlt | hge
  · rw [List.getElem?_append_left (by simpa using hlt)] at h
    simp only [List.getElem?_map, Option.map_eq_some_iff] at h
    obtain ⟨its, _, rfl⟩ := h; exact ⟨its, rfl⟩
  · rw [List.getElem?_append_right (by simpa using hge)] at h
    simp only [List.length_map] at h
    obtain ⟨k, hk⟩ : ∃ k, r - A.length = k + 1 := ⟨r - A.length - 1, by omega⟩
    rw [hk] at h
    simp only [List.getElem?_cons_succ, List.getElem?_map, Option.map_eq_some_iff] at h
    obtain ⟨its, _, rfl⟩ := h; exact ⟨its, rfl⟩

theorem round_mem (dl : List Dec) (h : dl ∈ roundDec all lbl nm A body B) :
    dl = scanDec all lbl false false body ++ [(.label lbl nm, none)] ∨ ∃ its, dl = idDec its := by
  simp only [roundDec, List.mem_append, List.mem_cons, List.mem_map] at h
  rcases h with ⟨its, _, rfl⟩ | rfl | ⟨its, _, rfl⟩
  · exact .inr ⟨its, rfl⟩
  · exact .inl rfl
  · exact .inr ⟨its, rfl⟩

theorem d0_get_lt (i : Nat) (x : LItem) (h : body[i]? = some x) :
    (scanDec all lbl false false body ++ [((LItem.label lbl nm, none) : Dec)])[i]? =
      some (x, itemDec lbl (flagsAt all lbl false false body i).2 x) := by
  have hi : i < body.length := by
    rcases Nat.lt_or_ge i body.length with h' | h'
    · exact h'
    · rw [List.getElem?_eq_none h'] at h; cases h
  rw [List.getElem?_append_left (by rw [scanDec_length]; exact hi)]
  exact scanDec_get all lbl body false false i x h

theorem d0_get_last :
    (scanDec all lbl false false body ++ [((LItem.label lbl nm, none) : Dec)])[body.length]? = some (.label lbl nm, none) := by
  rw [List.getElem?_append_right (by rw [scanDec_length]; exact Nat.le_refl _)]
  simp [scanDec_length]

theorem d0_length : (scanDec all lbl false false body ++ [((LItem.label lbl nm, none) : Dec)]).length = body.length + 1 := by
  simp [scanDec_length]

theorem dummy_not_ctx (root : Op) : isCtxL (dummyAt root) = false := by
  simp only [dummyAt, isCtxL]; decide

theorem round_decHyp (H : RoundHyp all lbl nm A body B) : DecHyp (roundDec all lbl nm A body B) := by
  refine ⟨?_, ?_, by rw [round_old]; exact H.ctx⟩
  · intro dl hdl x y hm
    rcases round_mem dl hdl with rfl | ⟨its, rfl⟩
    · simp only [List.mem_append, List.mem_singleton, Prod.mk.injEq] at hm
      rcases hm with hm | ⟨_, hm⟩
      · rcases scanDec_mem all lbl body _ _ x _ hm with h | ⟨root, rfl, h | h⟩
        · simp at h; subst h; rfl
        · cases h
        · simp at h; subst h; rw [dummy_not_ctx]; rfl
      · cases hm
    · have := idDec_mem its x _ hm
      simp at this; subst this; rfl
  · intro dl hdl x hm
    rcases round_mem dl hdl with rfl | ⟨its, rfl⟩
    · simp only [List.mem_append, List.mem_singleton, Prod.mk.injEq] at hm
      rcases hm with hm | ⟨rfl, _⟩
      · rcases scanDec_mem all lbl body _ _ x _ hm with h | ⟨root, rfl, h | h⟩
        · cases h
        · have hin : LItem.ljump root (some lbl) ∈ body := by
            have := List.mem_map_of_mem (f := fun (p : Dec) => p.1) hm
            rwa [scanDec_old] at this
          simp [afterCtxOK, H.cond root hin]
        · cases h
      · rfl
    · have := idDec_mem its x _ hm
      cases this

theorem round_labOK (l : Nat) (hl : l ≠ lbl) : LabOK l (roundDec all lbl nm A body B) := by
  intro dl hdl x d hm
  rcases round_mem dl hdl with rfl | ⟨its, rfl⟩
  · simp only [List.mem_append, List.mem_singleton, Prod.mk.injEq] at hm
    rcases hm with hm | ⟨rfl, rfl⟩
    · rcases scanDec_mem all lbl body _ _ x _ hm with h | ⟨root, rfl, h | h⟩
      · subst h; rfl
      · subst h; rfl
      · subst h; rfl
    · simp only [isLabelOf, beq_eq_false_iff_ne, ne_eq]
      exact fun e => hl e.symm
  · have := idDec_mem its x _ hm
    subst this; rfl

theorem labelIds_stripScan (l : List LItem) : ∀ pc b, labelIds (stripScan all lbl pc b l) = labelIds l := by
  induction l with
  | nil => intro pc b; rfl
  | cons x r ih =>
    intro pc b
    cases x with
    | label id nm' => simp [stripScan, labelIds, ih]
    | op o => simp [stripScan, labelIds, ih]
    | ljump root t =>
      simp only [stripScan]
      split
      · split <;> simp [labelIds, ih]
      · simp [labelIds, ih]

theorem labelIds_flatten_cons (a : List LItem) (r : List (List LItem)) :
    labelIds (a :: r).flatten = labelIds a ++ labelIds r.flatten := by
  simp [labelIds_append]

theorem labelIds_flatten_append (a b : List (List LItem)) :
    labelIds (a ++ b).flatten = labelIds a.flatten ++ labelIds b.flatten := by
  simp [labelIds_append]

/-- the stripped label is not defined in the new code -/
theorem lbl_not_in_new (H : RoundHyp all lbl nm A body B) :
    lbl ∉ labelIds (A ++ stripScan all lbl false false body :: B).flatten := by
  have hn := H.labels
  rw [labelIds_flatten_append, labelIds_flatten_cons, labelIds_append] at hn
  rw [labelIds_flatten_append, labelIds_flatten_cons, labelIds_stripScan]
  have hl : labelIds [LItem.label lbl nm] = [lbl] := rfl
  rw [hl] at hn
  intro hmem
  simp only [List.mem_append] at hmem
  have h1 := (List.nodup_append.mp hn)
  have h2 := (List.nodup_append.mp h1.2.1)
  have h3 := (List.nodup_append.mp h2.1)
  rcases hmem with hm | hm | hm
  · exact h1.2.2 lbl hm lbl (by simp) rfl
  · exact h3.2.2 lbl hm lbl (by simp) rfl
  · exact h2.2.2 lbl (by simp) lbl hm rfl

/-! ### dead code, good positions -/

theorem findLabel_spec (l : Nat) : ∀ (rs : List (List LItem)) (k : Nat) (p : LPos), findLabel l rs k = some p →
    k ≤ p.rtn ∧ ∃ its nm, rs[p.rtn - k]? = some its ∧ its[p.idx]? = some (.label l nm) := by
  intro rs
  induction rs with
  | nil => intro k p h; simp [findLabel] at h
  | cons a rs ih =>
    intro k p h
    simp only [findLabel] at h
    cases hf : a.findIdx? (isLabelOf l) with
    | some i =>
      simp only [hf, Option.some.injEq] at h
      subst h
      obtain ⟨hi, hp, _⟩ := List.findIdx?_eq_some_iff_getElem.mp hf
      refine ⟨Nat.le_refl _, a, ?_⟩
      cases hx : a[i] with
      | label id nm' =>
        rw [hx] at hp
        simp only [isLabelOf, beq_iff_eq] at hp
        subst hp
        exact ⟨nm', by simp, by rw [List.getElem?_eq_getElem hi, hx]⟩
      | op o => rw [hx] at hp; simp [isLabelOf] at hp
      | ljump root t => rw [hx] at hp; simp [isLabelOf] at hp
    | none =>
      simp only [hf] at h
      obtain ⟨h1, its, nm', h2, h3⟩ := ih (k + 1) p h
      refine ⟨by omega, its, nm', ?_, h3⟩
      have : p.rtn - k = (p.rtn - (k + 1)) + 1 := by omega
      rw [this]; simpa using h2

theorem target_cases (rs : List (List LItem)) (l : Nat) :
    target rs l = stuckPos rs ∨ ∃ nm, itemAt rs (target rs l) = some (.label l nm) := by
  unfold target
  cases h : findLabel l rs 0 with
  | none => exact .inl rfl
  | some p =>
    obtain ⟨_, its, nm', h2, h3⟩ := findLabel_spec l rs 0 p h
    simp only [Nat.sub_zero] at h2
    exact .inr ⟨nm', by simp only [itemAt, h2]; exact h3⟩

def DeadAt (all : List Nat) (lbl : Nat) (body : List LItem) (i : Nat) : Prop :=
  (flagsAt all lbl false false body i).2 = true ∧
    ∀ id nm', body[i]? = some (.label id nm') → jumpedTo all id = false

def NotDead (all : List Nat) (lbl : Nat) (A : List (List LItem)) (body : List LItem) (p : LPos) : Prop :=
  p.rtn = A.length → p.idx < body.length → ¬ DeadAt all lbl body p.idx

def GoodS (all : List Nat) (lbl : Nat) (A : List (List LItem)) (body : List LItem) (p : LPos) : Prop :=
  p.rtn ≠ A.length ∨ body.length < p.idx ∨
  (∃ x, body[p.idx]? = some x ∧ itemDec lbl (flagsAt all lbl false false body p.idx).2 x = some x ∧
    ¬ DeadAt all lbl body p.idx)

theorem old_r0 : (A ++ (body ++ [LItem.label lbl nm]) :: B)[A.length]? = some (body ++ [.label lbl nm]) := by
  simp

theorem old_item_lt (i : Nat) (hi : i < body.length) :
    itemAt (A ++ (body ++ [LItem.label lbl nm]) :: B) ⟨A.length, i⟩ = body[i]? := by
  simp only [itemAt, old_r0]
  exact List.getElem?_append_left hi

theorem old_item_last : itemAt (A ++ (body ++ [LItem.label lbl nm]) :: B) ⟨A.length, body.length⟩ = some (.label lbl nm) := by
  simp only [itemAt, old_r0]
  simp

theorem old_length : (A ++ (body ++ [LItem.label lbl nm]) :: B).length = A.length + 1 + B.length := by
  simp; omega

/-- the target of a jump that exists in the old code is not dead -/
theorem target_notDead (H : RoundHyp all lbl nm A body B) (root : Op) (l : Nat)
    (hin : LItem.ljump root (some l) ∈ (A ++ (body ++ [LItem.label lbl nm]) :: B).flatten) :
    NotDead all lbl A body (target (A ++ (body ++ [LItem.label lbl nm]) :: B) l) := by
  intro hr hi hdead
  rcases target_cases (A ++ (body ++ [LItem.label lbl nm]) :: B) l with h | ⟨nm', h⟩
  · rw [h] at hr
    simp only [stuckPos, old_length] at hr
    omega
  · generalize target (A ++ (body ++ [LItem.label lbl nm]) :: B) l = p at *
    obtain ⟨r, i⟩ := p
    simp only at hr hi
    subst hr
    rw [old_item_lt i hi] at h
    have := hdead.2 l nm' h
    rw [H.jumps root l hin] at this
    cases this

theorem flagsAt_pc_old (i : Nat) (hi : i < body.length) :
    (flagsAt all lbl false false body i).1 = afterCtxL (A ++ (body ++ [LItem.label lbl nm]) :: B) ⟨A.length, i⟩ := by
  cases i with
  | zero => rw [flagsAt_zero]; rfl
  | succ j =>
    have hj : j < body.length := by omega
    rw [afterCtxL_succ, old_item_lt j hj, flagsAt_pc_succ all lbl body false false j body[j] (by simp [hj])]
    simp [hj]

theorem test_not_ends (n : String) (h : isTest n = true) : Gen.opsEndFlow.contains n = false := by
  have hall : ∀ kv ∈ ESV.Spec.opsWithJump, (isJump kv.1 || !Gen.opsEndFlow.contains kv.1) = true := by decide
  simp only [isTest, Bool.and_eq_true, List.any_eq_true, beq_iff_eq, Bool.not_eq_true'] at h
  obtain ⟨⟨kv, hkv, rfl⟩, hj⟩ := h
  have := hall kv hkv
  simpa [hj] using this

theorem ends_of_contains (n : String) (hj : isJump n = false) : Gen.opsEndFlow.contains n = Beh.endsFlow n := by
  simp [Beh.endsFlow, hj, ESV.TableTie.opsEndFlow_eq]

theorem itemAt_mem (rs : List (List LItem)) (p : LPos) (x : LItem) (h : itemAt rs p = some x) : x ∈ rs.flatten := by
  simp only [itemAt] at h
  cases hr : rs[p.rtn]? with
  | none => simp [hr] at h
  | some its =>
    simp only [hr] at h
    exact List.mem_flatten.mpr ⟨its, List.mem_of_getElem? hr, List.mem_of_getElem? h⟩

/-- successors of a live kept item are live -/
theorem succ_notDead (H : RoundHyp all lbl nm A body B) (r i : Nat) (x : LItem)
    (hx : itemAt (A ++ (body ++ [LItem.label lbl nm]) :: B) ⟨r, i⟩ = some x)
    (hgood : r = A.length → i < body.length ∧ ¬ DeadAt all lbl body i)
    (s : LPos) (hs : IsSucc (itemStep (A ++ (body ++ [LItem.label lbl nm]) :: B) ⟨r, i⟩ x) s) :
    NotDead all lbl A body s := by
  have hmem := itemAt_mem _ _ _ hx
  have hraw := List.all_eq_true.mp H.raw x hmem
  have hroot := List.all_eq_true.mp H.root x hmem
  -- the fall-through successor
  have hnext : ∀ (hb : r = A.length → (nextFlags all lbl (flagsAt all lbl false false body i).1
      (flagsAt all lbl false false body i).2 x).2 = false), NotDead all lbl A body ⟨r, i + 1⟩ := by
    intro hb hr hi hdead
    simp only at hr hi
    obtain ⟨hil, _⟩ := hgood hr
    subst hr
    have hbx : body[i]? = some x := by rw [← old_item_lt (nm := nm) (B := B) i hil]; exact hx
    have := hdead.1
    rw [flagsAt_succ all lbl body false false i x hbx, hb rfl] at this
    cases this
  cases x with
  | label id nm' =>
    simp only [itemStep, IsSucc] at hs
    subst hs
    apply hnext
    intro hr
    obtain ⟨hil, hnd⟩ := hgood hr
    subst hr
    have hbx : body[i]? = some (.label id nm') := by rw [← old_item_lt (nm := nm) (B := B) i hil]; exact hx
    simp only [nextFlags]
    cases hj : jumpedTo all id with
    | true => rfl
    | false =>
      simp only [Bool.false_eq_true, if_false]
      cases hb : (flagsAt all lbl false false body i).2 with
      | false => rfl
      | true =>
        exfalso
        apply hnd
        refine ⟨hb, fun id' nm'' h' => ?_⟩
        rw [hbx] at h'
        simp only [Option.some.injEq, LItem.label.injEq] at h'
        rw [← h'.1]; exact hj
  | ljump root l =>
    cases l with
    | none => simp [itemStep, IsSucc] at hs
    | some l =>
      simp only [rootOK] at hroot
      simp only [itemStep] at hs
      cases hj : isJump root.name with
      | true =>
        simp only [hj, if_true, IsSucc] at hs
        subst hs
        exact target_notDead H root l hmem
      | false =>
        have ht : isTest root.name = true := by simpa [hj] using hroot
        simp only [hj, ht, if_true, Bool.false_eq_true, if_false, IsSucc] at hs
        rcases hs with rfl | rfl
        · exact target_notDead H root l hmem
        · apply hnext
          intro hr
          obtain ⟨hil, _⟩ := hgood hr
          subst hr
          have hbx : body[i]? = some (.ljump root (some l)) := by rw [← old_item_lt (nm := nm) (B := B) i hil]; exact hx
          simp only [nextFlags, endsName, test_not_ends _ ht]
          split
          · rename_i hl
            have : l = lbl := by simpa using hl
            subst this
            have := H.cond root (List.mem_of_getElem? hbx)
            rw [hj] at this; cases this
          · split <;> rfl
  | op o =>
    simp only [rawOK, Bool.not_eq_true', Bool.or_eq_false_iff] at hraw
    simp only [itemStep, hraw.1, hraw.2, Bool.or_self, Bool.false_eq_true, if_false] at hs
    cases hb : (Beh.endsFlow o.name && !afterCtxL (A ++ (body ++ [LItem.label lbl nm]) :: B) ⟨r, i⟩) with
    | true => simp [hb, IsSucc] at hs
    | false =>
      simp only [hb, Bool.false_eq_true, if_false, IsSucc] at hs
      subst hs
      apply hnext
      intro hr
      obtain ⟨hil, _⟩ := hgood hr
      subst hr
      simp only [nextFlags, endsName, ends_of_contains _ hraw.1]
      rw [flagsAt_pc_old (nm := nm) (B := B) i hil]
      cases hc : afterCtxL (A ++ (body ++ [LItem.label lbl nm]) :: B) ⟨A.length, i⟩ with
      | true => rfl
      | false => simpa [hc] using hb

end round

end ESV.Comp
