import ESV.Comp.Model
/-
Back end of the ExplorerScript compiler and the top level:

  compiler/utils.py              routine_op_offsets_are_ordered, strip_last_label
  compiler/label_finalizer.py    LabelFinalizer (labels take the offset of the next op that survives, also across
                                 routine boundaries; Jumps to a label right after them are dropped)
  compiler/label_jump_to_remover.py   OpsLabelJumpToRemover
  compile_handlers/abstract.py   AbstractFuncdefCompileHandler.collect_ops / _trailing_labels_need_an_op
  compiler_visitor/routine_visitor.py, macro_visitor.py;  ssb_compiler.py `compile`
-/
namespace ESV.Comp
open ESV


/-! ### strip_last_label -/

def jumpLabels : List LItem → List Nat
  | [] => []
  | .ljump _ (some l) :: r => l :: jumpLabels r
  | _ :: r => jumpLabels r

/-- `jump_counts.get(id, 0) > 0`: some label jump of some routine targets `id` -/
def jumpedTo (all : List Nat) (id : Nat) : Bool := all.contains id

def LItem.offsetOf : LItem → Option Nat
  | .op o => some o.offset
  | .ljump r _ => some r.offset
  | .label _ _ => none

/-- the `for op_i, op in enumerate(routine)` loop for one removed trailing label `lbl`.
`prevCtx`: `routine[op_i - 1].op_code.name in OPS_CTX` (only a plain op can have such a name);
`before`: `op_before_ends_control_flow`.  Items in `indices_to_remove` are dropped at once (the list
comprehension after the loop), replaced ones become the dummy end. -/
def stripScan (all : List Nat) (lbl : Nat) : Bool → Bool → List LItem → List LItem
  | _, _, [] => []
  | prevCtx, before, .ljump root l :: r =>
    if l == some lbl then
      if before then stripScan all lbl false before r
      else .op ⟨root.offset, Gen.op_dummy_end, []⟩ :: stripScan all lbl false false r
    else
      .ljump root l :: stripScan all lbl false (if prevCtx then false else endsName (.ljump root l)) r
  | _, before, .label id nm :: r =>
    .label id nm :: stripScan all lbl false (if jumpedTo all id then false else before) r
  | prevCtx, _, .op o :: r =>
    .op o :: stripScan all lbl (isCtxItem (.op o)) (if prevCtx then false else endsName (.op o)) r

/-- `while len(routine) > 0 and isinstance(routine[-1], SsbLabel): …` (repo commit 132d21c: a routine that runs empty
stays empty). `fuel` ≥ number of items + 1 suffices (every round removes the last item), so the first clause is never
reached from `stripRoutine`. -/
def stripLoop (all : List Nat) : Nat → List LItem → Except Err (List LItem)
  | 0, _ => .error .indexError
  | fuel + 1, r =>
    match r.getLast? with
    | none => .ok r
    | some (.label id _) => stripLoop all fuel (stripScan all id false false r.dropLast)
    | some _ => .ok r

def stripRoutine (all : List Nat) (r : List LItem) : Except Err (List LItem) :=
  if r.isEmpty then .ok [] else stripLoop all (r.length + 1) r

def mapE {α β : Type} (f : α → Except Err β) : List α → Except Err (List β)
  | [] => .ok []
  | a :: r =>
    match f a with
    | .error e => .error e
    | .ok b =>
      match mapE f r with
      | .error e => .error e
      | .ok bs => .ok (b :: bs)

def stripLastLabel (rs : List (List LItem)) : Except Err (List (List LItem)) :=
  mapE (stripRoutine (rs.flatMap jumpLabels)) rs

/-! ### LabelFinalizer -/

/-- `_labels_after(r, cursor, False)`: the labels directly after -/
def labelsRun : List LItem → List Nat
  | .label id _ :: r => id :: labelsRun r
  | _ => []

/-- `_labels_after(r, op_i)` on the items after `op_i`: labels, looking past Jumps that themselves only go to a
label right after them (one level) -/
def labelsAfter : List LItem → List Nat
  | .label id _ :: r => id :: labelsAfter r
  | .ljump root (some l) :: r =>
    if root.name == Gen.op_jump && (labelsRun r).contains l then labelsAfter r else []
  | _ => []

/-- a regular Jump that just goes to a label right after it is dropped -/
def jumpRemoved (root : Op) (l : Option Nat) (r : List LItem) : Bool :=
  root.name == Gen.op_jump && (match l with
    | some t => (labelsAfter r).contains t
    | none => false)

structure FinSt where
  /-- `labels_waiting` (ids) -/
  waiting : List Nat
  /-- `label_offsets` -/
  offsets : List (Nat × Nat)
deriving Repr

def setAll (d : List (Nat × Nat)) (ids : List Nat) (off : Nat) : List (Nat × Nat) :=
  ids.foldl (fun d i => Dict.set d i off) d

/-- one routine of `LabelFinalizer.__init__`; returns `new_r` -/
def finRoutine : List LItem → FinSt → List LItem × FinSt
  | [], st => ([], st)
  | .label id nm :: r, st =>
    let (out, st') := finRoutine r { st with waiting := st.waiting ++ [id] }
    (.label id nm :: out, st')
  | .ljump root l :: r, st =>
    if jumpRemoved root l r then finRoutine r st
    else
      let (out, st') := finRoutine r ⟨[], setAll st.offsets st.waiting root.offset⟩
      (.ljump root l :: out, st')
  | .op o :: r, st =>
    let (out, st') := finRoutine r ⟨[], setAll st.offsets st.waiting o.offset⟩
    (.op o :: out, st')

def finalize : List (List LItem) → FinSt → List (List LItem) × FinSt
  | [], st => ([], st)
  | r :: rs, st =>
    let (r', st1) := finRoutine r st
    let (rs', st2) := finalize rs st1
    (r' :: rs', st2)

/-! ### OpsLabelJumpToRemover -/

def removeItems (offs : List (Nat × Nat)) : List LItem → Except Err (List Op)
  | [] => .ok []
  | .label _ _ :: r => removeItems offs r
  | .op o :: r =>
    match removeItems offs r with
    | .error e => .error e
    | .ok os => .ok (o :: os)
  | .ljump _ none :: _ => .error .assertionError
  | .ljump root (some l) :: r =>
    match Dict.get? offs l with
    | none => .error .ssbCompilerError
    | some t =>
      match removeItems offs r with
      | .error e => .error e
      | .ok os => .ok (⟨root.offset, root.name, root.params ++ [.int t]⟩ :: os)

def remover (offs : List (Nat × Nat)) (rs : List (List LItem)) : Except Err (List (List Op)) :=
  mapE (removeItems offs) rs

/-- `OpsLabelJumpToRemover(LabelFinalizer(strip_last_label(routines)))` -/
def backend (rs : List (List LItem)) : Except Err (List (List Op)) :=
  match stripLastLabel rs with
  | .error e => .error e
  | .ok s =>
    let (f, st) := finalize s ⟨[], []⟩
    remover st.offsets f

/-! ### routine_op_offsets_are_ordered -/

/-- `op.offset` as Python sees it: labels carry -1 -/
def LItem.pyOffset : LItem → Int
  | .op o => o.offset
  | .ljump r _ => r.offset
  | .label _ _ => -1

def orderedAux : Int → List LItem → Option Int
  | last, [] => some last
  | last, i :: r => if i.pyOffset != -1 && i.pyOffset ≤ last then none else orderedAux i.pyOffset r

def orderedRoutines : Int → List (List LItem) → Bool
  | _, [] => true
  | last, r :: rs =>
    match orderedAux last r with
    | none => false
    | some l => orderedRoutines l rs

/-! ### collect_ops, routines, macros -/

def trailingLabels : List LItem → List (Nat × Bool)
  | .label id nm :: r => (id, nm) :: trailingLabels r
  | _ => []

/-- `_trailing_labels_need_an_op` -/
def trailingNeedOp (ops : List LItem) : Bool :=
  let tl := trailingLabels ops.reverse
  tl.any (·.2) ||
    ops.any fun
      | .ljump root (some l) => root.name != Gen.op_jump && tl.any (·.1 == l)
      | _ => false

/-- the counter ticks of the visiting phase; returns the label counter before it -/
def visitTicks (nl no : Nat) : M Nat := fun s => .ok (s.lbc, (s.tickedLbl nl).tickedOp no)

/-- visit all statements of a func_suite, then `collect_ops(terminate_trailing_labels)` -/
def compileBody (ms : Macros) (terminate : Bool) (body : Stmts) : M (List LItem) := do
  if vbadStmts body then fail .ssbCompilerError
  else
    let lb ← visitTicks (vlStmts body) (voStmts body)
    let ops ← cStmts ms lb body
    if terminate && trailingNeedOp ops then
      let o ← genOp Gen.op_dummy_end []
      pure (ops ++ [.op o])
    else pure ops

/-- `sorted(handlers, key=lambda h: order.index(h.get_name()))` (stable) -/
def insertByKey (k : Nat) (m : Macro) : List (Nat × Macro) → List (Nat × Macro)
  | [] => [(k, m)]
  | (k', m') :: r => if k ≤ k' then (k, m) :: (k', m') :: r else (k', m') :: insertByKey k m r

def sortMacros (order : List String) : List Macro → Except Err (List (Nat × Macro))
  | [] => .ok []
  | m :: r =>
    match order.idxOf? m.name with
    | none => .error .valueError
    | some k =>
      match sortMacros order r with
      | .error e => .error e
      | .ok l => .ok (insertByKey k m l)

/-- `MacroVisitor.visitStart`: one context for all macros; each compiled macro is visible to the later ones -/
def compileMacros : List (Nat × Macro) → Macros → M Macros
  | [], ms => pure ms
  | (_, m) :: r, ms => do
    let bp ← compileBody ms false m.body
    compileMacros r ((m.name, ⟨m.vars, bp⟩) :: ms)

structure Tables where
  infos : List (Option String)
  coros : List (Option String)
  ops : List (List LItem)
deriving Repr

/-- `_enlarge_routine_info` -/
def Tables.enlarge (t : Tables) (id : Nat) : Tables :=
  let needed := id + 1 - t.infos.length
  ⟨t.infos ++ List.replicate needed none, t.coros ++ List.replicate needed none, t.ops ++ List.replicate needed []⟩

def Tables.put (t : Tables) (id : Nat) (info : String) (coro : Option String) (ops : List LItem) : Tables :=
  ⟨t.infos.set id (some info), (match coro with | some c => t.coros.set id (some c) | none => t.coros), t.ops.set id ops⟩

/-- AssertionErrors raised while the RoutineVisitor runs are re-raised as ValueError -/
def wrapAssert {α : Type} (x : Except Err α) : Except Err α :=
  match x with
  | .error .assertionError => .error .valueError
  | y => y

/-- `get_new_routine_id`: `def N` → N, `coro` → previous + 1 -/
def routineId (r : Routine) (active : Nat) : Nat :=
  match r.rid with
  | some n => n
  | none => active

/-- `RoutineVisitor`: `active` = `_active_routine_id + 1` -/
def compileRoutines (ms : Macros) : List Routine → Nat → Tables → M Tables
  | [], _, t => pure t
  | r :: rs, active, t =>
    -- `_enlarge_routine_info` (repo commit 6c4e703): ids start at 0 and must not leave a gap (ids are naturals here)
    if routineId r active > t.infos.length then fail .ssbCompilerError
    else do
      let ops ← compileBody ms true r.body
      compileRoutines ms rs (routineId r active + 1) ((t.enlarge (routineId r active)).put (routineId r active) r.info r.coro ops)

structure Result where
  infos : List (Option String)
  coros : List (Option String)
  ops : List (List Op)
deriving DecidableEq, Repr

/-- the labelled code the front end hands to the back end -/
def frontend (p : Program) : Except Err Tables :=
  match sortMacros p.macroOrder p.macros with
  | .error e => .error e
  | .ok sorted =>
    match compileMacros sorted [] St.init with
    | .error e => .error e
    | .ok (ms, _) =>
      match wrapAssert (compileRoutines ms p.routines 0 ⟨[], [], []⟩ St.init) with
      | .error e => .error e
      | .ok (t, _) => .ok t

def compile (p : Program) : Except Err Result :=
  match frontend p with
  | .error e => .error e
  | .ok t =>
    if !orderedRoutines (-1) t.ops then .error .ssbCompilerError
    else
      match backend t.ops with
      | .error e => .error e
      | .ok ops => .ok ⟨t.infos, t.coros, ops⟩

end ESV.Comp
