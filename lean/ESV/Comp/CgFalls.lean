import ESV.Comp.CgRet
/-
`codegen_correct`, switches: what `SwitchBlockCompileHandler._falls_through(case_ops)` (`fallsThrough`) answers for the blocks the
proof has to know it for.  A case block that is a single exit statement is folded into the header jumps unless
`_falls_through` of the blocks before it; for the statements of `surelyFalls` at the end of the block before, the answer is
"falls through" whatever stands before that block (`FTgood`), so the single exit statement keeps its block.
-/
namespace ESV.Comp
open ESV ESV.Beh

def isLab : LItem → Bool
  | .label _ _ => true
  | _ => false

/-- `_falls_through` says "yes" for every list of blocks that ends in these items and some more labels -/
def FTgood (ops : List LItem) : Prop :=
  ∀ (C suf : List LItem), (∀ x ∈ suf, isLab x = true) → fallsThrough (C ++ ops ++ suf) = true

/-! ### the scan -/

theorem ftScan_append : ∀ (a b : List LItem) (tl : List (Nat × Bool)) (real : List LItem),
    ftScan (a ++ b) tl real = ftScan b (ftScan a tl real).1 (ftScan a tl real).2
  | [], b, tl, real => rfl
  | .label id nm :: r, b, tl, real => by simp only [List.cons_append, ftScan]; exact ftScan_append r b _ _
  | .op o :: r, b, tl, real => by simp only [List.cons_append, ftScan]; exact ftScan_append r b _ _
  | .ljump o l :: r, b, tl, real => by simp only [List.cons_append, ftScan]; exact ftScan_append r b _ _

theorem ftScan_labels : ∀ (l : List LItem), (∀ x ∈ l, isLab x = true) → ∀ (tl : List (Nat × Bool)) (real : List LItem),
    ∃ ls, ftScan l tl real = (tl ++ ls, real)
  | [], _, tl, real => ⟨[], by simp [ftScan]⟩
  | .label id nm :: r, h, tl, real => by
    obtain ⟨ls, e⟩ := ftScan_labels r (fun x hx => h x (List.mem_cons_of_mem _ hx)) (tl ++ [(id, nm)]) real
    exact ⟨(id, nm) :: ls, by simp only [ftScan, e, List.append_assoc, List.singleton_append]⟩
  | .op o :: r, h, _, _ => by have := h (.op o) (by simp); simp [isLab] at this
  | .ljump o l :: r, h, _, _ => by have := h (.ljump o l) (by simp); simp [isLab] at this

theorem ftScan_single {x : LItem} (hx : isLab x = false) (tl : List (Nat × Bool)) (real : List LItem) :
    ftScan [x] tl real = ([], x :: real) := by
  cases x with
  | label id nm => simp [isLab] at hx
  | op o => rfl
  | ljump o l => rfl

theorem ftScan_keeps : ∀ (l : List LItem) (tl : List (Nat × Bool)) (real : List LItem) (x : LItem), x ∈ real → x ∈ (ftScan l tl real).2
  | [], _, _, _, h => h
  | .label id nm :: r, tl, real, x, h => by simp only [ftScan]; exact ftScan_keeps r _ _ x h
  | .op o :: r, tl, real, x, h => by simp only [ftScan]; exact ftScan_keeps r _ _ x (List.mem_cons_of_mem _ h)
  | .ljump o l :: r, tl, real, x, h => by simp only [ftScan]; exact ftScan_keeps r _ _ x (List.mem_cons_of_mem _ h)

/-- the scan over `C ++ pre ++ [x] ++ labels`, `x` a real op -/
theorem ftScan_last_real (C : List LItem) {x : LItem} (hx : isLab x = false) (suf : List LItem) (hs : ∀ y ∈ suf, isLab y = true) :
    ∃ ls r1, ftScan (C ++ [x] ++ suf) [] [] = (ls, x :: r1) := by
  rw [ftScan_append, ftScan_append, ftScan_single hx]
  obtain ⟨ls, e⟩ := ftScan_labels suf hs [] (x :: (ftScan C [] []).2)
  exact ⟨[] ++ ls, _, e⟩

/-- the scan over `C ++ [label e nm] ++ labels`: the label is among the trailing labels -/
theorem ftScan_last_label (C : List LItem) (e : Nat) (nm : Bool) (suf : List LItem) (hs : ∀ y ∈ suf, isLab y = true) :
    (e, nm) ∈ (ftScan (C ++ [.label e nm] ++ suf) [] []).1 ∧ (ftScan (C ++ [.label e nm] ++ suf) [] []).2 = (ftScan C [] []).2 := by
  rw [ftScan_append, ftScan_append]
  simp only [ftScan]
  obtain ⟨ls, e'⟩ := ftScan_labels suf hs ((ftScan C [] []).1 ++ [(e, nm)]) (ftScan C [] []).2
  rw [e']
  exact ⟨by simp, rfl⟩

theorem endsFlow_false {x : LItem} (h : endsName x = false) (prev : Option LItem) : endsFlow x prev = false := by
  cases prev with
  | none => exact h
  | some p => simp only [endsFlow]; split <;> simp [h]

theorem fallsThrough_of_any (l : List LItem) (hne : l ≠ [])
    (h : ((ftScan l [] []).1.any fun x => x.2 || (ftScan l [] []).2.any (isJumpTo x.1)) = true) : fallsThrough l = true := by
  unfold fallsThrough
  simp only
  generalize ftScan l [] [] = T at h ⊢
  cases h2 : T.2 with
  | nil => cases l with
    | nil => exact absurd rfl hne
    | cons x r => rfl
  | cons a r =>
    cases r with
    | nil => rw [h2] at h; simp only; rw [h]; simp
    | cons b r2 => rw [h2] at h; simp only; rw [h]; simp

/-! ### three reasons for `FTgood` -/

/-- the last real op does not end the control flow -/
theorem ftgood_real (pre : List LItem) {x : LItem} (hx : isLab x = false) (he : endsName x = false) : FTgood (pre ++ [x]) := by
  intro C suf hs
  have e : C ++ (pre ++ [x]) ++ suf = (C ++ pre) ++ [x] ++ suf := by simp
  obtain ⟨ls, r1, hsc⟩ := ftScan_last_real (C ++ pre) hx suf hs
  rw [e]
  simp only [fallsThrough, hsc]
  cases r1 with
  | nil => simp [endsFlow_false he]
  | cons b r2 => simp [endsFlow_false he]

/-- a user label at the end -/
theorem ftgood_named (pre : List LItem) (id : Nat) : FTgood (pre ++ [.label id true]) := by
  intro C suf hs
  have e : C ++ (pre ++ [.label id true]) ++ suf = (C ++ pre) ++ [.label id true] ++ suf := by simp
  obtain ⟨hm, _⟩ := ftScan_last_label (C ++ pre) id true suf hs
  rw [e]
  exact fallsThrough_of_any _ (by simp) (List.any_eq_true.mpr ⟨(id, true), hm, by simp⟩)

/-- a label at the end that a jump of the code goes to -/
theorem ftgood_targeted (pre mid : List LItem) (root : Op) (e : Nat) (nm : Bool) :
    FTgood (pre ++ [.ljump root (some e)] ++ mid ++ [.label e nm]) := by
  intro C suf hs
  have e1 : C ++ (pre ++ [.ljump root (some e)] ++ mid ++ [.label e nm]) ++ suf =
      (C ++ pre ++ [.ljump root (some e)] ++ mid) ++ [.label e nm] ++ suf := by simp
  obtain ⟨hm, hr⟩ := ftScan_last_label (C ++ pre ++ [.ljump root (some e)] ++ mid) e nm suf hs
  have hj : LItem.ljump root (some e) ∈ (ftScan (C ++ pre ++ [.ljump root (some e)] ++ mid) [] []).2 := by
    rw [ftScan_append, ftScan_append]
    refine ftScan_keeps mid _ _ _ ?_
    rw [ftScan_single (by rfl)]
    simp
  rw [e1]
  refine fallsThrough_of_any _ (by simp) (List.any_eq_true.mpr ⟨(e, nm), hm, ?_⟩)
  rw [hr]
  simp only [Bool.or_eq_true]
  exact .inr (List.any_eq_true.mpr ⟨_, hj, by simp [isJumpTo]⟩)

theorem FTgood.pre {b : List LItem} (h : FTgood b) (a : List LItem) : FTgood (a ++ b) := by
  intro C suf hs
  have := h (C ++ a) suf hs
  simpa [List.append_assoc] using this

theorem FTgood.labels {a : List LItem} (h : FTgood a) (labs : List LItem) (hl : ∀ x ∈ labs, isLab x = true) : FTgood (a ++ labs) := by
  intro C suf hs
  have := h C (labs ++ suf) (fun x hx => by
    rcases List.mem_append.mp hx with h1 | h1
    · exact hl x h1
    · exact hs x h1)
  simpa [List.append_assoc] using this

/-! ### results of the small generators -/

def RetA {α : Type} (P : α → Prop) (m : M α) : Prop := ∀ s r s', m s = .ok (r, s') → P r

theorem RetA.bind {α β : Type} {P : β → Prop} {Q : α → Prop} {x : M α} {f : α → M β} (hx : RetA Q x)
    (h : ∀ a, Q a → RetA P (f a)) : RetA P (x >>= f) := by
  intro s r s' hr
  obtain ⟨a, s1, h1, h2⟩ := (bind_ok x f s (r, s')).mp hr
  exact h a (hx s a s1 h1) s1 r s' h2

theorem RetA.any {α : Type} (x : M α) : RetA (fun _ => True) x := fun _ _ _ _ => trivial

theorem RetA.pure {α : Type} {P : α → Prop} {a : α} (h : P a) : RetA P (pure a : M α) := by
  intro s r s' hr
  have := (pure_ok a s (r, s')).mp hr
  simp only [Prod.mk.injEq] at this
  rw [this.1]; exact h

theorem RetA.fail {α : Type} {P : α → Prop} (e : Err) : RetA P (fail e : M α) :=
  fun s r s' hr => ((fail_ok e s (r, s')).mp hr).elim

theorem genOp_ret (name : String) (ps : List Param) : RetA (fun o : Op => o.name = name) (genOp name ps) := by
  intro s o s' h
  obtain ⟨rfl, _⟩ := genOp_spec h
  rfl

theorem genJump_ret (l : Option Nat) : RetA (fun j : LItem => ∃ o, j = .ljump ⟨o, Gen.op_jump, []⟩ l) (genJump l) := by
  intro s j s' h
  exact ⟨_, (genJump_stk h).2⟩

theorem buildFor_ret (b : BP) (l : Nat) : RetA (fun j : LItem => ∃ o, j = .ljump ⟨o, b.name, b.params⟩ (some l)) (buildFor b l) := by
  intro s j s' h
  exact (buildFor_stk h).2

/-! ### the statements of `surelyFalls` -/

theorem cStmt_ft (cm : Macros) (lb : Nat) : ∀ (st : Stmt), surelyFalls st = true → RetA FTgood (cStmt cm lb st) := by
  intro st hs
  cases st with
  | op n ps =>
    simp only [surelyFalls, Bool.not_eq_true'] at hs
    simp only [cStmt, opStmt]
    refine RetA.bind (genOp_ret n ps) (fun o ho => RetA.pure ?_)
    exact ftgood_real [] (x := .op o) rfl (by simp only [endsName, ho, hs])
  | inl c cp n ps =>
    simp only [surelyFalls, Bool.not_eq_true'] at hs
    simp only [cStmt, inlStmt]
    refine RetA.bind (RetA.any _) (fun c' _ => RetA.bind (genOp_ret n ps) (fun o ho => RetA.pure ?_))
    exact ftgood_real [.op c'] (x := .op o) rfl (by simp only [endsName, ho, hs])
  | with_ c cp inner =>
    cases inner with
    | op n ps =>
      simp only [surelyFalls, Bool.not_eq_true'] at hs
      simp only [cStmt, withOf, opStmt]
      refine RetA.bind (RetA.any _) (fun c' _ => RetA.bind (Q := fun sub => ∃ o : Op, o.name = n ∧ sub = [LItem.op o]) ?_ (fun sub hsub => ?_))
      · exact RetA.bind (genOp_ret n ps) (fun o ho => RetA.pure ⟨o, ho, rfl⟩)
      · obtain ⟨o, ho, rfl⟩ := hsub
        split
        · exact RetA.pure (ftgood_real [.op c'] (x := .op o) rfl (by simp only [endsName, ho, hs]))
        · exact RetA.fail _
    | _ => simp [surelyFalls] at hs
  | call n =>
    simp only [cStmt, callStmt]
    refine RetA.bind (RetA.any _) (fun i _ => RetA.bind (genOp_ret Gen.op_call []) (fun o ho => RetA.pure ?_))
    refine ftgood_real [] (x := .ljump o (some i)) rfl ?_
    simp only [endsName, ho]
    decide
  | label n =>
    simp only [cStmt, labelStmt]
    exact RetA.bind (RetA.any _) (fun i _ => RetA.pure (ftgood_named [] i))
  | while_ neg hd body =>
    simp only [cStmt, whileOf]
    refine RetA.bind (RetA.any _) (fun _ _ => ?_)
    cases neg with
    | true =>
      simp only [↓reduceIte, whileNeg]
      refine RetA.bind (Q := FTgood) ?_ (fun a ha => RetA.bind (RetA.any _) (fun _ _ => RetA.pure ha))
      refine RetA.bind (buildFor_ret (loopBP hd) (lb + 2)) (fun br hbr => RetA.bind (RetA.any _) (fun b _ =>
        RetA.bind (RetA.any _) (fun j _ => RetA.pure ?_)))
      obtain ⟨o, rfl⟩ := hbr
      have := ftgood_targeted [.label (lb + 1) false] (b.items ++ [j]) ⟨o, (loopBP hd).name, (loopBP hd).params⟩ (lb + 2) false
      simpa [List.append_assoc] using this
    | false =>
      simp only [surelyFalls, Bool.false_or, Bool.not_eq_true'] at hs
      simp only [Bool.false_eq_true, ↓reduceIte, whilePos]
      refine RetA.bind (Q := FTgood) ?_ (fun a ha => RetA.bind (RetA.any _) (fun _ _ => RetA.pure ha))
      refine RetA.bind (RetA.any _) (fun checkL _ => RetA.bind (RetA.any _) (fun blockL _ => RetA.bind (RetA.any _) (fun j _ =>
        RetA.bind (RetA.any _) (fun b _ => RetA.bind (buildFor_ret (loopBP hd) blockL) (fun br hbr => RetA.pure ?_)))))
      obtain ⟨o, rfl⟩ := hbr
      have h1 := ftgood_real ([.label (lb + 1) false, j, .label blockL false] ++ b.items ++ [.label checkL false])
        (x := .ljump ⟨o, (loopBP hd).name, (loopBP hd).params⟩ (some blockL)) rfl (by simp only [endsName, loopBP, hs])
      have := h1.labels [.label (lb + 2) false] (fun x hx => by simp at hx; subst hx; rfl)
      simpa [List.append_assoc] using this
  | for_ init hd inc body =>
    simp only [surelyFalls, Bool.not_eq_true'] at hs
    simp only [cStmt, forOf]
    refine RetA.bind (RetA.any _) (fun _ _ => RetA.bind (RetA.any _) (fun i _ => RetA.bind (RetA.any _) (fun j _ =>
      RetA.bind (RetA.any _) (fun b _ => RetA.bind (RetA.any _) (fun e _ => RetA.bind (buildFor_ret (loopBP hd) (lb + 3)) (fun br hbr =>
        RetA.bind (RetA.any _) (fun _ _ => RetA.pure ?_)))))))
    obtain ⟨o, rfl⟩ := hbr
    have h1 := ftgood_real ([.label (lb + 1) false] ++ i ++ [j, .label (lb + 3) false] ++ b.items ++ [.label (lb + 4) false] ++ e
        ++ [.label (lb + 5) false])
      (x := .ljump ⟨o, (loopBP hd).name, (loopBP hd).params⟩ (some (lb + 3))) rfl (by simp only [endsName, loopBP, hs])
    have := h1.labels [.label (lb + 2) false] (fun x hx => by simp at hx; subst hx; rfl)
    simpa [List.append_assoc] using this
  | ite neg hdrs body elifs hasElse els =>
    simp only [surelyFalls, Bool.not_eq_true'] at hs
    subst hs
    simp only [cStmt, iteOf, elsePartOf, Bool.false_eq_true, ↓reduceIte]
    refine RetA.bind (RetA.any _) (fun endL _ => RetA.bind (RetA.any _) (fun bps _ => RetA.bind (RetA.any _) (fun early _ =>
      RetA.bind (RetA.any _) (fun as _ => RetA.bind (Q := fun ep => ∃ o, ep = [LItem.ljump ⟨o, Gen.op_jump, []⟩ none]) ?_ (fun ep hep =>
        RetA.bind (RetA.any _) (fun ifBlk _ => RetA.bind (RetA.any _) (fun late _ => RetA.pure ?_)))))))
    · exact RetA.bind (genJump_ret none) (fun j hj => RetA.pure (by obtain ⟨o, rfl⟩ := hj; exact ⟨o, rfl⟩))
    · obtain ⟨o, rfl⟩ := hep
      have hp : ∀ rest, patchNone endL (LItem.ljump ⟨o, Gen.op_jump, []⟩ none :: rest) =
          LItem.ljump ⟨o, Gen.op_jump, []⟩ (some endL) :: patchNone endL rest := by
        intro rest; simp [patchNone, patchItem]
      have := ftgood_targeted (patchNone endL (ifBlk.hdrs ++ (if neg then ifBlk.items else []) ++ elifsFront as late))
        (patchNone endL ((if neg then [] else ifBlk.items) ++ elifsBack as late)) ⟨o, Gen.op_jump, []⟩ endL false
      simpa [patchNone_append, hp, List.append_assoc] using this
  | _ => simp [surelyFalls] at hs

theorem cStmts_ft (cm : Macros) : ∀ (ss : Stmts) (lb : Nat), surelyFallsStmts ss = true → RetA FTgood (cStmts cm lb ss)
  | .nil, _, h => by simp [surelyFallsStmts] at h
  | .cons s .nil, lb, h => by
    simp only [surelyFallsStmts] at h
    simp only [cStmts]
    refine RetA.bind (cStmt_ft cm lb s h) (fun a ha => RetA.bind (Q := fun b => b = []) ?_ (fun b hb => RetA.pure ?_))
    · first | exact RetA.pure rfl | (simp only [cStmts]; exact RetA.pure rfl)
    · subst hb; simpa using ha
  | .cons s (.cons s2 r), lb, h => by
    simp only [surelyFallsStmts] at h
    rw [cStmts]
    exact RetA.bind (RetA.any _) (fun a _ => RetA.bind (cStmts_ft cm (.cons s2 r) _ h) (fun b hb => RetA.pure (hb.pre a)))

end ESV.Comp
