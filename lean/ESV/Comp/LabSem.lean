import ESV.Comp.Vocab
import ESV.Beh.Machine
/-
Semantics of labelled code, the compiler's intermediate form (DESIGN §3.3), as a labelled transition system in the
style of the SSB machine (ESV/Beh/Machine.lean), the conversion of compiled ops to machine ops, and the decidable
well-formedness predicate `WFL` under which the back end (strip_last_label → LabelFinalizer → OpsLabelJumpToRemover,
ESV/Comp/Backend.lean) is proved to preserve behaviour (ESV/Props/C01Backend.lean).
-/
namespace ESV.Comp
open ESV ESV.Beh

/-! ### conversion of compiled ops to machine ops -/

def convParam : ESV.Param → ESV.Beh.Param
  | .int i => .int i
  | .fixed v => .fixed v
  | .const n => .const n
  | .constString s => .str s
  | .langString kv => .lang kv
  | .posMark n a b c d => .pos n a b c d

def convParams (ps : List ESV.Param) : List ESV.Beh.Param := ps.map convParam

def convOp (o : Op) : MOp := ⟨(o.offset : Int), o.name, convParams o.params⟩

/-- the routine op lists of a compile result as the machine sees them -/
def conv (ops : List (List Op)) : List (List MOp) := ops.map (·.map convOp)

/-! ### the transition system of labelled code -/

/-- a position: routine index and index into the routine's item list (`idx = length` = past the last item) -/
structure LPos where
  rtn : Nat
  idx : Nat
deriving DecidableEq, Repr

def LPos.next (p : LPos) : LPos := ⟨p.rtn, p.idx + 1⟩

def isLabelOf (l : Nat) : LItem → Bool
  | .label id _ => id == l
  | _ => false

/-- position of the first definition of label `l`, searching the routines in order -/
def findLabel (l : Nat) : List (List LItem) → Nat → Option LPos
  | [], _ => none
  | r :: rs, k =>
    match r.findIdx? (isLabelOf l) with
    | some i => some ⟨k, i⟩
    | none => findLabel l rs (k + 1)

/-- where nothing is: stepping there is the `!STUCK` halt (a jump to a label that is defined nowhere) -/
def stuckPos (rs : List (List LItem)) : LPos := ⟨rs.length, 0⟩

def target (rs : List (List LItem)) (l : Nat) : LPos :=
  match findLabel l rs 0 with
  | some p => p
  | none => stuckPos rs

def itemAt (rs : List (List LItem)) (p : LPos) : Option LItem :=
  match rs[p.rtn]? with
  | some r => r[p.idx]?
  | none => none

/-- the item directly before `p` in the same routine is a context op (same reading as `Machine.afterCtx`) -/
def afterCtxL (rs : List (List LItem)) (p : LPos) : Bool :=
  match p.idx with
  | 0 => false
  | j + 1 =>
    match itemAt rs ⟨p.rtn, j⟩ with
    | some (.op o) => isCtx o.name
    | _ => false

/-- One step of labelled code.  A label is a silent step to the next item; a label jump whose root is `Jump` is a
silent step to the label's position, with a test-op root it is a test (yes: the label, no: the next item); every
other op emits or halts as `Machine.step` decides from its name; past the last item of a routine = `Return`.
Items that the machine would read an integer target from (a plain op named like a jump-carrying op), a label jump
whose root is not a jump-carrying op and a label jump without label have no labelled-code meaning (`!INVALID`);
`WFL` excludes them. -/
def lstep (rs : List (List LItem)) (p : LPos) : Step LPos Ev :=
  match rs[p.rtn]? with
  | none => .halt evStuck
  | some r =>
    match r[p.idx]? with
    | none => .halt evReturn
    | some (.label _ _) => .silent p.next
    | some (.ljump _ none) => .halt (evInvalid "jump")
    | some (.ljump root (some l)) =>
      if isJump root.name then .silent (target rs l)
      else if isTest root.name then .test ⟨root.name, convParams root.params⟩ (target rs l) p.next
      else .halt (evInvalid "jump")
    | some (.op o) =>
      if isJump o.name || isTest o.name then .halt (evInvalid "raw")
      else if Beh.endsFlow o.name && !afterCtxL rs p then .halt ⟨o.name, convParams o.params⟩
      else .emit ⟨o.name, convParams o.params⟩ p.next

def labLTS (rs : List (List LItem)) : LTS Ev := ⟨LPos, lstep rs⟩

/-- entry of routine `r`: its first item -/
def labEntry (_rs : List (List LItem)) (r : Nat) : LPos := ⟨r, 0⟩

/-! ### well-formedness of labelled code (what the front end produces) -/

def labelIds : List LItem → List Nat
  | [] => []
  | .label id _ :: r => id :: labelIds r
  | _ :: r => labelIds r

/-- a plain op is not named like a jump-carrying op (the front end builds those only as label jumps) -/
def rawOK : LItem → Bool
  | .op o => !(isJump o.name || isTest o.name)
  | _ => true

/-- the root of a label jump is `Jump` or a test op (Branch*, Case*, Call) -/
def rootOK : LItem → Bool
  | .ljump root _ => isJump root.name || isTest root.name
  | _ => true

/-- what may stand directly after a context op: no label, no `Jump` label jump -/
def afterCtxOK : LItem → Bool
  | .label _ _ => false
  | .ljump root _ => !isJump root.name
  | .op _ => true

def isCtxL : LItem → Bool
  | .op o => isCtx o.name
  | _ => false

/-- every context op is directly followed (if by anything) by a plain op or a test -/
def ctxOK : List LItem → Bool
  | [] => true
  | [_] => true
  | x :: y :: r => (!isCtxL x || afterCtxOK y) && ctxOK (y :: r)

/-- no op other than `Jump` targets a trailing label of its routine (`_trailing_labels_need_an_op` makes the front end
append a dummy end op in that case, so that the labels are not trailing) -/
def condOK (r : List LItem) : Bool :=
  let tl := (trailingLabels r.reverse).map (·.1)
  r.all fun
    | .ljump root (some l) => isJump root.name || !tl.contains l
    | _ => true

/-- **Well-formed labelled code.**  Every conjunct is needed (see the `_counterexample` theorems of
ESV/Props/C01Backend.lean) and holds for the output of the front end:
* op offsets pairwise distinct (they come from one counter);
* every label id is defined at most once (`SsbLabel` objects are created once per id and placed once);
* plain ops are not named like jump-carrying ops, label-jump roots are jump-carrying ops;
* a context op is followed by a plain op or a test, not by a label or a `Jump`;
* only `Jump`s target trailing labels. -/
def WFL (rs : List (List LItem)) : Prop :=
  DistinctOffsets rs ∧ (labelIds rs.flatten).Nodup ∧
  rs.flatten.all rawOK = true ∧ rs.flatten.all rootOK = true ∧
  rs.all ctxOK = true ∧ rs.all condOK = true

instance (rs : List (List LItem)) : Decidable (WFL rs) := by unfold WFL; infer_instance

end ESV.Comp
