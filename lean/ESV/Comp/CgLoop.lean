import ESV.Comp.CgIf2
/-
`codegen_correct`, loops: the exit statements (`continue`, `break_loop`, `break`) as pieces, what a loop collects for its
body, `forever`.
-/
namespace ESV.Comp
open ESV ESV.Beh

/-! ### positions in a placed piece -/

theorem Placed.mid {c : Copy} {rs : List (List LItem)} {r i0 : Nat} {pre mid post : List LItem} (h : Placed c rs r i0 (pre ++ mid ++ post)) :
    Placed c rs r (i0 + pre.length) mid := h.left.right

theorem Placed.here {c : Copy} {rs : List (List LItem)} {r i0 : Nat} {pre post : List LItem} {x : LItem} (h : Placed c rs r i0 (pre ++ x :: post)) :
    ItemC c rs ⟨r, i0 + pre.length⟩ x := h.item (d := pre.length) (by simp)

theorem Placed.lbl {c : Copy} {rs : List (List LItem)} (hn : (labelIds rs.flatten).Nodup) {r i0 : Nat} {pre post : List LItem} {l : Nat} {nm : Bool}
    (h : Placed c rs r i0 (pre ++ LItem.label l nm :: post)) : target rs (c.σ l) = ⟨r, i0 + pre.length⟩ :=
  h.resolve hn (d := pre.length) (nm := nm) (by simp)

theorem Placed.here' {c : Copy} {rs : List (List LItem)} {r i0 : Nat} {items : List LItem} (h : Placed c rs r i0 items) (pre post : List LItem)
    (x : LItem) (e : items = pre ++ x :: post) {q : Nat} (hq : q = i0 + pre.length) : ItemC c rs ⟨r, q⟩ x := by
  subst e hq; exact h.here

theorem Placed.lbl' {c : Copy} {rs : List (List LItem)} (hn : (labelIds rs.flatten).Nodup) {r i0 : Nat} {items : List LItem}
    (h : Placed c rs r i0 items) (pre post : List LItem) (l : Nat) (nm : Bool) (e : items = pre ++ LItem.label l nm :: post) {q : Nat}
    (hq : q = i0 + pre.length) : target rs (c.σ l) = ⟨r, q⟩ := by
  subst e hq; exact h.lbl hn

theorem Placed.mid' {c : Copy} {rs : List (List LItem)} {r i0 : Nat} {items : List LItem} (h : Placed c rs r i0 items) (pre mid post : List LItem)
    (e : items = pre ++ mid ++ post) {q : Nat} (hq : q = i0 + pre.length) : Placed c rs r q mid := by
  subst e hq; exact h.mid

theorem LPos.next_eq (r i q : Nat) (h : q = i + 1) : (⟨r, i⟩ : LPos).next = ⟨r, q⟩ := by
  subst h; rfl

/-! ### the node table under `set` -/

theorem Grow.set_ge {Z : Nat → Prop} {b b' : Src.B} (h : Grow Z b b') {i : Nat} (hi : (tbl b).length ≤ i) (n : Src.Node) : Grow Z b (b'.set i n) := by
  refine ⟨by rw [tbl_set]; simpa using h.1, fun j hj => ?_⟩
  have : (tbl (b'.set i n))[j]? = (tbl b')[j]? := by rw [tbl_set, List.getElem?_set_ne (by omega)]
  rw [this]; exact h.2 j hj

/-- the node of a label becomes the `silent` node of the label statement -/
theorem Grow.set_lab {Z : Nat → Prop} (b : Src.B) {i : Nat} (hi : Z i) (k : Nat) : Grow Z b (b.set i (.silent k)) := by
  refine ⟨by rw [tbl_set]; simp, fun j hj => ?_⟩
  by_cases e : i = j
  · subst e
    exact .inr ⟨hi, k, by rw [tbl_set, List.getElem?_set_self hj]⟩
  · exact .inl (by rw [tbl_set, List.getElem?_set_ne e])

/-- a loop head: a placeholder is pushed, the body is translated, the placeholder is overwritten -/
theorem agree_set {N : List Src.Node} {Z : Nat → Prop} {b b2 : Src.B} {n ph : Src.Node} (hag : AgreeOn N Z b (b2.set (tbl b).length n))
    (g : Grow Z (b.push ph).1 b2) : N[(tbl b).length]? = some n ∧ AgreeOn N Z (b.push ph).1 b2 := by
  have hl1 : (tbl (b.push ph).1).length = (tbl b).length + 1 := by rw [(tbl_push b ph).1]; simp
  have hl2 := g.len
  have hlen : (tbl (b2.set (tbl b).length n)).length = (tbl b2).length := by rw [tbl_set]; simp
  constructor
  · rw [hag.2 _ (Nat.le_refl _) (by rw [hlen]; omega), tbl_set, List.getElem?_set_self (by omega)]
  · refine ⟨fun i hz => by have := hag.1 i hz; omega, fun i h1 h2 => ?_⟩
    rw [hag.2 i (by omega) (by rw [hlen]; exact h2), tbl_set, List.getElem?_set_ne (by omega)]

theorem plainEnv_loop {cx : Cx} {env : Src.Env} (he : EnvOK cx env) (c bl : Option Nat) : EnvOK cx { env with cont := c, brkLoop := bl } :=
  ⟨he.1, he.2, he.3⟩

/-! ### exit statements -/

theorem loneJump_two (x y : LItem) (l : List LItem) : loneJump (x :: y :: l) = none := by
  cases x <;> rfl

/-- one `Jump` to a label of the loop / case stack -/
theorem exit_piece (cx : Cx) (o l : Nat) (s s' : St) (hs : SameStk s s') (env : Src.Env)
    (trf : Nat → Src.B → Src.B × Nat) (hgrow : ∀ k b, Grow cx.Z b (trf k b).1)
    (hex : ∀ m j, ExitsOK cx m j s env → NamedIn cx s' → ∃ n, (∀ k b, trf k b = (b, n)) ∧ R2 cx m j (target cx.rs (cx.cp.σ l)) n) :
    PieceOK cx [.ljump ⟨o, Gen.op_jump, []⟩ (some l)] s s' trf env := by
  refine ⟨hs.1, hs.2, hs.3, ?_, ?_, ?_, ?_, hgrow, ?_⟩
  · simp [lastNotCtx, isCtxL]
  · intro x hx root e; simp at hx; subst hx; cases e
  · intro h0; simp at h0
  · intro l' hl' m j hx hin
    have : l = l' := by simpa [loneJump] using hl'
    subst this; exact hex m j hx hin
  · intro r i0 hp _ k b _ m j hx hin _
    obtain ⟨n, htr, hr⟩ := hex m j hx hin
    rw [htr]
    have hit : ItemC cx.cp cx.rs ⟨r, i0⟩ (.ljump ⟨o, Gen.op_jump, []⟩ (some l)) := by simpa using hp.item (d := 0) rfl
    exact ⟨R2.silL (lab_jump hit jump_isJump) hr, LabExport.same (fun _ _ => rfl)⟩

theorem cont_pm (cx : Cx) (fuel : Nat) (env : Src.Env) : PM cx contStmt (fun k b => Src.tr fuel cx.sm env .cont k b) env := by
  intro s items s' h
  simp only [contStmt, bind_ok, getSt_ok] at h
  obtain ⟨s0, s1, h1, h2⟩ := h
  simp only [Prod.mk.injEq] at h1
  obtain ⟨rfl, rfl⟩ := h1
  cases hl : s1.loops with
  | nil => rw [hl] at h2; simp [fail_ok] at h2
  | cons l rest =>
    rw [hl] at h2
    simp only [bind_ok, pure_ok] at h2
    obtain ⟨jj, s2, h3, h4⟩ := h2
    simp only [Prod.mk.injEq] at h4
    obtain ⟨rfl, rfl⟩ := h4
    obtain ⟨rfl, rfl⟩ := genJump_spec h3
    refine exit_piece cx _ l.1 s1 (s1.tickedOp 1) (sameStk_tickedOp _ _) env _ (fun k b => ?_) (fun m j hx _ => ?_)
    · rw [Src.tr]
      cases env.cont with
      | some t => exact Grow.refl b
      | none => exact Grow.push _ _
    · obtain ⟨kc, kb, e1, _, r1, _⟩ := hx.loop l.1 l.2 rest hl
      exact ⟨kc, fun k b => by rw [Src.tr]; simp [e1], r1⟩

theorem brkLoop_pm (cx : Cx) (fuel : Nat) (env : Src.Env) : PM cx brkLoopStmt (fun k b => Src.tr fuel cx.sm env .brkLoop k b) env := by
  intro s items s' h
  simp only [brkLoopStmt, bind_ok, getSt_ok] at h
  obtain ⟨s0, s1, h1, h2⟩ := h
  simp only [Prod.mk.injEq] at h1
  obtain ⟨rfl, rfl⟩ := h1
  cases hl : s1.loops with
  | nil => rw [hl] at h2; simp [fail_ok] at h2
  | cons l rest =>
    rw [hl] at h2
    simp only [bind_ok, pure_ok] at h2
    obtain ⟨jj, s2, h3, h4⟩ := h2
    simp only [Prod.mk.injEq] at h4
    obtain ⟨rfl, rfl⟩ := h4
    obtain ⟨rfl, rfl⟩ := genJump_spec h3
    refine exit_piece cx _ l.2 s1 (s1.tickedOp 1) (sameStk_tickedOp _ _) env _ (fun k b => ?_) (fun m j hx _ => ?_)
    · rw [Src.tr]
      cases env.brkLoop with
      | some t => exact Grow.refl b
      | none => exact Grow.push _ _
    · obtain ⟨kc, kb, _, e2, _, r2⟩ := hx.loop l.1 l.2 rest hl
      exact ⟨kb, fun k b => by rw [Src.tr]; simp [e2], r2⟩

theorem brk_pm (cx : Cx) (fuel : Nat) (env : Src.Env) : PM cx brkStmt (fun k b => Src.tr fuel cx.sm env .brk k b) env := by
  intro s items s' h
  simp only [brkStmt, bind_ok, getSt_ok] at h
  obtain ⟨s0, s1, h1, h2⟩ := h
  simp only [Prod.mk.injEq] at h1
  obtain ⟨rfl, rfl⟩ := h1
  cases hl : s1.cases with
  | nil => rw [hl] at h2; simp [fail_ok] at h2
  | cons e rest =>
    rw [hl] at h2
    simp only [bind_ok, pure_ok] at h2
    obtain ⟨jj, s2, h3, h4⟩ := h2
    simp only [Prod.mk.injEq] at h4
    obtain ⟨rfl, rfl⟩ := h4
    obtain ⟨rfl, rfl⟩ := genJump_spec h3
    refine exit_piece cx _ e s1 (s1.tickedOp 1) (sameStk_tickedOp _ _) env _ (fun k b => ?_) (fun m j hx _ => ?_)
    · rw [Src.tr]
      cases env.brk with
      | some t => exact Grow.refl b
      | none => exact Grow.push _ _
    · obtain ⟨kb, e1, r1⟩ := hx.case e rest hl
      exact ⟨kb, fun k b => by rw [Src.tr]; simp [e1], r1⟩

/-! ### the block of a loop body -/

theorem loop_block_shape {bodyM : M (List LItem)} {sa sc : St} {blk : Blk} (h : blockOf [] true false bodyM sa = .ok (blk, sc)) :
    ∃ ops sb sL eB, bodyM sa = .ok (ops, sb) ∧ SameStk sb sc ∧ blk.items = [.label sL false] ++ ops ++ [.label eB false] := by
  simp only [blockOf, bind_ok] at h
  obtain ⟨ops, sb, h1, h2⟩ := h
  obtain ⟨hst, hshape⟩ := processBlock_shape h2
  rcases hshape with ⟨l, hsc, _⟩ | ⟨_, sL, js, hitems, _, _, hjs, _⟩
  · simp [shortcutOf] at hsc
  · rcases hjs with ⟨rfl, _⟩ | ⟨o, _, hc⟩
    · exact ⟨ops, sb, sL, _, h1, hst, by simpa using hitems⟩
    · simp at hc

/-- entering the block of a loop body runs the body; after it control is behind the block's end label -/
theorem loop_body_run (cx : Cx) {ops : List LItem} {sa sb : St} {trB : Nat → Src.B → Src.B × Nat} {env' : Src.Env}
    (hB : PieceOK cx ops sa sb trB env') (sL eB : Nat) (tail : List LItem) {r ib : Nat}
    (hp : Placed cx.cp cx.rs r ib ([.label sL false] ++ ops ++ [.label eB false] ++ tail)) (k : Nat) (b : Src.B)
    (hag : AgreeOn cx.N cx.Z b (trB k b).1) (m j : Nat) (hex : ExitsOK cx m j sa env') (hin : NamedIn cx sb)
    (hafter : falls ops = true → R2 cx m j ⟨r, ib + ops.length + 2⟩ k) :
    R2 cx m j ⟨r, ib⟩ (trB k b).2 ∧ LabExport cx env' m j b (trB k b).1 := by
  have hp' : Placed cx.cp cx.rs r ib ([.label sL false] ++ ops ++ ([.label eB false] ++ tail)) := by
    simpa [List.append_assoc] using hp
  have hafter' : falls ops = true → R2 cx m j ⟨r, ib + 1 + ops.length⟩ k := by
    intro hfo
    have hit : ItemC cx.cp cx.rs ⟨r, ib + 1 + ops.length⟩ (.label eB false) := by
      have e0 : ib + 1 + ops.length = ib + ([LItem.label sL false] ++ ops).length := by simp; omega
      rw [e0]
      exact Placed.here (pre := [.label sL false] ++ ops) (x := .label eB false) (post := tail) (by simpa [List.append_assoc] using hp)
    refine R2.silL (lab_label hit) ?_
    have e : (⟨r, ib + 1 + ops.length⟩ : LPos).next = ⟨r, ib + ops.length + 2⟩ := by
      simp only [LPos.next, LPos.mk.injEq, true_and]; omega
    rw [e]; exact hafter hfo
  exact ⟨(block_enter cx hB sL _ hp' k b hag m j hex hin hafter').1, block_labs cx hB sL _ hp' k b hag m j hex hin hafter'⟩

end ESV.Comp
