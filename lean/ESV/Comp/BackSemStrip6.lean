import ESV.Comp.BackSemStrip5
/-
Back-end correctness: the invariant holds for well-formed labelled code, success of the later passes means every jump
target that survives strip_last_label is defined, and the composition `backend_correct`.
-/
namespace ESV.Comp
open ESV ESV.Beh

theorem jumpLabels_mem (its : List LItem) (root : Op) (l : Nat) (h : LItem.ljump root (some l) ∈ its) : l ∈ jumpLabels its := by
  induction its with
  | nil => simp at h
  | cons x r ih =>
    simp only [List.mem_cons] at h
    rcases h with rfl | h
    · simp [jumpLabels]
    · have := ih h
      cases x with
      | label id nm => simpa [jumpLabels] using this
      | op o => simpa [jumpLabels] using this
      | ljump root' t => cases t <;> simp [jumpLabels, this]

theorem cntOps_zero_labels (X : List LItem) (h : cntOps X = 0) : ∀ x ∈ X, isLabel x = true := by
  induction X with
  | nil => intro x hx; simp at hx
  | cons y r ih =>
    intro x hx
    cases y with
    | label id nm =>
      simp only [List.mem_cons] at hx
      rcases hx with rfl | hx
      · rfl
      · exact ih (by simpa [cntOps] using h) x hx
    | op o => simp [cntOps] at h
    | ljump root t => simp [cntOps] at h

theorem trailingLabels_mem (l : Nat) (nm : Bool) (X : List LItem) : ∀ (Q : List LItem), (∀ x ∈ Q, isLabel x = true) →
    l ∈ (trailingLabels (Q ++ LItem.label l nm :: X)).map (·.1) := by
  intro Q
  induction Q with
  | nil => intro _; simp [trailingLabels]
  | cons q Q ih =>
    intro h
    have hq := h q (by simp)
    cases q with
    | label id nm' =>
      simp only [List.cons_append, trailingLabels, List.map_cons, List.mem_cons]
      exact .inr (ih (fun x hx => h x (List.mem_cons_of_mem _ hx)))
    | op o => simp [isLabel] at hq
    | ljump root t => simp [isLabel] at hq

theorem condInv_of_condOK (its : List LItem) (h : condOK its = true) : CondInv its := by
  intro root l hin hnj pre nm post hsplit
  rcases Nat.lt_or_ge 0 (cntOps post) with hc | hc
  · exact hc
  · exfalso
    have hz : cntOps post = 0 := by omega
    simp only [condOK, List.all_eq_true] at h
    have := h _ hin
    simp only [hnj, Bool.false_or, Bool.not_eq_true', List.contains_eq_mem, decide_eq_false_iff_not] at this
    apply this
    rw [hsplit]
    simp only [List.reverse_append, List.reverse_cons, List.append_assoc, List.singleton_append]
    apply trailingLabels_mem
    intro x hx
    exact cntOps_zero_labels post hz x (List.mem_reverse.mp hx)

theorem sinv_of_wfl (rs : List (List LItem)) (h : WFL rs) : SInv (rs.flatMap jumpLabels) rs := by
  obtain ⟨h1, h2, h3, h4, h5, h6⟩ := h
  refine ⟨h1, h2, h3, h4, h5, ?_, ?_⟩
  · intro root l hx
    obtain ⟨its, hits, hin⟩ := List.mem_flatten.mp hx
    simp only [jumpedTo, List.contains_eq_mem, decide_eq_true_eq]
    exact List.mem_flatMap.mpr ⟨its, hits, jumpLabels_mem its root l hin⟩
  · intro its hits
    exact condInv_of_condOK its (List.all_eq_true.mp h6 its hits)

/-! ### the later passes succeed only if every jump target is defined -/

theorem removeItems_labels (d : List (Nat × Nat)) (its : List LItem) : ∀ os, removeItems d its = .ok os →
    ∀ root l, LItem.ljump root (some l) ∈ its → ∃ t, Dict.get? d l = some t := by
  induction its with
  | nil => intro os _ root l h; simp at h
  | cons x r ih =>
    intro os h root l hin
    cases x with
    | label id nm =>
      simp only [removeItems] at h
      simp only [List.mem_cons] at hin
      rcases hin with hin | hin
      · cases hin
      · exact ih os h root l hin
    | op o =>
      simp only [removeItems] at h
      split at h
      · simp at h
      · rename_i os' hos
        simp only [List.mem_cons] at hin
        rcases hin with hin | hin
        · cases hin
        · exact ih os' hos root l hin
    | ljump root' t =>
      cases t with
      | none => simp [removeItems] at h
      | some t =>
        simp only [removeItems] at h
        split at h
        · simp at h
        · rename_i v hv
          split at h
          · simp at h
          · rename_i os' hos
            simp only [List.mem_cons] at hin
            rcases hin with hin | hin
            · cases hin; exact ⟨v, hv⟩
            · exact ih os' hos root l hin

theorem mapE_mem {α β : Type} {f : α → Except Err β} : ∀ (l : List α) (out : List β), mapE f l = .ok out →
    ∀ a ∈ l, ∃ b, f a = .ok b := by
  intro l
  induction l with
  | nil => intro out _ a h; simp at h
  | cons x xs ih =>
    intro out h a ha
    obtain ⟨b, bs, h1, h2, _⟩ := mapE_ok_cons h
    simp only [List.mem_cons] at ha
    rcases ha with rfl | ha
    · exact ⟨b, h1⟩
    · exact ih bs h2 a ha

theorem finDec_kept_mem (its : List LItem) (x : LItem) (hx : x ∈ its) :
    x ∈ (finDec its).filterMap (·.2) ∨ ∃ root t, x = .ljump root (some t) ∧ t ∈ labelIds its := by
  obtain ⟨i, hi, rfl⟩ := List.getElem_of_mem hx
  have hget := finDec_get its i its[i] (by simp [hi])
  cases hd : finDrop its[i] (its.drop (i + 1)) with
  | false =>
    simp only [hd, Bool.false_eq_true, if_false] at hget
    exact .inl (List.mem_of_getElem? (dec_get (finDec its) i _ _ hget))
  | true =>
    right
    cases hxi : its[i] with
    | label id nm => rw [hxi] at hd; simp [finDrop] at hd
    | op o => rw [hxi] at hd; simp [finDrop] at hd
    | ljump root t =>
      rw [hxi] at hd
      cases t with
      | none => simp [finDrop, jumpRemoved] at hd
      | some t =>
        simp only [finDrop, jumpRemoved, Bool.and_eq_true, beq_iff_eq, List.contains_iff_mem] at hd
        obtain ⟨n, nm, h1, _⟩ := labelsAfter_spec _ t hd.2
        refine ⟨root, t, rfl, ?_⟩
        have : its[i + 1 + n]? = some (.label t nm) := by simpa using h1
        exact labelIds_mem its _ t (List.mem_of_getElem? this) (by simp [isLabelOf])

theorem labelIds_mem_flatten (s : List (List LItem)) (its : List LItem) (l : Nat) (hits : its ∈ s) (h : l ∈ labelIds its) :
    l ∈ labelIds s.flatten := by
  rw [labelIds_eq_filterMap] at h ⊢
  obtain ⟨y, hy, he⟩ := List.mem_filterMap.mp h
  exact List.mem_filterMap.mpr ⟨y, List.mem_flatten.mpr ⟨its, hits, hy⟩, he⟩

theorem defined_of_remover (s : List (List LItem)) (ops : List (List Op))
    (h : remover (finalize s ⟨[], []⟩).2.offsets (finalize s ⟨[], []⟩).1 = .ok ops) : jumpTargetsDefined s := by
  intro root l hx
  obtain ⟨its, hits, hin⟩ := List.mem_flatten.mp hx
  obtain ⟨hsub, _, _⟩ := finalize_spec s ⟨[], []⟩ _ _ rfl
  rcases finDec_kept_mem its _ hin with hk | ⟨root', t, e, ht⟩
  · -- kept: the remover found it in the table
    have hfin : (finDec its).filterMap (·.2) ∈ (finalize s ⟨[], []⟩).1 := by
      rw [finalize_routines]; exact List.mem_map_of_mem hits
    obtain ⟨os, hos⟩ := mapE_mem _ _ h _ hfin
    obtain ⟨t, ht⟩ := removeItems_labels _ _ os hos root l hk
    rw [finalize_tbl] at ht
    rcases tblRun_spec _ _ l t ht with h1 | ⟨h1, _⟩ | ⟨pre, nm, post, h1, _⟩
    · simp [Dict.get?] at h1
    · simp at h1
    · have : l ∈ labelIds (finalize s ⟨[], []⟩).1.flatten := by
        rw [h1, labelIds_append]; simp [labelIds]
      exact (labelIds_sublist hsub).subset this
  · cases e
    exact labelIds_mem_flatten s its l hits ht

/-- **strip_last_label preserves behaviour** (given that every jump target of its result is defined, which the success of
the later passes guarantees), and its result satisfies the hypotheses of the later passes. -/
theorem strip_preserves (rs s : List (List LItem)) (hw : WFL rs) (hs : stripLastLabel rs = .ok s)
    (hd : jumpTargetsDefined s) :
    FinHyp s ∧ s.length = rs.length ∧
    ∀ r, Equivalent (labLTS rs) (labLTS s) (labEntry rs r) (labEntry s r) := by
  unfold stripLastLabel at hs
  obtain ⟨⟨a1, a2⟩, a3⟩ := stripAll_spec rs [] s hs (by simpa using sinv_of_wfl rs hw)
  simp only [List.nil_append] at a1 a3
  refine ⟨⟨a1.distinct, a1.labels, a1.raw, a1.root, a1.ctx, a2⟩, mapE_length _ _ hs, (a3 hd).2⟩

/-- **The back end preserves behaviour.** -/
theorem backend_correct (rs : List (List LItem)) (ops : List (List Op)) (hw : WFL rs) (hb : backend rs = .ok ops)
    (r : Nat) (hr : r < rs.length) :
    Equivalent (labLTS rs) (Machine.lts ⟨flatten (conv ops)⟩) (labEntry rs r) (Machine.entry ⟨flatten (conv ops)⟩ r) := by
  unfold backend at hb
  split at hb
  · cases hb
  · rename_i s hs
    simp only at hb
    have hd := defined_of_remover s ops hb
    obtain ⟨hf, hl, he⟩ := strip_preserves rs s hw hs hd
    exact (he r).trans (finalize_remover_preserves s hf ops hb r (by omega))

end ESV.Comp
