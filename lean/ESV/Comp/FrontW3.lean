import ESV.Comp.FrontW2
/-
`frontend_wfl`, part 3: header jumps, `_process_block`, the simple statements.
-/
namespace ESV.Comp
open ESV ESV.Beh

/-! ### header jumps -/

/-- label jumps whose roots are jump-carrying ops -/
def JumpsOK (hs : List LItem) : Prop :=
  ∀ x ∈ hs, ∃ root t, x = .ljump root t ∧ (isJump root.name || isTest root.name) = true

def BPsOK (bps : List BP) : Prop := ∀ b ∈ bps, (isJump b.name || isTest b.name) = true

theorem JumpsOK.nil : JumpsOK [] := fun x hx => by simp at hx
theorem JumpsOK.append {a b : List LItem} (ha : JumpsOK a) (hb : JumpsOK b) : JumpsOK (a ++ b) := fun x hx => by
  rcases List.mem_append.mp hx with h | h
  · exact ha x h
  · exact hb x h
theorem JumpsOK.cons {r : Op} {t : Option Nat} {l : List LItem} (h : (isJump r.name || isTest r.name) = true) (hl : JumpsOK l) :
    JumpsOK (.ljump r t :: l) := fun x hx => by
  rcases List.mem_cons.mp hx with rfl | h'
  · exact ⟨r, t, rfl, h⟩
  · exact hl x h'

theorem JumpsOK.noCtx {hs : List LItem} (h : JumpsOK hs) : NoCtx hs := fun x hx => by
  obtain ⟨r, t, rfl, _⟩ := h x hx; rfl
theorem JumpsOK.root {hs : List LItem} (h : JumpsOK hs) : ∀ x ∈ hs, rootOK x = true := fun x hx => by
  obtain ⟨r, t, rfl, hr⟩ := h x hx; exact hr
theorem JumpsOK.intIds {hs : List LItem} (h : JumpsOK hs) : intIds hs = [] := by
  induction hs with
  | nil => rfl
  | cons x r ih =>
    obtain ⟨ro, t, rfl, _⟩ := h x (by simp)
    simpa using ih (fun y hy => h y (List.mem_cons_of_mem _ hy))
theorem JumpsOK.usrIds {hs : List LItem} (h : JumpsOK hs) : usrIds hs = [] := by
  induction hs with
  | nil => rfl
  | cons x r ih =>
    obtain ⟨ro, t, rfl, _⟩ := h x (by simp)
    simpa using ih (fun y hy => h y (List.mem_cons_of_mem _ hy))

theorem jump_isJump : isJump Gen.op_jump = true := by decide

theorem buildFor_w {b : BP} {l : Nat} {s : St} {j : LItem} {s' : St} (h : buildFor b l s = .ok (j, s')) :
    SameL s s' ∧ ∃ n, j = .ljump ⟨n, b.name, b.params⟩ (some l) := by
  unfold buildFor at h
  cases hn : b.number with
  | some k =>
    simp only [hn, pure_ok, Prod.mk.injEq] at h
    obtain ⟨rfl, rfl⟩ := h
    exact ⟨SameL.refl _, _, rfl⟩
  | none =>
    simp only [hn, bind_ok, tickOp_ok, pure_ok] at h
    obtain ⟨n, s1, h1, h2⟩ := h
    simp only [Prod.mk.injEq] at h1 h2
    obtain ⟨rfl, rfl⟩ := h1
    obtain ⟨rfl, rfl⟩ := h2
    exact ⟨sameL_tickedOp _ _, _, rfl⟩

theorem buildAll_w (l : Nat) : ∀ (bps : List BP) (s : St) (js : List LItem) (s' : St), BPsOK bps →
    buildAll l bps s = .ok (js, s') → SameL s s' ∧ JumpsOK js := by
  intro bps
  induction bps with
  | nil =>
    intro s js s' _ h
    simp only [buildAll, pure_ok, Prod.mk.injEq] at h
    obtain ⟨rfl, rfl⟩ := h
    exact ⟨SameL.refl _, JumpsOK.nil⟩
  | cons b r ih =>
    intro s js s' hb h
    simp only [buildAll, bind_ok, pure_ok] at h
    obtain ⟨j, s1, h1, js', s2, h2, h3⟩ := h
    simp only [Prod.mk.injEq] at h3
    obtain ⟨rfl, rfl⟩ := h3
    obtain ⟨e1, n, rfl⟩ := buildFor_w h1
    obtain ⟨e2, jo⟩ := ih _ _ _ (fun x hx => hb x (List.mem_cons_of_mem _ hx)) h2
    exact ⟨e1.trans e2, JumpsOK.cons (hb b (by simp)) jo⟩

theorem buildEach_w (sl el : Nat) : ∀ (bps : List BP) (s : St) (js : List LItem) (s' : St), BPsOK bps →
    buildEach sl el bps s = .ok (js, s') → SameL s s' ∧ JumpsOK js := by
  intro bps
  induction bps with
  | nil =>
    intro s js s' _ h
    simp only [buildEach, pure_ok, Prod.mk.injEq] at h
    obtain ⟨rfl, rfl⟩ := h
    exact ⟨SameL.refl _, JumpsOK.nil⟩
  | cons b r ih =>
    intro s js s' hb h
    simp only [buildEach, bind_ok, pure_ok] at h
    obtain ⟨j, s1, h1, js', s2, h2, h3⟩ := h
    simp only [Prod.mk.injEq] at h3
    obtain ⟨rfl, rfl⟩ := h3
    obtain ⟨e1, n, rfl⟩ := buildFor_w h1
    obtain ⟨e2, jo⟩ := ih _ _ _ (fun x hx => hb x (List.mem_cons_of_mem _ hx)) h2
    exact ⟨e1.trans e2, JumpsOK.cons (hb b (by simp)) jo⟩

/-- a piece of header jumps collected without touching the label counter -/
theorem W.jumps {c : LCtx} {s s' : St} {hs : List LItem} (hst : StOK c s) (hsame : SameL s s') (h : JumpsOK hs) :
    W c [] [] s hs s' :=
  W.plain hst hsame h.intIds h.usrIds h.root h.noCtx.ctxP

theorem genJump_w {l : Option Nat} {s : St} {j : LItem} {s' : St} (h : genJump l s = .ok (j, s')) :
    SameL s s' ∧ JumpsOK [j] := by
  obtain ⟨rfl, rfl⟩ := genJump_spec h
  exact ⟨sameL_tickedOp _ _, JumpsOK.cons (by simp [jump_isJump]) JumpsOK.nil⟩

/-! ### `_process_block` -/

theorem W.sameR {c : LCtx} {r : List Nat} {d : List String} {s s1 s2 : St} {x : List LItem} (h : W c r d s x s1)
    (hsame : SameL s1 s2) : W c r d s x s2 :=
  ⟨hsame.ok h.ok, h.ext.trans hsame.ext, by rw [hsame.1]; exact h.lab,
   fun z hz => by simpa [namedIds, hsame.2, hsame.1] using h.fresh z hz, by rw [hsame.2]; exact h.usr, h.root, h.ctx⟩

theorem W.sameLft {c : LCtx} {r : List Nat} {d : List String} {s0 s s1 : St} {x : List LItem} (h : W c r d s x s1)
    (hsame : SameL s0 s) : W c r d s0 x s1 :=
  ⟨h.ok, hsame.ext.trans h.ext, by rw [← hsame.1]; exact h.lab, h.fresh, h.usr, h.root, h.ctx⟩

/-- `x` collected from `s0` to `s`, then a label ticked -/
theorem W.then_tick {c : LCtx} {r : List Nat} {d : List String} {s0 s : St} {x : List LItem}
    (h : W c r d s0 x s) : W c r d s0 (x ++ [.label (s.lbc + 1) false]) (s.tickedLbl 1) := by
  have := W.append h (W.tick h.ok)
  simpa using this

theorem W.then_jumps {c : LCtx} {r : List Nat} {d : List String} {s0 s s' : St} {x hs : List LItem}
    (h : W c r d s0 x s) (hsame : SameL s s') (hj : JumpsOK hs) : W c r d s0 (x ++ hs) s' := by
  have := W.append h (W.jumps h.ok hsame hj)
  simpa using this

/-- `_process_block`: the block's items are a piece again, the header jumps are jumps -/
theorem processBlock_w {c : LCtx} {r : List Nat} {d : List String} {hjbs : List BP} {cf ins : Bool} {ops : List LItem}
    {s0 s : St} {blk : Blk} {s' : St} (hb : BPsOK hjbs) (hw : W c r d s0 ops s)
    (h : processBlock hjbs cf ins ops s = .ok (blk, s')) :
    W c r d s0 blk.items s' ∧ JumpsOK blk.hdrs := by
  simp only [processBlock, bind_ok, tickLbl_ok] at h
  obtain ⟨endL, s1, h1, h2⟩ := h
  simp only [Prod.mk.injEq] at h1
  obtain ⟨rfl, rfl⟩ := h1
  have w1 := W.then_tick hw
  generalize shortcutOf hjbs cf ops = sc at h2
  match sc with
  | some none => simp [processBlockAt, fail_ok] at h2
  | some (some l) =>
    simp only [processBlockAt, bind_ok, pure_ok] at h2
    obtain ⟨hs, s2, h3, h4⟩ := h2
    simp only [Prod.mk.injEq] at h4
    obtain ⟨rfl, rfl⟩ := h4
    obtain ⟨e, jo⟩ := buildAll_w _ _ _ _ _ hb h3
    refine ⟨(w1.sameR e).rearr (fun n => ?_) (fun n => ?_) (by simp [rootOK]) (NoCtx.label _ _).ctxP, jo⟩
    · simp only [intIds_append, List.count_append]; omega
    · simp only [usrIds_append, List.count_append]; omega
  | none =>
    simp only [processBlockAt, bind_ok, pure_ok, tickLbl_ok] at h2
    obtain ⟨ops', s2, h3, startL, s3, h4, hs, s4, h5, h6⟩ := h2
    simp only [Prod.mk.injEq] at h4 h6
    obtain ⟨rfl, rfl⟩ := h4
    obtain ⟨rfl, rfl⟩ := h6
    obtain ⟨e5, jo⟩ := buildEach_w _ _ _ _ _ _ hb h5
    -- the end jump, if any
    have hj : ∃ js, ops' = ops ++ js ∧ JumpsOK js ∧ SameL (s.tickedLbl 1) s2 := by
      unfold withEndJump at h3
      split at h3
      · simp only [bind_ok, pure_ok] at h3
        obtain ⟨j, s5, h7, h8⟩ := h3
        simp only [Prod.mk.injEq] at h8
        obtain ⟨rfl, rfl⟩ := h8
        obtain ⟨e, jo'⟩ := genJump_w h7
        exact ⟨[j], rfl, jo', e⟩
      · simp only [pure_ok, Prod.mk.injEq] at h3
        obtain ⟨rfl, rfl⟩ := h3
        exact ⟨[], by simp, JumpsOK.nil, SameL.refl _⟩
    obtain ⟨js, rfl, jjs, e2⟩ := hj
    have w2 := W.then_jumps w1 e2 jjs
    have w3 := (W.then_tick w2).sameR e5
    refine ⟨w3.rearr (fun n => ?_) (fun n => ?_) ?_ ?_, jo⟩
    · simp only [intIds_append, intIds_cons_int, intIds_nil, List.count_append, jjs.intIds, List.count_nil, List.count_cons]
      omega
    · simp only [usrIds_append, usrIds_cons_int, usrIds_nil, List.count_append, jjs.usrIds, List.count_nil]
      omega
    · intro z hz
      simp only [List.mem_append, List.mem_cons, List.not_mem_nil, or_false] at hz
      rcases hz with (rfl | hz | hz) | rfl
      · rfl
      · exact hw.root z hz
      · exact jjs.root z hz
      · rfl
    · exact (((NoCtx.label _ _).ctxP.append hw.ctx).append jjs.noCtx.ctxP).append (NoCtx.label _ _).ctxP

/-- `blockOf`: collect the sub-handlers, then `_process_block` -/
theorem blockOf_w {c : LCtx} {r : List Nat} {d : List String} {hjbs : List BP} {cf ins : Bool} {stmts : M (List LItem)}
    (hm : WM c r d stmts) (hb : BPsOK hjbs)
    {s : St} {b : Blk} {s' : St} (hs : StOK c s) (h : blockOf hjbs cf ins stmts s = .ok (b, s')) :
    W c r d s b.items s' ∧ JumpsOK b.hdrs := by
  simp only [blockOf, bind_ok] at h
  obtain ⟨ops, s1, h1, h2⟩ := h
  exact processBlock_w hb (hm _ _ _ hs h1) h2

end ESV.Comp
