import ESV.Comp.Front3
import ESV.Comp.GuardDefs
/-
`counter_fresh` for whole programs: recursion over the statement tree, routine bodies, macro blueprints, routine tables.
-/
namespace ESV.Comp
open ESV

def lenElifs : Elifs → Nat
  | .nil => 0
  | .cons _ _ _ r => lenElifs r + 1

theorem not_jump_of_not {n : String} (h : (!isJumpName n) = true) : isJumpName n = false := by
  simpa using h

mutual
theorem cStmt_spec (ms : Macros) (hms : MsOK ms) : ∀ (st : Stmt) (lb : Nat), okStmt st = true → SpecM (cStmt ms lb st)
  | .op name ps, lb, hok => by
    simp only [cStmt]
    exact opStmt_spec ps (not_jump_of_not (by simpa [okStmt] using hok))
  | .inl c cp n ps, lb, hok => by
    simp only [cStmt]
    simp only [okStmt, Bool.and_eq_true] at hok
    exact inlStmt_spec cp ps (not_jump_of_not hok.1) (not_jump_of_not hok.2)
  | .with_ c cp inner, lb, hok => by
    simp only [cStmt]
    simp only [okStmt, Bool.and_eq_true] at hok
    exact withOf_spec cp (not_jump_of_not hok.1) (cStmt_spec ms hms inner lb hok.2)
  | .label n, lb, _ => by simp only [cStmt]; exact labelStmt_spec n
  | .jump n, lb, _ => by simp only [cStmt]; exact jumpStmt_spec n
  | .call n, lb, _ => by simp only [cStmt]; exact callStmt_spec n
  | .ret, lb, _ => by simp only [cStmt]; exact opStmt_spec [] return_not_jump
  | .end_, lb, _ => by simp only [cStmt]; exact opStmt_spec [] end_not_jump
  | .hold, lb, _ => by simp only [cStmt]; exact opStmt_spec [] hold_not_jump
  | .brk, lb, _ => by simp only [cStmt]; exact brkStmt_spec
  | .cont, lb, _ => by simp only [cStmt]; exact contStmt_spec
  | .brkLoop, lb, _ => by simp only [cStmt]; exact brkLoopStmt_spec
  | .ite neg hdrs body elifs hasElse els, lb, hok => by
    simp only [cStmt]
    simp only [okStmt, Bool.and_eq_true] at hok
    exact iteOf_spec neg hdrs hasElse (cStmts_spec ms hms body _ hok.1.1) (cStmts_spec ms hms els _ hok.2)
      (cElifsA_spec ms hms elifs _ hok.1.2) (cElifsB_spec ms hms elifs _ hok.1.2)
  | .switch hdr cs, lb, hok => by
    simp only [cStmt]
    simp only [okStmt, Bool.and_eq_true] at hok
    exact switchOf_spec hdr cs (not_jump_of_not hok.1) (cCases_spec ms hms cs lb hok.2)
  | .forever body, lb, hok => by
    simp only [cStmt]
    exact foreverOf_spec lb (cStmts_spec ms hms body _ (by simpa [okStmt] using hok))
  | .while_ neg h body, lb, hok => by
    simp only [cStmt]
    exact whileOf_spec lb neg h (cStmts_spec ms hms body _ (by simpa [okStmt] using hok))
  | .for_ init h inc body, lb, hok => by
    simp only [cStmt]
    simp only [okStmt, Bool.and_eq_true] at hok
    exact forOf_spec lb h (cStmt_spec ms hms init _ hok.1.1) (cStmt_spec ms hms inc _ hok.1.2) (cStmts_spec ms hms body _ hok.2)
  | .macroCall name args, lb, _ => by simp only [cStmt]; exact macroStmt_spec hms name args

theorem cStmts_spec (ms : Macros) (hms : MsOK ms) : ∀ (ss : Stmts) (lb : Nat), okStmts ss = true → SpecM (cStmts ms lb ss)
  | .nil, lb, _ => by
    intro s items s' h
    simp only [cStmts, pure_ok, Prod.mk.injEq] at h
    obtain ⟨rfl, rfl⟩ := h
    exact Spec.nil _
  | .cons st r, lb, hok => by
    intro s items s' h
    simp only [okStmts, Bool.and_eq_true] at hok
    simp only [cStmts, bind_ok, pure_ok] at h
    obtain ⟨a, s1, h1, b, s2, h2, h3⟩ := h
    simp only [Prod.mk.injEq] at h3
    obtain ⟨rfl, rfl⟩ := h3
    exact (cStmt_spec ms hms st lb hok.1 _ _ _ h1).append (cStmts_spec ms hms r _ hok.2 _ _ _ h2)

theorem cElifsA_spec (ms : Macros) (hms : MsOK ms) : ∀ (es : Elifs) (lb : Nat), okElifs es = true →
    ElifsASpec (lenElifs es) (cElifsA ms lb es)
  | .nil, lb, _ => by
    intro s as s' h
    simp only [cElifsA, pure_ok, Prod.mk.injEq] at h
    obtain ⟨rfl, rfl⟩ := h
    exact ⟨rfl, Nat.le_refl _, Good.nil _ _, fun a ha => by simp at ha⟩
  | .cons neg hdrs body r, lb, hok => by
    intro s as s' h
    simp only [okElifs, Bool.and_eq_true] at hok
    simp only [cElifsA, bind_ok, pure_ok] at h
    obtain ⟨a, s1, h1, rest, s2, h2, h3⟩ := h
    simp only [Prod.mk.injEq] at h3
    obtain ⟨rfl, rfl⟩ := h3
    obtain ⟨m1, g1, wf⟩ := elifAOf_spec neg hdrs (cStmts_spec ms hms body lb hok.1) h1
    obtain ⟨l2, m2, g2, wfs⟩ := cElifsA_spec ms hms r _ hok.2 _ _ _ h2
    refine ⟨by simp [lenElifs, l2], Nat.le_trans m1 m2, ?_, ?_⟩
    · simpa [frontA, List.append_assoc] using g1.append g2 m1 m2
    · intro x hx
      simp only [List.mem_cons] at hx
      rcases hx with rfl | hx
      · exact wf
      · exact wfs x hx

theorem cElifsB_spec (ms : Macros) (hms : MsOK ms) : ∀ (es : Elifs) (lb : Nat), okElifs es = true →
    ElifsBSpec (lenElifs es) (cElifsB ms lb es)
  | .nil, lb, _ => by
    intro as hl _ s late s' h
    simp only [cElifsB, pure_ok, Prod.mk.injEq] at h
    obtain ⟨rfl, rfl⟩ := h
    have : as = [] := List.eq_nil_of_length_eq_zero hl
    subst this
    exact ⟨rfl, fun n hn => by simp [elifsFront] at hn, by simpa [elifsBack] using Spec.nil _⟩
  | .cons neg hdrs body r, lb, hok => by
    intro as hl wfs s late s' h
    simp only [okElifs, Bool.and_eq_true] at hok
    cases as with
    | nil => simp [cElifsB, fail_ok] at h
    | cons a as' =>
      simp only [cElifsB, bind_ok, pure_ok] at h
      obtain ⟨b, s1, h1, rest, s2, h2, h3⟩ := h
      simp only [Prod.mk.injEq] at h3
      obtain ⟨rfl, rfl⟩ := h3
      obtain ⟨e1, e2, sp1⟩ := elifBOf_spec (wfs a (by simp)) (cStmts_spec ms hms body lb hok.1) h1
      obtain ⟨f1, f2, sp2⟩ := cElifsB_spec ms hms r _ hok.2 as' (by simpa [lenElifs] using hl)
        (fun x hx => wfs x (by simp [hx])) _ _ _ h2
      refine ⟨?_, ?_, ?_⟩
      · simp only [elifsFront, frontA]
        rw [offs_append, e1, f1]
      · intro n hn
        simp only [elifsFront, plainNames_append, List.mem_append] at hn
        rcases hn with hn | hn
        · exact e2 n (by simpa [plainNames_append] using hn)
        · exact f2 n hn
      · simpa [elifsBack] using sp1.append sp2

theorem cCases_spec (ms : Macros) (hms : MsOK ms) : ∀ (cs : Cases) (lb : Nat), okCases cs = true →
    CasesSpec (fun endL bps st => cCases ms lb endL cs bps st)
  | .nil, lb, _ => by
    intro endL lo bps st s st' s' inv h
    simp only [cCases, pure_ok, Prod.mk.injEq] at h
    obtain ⟨rfl, rfl⟩ := h
    exact ⟨Nat.le_refl _, bps, inv⟩
  | .cons true name params body r, lb, hok => by
    intro endL lo bps st s st' s' inv h
    simp only [okCases, Bool.and_eq_true] at hok
    simp only [cCases, bind_ok] at h
    obtain ⟨st1, s1, h1, h2⟩ := h
    obtain ⟨m1, inv1⟩ := defaultStep_spec endL _ (cStmts_spec ms hms body lb hok.1) inv h1
    obtain ⟨m2, r2⟩ := cCases_spec ms hms r _ hok.2 _ _ _ _ _ _ _ inv1 h2
    exact ⟨Nat.le_trans m1 m2, r2⟩
  | .cons false name params body r, lb, hok => by
    intro endL lo bps st s st' s' inv h
    simp only [okCases, Bool.and_eq_true] at hok
    cases bps with
    | nil => simp [cCases, fail_ok] at h
    | cons bp bps' =>
      simp only [cCases, bind_ok] at h
      obtain ⟨st1, s1, h1, h2⟩ := h
      obtain ⟨m1, inv1⟩ := caseStep_spec endL bp _ (cStmts_spec ms hms body lb hok.1) inv h1
      obtain ⟨m2, r2⟩ := cCases_spec ms hms r _ hok.2 _ _ _ _ _ _ _ inv1 h2
      exact ⟨Nat.le_trans m1 m2, r2⟩
end

end ESV.Comp
