import ESV.Comp.CgShape
/-
`codegen_correct`: header test chains and blocks.
-/
namespace ESV.Comp
open ESV ESV.Beh

/-- the blueprints carry the ops of the headers -/
def NamesOf (hs : List Hdr) (bps : List BP) : Prop :=
  bps.map (fun b => (b.name, b.params)) = hs.map (fun h => (h.name, h.params))

theorem isTest_not_jump (n : String) (h : isTest n = true) : isJump n = false := by
  simp only [isTest, Bool.and_eq_true, Bool.not_eq_true'] at h
  exact h.2

/-- a chain of header tests that all go to the label `L` when taken -/
theorem testChain_corr (cx : Cx) (L : Nat) (sb : List (String × Beh.Param))
    (hsb : ∀ (n : String) (ps : List ESV.Param), (⟨n, convParams (ps.map cx.cp.sub)⟩ : Ev) = Src.substEv sb ⟨n, convParams ps⟩) : ∀ (bps : List BP) (js : List LItem) (hs : List Hdr) (tgt : BP → Nat),
    HdrsTo tgt bps js → (∀ b ∈ bps, tgt b = L) → NamesOf hs bps → HdrsOK hs →
    ∀ r p, Placed cx.cp cx.rs r p js → ∀ (onT onN : Nat) (b : Src.B),
      Pushes b (Src.testChain sb (hs.map hdrEv) onT onN b).1 ∧
      (AgreeOn cx.N cx.Z b (Src.testChain sb (hs.map hdrEv) onT onN b).1 → ∀ m j, R2 cx m j (target cx.rs (cx.cp.σ L)) onT →
        R2 cx m j ⟨r, p + js.length⟩ onN → R2 cx m j ⟨r, p⟩ (Src.testChain sb (hs.map hdrEv) onT onN b).2) := by
  intro bps js hs tgt hh
  induction hh generalizing hs with
  | nil =>
    intro _ hn _ r p _ onT onN b
    have : hs = [] := by simpa [NamesOf] using hn.symm
    subst this
    simp only [List.map_nil, Src.testChain]
    exact ⟨Pushes.refl b, fun _ m j _ h2 => by simpa using h2⟩
  | @cons b0 bps' js' n hh' ih =>
    intro htg hn hok r p hp onT onN b
    cases hs with
    | nil => simp [NamesOf] at hn
    | cons h0 hs' =>
      simp only [NamesOf, List.map_cons, List.cons.injEq, Prod.mk.injEq] at hn
      obtain ⟨⟨hnm, hpr⟩, hn'⟩ := hn
      have hp' : Placed cx.cp cx.rs r (p + 1) js' := by
        have := Placed.right (a := [LItem.ljump ⟨n, b0.name, b0.params⟩ (some (tgt b0))]) (b := js') (by simpa using hp)
        simpa using this
      obtain ⟨g1, c1⟩ := ih hs' (fun x hx => htg x (List.mem_cons_of_mem _ hx)) hn' (fun x hx => hok x (List.mem_cons_of_mem _ hx))
        r (p + 1) hp' onT onN b
      simp only [List.map_cons, Src.testChain]
      generalize Src.testChain sb (hs'.map hdrEv) onT onN b = R at g1 c1 ⊢
      obtain ⟨b1, re⟩ := R
      simp only at g1 c1 ⊢
      obtain ⟨a1, a2⟩ := tbl_push b1 (.test (Src.substEv sb (hdrEv h0)) onT re)
      refine ⟨g1.trans (Pushes.push _ _), fun hag m j hT hN => ?_⟩
      rw [a2]
      have hN1 : cx.N[(tbl b1).length]? = some (.test (Src.substEv sb (hdrEv h0)) onT re) := by
        rw [hag.2 _ g1.len (by rw [a1]; simp), a1]; simp
      have ht := hok h0 (by simp)
      have hit : ItemC cx.cp cx.rs ⟨r, p⟩ (.ljump ⟨n, b0.name, b0.params⟩ (some (tgt b0))) := by
        simpa using hp.item (d := 0) rfl
      have hstep := lab_test hit (by simpa [hnm] using isTest_not_jump _ ht) (by simpa [hnm] using ht)
      rw [htg b0 (by simp)] at hstep
      have hrest : R2 cx m j ⟨r, p + 1⟩ re :=
        c1 (hag.sub_grow (Grow.refl b) (Grow.push _ _)) m j hT (by simpa [Nat.add_assoc, Nat.add_comm 1] using hN)
      have hev : (⟨b0.name, convParams (b0.params.map cx.cp.sub)⟩ : Ev) = Src.substEv sb (hdrEv h0) := by
        rw [hsb]; simp [hdrEv, hnm, hpr]
      simp only [hev] at hstep
      exact R2.test hstep (nodeStep_of hN1) hT.1 (by simpa [LPos.next] using hrest.1)

/-! ### blocks -/

theorem patchNone_id (e : Nat) (l : List LItem) (h : NoNone l) : patchNone e l = l := by
  induction l with
  | nil => rfl
  | cons x r ih =>
    simp only [patchNone, List.map_cons] at ih ⊢
    rw [ih (fun y hy => h y (List.mem_cons_of_mem _ hy))]
    congr 1
    cases x with
    | ljump root t =>
      cases t with
      | none => exact absurd rfl (h _ (by simp) root)
      | some l => rfl
    | _ => rfl

theorem patchNone_append (e : Nat) (a b : List LItem) : patchNone e (a ++ b) = patchNone e a ++ patchNone e b := by
  simp [patchNone]

theorem patchNone_length (e : Nat) (l : List LItem) : (patchNone e l).length = l.length := by simp [patchNone]

/-- the patched items of a block that was not folded: start label, body, end jump to the if's end label (if control can
run off the body), end label -/
theorem block_patched (E : Nat) (sL eL : Nat) (ops js : List LItem) (hno : NoNone ops)
    (hjs : js = [] ∨ ∃ o, js = [.ljump ⟨o, Gen.op_jump, []⟩ none]) :
    patchNone E ([.label sL false] ++ ops ++ js ++ [.label eL false]) =
      [.label sL false] ++ ops ++ (if js = [] then [] else [.ljump ⟨(match js with | .ljump r _ :: _ => r.offset | _ => 0), Gen.op_jump, []⟩ (some E)]) ++
        [.label eL false] := by
  rw [patchNone_append, patchNone_append, patchNone_append, patchNone_id E ops hno]
  rcases hjs with rfl | ⟨o, rfl⟩
  · simp [patchNone, patchItem]
  · simp [patchNone, patchItem]

/-- entering a block at its start label runs the body -/
theorem block_enter (cx : Cx) {ops : List LItem} {s0 s1 : St} {trBody : Nat → Src.B → Src.B × Nat} {env : Src.Env}
    (hBody : PieceOK cx ops s0 s1 trBody env) (sL : Nat) (tail : List LItem) {r ib : Nat}
    (hp : Placed cx.cp cx.rs r ib ([.label sL false] ++ ops ++ tail)) (k : Nat) (b : Src.B) (hag : AgreeOn cx.N cx.Z b (trBody k b).1)
    (m j : Nat) (hex : ExitsOK cx m j s0 env) (hin : NamedIn cx s1) (hafter : falls ops = true → R2 cx m j ⟨r, ib + 1 + ops.length⟩ k) :
    R2 cx m j ⟨r, ib⟩ (trBody k b).2 ∧ target cx.rs (cx.cp.σ sL) = ⟨r, ib⟩ := by
  have hit : ItemC cx.cp cx.rs ⟨r, ib⟩ (.label sL false) := by simpa using hp.item (d := 0) (by simp)
  have hpo : Placed cx.cp cx.rs r (ib + 1) ops := by
    have := (Placed.left (a := [LItem.label sL false] ++ ops) (b := tail) hp).right
    simpa using this
  have hpre : afterCtxL cx.rs ⟨r, ib + 1⟩ = false := by rw [afterCtxL_itemC hit]; rfl
  have hres : target cx.rs (cx.cp.σ sL) = ⟨r, ib⟩ := by simpa using hp.resolve cx.hlab (d := 0) (l := sL) (nm := false) (by simp)
  exact ⟨R2.silL (lab_label hit) (hBody.corr r (ib + 1) hpo hpre k b hag m j hex hin hafter), hres⟩

/-- the label nodes set while translating the body of a block -/
theorem block_labs (cx : Cx) {ops : List LItem} {s0 s1 : St} {trBody : Nat → Src.B → Src.B × Nat} {env : Src.Env}
    (hBody : PieceOK cx ops s0 s1 trBody env) (sL : Nat) (tail : List LItem) {r ib : Nat}
    (hp : Placed cx.cp cx.rs r ib ([.label sL false] ++ ops ++ tail)) (k : Nat) (b : Src.B) (hag : AgreeOn cx.N cx.Z b (trBody k b).1)
    (m j : Nat) (hex : ExitsOK cx m j s0 env) (hin : NamedIn cx s1) (hafter : falls ops = true → R2 cx m j ⟨r, ib + 1 + ops.length⟩ k) :
    LabExport cx env m j b (trBody k b).1 := by
  have hit : ItemC cx.cp cx.rs ⟨r, ib⟩ (.label sL false) := by simpa using hp.item (d := 0) (by simp)
  have hpo : Placed cx.cp cx.rs r (ib + 1) ops := by
    have := (Placed.left (a := [LItem.label sL false] ++ ops) (b := tail) hp).right
    simpa using this
  have hpre : afterCtxL cx.rs ⟨r, ib + 1⟩ = false := by rw [afterCtxL_itemC hit]; rfl
  exact hBody.labs r (ib + 1) hpo hpre k b hag m j hex hin hafter

end ESV.Comp
