import ESV.Comp.LabSem
import ESV.Src.Sem
/-
The source program (`ESV.Src.Program`, the input of the language semantics `ESV.Src.tr`) a compiler-model program
(`ESV.Comp.Program`) stands for.  The harness lowers one surface AST twice — `harness/gen/surface.py::lower_program` for
`Src`, `harness/gen/complower.py::program` for `Comp`; `toSrc` is the map between the two results: parameters converted,
inline contexts and with-blocks both become `ctx`, the if-block with its elseifs becomes a branch list, headers lose the
"written as an operation" flag.
-/
namespace ESV.Comp
open ESV ESV.Beh

def hdrEv (h : Hdr) : Ev := ⟨h.name, convParams h.params⟩

mutual
def toSrcStmt : Stmt → Src.Stmt
  | .op n ps => .op n (convParams ps)
  | .inl c cp n ps => .ctx c [convParam cp] (.op n (convParams ps))
  | .with_ c cp inner => .ctx c [convParam cp] (toSrcStmt inner)
  | .label n => .label n
  | .jump n => .jump n
  | .call n => .call n
  | .ret => .ret
  | .end_ => .end_
  | .hold => .hold
  | .brk => .brk
  | .cont => .cont
  | .brkLoop => .brkLoop
  | .ite neg hdrs body elifs hasElse els =>
    .ite (.cons neg (hdrs.map hdrEv) (toSrcStmts body) (toSrcElifs elifs)) hasElse (toSrcStmts els)
  | .switch hdr cs => .switch (hdrEv hdr) (toSrcCases hdr.name cs)
  | .forever body => .forever (toSrcStmts body)
  | .while_ neg h body => .while_ neg (hdrEv h) (toSrcStmts body)
  | .for_ init h inc body => .for_ (toSrcStmt init) (hdrEv h) (toSrcStmt inc) (toSrcStmts body)
  | .macroCall n args => .macroCall n (convParams args)
def toSrcStmts : Stmts → Src.Stmts
  | .nil => .nil
  | .cons s r => .cons (toSrcStmt s) (toSrcStmts r)
def toSrcElifs : Elifs → Src.Branches
  | .nil => .nil
  | .cons neg hdrs body r => .cons neg (hdrs.map hdrEv) (toSrcStmts body) (toSrcElifs r)
/-- `CaseValue` under `SwitchScenario` is `CaseScenario` (the compiler rewrites it, the language lowering writes it) -/
def toSrcCases (sw : String) : Cases → Src.Cases
  | .nil => .nil
  | .cons true _ _ body r => .cons true ⟨"", []⟩ (toSrcStmts body) (toSrcCases sw r)
  | .cons false name ps body r =>
    .cons false ⟨if sw == Gen.op_switch_scenario && name == Gen.op_case_value then Gen.op_case_scenario else name, convParams ps⟩
      (toSrcStmts body) (toSrcCases sw r)
end

def toSrcMacro (m : Macro) : Src.Macro := ⟨m.name, m.vars, toSrcStmts m.body⟩

/-- routines placed by id as the compiler places them (`_enlarge_routine_info`): `none` where no routine was written -/
def placeRoutines : List Routine → Nat → List Src.Routine → List Src.Routine
  | [], _, acc => acc
  | r :: rs, active, acc =>
    let id := routineId r active
    let acc' := acc ++ List.replicate (id + 1 - acc.length) ⟨none⟩
    placeRoutines rs (id + 1) (acc'.set id ⟨some (toSrcStmts r.body)⟩)

def toSrc (p : Program) : Src.Program := ⟨p.macros.map toSrcMacro, placeRoutines p.routines 0 []⟩

end ESV.Comp
