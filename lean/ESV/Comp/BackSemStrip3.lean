import ESV.Comp.BackSemStrip2
/-
Back-end correctness, first pass (strip_last_label), part 3: one round preserves behaviour (`round_preserves`).
-/
namespace ESV.Comp
open ESV ESV.Beh

section round
variable {all : List Nat} {lbl : Nat} {nm : Bool} {A : List (List LItem)} {body : List LItem} {B : List (List LItem)}

local notation "DS" => roundDec all lbl nm A body B
local notation "OLD" => A ++ (body ++ [LItem.label lbl nm]) :: B

/-- from the stripped label the old code falls off the routine; so does the new code at the mapped place -/
theorem trailing_halts (Good : LPos → Prop) :
    (labLTS (oldOf DS)).step ⟨A.length, body.length⟩ = .silent ⟨A.length, body.length + 1⟩ ∧
    (labLTS (oldOf DS)).step ⟨A.length, body.length + 1⟩ = .halt evReturn ∧
    (labLTS (newOf DS)).step (decMap DS ⟨A.length, body.length⟩) = .halt evReturn := by
  have h1 : (labLTS (oldOf DS)).step ⟨A.length, body.length⟩ = .silent ⟨A.length, body.length + 1⟩ := by
    show lstep _ _ = _
    rw [round_old, lstep_item _ _ _ old_item_last]; rfl
  have h2 : (labLTS (oldOf DS)).step ⟨A.length, body.length + 1⟩ = .halt evReturn := by
    show lstep _ _ = _
    rw [round_old]
    simp only [lstep, old_r0]
    rw [List.getElem?_eq_none (by simp)]
    rfl
  refine ⟨h1, h2, ?_⟩
  have hc := dec_stepCorr_end DS Good A.length (body.length + 1) (fun dl h => by
    rw [round_get_r0] at h; cases h; rw [d0_length]; exact Nat.le_refl _)
  unfold StepCorr at hc
  rw [h2] at hc
  rw [← dec_skip DS A.length body.length _ _ round_get_r0 d0_get_last]
  exact hc

theorem afterCtx_jump_false (H : RoundHyp all lbl nm A body B) (i : Nat) (root : Op) (l : Option Nat)
    (hx : body[i]? = some (.ljump root l)) (hj : isJump root.name = true) :
    afterCtxL OLD ⟨A.length, i⟩ = false := by
  have hil : i < body.length := by
    rcases Nat.lt_or_ge i body.length with h | h
    · exact h
    · rw [List.getElem?_eq_none h] at hx; cases hx
  cases i with
  | zero => rfl
  | succ j =>
    have hjl : j < body.length := by omega
    rw [afterCtxL_succ, old_item_lt j hjl]
    obtain ⟨y, hy⟩ : ∃ y, body[j]? = some y := ⟨body[j], by simp [hjl]⟩
    rw [hy]
    cases hc : isCtxL y with
    | false => simp only [hc]
    | true =>
      exfalso
      have hctx : ctxOK (body ++ [LItem.label lbl nm]) = true :=
        List.all_eq_true.mp H.ctx _ (List.mem_of_getElem? old_r0)
      have := ctxOK_get _ j y (.ljump root l) hctx (by rw [List.getElem?_append_left hjl]; exact hy) hc
        (by rw [List.getElem?_append_left hil]; exact hx)
      simp [afterCtxOK, hj] at this

theorem dummy_step (rs : List (List LItem)) (p : LPos) (root : Op) (h : afterCtxL rs p = false) :
    itemStep rs p (dummyAt root) = .halt evReturn := by
  have h1 : (isJump Gen.op_dummy_end || isTest Gen.op_dummy_end) = false := by decide
  have h2 : Beh.endsFlow Gen.op_dummy_end = true := by decide
  simp only [dummyAt, itemStep, h1, h2, h, Bool.false_eq_true, if_false, Bool.not_false, Bool.and_self, if_true]
  rfl

theorem strip_ok (H : RoundHyp all lbl nm A body B) (s : LPos) (hnd : NotDead all lbl A body s) :
    MapRel (labLTS (oldOf DS)) (labLTS (newOf DS)) (decMap DS) (GoodS all lbl A body) s (decMap DS s) := by
  obtain ⟨r, i⟩ := s
  by_cases hr : r = A.length
  case neg => exact MapRel.good (.inl hr)
  case pos =>
    subst hr
    obtain ⟨t1, t2, t3⟩ := trailing_halts (all := all) (lbl := lbl) (nm := nm) (A := A) (body := body) (B := B)
      (GoodS all lbl A body)
    rcases Nat.lt_trichotomy i body.length with hlt | heq | hgt
    · obtain ⟨x, hx⟩ : ∃ x, body[i]? = some x := ⟨body[i], by simp [hlt]⟩
      have hnd' := hnd rfl hlt
      by_cases hsame : itemDec lbl (flagsAt all lbl false false body i).2 x = some x
      · exact MapRel.good (.inr (.inr ⟨x, hx, hsame, hnd'⟩))
      · -- a jump to the stripped label
        cases x with
        | label id nm' => simp [itemDec] at hsame
        | op o => simp [itemDec] at hsame
        | ljump root l =>
          simp only [itemDec] at hsame
          by_cases hl : (l == some lbl) = true
          · have : l = some lbl := by simpa using hl
            subst this
            have hj := H.cond root (List.mem_of_getElem? hx)
            cases hb : (flagsAt all lbl false false body i).2 with
            | true =>
              exfalso
              apply hnd'
              refine ⟨hb, fun id nm' h' => ?_⟩
              rw [hx] at h'; cases h'
            | false =>
              have hdec := d0_get_lt (all := all) (lbl := lbl) (nm := nm) i _ hx
              simp only [itemDec, hb, beq_self_eq_true, if_true, Bool.false_eq_true, if_false] at hdec
              -- old: jump to the label, fall off
              have htgt : target (oldOf DS) lbl = ⟨A.length, body.length⟩ := by
                rw [round_old]
                have := findLabel_unique lbl nm OLD 0 A.length _ body.length H.labels old_r0 (by simp)
                simp [target, this]
              have ho : (labLTS (oldOf DS)).step ⟨A.length, i⟩ = .silent ⟨A.length, body.length⟩ := by
                show lstep _ _ = _
                rw [lstep_item _ _ (.ljump root (some lbl)) (by rw [round_old, old_item_lt i hlt]; exact hx)]
                simp only [itemStep, hj, if_true, htgt]
                rfl
              have hac : afterCtxL (newOf DS) (decMap DS ⟨A.length, i⟩) = false := by
                rw [dec_afterCtx DS (round_decHyp H) A.length i _ _ _ round_get_r0 hdec, round_old]
                exact afterCtx_jump_false H i root _ hx hj
              have hn : (labLTS (newOf DS)).step (decMap DS ⟨A.length, i⟩) = .halt evReturn := by
                show lstep _ _ = _
                rw [lstep_item _ _ _ (dec_itemAt_new DS A.length i _ _ _ round_get_r0 hdec)]
                exact dummy_step _ _ root hac
              exact .inr ⟨evReturn, ⟨A.length, body.length + 1⟩, _, .step ho (.one t1), t2, .refl _, hn⟩
          · simp [hl] at hsame
    · subst heq
      exact .inr ⟨evReturn, ⟨A.length, body.length + 1⟩, _, .one t1, t2, .refl _, t3⟩
    · exact MapRel.good (.inr (.inl hgt))

theorem new_routine_other (r : Nat) (its : List LItem) (_hr : r ≠ A.length) (h : DS[r]? = some (idDec its)) :
    its ∈ (A ++ stripScan all lbl false false body :: B) := by
  have : (newOf DS)[r]? = some its := by rw [newOf_get, h]; simp [idDec_new]
  rw [round_new] at this
  exact List.mem_of_getElem? this

theorem strip_stepCorr (H : RoundHyp all lbl nm A body B) (p : LPos) (hg : GoodS all lbl A body p) :
    StepCorr (labLTS (oldOf DS)) (labLTS (newOf DS)) (decMap DS) (GoodS all lbl A body) p := by
  obtain ⟨r, i⟩ := p
  cases hds : DS[r]? with
  | none => exact dec_stepCorr_end _ _ r i (fun dl h => by rw [hds] at h; cases h)
  | some dl =>
    cases hi : dl[i]? with
    | none =>
      refine dec_stepCorr_end _ _ r i (fun dl' h => ?_)
      rw [hds] at h; cases h
      rcases Nat.lt_or_ge i dl.length with h | h
      · rw [List.getElem?_eq_getElem h] at hi; cases hi
      · exact h
    | some xd =>
      obtain ⟨x, d⟩ := xd
      have hold : itemAt OLD ⟨r, i⟩ = some x := by
        rw [← round_old (all := all)]; exact dec_itemAt_old DS r i dl x d hds hi
      by_cases hr : r = A.length
      case pos =>
        subst hr
        rw [round_get_r0] at hds
        cases hds
        rcases hg with hg | hg | ⟨x', hx', hdec, hnd⟩
        · exact absurd rfl hg
        · simp only at hg
          rw [List.getElem?_eq_none (by rw [d0_length]; omega)] at hi; cases hi
        · simp only at hx' hdec hnd
          have hil : i < body.length := by
            rcases Nat.lt_or_ge i body.length with h | h
            · exact h
            · rw [List.getElem?_eq_none h] at hx'; cases hx'
          have := d0_get_lt (all := all) (lbl := lbl) (nm := nm) i x' hx'
          rw [hi, hdec] at this
          simp only [Option.some.injEq, Prod.mk.injEq] at this
          obtain ⟨rfl, rfl⟩ := this
          refine dec_stepCorr_same _ _ (round_decHyp H) A.length i _ x round_get_r0 hi ?_ ?_
          · intro root l hxl
            subst hxl
            apply round_labOK
            intro e
            subst e
            simp only [itemDec, beq_self_eq_true, if_true] at hdec
            split at hdec
            · cases hdec
            · simp [dummyAt] at hdec
          · intro s hs
            rw [round_old, lstep_item _ _ _ hold] at hs
            exact strip_ok H s (succ_notDead H A.length i x hold (fun _ => ⟨hil, hnd⟩) s hs)
      case neg =>
        obtain ⟨its, rfl⟩ := round_get_other r dl hr hds
        have := idDec_mem its x d (List.mem_of_getElem? hi)
        subst this
        refine dec_stepCorr_same _ _ (round_decHyp H) r i _ x hds hi ?_ ?_
        · intro root l hxl
          subst hxl
          apply round_labOK
          intro e
          subst e
          have hxin : LItem.ljump root (some l) ∈ its := by
            have := List.mem_map_of_mem (f := fun (p : Dec) => p.1) (List.mem_of_getElem? hi)
            rwa [idDec_old] at this
          have hmem : LItem.ljump root (some l) ∈ (A ++ stripScan all l false false body :: B).flatten :=
            List.mem_flatten.mpr ⟨its, new_routine_other r its hr hds, hxin⟩
          exact lbl_not_in_new H (H.defined root l hmem)
        · intro s hs
          rw [round_old, lstep_item _ _ _ hold] at hs
          exact strip_ok H s (succ_notDead H r i x hold (fun h => absurd h hr) s hs)

/-- **One round of strip_last_label preserves behaviour.** -/
theorem round_preserves (H : RoundHyp all lbl nm A body B) (r : Nat) :
    Equivalent (labLTS OLD) (labLTS (A ++ stripScan all lbl false false body :: B))
      (labEntry OLD r) (labEntry (A ++ stripScan all lbl false false body :: B) r) := by
  have hnd : NotDead all lbl A body ⟨r, 0⟩ := by
    intro _ _ hdead
    have := hdead.1
    rw [flagsAt_zero] at this
    cases this
  have := equiv_of_map (strip_stepCorr H) _ _ (strip_ok H ⟨r, 0⟩ hnd)
  rw [round_old, round_new] at this
  have he : decMap DS ⟨r, 0⟩ = ⟨r, 0⟩ := by
    simp only [decMap, List.take_zero, cntK_nil]
    cases DS[r]? <;> rfl
  rw [he] at this
  exact this

end round

end ESV.Comp
