import ESV.Comp.GuardDefs
/-
Definitions only (no proofs; imported by the Lean driver, which must build whatever /repo looks like): the decidable fragments
of `codegen_correct` / `compile_correct` — `F0Prog`, `CgProg lv` (F1 … F4), `CgProg5` (F5) — with their `Decidable` instances.

The theorems are in ESV/Comp/CodegenF0*.lean, Cg*.lean; the final statements in ESV/Props/C01Frontend.lean.
-/
namespace ESV.Comp
open ESV ESV.Beh

/-! ### F0 -/

def nameOK (n : String) : Bool := !isCtx n && !(isJump n || isTest n)

/-- what may stand under a context in F0: a plain operation (not `Return`, see `FrontGuard`), `end`, `hold` -/
def f0Inner : Stmt → Bool
  | .op n _ => nameOK n && n != Gen.op_return
  | .end_ => true
  | .hold => true
  | _ => false

/-- F0: plain operations (assignments arrive as operations), operations with an inline context, with-blocks around a
plain operation / `end` / `hold`, and `return` / `end` / `hold` -/
def f0Stmt : Stmt → Bool
  | .op n _ => nameOK n
  | .inl c _ n _ => isCtx c && nameOK n && n != Gen.op_return
  | .with_ c _ inner => isCtx c && f0Inner inner
  | .ret => true
  | .end_ => true
  | .hold => true
  | _ => false

def f0Stmts : Stmts → Bool
  | .nil => true
  | .cons s r => f0Stmt s && f0Stmts r

/-! ### sequential routine ids -/

def seqFrom : List Routine → Nat → Bool
  | [], _ => true
  | r :: rs, a => (r.rid == none || r.rid == some a) && seqFrom rs (a + 1)

/-- F0 programs: no macros, routines numbered 0, 1, 2, … in source order, straight-line bodies -/
def F0Prog (p : Program) : Prop :=
  p.macros = [] ∧ seqFrom p.routines 0 = true ∧ ∀ r ∈ p.routines, f0Stmts r.body = true

instance (p : Program) : Decidable (F0Prog p) := by unfold F0Prog; infer_instance

/-! ### the fragment by level -/

/-- the statements of F0 but `return`: plain operations (not named `Return`: a macro expansion turns every `Return` op into a
jump to its end label, the language semantics only `return;`), operations under a context, `end` / `hold` -/
def cgSimple : Stmt → Bool
  | .op n _ => nameOK n && n != Gen.op_return
  | .inl c _ n _ => isCtx c && nameOK n && n != Gen.op_return
  | .with_ c _ inner => isCtx c && f0Inner inner
  | .end_ => true
  | .hold => true
  | _ => false

def isExit : Stmt → Bool
  | .brk => true
  | .cont => true
  | .brkLoop => true
  | .jump _ => true
  | _ => false

/-- a body that is a single `break` / `continue` / `break_loop` / `jump` -/
def loneExit : Stmts → Bool
  | .cons s .nil => isExit s
  | _ => false

/-- statements behind which control does not go on -/
def endsStmt : Stmt → Bool
  | .op n _ => Gen.opsEndFlow.contains n
  | .ret => true
  | .end_ => true
  | .hold => true
  | .brk => true
  | .cont => true
  | .brkLoop => true
  | .jump _ => true
  | _ => false

/-- the last statement of the block is one behind which control does not go on -/
def endsFlowStmts : Stmts → Bool
  | .nil => false
  | .cons s .nil => endsStmt s
  | .cons _ r => endsFlowStmts r

/-- statements whose collected code lets control run on behind it in the eyes of `SwitchBlockCompileHandler._falls_through`,
whatever stands before it: its last item is a real op that does not end the control flow (an operation, an operation under a
context, `call`, the test of a `while` / `for`), or a user label, or a label that a jump of the code goes to (`while not`,
an if without else) -/
def surelyFalls : Stmt → Bool
  | .op n _ => !Gen.opsEndFlow.contains n
  | .inl _ _ n _ => !Gen.opsEndFlow.contains n
  | .with_ _ _ (.op n _) => !Gen.opsEndFlow.contains n
  | .call _ => true
  | .label _ => true
  | .while_ neg h _ => neg || !Gen.opsEndFlow.contains h.name
  | .for_ _ h _ _ => !Gen.opsEndFlow.contains h.name
  | .ite _ _ _ _ hasElse _ => !hasElse
  | _ => false

/-- the last statement of the block is one of those -/
def surelyFallsStmts : Stmts → Bool
  | .nil => false
  | .cons s .nil => surelyFalls s
  | .cons _ r => surelyFallsStmts r

/-- `CaseValue` under `SwitchScenario` is collected as `CaseScenario` -/
def caseName (sw name : String) : String :=
  if sw == Gen.op_switch_scenario && name == Gen.op_case_value then Gen.op_case_scenario else name

def Cases.isNil : Cases → Bool
  | .nil => true
  | _ => false

mutual
/-- the statements `codegen_correct` covers, by level: always F0 (`cgSimple`) and if / elseif / else with any headers, `not`,
empty blocks (F1); from level 2 on `forever` / `while` / `for` with `continue` and `break_loop` (F2; the init and increment
statements of `for` are F0 statements); from level 3 on `switch` with `case` / `default` / `break`, fall-through and
cases sharing a block (F3; not: a header op that ends the routine; a case block that is a single `break` / `continue` /
`break_loop` / `jump` — `_process_block` folds it into the header jumps unless `_falls_through(case_ops)` — only if the proof knows
what `_falls_through` answers: it is the first block of the switch, or the block before it ends in `return` / `end` / `hold` /
`break` / `continue` / `break_loop` / `jump` (nothing falls in), or in a statement of `surelyFalls` (not folded);
`nf` of `cgCases`); from level 4 on user labels,
`jump @l` and `call @l` anywhere (F4); from level 5 on macro calls (F5) -/
def cgStmt (lv : Nat) : Stmt → Bool
  | .op n ps => cgSimple (.op n ps)
  | .inl c cp n ps => cgSimple (.inl c cp n ps)
  | .with_ c cp inner => cgSimple (.with_ c cp inner)
  | .ret => true
  | .end_ => true
  | .hold => true
  | .ite _ hdrs body elifs _ els => hdrs.all (fun h => isTest h.name) && cgStmts lv body && cgElifs lv elifs && cgStmts lv els
  | .label _ => decide (4 ≤ lv)
  | .jump _ => decide (4 ≤ lv)
  | .call _ => decide (4 ≤ lv)
  | .brk => decide (3 ≤ lv)
  | .switch hdr cs => decide (3 ≤ lv) && nameOK hdr.name && !Beh.endsFlow hdr.name && decide (countDefaults cs ≤ 1) &&
      cgCases lv hdr.name true cs
  | .cont => decide (2 ≤ lv)
  | .brkLoop => decide (2 ≤ lv)
  | .forever body => decide (2 ≤ lv) && cgStmts lv body
  | .while_ _ h body => decide (2 ≤ lv) && isTest h.name && cgStmts lv body
  | .for_ init h inc body => decide (2 ≤ lv) && isTest h.name && cgSimple init && cgSimple inc && cgStmts lv body
  | .macroCall _ _ => decide (5 ≤ lv)
def cgStmts (lv : Nat) : Stmts → Bool
  | .nil => true
  | .cons s r => cgStmt lv s && cgStmts lv r
def cgElifs (lv : Nat) : Elifs → Bool
  | .nil => true
  | .cons _ hdrs body r => hdrs.all (fun h => isTest h.name) && cgStmts lv body && cgElifs lv r
def cgCases (lv : Nat) (sw : String) (nf : Bool) : Cases → Bool
  | .nil => true
  | .cons d name _ body r => (d || (isTest name && isTest (caseName sw name))) && (d || !loneExit body || nf) && cgStmts lv body &&
      cgCases lv sw (if body.isNil then nf else (endsFlowStmts body || surelyFallsStmts body)) r
end

mutual
/-- the user labels a statement mentions (defines, jumps to, calls) -/
def mlStmt : Stmt → List String
  | .label n => [n]
  | .jump n => [n]
  | .call n => [n]
  | .ite _ _ body elifs _ els => mlStmts body ++ mlElifs elifs ++ mlStmts els
  | .switch _ cs => mlCases cs
  | .forever body => mlStmts body
  | .while_ _ _ body => mlStmts body
  | .for_ init _ inc body => mlStmt init ++ mlStmt inc ++ mlStmts body
  | _ => []
def mlStmts : Stmts → List String
  | .nil => []
  | .cons s r => mlStmt s ++ mlStmts r
def mlElifs : Elifs → List String
  | .nil => []
  | .cons _ _ body r => mlStmts body ++ mlElifs r
def mlCases : Cases → List String
  | .nil => []
  | .cons _ _ _ body r => mlStmts body ++ mlCases r
end

/-! ### programs -/

/-- the user labels defined in the program -/
def allDefs (p : Program) : List String := p.routines.flatMap fun r => dfStmts r.body

/-- programs of the fragment: no macros, routines numbered 0, 1, 2, … in source order, bodies in the fragment; every user label
is defined once, and every label mentioned (`jump`, `call`) is defined -/
def CgProg (lv : Nat) (p : Program) : Prop :=
  p.macros = [] ∧ seqFrom p.routines 0 = true ∧ (∀ r ∈ p.routines, cgStmts lv r.body = true) ∧ (allDefs p).Nodup ∧
  ∀ r ∈ p.routines, ∀ n ∈ mlStmts r.body, n ∈ allDefs p

instance (lv : Nat) (p : Program) : Decidable (CgProg lv p) := by unfold CgProg; infer_instance

/-- F5 programs: F4 (level 5: macro calls allowed) and macros: distinct names, distinct variables, bodies in the fragment, every
label of a macro body defined once in it, and every label it mentions defined in it -/
def CgProg5 (p : Program) : Prop :=
  seqFrom p.routines 0 = true ∧ (∀ r ∈ p.routines, cgStmts 5 r.body = true) ∧ (allDefs p).Nodup ∧
  (∀ r ∈ p.routines, ∀ n ∈ mlStmts r.body, n ∈ allDefs p) ∧ (p.macros.map (·.name)).Nodup ∧
  ∀ m ∈ p.macros, m.vars.Nodup ∧ cgStmts 5 m.body = true ∧ (dfStmts m.body).Nodup ∧ ∀ n ∈ mlStmts m.body, n ∈ dfStmts m.body

instance (p : Program) : Decidable (CgProg5 p) := by unfold CgProg5; infer_instance

end ESV.Comp
