import ESV.Comp.CgSwitch4
/-
`codegen_correct`, user labels, the source side alone: the translation `Src.tr` only grows the node table (`Grow`), and
it sets the node of every label it defines (once for all statements, by the mutual recursion of `Src.tr`).
-/
namespace ESV.Comp
open ESV ESV.Beh

mutual
/-- the labels whose statements `Src.tr` translates (an else block without `else` is not translated) -/
def dfS : Src.Stmt → List String
  | .label n => [n]
  | .ite bs hasElse els => dfSBranches bs ++ (if hasElse then dfSStmts els else [])
  | .switch _ cs => dfSCases cs
  | .forever body => dfSStmts body
  | .while_ _ _ body => dfSStmts body
  | .for_ init _ inc body => dfS init ++ dfS inc ++ dfSStmts body
  | _ => []
def dfSStmts : Src.Stmts → List String
  | .nil => []
  | .cons s r => dfS s ++ dfSStmts r
def dfSBranches : Src.Branches → List String
  | .nil => []
  | .cons _ _ body r => dfSStmts body ++ dfSBranches r
def dfSCases : Src.Cases → List String
  | .nil => []
  | .cons _ _ body r => dfSStmts body ++ dfSCases r
end

/-- the label nodes of the environment are in the label zone -/
def Dense (Z : Nat → Prop) (env : Src.Env) : Prop := ∀ n i, env.labels.lookup n = some i → Z i

/-- the table `R` made from `b`: grown, and the nodes of the labels `ds` are set -/
def TrGood (Z : Nat → Prop) (env : Src.Env) (R b : Src.B) (ds : List String) : Prop :=
  Grow Z b R ∧
  ((∀ i, Z i → i < (tbl b).length) → ∀ n ∈ ds, ∀ i, env.labels.lookup n = some i → ∃ kn, (tbl R)[i]? = some (.silent kn))

theorem TrGood.nil {Z : Nat → Prop} {env : Src.Env} {R b : Src.B} (h : Grow Z b R) : TrGood Z env R b [] :=
  ⟨h, fun _ n hn => by simp at hn⟩

theorem Grow.keeps_silent {Z : Nat → Prop} {b b' : Src.B} (h : Grow Z b b') {i k : Nat} (hi : (tbl b)[i]? = some (.silent k)) :
    ∃ k', (tbl b')[i]? = some (.silent k') := by
  have hlt : i < (tbl b).length := by
    rcases Nat.lt_or_ge i (tbl b).length with h' | h'
    · exact h'
    · rw [List.getElem?_eq_none h'] at hi; cases hi
  rcases h.2 i hlt with e | ⟨_, k', e⟩
  · exact ⟨k, e.trans hi⟩
  · exact ⟨k', e⟩

/-- two translations one after the other -/
theorem TrGood.seq {Z : Nat → Prop} {env : Src.Env} {b R1 R2 : Src.B} {d1 d2 d : List String} (h1 : TrGood Z env R1 b d1)
    (h2 : TrGood Z env R2 R1 d2) (hd : ∀ n, n ∈ d → n ∈ d1 ∨ n ∈ d2) : TrGood Z env R2 b d := by
  refine ⟨h1.1.trans h2.1, fun hz n hn i hl => ?_⟩
  rcases hd n hn with h | h
  · obtain ⟨kn, e⟩ := h1.2 hz n h i hl
    exact h2.1.keeps_silent e
  · exact h2.2 (fun i' hz' => Nat.lt_of_lt_of_le (hz i' hz') h1.1.len) n h i hl

theorem TrGood.after {Z : Nat → Prop} {env : Src.Env} {b R R' : Src.B} {d : List String} (h : TrGood Z env R b d) (hg : Grow Z R R') :
    TrGood Z env R' b d :=
  TrGood.seq h (TrGood.nil hg) (fun _ hn => .inl hn)

theorem TrGood.before {Z : Nat → Prop} {env : Src.Env} {b b1 R : Src.B} {d : List String} (hg : Grow Z b b1) (h : TrGood Z env R b1 d) :
    TrGood Z env R b d :=
  TrGood.seq (TrGood.nil hg) h (fun _ hn => .inr hn)

theorem TrGood.sub {Z : Nat → Prop} {env : Src.Env} {b R : Src.B} {d d' : List String} (h : TrGood Z env R b d) (hd : ∀ n, n ∈ d' → n ∈ d) :
    TrGood Z env R b d' := ⟨h.1, fun hz n hn => h.2 hz n (hd n hn)⟩

/-- overwriting a node that is not below `b` (a loop head, the switch's no-test-taken node) -/
theorem TrGood.set_ge {Z : Nat → Prop} {env : Src.Env} (hd : Dense Z env) {b R : Src.B} {d : List String} (h : TrGood Z env R b d) {i : Nat}
    (hi : (tbl b).length ≤ i) (n : Src.Node) : TrGood Z env (R.set i n) b d := by
  refine ⟨h.1.set_ge hi n, fun hz m hm j hl => ?_⟩
  obtain ⟨kn, e⟩ := h.2 hz m hm j hl
  have hj := hz j (hd m j hl)
  exact ⟨kn, by rw [tbl_set, List.getElem?_set_ne (by omega)]; exact e⟩

theorem testChain_pushes (sb : List (String × Beh.Param)) : ∀ (ts : List Ev) (x y : Nat) (b : Src.B), Pushes b (Src.testChain sb ts x y b).1
  | [], x, y, b => by simp only [Src.testChain]; exact Pushes.refl b
  | t :: r, x, y, b => by
    simp only [Src.testChain]
    exact (testChain_pushes sb r x y b).trans (Pushes.push _ _)

theorem invalid_pushes (b : Src.B) (w : String) : Pushes b (Src.invalid b w).1 := Pushes.push _ _

theorem lookupLabel_pushes (env : Src.Env) (b : Src.B) (n : String) : Pushes b (Src.lookupLabel env b n).1 := by
  simp only [Src.lookupLabel]
  cases env.labels.lookup n with
  | some i => exact Pushes.refl b
  | none => exact invalid_pushes _ _

theorem afterCtxSpecial_pushes (env : Src.Env) (s : Src.Stmt) (k : Nat) (b : Src.B) (r : Src.B × Nat)
    (h : Src.afterCtxSpecial env s k b = some r) : Pushes b r.1 := by
  cases s with
  | op name ps => simp only [Src.afterCtxSpecial, Option.some.injEq] at h; subst h; exact Pushes.push _ _
  | ret =>
    simp only [Src.afterCtxSpecial] at h
    cases hr : env.ret with
    | some x => rw [hr] at h; simp only [Option.some.injEq] at h; subst h; exact Pushes.refl b
    | none => rw [hr] at h; simp only [Option.some.injEq] at h; subst h; exact Pushes.push _ _
  | end_ => simp only [Src.afterCtxSpecial, Option.some.injEq] at h; subst h; exact Pushes.push _ _
  | hold => simp only [Src.afterCtxSpecial, Option.some.injEq] at h; subst h; exact Pushes.push _ _
  | _ => simp [Src.afterCtxSpecial] at h

section good
variable (Z : Nat → Prop) (fuel : Nat) (sm : List Src.Macro)
  (hM : ∀ (env : Src.Env) (name : String) (args : List Beh.Param) (k : Nat) (b : Src.B), Dense Z env →
    Grow Z b (Src.tr fuel sm env (.macroCall name args) k b).1)
include hM

mutual
theorem tr_good : ∀ (S : Src.Stmt) (env : Src.Env), Dense Z env → ∀ k b, TrGood Z env (Src.tr fuel sm env S k b).1 b (dfS S)
  | .op name ps, env, hd, k, b => by
    rw [Src.tr]; simp only [dfS]
    split <;> exact TrGood.nil (Grow.push _ _)
  | .ctx c cps inner, env, hd, k, b => by
    rw [Src.tr]; simp only [dfS]
    cases hs : Src.afterCtxSpecial env inner k b with
    | some r => exact TrGood.nil ((afterCtxSpecial_pushes env inner k b r hs).grow.trans (Grow.push _ _))
    | none => exact TrGood.nil ((tr_good inner env hd k b).1.trans (Grow.push _ _))
  | .label n, env, hd, k, b => by
    rw [Src.tr]; simp only [dfS]
    cases hl : env.labels.lookup n with
    | none => exact ⟨Grow.push _ _, fun _ m hm i hi => by simp at hm; subst hm; rw [hl] at hi; cases hi⟩
    | some i =>
      refine ⟨Grow.set_lab b (hd n i hl) k, fun hz m hm j hj => ?_⟩
      simp at hm; subst hm
      rw [hl] at hj; cases hj
      exact ⟨k, by rw [tbl_set, List.getElem?_set_self (hz i (hd m i hl))]⟩
  | .jump n, env, hd, k, b => by
    rw [Src.tr]; exact TrGood.nil (lookupLabel_pushes env b n).grow
  | .call n, env, hd, k, b => by
    rw [Src.tr]; exact TrGood.nil ((lookupLabel_pushes env b n).grow.trans (Grow.push _ _))
  | .ret, env, hd, k, b => by
    rw [Src.tr]; simp only [dfS]
    cases env.ret with
    | some r => exact TrGood.nil (Grow.refl b)
    | none => exact TrGood.nil (Grow.push _ _)
  | .end_, env, hd, k, b => by rw [Src.tr]; exact TrGood.nil (Grow.push _ _)
  | .hold, env, hd, k, b => by rw [Src.tr]; exact TrGood.nil (Grow.push _ _)
  | .brk, env, hd, k, b => by
    rw [Src.tr]; simp only [dfS]
    cases env.brk with
    | some r => exact TrGood.nil (Grow.refl b)
    | none => exact TrGood.nil (invalid_pushes _ _).grow
  | .cont, env, hd, k, b => by
    rw [Src.tr]; simp only [dfS]
    cases env.cont with
    | some r => exact TrGood.nil (Grow.refl b)
    | none => exact TrGood.nil (invalid_pushes _ _).grow
  | .brkLoop, env, hd, k, b => by
    rw [Src.tr]; simp only [dfS]
    cases env.brkLoop with
    | some r => exact TrGood.nil (Grow.refl b)
    | none => exact TrGood.nil (invalid_pushes _ _).grow
  | .ite bs hasElse els, env, hd, k, b => by
    rw [Src.tr]; simp only [dfS]
    cases hasElse with
    | true =>
      simp only [↓reduceIte]
      exact TrGood.seq (trStmts_good els env hd k b) (trBranches_good bs env hd k _ _) (fun n hn => by
        simp only [List.mem_append] at hn; exact hn.symm)
    | false =>
      simp only [Bool.false_eq_true, ↓reduceIte, List.append_nil]
      exact trBranches_good bs env hd k k b
  | .switch hdr cs, env, hd, k, b => by
    rw [tr_switch fuel sm env hdr cs k b]; simp only [dfS]
    have hT := trCases_good cs (brkEnv env k) hd k (tbl b).length (b.push (.halt (evInvalid "switch default"))).1
    have h1 : TrGood Z env (Src.trCases fuel sm (brkEnv env k) cs k (tbl b).length (b.push (.halt (evInvalid "switch default"))).1).1 b
        (dfSCases cs) := TrGood.before (Grow.push _ _) ⟨hT.1, hT.2⟩
    exact (h1.set_ge hd (Nat.le_refl _) _).after (Grow.push _ _)
  | .forever body, env, hd, k, b => by
    rw [tr_forever]; simp only [dfS]
    have hB := trStmts_good body (loopEnv env (tbl b).length k) hd (tbl b).length (b.push (.halt (evInvalid "loop head"))).1
    have h1 : TrGood Z env _ b (dfSStmts body) := TrGood.before (Grow.push _ _) ⟨hB.1, hB.2⟩
    exact h1.set_ge hd (Nat.le_refl _) _
  | .while_ neg t body, env, hd, k, b => by
    rw [tr_while fuel sm env]; simp only [dfS]
    have hB := trStmts_good body (loopEnv env (tbl b).length k) hd (tbl b).length (b.push (.halt (evInvalid "loop head"))).1
    have h1 : TrGood Z env _ b (dfSStmts body) := TrGood.before (Grow.push _ _) ⟨hB.1, hB.2⟩
    exact h1.set_ge hd (Nat.le_refl _) _
  | .for_ init t inc body, env, hd, k, b => by
    rw [tr_for fuel sm env]; simp only [dfS]
    have hI := tr_good inc env hd (tbl b).length (b.push (.halt (evInvalid "loop test"))).1
    have hB := trStmts_good body (loopEnv env (Src.tr fuel sm env inc (tbl b).length (b.push (.halt (evInvalid "loop test"))).1).2 k)
      hd (Src.tr fuel sm env inc (tbl b).length (b.push (.halt (evInvalid "loop test"))).1).2
      (Src.tr fuel sm env inc (tbl b).length (b.push (.halt (evInvalid "loop test"))).1).1
    have h1 : TrGood Z env _ b (dfS inc ++ dfSStmts body) :=
      TrGood.before (Grow.push _ _) (TrGood.seq hI ⟨hB.1, hB.2⟩ (fun n hn => by simpa using hn))
    have h2 := h1.set_ge hd (Nat.le_refl _) (.test (Src.substEv env.subst t) (Src.trStmts fuel sm (loopEnv env (Src.tr fuel sm env inc (tbl b).length
      (b.push (.halt (evInvalid "loop test"))).1).2 k) body (Src.tr fuel sm env inc (tbl b).length (b.push (.halt (evInvalid "loop test"))).1).2
      (Src.tr fuel sm env inc (tbl b).length (b.push (.halt (evInvalid "loop test"))).1).1).2 k)
    exact TrGood.seq h2 (tr_good init env hd _ _) (fun n hn => by
      simp only [List.mem_append] at hn ⊢
      rcases hn with (h | h) | h
      · exact .inr h
      · exact .inl (.inl h)
      · exact .inl (.inr h))
  | .macroCall name args, env, hd, k, b => by
    simp only [dfS]
    exact TrGood.nil (hM env name args k b hd)

theorem trStmts_good : ∀ (S : Src.Stmts) (env : Src.Env), Dense Z env → ∀ k b, TrGood Z env (Src.trStmts fuel sm env S k b).1 b (dfSStmts S)
  | .nil, env, hd, k, b => by rw [Src.trStmts]; exact TrGood.nil (Grow.refl b)
  | .cons s r, env, hd, k, b => by
    rw [Src.trStmts]; simp only [dfSStmts]
    exact TrGood.seq (trStmts_good r env hd k b) (tr_good s env hd _ _) (fun n hn => by
      simp only [List.mem_append] at hn; exact hn.symm)

theorem trBranches_good : ∀ (S : Src.Branches) (env : Src.Env), Dense Z env → ∀ k e b,
    TrGood Z env (Src.trBranches fuel sm env S k e b).1 b (dfSBranches S)
  | .nil, env, hd, k, e, b => by rw [Src.trBranches]; exact TrGood.nil (Grow.refl b)
  | .cons neg tests body r, env, hd, k, e, b => by
    rw [Src.trBranches]; simp only [dfSBranches]
    have h1 := TrGood.seq (trBranches_good r env hd k e b) (trStmts_good body env hd k _) (fun n hn => by
      simp only [List.mem_append] at hn; exact hn.symm) (d := dfSStmts body ++ dfSBranches r)
    split
    · exact h1.after (testChain_pushes _ _ _ _ _).grow
    · exact h1.after (testChain_pushes _ _ _ _ _).grow

theorem trCases_good : ∀ (S : Src.Cases) (env : Src.Env), Dense Z env → ∀ k nt b,
    TrGood Z env (Src.trCases fuel sm env S k nt b).1 b (dfSCases S)
  | .nil, env, hd, k, nt, b => by rw [trCases_nil]; exact TrGood.nil (Grow.refl b)
  | .cons true t body r, env, hd, k, nt, b => by
    rw [trCases_default fuel sm env t body r k nt b rfl rfl]; simp only [dfSCases]
    exact TrGood.seq (trCases_good r env hd k nt b) (trStmts_good body env hd _ _) (fun n hn => by
      simp only [List.mem_append] at hn; exact hn.symm)
  | .cons false t body r, env, hd, k, nt, b => by
    rw [trCases_case fuel sm env t body r k nt b rfl rfl]; simp only [dfSCases]
    exact (TrGood.seq (trCases_good r env hd k nt b) (trStmts_good body env hd _ _) (fun n hn => by
      simp only [List.mem_append] at hn; exact hn.symm) (d := dfSStmts body ++ dfSCases r)).after (Grow.push _ _)
end

end good

end ESV.Comp
