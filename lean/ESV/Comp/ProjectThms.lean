import ESV.Comp.Project
/-
Facts about `flatten` (ESV/Comp/Project.lean): the routines of the flattened program are those of the main file; a file without
imports is its own flattening.
-/
namespace ESV.Comp
open ESV ESV.Macro

theorem flatten_routines {P : Project} {fs : Imp.Comps → Bool} {cwd : Imp.Comps} {lookups : List Imp.Str} {main : Imp.Comps} {p : Program}
    (h : flatten P fs cwd lookups main = .ok p) : ∃ f, P.lookup main = some f ∧ p.routines = f.routines := by
  unfold flatten at h
  split at h
  · cases h
  · split at h
    · cases h
    · rename_i f hf
      simp only [Except.ok.injEq] at h
      subst h
      exact ⟨f, hf, rfl⟩

/-- macros of new names from one file are appended -/
theorem vUpdate_fresh (o : Imp.Comps) : ∀ (ms : List Macro) (d : List VMacro), (ms.map (·.name)).Nodup →
    (∀ m ∈ ms, ∀ y ∈ d, y.m.name ≠ m.name) → vUpdate d (ms.map fun m => ⟨o, m⟩) = some (d ++ ms.map fun m => ⟨o, m⟩)
  | [], d, _, _ => by simp [vUpdate]
  | m :: r, d, hnd, hd => by
    simp only [List.map_cons, List.nodup_cons] at hnd
    have hf : d.find? (fun y => y.m.name == m.name) = none := by
      rw [List.find?_eq_none]
      intro y hy
      simpa using hd m (by simp) y hy
    simp only [List.map_cons, vUpdate, vUpdate1, hf]
    rw [vUpdate_fresh o r (d ++ [(⟨o, m⟩ : VMacro)]) hnd.2 (fun m' hm' y hy => by
      rcases List.mem_append.mp hy with hy | hy
      · exact hd m' (List.mem_cons_of_mem _ hm') y hy
      · simp only [List.mem_singleton] at hy
        subst hy
        intro e
        exact hnd.1 (List.mem_map.mpr ⟨m', hm', e.symm⟩))]
    simp

/-- a file without imports whose macros have distinct names is its own flattening: F6 extends F5 -/
theorem flatten_single (P : Project) (fs : Imp.Comps → Bool) (cwd : Imp.Comps) (lookups : List Imp.Str) (main : Imp.Comps) (f : PFile)
    (hf : P.lookup main = some f) (hi : f.imports = []) (hn : (f.macros.map (·.name)).Nodup) :
    flatten P fs cwd lookups main = .ok ⟨f.macros, f.macroOrder, f.routines⟩ := by
  have hv : visible P fs cwd lookups (P.length + 1) [] main false = .ok (f.macros.map (fun m => ⟨main, m⟩), f.macroOrder) := by
    simp only [visible, hf, hi, List.map_nil, Imp.resolveAll, mergeSubs, hn, decide_true, Bool.not_true, Bool.false_eq_true, if_false,
      Bool.false_and]
    rw [vUpdate_fresh main f.macros [] hn (fun _ _ y hy => by simp at hy)]
    simp
  simp only [flatten, hv, hf, List.map_map]
  congr 1
  congr 1
  exact List.map_id' _

end ESV.Comp
