import ESV.Comp.CgBlock
/-
`codegen_correct`: an if-block assembled from its branches and its else part.
-/
namespace ESV.Comp
open ESV ESV.Beh

/-- what is known about the (patched) else part `ep`; `trE k b` is what the source semantics builds for the else part -/
structure ElseOK (cx : Cx) (E : Nat) (s : St) (env : Src.Env) (sE : St) (ep : List LItem) (trE : Nat → Src.B → Src.B × Nat) : Prop where
  nonone : NoNone ep
  grow : ∀ k b, Grow cx.Z b (trE k b).1
  corr : ∀ r q, Placed cx.cp cx.rs r q ep → ∀ k b, AgreeOn cx.N cx.Z b (trE k b).1 → ∀ m j, ExitsOK cx m j s env → NamedIn cx sE →
    R2 cx m j (target cx.rs (cx.cp.σ E)) k → R2 cx m j ⟨r, q⟩ (trE k b).2 ∧ LabExport cx env m j b (trE k b).1

theorem frontOf_nonone : ∀ (brs : List BrD), (∀ d ∈ brs, NoNone d.hdrs ∧ NoNone d.PB) → NoNone (frontOf brs) := by
  intro brs
  induction brs with
  | nil => intro _ x hx; simp [frontOf] at hx
  | cons d r ih =>
    intro h x hx
    simp only [frontOf, List.mem_append] at hx
    rcases hx with (hx | hx) | hx
    · exact (h d (by simp)).1 x hx
    · split at hx
      · exact (h d (by simp)).2 x hx
      · simp at hx
    · exact ih (fun y hy => h y (by simp [hy])) x hx

theorem backOf_nonone : ∀ (brs : List BrD), (∀ d ∈ brs, NoNone d.hdrs ∧ NoNone d.PB) → NoNone (backOf brs) := by
  intro brs
  induction brs with
  | nil => intro _ x hx; simp [backOf] at hx
  | cons d r ih =>
    intro h x hx
    simp only [backOf, List.mem_append] at hx
    rcases hx with hx | hx
    · split at hx
      · simp at hx
      · exact (h d (by simp)).2 x hx
    · exact ih (fun y hy => h y (by simp [hy])) x hx

theorem lastNotCtx_snoc_label (l : List LItem) (i : Nat) (b : Bool) : lastNotCtx (l ++ [.label i b]) = true := by
  simp [lastNotCtx, isCtxL]

theorem falls_snoc_label (l : List LItem) (i : Nat) (b : Bool) : falls (l ++ [.label i b]) = true := by
  simp only [falls, needsEndJump, List.reverse_append, List.reverse_cons, List.reverse_nil, List.nil_append, List.singleton_append]
  cases l.reverse <;> simp [Comp.endsFlow, endsName]

theorem loneJump_snoc_label (l : List LItem) (i : Nat) (b : Bool) : loneJump (l ++ [.label i b]) = none := by
  cases l with
  | nil => rfl
  | cons x r => cases r <;> simp [loneJump]

/-- the branches, the else part, the blocks of the positive branches, the end label -/
theorem ite_assemble (cx : Cx) (fuel : Nat) (E : Nat) (s s' : St) (env : Src.Env) (he : EnvOK cx env) (brs : List BrD)
    (hbr : ∀ d ∈ brs, BrOK cx fuel E s env d) (hnn : ∀ d ∈ brs, NoNone d.hdrs ∧ NoNone d.PB) (ep : List LItem)
    (trE : Nat → Src.B → Src.B × Nat) (sE : St) (hel : ElseOK cx E s env sE ep trE) (hstk : SameStk s s')
    (hleB : ∀ d ∈ brs, NamedLe d.sB s') (hleE : NamedLe sE s') :
    PieceOK cx (frontOf brs ++ ep ++ backOf brs ++ [.label E false]) s s'
      (fun k b => Src.trBranches fuel cx.sm env (srcBranches brs) k (trE k b).2 (trE k b).1) env := by
  have hgrow : ∀ k b, Grow cx.Z b (Src.trBranches fuel cx.sm env (srcBranches brs) k (trE k b).2 (trE k b).1).1 := by
    intro k b
    -- the chain lemma's growth part does not look at the placement; use it with a dummy placement-free argument
    have : ∀ (brs' : List BrD), (∀ d ∈ brs', BrOK cx fuel E s env d) → ∀ k e b', Grow cx.Z b' (Src.trBranches fuel cx.sm env (srcBranches brs') k e b').1 := by
      intro brs'
      induction brs' with
      | nil => intro _ k e b'; simp only [srcBranches]; rw [Src.trBranches]; exact Grow.refl _
      | cons d rest ih =>
        intro hall k e b'
        simp only [srcBranches]
        rw [Src.trBranches]
        dsimp only
        have g1 := ih (fun x hx => hall x (by simp [hx])) k e b'
        generalize Src.trBranches fuel cx.sm env (srcBranches rest) k e b' = R1 at g1 ⊢
        obtain ⟨b1, re⟩ := R1
        have g2 := (hall d (by simp)).grow k b1
        generalize Src.trStmts fuel cx.sm env (toSrcStmts d.body) k b1 = R2' at g2 ⊢
        obtain ⟨b2, be⟩ := R2'
        simp only at g1 g2 ⊢
        have tc : ∀ (ts : List Ev) (x y : Nat) (b0 : Src.B), Grow cx.Z b0 (Src.testChain env.subst ts x y b0).1 := by
          intro ts
          induction ts with
          | nil => intro x y b0; simp only [Src.testChain]; exact Grow.refl _
          | cons t r iht =>
            intro x y b0
            simp only [Src.testChain]
            exact (iht x y b0).trans (Grow.push _ _)
        split
        · exact (g1.trans g2).trans (tc _ _ _ _)
        · exact (g1.trans g2).trans (tc _ _ _ _)
    exact (hel.grow k b).trans (this brs hbr k _ _)
  refine ⟨hstk.1, hstk.2, hstk.3, lastNotCtx_snoc_label _ _ _, ?_, ?_, ?_, hgrow, ?_⟩
  · intro x hx root e
    simp only [List.mem_append, List.mem_singleton] at hx
    rcases hx with ((hx | hx) | hx) | rfl
    · exact frontOf_nonone brs hnn x hx root e
    · exact hel.nonone x hx root e
    · exact backOf_nonone brs hnn x hx root e
    · cases e
  · intro h0; simp at h0
  · intro l hl; rw [loneJump_snoc_label] at hl; cases hl
  · intro r i0 hp _ k b hag m j hex hin hcont
    have hpF : Placed cx.cp cx.rs r i0 (frontOf brs) := hp.left.left.left
    have hpE : Placed cx.cp cx.rs r (i0 + (frontOf brs).length) ep := hp.left.left.right
    have hpBk : Placed cx.cp cx.rs r (i0 + (frontOf brs ++ ep).length) (backOf brs) := hp.left.right
    have hlab : ItemC cx.cp cx.rs ⟨r, i0 + (frontOf brs ++ ep ++ backOf brs).length⟩ (.label E false) := by
      simpa using hp.item (d := (frontOf brs ++ ep ++ backOf brs).length) (by simp)
    have htgt : target cx.rs (cx.cp.σ E) = ⟨r, i0 + (frontOf brs ++ ep ++ backOf brs).length⟩ := by
      simpa using hp.resolve cx.hlab (d := (frontOf brs ++ ep ++ backOf brs).length) (l := E) (nm := false) (by simp)
    have hend : R2 cx m j (target cx.rs (cx.cp.σ E)) k := by
      rw [htgt]
      refine R2.silL (lab_label hlab) ?_
      have := hcont (falls_snoc_label _ _ _)
      simpa [LPos.next, Nat.add_assoc] using this
    have gE := hel.grow k b
    obtain ⟨gC, cC⟩ := chain_corr cx fuel E s env he brs hbr r i0 hpF (backOf_placed brs _ hpBk) k (trE k b).2 (trE k b).1
    have agE : AgreeOn cx.N cx.Z b (trE k b).1 := hag.sub_grow (Grow.refl b) gC
    have agC := hag.sub_grow gE (Grow.refl _)
    have fE := hel.corr r _ hpE k b agE m j hex (hin.le hleE) hend
    have fC := cC agC m j hex (fun d hd => hin.le (hleB d hd)) hend
    exact ⟨fC.1 fE.1, LabExport.comp gE.len fE.2 fC.2⟩

end ESV.Comp
