import ESV.Comp.CodegenF0a
import ESV.Comp.CgDefs
/-
`codegen_correct`, fragment F0, part b: the fragment, its code, and the path the source semantics builds for it.
-/
namespace ESV.Comp
open ESV ESV.Beh

def stmtCode : Stmt → Code
  | .op n ps => [(n, ps)]
  | .inl c cp n ps => [(c, [cp]), (n, ps)]
  | .with_ c cp inner => (c, [cp]) :: stmtCode inner
  | .ret => [(Gen.op_return, [])]
  | .end_ => [(Gen.op_end, [])]
  | .hold => [(Gen.op_hold, [])]
  | _ => []

def stmtsCode : Stmts → Code
  | .nil => []
  | .cons s r => stmtCode s ++ stmtsCode r

theorem ctl_names : nameOK Gen.op_return = true ∧ nameOK Gen.op_end = true ∧ nameOK Gen.op_hold = true ∧
    Beh.endsFlow Gen.op_return = true ∧ Beh.endsFlow Gen.op_end = true ∧ Beh.endsFlow Gen.op_hold = true ∧
    Gen.op_return = ESV.Spec.op_return ∧ Gen.op_end = ESV.Spec.op_end ∧ Gen.op_hold = ESV.Spec.op_hold := by decide

theorem ctx_not_ends (c : String) (h : isCtx c = true) : Beh.endsFlow c = false := by
  have hall : ∀ nm ∈ ESV.Spec.opsCtx, Beh.endsFlow nm = false := by decide
  exact hall _ (by simpa [isCtx] using h)

theorem substEv_nil (e : Ev) : Src.substEv [] e = e := by
  obtain ⟨n, ps⟩ := e
  simp only [Src.substEv]
  congr 1
  induction ps with
  | nil => rfl
  | cons p r ih =>
    simp only [List.map_cons, ih]
    congr 1
    cases p <;> simp [Src.substParam]

/-- the environment of a routine body without macros: nothing to substitute, `return` is the op -/
def PlainEnv (env : Src.Env) : Prop := env.subst = [] ∧ env.ret = none

theorem push_toList (b : Src.B) (n : Src.Node) : (b.push n).1.nodes.toList = b.nodes.toList ++ [n] ∧ (b.push n).2 = b.nodes.toList.length := by
  simp [Src.B.push]

theorem getElem?_snoc_self {α : Type} (l : List α) (x : α) : (l ++ [x])[l.length]? = some x := by simp

/-- a plain op (not a context op) in front of a path -/
theorem path_plain {N : List Src.Node} {e : Nat} {x : String × List ESV.Param} {rest : Code} {k : Nat} (hc : isCtx x.1 = false)
    (h : if Beh.endsFlow x.1 then N[e]? = some (.halt (evOf x)) else ∃ e', N[e]? = some (.emit (evOf x) e') ∧ PathOK N false e' rest k) :
    PathOK N false e (x :: rest) k := by
  simp only [PathOK, hc, Bool.false_eq_true, if_false, Bool.not_false, Bool.and_true]
  exact h

/-- a context op with its op in front of a path -/
theorem path_ctx {N : List Src.Node} {e e1 e2 : Nat} {c x : String × List ESV.Param} {rest : Code} {k : Nat} (hc : isCtx c.1 = true)
    (hx : isCtx x.1 = false) (h1 : N[e]? = some (.emit (evOf c) e1)) (h2 : N[e1]? = some (.emit (evOf x) e2))
    (h3 : PathOK N false e2 rest k) : PathOK N false e (c :: x :: rest) k := by
  simp only [PathOK, hc, if_true]
  refine ⟨e1, h1, ?_⟩
  simp only [hx, Bool.false_eq_true, if_false, Bool.not_true, Bool.and_false]
  exact ⟨e2, h2, h3⟩

/-- the nodes the source semantics adds for a statement of F0 spell its code -/
theorem tr_f0 (fuel : Nat) (ms : List Src.Macro) (env : Src.Env) (he : PlainEnv env) (s : Stmt) (hs : f0Stmt s = true)
    (rest : Code) (k0 : Nat) (k : Nat) (b : Src.B) (hp : PathOK b.nodes.toList false k rest k0) :
    ∃ extra, (Src.tr fuel ms env (toSrcStmt s) k b).1.nodes.toList = b.nodes.toList ++ extra ∧
      PathOK (Src.tr fuel ms env (toSrcStmt s) k b).1.nodes.toList false (Src.tr fuel ms env (toSrcStmt s) k b).2
        (stmtCode s ++ rest) k0 := by
  obtain ⟨hsub, hret⟩ := he
  -- a plain op
  have plain : ∀ (n : String) (ps : List ESV.Param), nameOK n = true →
      ∃ extra, (Src.tr fuel ms env (.op n (convParams ps)) k b).1.nodes.toList = b.nodes.toList ++ extra ∧
        PathOK (Src.tr fuel ms env (.op n (convParams ps)) k b).1.nodes.toList false
          (Src.tr fuel ms env (.op n (convParams ps)) k b).2 ((n, ps) :: rest) k0 := by
    intro n ps hn
    simp only [nameOK, Bool.and_eq_true, Bool.not_eq_true'] at hn
    rw [Src.tr]
    simp only [hsub, substEv_nil]
    by_cases hf : Beh.endsFlow n = true
    · simp only [hf, if_true]
      obtain ⟨a1, a2⟩ := push_toList b (.halt ⟨n, convParams ps⟩)
      refine ⟨[_], a1, path_plain hn.1 ?_⟩
      simp only [hf, if_true, a1, a2, evOf]
      exact getElem?_snoc_self _ _
    · simp only [hf, Bool.false_eq_true, if_false]
      obtain ⟨a1, a2⟩ := push_toList b (.emit ⟨n, convParams ps⟩ k)
      refine ⟨[_], a1, path_plain hn.1 ?_⟩
      simp only [hf, Bool.false_eq_true, if_false, a1, a2, evOf]
      exact ⟨k, getElem?_snoc_self _ _, hp.ext _⟩
  -- a halting control statement
  have ctl : ∀ (nm : String) (sn : String) (st : Src.Stmt), nameOK nm = true → Beh.endsFlow nm = true → nm = sn →
      Src.tr fuel ms env st k b = b.push (.halt ⟨sn, []⟩) →
      ∃ extra, (Src.tr fuel ms env st k b).1.nodes.toList = b.nodes.toList ++ extra ∧
        PathOK (Src.tr fuel ms env st k b).1.nodes.toList false (Src.tr fuel ms env st k b).2 ((nm, []) :: rest) k0 := by
    intro nm sn st hn hf hnm htr
    subst hnm
    simp only [nameOK, Bool.and_eq_true, Bool.not_eq_true'] at hn
    rw [htr]
    obtain ⟨a1, a2⟩ := push_toList b (.halt ⟨nm, []⟩)
    refine ⟨[_], a1, path_plain hn.1 ?_⟩
    simp only [hf, if_true, a1, a2, evOf, convParams, List.map_nil]
    exact getElem?_snoc_self _ _
  -- an op under a context
  have under : ∀ (c : String) (cp : ESV.Param) (inner : Src.Stmt) (x : String × List ESV.Param), isCtx c = true → isCtx x.1 = false →
      Src.afterCtxSpecial env inner k b = some (b.push (.emit (evOf x) k)) →
      ∃ extra, (Src.tr fuel ms env (.ctx c [convParam cp] inner) k b).1.nodes.toList = b.nodes.toList ++ extra ∧
        PathOK (Src.tr fuel ms env (.ctx c [convParam cp] inner) k b).1.nodes.toList false
          (Src.tr fuel ms env (.ctx c [convParam cp] inner) k b).2 ((c, [cp]) :: x :: rest) k0 := by
    intro c cp inner x hc hx hspec
    rw [Src.tr]
    simp only [hspec, hsub, substEv_nil]
    obtain ⟨a1, a2⟩ := push_toList b (.emit (evOf x) k)
    generalize b.push (Step.emit (evOf x) k) = B1 at a1 a2 ⊢
    obtain ⟨b1', i1⟩ := B1
    simp only at a1 a2
    subst a2
    obtain ⟨c1, c2⟩ := push_toList b1' (.emit ⟨c, [convParam cp]⟩ b.nodes.toList.length)
    refine ⟨[Step.emit (evOf x) k, Step.emit ⟨c, [convParam cp]⟩ b.nodes.toList.length], by rw [c1, a1]; simp, ?_⟩
    rw [c1, c2, a1]
    refine path_ctx (c := (c, [cp])) (e1 := b.nodes.toList.length) (e2 := k) hc hx ?_ ?_ ((hp.ext _).ext _)
    · have := getElem?_snoc_self (b.nodes.toList ++ [Step.emit (evOf x) k]) (Step.emit (⟨c, [convParam cp]⟩ : Ev) b.nodes.toList.length)
      simp [evOf, convParams]
    · rw [List.getElem?_append_left (by simp)]
      exact getElem?_snoc_self _ _
  cases s with
  | op n ps => exact plain n ps (by simpa [f0Stmt] using hs)
  | ret =>
    exact ctl Gen.op_return ESV.Spec.op_return .ret ctl_names.1 ctl_names.2.2.2.1 ctl_names.2.2.2.2.2.2.1
      (by rw [Src.tr]; simp [hret])
  | end_ =>
    exact ctl Gen.op_end ESV.Spec.op_end .end_ ctl_names.2.1 ctl_names.2.2.2.2.1 ctl_names.2.2.2.2.2.2.2.1 (by rw [Src.tr])
  | hold =>
    exact ctl Gen.op_hold ESV.Spec.op_hold .hold ctl_names.2.2.1 ctl_names.2.2.2.2.2.1 ctl_names.2.2.2.2.2.2.2.2 (by rw [Src.tr])
  | inl c cp n ps =>
    simp only [f0Stmt, Bool.and_eq_true] at hs
    have hn := hs.1.2
    simp only [nameOK, Bool.and_eq_true, Bool.not_eq_true'] at hn
    exact under c cp (.op n (convParams ps)) (n, ps) hs.1.1 hn.1 (by simp [Src.afterCtxSpecial, hsub, substEv_nil, evOf])
  | with_ c cp inner =>
    simp only [f0Stmt, Bool.and_eq_true] at hs
    cases inner with
    | op n ps =>
      have hn := hs.2
      simp only [f0Inner, nameOK, Bool.and_eq_true, Bool.not_eq_true'] at hn
      exact under c cp (.op n (convParams ps)) (n, ps) hs.1 hn.1.1 (by simp [Src.afterCtxSpecial, hsub, substEv_nil, evOf])
    | end_ =>
      have hn := ctl_names.2.1
      simp only [nameOK, Bool.and_eq_true, Bool.not_eq_true'] at hn
      exact under c cp .end_ (Gen.op_end, []) hs.1 hn.1
        (by simp [Src.afterCtxSpecial, evOf, convParams, ctl_names.2.2.2.2.2.2.2.1])
    | hold =>
      have hn := ctl_names.2.2.1
      simp only [nameOK, Bool.and_eq_true, Bool.not_eq_true'] at hn
      exact under c cp .hold (Gen.op_hold, []) hs.1 hn.1
        (by simp [Src.afterCtxSpecial, evOf, convParams, ctl_names.2.2.2.2.2.2.2.2])
    | _ => simp [f0Inner] at hs
  | _ => simp [f0Stmt] at hs

end ESV.Comp
