import ESV.Comp.LabSem
import ESV.Comp.Lemmas
/-
Back-end correctness, part: the flat op table of the machine described by lists (`flatFrom`), and what
`OpsLabelJumpToRemover` (`removeItems`) puts where.
-/
namespace ESV.Comp
open ESV ESV.Beh

/-! ### the machine's op table as a list -/

def tagOps (k : Nat) (os : List MOp) : List FOp := os.map fun o => ⟨k, o⟩

def flatFrom : Nat → List (List MOp) → List FOp
  | _, [] => []
  | k, os :: r => tagOps k os ++ flatFrom (k + 1) r

theorem flatMap_zipIdx_eq (ms : List (List MOp)) : ∀ k,
    ((ms.zipIdx k).flatMap fun (x : List MOp × Nat) => x.1.map fun o => (⟨x.2, o⟩ : FOp)) = flatFrom k ms := by
  induction ms with
  | nil => intro k; rfl
  | cons a r ih =>
    intro k
    rw [List.zipIdx_cons, List.flatMap_cons, ih (k + 1)]
    rfl

theorem flatten_eq (ms : List (List MOp)) : flatten ms = (flatFrom 0 ms).toArray := by
  unfold flatten
  congr 1
  exact flatMap_zipIdx_eq ms 0

/-- number of ops in the routines before routine `r` -/
def lenBefore : List (List MOp) → Nat → Nat
  | [], _ => 0
  | _ :: _, 0 => 0
  | os :: ms, r + 1 => os.length + lenBefore ms r

@[simp] theorem lenBefore_zero (ms : List (List MOp)) : lenBefore ms 0 = 0 := by cases ms <;> rfl

theorem flatFrom_length (ms : List (List MOp)) : ∀ k, (flatFrom k ms).length = lenBefore ms ms.length := by
  induction ms with
  | nil => intro k; rfl
  | cons a r ih => intro k; simp [flatFrom, tagOps, lenBefore, ih]

theorem lenBefore_le (ms : List (List MOp)) : ∀ r, lenBefore ms r ≤ lenBefore ms ms.length := by
  induction ms with
  | nil => intro r; simp [lenBefore]
  | cons a ms ih =>
    intro r
    cases r with
    | zero => simp
    | succ r => simp only [lenBefore, List.length_cons]; have := ih r; omega

theorem lenBefore_mono (ms : List (List MOp)) : ∀ r r', r ≤ r' → lenBefore ms r ≤ lenBefore ms r' := by
  induction ms with
  | nil => intro r r' _; simp [lenBefore]
  | cons a ms ih =>
    intro r r' h
    cases r with
    | zero => simp
    | succ r =>
      cases r' with
      | zero => omega
      | succ r' => simp only [lenBefore]; have := ih r r' (by omega); omega

theorem lenBefore_succ (ms : List (List MOp)) : ∀ r os, ms[r]? = some os → lenBefore ms (r + 1) = lenBefore ms r + os.length := by
  induction ms with
  | nil => intro r os h; simp at h
  | cons a ms ih =>
    intro r os h
    cases r with
    | zero => simp at h; subst h; simp [lenBefore]
    | succ r =>
      simp at h
      simp only [lenBefore]
      rw [ih r os h]; omega

/-- the `j`-th op of routine `r` sits at `lenBefore ms r + j`, tagged with `r` -/
theorem flatFrom_get (ms : List (List MOp)) : ∀ k r os j o, ms[r]? = some os → os[j]? = some o →
    (flatFrom k ms)[lenBefore ms r + j]? = some ⟨k + r, o⟩ := by
  induction ms with
  | nil => intro k r os j o h; simp at h
  | cons a ms ih =>
    intro k r os j o h hj
    cases r with
    | zero =>
      simp at h; subst h
      have hlt : j < a.length := by
        rcases Nat.lt_or_ge j a.length with h | h
        · exact h
        · rw [List.getElem?_eq_none h] at hj; cases hj
      simp only [flatFrom, lenBefore_zero, Nat.zero_add, Nat.add_zero]
      rw [List.getElem?_append_left (by simpa [tagOps] using hlt)]
      simp [tagOps, hj]
    | succ r =>
      simp at h
      simp only [flatFrom, lenBefore]
      rw [List.getElem?_append_right (by simp [tagOps]; omega)]
      have : a.length + lenBefore ms r + j - (tagOps k a).length = lenBefore ms r + j := by simp [tagOps]; omega
      rw [this, ih (k + 1) r os j o h hj]
      congr 2; omega

/-- ops before `lenBefore ms r` belong to routines before `r` … -/
theorem flatFrom_rtn_lt (ms : List (List MOp)) : ∀ k r j x, (flatFrom k ms)[j]? = some x → j < lenBefore ms r →
    x.rtn < k + r := by
  induction ms with
  | nil => intro k r j x h; simp [flatFrom] at h
  | cons a ms ih =>
    intro k r j x h hj
    cases r with
    | zero => simp at hj
    | succ r =>
      simp only [lenBefore] at hj
      simp only [flatFrom] at h
      rcases Nat.lt_or_ge j a.length with hl | hl
      · rw [List.getElem?_append_left (by simpa [tagOps] using hl)] at h
        simp only [tagOps, List.getElem?_map, Option.map_eq_some_iff] at h
        obtain ⟨o, _, rfl⟩ := h
        simp
      · rw [List.getElem?_append_right (by simpa [tagOps] using hl)] at h
        have := ih (k + 1) r _ x h (by simp [tagOps]; omega)
        omega

/-- … and ops from `lenBefore ms r` on to routines from `r` on -/
theorem flatFrom_rtn_ge (ms : List (List MOp)) : ∀ k r j x, (flatFrom k ms)[j]? = some x → lenBefore ms r ≤ j →
    r ≤ ms.length → k + r ≤ x.rtn := by
  induction ms with
  | nil =>
    intro k r j x h; simp [flatFrom] at h
  | cons a ms ih =>
    intro k r j x h hj hr
    cases r with
    | zero =>
      simp only [flatFrom] at h
      rcases Nat.lt_or_ge j a.length with hl | hl
      · rw [List.getElem?_append_left (by simpa [tagOps] using hl)] at h
        simp only [tagOps, List.getElem?_map, Option.map_eq_some_iff] at h
        obtain ⟨o, _, rfl⟩ := h
        simp
      · rw [List.getElem?_append_right (by simpa [tagOps] using hl)] at h
        have := ih (k + 1) 0 _ x h (by simp) (by omega)
        omega
    | succ r =>
      simp only [lenBefore] at hj
      simp only [flatFrom] at h
      rw [List.getElem?_append_right (by simp [tagOps]; omega)] at h
      have := ih (k + 1) r _ x h (by simp [tagOps]; omega) (by simpa using hr)
      omega

/-! ### what the remover produces -/

def cntOps : List LItem → Nat
  | [] => 0
  | .label _ _ :: r => cntOps r
  | _ :: r => cntOps r + 1

def isLabel : LItem → Bool
  | .label _ _ => true
  | _ => false

/-- the op the remover makes of an item -/
def itemOp (d : List (Nat × Nat)) : LItem → Option Op
  | .op o => some o
  | .ljump root (some l) =>
    match Dict.get? d l with
    | some t => some ⟨root.offset, root.name, root.params ++ [.int t]⟩
    | none => none
  | _ => none

@[simp] theorem cntOps_nil : cntOps [] = 0 := rfl

theorem cntOps_append (a b : List LItem) : cntOps (a ++ b) = cntOps a + cntOps b := by
  induction a with
  | nil => simp
  | cons x r ih => cases x <;> simp [cntOps, ih] <;> omega

theorem cntOps_take_le (its : List LItem) (i : Nat) : cntOps (its.take i) ≤ cntOps its := by
  have := cntOps_append (its.take i) (its.drop i)
  rw [List.take_append_drop] at this
  omega

theorem cntOps_take_succ (its : List LItem) (i : Nat) (x : LItem) (h : its[i]? = some x) :
    cntOps (its.take (i + 1)) = cntOps (its.take i) + (if isLabel x then 0 else 1) := by
  induction its generalizing i with
  | nil => simp at h
  | cons y r ih =>
    cases i with
    | zero =>
      simp at h; subst h
      cases y <;> simp [cntOps, isLabel]
    | succ i =>
      simp at h
      have := ih i h
      cases y <;> simp [cntOps, List.take_succ_cons] <;> omega

theorem removeItems_get (d : List (Nat × Nat)) (its : List LItem) : ∀ os, removeItems d its = .ok os →
    os.length = cntOps its ∧
    ∀ i x, its[i]? = some x → isLabel x = false → ∃ o, itemOp d x = some o ∧ os[cntOps (its.take i)]? = some o := by
  induction its with
  | nil => intro os h; simp [removeItems] at h; subst h; simp
  | cons y r ih =>
    intro os h
    cases y with
    | label id nm =>
      simp only [removeItems] at h
      obtain ⟨h1, h2⟩ := ih os h
      refine ⟨by simp [cntOps, h1], fun i x hi hx => ?_⟩
      cases i with
      | zero => simp at hi; subst hi; simp [isLabel] at hx
      | succ i =>
        simp at hi
        simpa [cntOps] using h2 i x hi hx
    | op o =>
      simp only [removeItems] at h
      split at h
      · simp at h
      · rename_i os' hos
        simp only [Except.ok.injEq] at h
        subst h
        obtain ⟨h1, h2⟩ := ih os' hos
        refine ⟨by simp [cntOps, h1], fun i x hi hx => ?_⟩
        cases i with
        | zero => simp at hi; subst hi; exact ⟨o, rfl, by simp⟩
        | succ i =>
          simp at hi
          obtain ⟨o', e1, e2⟩ := h2 i x hi hx
          exact ⟨o', e1, by simpa [cntOps] using e2⟩
    | ljump root l =>
      cases l with
      | none => simp [removeItems] at h
      | some l =>
        simp only [removeItems] at h
        split at h
        · simp at h
        · rename_i t ht
          split at h
          · simp at h
          · rename_i os' hos
            simp only [Except.ok.injEq] at h
            subst h
            obtain ⟨h1, h2⟩ := ih os' hos
            refine ⟨by simp [cntOps, h1], fun i x hi hx => ?_⟩
            cases i with
            | zero =>
              simp at hi; subst hi
              exact ⟨⟨root.offset, root.name, root.params ++ [.int t]⟩, by simp [itemOp, ht], by simp⟩
            | succ i =>
              simp at hi
              obtain ⟨o', e1, e2⟩ := h2 i x hi hx
              exact ⟨o', e1, by simpa [cntOps] using e2⟩

theorem mapE_get {α β : Type} {f : α → Except Err β} : ∀ (l : List α) (out : List β), mapE f l = .ok out →
    ∀ (r : Nat) a, l[r]? = some a → ∃ b, out[r]? = some b ∧ f a = .ok b := by
  intro l
  induction l with
  | nil => intro out _ r a h; simp at h
  | cons x xs ih =>
    intro out h r a hr
    obtain ⟨b, bs, h1, h2, h3⟩ := mapE_ok_cons h
    subst h3
    cases r with
    | zero => simp at hr; subst hr; exact ⟨b, by simp, h1⟩
    | succ r => simp at hr; simpa using ih bs h2 r a hr

end ESV.Comp
