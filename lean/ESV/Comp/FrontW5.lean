import ESV.Comp.FrontW4
/-
`frontend_wfl`, part 5: if / elseif / else.
-/
namespace ESV.Comp
open ESV ESV.Beh

/-! ### headers -/

theorem collectHdr_w {h : Hdr} {pos : Bool} {s : St} {b : BP} {s' : St} (hh : collectHdr h pos s = .ok (b, s')) :
    SameL s s' ∧ b.name = h.name := by
  unfold collectHdr at hh
  split at hh
  · simp only [bind_ok, tickOp_ok] at hh
    obtain ⟨n, s1, h1, h2⟩ := hh
    simp only [Prod.mk.injEq] at h1
    obtain ⟨rfl, rfl⟩ := h1
    split at h2
    · simp only [pure_ok, Prod.mk.injEq] at h2
      obtain ⟨rfl, rfl⟩ := h2
      exact ⟨sameL_tickedOp _ _, rfl⟩
    · simp [fail_ok] at h2
  · simp only [pure_ok, Prod.mk.injEq] at hh
    obtain ⟨rfl, rfl⟩ := hh
    exact ⟨SameL.refl _, rfl⟩

def HdrsOK (hs : List Hdr) : Prop := ∀ h ∈ hs, isTest h.name = true

theorem bp_ok_of_name {b : BP} {n : String} (h : b.name = n) (ht : isTest n = true) : (isJump b.name || isTest b.name) = true := by
  rw [h, ht]; simp

theorem collectIfHdrs_w (pos : Bool) : ∀ (hs : List Hdr) (s : St) (bps : List BP) (s' : St), HdrsOK hs →
    collectIfHdrs pos hs s = .ok (bps, s') → SameL s s' ∧ BPsOK bps := by
  intro hs
  induction hs with
  | nil =>
    intro s bps s' _ h
    simp only [collectIfHdrs, pure_ok, Prod.mk.injEq] at h
    obtain ⟨rfl, rfl⟩ := h
    exact ⟨SameL.refl _, fun b hb => by simp at hb⟩
  | cons x r ih =>
    intro s bps s' hok h
    simp only [collectIfHdrs, bind_ok, allocate_ok, pure_ok] at h
    obtain ⟨b, s1, h1, n, s2, h2, bs, s3, h3, h4⟩ := h
    simp only [Prod.mk.injEq] at h2 h4
    obtain ⟨rfl, rfl⟩ := h2
    obtain ⟨rfl, rfl⟩ := h4
    obtain ⟨e1, nm⟩ := collectHdr_w h1
    obtain ⟨e3, ok3⟩ := ih _ _ _ (fun y hy => hok y (List.mem_cons_of_mem _ hy)) h3
    refine ⟨(e1.trans (sameL_tickedOp _ _)).trans e3, fun b' hb' => ?_⟩
    simp only [List.mem_cons] at hb'
    rcases hb' with rfl | hb'
    · exact bp_ok_of_name (by simpa [BP.withNumber] using nm) (hok x (by simp))
    · exact ok3 b' hb'

theorem collectHdrs_w (pos : Bool) : ∀ (hs : List Hdr) (s : St) (bps : List BP) (s' : St), HdrsOK hs →
    collectHdrs pos hs s = .ok (bps, s') → SameL s s' ∧ BPsOK bps := by
  intro hs
  induction hs with
  | nil =>
    intro s bps s' _ h
    simp only [collectHdrs, pure_ok, Prod.mk.injEq] at h
    obtain ⟨rfl, rfl⟩ := h
    exact ⟨SameL.refl _, fun b hb => by simp at hb⟩
  | cons x r ih =>
    intro s bps s' hok h
    simp only [collectHdrs, bind_ok, pure_ok] at h
    obtain ⟨b, s1, h1, bs, s3, h3, h4⟩ := h
    simp only [Prod.mk.injEq] at h4
    obtain ⟨rfl, rfl⟩ := h4
    obtain ⟨e1, nm⟩ := collectHdr_w h1
    obtain ⟨e3, ok3⟩ := ih _ _ _ (fun y hy => hok y (List.mem_cons_of_mem _ hy)) h3
    refine ⟨e1.trans e3, fun b' hb' => ?_⟩
    simp only [List.mem_cons] at hb'
    rcases hb' with rfl | hb'
    · exact bp_ok_of_name nm (hok x (by simp))
    · exact ok3 b' hb'

theorem allocateAll_w : ∀ (bs : List BP) (s : St) (bps : List BP) (s' : St), BPsOK bs →
    allocateAll bs s = .ok (bps, s') → SameL s s' ∧ BPsOK bps := by
  intro bs
  induction bs with
  | nil =>
    intro s bps s' _ h
    simp only [allocateAll, pure_ok, Prod.mk.injEq] at h
    obtain ⟨rfl, rfl⟩ := h
    exact ⟨SameL.refl _, fun b hb => by simp at hb⟩
  | cons x r ih =>
    intro s bps s' hok h
    simp only [allocateAll, bind_ok, allocate_ok, pure_ok] at h
    obtain ⟨n, s1, h1, bs', s2, h2, h3⟩ := h
    simp only [Prod.mk.injEq] at h1 h3
    obtain ⟨rfl, rfl⟩ := h1
    obtain ⟨rfl, rfl⟩ := h3
    obtain ⟨e2, ok2⟩ := ih _ _ _ (fun y hy => hok y (List.mem_cons_of_mem _ hy)) h2
    refine ⟨(sameL_tickedOp _ _).trans e2, fun b' hb' => ?_⟩
    simp only [List.mem_cons] at hb'
    rcases hb' with rfl | hb'
    · simpa [BP.withNumber] using hok x (by simp)
    · exact ok2 b' hb'

/-! ### `patchNone` -/

theorem intId_patchItem (e : Nat) (x : LItem) : (patchItem e x).intId = x.intId := by
  cases x with
  | ljump r t =>
    cases t with
    | some l => rfl
    | none => simp only [patchItem]; split <;> rfl
  | _ => rfl

theorem usrId_patchItem (e : Nat) (x : LItem) : (patchItem e x).usrId = x.usrId := by
  cases x with
  | ljump r t =>
    cases t with
    | some l => rfl
    | none => simp only [patchItem]; split <;> rfl
  | _ => rfl

theorem intIds_patchNone (e : Nat) (l : List LItem) : intIds (patchNone e l) = intIds l := by
  induction l with
  | nil => rfl
  | cons x r ih =>
    simp only [patchNone, List.map_cons, intIds, List.filterMap_cons, intId_patchItem] at ih ⊢
    rw [ih]

theorem usrIds_patchNone (e : Nat) (l : List LItem) : usrIds (patchNone e l) = usrIds l := by
  induction l with
  | nil => rfl
  | cons x r ih =>
    simp only [patchNone, List.map_cons, usrIds, List.filterMap_cons, usrId_patchItem] at ih ⊢
    rw [ih]

theorem rootOK_patchItem (e : Nat) (x : LItem) : rootOK (patchItem e x) = rootOK x := by
  cases x with
  | ljump r t =>
    cases t with
    | some l => rfl
    | none => simp only [patchItem]; split <;> rfl
  | _ => rfl

theorem isCtxL_patchItem (e : Nat) (x : LItem) : isCtxL (patchItem e x) = isCtxL x := by
  cases x with
  | ljump r t =>
    cases t with
    | some l => rfl
    | none => simp only [patchItem]; split <;> rfl
  | _ => rfl

theorem afterCtxS_patchItem (e : Nat) (x : LItem) : afterCtxS (patchItem e x) = afterCtxS x := by
  cases x with
  | ljump r t =>
    cases t with
    | some l => rfl
    | none => simp only [patchItem]; split <;> rfl
  | _ => rfl

theorem ctxOKs_patchNone (e : Nat) : ∀ (l : List LItem), ctxOKs (patchNone e l) = ctxOKs l
  | [] => rfl
  | [_] => rfl
  | x :: y :: r => by
    have ih := ctxOKs_patchNone e (y :: r)
    simp only [patchNone, List.map_cons] at ih ⊢
    simp only [ctxOKs, isCtxL_patchItem, afterCtxS_patchItem, ih]

theorem ctxP_patchNone (e : Nat) (l : List LItem) (h : CtxP l) : CtxP (patchNone e l) := by
  refine ⟨by rw [ctxOKs_patchNone]; exact h.1, ?_⟩
  have := h.2
  simp only [lastNotCtx, patchNone, List.getLast?_map] at this ⊢
  cases hl : l.getLast? with
  | none => simp
  | some x => rw [hl] at this; simpa [isCtxL_patchItem] using this

theorem W.patch {c : LCtx} {r : List Nat} {d : List String} {s s' : St} {x : List LItem} (e : Nat) (h : W c r d s x s') :
    W c r d s (patchNone e x) s' :=
  ⟨h.ok, h.ext, by rw [intIds_patchNone]; exact h.lab, by rw [intIds_patchNone]; exact h.fresh,
   by rw [usrIds_patchNone]; exact h.usr, fun z hz => by
     simp only [patchNone, List.mem_map] at hz
     obtain ⟨y, hy, rfl⟩ := hz
     rw [rootOK_patchItem]; exact h.root y hy, ctxP_patchNone e x h.ctx⟩

/-! ### elseifs -/

def earlyItems : List ElifA → List LItem
  | [] => []
  | a :: r => (match a.early with
    | some b => b.items
    | none => []) ++ earlyItems r

structure WFaW (a : ElifA) : Prop where
  bps : BPsOK a.bps
  neg_early : a.neg = true → ∃ b, a.early = some b ∧ JumpsOK b.hdrs ∧ CtxP b.items ∧ ∀ z ∈ b.items, rootOK z = true
  pos_early : a.neg = false → a.early = none

theorem elifAOf_w {c : LCtx} {r : List Nat} {d : List String} (neg : Bool) (hdrs : List Hdr) (hh : HdrsOK hdrs)
    {body : M (List LItem)} (hm : WM c r d body) {s : St} {a : ElifA} {s' : St} (hs : StOK c s)
    (h : elifAOf neg hdrs body s = .ok (a, s')) :
    W c (if neg then r else []) (if neg then d else []) s (earlyItems [a]) s' ∧ WFaW a ∧ a.neg = neg := by
  simp only [elifAOf, bind_ok, pure_ok] at h
  obtain ⟨bps0, s1, h1, bps, s2, h2, e, s3, h3, h4⟩ := h
  simp only [Prod.mk.injEq] at h4
  obtain ⟨rfl, rfl⟩ := h4
  obtain ⟨e1, ok1⟩ := collectHdrs_w _ _ _ _ _ hh h1
  obtain ⟨e2, ok2⟩ := allocateAll_w _ _ _ _ ok1 h2
  have e12 := e1.trans e2
  unfold earlyBlock at h3
  cases neg with
  | true =>
    simp only [↓reduceIte, bind_ok, pure_ok] at h3
    obtain ⟨b, s4, h5, h6⟩ := h3
    simp only [Prod.mk.injEq] at h6
    obtain ⟨rfl, rfl⟩ := h6
    obtain ⟨wb, jb⟩ := blockOf_w hm ok2 (e12.ok hs) h5
    refine ⟨by simpa [earlyItems] using wb.sameLft e12, ⟨ok2, fun _ => ⟨b, rfl, jb, wb.ctx, wb.root⟩, fun hc => (by cases hc)⟩, rfl⟩
  | false =>
    simp only [Bool.false_eq_true, ↓reduceIte, pure_ok, Prod.mk.injEq] at h3
    obtain ⟨rfl, rfl⟩ := h3
    refine ⟨by simpa [earlyItems] using (W.nil (e12.ok hs)).sameLft e12, ⟨ok2, fun hc => (by cases hc), fun _ => rfl⟩, rfl⟩

/-- steps 2 and 5 of `IfBlock.collect` over the elseif handlers -/
def EAS (negs : List Bool) (c : LCtx) (rA : List Nat) (dA : List String) (elifsA : M (List ElifA)) : Prop :=
  ∀ s as s', StOK c s → elifsA s = .ok (as, s') → as.map (·.neg) = negs ∧ W c rA dA s (earlyItems as) s' ∧ ∀ a ∈ as, WFaW a

def EBS (negs : List Bool) (c : LCtx) (rB : List Nat) (dB : List String) (elifsB : List ElifA → M (List Blk)) : Prop :=
  ∀ as, as.map (·.neg) = negs → (∀ a ∈ as, WFaW a) → ∀ s late s', StOK c s → elifsB as s = .ok (late, s') →
    W c rB dB s (elifsBack as late) s' ∧
    (∀ n, (intIds (elifsFront as late)).count n = (intIds (earlyItems as)).count n) ∧
    (∀ n, (usrIds (elifsFront as late)).count n = (usrIds (earlyItems as)).count n) ∧
    (∀ z ∈ elifsFront as late, rootOK z = true) ∧ CtxP (elifsFront as late)

/-- one elseif in step 5 -/
theorem elifBOf_w {c : LCtx} {r : List Nat} {d : List String} {a : ElifA} (wf : WFaW a) {body : M (List LItem)}
    (hm : WM c r d body) {s : St} {b : Blk} {s' : St} (hs : StOK c s) (h : elifBOf a body s = .ok (b, s')) :
    W c (if a.neg then [] else r) (if a.neg then [] else d) s (if a.neg then [] else b.items) s' ∧
    JumpsOK b.hdrs ∧ (a.neg = true → a.early = some b) ∧ CtxP b.items ∧ ∀ z ∈ b.items, rootOK z = true := by
  unfold elifBOf lateBlock at h
  cases hneg : a.neg with
  | true =>
    obtain ⟨b0, he, j0, c0, r0⟩ := wf.neg_early hneg
    rw [he] at h
    simp only [pure_ok, Prod.mk.injEq] at h
    obtain ⟨rfl, rfl⟩ := h
    exact ⟨by simpa using W.nil hs, j0, fun _ => he, c0, r0⟩
  | false =>
    have he := wf.pos_early hneg
    rw [he] at h
    obtain ⟨wb, jb⟩ := blockOf_w hm wf.bps hs h
    exact ⟨by simpa using wb, jb, fun hc => (by cases hc), wb.ctx, wb.root⟩

end ESV.Comp
