import ESV.Gen.Tables
import ESV.Base.Dict
/-
SSB data types shared by all models (explorerscript/ssb_converting/ssb_data_types.py):
parameters, operations, routine infos, routine sets; the jump table lookup.
Values are opaque (equality is what matters); the literal layer (printing/parsing of a parameter) is C04.
-/
namespace ESV

/-- `SsbOpParam`: `int | SsbOpParamFixedPoint(value) | SsbOpParamConstant(name) | SsbOpParamConstString(name) |
SsbOpParamLanguageString(strings: dict, insertion ordered) | SsbOpParamPositionMarker(name, x_offset, y_offset, x_relative, y_relative)` -/
inductive Param where
  | int (i : Int)
  | fixed (value : String)
  | const (name : String)
  | constString (s : String)
  | langString (strings : List (String × String))
  | posMark (name : String) (xOff yOff xRel yRel : Int)
deriving DecidableEq, Repr

/-- `SsbOperation(offset, SsbOpCode(-1, name), params)`; the numeric opcode id is not used by any converter -/
structure Op where
  offset : Int
  name : String
  params : List Param
deriving DecidableEq, Repr

/-- `SsbRoutineType` -/
inductive RoutineKind where
  | generic | actor | object | performer | coroutine | invalid
deriving DecidableEq, Repr

/-- `SsbRoutineInfo(type, linked_to, linked_to_name)` -/
structure RoutineInfo where
  kind : RoutineKind
  linkedTo : Int
  linkedToName : Option String
deriving DecidableEq, Repr

/-- What a decompiler receives / a compiler returns: `routine_infos`, `routine_ops` and the coroutine names
(per routine index; `none` where the id → name table has no entry). -/
structure RoutineSet where
  infos : List RoutineInfo
  ops : List (List Op)
  coros : List (Option String)
deriving DecidableEq, Repr

/-- all ops in file order -/
def RoutineSet.flat (x : RoutineSet) : List Op := x.ops.flatten

/-- all op offsets in file order -/
def RoutineSet.offsets (x : RoutineSet) : List Int := x.flat.map (·.offset)

/-- `OPS_WITH_JUMP_TO_MEM_OFFSET.get(name)`: index of the parameter that holds the jump offset -/
def jumpIdx (name : String) : Option Nat := Dict.get? Gen.opsWithJump name

/-- exception classes the converters can raise -/
inductive Err where
  | valueError
  | indexError
  | assertionError
  | typeError
  | ssbCompilerError
  | parseError
  | gap          -- not an exception: a compiled routine list with an unassigned (None) routine info
deriving DecidableEq, Repr

def Err.name : Err → String
  | .valueError => "ValueError"
  | .indexError => "IndexError"
  | .assertionError => "AssertionError"
  | .typeError => "TypeError"
  | .ssbCompilerError => "SsbCompilerError"
  | .parseError => "ParseError"
  | .gap => "Gap"

instance {ε α : Type} [DecidableEq ε] [DecidableEq α] : DecidableEq (Except ε α)
  | .ok a, .ok b => if h : a = b then isTrue (by rw [h]) else isFalse (by intro e; cases e; exact h rfl)
  | .error a, .error b => if h : a = b then isTrue (by rw [h]) else isFalse (by intro e; cases e; exact h rfl)
  | .ok _, .error _ => isFalse (by intro e; cases e)
  | .error _, .ok _ => isFalse (by intro e; cases e)

end ESV
