/-
Decimal printing / reading of naturals and integers on `List Char`, with the round-trip theorem.
These are the model of Python's `str(int)` / `int(str)` on canonical decimal spellings
(correspondence: harness channel `dec`).
-/
namespace ESV

def digitChar (d : Nat) : Char := Char.ofNat (48 + d)

def showNat (n : Nat) : List Char :=
  if n < 10 then [digitChar n] else showNat (n / 10) ++ [digitChar (n % 10)]
decreasing_by omega

def isDigit (c : Char) : Bool := 48 ≤ c.toNat && c.toNat ≤ 57

def readStep (acc : Option Nat) (c : Char) : Option Nat :=
  match acc with
  | none => none
  | some a => if isDigit c then some (a * 10 + (c.toNat - 48)) else none

/-- all characters decimal digits, at least one; value in base 10 (leading zeros accepted, like Python `int`) -/
def readNat (cs : List Char) : Option Nat :=
  if cs.isEmpty then none else cs.foldl readStep (some 0)

def showInt (i : Int) : List Char :=
  match i with
  | .ofNat n => showNat n
  | .negSucc n => '-' :: showNat (n + 1)

def readInt (cs : List Char) : Option Int :=
  match cs with
  | '-' :: rest => (readNat rest).map (fun n => - (Int.ofNat n))
  | _ => (readNat cs).map Int.ofNat

theorem digitChar_toNat (d : Nat) (h : d < 10) : (digitChar d).toNat = 48 + d := by
  unfold digitChar
  have : (48 + d).isValidChar := by
    left; omega
  simp [Char.ofNat, this, Char.toNat, Char.ofNatAux]
  omega

theorem isDigit_digitChar (d : Nat) (h : d < 10) : isDigit (digitChar d) = true := by
  simp [isDigit, digitChar_toNat d h]; omega

theorem showNat_ne_nil (n : Nat) : showNat n ≠ [] := by
  unfold showNat; split <;> simp

theorem foldl_readStep_showNat (n : Nat) : (showNat n).foldl readStep (some 0) = some n := by
  induction n using Nat.strongRecOn with
  | ind n ih =>
    unfold showNat
    split
    · rename_i h
      simp [readStep, isDigit_digitChar n h, digitChar_toNat n h]
    · rename_i h
      rw [List.foldl_append, ih (n / 10) (by omega)]
      have hd : n % 10 < 10 := Nat.mod_lt _ (by decide)
      simp [readStep, isDigit_digitChar _ hd, digitChar_toNat _ hd]
      omega

theorem readNat_showNat (n : Nat) : readNat (showNat n) = some n := by
  unfold readNat
  have := showNat_ne_nil n
  cases h : showNat n with
  | nil => exact absurd h this
  | cons a as =>
    have := foldl_readStep_showNat n
    rw [h] at this
    simpa using this

theorem showNat_head_ne_minus (n : Nat) : ∀ c rest, showNat n = c :: rest → c ≠ '-' := by
  induction n using Nat.strongRecOn with
  | ind n ih =>
    intro c rest h
    unfold showNat at h
    split at h
    · rename_i hn
      simp at h
      obtain ⟨rfl, _⟩ := h
      intro hc
      have := digitChar_toNat n hn
      rw [hc] at this
      simp at this
      omega
    · rename_i hn
      cases h2 : showNat (n / 10) with
      | nil => exact absurd h2 (showNat_ne_nil _)
      | cons a as =>
        rw [h2] at h; simp at h
        exact h.1 ▸ ih (n / 10) (by omega) a as h2

theorem readInt_showInt (i : Int) : readInt (showInt i) = some i := by
  cases i with
  | ofNat n =>
    simp only [showInt]
    cases h : showNat n with
    | nil => exact absurd h (showNat_ne_nil n)
    | cons c rest =>
      have hc := showNat_head_ne_minus n c rest h
      unfold readInt
      split
      · rename_i heq; simp at heq; exact absurd heq.1 hc
      · rw [← h, readNat_showNat]; rfl
  | negSucc n =>
    simp only [showInt, readInt, readNat_showNat]
    simp [Int.negSucc_eq]

end ESV
