/-
Association lists with the semantics of a Python `dict`: insertion order, assignment to an existing
key keeps its position and replaces the value.
-/
namespace ESV

abbrev Dict (α β : Type) := List (α × β)

namespace Dict
variable {α β : Type} [DecidableEq α]

def get? (d : Dict α β) (k : α) : Option β :=
  match d with
  | [] => none
  | (k', v) :: rest => if k' = k then some v else get? rest k

def has (d : Dict α β) (k : α) : Bool := (get? d k).isSome

/-- `d[k] = v` -/
def set (d : Dict α β) (k : α) (v : β) : Dict α β :=
  match d with
  | [] => [(k, v)]
  | (k', v') :: rest => if k' = k then (k', v) :: rest else (k', v') :: set rest k v

/-- `{k: v for k, v in items}` -/
def ofItems (items : List (α × β)) : Dict α β := items.foldl (fun d kv => set d kv.1 kv.2) []

def keys (d : Dict α β) : List α := d.map (·.1)

theorem get?_set_self (d : Dict α β) (k : α) (v : β) : get? (set d k v) k = some v := by
  induction d with
  | nil => simp [set, get?]
  | cons hd tl ih =>
    obtain ⟨k', v'⟩ := hd
    unfold set
    split
    · rename_i h; simp [get?, h]
    · rename_i h; simp [get?, h, ih]

theorem get?_set_other (d : Dict α β) (k k2 : α) (v : β) (h : k ≠ k2) :
    get? (set d k v) k2 = get? d k2 := by
  induction d with
  | nil => simp [set, get?, h]
  | cons hd tl ih =>
    obtain ⟨k', v'⟩ := hd
    unfold set
    split
    · rename_i h1; subst h1; simp [get?, h]
    · rename_i h1; simp only [get?, ih]

theorem set_not_mem (d : Dict α β) (k : α) (v : β) (h : k ∉ keys d) : set d k v = d ++ [(k, v)] := by
  induction d with
  | nil => simp [set]
  | cons hd tl ih =>
    obtain ⟨k', v'⟩ := hd
    simp [keys] at h
    have h1 : ¬ (k' = k) := fun e => h.1 e.symm
    have h2 : k ∉ keys tl := by simpa [keys] using h.2
    simp [set, h1, ih h2]

theorem foldl_set_nodup (acc items : List (α × β)) (h : (keys (acc ++ items)).Nodup) :
    items.foldl (fun d kv => set d kv.1 kv.2) acc = acc ++ items := by
  induction items generalizing acc with
  | nil => simp
  | cons hd tl ih =>
    simp only [List.foldl_cons]
    have hnot : hd.1 ∉ keys acc := by
      simp only [keys, List.map_append, List.map_cons] at h
      rw [List.nodup_append] at h
      intro hm
      exact h.2.2 _ hm _ (List.mem_cons_self) rfl
    rw [set_not_mem acc hd.1 hd.2 hnot]
    have : (keys ((acc ++ [(hd.1, hd.2)]) ++ tl)).Nodup := by
      simpa [keys] using h
    rw [ih _ this]; simp

theorem ofItems_nodup (items : List (α × β)) (h : (keys items).Nodup) : ofItems items = items := by
  unfold ofItems
  have := foldl_set_nodup ([] : List (α × β)) items (by simpa using h)
  simpa using this

theorem get?_eq_some_of_mem (d : Dict α β) (h : (keys d).Nodup) (k : α) (v : β) (hm : (k, v) ∈ d) :
    get? d k = some v := by
  induction d with
  | nil => cases hm
  | cons hd tl ih =>
    obtain ⟨k', v'⟩ := hd
    simp [keys] at h
    cases hm with
    | head => simp [get?]
    | tail _ hm' =>
      have : k' ≠ k := by
        intro e; subst e
        exact h.1 v hm'
      simp [get?, this]
      exact ih (by simpa [keys] using h.2) hm'

theorem mem_of_get? (d : Dict α β) (k : α) (v : β) (h : get? d k = some v) : (k, v) ∈ d := by
  induction d with
  | nil => simp [get?] at h
  | cons hd tl ih =>
    obtain ⟨k', v'⟩ := hd
    unfold get? at h
    split at h
    · rename_i e; subst e; simp at h; subst h; exact List.mem_cons_self
    · exact List.mem_cons_of_mem _ (ih h)

end Dict
end ESV
