import ESV.Gen.Tables
/-
Model of the Pygments highlighting lexer of ExplorerScript (explorerscript/pygments/expslexer.py) on `List Char`.

 * `preprocess`  — `pygments.lexer.Lexer._preprocess_lexer_input` for `str` input (pygments 2.21), statement by
                   statement, with the option values the lexer instance really has (`ESV.Gen.pygOpt*`).
 * `matchRegex`  — one hand-written matcher per regex source string that may occur in the rule table; Python `re`
                   semantics (`re.compile(rx, flags).match(text, pos)`): the result is the length of the match at the
                   start of the remaining input.  No rule of the table uses anchors, look-behind or a `\b` *prefix*, so
                   a match does not depend on the text before `pos` (checked by the regex unit channel of the harness
                   at positions > 0).  An unknown regex string has no matcher (`none`).
 * `lexFuel`/`lexRaw` — `RegexLexer.get_tokens_unprocessed`: state stack starting at ['root'], rules of the top state
                   tried in order, first match wins, state transition, no-match branch ('\n' resets the stack and is
                   emitted as Whitespace, any other character is emitted as an Error token).
 * `getTokens`   — `Lexer.get_tokens` = `lexRaw ∘ preprocess` (no filters).

The rule table is NOT copied here: it is `ESV.Gen.pygRulesC` (regenerated from /repo on every run).
Strings are sequences of Unicode scalar values (`Char`); lone surrogates, which Python `str` can hold, are outside the model.
-/
namespace ESV.Pyg

abbrev Str := List Char

structure Tok where
  ty : Str
  text : Str
deriving DecidableEq, Repr

def concat (toks : List Tok) : Str := (toks.map Tok.text).flatten

/-! ## Lexer.get_tokens preprocessing -/

/-- `if text.startswith('\ufeff'): text = text[len('\ufeff'):]` -/
def bom : Char := Char.ofNat 0xFEFF

def stripBom : Str → Str
  | c :: r => if c = bom then r else c :: r
  | [] => []

/-- `text.replace('\r\n', '\n')` (left to right, non-overlapping) -/
def replCRLF : Str → Str
  | [] => []
  | [c] => [c]
  | c :: d :: r => if c = '\r' ∧ d = '\n' then '\n' :: replCRLF r else c :: replCRLF (d :: r)

/-- `text.replace('\r', '\n')` -/
def replCR (t : Str) : Str := t.map fun c => if c = '\r' then '\n' else c

def lstripNl (t : Str) : Str := t.dropWhile (· == '\n')
def rstripNl (t : Str) : Str := (lstripNl t.reverse).reverse

/-- `text.strip('\n')` -/
def stripNl (t : Str) : Str := rstripNl (lstripNl t)

def endsWithNl (t : Str) : Bool := t.getLast? == some '\n'

/-- `if self.ensurenl and not text.endswith('\n'): text += '\n'` -/
def ensureNl (t : Str) : Str := if endsWithNl t then t else t ++ ['\n']

/-- Options of `Lexer.__init__` that `_preprocess_lexer_input` reads. `stripall` (Unicode `str.strip()`) and
`tabsize > 0` (`expandtabs`) are not modelled: `optsKnown` demands they are off. -/
structure Opts where
  stripnl : Bool
  stripall : Bool
  ensurenl : Bool
  tabsize : Nat
  filters : Nat
deriving DecidableEq, Repr

def Opts.known (o : Opts) : Bool := !o.stripall && o.tabsize == 0 && o.filters == 0

def preprocessWith (o : Opts) (t : Str) : Str :=
  let t := stripBom t
  let t := replCRLF t
  let t := replCR t
  let t := if o.stripnl then stripNl t else t
  if o.ensurenl then ensureNl t else t

/-- the options of `ExplorerScriptLexer()` (regenerated) -/
def opts : Opts :=
  ⟨Gen.pygOptStripnl, Gen.pygOptStripall, Gen.pygOptEnsurenl, Gen.pygOptTabsize, Gen.pygOptFilters⟩

def preprocess (t : Str) : Str := preprocessWith opts t

/-! ## Character classes -/

def inRanges (n : Nat) : List (Nat × Nat) → Bool
  | [] => false
  | (a, b) :: r => (a ≤ n && n ≤ b) || inRanges n r

/-- Python `re` `\w` on str patterns (Unicode alphanumerics and '_'); table generated from the running `re` module -/
def isWord (c : Char) : Bool := inRanges c.toNat Gen.pyReWordRanges
/-- Python `re` `\d` on str patterns (Unicode category Nd) -/
def isDigit (c : Char) : Bool := inRanges c.toNat Gen.pyReDigitRanges

def between (a b c : Char) : Bool := a.toNat ≤ c.toNat && c.toNat ≤ b.toNat
/-- `[a-zA-Z_]` -/
def isIdStart (c : Char) : Bool := between 'a' 'z' c || between 'A' 'Z' c || c == '_'
/-- `[0-9a-zA-Z_]` -/
def isIdChar (c : Char) : Bool := between '0' '9' c || isIdStart c
/-- `[0-7]` -/
def isOct (c : Char) : Bool := between '0' '7' c
/-- `[01]` -/
def isBin (c : Char) : Bool := c == '0' || c == '1'
/-- `[a-fA-F0-9]` -/
def isHex (c : Char) : Bool := between 'a' 'f' c || between 'A' 'F' c || between '0' '9' c
/-- `.`: any character under DOTALL, else any character but '\n' -/
def isDot (dotall : Bool) (c : Char) : Bool := dotall || c != '\n'

/-! ## Matchers -/

/-- length of the match at the start of the remaining text, `none` = no match -/
abbrev Matcher := Str → Option Nat

/-- length of the longest prefix whose characters satisfy `p` (a greedy `[class]*` with nothing after it) -/
def spanLen (p : Char → Bool) : Str → Nat
  | [] => 0
  | c :: r => if p c then spanLen p r + 1 else 0

/-- literal string -/
def mLit (s : Str) : Matcher := fun t => if s.isPrefixOf t then some s.length else none

/-- `.*?stop`: shortest run of `.` characters followed by the literal `stop`; result includes `stop` -/
def lazyUntil (dotall : Bool) (stop : Str) : Str → Option Nat
  | [] => if stop.isPrefixOf [] then some stop.length else none
  | c :: r =>
    if stop.isPrefixOf (c :: r) then some stop.length
    else if isDot dotall c then (lazyUntil dotall stop r).map (· + 1) else none

/-- `open.*?stop` -/
def mDelim (dotall : Bool) (opn stop : Str) : Matcher := fun t =>
  if opn.isPrefixOf t then (lazyUntil dotall stop (t.drop opn.length)).map (· + opn.length) else none

/-- `[a-zA-Z_][0-9a-zA-Z_]*` -/
def mIdent : Matcher
  | c :: r => if isIdStart c then some (spanLen isIdChar r + 1) else none
  | [] => none

/-- `X[a-zA-Z_][0-9a-zA-Z_]*` for a literal character X -/
def mSigil (x : Char) : Matcher
  | c :: r => if c = x then (mIdent r).map (· + 1) else none
  | [] => none

/-- `.5` — any character followed by '5' -/
def mAny5 (dotall : Bool) : Matcher
  | c :: d :: _ => if isDot dotall c ∧ d = '5' then some 2 else none
  | _ => none

/-- `[class]+` greedy, nothing after it -/
def mPlus (p : Char → Bool) : Matcher := fun t =>
  let n := spanLen p t
  if n = 0 then none else some n

/-- `0[0-7]+j?` -/
def mOct : Matcher
  | c :: r =>
    if c = '0' then
      let n := spanLen isOct r
      if n = 0 then none
      else some (1 + n + (if (r.drop n).head? = some 'j' then 1 else 0))
    else none
  | [] => none

/-- `0[xX][class]+` -/
def mRadix (second : Char → Bool) (p : Char → Bool) : Matcher
  | c :: d :: r => if c = '0' ∧ second d then (mPlus p r).map (· + 2) else none
  | _ => none

/-- `.` -/
def mDot (dotall : Bool) : Matcher
  | c :: _ => if isDot dotall c then some 1 else none
  | [] => none

/-- `words(kws, suffix=r"\b")`: Pygments compiles this with `regex_opt` into an optimised alternation followed by
`\b`.  When every keyword is a non-empty string of ASCII word characters (demanded by `parseWords`) at most one
keyword can match at a position (the keyword must be followed by a non-word character or the end, so it is the
whole maximal run of word characters), hence the order of alternatives chosen by `regex_opt` is irrelevant. -/
def mWords (kws : List Str) : Matcher := fun t =>
  match kws.find? (fun k => !k.isEmpty && k.isPrefixOf t && !((t.drop k.length).head?.any isWord)) with
  | some k => some k.length
  | none => none

def splitOnC (sep : Char) : Str → List Str
  | [] => [[]]
  | c :: r =>
    if c = sep then [] :: splitOnC sep r
    else match splitOnC sep r with
      | [] => [[c]]
      | h :: tl => (c :: h) :: tl

/-- decode "words:<prefix>|<suffix>|w1,w2,…" (harness/gen_tables.py); only prefix "" and suffix `\b` with ASCII
word-character keywords are known -/
def parseWords (rx : Str) : Option (List Str) :=
  if ['w', 'o', 'r', 'd', 's', ':'].isPrefixOf rx then
    match splitOnC '|' (rx.drop 6) with
    | [pre, suf, ws] =>
      let kws := splitOnC ',' ws
      if pre = [] ∧ suf = ['\\', 'b'] ∧ kws.all (fun k => !k.isEmpty && k.all isIdChar) then some kws else none
    | _ => none
  else none

/-- the regex source strings that have a matcher -/
def identTail : Str :=   -- [a-zA-Z_][0-9a-zA-Z_]*
  ['[', 'a', '-', 'z', 'A', '-', 'Z', '_', ']', '[', '0', '-', '9', 'a', '-', 'z', 'A', '-', 'Z', '_', ']', '*']

def knownRx (dotall : Bool) : List (Str × Matcher) := [
  (['/', '\\', '*', '.', '*', '?', '\\', '*', '/'], mDelim dotall ['/', '*'] ['*', '/']),          -- /\*.*?\*/
  (['/', '/', '.', '*', '?', '\\', 'n'], mDelim dotall ['/', '/'] ['\n']),                          -- //.*?\n
  ('\\' :: '$' :: identTail, mSigil '$'),                                                         -- \$[a-zA-Z_][0-9a-zA-Z_]*
  ('§' :: identTail, mSigil '§'),                                                                 -- §[a-zA-Z_][0-9a-zA-Z_]*
  ('@' :: identTail, mSigil '@'),                                                                 -- @[a-zA-Z_][0-9a-zA-Z_]*
  (identTail, mIdent),                                                                            -- [a-zA-Z_][0-9a-zA-Z_]*
  (['.', '5'], mAny5 dotall),                                                                     -- .5
  (['0', '[', '0', '-', '7', ']', '+', 'j', '?'], mOct),                                          -- 0[0-7]+j?
  (['0', '[', 'b', 'B', ']', '[', '0', '1', ']', '+'], mRadix (fun d => d == 'b' || d == 'B') isBin),   -- 0[bB][01]+
  (['0', '[', 'x', 'X', ']', '[', 'a', '-', 'f', 'A', '-', 'F', '0', '-', '9', ']', '+'],
     mRadix (fun d => d == 'x' || d == 'X') isHex),                                               -- 0[xX][a-fA-F0-9]+
  (['\\', 'd', '+'], mPlus isDigit),                                                              -- \d+
  (['"', '"', '"'], mLit ['"', '"', '"']),                                                        -- """
  (['\'', '\'', '\''], mLit ['\'', '\'', '\'']),                                                  -- '''
  (['"'], mLit ['"']),                                                                            -- "
  (['\''], mLit ['\'']),                                                                          -- '
  (['[', '^', '"', ']', '+'], mPlus (· != '"')),                                                  -- [^"]+
  (['[', '^', '\'', ']', '+'], mPlus (· != '\'')),                                                -- [^']+
  (['.'], mDot dotall)]                                                                           -- .

def lookupRx : List (Str × Matcher) → Str → Option Matcher
  | [], _ => none
  | (s, m) :: r, rx => if s = rx then some m else lookupRx r rx

/-- re flags: MULTILINE = 8 (only changes `^`/`$`, which no known regex uses), DOTALL = 16, UNICODE = 32 (default
for str patterns). Any other flag (IGNORECASE, VERBOSE, ASCII, …) changes the meaning of the known regexes. -/
def flagsKnown (flags : Nat) : Bool := flags &&& 7 == 0 && flags >>> 6 == 0
def dotallOf (flags : Nat) : Bool := flags &&& 16 != 0

def matchRegex (flags : Nat) (rx : Str) : Option Matcher :=
  if flagsKnown flags then
    match parseWords rx with
    | some kws => some (mWords kws)
    | none => lookupRx (knownRx (dotallOf flags)) rx
  else none

/-! ## RegexLexer.get_tokens_unprocessed -/

abbrev SrcRule := Str × Str × Str
abbrev SrcTable := List (Str × List SrcRule)

/-- processed `new_state` (`RegexLexerMeta._process_new_state`): absent, `'#pop'` (→ -1), or a state name (→ `(name,)`) -/
inductive Act where
  | stay
  | pop
  | push (s : Str)
deriving DecidableEq, Repr

structure CRule where
  m : Matcher
  ty : Str
  act : Act

abbrev CTable := List (Str × List CRule)

def root : Str := ['r', 'o', 'o', 't']
def popAct : Str := ['#', 'p', 'o', 'p']

/-- other action forms ('#push', '#pop:n', tuples, combined) are not modelled: unknown -/
def parseAct (states : List Str) (a : Str) : Option Act :=
  if a = [] then some .stay
  else if a = popAct then some .pop
  else if states.contains a then some (.push a)
  else none

def compileRule (flags : Nat) (states : List Str) (r : SrcRule) : Option CRule :=
  match matchRegex flags r.1, parseAct states r.2.2 with
  | some m, some a => some ⟨m, r.2.1, a⟩
  | _, _ => none

def compileRules (flags : Nat) (states : List Str) : List SrcRule → Option (List CRule)
  | [] => some []
  | r :: rs =>
    match compileRule flags states r, compileRules flags states rs with
    | some c, some cs => some (c :: cs)
    | _, _ => none

def compileStates (flags : Nat) (states : List Str) : SrcTable → Option CTable
  | [] => some []
  | (s, rs) :: tl =>
    match compileRules flags states rs, compileStates flags states tl with
    | some c, some cs => some ((s, c) :: cs)
    | _, _ => none

/-- the metaclass' `process_tokendef`: every regex compiled, every new state resolved; `none` if some regex or
action is unknown to the model or there is no 'root' state -/
def compile (flags : Nat) (tbl : SrcTable) : Option CTable :=
  let states := tbl.map (·.1)
  if states.contains root then compileStates flags states tbl else none

def lookupState : CTable → Str → Option (List CRule)
  | [], _ => none
  | (s, rs) :: tl, x => if s = x then some rs else lookupState tl x

/-- `for rexmatch, action, new_state in statetokens: m = rexmatch(text, pos); if m: …; break` -/
def firstMatch : List CRule → Str → Option (Nat × Str × Act)
  | [], _ => none
  | r :: rs, t =>
    match r.m t with
    | some n => some (n, r.ty, r.act)
    | none => firstMatch rs t

/-- state transition; the stack is a list with the top first. `'#pop'` is processed to -1:
`if abs(-1) >= len(statestack): del statestack[1:]` (no-op for a one-element stack) `else: del statestack[-1:]` -/
def applyAct (stack : List Str) : Act → List Str
  | .stay => stack
  | .pop => match stack with
    | _ :: b :: r => b :: r
    | s => s
  | .push s => s :: stack

/-- The loop of `get_tokens_unprocessed`, one iteration per unit of fuel.  `none` = the model gives no answer:
fuel exhausted, a state missing from the table (KeyError), or a rule matched the EMPTY string — the real engine
then emits an empty token and does not advance, which loops forever unless the state changes; that situation is
not modelled, `lex_total` proves it cannot arise with the rule table of the repository. -/
def lexFuel (ct : CTable) (tyErr tyNl : Str) : Nat → List Str → Str → Option (List Tok)
  | 0, _, _ => none
  | fuel + 1, stack, rest =>
    match stack with
    | [] => none
    | top :: below =>
      match lookupState ct top with
      | none => none
      | some rules =>
        match firstMatch rules rest with
        | some (n, ty, act) =>
          if 0 < n then
            (lexFuel ct tyErr tyNl fuel (applyAct (top :: below) act) (rest.drop n)).map (⟨ty, rest.take n⟩ :: ·)
          else none
        | none =>
          match rest with
          | [] => some []                                            -- text[pos] raises IndexError: break
          | c :: r =>
            if c = '\n' then (lexFuel ct tyErr tyNl fuel [root] r).map (⟨tyNl, ['\n']⟩ :: ·)
            else (lexFuel ct tyErr tyNl fuel (top :: below) r).map (⟨tyErr, [c]⟩ :: ·)

/-- `get_tokens_unprocessed(text)` for an arbitrary rule table -/
def lexWith (flags : Nat) (tbl : SrcTable) (tyErr tyNl : Str) (t : Str) : Option (List Tok) :=
  match compile flags tbl with
  | none => none
  | some ct => lexFuel ct tyErr tyNl (t.length + 1) [root] t

/-- `ExplorerScriptLexer().get_tokens_unprocessed(text)` without the index component -/
def lexRaw (t : Str) : Option (List Tok) :=
  lexWith Gen.pygFlags Gen.pygRulesC Gen.pygTyError Gen.pygTyNewline t

/-- `ExplorerScriptLexer().get_tokens(text)` -/
def getTokens (t : Str) : Option (List Tok) := lexRaw (preprocess t)

/-! ## Specification predicates -/

def endsWith2Nl (t : Str) : Bool :=
  match t.reverse with
  | '\n' :: '\n' :: _ => true
  | _ => false

/-- the texts on which `Lexer.get_tokens`' preprocessing changes nothing but (possibly) appending one newline:
the text is "\n", or it has no leading U+FEFF, no '\r', no leading '\n' and does not end with two newlines -/
def Clean (t : Str) : Bool :=
  t == ['\n'] || (t.head? != some bom && !t.contains '\r' && t.head? != some '\n' && !endsWith2Nl t)

/-- match length of a rule's regex at position `pos` of `text` (unit channel of the correspondence check) -/
def matchAt (flags : Nat) (rx : Str) (text : Str) (pos : Nat) : Option (Option Nat) :=
  (matchRegex flags rx).map fun m => m (text.drop pos)

end ESV.Pyg
