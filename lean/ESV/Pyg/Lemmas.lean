import ESV.Pyg.Model
/-
Lemmas about the Pygments lexer model: every known matcher returns a non-empty match inside the remaining text,
facts about the compiled rule table, the lexer loop (concatenation, totality, absence of Error tokens) and the
preprocessing of `Lexer.get_tokens`.
-/
namespace ESV.Pyg

/-! ## Matchers: non-empty and within the remaining text -/

/-- a match is never empty and never longer than the remaining text -/
def Bounded (m : Matcher) : Prop := ∀ t n, m t = some n → 0 < n ∧ n ≤ t.length

theorem spanLen_le (p : Char → Bool) (t : Str) : spanLen p t ≤ t.length := by
  induction t with
  | nil => simp [spanLen]
  | cons c r ih => simp only [spanLen]; split <;> simp <;> omega

theorem isPrefixOf_length {s t : Str} (h : s.isPrefixOf t = true) : s.length ≤ t.length :=
  (List.isPrefixOf_iff_prefix.mp h).length_le

theorem mLit_bounded (s : Str) (hs : s ≠ []) : Bounded (mLit s) := by
  intro t n h
  simp only [mLit] at h
  split at h
  · rename_i hp
    have := isPrefixOf_length hp
    have : 0 < s.length := List.length_pos_iff.mpr hs
    simp at h; omega
  · simp at h

theorem lazyUntil_le (d : Bool) (stop : Str) (t : Str) (n : Nat) (h : lazyUntil d stop t = some n) :
    n ≤ t.length := by
  induction t generalizing n with
  | nil =>
    simp only [lazyUntil] at h
    split at h
    · rename_i hp
      have := isPrefixOf_length hp
      simp only [Option.some.injEq] at h
      omega
    · simp at h
  | cons c r ih =>
    simp only [lazyUntil] at h
    split at h
    · rename_i hp
      have := isPrefixOf_length hp
      simp at h; omega
    · split at h
      · cases hr : lazyUntil d stop r with
        | none => simp [hr] at h
        | some k =>
          have := ih k hr
          simp [hr] at h
          simp; omega
      · simp at h

theorem mDelim_bounded (d : Bool) (opn stop : Str) (ho : opn ≠ []) : Bounded (mDelim d opn stop) := by
  intro t n h
  simp only [mDelim] at h
  split at h
  · rename_i hp
    have hl := isPrefixOf_length hp
    have : 0 < opn.length := List.length_pos_iff.mpr ho
    cases hr : lazyUntil d stop (t.drop opn.length) with
    | none => simp [hr] at h
    | some k =>
      have := lazyUntil_le d stop _ k hr
      simp [hr] at h
      simp at this
      omega
  · simp at h

theorem mIdent_bounded : Bounded mIdent := by
  intro t n h
  cases t with
  | nil => simp [mIdent] at h
  | cons c r =>
    simp only [mIdent] at h
    split at h
    · have := spanLen_le isIdChar r
      simp at h; simp; omega
    · simp at h

theorem mSigil_bounded (x : Char) : Bounded (mSigil x) := by
  intro t n h
  cases t with
  | nil => simp [mSigil] at h
  | cons c r =>
    simp only [mSigil] at h
    split at h
    · cases hr : mIdent r with
      | none => simp [hr] at h
      | some k =>
        have := mIdent_bounded r k hr
        simp [hr] at h
        simp; omega
    · simp at h

theorem mAny5_bounded (d : Bool) : Bounded (mAny5 d) := by
  intro t n h
  match t, h with
  | c :: e :: r, h =>
    simp only [mAny5] at h
    split at h
    · simp at h; simp; omega
    · simp at h
  | [], h => simp [mAny5] at h
  | [_], h => simp [mAny5] at h

theorem mPlus_bounded (p : Char → Bool) : Bounded (mPlus p) := by
  intro t n h
  simp only [mPlus] at h
  have := spanLen_le p t
  split at h
  · simp at h
  · simp at h; omega

theorem mOct_bounded : Bounded mOct := by
  intro t n h
  cases t with
  | nil => simp [mOct] at h
  | cons c r =>
    simp only [mOct] at h
    split at h
    · split at h
      · simp at h
      · have hs := spanLen_le isOct r
        simp only [Option.some.injEq] at h
        split at h
        · rename_i hj
          have : 0 < (r.drop (spanLen isOct r)).length := by
            cases hd : r.drop (spanLen isOct r) with
            | nil => simp [hd] at hj
            | cons _ _ => simp
          simp at this
          simp; omega
        · simp; omega
    · simp at h

theorem mRadix_bounded (s p : Char → Bool) : Bounded (mRadix s p) := by
  intro t n h
  match t, h with
  | c :: e :: r, h =>
    simp only [mRadix] at h
    split at h
    · cases hr : mPlus p r with
      | none => simp [hr] at h
      | some k =>
        have := mPlus_bounded p r k hr
        simp [hr] at h
        simp; omega
    · simp at h
  | [], h => simp [mRadix] at h
  | [_], h => simp [mRadix] at h

theorem mDot_bounded (d : Bool) : Bounded (mDot d) := by
  intro t n h
  cases t with
  | nil => simp [mDot] at h
  | cons c r =>
    simp only [mDot] at h
    split at h
    · simp at h; simp; omega
    · simp at h

theorem mWords_bounded (kws : List Str) : Bounded (mWords kws) := by
  intro t n h
  simp only [mWords] at h
  split at h
  · rename_i k hk
    have hp := List.find?_some hk
    simp only [Bool.and_eq_true, Bool.not_eq_true', List.isEmpty_eq_false_iff] at hp
    have hl := isPrefixOf_length hp.1.2
    have : 0 < k.length := List.length_pos_iff.mpr hp.1.1
    simp at h; omega
  · simp at h

theorem knownRx_bounded (d : Bool) : ∀ p ∈ knownRx d, Bounded p.2 := by
  intro p hp
  simp only [knownRx, List.mem_cons, List.mem_nil_iff, or_false] at hp
  rcases hp with rfl | rfl | rfl | rfl | rfl | rfl | rfl | rfl | rfl | rfl | rfl | rfl | rfl | rfl | rfl | rfl | rfl | rfl
  · exact mDelim_bounded _ _ _ (by simp)
  · exact mDelim_bounded _ _ _ (by simp)
  · exact mSigil_bounded _
  · exact mSigil_bounded _
  · exact mSigil_bounded _
  · exact mIdent_bounded
  · exact mAny5_bounded _
  · exact mOct_bounded
  · exact mRadix_bounded _ _
  · exact mRadix_bounded _ _
  · exact mPlus_bounded _
  · exact mLit_bounded _ (by simp)
  · exact mLit_bounded _ (by simp)
  · exact mLit_bounded _ (by simp)
  · exact mLit_bounded _ (by simp)
  · exact mPlus_bounded _
  · exact mPlus_bounded _
  · exact mDot_bounded _

theorem lookupRx_mem (l : List (Str × Matcher)) (rx : Str) (m : Matcher) (h : lookupRx l rx = some m) :
    ∃ s, (s, m) ∈ l := by
  induction l with
  | nil => simp [lookupRx] at h
  | cons p r ih =>
    obtain ⟨s, m'⟩ := p
    simp only [lookupRx] at h
    split at h
    · simp at h; subst h; exact ⟨s, by simp⟩
    · obtain ⟨s', hs'⟩ := ih h
      exact ⟨s', by simp [hs']⟩

/-- every regex the model knows matches at least one character, inside the remaining text -/
theorem matchRegex_bounded (flags : Nat) (rx : Str) (m : Matcher) (h : matchRegex flags rx = some m) : Bounded m := by
  simp only [matchRegex] at h
  split at h
  · split at h
    · simp at h; subst h; exact mWords_bounded _
    · obtain ⟨s, hs⟩ := lookupRx_mem _ _ _ h
      exact knownRx_bounded _ _ hs
  · simp at h

theorem matchRegex_flags (flags : Nat) (rx : Str) (m : Matcher) (h : matchRegex flags rx = some m) :
    flagsKnown flags = true := by
  simp only [matchRegex] at h
  split at h
  · assumption
  · simp at h

/-! ## The compiled table -/

def states (ct : CTable) : List Str := ct.map (·.1)

/-- a compiled rule never matches the empty string and pushes only existing states -/
def RuleOk (sts : List Str) (c : CRule) : Prop := Bounded c.m ∧ ∀ s, c.act = .push s → s ∈ sts

theorem parseAct_push (sts : List Str) (a s : Str) (h : parseAct sts a = some (.push s)) :
    s = a ∧ a ∈ sts ∧ a ≠ [] ∧ a ≠ popAct := by
  simp only [parseAct] at h
  split at h
  · simp at h
  · split at h
    · simp at h
    · split at h
      · rename_i h1 h2 h3
        simp at h
        exact ⟨h.symm, by simpa using h3, h1, h2⟩
      · simp at h

theorem compileRule_some (flags : Nat) (sts : List Str) (r : SrcRule) (c : CRule)
    (h : compileRule flags sts r = some c) :
    matchRegex flags r.1 = some c.m ∧ parseAct sts r.2.2 = some c.act ∧ c.ty = r.2.1 := by
  simp only [compileRule] at h
  split at h
  · rename_i m a hm ha
    simp at h; subst h
    exact ⟨hm, ha, rfl⟩
  · simp at h

theorem compileRule_ok (flags : Nat) (sts : List Str) (r : SrcRule) (c : CRule)
    (h : compileRule flags sts r = some c) : RuleOk sts c := by
  obtain ⟨hm, ha, _⟩ := compileRule_some flags sts r c h
  refine ⟨matchRegex_bounded _ _ _ hm, ?_⟩
  intro s hs
  rw [hs] at ha
  obtain ⟨h1, h2, _, _⟩ := parseAct_push _ _ _ ha
  rw [h1]; exact h2

/-- compiled rules correspond one to one, in order, to source rules -/
theorem compileRules_mem (flags : Nat) (sts : List Str) (rs : List SrcRule) (cs : List CRule)
    (h : compileRules flags sts rs = some cs) :
    (∀ c ∈ cs, ∃ r ∈ rs, compileRule flags sts r = some c) ∧
    (∀ r ∈ rs, ∃ c ∈ cs, compileRule flags sts r = some c) := by
  induction rs generalizing cs with
  | nil => simp [compileRules] at h; subst h; simp
  | cons r rs ih =>
    simp only [compileRules] at h
    split at h
    · rename_i c cs' hc hcs
      simp at h; subst h
      obtain ⟨ih1, ih2⟩ := ih cs' hcs
      constructor
      · intro c' hc'
        rcases List.mem_cons.mp hc' with rfl | hc'
        · exact ⟨r, by simp, hc⟩
        · obtain ⟨r', hr', h'⟩ := ih1 c' hc'
          exact ⟨r', by simp [hr'], h'⟩
      · intro r' hr'
        rcases List.mem_cons.mp hr' with rfl | hr'
        · exact ⟨c, by simp, hc⟩
        · obtain ⟨c', hc', h'⟩ := ih2 r' hr'
          exact ⟨c', by simp [hc'], h'⟩
    · simp at h

def lookupSrc : SrcTable → Str → Option (List SrcRule)
  | [], _ => none
  | (s, rs) :: tl, x => if s = x then some rs else lookupSrc tl x

theorem compileStates_lookup (flags : Nat) (sts : List Str) (tbl : SrcTable) (ct : CTable)
    (h : compileStates flags sts tbl = some ct) :
    states ct = tbl.map (·.1) ∧
    ∀ s cs, lookupState ct s = some cs → ∃ rs, lookupSrc tbl s = some rs ∧ compileRules flags sts rs = some cs := by
  induction tbl generalizing ct with
  | nil => simp [compileStates] at h; subst h; simp [states, lookupState]
  | cons e tl ih =>
    obtain ⟨s0, rs0⟩ := e
    simp only [compileStates] at h
    split at h
    · rename_i c cs' hc hcs
      simp at h; subst h
      obtain ⟨ih1, ih2⟩ := ih cs' hcs
      constructor
      · simp only [states] at ih1 ⊢; simp [ih1]
      · intro s cs hl
        simp only [lookupState] at hl
        simp only [lookupSrc]
        split at hl
        · rename_i heq
          simp at hl; subst hl
          simp [heq, hc]
        · rename_i hne
          simp only [hne, if_false]
          exact ih2 s cs hl
    · simp at h

theorem lookupState_isSome (ct : CTable) (s : Str) (h : s ∈ states ct) : ∃ cs, lookupState ct s = some cs := by
  induction ct with
  | nil => simp [states] at h
  | cons e tl ih =>
    obtain ⟨s0, cs0⟩ := e
    simp only [lookupState]
    split
    · exact ⟨cs0, rfl⟩
    · rename_i hne
      apply ih
      simp only [states, List.map_cons, List.mem_cons] at h
      rcases h with h | h
      · exact absurd h.symm hne
      · exact h

theorem lookupSrc_mem (tbl : SrcTable) (s : Str) (rs : List SrcRule) (h : lookupSrc tbl s = some rs) :
    (s, rs) ∈ tbl := by
  induction tbl with
  | nil => simp [lookupSrc] at h
  | cons e tl ih =>
    obtain ⟨s0, rs0⟩ := e
    simp only [lookupSrc] at h
    split at h
    · rename_i heq
      simp at h; subst h; subst heq; simp
    · simp [ih h]

/-- what `compile` guarantees -/
structure CTOk (ct : CTable) : Prop where
  root_mem : root ∈ states ct
  rules_ok : ∀ s cs, lookupState ct s = some cs → ∀ c ∈ cs, RuleOk (states ct) c

theorem compile_some (flags : Nat) (tbl : SrcTable) (ct : CTable) (h : compile flags tbl = some ct) :
    root ∈ tbl.map (·.1) ∧ compileStates flags (tbl.map (·.1)) tbl = some ct := by
  simp only [compile] at h
  split at h
  · rename_i hr
    exact ⟨by simpa using hr, h⟩
  · simp at h

theorem compile_ok (flags : Nat) (tbl : SrcTable) (ct : CTable) (h : compile flags tbl = some ct) : CTOk ct := by
  obtain ⟨hr, hc⟩ := compile_some flags tbl ct h
  obtain ⟨h1, h2⟩ := compileStates_lookup _ _ _ _ hc
  constructor
  · rw [h1]; exact hr
  · intro s cs hl c hcm
    obtain ⟨rs, _, hrs⟩ := h2 s cs hl
    obtain ⟨r, _, hr'⟩ := (compileRules_mem _ _ _ _ hrs).1 c hcm
    rw [h1]
    exact compileRule_ok _ _ _ _ hr'

/-! ## The lexer loop -/

theorem firstMatch_some (rules : List CRule) (t : Str) (n : Nat) (ty : Str) (act : Act)
    (h : firstMatch rules t = some (n, ty, act)) : ∃ c ∈ rules, c.m t = some n ∧ c.ty = ty ∧ c.act = act := by
  induction rules with
  | nil => simp [firstMatch] at h
  | cons c cs ih =>
    simp only [firstMatch] at h
    split at h
    · rename_i k hk
      simp at h
      exact ⟨c, by simp, by rw [hk, h.1], h.2.1, h.2.2⟩
    · obtain ⟨c', hc', h'⟩ := ih h
      exact ⟨c', by simp [hc'], h'⟩

theorem firstMatch_isSome (rules : List CRule) (t : Str) (c : CRule) (hc : c ∈ rules) (n : Nat)
    (hm : c.m t = some n) : ∃ res, firstMatch rules t = some res := by
  induction rules with
  | nil => simp at hc
  | cons c0 cs ih =>
    simp only [firstMatch]
    cases h0 : c0.m t with
    | some k => exact ⟨_, rfl⟩
    | none =>
      simp only
      rcases List.mem_cons.mp hc with rfl | hc
      · rw [hm] at h0; simp at h0
      · exact ih hc

/-- the concatenation of the emitted token texts is the text that was lexed — for ANY rule table -/
theorem lexFuel_concat (ct : CTable) (e w : Str) (fuel : Nat) (stack : List Str) (rest : Str) (toks : List Tok)
    (h : lexFuel ct e w fuel stack rest = some toks) : concat toks = rest := by
  induction fuel generalizing stack rest toks with
  | zero => simp [lexFuel] at h
  | succ fuel ih =>
    simp only [lexFuel] at h
    split at h
    · simp at h
    · split at h
      · simp at h
      · split at h
        · split at h
          · rename_i n ty act _ hn
            simp only [Option.map_eq_some_iff] at h
            obtain ⟨tl, hr, rfl⟩ := h
            have := ih _ _ _ hr
            simp only [concat] at this ⊢
            simp [this]
          · simp at h
        · split at h
          · simp at h; subst h; simp [concat]
          · split at h
            · rename_i hc
              simp only [Option.map_eq_some_iff] at h
              obtain ⟨tl, hr, rfl⟩ := h
              have := ih _ _ _ hr
              simp only [concat] at this ⊢
              simp [this, hc]
            · simp only [Option.map_eq_some_iff] at h
              obtain ⟨tl, hr, rfl⟩ := h
              have := ih _ _ _ hr
              simp only [concat] at this ⊢
              simp [this]

theorem applyAct_inv (sts : List Str) (stack : List Str) (act : Act) (hne : stack ≠ [])
    (hs : ∀ s ∈ stack, s ∈ sts) (ha : ∀ s, act = .push s → s ∈ sts) :
    applyAct stack act ≠ [] ∧ ∀ s ∈ applyAct stack act, s ∈ sts := by
  cases act with
  | stay => exact ⟨hne, hs⟩
  | push s =>
    simp only [applyAct]
    refine ⟨by simp, ?_⟩
    intro x hx
    rcases List.mem_cons.mp hx with rfl | hx
    · exact ha _ rfl
    · exact hs _ hx
  | pop =>
    match stack, hne, hs with
    | [a], _, hs => exact ⟨by simp [applyAct], by simpa [applyAct] using hs⟩
    | a :: b :: r, _, hs =>
      simp only [applyAct]
      refine ⟨by simp, ?_⟩
      intro x hx
      exact hs x (by simp [List.mem_cons.mp hx])

/-- with a compiled table (all regexes known, all states resolved) the loop always produces a token list, given fuel
exceeding the remaining length: no empty match, no missing state -/
theorem lexFuel_total (ct : CTable) (hct : CTOk ct) (e w : Str) (fuel : Nat) (stack : List Str) (rest : Str)
    (hne : stack ≠ []) (hs : ∀ s ∈ stack, s ∈ states ct) (hf : rest.length < fuel) :
    ∃ toks, lexFuel ct e w fuel stack rest = some toks := by
  induction fuel generalizing stack rest with
  | zero => omega
  | succ fuel ih =>
    match stack, hne, hs with
    | top :: below, _, hs =>
      obtain ⟨rules, hl⟩ := lookupState_isSome ct top (hs top (by simp))
      simp only [lexFuel, hl]
      cases hfm : firstMatch rules rest with
      | some res =>
        obtain ⟨n, ty, act⟩ := res
        obtain ⟨c, hc, hm, _, hact⟩ := firstMatch_some _ _ _ _ _ hfm
        obtain ⟨hb, hp⟩ := hct.rules_ok top rules hl c hc
        obtain ⟨hpos, hle⟩ := hb rest n hm
        simp only [hpos, if_true]
        obtain ⟨h1, h2⟩ := applyAct_inv (states ct) (top :: below) act (by simp) hs (by rw [← hact]; exact hp)
        obtain ⟨tl, htl⟩ := ih (applyAct (top :: below) act) (rest.drop n) h1 h2 (by simp; omega)
        exact ⟨_, by rw [htl]; rfl⟩
      | none =>
        simp only
        cases rest with
        | nil => exact ⟨[], rfl⟩
        | cons c r =>
          simp only
          split
          · obtain ⟨tl, htl⟩ := ih [root] r (by simp) (by intro s hs'; simp at hs'; rw [hs']; exact hct.root_mem) (by simp at hf; omega)
            exact ⟨_, by rw [htl]; rfl⟩
          · obtain ⟨tl, htl⟩ := ih (top :: below) r (by simp) hs (by simp at hf; omega)
            exact ⟨_, by rw [htl]; rfl⟩

/-! ## No Error token: every state that can be on the stack has a rule for every character -/

def hasRx (rs : List SrcRule) (rx : Str) : Bool := rs.any (fun r => r.1 == rx)

def rxDot : Str := ['.']
def rxNotDq : Str := ['[', '^', '"', ']', '+']
def rxDq : Str := ['"']
def rxNotSq : Str := ['[', '^', '\'', ']', '+']
def rxSq : Str := ['\'']

/-- syntactic sufficient condition for "some rule matches at every non-final position": the catch-all `.` under
DOTALL, or a negated one-character class together with that character as a literal -/
def coversSrc (dotall : Bool) (rs : List SrcRule) : Bool :=
  (dotall && hasRx rs rxDot) || (hasRx rs rxNotDq && hasRx rs rxDq) || (hasRx rs rxNotSq && hasRx rs rxSq)

def pushTargets (tbl : SrcTable) : List Str :=
  tbl.flatMap fun e => e.2.filterMap fun r => if r.2.2 = [] ∨ r.2.2 = popAct then none else some r.2.2

/-- table lemma for `lex_no_error`: 'root' and every state that some rule pushes cover all characters, and no
rule itself emits the Error token type -/
def coverOk (flags : Nat) (tbl : SrcTable) (tyErr : Str) : Bool :=
  (root :: pushTargets tbl).all (fun s =>
    match lookupSrc tbl s with
    | some rs => coversSrc (dotallOf flags) rs
    | none => false) &&
  tbl.all (fun e => e.2.all (fun r => r.2.1 != tyErr))

theorem matchRegex_lookup (flags : Nat) (rx : Str) (m m0 : Matcher) (hw : parseWords rx = none)
    (hl : lookupRx (knownRx (dotallOf flags)) rx = some m0)
    (h : matchRegex flags rx = some m) : m = m0 := by
  simp only [matchRegex] at h
  split at h
  · rw [hw] at h
    simp only at h
    rw [hl] at h
    simpa using h.symm
  · simp at h

theorem matchRegex_dot (flags : Nat) (m : Matcher) (h : matchRegex flags rxDot = some m) :
    m = mDot (dotallOf flags) :=
  matchRegex_lookup flags rxDot m _ (by decide) (by rfl) h

theorem matchRegex_notDq (flags : Nat) (m : Matcher) (h : matchRegex flags rxNotDq = some m) :
    m = mPlus (· != '"') :=
  matchRegex_lookup flags rxNotDq m _ (by decide) (by rfl) h

theorem matchRegex_dq (flags : Nat) (m : Matcher) (h : matchRegex flags rxDq = some m) : m = mLit ['"'] :=
  matchRegex_lookup flags rxDq m _ (by decide) (by rfl) h

theorem matchRegex_notSq (flags : Nat) (m : Matcher) (h : matchRegex flags rxNotSq = some m) :
    m = mPlus (· != '\'') :=
  matchRegex_lookup flags rxNotSq m _ (by decide) (by rfl) h

theorem matchRegex_sq (flags : Nat) (m : Matcher) (h : matchRegex flags rxSq = some m) : m = mLit ['\''] :=
  matchRegex_lookup flags rxSq m _ (by decide) (by rfl) h

theorem hasRx_compiled (flags : Nat) (sts : List Str) (rs : List SrcRule) (cs : List CRule) (rx : Str)
    (hc : compileRules flags sts rs = some cs) (h : hasRx rs rx = true) :
    ∃ c ∈ cs, matchRegex flags rx = some c.m := by
  simp only [hasRx, List.any_eq_true, beq_iff_eq] at h
  obtain ⟨r, hr, rfl⟩ := h
  obtain ⟨c, hcm, hcr⟩ := (compileRules_mem _ _ _ _ hc).2 r hr
  exact ⟨c, hcm, (compileRule_some _ _ _ _ hcr).1⟩

theorem mPlus_ne_head (x c : Char) (r : Str) (h : c ≠ x) : ∃ n, mPlus (· != x) (c :: r) = some n := by
  simp only [mPlus, spanLen]
  simp [h]

/-- one-character class and its complement: whatever the next character is, one of the two rules matches -/
theorem covers_pair (cs : List CRule) (x : Char) (c1 c2 : CRule) (h1 : c1 ∈ cs) (h2 : c2 ∈ cs)
    (hm1 : c1.m = mPlus (· != x)) (hm2 : c2.m = mLit [x]) (c : Char) (r : Str) :
    ∃ res, firstMatch cs (c :: r) = some res := by
  by_cases hx : c = x
  · subst hx
    exact firstMatch_isSome cs _ c2 h2 1 (by rw [hm2]; simp [mLit, List.isPrefixOf])
  · obtain ⟨n, hn⟩ := mPlus_ne_head x c r hx
    exact firstMatch_isSome cs _ c1 h1 n (by rw [hm1]; exact hn)

theorem coversSrc_sound (flags : Nat) (sts : List Str) (rs : List SrcRule) (cs : List CRule)
    (hc : compileRules flags sts rs = some cs) (h : coversSrc (dotallOf flags) rs = true) (c : Char) (r : Str) :
    ∃ res, firstMatch cs (c :: r) = some res := by
  simp only [coversSrc, Bool.or_eq_true, Bool.and_eq_true] at h
  rcases h with (⟨hd, h1⟩ | ⟨h1, h2⟩) | ⟨h1, h2⟩
  · obtain ⟨c1, hm, hx⟩ := hasRx_compiled _ _ _ _ _ hc h1
    have := matchRegex_dot _ _ hx
    exact firstMatch_isSome cs _ c1 hm 1 (by rw [this, hd]; simp [mDot, isDot])
  · obtain ⟨c1, hm1, hx1⟩ := hasRx_compiled _ _ _ _ _ hc h1
    obtain ⟨c2, hm2, hx2⟩ := hasRx_compiled _ _ _ _ _ hc h2
    exact covers_pair cs '"' c1 c2 hm1 hm2 (matchRegex_notDq _ _ hx1) (matchRegex_dq _ _ hx2) c r
  · obtain ⟨c1, hm1, hx1⟩ := hasRx_compiled _ _ _ _ _ hc h1
    obtain ⟨c2, hm2, hx2⟩ := hasRx_compiled _ _ _ _ _ hc h2
    exact covers_pair cs '\'' c1 c2 hm1 hm2 (matchRegex_notSq _ _ hx1) (matchRegex_sq _ _ hx2) c r

/-- invariant used by `lexFuel_no_error`: a set of states closed under the table's pushes, all covering, none of
whose rules emits `e` -/
structure Covered (ct : CTable) (e : Str) (reach : List Str) : Prop where
  root_mem : root ∈ reach
  ok : ∀ s ∈ reach, ∀ cs, lookupState ct s = some cs →
    (∀ c r, ∃ res, firstMatch cs (c :: r) = some res) ∧
    (∀ cr ∈ cs, cr.ty ≠ e ∧ ∀ s', cr.act = .push s' → s' ∈ reach)

theorem lexFuel_no_error (ct : CTable) (e w : Str) (reach : List Str) (hcov : Covered ct e reach)
    (fuel : Nat) (stack : List Str) (rest : Str) (toks : List Tok) (hs : ∀ s ∈ stack, s ∈ reach)
    (h : lexFuel ct e w fuel stack rest = some toks) : ∀ tok ∈ toks, tok.ty ≠ e := by
  induction fuel generalizing stack rest toks with
  | zero => simp [lexFuel] at h
  | succ fuel ih =>
    simp only [lexFuel] at h
    split at h
    · simp at h
    · rename_i top below
      split at h
      · simp at h
      · rename_i rules hl
        obtain ⟨hcv, hrl⟩ := hcov.ok top (hs top (by simp)) rules hl
        split at h
        · split at h
          · rename_i n ty act hfm hn
            simp only [Option.map_eq_some_iff] at h
            obtain ⟨tl, hr, rfl⟩ := h
            obtain ⟨c, hc, _, hty, hact⟩ := firstMatch_some _ _ _ _ _ hfm
            obtain ⟨hne, hp⟩ := hrl c hc
            have hst := (applyAct_inv reach (top :: below) act (by simp) hs (by rw [← hact]; exact hp)).2
            intro tok htok
            rcases List.mem_cons.mp htok with rfl | htok
            · simpa [hty] using hne
            · exact ih _ _ _ hst hr tok htok
          · simp at h
        · rename_i hfm
          split at h
          · simp at h; subst h; simp
          · rename_i c r
            obtain ⟨res, hres⟩ := hcv c r
            rw [hres] at hfm
            simp at hfm

theorem mem_pushTargets (tbl : SrcTable) (s : Str) (rs : List SrcRule) (r : SrcRule) (hs : (s, rs) ∈ tbl)
    (hr : r ∈ rs) (h1 : r.2.2 ≠ []) (h2 : r.2.2 ≠ popAct) : r.2.2 ∈ pushTargets tbl := by
  simp only [pushTargets, List.mem_flatMap, List.mem_filterMap]
  exact ⟨(s, rs), hs, r, hr, by simp [h1, h2]⟩

theorem coverOk_covered (flags : Nat) (tbl : SrcTable) (e : Str) (ct : CTable)
    (hc : compile flags tbl = some ct) (h : coverOk flags tbl e = true) :
    Covered ct e (root :: pushTargets tbl) := by
  obtain ⟨_, hcs⟩ := compile_some flags tbl ct hc
  obtain ⟨_, hlk⟩ := compileStates_lookup _ _ _ _ hcs
  simp only [coverOk, Bool.and_eq_true, List.all_eq_true] at h
  obtain ⟨hA, hB⟩ := h
  constructor
  · simp
  · intro s hs cs hl
    obtain ⟨rs, hsrc, hrs⟩ := hlk s cs hl
    have hcov := hA s hs
    rw [hsrc] at hcov
    simp only at hcov
    refine ⟨coversSrc_sound _ _ _ _ hrs hcov, ?_⟩
    intro cr hcr
    obtain ⟨r, hr, hcomp⟩ := (compileRules_mem _ _ _ _ hrs).1 cr hcr
    obtain ⟨_, hact, hty⟩ := compileRule_some _ _ _ _ hcomp
    have hmem := lookupSrc_mem _ _ _ hsrc
    constructor
    · have := hB (s, rs) hmem r hr
      rw [hty]
      simpa using this
    · intro s' hs'
      rw [hs'] at hact
      obtain ⟨h1, _, h3, h4⟩ := parseAct_push _ _ _ hact
      rw [h1]
      exact List.mem_cons_of_mem _ (mem_pushTargets tbl s rs r hmem hr h3 h4)

/-! ## Preprocessing (`Lexer._preprocess_lexer_input` with stripnl=True, stripall=False, ensurenl=True, tabsize=0) -/

def defaultOpts : Opts := ⟨true, false, true, 0, 0⟩

def prep0 (t : Str) : Str := preprocessWith defaultOpts t

theorem prep0_def (t : Str) : prep0 t = ensureNl (stripNl (replCR (replCRLF (stripBom t)))) := by
  simp [prep0, preprocessWith, defaultOpts]

theorem lstripNl_head (t : Str) : (lstripNl t).head? ≠ some '\n' := by
  have := List.head?_dropWhile_not (· == '\n') t
  simp only [lstripNl]
  intro h
  rw [h] at this
  simp at this

theorem rstripNl_last (t : Str) : (rstripNl t).getLast? ≠ some '\n' := by
  simp only [rstripNl, List.getLast?_reverse]
  exact lstripNl_head _

theorem rstripNl_prefix (t : Str) : rstripNl t <+: t := by
  have : lstripNl t.reverse <:+ t.reverse := List.dropWhile_suffix _
  have := List.reverse_prefix.mpr this
  simpa [rstripNl] using this

theorem ensureNl_rstrip (t : Str) : ensureNl (rstripNl t) = rstripNl t ++ ['\n'] := by
  have := rstripNl_last t
  simp [ensureNl, endsWithNl, this]

/-- the preprocessed text is always: BOM removed, CR normalised, newlines stripped on both sides, one newline appended -/
theorem prep0_eq (t : Str) : prep0 t = rstripNl (lstripNl (replCR (replCRLF (stripBom t)))) ++ ['\n'] := by
  rw [prep0_def, stripNl, ensureNl_rstrip]

theorem prep0_no_cr (t : Str) : '\r' ∉ prep0 t := by
  rw [prep0_eq]
  intro h
  rcases List.mem_append.mp h with h | h
  · have h1 := (rstripNl_prefix _).subset h
    have h2 : '\r' ∈ replCR (replCRLF (stripBom t)) := (List.dropWhile_suffix _).subset h1
    simp only [replCR, List.mem_map] at h2
    obtain ⟨a, _, ha⟩ := h2
    split at ha
    · simp at ha
    · rename_i hne; exact hne ha
  · simp at h

theorem prep0_head (t : Str) : prep0 t = ['\n'] ∨ (prep0 t).head? ≠ some '\n' := by
  rw [prep0_eq]
  generalize hv : lstripNl (replCR (replCRLF (stripBom t))) = v
  have hvh : v.head? ≠ some '\n' := by rw [← hv]; exact lstripNl_head _
  have hpre := rstripNl_prefix v
  cases hw : rstripNl v with
  | nil => left; rfl
  | cons a w' =>
    right
    rw [hw] at hpre
    obtain ⟨x, hx⟩ := hpre
    rw [← hx] at hvh
    simpa using hvh

theorem endsWith2Nl_append_nl (w : Str) (h : w.getLast? ≠ some '\n') : endsWith2Nl (w ++ ['\n']) = false := by
  simp only [endsWith2Nl, List.reverse_append, List.reverse_cons, List.reverse_nil, List.nil_append,
    List.singleton_append]
  rw [← List.head?_reverse] at h
  cases hr : w.reverse with
  | nil => rfl
  | cons a r =>
    rw [hr] at h
    simp at h
    split
    · rename_i heq
      simp at heq
      exact absurd heq.1 h
    · rfl

theorem prep0_not2nl (t : Str) : endsWith2Nl (prep0 t) = false := by
  rw [prep0_eq]; exact endsWith2Nl_append_nl _ (rstripNl_last _)

theorem count_replCRLF (c : Char) (hc : c ≠ '\r') (t : Str) : (replCRLF t).count c = t.count c := by
  fun_induction replCRLF t with
  | case1 => rfl
  | case2 => rfl
  | case3 x d r h ih =>
    obtain ⟨rfl, rfl⟩ := h
    simp only [List.count_cons, ih]
    have : ('\r' == c) = false := by simpa using fun h => hc h.symm
    simp [this]
  | case4 x d r h ih =>
    simp only [List.count_cons] at ih ⊢
    rw [ih]

theorem count_replCR (c : Char) (hc : c ≠ '\r') (hn : c ≠ '\n') (t : Str) : (replCR t).count c = t.count c := by
  induction t with
  | nil => rfl
  | cons x r ih =>
    simp only [replCR, List.map_cons, List.count_cons] at ih ⊢
    rw [ih]
    split
    · rename_i hx
      subst hx
      have h1 : ('\n' == c) = false := by simpa using fun h => hn h.symm
      have h2 : ('\r' == c) = false := by simpa using fun h => hc h.symm
      simp [h1, h2]
    · rfl

theorem count_lstripNl (c : Char) (hn : c ≠ '\n') (t : Str) : (lstripNl t).count c = t.count c := by
  induction t with
  | nil => rfl
  | cons x r ih =>
    simp only [lstripNl, List.dropWhile_cons] at ih ⊢
    split
    · rename_i hx
      simp at hx; subst hx
      have h1 : ('\n' == c) = false := by simpa using fun h => hn h.symm
      rw [ih, List.count_cons, h1]; simp
    · rfl

theorem count_rstripNl (c : Char) (hn : c ≠ '\n') (t : Str) : (rstripNl t).count c = t.count c := by
  simp only [rstripNl, List.count_reverse]
  rw [count_lstripNl c hn, List.count_reverse]

theorem count_prep0 (c : Char) (hc : c ≠ '\r') (hn : c ≠ '\n') (t : Str) :
    (prep0 t).count c = (stripBom t).count c := by
  rw [prep0_eq, List.count_append, count_rstripNl c hn, count_lstripNl c hn, count_replCR c hc hn,
    count_replCRLF c hc]
  have h1 : ('\n' == c) = false := by simpa using fun h => hn h.symm
  simp [List.count_cons, h1]

theorem replCRLF_id (t : Str) (h : '\r' ∉ t) : replCRLF t = t := by
  fun_induction replCRLF t with
  | case1 => rfl
  | case2 => rfl
  | case3 x d r hx ih => simp [hx.1] at h
  | case4 x d r hx ih =>
    rw [ih (fun hm => h (List.mem_cons_of_mem _ hm))]

theorem replCR_id (t : Str) (h : '\r' ∉ t) : replCR t = t := by
  induction t with
  | nil => rfl
  | cons x r ih =>
    simp only [replCR, List.map_cons] at ih ⊢
    rw [ih (fun hm => h (List.mem_cons_of_mem _ hm))]
    have : x ≠ '\r' := fun hx => h (by simp [hx])
    simp [this]

theorem lstripNl_id (t : Str) (h : t.head? ≠ some '\n') : lstripNl t = t := by
  cases t with
  | nil => rfl
  | cons x r =>
    have : x ≠ '\n' := by simpa using h
    simp [lstripNl, this]

theorem stripBom_id (t : Str) (h : t.head? ≠ some bom) : stripBom t = t := by
  cases t with
  | nil => rfl
  | cons x r =>
    have : x ≠ bom := by simpa using h
    simp [stripBom, this]

theorem bom_ne : bom ≠ '\r' ∧ bom ≠ '\n' := by decide

/-- exact characterisation of the texts the preprocessing leaves alone (up to one appended newline) -/
theorem prep0_spec (t : Str) : (prep0 t = t ∨ prep0 t = t ++ ['\n']) ↔ Clean t = true := by
  constructor
  · intro hp
    simp only [Clean, Bool.or_eq_true, beq_iff_eq, Bool.and_eq_true, bne_iff_ne, ne_eq, Bool.not_eq_true',
      List.contains_eq_mem, decide_eq_false_iff_not]
    by_cases ht : t = ['\n']
    · left; exact ht
    · right
      have hsub : ∀ x ∈ t, x ∈ prep0 t := by
        intro x hx
        rcases hp with hp | hp <;> rw [hp]
        · exact hx
        · exact List.mem_append_left _ hx
      refine ⟨⟨⟨?_, ?_⟩, ?_⟩, ?_⟩
      · -- no leading BOM
        intro hb
        cases t with
        | nil => simp at hb
        | cons x r =>
          simp at hb; subst hb
          have hc := count_prep0 bom bom_ne.1 bom_ne.2 (bom :: r)
          simp only [stripBom, if_true] at hc
          have h1 : ('\n' == bom) = false := by decide
          rcases hp with hp | hp <;> rw [hp] at hc <;> simp [List.count_cons, List.count_append, h1] at hc
      · exact fun hr => prep0_no_cr t (hsub _ hr)
      · -- no leading newline
        intro hh
        cases t with
        | nil => simp at hh
        | cons x r =>
          simp at hh; subst hh
          have hr : r ≠ [] := fun h => ht (by rw [h])
          rcases prep0_head ('\n' :: r) with h1 | h1
          · rcases hp with hp | hp <;> rw [hp] at h1 <;> simp at h1
            exact hr h1
          · rcases hp with hp | hp <;> rw [hp] at h1 <;> simp at h1
      · -- does not end with two newlines
        have h4 := prep0_not2nl t
        cases h2 : endsWith2Nl t with
        | false => rfl
        | true =>
          exfalso
          simp only [endsWith2Nl] at h2
          split at h2
          · rename_i r3 hrev
            rcases hp with hp | hp <;> rw [hp] at h4
            · simp [endsWith2Nl, hrev] at h4
            · simp [endsWith2Nl, hrev] at h4
          · simp at h2
  · intro hc
    simp only [Clean, Bool.or_eq_true, beq_iff_eq, Bool.and_eq_true, bne_iff_ne, ne_eq, Bool.not_eq_true',
      List.contains_eq_mem, decide_eq_false_iff_not] at hc
    rcases hc with rfl | ⟨⟨⟨hb, hr⟩, hh⟩, h2⟩
    · left; decide
    · rw [prep0_eq, stripBom_id t hb, replCRLF_id t hr, replCR_id t hr, lstripNl_id t hh]
      simp only [rstripNl, lstripNl]
      have hrr : t = t.reverse.reverse := by simp
      cases hrev : t.reverse with
      | nil => right; rw [hrr, hrev]; rfl
      | cons c r' =>
        by_cases hcn : c = '\n'
        · subst hcn
          cases r' with
          | nil =>
            rw [hrev] at hrr
            simp at hrr
            rw [hrr] at hh
            simp at hh
          | cons d r3 =>
            have hd : d ≠ '\n' := by
              intro hd; subst hd
              simp [endsWith2Nl, hrev] at h2
            left
            rw [hrr, hrev]
            simp [hd]
        · right
          rw [hrr, hrev]
          simp [hcn]

end ESV.Pyg
