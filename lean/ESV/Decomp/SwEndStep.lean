import ESV.Decomp.SwEnd
/-
`endPart_step`: the second part of `build_and_group_switch_cases` for one switch keeps the invariant and the behaviour.
-/
namespace ESV.Decomp.Sw
open ESV.Beh ESV.Decomp ESV.Decomp.Opt ESV.Decomp.Gr

theorem SInv.congr {g : BGraph} {d d' : List Nat} (h : SInv g d) (heq : ∀ x, x ∈ d' ↔ x ∈ d) : SInv g d' :=
  ⟨h.det, fun hm => h.nz ((heq 0).mp hm),
    fun e he hd => (h.dead e he ((heq _).mp hd)).imp (fun h1 => (heq _).mpr h1) id,
    fun d hd => h.nolab d ((heq d).mp hd), fun d hd => h.noctx d ((heq d).mp hd), fun d hd => h.lt d ((heq d).mp hd)⟩

/-- the by-passes of one switch, as a whole -/
theorem stageB {g g2 : BGraph} {del : List Nat} {endV n : Nat} {bs : List (Nat × Nat × BEdge)}
    (h : SInv g del) (hl : g.isLabelV endV = true) (hb : BInv (g.addSwitchEnd endV n) endV g2 bs) :
    SInv (g2.delEdges (bs.map (·.1))) (del ++ bs.map (·.2.1)) ∧
      Equivalent g.ltsPS (g2.delEdges (bs.map (·.1))).ltsPS (0, 0) (0, 0) := by
  let js := bs.map (·.2.1)
  let τ := byp js endV
  let g3 := g2.delEdges (bs.map (·.1))
  have hsame : ∀ u, SameV g g3 u u := by
    intro u
    have : g3.vs = (g.addSwitchEnd endV n).vs := hb.vs
    unfold SameV; rw [this]; exact sameV_addSwitchEnd g endV n u
  have hlen : g3.vs.length = g.vs.length := by
    have : g3.vs = (g.addSwitchEnd endV n).vs := hb.vs
    rw [this]; simp
  have hup : ∀ x ∈ g3.es, ∃ e ∈ g.es, x = retarget τ e := fun x hx => hb.after_up x hx
  have hlow : ∀ e ∈ g.es, retarget τ e ∈ g3.es := fun e he => hb.after_low e he
  have hjs : ∀ J ∈ js, PlainJump g J ∧ J ≠ 0 ∧ (∃ e ∈ g.es, e.src = J) ∧ ∀ e ∈ g.es, e.src = J → e.dst = endV := by
    intro J hJ
    obtain ⟨t, ht, rfl⟩ := mem_js J hJ
    obtain ⟨h1, h2, h3, h4⟩ := hb.jump t ht
    exact ⟨plainJump_same (sameV_addSwitchEnd g endV n _) h1, h2, h3, h4⟩
  have hend_js : endV ∉ js := fun hm => by
    have := plainJump_not_label g endV (hjs endV hm).1
    rw [hl] at this; cases this
  have hend_del : endV ∉ del := fun hm => by rw [h.nolab endV hm] at hl; cases hl
  have hjlt : ∀ J ∈ js, J < g.vs.length := by
    intro J hJ
    obtain ⟨x, _, _, _, h1, _⟩ := (hjs J hJ).1
    exact (List.getElem?_eq_some_iff.mp h1).1
  have hτge : ∀ a, g.vs.length ≤ a → τ a = a := by
    intro a ha
    exact byp_not_mem (fun hm => by have := hjlt a hm; omega)
  -- the invariant afterwards
  have hinv : SInv g3 (del ++ js) := by
    refine ⟨det_retarget τ h.det hsame hup, ?_, ?_, ?_, ?_, ?_⟩
    · intro hm
      rcases List.mem_append.mp hm with h1 | h1
      · exact h.nz h1
      · exact (hjs 0 h1).2.1 rfl
    · intro x hx hd
      obtain ⟨e, he, rfl⟩ := hup x hx
      simp only [retarget] at hd ⊢
      by_cases hej : e.dst ∈ js
      · rw [show τ e.dst = endV from byp_mem hej] at hd
        rcases List.mem_append.mp hd with h1 | h1
        · exact absurd h1 hend_del
        · exact absurd h1 hend_js
      · rw [show τ e.dst = e.dst from byp_not_mem hej] at hd
        rcases List.mem_append.mp hd with h1 | h1
        · rcases h.dead e he h1 with h2 | h2
          · exact Or.inl (List.mem_append_left _ h2)
          · right
            have := ignoredE_same (g := g) (g' := g3) (retarget τ e) (hsame e.src)
            show g3.ignoredE (retarget τ e) = true
            rw [this]; exact h2
        · exact absurd h1 hej
    · intro d hd
      rw [isLabelV_same (hsame d)]
      rcases List.mem_append.mp hd with h1 | h1
      · exact h.nolab d h1
      · exact plainJump_not_label g d (hjs d h1).1
    · intro d hd
      rw [isCtxVertex_same (hsame d)]
      rcases List.mem_append.mp hd with h1 | h1
      · exact h.noctx d h1
      · obtain ⟨x, r, l, c, h1, h2, _⟩ := (hjs d h1).1
        rw [isCtxVertex_eq, h1]; simp [h2]
    · intro d hd
      rw [hlen]
      rcases List.mem_append.mp hd with h1 | h1
      · exact h.lt d h1
      · exact hjlt d h1
  refine ⟨hinv, ?_⟩
  -- behaviour
  have hsm : StateMap g g3 τ := ⟨by rw [hτge _ (Nat.le_refl _), hlen], by rw [hτge _ (by omega), hlen]⟩
  have hstrong : ∀ a j, a ∉ del → a ∉ js → Strong g.ltsPS g3.ltsPS (pmap τ) (fun p => p.1 ∉ del) (a, j) := by
    intro a j ha haj
    have hτa : τ a = a := byp_not_mem haj
    refine ⟨?_, h.succ_alive a j ha⟩
    show g3.stepPS (τ a, j) = mapStep (pmap τ) (g.stepPS (a, j))
    apply step_congr h.det hsm a j (by rw [hτa]; exact hsame a)
    · intro hnone
      rw [hτa, hlen]
    · constructor
      · intro x hx hs
        obtain ⟨e, he, rfl⟩ := hup x hx
        rw [hτa] at hs
        exact ⟨e, he, hs, by simp only [retarget, img]; rw [show e.src = a from hs, hτa]⟩
      · intro e he hs _
        have := hlow e he
        simp only [retarget] at this
        simp only [img]; rw [hs, hτa]; rw [hs] at this; exact this
    · intro o ho
      rw [hτa]
      apply afterCtxE_congr
      · intro x hx hd hc
        obtain ⟨e, he, rfl⟩ := hup x hx
        simp only [retarget] at hd hc
        have hed : e.dst = a := by
          by_cases hej : e.dst ∈ js
          · rw [show τ e.dst = endV from byp_mem hej] at hd
            -- `a` is an op vertex, the end vertex a label
            have h1 : g.isLabelV a = true := by rw [← hd]; exact hl
            unfold BGraph.isLabelV BGraph.opAt at h1
            rw [ho] at h1; cases h1
          · rw [show τ e.dst = e.dst from byp_not_mem hej] at hd; exact hd
        rw [isCtxVertex_same (hsame e.src)] at hc
        exact ⟨e, he, hed, hc⟩
      · intro e he hd hc
        refine ⟨retarget τ e, hlow e he, ?_, ?_⟩
        · simp only [retarget]; rw [hd, hτa]
        · simp only [retarget]; rw [isCtxVertex_same (hsame e.src)]; exact hc
  have h0 : (0 : Nat) ∉ js := fun hm => (hjs 0 hm).2.1 rfl
  have hρ0 : pmap τ (0, 0) = (0, 0) := by simp only [pmap]; rw [show τ 0 = 0 from byp_not_mem h0]
  have := equiv_of_skipMap g.ltsPS g3.ltsPS (pmap τ) (fun p => p.1 ∉ del) ?_ (0, 0) h.nz
  · rw [hρ0] at this; exact this
  · rintro ⟨a, j⟩ ha
    by_cases haj : a ∈ js
    · obtain ⟨hpj, _, ⟨e0, he0, hs0⟩, hout⟩ := hjs a haj
      have hjt : g.toGraph.jumpTarget a = endV := by
        unfold Graph.jumpTarget
        rcases highest_char g a with ⟨_, h2⟩ | ⟨b, hb', hsb, h1, _⟩
        · exact absurd hs0 (h2 e0 he0)
        · rw [h1]; exact hout b hb' hsb
      cases j with
      | zero =>
        right
        refine ⟨(endV, 0), ?_, ?_, hend_del, hstrong endV 0 hend_del hend_js⟩
        · show g.stepPS (a, 0) = .silent (endV, 0)
          rw [stepPS_plainJump g a 0 hpj, if_pos rfl, hjt]
        · simp only [pmap]
          rw [show τ endV = endV from byp_not_mem hend_js, show τ a = endV from byp_mem haj]
      | succ k =>
        left
        constructor
        · show g3.stepPS (τ a, k + 1) = mapStep (pmap τ) (g.stepPS (a, k + 1))
          rw [stepPS_plainJump g a (k + 1) hpj, if_neg (by omega), show τ a = endV from byp_mem haj,
            stepPS_label_succ g3 endV k (by rw [isLabelV_same (hsame endV)]; exact hl)]
          rfl
        · show allSucc _ (g.stepPS (a, k + 1))
          rw [stepPS_plainJump g a (k + 1) hpj, if_neg (by omega)]
          trivial
    · exact Or.inl (hstrong a j ha haj)

/-- **the second part for one switch**, given the answer of the search -/
theorem endPart_step {g g3 : BGraph} {del delI delI' : List Nat} {n : Nat} {a : Option (List Nat)}
    (h : SInv g del) (hok : g.endOk n a = true) (hr : g.endPart n delI a = .ok (g3, delI')) :
    ∃ js, delI' = delI ++ js ∧ SInv g3 (del ++ js) ∧ g3.vs.length = g.vs.length ∧
      Equivalent g.ltsPS g3.ltsPS (0, 0) (0, 0) := by
  have trivial_case : g3 = g → delI' = delI → ∃ js, delI' = delI ++ js ∧ SInv g3 (del ++ js) ∧
      g3.vs.length = g.vs.length ∧ Equivalent g.ltsPS g3.ltsPS (0, 0) (0, 0) := by
    rintro rfl rfl
    exact ⟨[], by simp, by simpa using h, rfl, Equivalent.refl _ _⟩
  unfold BGraph.endPart at hr
  unfold BGraph.endOk at hok
  cases a with
  | none =>
    simp only [Except.ok.injEq, Prod.mk.injEq] at hr
    exact trivial_case hr.1.symm hr.2.symm
  | some ids =>
    simp only at hr hok
    by_cases hall : ids.all (fun i => decide (i < g.es.length)) = true
    · simp only [hall, Bool.not_true, Bool.false_eq_true, if_false] at hr hok
      cases ids with
      | nil => cases hr
      | cons i0 rest =>
        simp only at hr hok
        cases he0 : g.es[i0]? with
        | none => rw [he0] at hr; cases hr
        | some e0 =>
          rw [he0] at hr hok
          simp only at hr hok
          by_cases hlab : g.isLabelV e0.dst = true
          · simp only [hlab, Bool.not_true, Bool.false_eq_true, if_false] at hr hok
            cases hloop : BGraph.bypassLoop e0.dst (i0 :: rest) (g.addSwitchEnd e0.dst n) [] [] delI with
            | error e => rw [hloop] at hr; cases hr
            | ok res =>
              obtain ⟨g2, toDel, delI2⟩ := res
              rw [hloop] at hr
              simp only [Except.ok.injEq, Prod.mk.injEq] at hr
              obtain ⟨rfl, rfl⟩ := hr
              have hl1 : (g.addSwitchEnd e0.dst n).isLabelV e0.dst = true := by
                rw [isLabelV_same (sameV_addSwitchEnd g e0.dst n e0.dst)]; exact hlab
              have hids : ∀ i ∈ i0 :: rest, i < (g.addSwitchEnd e0.dst n).es.length := by
                intro i hi
                rw [List.all_eq_true] at hall
                simpa using hall i hi
              obtain ⟨bs, hb, h1, h2⟩ := bypassLoop_inv hl1 delI (i0 :: rest) (g.addSwitchEnd e0.dst n) [] [] g2 toDel delI2
                ⟨rfl, by simp, by simp, by simp, by simp⟩ hids hok (by simpa using hloop)
              subst h1 h2
              obtain ⟨hinv, heq⟩ := stageB h hlab hb
              refine ⟨bs.map (·.2.1), rfl, hinv, ?_, heq⟩
              show (g2.delEdges _).vs.length = g.vs.length
              rw [delEdges_vs, hb.vs]; simp
          · simp only [hlab, Bool.not_false, if_true, Except.ok.injEq, Prod.mk.injEq] at hr
            exact trivial_case hr.1.symm hr.2.symm
    · simp only [hall, Bool.not_false, if_true] at hr
      cases hr

end ESV.Decomp.Sw
