import ESV.Decomp.GrFlag
/-
LTS-level lemma for `group_branches`: the if `v` (tests `t`, taken → X, not taken → the if `w`) swallows `w` (tests
`s`, taken → X, not taken → Y): afterwards `v` tests `t ++ s`, taken → X, not taken → Y.  Every vertex behaves as
before (`w` is still there); the tests of `w` are the tests `|t| …` of the new `v`.
-/
namespace ESV.Decomp.Gr
open ESV.Beh ESV.Decomp ESV.Decomp.Opt

/-- what one round of the while loop of `group_branches` is, at the level of the two step functions -/
structure Merge (g g' : BGraph) (v w : Nat) (x x' y : BVertex) : Prop where
  ifv : g.isIfV v = true
  ifv' : g'.isIfV v = true
  ifw : g.isIfV w = true
  hx : g.vs[v]? = some x
  hx' : g'.vs[v]? = some x'
  hy : g.vs[w]? = some y
  tests : BGraph.testsOf x' = BGraph.testsOf x ++ BGraph.testsOf y
  notx : x.isNot = false
  notx' : x'.isNot = false
  noty : y.isNot = false
  elseV : g.elseTarget v = w
  ifW : g.ifTarget w = g.ifTarget v
  ifV' : g'.ifTarget v = g.ifTarget v
  elseV' : g'.elseTarget v = g.elseTarget w
  others : ∀ u, u ≠ v → ∀ j, g'.stepP (u, j) = g.stepP (u, j)

/-- successors of a step at `(u, j)`: a vertex, or the next test of `u` -/
theorem stepP_succ (g : BGraph) (u j : Nat) : allSucc (fun s => s.2 = 0 ∨ s.1 = u) (g.stepP (u, j)) := by
  unfold BGraph.stepP
  simp only
  split
  · split
    · unfold BGraph.ifStep
      split
      · refine ⟨Or.inl rfl, ?_⟩
        split
        · exact Or.inr rfl
        · exact Or.inl rfl
      · trivial
    · trivial
  · split
    · cases g.toGraph.stepE u <;> simp [mapStep, allSucc]
    · trivial

theorem mapStep_id_of_allSucc {σ : Type} (f : σ → σ) (P : σ → Prop) (hf : ∀ s, P s → f s = s) (st : Step σ Ev)
    (h : allSucc P st) : mapStep f st = st := by
  cases st with
  | silent n => simp only [mapStep]; rw [hf n h]
  | emit e n => simp only [mapStep]; rw [hf n h]
  | test e y n => simp only [mapStep]; rw [hf y h.1, hf n h.2]
  | halt e => rfl

theorem allSucc_mono {σ : Type} (P Q : σ → Prop) (hpq : ∀ s, P s → Q s) (st : Step σ Ev) (h : allSucc P st) :
    allSucc Q st := by
  cases st with
  | silent n => exact hpq n h
  | emit e n => exact hpq n h
  | test e y n => exact ⟨hpq y h.1, hpq n h.2⟩
  | halt e => trivial

namespace Merge
variable {g g' : BGraph} {v w : Nat} {x x' y : BVertex}

/-- the states of the graph after, read as states of the graph before -/
def back (v w k : Nat) (s : Nat × Nat) : Nat × Nat := if s.1 = v ∧ k ≤ s.2 then (w, s.2 - k) else s

theorem back_vertex (v w k u : Nat) (hk : 0 < k) : back v w k (u, 0) = (u, 0) := by
  unfold back; simp; omega

theorem testsOf_pos (g : BGraph) (u : Nat) (z : BVertex) (hu : g.isIfV u = true) (hz : g.vs[u]? = some z) :
    0 < (BGraph.testsOf z).length := by
  obtain ⟨z', r, l, id, h1, h2, _⟩ := isIfV_spec g u hu
  rw [hz] at h1; cases h1
  unfold BGraph.testsOf; rw [h2]; simp

theorem step_back (c : Merge g g' v w x x' y) (s : Nat × Nat)
    (hs : s.1 = v → s.2 < (BGraph.testsOf x).length + (BGraph.testsOf y).length) :
    g.stepP (back v w (BGraph.testsOf x).length s) = mapStep (back v w (BGraph.testsOf x).length) (g'.stepP s) ∧
    allSucc (fun s => s.1 = v → s.2 < (BGraph.testsOf x).length + (BGraph.testsOf y).length) (g'.stepP s) := by
  obtain ⟨u, j⟩ := s
  have hk := testsOf_pos g v x c.ifv c.hx
  have hm := testsOf_pos g w y c.ifw c.hy
  by_cases huv : u = v
  · subst huv
    have hj : j < (BGraph.testsOf x).length + (BGraph.testsOf y).length := hs rfl
    rw [stepP_if g' u j x' c.ifv' c.hx']
    unfold BGraph.ifStep
    have hlen : (BGraph.testsOf x').length = (BGraph.testsOf x).length + (BGraph.testsOf y).length := by
      rw [c.tests, List.length_append]
    have ht' : (BGraph.testsOf x')[j]? = some ((BGraph.testsOf x')[j]'(by omega)) := List.getElem?_eq_getElem _
    rw [ht']
    simp only [BGraph.takenOf, BGraph.notTakenOf, c.notx', Bool.false_eq_true, if_false, c.ifV', c.elseV', hlen]
    constructor
    · simp only [mapStep]
      have hb0 : back u w (BGraph.testsOf x).length (g.ifTarget u, 0) = (g.ifTarget u, 0) := back_vertex _ _ _ _ hk
      rw [hb0]
      by_cases hjk : j < (BGraph.testsOf x).length
      · -- a test of the old `v`
        have hbk : back u w (BGraph.testsOf x).length (u, j) = (u, j) := by unfold back; simp; omega
        rw [hbk, stepP_if g u j x c.ifv c.hx]
        unfold BGraph.ifStep
        have ht : (BGraph.testsOf x)[j]? = some ((BGraph.testsOf x)[j]) := List.getElem?_eq_getElem _
        have hte : (BGraph.testsOf x')[j]'(by omega) = (BGraph.testsOf x)[j] := by
          simp only [c.tests]; exact List.getElem_append_left hjk
        rw [ht]
        simp only [BGraph.takenOf, BGraph.notTakenOf, c.notx, Bool.false_eq_true, if_false, hte, c.elseV]
        have h1 : j + 1 < (BGraph.testsOf x).length + (BGraph.testsOf y).length := by omega
        simp only [h1, if_true]
        by_cases hj1 : j + 1 < (BGraph.testsOf x).length
        · simp only [hj1, if_true]
          have : back u w (BGraph.testsOf x).length (u, j + 1) = (u, j + 1) := by unfold back; simp; omega
          rw [this]
        · simp only [hj1, if_false]
          have : back u w (BGraph.testsOf x).length (u, j + 1) = (w, 0) := by
            unfold back; simp only [true_and]
            rw [if_pos (by omega)]; congr 1; omega
          rw [this]
      · -- a test of the swallowed `w`
        have hbk : back u w (BGraph.testsOf x).length (u, j) = (w, j - (BGraph.testsOf x).length) := by
          unfold back; simp; omega
        rw [hbk, stepP_if g w _ y c.ifw c.hy]
        unfold BGraph.ifStep
        have hi : j - (BGraph.testsOf x).length < (BGraph.testsOf y).length := by omega
        have ht : (BGraph.testsOf y)[j - (BGraph.testsOf x).length]? = some ((BGraph.testsOf y)[j - (BGraph.testsOf x).length]) :=
          List.getElem?_eq_getElem _
        have hte : (BGraph.testsOf x')[j]'(by omega) = (BGraph.testsOf y)[j - (BGraph.testsOf x).length] := by
          simp only [c.tests]; exact List.getElem_append_right (by omega)
        rw [ht]
        simp only [BGraph.takenOf, BGraph.notTakenOf, c.noty, Bool.false_eq_true, if_false, hte, c.ifW]
        by_cases hj1 : j + 1 < (BGraph.testsOf x).length + (BGraph.testsOf y).length
        · have h2 : j - (BGraph.testsOf x).length + 1 < (BGraph.testsOf y).length := by omega
          simp only [hj1, h2, if_true]
          have : back u w (BGraph.testsOf x).length (u, j + 1) = (w, j - (BGraph.testsOf x).length + 1) := by
            unfold back; simp only [true_and]
            rw [if_pos (by omega)]; congr 1; omega
          rw [this]
        · have h2 : ¬ j - (BGraph.testsOf x).length + 1 < (BGraph.testsOf y).length := by omega
          simp only [hj1, h2, if_false]
          rw [back_vertex _ _ _ _ hk]
    · refine ⟨fun _ => by simp; omega, ?_⟩
      split
      · intro _; simpa using (by assumption)
      · intro _; simp; omega
  · have hb : back v w (BGraph.testsOf x).length (u, j) = (u, j) := by unfold back; simp [huv]
    rw [hb, c.others u huv j]
    have hsucc := stepP_succ g u j
    constructor
    · symm
      apply mapStep_id_of_allSucc _ _ _ _ hsucc
      rintro ⟨a, b⟩ (h | h)
      · simp only at h; subst h; exact back_vertex _ _ _ _ hk
      · simp only at h; subst h; unfold back; simp [huv]
    · apply allSucc_mono _ _ _ _ hsucc
      rintro ⟨a, b⟩ (h | h)
      · simp only at h; subst h; intro _; simp; omega
      · simp only at h; subst h; intro h'; exact absurd h' huv

/-- **one round**: every vertex behaves as before -/
theorem equiv (c : Merge g g' v w x x' y) (u : Nat) : Equivalent g.ltsP g'.ltsP (u, 0) (u, 0) := by
  have hk := testsOf_pos g v x c.ifv c.hx
  have h := equiv_of_stepMap g'.ltsP g.ltsP (back v w (BGraph.testsOf x).length)
    (fun s => s.1 = v → s.2 < (BGraph.testsOf x).length + (BGraph.testsOf y).length)
    (fun a ha => c.step_back a ha) (u, 0) (fun _ => by simp; omega)
  rw [back_vertex _ _ _ _ hk] at h
  exact h.symm

end Merge
end ESV.Decomp.Gr
