import ESV.Decomp.GrStepL
import ESV.Decomp.OptDelete
/-
`delete_vertices` on the level of `Graph.stepE`, with LOCAL hypotheses: no edge leads from a kept vertex to a deleted
one, the deleted vertices exist and are no context ops.  (`stepE_delete` in OptDelete.lean reads the out-edges as a set and
needs one target per flow level; here igraph's order is followed through the renumbering.)
-/
namespace ESV.Decomp.Gr
open ESV.Beh ESV.Decomp ESV.Decomp.Opt

structure DelAt (G : Graph) (del : List Nat) : Prop where
  closed : ∀ e ∈ G.es, e.src ∉ del → e.dst ∉ del
  lt : ∀ d ∈ del, d < G.vs.length
  noCtx : ∀ d ∈ del, G.isCtxVertex d = false

theorem renumber_inj (del : List Nat) (a b : Nat) (ha : a ∉ del) (hb : b ∉ del) (h : renumber del a = renumber del b) :
    a = b := by
  rw [renumber_eq_kept, renumber_eq_kept] at h; exact kept_inj del a b ha hb h

theorem renumber_succ_of_not_mem (del : List Nat) (a : Nat) (ha : a ∉ del) :
    renumber del (a + 1) = renumber del a + 1 := by
  rw [renumber_eq_kept, renumber_eq_kept, kept_succ]; simp [ha]

namespace DelAt
variable {G : Graph} {del : List Nat}

theorem renumber_lt (del : List Nat) (a b : Nat) (ha : a ∉ del) (hb : b ∉ del) :
    renumber del a < renumber del b ↔ a < b := by
  rw [renumber_eq_kept, renumber_eq_kept]
  constructor
  · intro h
    rcases Nat.lt_trichotomy a b with h1 | h1 | h1
    · exact h1
    · subst h1; omega
    · have := kept_strict del b a h1 hb; omega
  · intro h; exact kept_strict del a b h ha

/-- the out-edges of a kept vertex, in igraph's order, after the deletion: the old ones, renumbered -/
theorem outL_delete (h : DelAt G del) (a : Nat) (ha : a ∉ del) :
    outL (deleteVertices G del) (renumber del a) = (outL G a).map (renE (renumber del a) (renumber del)) := by
  rw [outL_eq_isort, outL_eq_isort]
  have hF : (deleteVertices G del).es.filter (fun e => e.src == renumber del a) =
      (G.es.filter fun e => e.src == a).map (renE (renumber del a) (renumber del)) := by
    unfold deleteVertices
    simp only
    rw [List.filter_map, List.filter_filter]
    have e1 : G.es.filter (fun e => ((fun e : Edge => e.src == renumber del a) ∘
          fun e : Edge => { e with src := renumber del e.src, dst := renumber del e.dst }) e &&
          (!del.contains e.src && !del.contains e.dst)) = G.es.filter fun e => e.src == a := by
      apply List.filter_congr
      intro e he
      simp only [Function.comp]
      by_cases hs : e.src = a
      · have h1 : e.src ∉ del := by rw [hs]; exact ha
        have h2 : e.dst ∉ del := h.closed e he h1
        simp [hs, ha, h2]
      · have : (e.src == a) = false := by simp [hs]
        rw [this]
        by_cases h1 : e.src ∈ del
        · simp [h1]
        · have : renumber del e.src ≠ renumber del a := fun hh => hs (renumber_inj del _ _ h1 ha hh)
          simp [this]
    rw [e1]
    apply List.map_congr_left
    intro e he
    have := (List.mem_filter.mp he).2
    simp only [beq_iff_eq] at this
    unfold renE; rw [this]
  rw [hF]
  apply isort_map
  · intro x hx y hy
    have hx' := List.mem_filter.mp hx
    have hy' := List.mem_filter.mp hy
    simp only [beq_iff_eq] at hx' hy'
    have dx : x.dst ∉ del := h.closed x hx'.1 (by rw [hx'.2]; exact ha)
    have dy : y.dst ∉ del := h.closed y hy'.1 (by rw [hy'.2]; exact ha)
    unfold renE; simp only
    exact decide_eq_decide.mpr (renumber_lt del _ _ dx dy)
  · intro x hx y hy
    have hx' := List.mem_filter.mp hx
    have hy' := List.mem_filter.mp hy
    simp only [beq_iff_eq] at hx' hy'
    have dx : x.dst ∉ del := h.closed x hx'.1 (by rw [hx'.2]; exact ha)
    have dy : y.dst ∉ del := h.closed y hy'.1 (by rw [hy'.2]; exact ha)
    unfold renE; simp only
    rw [Bool.eq_iff_iff, beq_iff_eq, beq_iff_eq]
    exact ⟨fun hh => renumber_inj del _ _ dx dy hh, fun hh => by rw [hh]⟩

theorem afterCtxE (h : DelAt G del) (a : Nat) (ha : a ∉ del) :
    (deleteVertices G del).afterCtxE (renumber del a) = G.afterCtxE a := by
  unfold Graph.afterCtxE
  rw [Bool.eq_iff_iff, List.any_eq_true, List.any_eq_true]
  constructor
  · rintro ⟨e', he', hc⟩
    obtain ⟨e, he, hs, hd, rfl⟩ := (mem_deleteVertices_es G del e').mp he'
    simp only [Bool.and_eq_true, beq_iff_eq] at hc
    have : e.dst = a := renumber_inj del _ _ hd ha hc.1
    refine ⟨e, he, ?_⟩
    rw [isCtxVertex_delete G del e.src hs] at hc
    simp [this, hc.2]
  · rintro ⟨e, he, hc⟩
    simp only [Bool.and_eq_true, beq_iff_eq] at hc
    have hs : e.src ∉ del := by
      intro hin
      have := h.noCtx _ hin
      rw [hc.2] at this; cases this
    have hd : e.dst ∉ del := by rw [hc.1]; exact ha
    refine ⟨_, (mem_deleteVertices_es G del _).mpr ⟨e, he, hs, hd, rfl⟩, ?_⟩
    simp only [Bool.and_eq_true, beq_iff_eq]
    rw [isCtxVertex_delete G del e.src hs]
    exact ⟨by rw [hc.1], hc.2⟩

theorem stuck (h : DelAt G del) : renumber del G.stuck = (deleteVertices G del).stuck := by
  unfold Graph.stuck
  rw [deleteVertices_vs_length]
  exact renumber_succ_of_not_mem del _ (fun hd => by have := h.lt _ hd; omega)

theorem stepE (h : DelAt G del) (a : Nat) (ha : a ∉ del) :
    (deleteVertices G del).stepE (renumber del a) = mapStep (renumber del) (G.stepE a) := by
  apply stepE_of_outL G (deleteVertices G del) a (renumber del a) (renumber del)
    (deleteVertices_vs_get G del a ha) (h.outL_delete a ha) (fellOff_delete G del) h.stuck
  · intro hnone
    have hge : G.vs.length ≤ a := by
      rcases Nat.lt_or_ge a G.vs.length with hlt | hge
      · rw [List.getElem?_eq_getElem hlt] at hnone; exact absurd hnone (by simp)
      · exact hge
    rw [← fellOff_delete]
    unfold Graph.fellOff
    rw [renumber_eq_kept, renumber_eq_kept, kept_above del G.vs.length h.lt a hge]
    omega
  · intro o _
    exact h.afterCtxE a ha

/-- successors of a kept vertex are kept -/
theorem succ_kept (h : DelAt G del) (a : Nat) (ha : a ∉ del) : allSucc (fun s => s ∉ del) (G.stepE a) := by
  apply allSucc_stepE G a (fun s => s ∉ del)
  · intro hd; have := h.lt _ hd; unfold Graph.fellOff at this; omega
  · intro hd; have := h.lt _ hd; unfold Graph.stuck at this; omega
  · intro e he hs; exact h.closed e he (by rw [hs]; exact ha)

end DelAt
end ESV.Decomp.Gr
