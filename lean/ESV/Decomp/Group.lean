import ESV.Decomp.Branches
/-
`SsbGraphMinimizer.group_branches` and `invert_branches` (graph_building/graph_minimizer.py): the two rewriting
phases of the decompiler that `convert()` runs right after `build_branches`.  Both are deterministic (no heuristic
search): they are modelled statement by statement, error classes included.

* `group_branches`: an if `v` whose else-edge leads directly to another if `w` with the same if-target swallows `w`
  (`if a || b`): `v` becomes a `MultiIfStart` (list of root ops; in the model the first one stays in `op`, the
  others are `ifOps`), its else-edge is reconnected to where `w`'s else-edge goes, `w`'s `IfEnd` marker is removed
  from the first label that carries it, `w` is deleted at the end of the phase.
* `invert_branches`: an if whose if-edge leads directly to its own end label gets its two `is_else` flags swapped
  and `is_not` set (`if not (c) { … }`).

From `build_branches` on the two out-edges of an if are identified by the edge attribute `is_else`:
`[e for e in v.out_edges() if e["is_else"]][0]` is the FIRST such edge in igraph's incident order.
-/
namespace ESV.Decomp
open ESV.Beh

namespace BGraph

/-- `isinstance(v["op"], SsbLabelJump) and isinstance(v["op"].get_marker(), IfStart)`  (`MultiIfStart` is a subclass
of `IfStart`; `get_marker()` is the first marker: a `CallJump` marker comes first) -/
def isIfVertex (x : BVertex) : Bool :=
  match x.op, x.ifStart with
  | .item (.ljump _ _ call), some _ => !call
  | _, _ => false

def isIfV (g : BGraph) (v : Nat) : Bool :=
  match g.vs[v]? with
  | some x => isIfVertex x
  | none => false

/-- `v.out_edges()` as (edge id, edge): ascending target id, then descending edge id -/
def outEs (g : BGraph) (v : Nat) : List (Nat × BEdge) :=
  sortBy (fun a b => a.2.dst < b.2.dst || (a.2.dst == b.2.dst && a.1 > b.1))
    ((g.es.zipIdx.filter fun p => p.1.src == v).map fun p => (p.2, p.1))

/-- `[e for e in v.out_edges() if e["is_else"]][0]`; `none` = IndexError -/
def firstElse (g : BGraph) (v : Nat) : Option (Nat × BEdge) := (g.outEs v).find? fun p => p.2.isElse

/-- `[e for e in v.out_edges() if not e["is_else"]][0]`; `none` = IndexError -/
def firstIf (g : BGraph) (v : Nat) : Option (Nat × BEdge) := (g.outEs v).find? fun p => !p.2.isElse

/-- `v["op"].get_marker().if_id` -/
def ifIdOf (g : BGraph) (v : Nat) : Option Nat := (g.vs[v]?).bind (·.ifStart)

/-- `v["op"].root` of a label jump; `none` = the AssertionError of the property `root` (a multi-if has no root) -/
def rootOfVertex (x : BVertex) : Option MOp :=
  match x.op, x.ifOps with
  | .item (.ljump r _ _), [] => some r
  | _, _ => none

def rootOf (g : BGraph) (v : Nat) : Option MOp := (g.vs[v]?).bind rootOfVertex

def makeMultiV (r : MOp) (x : BVertex) : BVertex := { x with ifOps := [r], isNot := false }
def addIfV (r : MOp) (x : BVertex) : BVertex := { x with ifOps := x.ifOps ++ [r] }

/-- first run of the while loop: `remove_marker(); add_marker(MultiIfStart(v_if_id, [v.root, w.root]))` (a fresh
marker: `is_not = False`), `unset_root()`, opcode name "ES_OR_MULTI_IF" -/
def makeMulti (g : BGraph) (v : Nat) (r : MOp) : BGraph := { g with vs := g.vs.modify v (makeMultiV r) }

/-- later runs: `marker_multi.add_if(w.root)` -/
def addIf (g : BGraph) (v : Nat) (r : MOp) : BGraph := { g with vs := g.vs.modify v (addIfV r) }

def hasIfEnd (id : Nat) (x : BVertex) : Bool :=
  match x.op with
  | .item (.label _) => x.ifEnds.contains id
  | _ => false

def eraseIfEndV (id : Nat) (x : BVertex) : BVertex := { x with ifEnds := x.ifEnds.erase id }

/-- `end, marker_idx = find_first_label_vertex_with_marker_that_matches_condition(g, IfEnd with that id)`;
`if end: del end["op"].markers[marker_idx]` -/
def removeIfEnd (g : BGraph) (id : Nat) : BGraph :=
  match g.vs.findIdx? (hasIfEnd id) with
  | some u => { g with vs := g.vs.modify u (eraseIfEndV id) }
  | none => g

/-- the `while self._group_branches__is_if_group_possible(if_edge, v_at_else)` loop for the if vertex `v`; `else_edge`,
`if_edge`, `v_at_else` are re-read from the graph at the start of every round (before the first round: the three
statements in front of the loop).  The Python loop does not terminate when the chain of else-successors runs into a
cycle that avoids `v` (every round appends to the op list): `fuel` = number of vertices + 1 rounds, then "Hang". -/
def groupLoop : Nat → BGraph → Nat → List Nat → Bool → Except String (BGraph × List Nat)
  | 0, _, _, _, _ => .error "Hang"
  | fuel+1, g, v, del, first =>
    match g.firstElse v with
    | none => .error "IndexError"
    | some (ei, eE) =>
      match g.firstIf v with
      | none => .error "IndexError"
      | some (_, eI) =>
        let w := eE.dst
        -- _group_branches__is_if_group_possible(if_edge, v_at_else)
        if !g.isIfV w then .ok (g, del)
        else
          match g.firstIf w with
          | none => .error "IndexError"
          | some (_, wI) =>
            if wI.dst != eI.dst then .ok (g, del)
            else
              match g.ifIdOf w with
              | none => .error "AttributeError"       -- unreachable: `isIfV w`
              | some wid =>
                let marked : Option BGraph :=
                  if first then
                    match g.rootOf v, g.rootOf w with
                    | some _, some rw => some (g.makeMulti v rw)
                    | _, _ => none
                  else
                    match g.rootOf w with
                    | some rw => some (g.addIf v rw)
                    | none => none
                match marked with
                | none => .error "AssertionError"
                | some g1 =>
                  -- vs_to_delete.add(v_at_else)
                  match g1.firstElse w with
                  | none => .error "IndexError"
                  | some (_, wE) =>
                    groupLoop fuel ((g1.reconnect ei wE.dst).removeIfEnd wid) v (del ++ [w]) false

/-- the loop `for v in g.vs` of `group_branches` (`v not in vs_to_delete`: igraph Vertex handles compare by index) -/
def groupGo : List Nat → BGraph → List Nat → Except String (BGraph × List Nat)
  | [], g, del => .ok (g, del)
  | v :: rest, g, del =>
    if g.isIfV v && !del.contains v then
      match g.groupLoop (g.vs.length + 1) v del true with
      | .error e => .error e
      | .ok (g', del') => groupGo rest g' del'
    else groupGo rest g del

def setElseFlag (g : BGraph) (i : Nat) (b : Bool) : BGraph :=
  { g with es := g.es.modify i fun e => { e with isElse := b } }

def setNotV (x : BVertex) : BVertex := { x with isNot := true }
def setNot (g : BGraph) (v : Nat) : BGraph := { g with vs := g.vs.modify v setNotV }

def ifEndsOf (g : BGraph) (v : Nat) : List Nat :=
  match g.vs[v]? with
  | some x => x.ifEnds
  | none => []

/-- the body of the loop of `invert_branches` for the if vertex `v` -/
def invertOne (g : BGraph) (v : Nat) : Except String BGraph :=
  match g.firstElse v with
  | none => .error "IndexError"
  | some (ie, eE) =>
    match g.firstIf v with
    | none => .error "IndexError"
    | some (ii, eI) =>
      if eI.dst == eE.dst then .ok g
      else
        match g.ifIdOf v with
        | none => .error "AttributeError"             -- unreachable: `isIfV v`
        | some id =>
          if g.isLabelV eI.dst && (g.ifEndsOf eI.dst).contains id then
            .ok (((g.setElseFlag ie false).setElseFlag ii true).setNot v)
          else .ok g

/-- the loop `for v in g.vs` of `invert_branches` (`vs_to_delete` stays empty) -/
def invertGo : List Nat → BGraph → Except String BGraph
  | [], g => .ok g
  | v :: rest, g =>
    if g.isIfV v then
      match g.invertOne v with
      | .error e => .error e
      | .ok g' => invertGo rest g'
    else invertGo rest g

end BGraph

/-- `group_branches` for one routine graph -/
def groupBranches (g : BGraph) : Except String BGraph :=
  match BGraph.groupGo (List.range g.vs.length) g [] with
  | .error e => .error e
  | .ok (g', del) => .ok (g'.deleteVs del)

/-- state of `group_branches` in front of its final `delete_vertices` -/
def groupBranchesRaw (g : BGraph) : Except String (BGraph × List Nat) :=
  BGraph.groupGo (List.range g.vs.length) g []

/-- `invert_branches` for one routine graph (`g.delete_vertices(set())` does nothing) -/
def invertBranches (g : BGraph) : Except String BGraph :=
  BGraph.invertGo (List.range g.vs.length) g

end ESV.Decomp
