import ESV.Decomp.SwSucc
import ESV.Decomp.GrDelete
/-
The invariant of the loop of `build_and_group_switch_cases` (`SInv g del`: `del` = everything in `vs_to_delete`), and the
final `delete_vertices`: the vertices that go are unreachable - every edge into them comes from a vertex that goes as well or
is not read by its source -, so the graph after the deletion behaves like the graph before it, `(a, j)` ↦ `(renumber a, j)`.
-/
namespace ESV.Decomp.Sw
open ESV.Beh ESV.Decomp ESV.Decomp.Opt ESV.Decomp.Gr

structure SInv (g : BGraph) (del : List Nat) : Prop where
  det : Det g
  nz : 0 ∉ del
  dead : ∀ e ∈ g.es, e.dst ∈ del → e.src ∈ del ∨ g.ignoredE e = true
  nolab : ∀ d ∈ del, g.isLabelV d = false
  noctx : ∀ d ∈ del, g.toGraph.isCtxVertex d = false
  lt : ∀ d ∈ del, d < g.vs.length

theorem allSucc_imp {σ : Type} {P Q : σ → Prop} (hpq : ∀ s, P s → Q s) (st : Step σ Ev) (h : allSucc P st) :
    allSucc Q st := by
  cases st with
  | silent n => exact hpq n h
  | emit e n => exact hpq n h
  | test e y n => exact ⟨hpq y h.1, hpq n h.2⟩
  | halt e => trivial

variable {g : BGraph} {del : List Nat}

/-- an edge a live vertex reads leads to a live vertex -/
theorem SInv.read_alive (h : SInv g del) (e : BEdge) (he : e ∈ g.es) (hs : e.src ∉ del) (hi : g.ignoredE e = false) :
    e.dst ∉ del := by
  intro hd
  rcases h.dead e he hd with h1 | h1
  · exact hs h1
  · rw [hi] at h1; cases h1

/-- the successors of a live state are live -/
theorem SInv.succ_alive (h : SInv g del) (a j : Nat) (ha : a ∉ del) :
    allSucc (fun p : Nat × Nat => p.1 ∉ del) (g.stepPS (a, j)) := by
  refine allSucc_imp ?_ _ (succ_read g a j)
  rintro p (h1 | ⟨_, h1 | h1 | ⟨e, he, hs, hd, hi⟩⟩)
  · rw [h1]; exact ha
  · rw [h1]; intro hm; have := h.lt _ hm; omega
  · rw [h1]; intro hm; have := h.lt _ hm; omega
  · rw [← hd]; exact h.read_alive e he (by rw [hs]; exact ha) hi

theorem renumber_ge (hlt : ∀ d ∈ del, d < g.vs.length) (a : Nat) (ha : g.vs.length ≤ a) :
    renumber del a = (g.deleteVs del).vs.length + (a - g.vs.length) := by
  rw [BDel.vs_length, renumber_eq_kept, renumber_eq_kept]
  exact kept_above del g.vs.length hlt a ha

theorem stateMap_delete (hlt : ∀ d ∈ del, d < g.vs.length) : StateMap g (g.deleteVs del) (renumber del) := by
  constructor
  · exact (BDel.vs_length g del).symm
  · have := renumber_ge hlt (g.vs.length + 1) (by omega)
    rw [this]; omega

theorem edgeCorr_delete (h : SInv g del) (a : Nat) (ha : a ∉ del) : EdgeCorr g (g.deleteVs del) (renumber del) a := by
  constructor
  · intro e' he' hs'
    obtain ⟨e, he, h1, h2, rfl⟩ := (BDel.mem_es g del e').mp he'
    have : e.src = a := renumber_inj del _ _ h1 ha hs'
    exact ⟨e, he, this, rfl⟩
  · intro e he hs hi
    exact (BDel.mem_es g del _).mpr ⟨e, he, by rw [hs]; exact ha, h.read_alive e he (by rw [hs]; exact ha) hi, rfl⟩

theorem isCtxVertex_delete' (g : BGraph) (del : List Nat) (s : Nat) (hs : s ∉ del) :
    (g.deleteVs del).toGraph.isCtxVertex (renumber del s) = g.toGraph.isCtxVertex s := by
  rw [isCtxVertex_eq, isCtxVertex_eq, BDel.vs_get g del s hs]

theorem afterCtxE_delete' (h : SInv g del) (a : Nat) (ha : a ∉ del) :
    (g.deleteVs del).toGraph.afterCtxE (renumber del a) = g.toGraph.afterCtxE a := by
  apply afterCtxE_congr
  · intro e' he' hd' hc'
    obtain ⟨e, he, h1, h2, rfl⟩ := (BDel.mem_es g del e').mp he'
    have : e.dst = a := renumber_inj del _ _ h2 ha hd'
    simp only at hc'
    rw [isCtxVertex_delete' g del e.src h1] at hc'
    exact ⟨e, he, this, hc'⟩
  · intro e he hd hc
    have h1 : e.src ∉ del := fun hm => by rw [h.noctx _ hm] at hc; cases hc
    refine ⟨_, (BDel.mem_es g del _).mpr ⟨e, he, h1, by rw [hd]; exact ha, rfl⟩, by simp [hd], ?_⟩
    simp only
    rw [isCtxVertex_delete' g del e.src h1]; exact hc

/-- **the final `delete_vertices`** -/
theorem delete_equiv (h : SInv g del) (a : Nat) (ha : a ∉ del) :
    Equivalent g.ltsPS (g.deleteVs del).ltsPS (a, 0) (renumber del a, 0) := by
  refine equiv_of_stepMap g.ltsPS (g.deleteVs del).ltsPS (pmap (renumber del)) (fun p => p.1 ∉ del) ?_ (a, 0) ha
  rintro ⟨b, j⟩ hb
  refine ⟨?_, h.succ_alive b j hb⟩
  show (g.deleteVs del).stepPS (renumber del b, j) = mapStep (pmap (renumber del)) (g.stepPS (b, j))
  apply step_congr h.det (stateMap_delete h.lt) b j (SameV.of_eq (BDel.vs_get g del b hb)) ?_ (edgeCorr_delete h b hb)
    (fun _ _ => afterCtxE_delete' h b hb)
  intro hnone
  have hge : g.vs.length ≤ b := by
    rcases Nat.lt_or_ge b g.vs.length with hlt | hge
    · rw [List.getElem?_eq_getElem hlt] at hnone; cases hnone
    · exact hge
  rw [renumber_ge h.lt b hge]
  rw [Bool.eq_iff_iff]
  simp only [beq_iff_eq]
  omega

end ESV.Decomp.Sw
