import ESV.Decomp.Switch
import ESV.Decomp.SemB
/-
Meaning of the graphs from `build_and_group_switch_cases` on: `stepB` (lean/ESV/Decomp/SemB.lean) plus switches.

A vertex with a `SwitchStart` marker (a plain switch op wrapped into a label jump without label) first EMITS its own op -
exactly what `stepE` / `stepB` do for a plain op vertex, halting included - and then performs the case tests attached to its
out-edges (`switch_ops`) in ascending order of their `index`: test taken → the target of the edge that carries it, not
taken → the next test; after the last test → the target of the first out-edge (igraph order) flagged `is_else`, running off
the routine if there is none.  Out-edges that carry neither `switch_ops` nor `is_else` are not read.

ORDER OF TESTS = the order of the writer (`iterate_switch_edges_using_edges_and_op`, graph_utils.py): it collects
`map_ops_edges_s[op.index] = e` over the out-edges in igraph order and the ops of each edge in list order (a later op with
the same index replaces an earlier one) and walks `sorted(map_ops_edges_s)`: plain ascending index, one test per index.
States are pairs as in SemB: `(v, 0)` = at vertex `v`; `(v, i+1)` = the switch `v` has performed all its tests with index
< `i` in vain: the next test is the one with the smallest index ≥ `i` (`nextTest`; the last one collected, as in the
writer's dict).  With the dense indices `0 … k-1` the phase produces, `(v, i+1)` is "about to perform test number `i`".
`stepS` = the same system on the encoded state space `v + (n+2)·j` of SemB.
-/
namespace ESV.Decomp
open ESV.Beh ESV.Decomp.Opt

/-- (index, op, target) of one case test -/
abbrev CaseT := Nat × MOp × Nat

namespace BGraph

/-- the case tests of the out-edges of `v`, in igraph order, the ops of an edge in list order -/
def caseTriples (g : BGraph) (v : Nat) : List CaseT :=
  (g.outEs v).flatMap fun p => p.2.switchOps.map fun t => (t.2.1, t.2.2, p.2.dst)

/-- keep the test with the smallest index ≥ `i`; among equal indices the last one wins -/
def pickTest (i : Nat) (acc : Option CaseT) (t : CaseT) : Option CaseT :=
  if t.1 < i then acc
  else match acc with
    | none => some t
    | some a => if t.1 ≤ a.1 then some t else some a

/-- the test the switch `v` performs after all its tests with index < `i` have failed -/
def nextTest (g : BGraph) (v i : Nat) : Option CaseT := (g.caseTriples v).foldl (pickTest i) none

/-- target of the first out-edge flagged `is_else`; none: the routine runs off its end -/
def switchElse (g : BGraph) (v : Nat) : Nat :=
  match g.firstElse v with
  | some (_, e) => e.dst
  | none => g.toGraph.fellOff

/-- where the switch `v` goes when all tests with index < `i` have failed -/
def switchNext (g : BGraph) (v i : Nat) : Nat × Nat :=
  match g.nextTest v i with
  | some _ => (v, i + 1)
  | none => (g.switchElse v, 0)

/-- the switch vertex `v` with op `o` in state `j` -/
def switchStep (g : BGraph) (v j : Nat) (o : MOp) : Step (Nat × Nat) Ev :=
  match j with
  | 0 =>
    if endsFlow o.name && !g.toGraph.afterCtxE v then .halt ⟨o.name, o.params⟩
    else .emit ⟨o.name, o.params⟩ (g.switchNext v 0)
  | i+1 =>
    match g.nextTest v i with
    | some (idx, t, d) => .test ⟨t.name, t.params⟩ (d, 0) (g.switchNext v (idx + 1))
    | none => .halt evStuck

def stepPS (g : BGraph) (s : Nat × Nat) : Step (Nat × Nat) Ev :=
  if g.isSwitchV s.1 then
    match g.vs[s.1]? with
    | some ⟨_, .item (.op o), _, _, _, _, _, _, _, _, _, _, _, _, _⟩ => g.switchStep s.1 s.2 o
    | _ => .halt evStuck
  else g.stepP s

def ltsPS (g : BGraph) : LTS Ev := ⟨Nat × Nat, g.stepPS⟩

/-- the same system on natural numbers (the state space of the verified checker), encoded as in SemB -/
def stepS (g : BGraph) (s : Nat) : Step Nat Ev := mapStep g.enc (g.stepPS (g.dec s))

def ltsS (g : BGraph) : LTS Ev := ⟨Nat, g.stepS⟩

/-- number of encoded states that can occur (for the search budget of the checker) -/
def sStates (g : BGraph) : Nat :=
  (g.vs.length + 2) * (2 + max ((g.vs.map fun v => v.ifOps.length).foldl max 0)
    ((g.es.map fun e => (e.switchOps.map fun t => t.2.1).foldl max 0).foldl max 0))

end BGraph
end ESV.Decomp
