import ESV.Decomp.OptRenum
import ESV.Decomp.OptMorph
/-
(c) the final `delete_vertices`: if no edge leads from a kept vertex to a deleted one and no deleted vertex is a
plain op, the graph after the deletion behaves like the kept part of the graph before, vertex `a` ↦ `renumber del a`.
-/
namespace ESV.Decomp.Opt
open ESV.Beh ESV.Decomp

/-- the vertex is a label or a label jump (not a plain op, not a foreign label, and it exists) -/
def nonOpV (g : Graph) (v : Nat) : Bool :=
  match g.vs[v]? with
  | some (.item (.label _)) => true
  | some (.item (.ljump _ _ _)) => true
  | _ => false

theorem nonOpV_lt (g : Graph) (v : Nat) (h : nonOpV g v = true) : v < g.vs.length := by
  unfold nonOpV at h
  cases hv : g.vs[v]? with
  | none => simp [hv] at h
  | some x => exact (List.getElem?_eq_some_iff.mp hv).1

theorem isCtxVertex_not_nonOp (g : Graph) (v : Nat) (h : g.isCtxVertex v = true) : nonOpV g v = false := by
  unfold Graph.isCtxVertex at h
  unfold nonOpV
  split at h <;> simp_all

/-- what the final deletion needs -/
structure DelOk (g : Graph) (del : List Nat) : Prop where
  ld : LD g
  closed : ∀ e ∈ g.es, e.src ∉ del → e.dst ∉ del
  nonop : ∀ d ∈ del, nonOpV g d = true

theorem isCtxVertex_delete (g : Graph) (del : List Nat) (a : Nat) (ha : a ∉ del) :
    (deleteVertices g del).isCtxVertex (renumber del a) = g.isCtxVertex a := by
  unfold Graph.isCtxVertex
  rw [deleteVertices_vs_get g del a ha]

theorem afterCtxE_delete (g : Graph) (del : List Nat) (h : DelOk g del) (a : Nat) (ha : a ∉ del) :
    (deleteVertices g del).afterCtxE (renumber del a) = g.afterCtxE a := by
  unfold Graph.afterCtxE
  rw [Bool.eq_iff_iff, List.any_eq_true, List.any_eq_true]
  constructor
  · rintro ⟨e', he', hc⟩
    obtain ⟨e, he, hs, hd, rfl⟩ := (mem_deleteVertices_es g del e').mp he'
    simp only [Bool.and_eq_true, beq_iff_eq] at hc
    have : e.dst = a := by
      have := hc.1; rw [renumber_eq_kept, renumber_eq_kept] at this
      exact kept_inj del _ _ hd ha this
    refine ⟨e, he, ?_⟩
    rw [isCtxVertex_delete g del e.src hs] at hc
    simp [this, hc.2]
  · rintro ⟨e, he, hc⟩
    simp only [Bool.and_eq_true, beq_iff_eq] at hc
    have hs : e.src ∉ del := by
      intro hin
      have := h.nonop _ hin
      rw [isCtxVertex_not_nonOp g _ hc.2] at this
      exact absurd this (by simp)
    have hd : e.dst ∉ del := by rw [hc.1]; exact ha
    refine ⟨_, (mem_deleteVertices_es g del _).mpr ⟨e, he, hs, hd, rfl⟩, ?_⟩
    simp only [Bool.and_eq_true, beq_iff_eq]
    rw [isCtxVertex_delete g del e.src hs]
    exact ⟨by rw [hc.1], hc.2⟩

theorem edgeCorr_delete (g : Graph) (del : List Nat) (h : DelOk g del) (a : Nat) (ha : a ∉ del) :
    EdgeCorr g (deleteVertices g del) a (renumber del a) (renumber del) := by
  constructor
  · intro e' he' hsrc
    obtain ⟨e, he, hs, hd, rfl⟩ := (mem_deleteVertices_es g del e').mp he'
    simp only at hsrc
    have : e.src = a := by
      rw [renumber_eq_kept, renumber_eq_kept] at hsrc
      exact kept_inj del _ _ hs ha hsrc
    exact ⟨e, he, this, rfl, rfl⟩
  · intro e he hsrc
    have hs : e.src ∉ del := by rw [hsrc]; exact ha
    have hd : e.dst ∉ del := h.closed e he hs
    exact ⟨_, (mem_deleteVertices_es g del _).mpr ⟨e, he, hs, hd, rfl⟩, by simp [hsrc], rfl, rfl⟩

theorem del_lt (g : Graph) (del : List Nat) (h : DelOk g del) : ∀ d ∈ del, d < g.vs.length :=
  fun d hd => nonOpV_lt g d (h.nonop d hd)

theorem fellOff_delete (g : Graph) (del : List Nat) :
    renumber del g.fellOff = (deleteVertices g del).fellOff := by
  unfold Graph.fellOff; rw [deleteVertices_vs_length]

theorem stuck_delete (g : Graph) (del : List Nat) (h : DelOk g del) :
    renumber del g.stuck = (deleteVertices g del).stuck := by
  unfold Graph.stuck; rw [deleteVertices_vs_length, renumber_eq_kept, renumber_eq_kept, kept_succ]
  have : g.vs.length ∉ del := fun hd => by have := del_lt g del h _ hd; omega
  simp [this]

theorem stepE_delete (g : Graph) (del : List Nat) (h : DelOk g del) (a : Nat) (ha : a ∉ del) :
    (deleteVertices g del).stepE (renumber del a) = mapStep (renumber del) (g.stepE a) := by
  apply stepE_morph g (deleteVertices g del) a (renumber del a) (renumber del)
    (deleteVertices_vs_get g del a ha) (edgeCorr_delete g del h a ha) h.ld (fellOff_delete g del)
    (stuck_delete g del h)
  · intro hnone
    have hge : g.vs.length ≤ a := by
      rcases Nat.lt_or_ge a g.vs.length with hlt | hge
      · rw [List.getElem?_eq_getElem hlt] at hnone; exact absurd hnone (by simp)
      · exact hge
    rw [← fellOff_delete]
    unfold Graph.fellOff
    rw [renumber_eq_kept, renumber_eq_kept, kept_above del g.vs.length (del_lt g del h) a hge]
    omega
  · intro o _
    exact afterCtxE_delete g del h a ha

/-- **(c)** the deletion / renumbering isomorphism -/
theorem deleteVertices_equiv (g : Graph) (del : List Nat) (h : DelOk g del) (a : Nat) (ha : a ∉ del) :
    Equivalent g.ltsE (deleteVertices g del).ltsE a (renumber del a) := by
  apply equiv_of_stepMap g.ltsE (deleteVertices g del).ltsE (renumber del) (fun a => a ∉ del) ?_ a ha
  intro b hb
  refine ⟨stepE_delete g del h b hb, ?_⟩
  apply allSucc_stepE g b (fun a => a ∉ del)
  · intro hd; have := del_lt g del h _ hd; unfold Graph.fellOff at this; omega
  · intro hd; have := del_lt g del h _ hd; unfold Graph.stuck at this; omega
  · intro e he hs
    exact h.closed e he (by rw [hs]; exact hb)

end ESV.Decomp.Opt
