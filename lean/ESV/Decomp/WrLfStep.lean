import ESV.Decomp.WrLfWith
/-
Label-free fragment: the handlers for plain ops (`plain_step`) and the dispatch on the kind of a vertex (`vertex_step`,
`jump_step`), one level of the writer's recursion each.
-/
namespace ESV.Decomp.Wr
open ESV ESV.Beh ESV.Decomp ESV.Decomp.BGraph ESV.Decomp.Opt ESV.Comp

/-- `SimpleOperationWriteHandler` at a plain op vertex whose statement denotes it (`plainVertexOk`) -/
theorem plain_claim (perf : String) (g : BGraph) (fuel ind v : Nat) (x : BVertex) (o : MOp) (pm : Bool) (σ : WSt) (r : VRes)
    (hx : g.vs[v]? = some x) (hop : x.op = .item (.op o)) (hs : x.synthetic = false) (hsw : x.switchStart = none)
    (hpv : plainVertexOk perf g v o = true) (hw : wPlain (fuel + 1) g perf ind v o pm σ = .ok r) :
    lf0L (Stmts.ofList r.out) = true ∧ r.eoj = false ∧ VClaim g v r := by
  unfold plainVertexOk at hpv
  simp only [Bool.and_eq_true] at hpv
  obtain ⟨h2, hk⟩ := hpv
  have h2' : (!endsFlow o.name || !g.toGraph.afterCtxE v) = true := h2
  rw [wPlain] at hw
  cases hkind : simpleKind o.name with
  | simple =>
    simp only [hkind] at hw hk
    have hne : (SimpleKind.simple == SimpleKind.ctx) = false := rfl
    rw [hne] at hk; simp only [Bool.false_eq_true, if_false] at hk
    have hcan : o.params.map canonParam = o.params := by
      simpa [plainIdOk, hkind] using hk
    cases hn : exits01 g v with
    | error e => simp [hn] at hw
    | ok n =>
      simp only [hn] at hw
      cases hw
      refine ⟨lf0L_single _ (by simp [lowerSimple, lf0]), rfl, fun labs N e m hS h1 h0 => ?_⟩
      have hS' := specL_single hS
      simp only [lowerSimple, hcan] at hS'
      exact op_eq g v x o hx hop hs hsw h2' (not_jump_of_kind o.name (by rw [hkind]; decide)) n hn labs N e m hS' h1 h0
  | keyword =>
    simp only [hkind] at hw hk
    have hne : (SimpleKind.keyword == SimpleKind.ctx) = false := rfl
    rw [hne] at hk; simp only [Bool.false_eq_true, if_false] at hk
    have hp : o.params = [] := by
      have : o.params.isEmpty = true := by
        simp only [plainIdOk, hkind, Bool.and_eq_true] at hk
        exact hk.1
      simpa using this
    cases hkw : lowerKeyword o with
    | error e => simp [hkw] at hw
    | ok s =>
      simp only [hkw] at hw
      cases hn : exits01 g v with
      | error e => simp [hn] at hw
      | ok n =>
        simp only [hn] at hw
        cases hw
        refine ⟨lf0L_single _ (lf_keyword o s hkw), rfl, fun labs N e m hS _ _ => ?_⟩
        exact kw_eq g v x o hx hop hs hsw h2' hp s hkw labs N e m (specL_single hS)
  | flag =>
    simp only [hkind] at hw hk
    have hne : (SimpleKind.flag == SimpleKind.ctx) = false := rfl
    rw [hne] at hk; simp only [Bool.false_eq_true, if_false] at hk
    cases hfl : lowerFlag perf o with
    | error e => simp [hfl] at hw
    | ok sb =>
      obtain ⟨s, b⟩ := sb
      simp only [hfl] at hw
      have hs' : s = .op o.name o.params := by
        simp only [plainIdOk, hkind, hfl] at hk
        cases s <;> simp at hk
        rw [hk.1, hk.2]
      cases hn : exits01 g v with
      | error e => simp [hn] at hw
      | ok n =>
        simp only [hn] at hw
        cases hw
        subst hs'
        refine ⟨lf0L_single _ (by simp [lf0]), rfl, fun labs N e m hS h1 h0 => ?_⟩
        exact op_eq g v x o hx hop hs hsw h2' (not_jump_of_kind o.name (by rw [hkind]; decide)) n hn labs N e m (specL_single hS) h1 h0
  | msgCase =>
    simp only [hkind] at hk
    have hne : (SimpleKind.msgCase == SimpleKind.ctx) = false := rfl
    rw [hne] at hk; simp [plainIdOk, hkind] at hk
  | msgSwitch =>
    simp only [hkind] at hk
    have hne : (SimpleKind.msgSwitch == SimpleKind.ctx) = false := rfl
    rw [hne] at hk; simp [plainIdOk, hkind] at hk
  | ctx =>
    simp only [hkind, beq_self_eq_true, if_true] at hw hk
    -- the facts of `lfVertex`: one parameter, one out-edge, behind it a simple op that its statement denotes
    cases hps : o.params with
    | nil => simp [hps] at hk
    | cons p0 prest =>
      cases prest with
      | cons _ _ => simp [hps] at hk
      | nil =>
        cases hes : g.outEs v with
        | nil => simp [hps, hes] at hk
        | cons q qrest =>
          cases qrest with
          | cons _ _ => simp [hps, hes] at hk
          | nil =>
            simp only [hps, hes] at hk
            cases htx : g.vs[q.2.dst]? with
            | none => simp [htx] at hk
            | some tx =>
              simp only [htx, Bool.or_eq_true] at hk
              cases hlc : lowerCtx o with
              | error e => simp [hlc] at hw
              | ok cb =>
                obtain ⟨⟨cname, cps⟩, b⟩ := cb
                have hcn : cname = o.name ∧ cps = [p0] := by
                  unfold lowerCtx at hlc
                  simp only [hps] at hlc
                  split at hlc
                  · simp only [Except.ok.injEq, Prod.mk.injEq] at hlc
                    exact ⟨hlc.1.1.symm, hlc.1.2.symm⟩
                  · cases hlc
                obtain ⟨rfl, rfl⟩ := hcn
                rcases hk with hk | hk
                · -- `Op<actor x>(…)`
                  unfold inlineTargetOk at hk
                  simp only [Bool.and_eq_true, Bool.not_eq_true', Option.isNone_iff_eq_none] at hk
                  obtain ⟨⟨hts, htsw⟩, hto⟩ := hk
                  cases htop : tx.op with
                  | foreign l => simp [htop] at hto
                  | item it =>
                    cases it with
                    | label i => simp [htop] at hto
                    | ljump a b c => simp [htop] at hto
                    | op o' =>
                      simp only [htop, Bool.and_eq_true, beq_iff_eq] at hto
                      obtain ⟨hsim, hcan⟩ := hto
                      have hpk : pyKind tx = .plain o' := by
                        unfold pyKind isJumpObj
                        simp [hts, htop, htsw]
                      have hhi : hinfoOf tx = .ok {} := by unfold hinfoOf; rw [hpk]
                      simp only [hlc, hes, htx, hhi, hpk, hsim, beq_self_eq_true, if_true] at hw
                      cases hn : exits01 g q.2.dst with
                      | error e => simp [hn] at hw
                      | ok n =>
                        simp only [hn] at hw
                        cases hw
                        refine ⟨lf0L_single _ (by simp [lf0, lowerSimple, lfInner]), rfl, fun labs N e m hS h1 h0 => ?_⟩
                        have hS' := specL_single hS
                        simp only [lowerSimple, hcan] at hS'
                        rw [← hps] at hS'
                        exact ctx_pair_eq g v x o hx hop hs hsw hkind q hes tx o' htx htop hts htsw n hn labs N e m hS' h1 h0
                · -- `with (actor x) { $V = 1; }`
                  unfold withTargetOk at hk
                  simp only [Bool.and_eq_true, Bool.not_eq_true', Option.isNone_iff_eq_none] at hk
                  obtain ⟨⟨hts, htsw⟩, hto⟩ := hk
                  cases htop : tx.op with
                  | foreign l => simp [htop] at hto
                  | item it =>
                    cases it with
                    | label i => simp [htop] at hto
                    | ljump a b c => simp [htop] at hto
                    | op o' =>
                      simp only [htop, Bool.and_eq_true, beq_iff_eq] at hto
                      obtain ⟨hfl, hid⟩ := hto
                      have hpk : pyKind tx = .plain o' := by
                        unfold pyKind isJumpObj
                        simp [hts, htop, htsw]
                      have hhi : hinfoOf tx = .ok {} := by unfold hinfoOf; rw [hpk]
                      have hnsim : (simpleKind o'.name == SimpleKind.simple) = false := by rw [hfl]; rfl
                      simp only [hlc, hes, htx, hhi, hpk, hnsim, Bool.false_eq_true, if_false] at hw
                      split at hw
                      · cases hw
                      · cases hrb : wBlock fuel g perf (ind + 1) .once (some v) false (some q.2.dst) true [] none {} [] (σ.addBad b) with
                        | error e => simp [hrb] at hw
                        | ok rb =>
                          simp only [hrb] at hw
                          obtain ⟨hout, hex⟩ := once_block perf g fuel (ind + 1) q.2.dst tx o' (some v) _ rb htx htop hts htsw hfl hid hrb
                          simp only [hout, Except.ok.injEq] at hw
                          subst hw
                          refine ⟨lf0L_single _ (by simp [lf0, lfInner]), rfl, fun labs N e m hS h1 h0 => ?_⟩
                          have hS' := specL_single hS
                          rw [← hps] at hS'
                          exact ctx_pair_eq g v x o hx hop hs hsw hkind q hes tx o' htx htop hts htsw rb.next hex labs N e m hS' h1 h0

end ESV.Decomp.Wr

namespace ESV.Decomp.Wr
open ESV ESV.Beh ESV.Decomp ESV.Decomp.BGraph ESV.Decomp.Opt ESV.Comp

theorem plain_step (perf : String) (g : BGraph) (hg : lfGraph perf g = true) (fuel : Nat) : PPlain perf g (fuel + 1) := by
  intro ind v x o pm σ r hx hop hw
  have hv := lfGraph_vertex hg hx
  unfold lfVertex at hv
  rw [hop] at hv
  simp only [Bool.and_eq_true, Bool.not_eq_true', Option.isNone_iff_eq_none] at hv
  obtain ⟨⟨hs, hsw⟩, hpv⟩ := hv
  obtain ⟨h1, _, h2⟩ := plain_claim perf g fuel ind v x o pm σ r hx hop hs hsw hpv hw
  exact ⟨h1, h2.weaken⟩

/-- the facts of `lfVertex` for an if vertex -/
structure LfIf (perf : String) (x : BVertex) (r : MOp) (lbl : Nat) (id : Nat) : Prop where
  op : x.op = .item (.ljump r lbl false)
  syn : x.synthetic = false
  sw : x.switchStart = none
  ifs : x.ifStart = some id
  marker : markerOf x = .ok (.ifStart id)
  tests : (r :: x.ifOps).all (testIdOk perf) = true

theorem lfIf_of_ok {perf : String} {x : BVertex} {r : MOp} {lbl : Nat} {call : Bool} (hop : x.op = .item (.ljump r lbl call))
    (hs : x.synthetic = false) (hsw : x.switchStart = none) (hk : ifVertexOk perf x r call = true) :
    ∃ id, LfIf perf x r lbl id := by
  unfold ifVertexOk at hk
  simp only [Bool.and_eq_true, Bool.not_eq_true', Option.isSome_iff_exists, Option.isNone_iff_eq_none,
    List.isEmpty_iff] at hk
  obtain ⟨⟨⟨⟨⟨⟨hc, id, hid⟩, hb⟩, hcn⟩, hfs⟩, hfe⟩, ht⟩ := hk
  subst hc
  refine ⟨id, ⟨hop, hs, hsw, hid, ?_, ht⟩⟩
  simp [markerOf, markersOf, callFlag, hop, hid, hsw, hb, hcn, hfs, hfe]

theorem lfIf_of {perf : String} {g : BGraph} {v : Nat} {x : BVertex} (hv : lfVertex perf g v x = true) (hj : isJumpObj x = true) :
    ∃ r lbl id, LfIf perf x r lbl id := by
  unfold lfVertex at hv
  simp only [Bool.and_eq_true, Bool.not_eq_true', Option.isNone_iff_eq_none] at hv
  obtain ⟨⟨hs, hsw⟩, hk⟩ := hv
  cases hop : x.op with
  | foreign l => simp [hop] at hk
  | item it =>
    cases it with
    | label i => simp [hop] at hk
    | op o => simp [isJumpObj, hs, hop, hsw] at hj
    | ljump r lbl call =>
      simp only [hop] at hk
      obtain ⟨id, hf⟩ := lfIf_of_ok hop hs hsw hk
      exact ⟨r, lbl, id, hf⟩

theorem jump_step (perf : String) (g : BGraph) (hg : lfGraph perf g = true) (fuel : Nat) (hIf : PIf perf g fuel) :
    PJump perf g (fuel + 1) := by
  intro ind v x σ r hx hj hw
  obtain ⟨r0, lbl, id, hf⟩ := lfIf_of (lfGraph_vertex hg hx) hj
  rw [wJumpObj] at hw
  simp only [hf.marker] at hw
  exact hIf ind v x id σ r hx hj hw

theorem vertex_step (perf : String) (g : BGraph) (hg : lfGraph perf g = true) (fuel : Nat) (hP : PPlain perf g fuel)
    (hJ : PJump perf g fuel) : PVertex perf g (fuel + 1) := by
  intro ind v x vsb first pm σ r hx hw
  have hv := lfGraph_vertex hg hx
  rw [wVertex] at hw
  by_cases hj : isJumpObj x = true
  · have hpk : pyKind x = .jump := by unfold pyKind; simp [hj]
    simp only [hpk] at hw
    exact hJ ind v x σ r hx hj hw
  · have hv' := hv
    unfold lfVertex at hv'
    simp only [Bool.and_eq_true, Bool.not_eq_true', Option.isNone_iff_eq_none] at hv'
    obtain ⟨⟨hs, hsw⟩, hk⟩ := hv'
    cases hop : x.op with
    | foreign l => simp [hop] at hk
    | item it =>
      cases it with
      | label i => simp [hop] at hk
      | ljump a b c => simp [isJumpObj, hop] at hj
      | op o =>
        have hpk : pyKind x = .plain o := by unfold pyKind; simp [hj, hop]
        simp only [hpk] at hw
        exact hP ind v x o pm σ r hx hop hw

end ESV.Decomp.Wr
