import ESV.Beh.Lts
/-
Congruence lemmas for behavioural equality (`ESV.Beh.Equivalent`): two states that perform the same observable step and whose
successors are behaviourally equal are behaviourally equal; a silent step on either side does not matter.  They allow proofs by
induction along the RECURSION OF THE WRITER (a continuation-passing argument: "if what follows the statement behaves like the next
vertex, the statement behaves like this vertex") instead of a global bisimulation relation.
-/
namespace ESV.Decomp.Wr
open ESV.Beh

variable {ε : Type}

theorem Sim.of_emit {L₁ L₂ : LTS ε} {a a' : L₁.σ} {b b' : L₂.σ} {e : ε}
    (h₁ : L₁.step a = .emit e a') (h₂ : L₂.step b = .emit e b') (h : Sim L₁ L₂ a' b') : Sim L₁ L₂ a b := by
  intro ω n k
  cases n with
  | zero => exact ⟨0, by simp [run], by simp [run]⟩
  | succ n =>
    obtain ⟨m, p, q⟩ := h ω n k
    refine ⟨m + 1, ?_, ?_⟩
    · simp only [run, h₁, h₂]; exact (List.prefix_cons_inj _).mpr p
    · simp only [run, h₁, h₂]; intro hn
      obtain ⟨q1, q2⟩ := q hn
      exact ⟨q1, by rw [q2]⟩

theorem Sim.of_test {L₁ L₂ : LTS ε} {a y n : L₁.σ} {b y' n' : L₂.σ} {e : ε}
    (h₁ : L₁.step a = .test e y n) (h₂ : L₂.step b = .test e y' n') (hy : Sim L₁ L₂ y y') (hn : Sim L₁ L₂ n n') :
    Sim L₁ L₂ a b := by
  intro ω f k
  cases f with
  | zero => exact ⟨0, by simp [run], by simp [run]⟩
  | succ f =>
    have hs : Sim L₁ L₂ (if ω k then y else n) (if ω k then y' else n') := by
      cases ω k <;> simp [hy, hn]
    obtain ⟨m, p, q⟩ := hs ω f (k + 1)
    refine ⟨m + 1, ?_, ?_⟩
    · simp only [run, h₁, h₂]; exact (List.prefix_cons_inj _).mpr p
    · simp only [run, h₁, h₂]; intro hh
      obtain ⟨q1, q2⟩ := q hh
      exact ⟨q1, by rw [q2]⟩

theorem Sim.of_halt {L₁ L₂ : LTS ε} {a : L₁.σ} {b : L₂.σ} {e : ε}
    (h₁ : L₁.step a = .halt e) (h₂ : L₂.step b = .halt e) : Sim L₁ L₂ a b := by
  intro ω n k
  cases n with
  | zero => exact ⟨0, by simp [run], by simp [run]⟩
  | succ n => exact ⟨1, by simp [run, h₁, h₂], by simp [run, h₁, h₂]⟩

theorem Sim.of_silent_left {L₁ L₂ : LTS ε} {a a' : L₁.σ} {b : L₂.σ}
    (h₁ : L₁.step a = .silent a') (h : Sim L₁ L₂ a' b) : Sim L₁ L₂ a b := by
  intro ω n k
  cases n with
  | zero => exact ⟨0, by simp [run], by simp [run]⟩
  | succ n =>
    obtain ⟨m, p, q⟩ := h ω n k
    exact ⟨m, by simp only [run, h₁]; exact p, by simp only [run, h₁]; exact q⟩

theorem Sim.of_silent_right {L₁ L₂ : LTS ε} {a : L₁.σ} {b b' : L₂.σ}
    (h₂ : L₂.step b = .silent b') (h : Sim L₁ L₂ a b') : Sim L₁ L₂ a b := by
  intro ω n k
  obtain ⟨m, p, q⟩ := h ω n k
  exact ⟨m + 1, by simp only [run, h₂]; exact p, by simp only [run, h₂]; exact q⟩

theorem Equivalent.of_emit {L₁ L₂ : LTS ε} {a a' : L₁.σ} {b b' : L₂.σ} {e : ε}
    (h₁ : L₁.step a = .emit e a') (h₂ : L₂.step b = .emit e b') (h : Equivalent L₁ L₂ a' b') : Equivalent L₁ L₂ a b :=
  ⟨Sim.of_emit h₁ h₂ h.1, Sim.of_emit h₂ h₁ h.2⟩

theorem Equivalent.of_test {L₁ L₂ : LTS ε} {a y n : L₁.σ} {b y' n' : L₂.σ} {e : ε}
    (h₁ : L₁.step a = .test e y n) (h₂ : L₂.step b = .test e y' n') (hy : Equivalent L₁ L₂ y y')
    (hn : Equivalent L₁ L₂ n n') : Equivalent L₁ L₂ a b :=
  ⟨Sim.of_test h₁ h₂ hy.1 hn.1, Sim.of_test h₂ h₁ hy.2 hn.2⟩

theorem Equivalent.of_halt {L₁ L₂ : LTS ε} {a : L₁.σ} {b : L₂.σ} {e : ε}
    (h₁ : L₁.step a = .halt e) (h₂ : L₂.step b = .halt e) : Equivalent L₁ L₂ a b :=
  ⟨Sim.of_halt h₁ h₂, Sim.of_halt h₂ h₁⟩

theorem Equivalent.of_silent_left {L₁ L₂ : LTS ε} {a a' : L₁.σ} {b : L₂.σ}
    (h₁ : L₁.step a = .silent a') (h : Equivalent L₁ L₂ a' b) : Equivalent L₁ L₂ a b :=
  ⟨Sim.of_silent_left h₁ h.1, Sim.of_silent_right h₁ h.2⟩

theorem Equivalent.of_silent_right {L₁ L₂ : LTS ε} {a : L₁.σ} {b b' : L₂.σ}
    (h₂ : L₂.step b = .silent b') (h : Equivalent L₁ L₂ a b') : Equivalent L₁ L₂ a b :=
  ⟨Sim.of_silent_right h₂ h.1, Sim.of_silent_left h₂ h.2⟩

end ESV.Decomp.Wr
