import ESV.Decomp.GraphInv
import ESV.Decomp.GraphGuard
/-
What `nextFor` returns, item kind by item kind, as facts about the two optional fall-through entries
(`n1F`, `holdF`) and the jump entry.
-/
namespace ESV.Decomp
open ESV.Beh

theorem n1F_mem (opt : Bool) (items : List Item) (lv i : Nat) (prev it : Item) (p : Nat × Nat)
    (h : p ∈ n1F opt items lv i prev it) : p = (lv, i+1) ∧ i + 1 < items.length := by
  unfold n1F at h
  split at h
  · rename_i hc
    simp only [Bool.and_eq_true, decide_eq_true_eq] at hc
    simp at h
    exact ⟨h, by omega⟩
  · simp at h

theorem holdF_mem (opt : Bool) (items : List Item) (lv i : Nat) (prev it : Item) (p : Nat × Nat)
    (h : p ∈ holdF opt items lv i prev it) : p = (lv, i+1) ∧ i + 1 < items.length := by
  unfold holdF at h
  split at h
  · rename_i hc
    simp only [Bool.and_eq_true, decide_eq_true_eq] at hc
    split at h
    · split at h
      · simp at h; exact ⟨h, by omega⟩
      · simp at h
    · simp at h
  · simp at h

theorem n1F_eq (opt : Bool) (items : List Item) (lv i : Nat) (prev it : Item) (hlt : i + 1 < items.length)
    (hg : ESV.Gen.opsJumpGuaranteed.contains (realName it) = false)
    (h : (ESV.Gen.opsCtx.contains (itemName prev) || !opt) = true ∨
      ESV.Gen.opsEndFlow.contains (realName it) = false) :
    n1F opt items lv i prev it = [(lv, i+1)] := by
  unfold n1F
  rw [if_pos]
  rw [hg]
  have : decide (items.length > i + 1) = true := by simpa using hlt
  rw [this]
  rcases h with h | h
  · rw [h]; rfl
  · rw [h]; simp

theorem guaranteed_of_endFlow_false (n : String) (h : ESV.Spec.opsEndFlow.contains n = false) :
    ESV.Spec.opsJumpGuaranteed.contains n = false := by
  simp only [ESV.Spec.opsEndFlow, ESV.Spec.opsJumpGuaranteed, List.contains_eq_mem, List.mem_cons,
    List.not_mem_nil, or_false, decide_eq_false_iff_not, not_or] at *
  exact ⟨h.1, h.2.1⟩

theorem labelIndex_lt (items : List Item) (lid li : Nat) (h : labelIndex items lid = some li) :
    li < items.length := by
  unfold labelIndex at h
  obtain ⟨hlt, _⟩ := List.findIdx?_eq_some_iff_getElem.mp h
  exact hlt

theorem prefix_getElem? {α} (l1 l2 : List α) (h : l1 <+: l2) (i : Nat) (x : α) (hx : l1[i]? = some x) :
    l2[i]? = some x := by
  obtain ⟨t, rfl⟩ := h
  have hlt : i < l1.length := by
    rcases Nat.lt_or_ge i l1.length with h | h
    · exact h
    · rw [List.getElem?_eq_none h] at hx; simp at hx
  rw [List.getElem?_append_left hlt, hx]

theorem nextFor_label (labels : List Lbl) (opt : Bool) (rid : Nat) (items : List Item) (g0 g1 : Graph)
    (lv i : Nat) (S : List (Nat × Nat)) (prev : Item) (id : Nat)
    (hp : prevItem items i = some prev) (hi : items[i]? = some (.label id))
    (h : nextFor labels opt rid items g0 lv i = .ok (S, g1)) :
    S = n1F opt items lv i prev (.label id) ++ holdF opt items lv i prev (.label id) := by
  rw [nextFor_some labels opt rid items g0 lv i prev _ hp hi] at h
  simp at h
  exact h.1.symm

theorem nextFor_op (labels : List Lbl) (opt : Bool) (rid : Nat) (items : List Item) (g0 g1 : Graph)
    (lv i : Nat) (S : List (Nat × Nat)) (prev : Item) (o : MOp)
    (hp : prevItem items i = some prev) (hi : items[i]? = some (.op o))
    (h : nextFor labels opt rid items g0 lv i = .ok (S, g1)) :
    S = n1F opt items lv i prev (.op o) ++ holdF opt items lv i prev (.op o) := by
  rw [nextFor_some labels opt rid items g0 lv i prev _ hp hi] at h
  simp at h
  exact h.1.symm

theorem nextFor_ljump (labels : List Lbl) (opt : Bool) (rid : Nat) (items : List Item) (g0 g1 : Graph)
    (lv i : Nat) (S : List (Nat × Nat)) (prev : Item) (r : MOp) (lid : Nat) (c : Bool)
    (hp : prevItem items i = some prev) (hi : items[i]? = some (.ljump r lid c))
    (h : nextFor labels opt rid items g0 lv i = .ok (S, g1)) :
    ∃ l, labels.find? (fun l => l.id == lid) = some l ∧
      (((l.rtn == rid) = true ∧ ∃ li, labelIndex items lid = some li ∧
          S = n1F opt items lv i prev (.ljump r lid c) ++ [(lv + 1, li)] ++ holdF opt items lv i prev (.ljump r lid c)) ∨
       ((l.rtn == rid) = false ∧
          S = n1F opt items lv i prev (.ljump r lid c) ++ [(lv + 1, g0.vs.length)] ++ holdF opt items lv i prev (.ljump r lid c) ∧
          g1.vs = g0.vs ++ [.foreign lid])) := by
  rw [nextFor_some labels opt rid items g0 lv i prev _ hp hi] at h
  simp only at h
  cases hf : labels.find? fun l => l.id == lid with
  | none => simp [hf] at h
  | some l =>
    refine ⟨l, rfl, ?_⟩
    simp only [hf] at h
    cases hr : l.rtn == rid with
    | true =>
      left; refine ⟨rfl, ?_⟩
      simp only [hr, if_true] at h
      cases hli : labelIndex items lid with
      | none => simp [hli] at h
      | some li =>
        simp only [hli] at h
        refine ⟨li, rfl, ?_⟩
        simp only [Except.ok.injEq, Prod.mk.injEq] at h
        exact h.1.symm
    | false =>
      right; refine ⟨rfl, ?_⟩
      simp only [hr] at h
      simp only [Bool.false_eq_true, if_false, Except.ok.injEq, Prod.mk.injEq] at h
      refine ⟨h.1.symm, ?_⟩
      rw [← h.2]

end ESV.Decomp
