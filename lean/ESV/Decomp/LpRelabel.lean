import ESV.Decomp.LpSem
/-
Changing the flow levels and loop flags of edges does not change the step function as long as, among the out-edges of every
vertex that is read by its flow levels, the ORDER of the levels stays the same (`LvOk`).  Ifs and switches do not read flow levels
at all; igraph's incident order does not depend on them; the loop flag is read by nothing.
-/
namespace ESV.Decomp.Lp
open ESV.Beh ESV.Decomp ESV.Decomp.Opt ESV.Decomp.Gr ESV.Decomp.Sw

/-- an edge with another flow level and loop flag (neither is read by an if or a switch; the loop flag is read by nothing) -/
def relF (lv : BEdge → Nat) (lp : BEdge → Bool) (e : BEdge) : BEdge := { e with level := lv e, loop := lp e }

/-- the graph with the flow levels and loop flags of its edges replaced -/
def relG (g : BGraph) (lv : BEdge → Nat) (lp : BEdge → Bool) : BGraph := { g with es := g.es.map (relF lv lp) }

/-- among the out-edges of every vertex that is read by its flow levels the ORDER of the levels stays the same -/
def LvOk (g : BGraph) (lv : BEdge → Nat) : Prop :=
  ∀ v, g.levelRead v = true → ∀ x y : BEdge, (x ∈ g.es ∧ x.src = v) → (y ∈ g.es ∧ y.src = v) → (x.level < y.level ↔ lv x < lv y)

variable (g : BGraph) (lv : BEdge → Nat) (lp : BEdge → Bool)

theorem relG_vs : (relG g lv lp).vs = g.vs := rfl

def cmpE (a b : Nat × BEdge) : Bool := a.2.dst < b.2.dst || (a.2.dst == b.2.dst && a.1 > b.1)

theorem outEs_rel (v : Nat) : (relG g lv lp).outEs v = (g.outEs v).map fun p => (p.1, relF lv lp p.2) := by
  unfold BGraph.outEs relG
  rw [← sortBy_map (fun a b => a.2.dst < b.2.dst || (a.2.dst == b.2.dst && a.1 > b.1))
    (fun a b => a.2.dst < b.2.dst || (a.2.dst == b.2.dst && a.1 > b.1)) (fun p : Nat × BEdge => (p.1, relF lv lp p.2))
    (fun x y => rfl)]
  congr 1
  simp only [List.zipIdx_map, List.filter_map, List.map_map]
  rfl

theorem firstElse_rel (v : Nat) : (relG g lv lp).firstElse v = (g.firstElse v).map fun p => (p.1, relF lv lp p.2) := by
  unfold BGraph.firstElse
  rw [outEs_rel, List.find?_map]
  rfl

theorem firstIf_rel (v : Nat) : (relG g lv lp).firstIf v = (g.firstIf v).map fun p => (p.1, relF lv lp p.2) := by
  unfold BGraph.firstIf
  rw [outEs_rel, List.find?_map]
  rfl

theorem toGraph_stuck_rel : (relG g lv lp).toGraph.stuck = g.toGraph.stuck := by
  rw [toGraph_stuck, toGraph_stuck]; rfl

theorem toGraph_fellOff_rel : (relG g lv lp).toGraph.fellOff = g.toGraph.fellOff := by
  rw [toGraph_fellOff, toGraph_fellOff]; rfl

theorem ifTarget_rel (v : Nat) : (relG g lv lp).ifTarget v = g.ifTarget v := by
  unfold BGraph.ifTarget
  rw [firstIf_rel, toGraph_stuck_rel]
  cases g.firstIf v <;> rfl

theorem elseTarget_rel (v : Nat) : (relG g lv lp).elseTarget v = g.elseTarget v := by
  unfold BGraph.elseTarget
  rw [firstElse_rel, toGraph_stuck_rel]
  cases g.firstElse v <;> rfl

theorem switchElse_rel (v : Nat) : (relG g lv lp).switchElse v = g.switchElse v := by
  unfold BGraph.switchElse
  rw [firstElse_rel, toGraph_fellOff_rel]
  cases g.firstElse v <;> rfl

theorem caseTriples_rel (v : Nat) : (relG g lv lp).caseTriples v = g.caseTriples v := by
  unfold BGraph.caseTriples
  rw [outEs_rel, List.flatMap_map]
  rfl

theorem nextTest_rel (v i : Nat) : (relG g lv lp).nextTest v i = g.nextTest v i := by
  unfold BGraph.nextTest; rw [caseTriples_rel]

theorem switchNext_rel (v i : Nat) : (relG g lv lp).switchNext v i = g.switchNext v i := by
  unfold BGraph.switchNext; rw [nextTest_rel, switchElse_rel]

theorem afterCtxE_rel (v : Nat) : (relG g lv lp).toGraph.afterCtxE v = g.toGraph.afterCtxE v := by
  apply afterCtxE_congr
  · intro e' he' hd hc
    obtain ⟨e, he, rfl⟩ := List.mem_map.mp he'
    exact ⟨e, he, hd, by rw [isCtxVertex_eq] at hc ⊢; exact hc⟩
  · intro e he hd hc
    exact ⟨relF lv lp e, List.mem_map.mpr ⟨e, he, rfl⟩, hd, by rw [isCtxVertex_eq] at hc ⊢; exact hc⟩

/-! ## the level-read vertices -/

def pickLowBy {α : Type} (lv : α → Nat) (acc : Option α) (e : α) : Option α :=
  match acc with
  | none => some e
  | some a => if lv e < lv a then some e else some a

def pickHighBy {α : Type} (lv : α → Nat) (acc : Option α) (e : α) : Option α :=
  match acc with
  | none => some e
  | some a => if lv e > lv a then some e else some a

theorem foldl_low_congr {α : Type} (lv lv' : α → Nat) (S : α → Prop)
    (h : ∀ x y, S x → S y → (lv x < lv y ↔ lv' x < lv' y)) :
    ∀ (l : List α) (acc : Option α), (∀ x ∈ l, S x) → (∀ a, acc = some a → S a) →
      l.foldl (pickLowBy lv) acc = l.foldl (pickLowBy lv') acc ∧ ∀ r, l.foldl (pickLowBy lv) acc = some r → S r := by
  intro l
  induction l with
  | nil => intro acc _ ha; exact ⟨rfl, ha⟩
  | cons x xs ih =>
    intro acc hl ha
    simp only [List.foldl_cons]
    have hx : S x := hl x (List.mem_cons_self ..)
    have e1 : pickLowBy lv acc x = pickLowBy lv' acc x := by
      cases acc with
      | none => rfl
      | some a =>
        simp only [pickLowBy]
        have := h x a hx (ha a rfl)
        by_cases hc : lv x < lv a
        · rw [if_pos hc, if_pos (this.mp hc)]
        · rw [if_neg hc, if_neg (fun hh => hc (this.mpr hh))]
    have hacc' : ∀ a, pickLowBy lv acc x = some a → S a := by
      intro a
      cases acc with
      | none => intro heq; simp only [pickLowBy, Option.some.injEq] at heq; subst heq; exact hx
      | some b =>
        simp only [pickLowBy]
        split
        · intro heq; simp only [Option.some.injEq] at heq; subst heq; exact hx
        · intro heq; simp only [Option.some.injEq] at heq; subst heq; exact ha b rfl
    have := ih (pickLowBy lv acc x) (fun y hy => hl y (List.mem_cons_of_mem _ hy)) hacc'
    rw [← e1]; exact this

theorem foldl_high_congr {α : Type} (lv lv' : α → Nat) (S : α → Prop)
    (h : ∀ x y, S x → S y → (lv x < lv y ↔ lv' x < lv' y)) :
    ∀ (l : List α) (acc : Option α), (∀ x ∈ l, S x) → (∀ a, acc = some a → S a) →
      l.foldl (pickHighBy lv) acc = l.foldl (pickHighBy lv') acc ∧ ∀ r, l.foldl (pickHighBy lv) acc = some r → S r := by
  intro l
  induction l with
  | nil => intro acc _ ha; exact ⟨rfl, ha⟩
  | cons x xs ih =>
    intro acc hl ha
    simp only [List.foldl_cons]
    have hx : S x := hl x (List.mem_cons_self ..)
    have e1 : pickHighBy lv acc x = pickHighBy lv' acc x := by
      cases acc with
      | none => rfl
      | some a =>
        simp only [pickHighBy]
        have := h a x (ha a rfl) hx
        by_cases hc : lv x > lv a
        · rw [if_pos hc, if_pos (this.mp hc)]
        · rw [if_neg hc, if_neg (fun hh => hc (this.mpr hh))]
    have hacc' : ∀ a, pickHighBy lv acc x = some a → S a := by
      intro a
      cases acc with
      | none => intro heq; simp only [pickHighBy, Option.some.injEq] at heq; subst heq; exact hx
      | some b =>
        simp only [pickHighBy]
        split
        · intro heq; simp only [Option.some.injEq] at heq; subst heq; exact hx
        · intro heq; simp only [Option.some.injEq] at heq; subst heq; exact ha b rfl
    have := ih (pickHighBy lv acc x) (fun y hy => hl y (List.mem_cons_of_mem _ hy)) hacc'
    rw [← e1]; exact this

theorem foldl_pickLow_of {α : Type} (f : α → Edge) (l : List α) (acc : Option α) :
    (l.map f).foldl pickLow (acc.map f) = (l.foldl (pickLowBy fun x => (f x).level) acc).map f := by
  induction l generalizing acc with
  | nil => rfl
  | cons x xs ih =>
    simp only [List.map_cons, List.foldl_cons]
    have : pickLow (acc.map f) (f x) = (pickLowBy (fun x => (f x).level) acc x).map f := by
      cases acc with
      | none => rfl
      | some a => simp only [pickLow, pickLowBy, Option.map_some]; split <;> rfl
    rw [this, ih]

theorem foldl_pickHigh_of {α : Type} (f : α → Edge) (l : List α) (acc : Option α) :
    (l.map f).foldl pickHigh (acc.map f) = (l.foldl (pickHighBy fun x => (f x).level) acc).map f := by
  induction l generalizing acc with
  | nil => rfl
  | cons x xs ih =>
    simp only [List.map_cons, List.foldl_cons]
    have : pickHigh (acc.map f) (f x) = (pickHighBy (fun x => (f x).level) acc x).map f := by
      cases acc with
      | none => rfl
      | some a => simp only [pickHigh, pickHighBy, Option.map_some]; split <;> rfl
    rw [this, ih]

/-- the out-edges of `v` in igraph's order -/
def outB (v : Nat) : List BEdge := (g.outEs v).map (·.2)

theorem outL_toGraph (v : Nat) : outL g.toGraph v = (outB g v).map BEdge.toEdge := by
  unfold outL outB; rw [outEdges_toGraph]; simp only [List.map_map]; rfl

theorem outL_rel (v : Nat) : outL (relG g lv lp).toGraph v = (outB g v).map fun e => (relF lv lp e).toEdge := by
  unfold outL outB; rw [outEdges_toGraph, outEs_rel]; simp only [List.map_map]; rfl

theorem mem_outB (v : Nat) (e : BEdge) (h : e ∈ outB g v) : e ∈ g.es ∧ e.src = v := by
  unfold outB at h
  obtain ⟨p, hp, rfl⟩ := List.mem_map.mp h
  obtain ⟨h1, h2⟩ := (mem_outEs g v p.1 p.2).mp hp
  exact ⟨List.mem_of_getElem? h1, h2⟩

variable {g lv lp}

theorem lowest_rel (h : LvOk g lv) (v : Nat) (hlr : g.levelRead v = true) :
    ∃ r : Option BEdge, g.toGraph.lowest v = r.map BEdge.toEdge ∧
      (relG g lv lp).toGraph.lowest v = r.map (fun e => (relF lv lp e).toEdge) ∧ ∀ b, r = some b → b ∈ g.es ∧ b.src = v := by
  rw [lowest_eq, lowest_eq, outL_toGraph, outL_rel]
  have e1 := foldl_pickLow_of BEdge.toEdge (outB g v) none
  have e2 := foldl_pickLow_of (fun e => (relF lv lp e).toEdge) (outB g v) none
  simp only [Option.map_none] at e1 e2
  have hc := foldl_low_congr (fun x : BEdge => (BEdge.toEdge x).level) (fun x : BEdge => ((relF lv lp x).toEdge).level)
    (fun e => e ∈ g.es ∧ e.src = v) (fun x y hx hy => h v hlr x y hx hy) (outB g v) none
    (fun x hx => mem_outB g v x hx) (by simp)
  refine ⟨_, e1, ?_, hc.2⟩
  rw [e2, ← hc.1]

theorem highest_rel (h : LvOk g lv) (v : Nat) (hlr : g.levelRead v = true) :
    ∃ r : Option BEdge, g.toGraph.highest v = r.map BEdge.toEdge ∧
      (relG g lv lp).toGraph.highest v = r.map (fun e => (relF lv lp e).toEdge) ∧ ∀ b, r = some b → b ∈ g.es ∧ b.src = v := by
  rw [highest_eq, highest_eq, outL_toGraph, outL_rel]
  have e1 := foldl_pickHigh_of BEdge.toEdge (outB g v) none
  have e2 := foldl_pickHigh_of (fun e => (relF lv lp e).toEdge) (outB g v) none
  simp only [Option.map_none] at e1 e2
  have hc := foldl_high_congr (fun x : BEdge => (BEdge.toEdge x).level) (fun x : BEdge => ((relF lv lp x).toEdge).level)
    (fun e => e ∈ g.es ∧ e.src = v) (fun x y hx hy => h v hlr x y hx hy) (outB g v) none
    (fun x hx => mem_outB g v x hx) (by simp)
  refine ⟨_, e1, ?_, hc.2⟩
  rw [e2, ← hc.1]

theorem fall_rel (h : LvOk g lv) (v : Nat) (hlr : g.levelRead v = true) :
    (relG g lv lp).toGraph.fall v = g.toGraph.fall v := by
  obtain ⟨lo, l1, l2, _⟩ := lowest_rel (lp := lp) h v hlr
  unfold Graph.fall; rw [l1, l2, toGraph_fellOff_rel]; cases lo <;> rfl

theorem stepE_rel (h : LvOk g lv) (v : Nat) (hlr : g.levelRead v = true) :
    (relG g lv lp).toGraph.stepE v = g.toGraph.stepE v := by
  obtain ⟨lo, l1, l2, l3⟩ := lowest_rel (lp := lp) h v hlr
  obtain ⟨hi, h1, h2, h3⟩ := highest_rel (lp := lp) h v hlr
  have hfall := fall_rel (lp := lp) h v hlr
  have hjt : (relG g lv lp).toGraph.jumpTarget v = g.toGraph.jumpTarget v := by
    unfold Graph.jumpTarget; rw [h1, h2, toGraph_stuck_rel]; cases hi <;> rfl
  have hfj : (relG g lv lp).toGraph.fallOfJump v = g.toGraph.fallOfJump v := by
    unfold Graph.fallOfJump; rw [l1, l2, h1, h2, toGraph_fellOff_rel]
    cases lo with
    | none => rfl
    | some a =>
      cases hi with
      | none => rfl
      | some b =>
        simp only [Option.map_some]
        have := h v hlr a b (l3 a rfl) (h3 b rfl)
        show (if lv a < lv b then a.dst else _) = (if a.level < b.level then a.dst else _)
        by_cases hc : a.level < b.level
        · rw [if_pos hc, if_pos (this.mp hc)]
        · rw [if_neg hc, if_neg (fun hh => hc (this.mpr hh))]
  unfold Graph.stepE
  rw [toGraph_fellOff_rel, hfall, hjt, hfj, afterCtxE_rel]
  rfl

theorem switchStep_rel (a j : Nat) (o : MOp) : (relG g lv lp).switchStep a j o = g.switchStep a j o := by
  unfold BGraph.switchStep
  cases j with
  | zero => simp only [afterCtxE_rel, switchNext_rel]
  | succ i => simp only [nextTest_rel, switchNext_rel]

theorem ifStep_rel (a j : Nat) (x : BVertex) : (relG g lv lp).ifStep a j x = g.ifStep a j x := by
  unfold BGraph.ifStep BGraph.takenOf BGraph.notTakenOf
  simp only [ifTarget_rel, elseTarget_rel]

theorem stepPS_rel (h : LvOk g lv) (a j : Nat) : (relG g lv lp).stepPS (a, j) = g.stepPS (a, j) := by
  have hsw : (relG g lv lp).isSwitchV a = g.isSwitchV a := rfl
  have hif : (relG g lv lp).isIfV a = g.isIfV a := rfl
  have hvs : (relG g lv lp).vs[a]? = g.vs[a]? := rfl
  unfold BGraph.stepPS
  simp only [hsw]
  cases hs : g.isSwitchV a with
  | true =>
    simp only [if_true]
    rw [hvs]
    split
    · exact switchStep_rel a j _
    · rfl
  | false =>
    simp only [Bool.false_eq_true, if_false]
    unfold BGraph.stepP
    simp only [hif]
    cases hi : g.isIfV a with
    | true =>
      simp only [if_true]
      rw [hvs]
      cases g.vs[a]? with
      | none => rfl
      | some x => exact ifStep_rel a j x
    | false =>
      simp only [Bool.false_eq_true, if_false]
      rw [stepE_rel (lp := lp) h a (levelRead_of hi hs)]

/-- **the step function does not see the new levels and loop flags** -/
theorem stepPL_rel (h : LvOk g lv) (hsp : ∀ a, g.isSynV a = true → g.levelRead a = true) :
    (relG g lv lp).stepPL = g.stepPL := by
  funext ⟨a, j⟩
  have hsyn : (relG g lv lp).isSynV a = g.isSynV a := rfl
  cases hs : g.isSynV a with
  | true =>
    rw [stepPL_syn g a j hs, stepPL_syn (relG g lv lp) a j (by rw [hsyn]; exact hs), fall_rel (lp := lp) h a (hsp a hs)]
  | false =>
    rw [stepPL_of_not_syn g (a, j) hs, stepPL_of_not_syn (relG g lv lp) (a, j) (by rw [hsyn]; exact hs)]
    exact stepPS_rel (lp := lp) h a j

/-- new levels that keep the order keep the determinacy of the readings -/
theorem det_rel (hdet : Det g) (hr : LvOk g lv) : Det (relG g lv lp) := by
  have hmem : ∀ x ∈ (relG g lv lp).es, ∃ e ∈ g.es, x = relF lv lp e := by
    intro x hx
    obtain ⟨e, he, rfl⟩ := List.mem_map.mp hx
    exact ⟨e, he, rfl⟩
  constructor
  · intro x hx x' hx' hs hl hlv
    obtain ⟨e, he, rfl⟩ := hmem x hx
    obtain ⟨e', he', rfl⟩ := hmem x' hx'
    have hl' : g.levelRead e.src = true := hl
    have h1 := hr e.src hl' e e' ⟨he, rfl⟩ ⟨he', hs.symm⟩
    have h2 := hr e.src hl' e' e ⟨he', hs.symm⟩ ⟨he, rfl⟩
    have hlv' : lv e = lv e' := hlv
    have : e.level = e'.level := by
      rcases Nat.lt_trichotomy e.level e'.level with h | h | h
      · have := h1.mp h; omega
      · exact h
      · have := h2.mp h; omega
    exact hdet.lvl e he e' he' hs hl' this
  · intro x hx x' hx' hs hl hlv
    obtain ⟨e, he, rfl⟩ := hmem x hx
    obtain ⟨e', he', rfl⟩ := hmem x' hx'
    exact hdet.flag e he e' he' hs hl hlv
  · intro x hx x' hx' hs hl h1 h2
    obtain ⟨e, he, rfl⟩ := hmem x hx
    obtain ⟨e', he', rfl⟩ := hmem x' hx'
    exact hdet.els e he e' he' hs hl h1 h2
  · intro x hx x' hx' hs hl t ht t' ht' hix
    obtain ⟨e, he, rfl⟩ := hmem x hx
    obtain ⟨e', he', rfl⟩ := hmem x' hx'
    exact hdet.idx e he e' he' hs hl t ht t' ht' hix

/-- forgetting the loop flags (read by nothing) -/
def unloop (g : BGraph) : BGraph := relG g (fun e => e.level) (fun _ => false)

theorem lvOk_id (g : BGraph) : LvOk g (fun e => e.level) := fun _ _ _ _ _ _ => Iff.rfl

theorem stepPL_unloop (g : BGraph) (hsp : ∀ a, g.isSynV a = true → g.levelRead a = true) : (unloop g).stepPL = g.stepPL :=
  stepPL_rel (lvOk_id g) hsp

theorem det_unloop (g : BGraph) (hdet : Det g) : Det (unloop g) := det_rel hdet (lvOk_id g)

end ESV.Decomp.Lp
