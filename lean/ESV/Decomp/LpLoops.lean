import ESV.Decomp.LpLoopStep
/-
`build_loops` preserves behaviour: one loop construction (`record_equiv`, a single application of `equiv_of_skipMap`), then all
of them.
-/
namespace ESV.Decomp.Lp
open ESV.Beh ESV.Decomp ESV.Decomp.Opt ESV.Decomp.Gr ESV.Decomp.Sw

section
variable {C : Nat → Prop} {g gc : BGraph} {v : Nat} {toDel : List Nat} {sp : List Split}

/-- an inserted vertex steps silently to the target of the edge it splits -/
theorem syn_step (h : LoopCtx C g gc v toDel sp) (s : Split) (hs : s ∈ sp) :
    (unloop (gc.delEdges toDel)).stepPL (s.m, 0) = .silent (s.e.dst, 0) := by
  have hsyn : (unloop (gc.delEdges toDel)).isSynV s.m = true := h.syn_m s hs
  rw [stepPL_syn _ s.m 0 hsyn, if_pos rfl]
  congr 2
  have hout : unl (outE v s) ∈ (unloop (gc.delEdges toDel)).es :=
    (mem_unloop _ _).mpr ⟨outE v s, (h.inv.mem_after _).mpr (Or.inr ⟨s, hs, Or.inr rfl⟩), rfl⟩
  have hosrc : (unl (outE v s)).src = s.m := by unfold outE; cases s.isBreak <;> rfl
  obtain ⟨k, hk, hm⟩ := h.inv.m_of s hs
  unfold Graph.fall
  rcases lowest_char (unloop (gc.delEdges toDel)) s.m with ⟨_, h2⟩ | ⟨b, hb, hsb, h1, _⟩
  · exact absurd hosrc (h2 _ hout)
  · rw [h1]
    show b.dst = s.e.dst
    obtain ⟨x, hx, rfl⟩ := (mem_unloop _ b).mp hb
    have hxs : x.src = s.m := hsb
    rcases (h.inv.mem_after x).mp hx with ⟨p, _, hp⟩ | ⟨s', hs', rfl | rfl⟩
    · have := (edgesInRange_spec g h.range x (List.mem_of_getElem? hp)).1; omega
    · have := (edgesInRange_spec g h.range s'.e (List.mem_of_getElem? (h.inv.pos s' hs'))).1
      have e1 : (copyE s').src = s'.e.src := by unfold copyE; cases s'.isBreak <;> rfl
      omega
    · obtain ⟨k', hk', hm'⟩ := h.inv.m_of s' hs'
      have e1 : (outE v s').src = s'.m := by unfold outE; cases s'.isBreak <;> rfl
      have : k' = k := by omega
      subst this
      rw [hk] at hk'
      have : s' = s := by simpa using hk'.symm
      subst this
      show (outE v s').dst = s'.e.dst
      exact h.out_dst s' hs'

theorem record_equivU (h : LoopCtx C g gc v toDel sp) :
    Equivalent (unloop (gc.delEdges toDel)).ltsPL (unloop g).ltsPL (0, 0) (0, 0) := by
  let U' := unloop (gc.delEdges toDel)
  let U := unloop g
  let n := g.vs.length
  let ρ := rho n sp
  let P : Nat × Nat → Prop := fun p => p.1 < n ∨ n + sp.length ≤ p.1 ∨ p.2 = 0
  have hlen' : U'.vs.length = n + sp.length := h.inv.len
  have hdetU' : Det U' := det_unloop _ h.det
  have hkind' : ∀ a, U'.isSynV a = true → U'.isIfV a = false ∧ U'.isSwitchV a = false :=
    fun a ha => synPlain_kind (gc.delEdges toDel) h.synp a ha
  have hsm : StateMap U' U ρ := by
    constructor
    · show rho n sp U'.vs.length = n
      rw [hlen', rho_ge n sp _ (Nat.le_refl _)]; omega
    · show rho n sp (U'.vs.length + 1) = n + 1
      rw [hlen', rho_ge n sp _ (by omega)]; omega
  have hsucc : ∀ a j, (a < n ∨ n + sp.length ≤ a) → allSucc P (U'.stepPL (a, j)) := by
    intro a j ha
    refine allSucc_imp ?_ _ (succ_readL U' a j (fun hs => (hkind' a hs).2))
    rintro p (h1 | ⟨h1, _⟩)
    · rcases ha with ha | ha
      · left; rw [h1]; exact ha
      · right; left; rw [h1]; exact ha
    · right; right; exact h1
  have hold : ∀ a j, a < n → Strong U'.ltsPL U.ltsPL (pmap ρ) P (a, j) := by
    intro a j ha
    have hρa : ρ a = a := rho_old n sp a ha
    refine ⟨?_, hsucc a j (Or.inl ha)⟩
    show U.stepPL (ρ a, j) = mapStep (pmap ρ) (U'.stepPL (a, j))
    apply stepPL_congr hdetU' hsm a j
    · rw [hρa]; exact h.sameOld a ha
    · intro hnone
      exfalso
      have : a < U'.vs.length := by rw [hlen']; omega
      rw [List.getElem?_eq_getElem this] at hnone; cases hnone
    · exact old_corr h a ha
    · intro o _ _
      rw [hρa]; exact old_ctx h a ha
    · exact hkind' a
  have hfar : ∀ a j, n + sp.length ≤ a → Strong U'.ltsPL U.ltsPL (pmap ρ) P (a, j) := by
    intro a j ha
    have hρa : ρ a = a - sp.length := rho_ge n sp a ha
    have hn1 : U'.vs[a]? = none := List.getElem?_eq_none (by rw [hlen']; exact ha)
    have hn2 : U.vs[ρ a]? = none := List.getElem?_eq_none (by rw [hρa]; show n ≤ a - sp.length; omega)
    refine ⟨?_, hsucc a j (Or.inr ha)⟩
    show U.stepPL (ρ a, j) = mapStep (pmap ρ) (U'.stepPL (a, j))
    apply stepPL_congr hdetU' hsm a j
    · unfold SameVL; rw [hn1, hn2]
    · intro _
      rw [hρa, hlen']
      show (a - sp.length == n) = (a == n + sp.length)
      rw [Bool.eq_iff_iff]
      simp only [beq_iff_eq]
      omega
    · exact far_corr h a ha
    · intro o ho _
      rw [hn1] at ho; simp at ho
    · exact hkind' a
  have hρ0 : pmap ρ (0, 0) = (0, 0) := by
    simp only [pmap]
    show (rho n sp 0, 0) = (0, 0)
    by_cases hn : 0 < n
    · rw [rho_old n sp 0 hn]
    · have hsp : sp = [] := by
        cases hsp : sp with
        | nil => rfl
        | cons s rest =>
          exfalso
          have hs : s ∈ sp := by rw [hsp]; simp
          have := (edgesInRange_spec g h.range s.e (List.mem_of_getElem? (h.inv.pos s hs))).1
          omega
      rw [rho_ge n sp 0 (by rw [hsp]; simp; omega), hsp]; rfl
  have := equiv_of_skipMap U'.ltsPL U.ltsPL (pmap ρ) P ?_ (0, 0) (Or.inr (Or.inr rfl))
  · rw [hρ0] at this; exact this
  · rintro ⟨a, j⟩ hp
    by_cases ha : a < n
    · exact Or.inl (hold a j ha)
    · by_cases ha2 : n + sp.length ≤ a
      · exact Or.inl (hfar a j ha2)
      · right
        rcases hp with hp | hp | hp
        · exact absurd hp ha
        · exact absurd hp ha2
        · simp only at hp
          subst hp
          have hk : a - n < sp.length := by omega
          let s := sp[a - n]
          have hsk : sp[a - n]? = some s := List.getElem?_eq_getElem hk
          have hs : s ∈ sp := List.mem_of_getElem? hsk
          have hm : s.m = a := by rw [h.inv.idx (a - n) s hsk]; show n + (a - n) = a; omega
          have htlt : s.e.dst < n := (edgesInRange_spec g h.range s.e (List.mem_of_getElem? (h.inv.pos s hs))).2
          refine ⟨(s.e.dst, 0), ?_, ?_, Or.inl htlt, hold s.e.dst 0 htlt⟩
          · show U'.stepPL (a, 0) = .silent (s.e.dst, 0)
            rw [← hm]; exact syn_step h s hs
          · simp only [pmap]
            show (rho n sp s.e.dst, 0) = (rho n sp a, 0)
            rw [rho_old n sp _ htlt, ← hm, h.inv.rho_m s hs]

/-- the vertices of the graph before are vertices of the graph after with the same kind -/
theorem LoopCtx.synp_before (h : LoopCtx C g gc v toDel sp) (a : Nat) (ha : g.isSynV a = true) : g.levelRead a = true := by
  have hlt := isSynV_lt g a ha
  have hs := h.inv.old a hlt
  have h1 : (gc.delEdges toDel).isSynV a = true := by
    have := hs.syn
    show gc.isSynV a = true
    rw [this]; exact ha
  have h2 := syn_levelRead_of _ h.synp a h1
  have : (gc.delEdges toDel).levelRead a = g.levelRead a := levelRead_same (g := g) (g' := gc.delEdges toDel) hs.sameV
  rw [← this]; exact h2

theorem record_equiv (h : LoopCtx C g gc v toDel sp) :
    Equivalent g.ltsPL (gc.delEdges toDel).ltsPL (0, 0) (0, 0) := by
  have e1 := record_equivU h
  have e2 : Equivalent (gc.delEdges toDel).ltsPL (unloop (gc.delEdges toDel)).ltsPL ((0, 0) : Nat × Nat) ((0, 0) : Nat × Nat) :=
    equiv_of_step_eq _ _ (stepPL_unloop _ (syn_levelRead_of _ h.synp)).symm (0, 0)
  have e3 : Equivalent (unloop g).ltsPL g.ltsPL ((0, 0) : Nat × Nat) ((0, 0) : Nat × Nat) :=
    equiv_of_step_eq _ _ (stepPL_unloop g h.synp_before) (0, 0)
  exact (Equivalent.trans (Equivalent.trans e2 e1) e3).symm

end

theorem contOk_spec (g : BGraph) (r : LoopRec) (h : g.contOk r = true) (i : Nat) (hi : i ∈ r.continues) (e : BEdge)
    (he : g.es[i]? = some e) : e.dst = r.v := by
  unfold BGraph.contOk at h
  rw [List.all_eq_true] at h
  have := h i hi
  rw [he] at this
  simpa using this

/-- **one loop construction preserves behaviour** -/
theorem applyLoop_equiv (g g' : BGraph) (id : Nat) (r : LoopRec) (hsynp : synPlainOk g = true) (hok : g.recOk id r = true)
    (h : g.applyLoop id r = .ok g') : Equivalent g.ltsPL g'.ltsPL (0, 0) (0, 0) ∧ synPlainOk g' = true := by
  unfold BGraph.recOk at hok
  rw [h] at hok
  simp only [Bool.and_eq_true] at hok
  obtain ⟨⟨⟨⟨hrange, hids⟩, hcont⟩, hdet⟩, hsctx⟩ := hok
  unfold BGraph.applyLoop at h
  cases hraw : g.applyLoopRaw id r with
  | error e => rw [hraw] at h; cases h
  | ok res =>
    obtain ⟨gc, toDel⟩ := res
    rw [hraw] at h
    simp only [Except.ok.injEq] at h
    subst h
    obtain ⟨sp, hinv⟩ := applyLoopRaw_inv g id r hids (gc, toDel) hraw
    have hctx : LoopCtx (fun i => i ∈ r.continues) g gc r.v toDel sp :=
      ⟨hinv, hrange, fun i hi e he => contOk_spec g r hcont i hi e he, det_of_detOk _ hdet, hsynp, hsctx⟩
    exact ⟨record_equiv hctx, hctx.synp⟩

theorem applyLoops_equiv : ∀ (records : List LoopRec) (id : Nat) (g g' : BGraph), synPlainOk g = true →
    BGraph.loopsOkGo records id g = true →
    BGraph.applyLoops records id g = .ok g' → Equivalent g.ltsPL g'.ltsPL (0, 0) (0, 0) := by
  intro records
  induction records with
  | nil =>
    intro id g g' _ _ h
    unfold BGraph.applyLoops at h
    cases h
    exact Equivalent.refl _ _
  | cons r rest ih =>
    intro id g g' hsp hok h
    unfold BGraph.applyLoops at h
    unfold BGraph.loopsOkGo at hok
    cases h1 : g.applyLoop id r with
    | error e => rw [h1] at h; cases h
    | ok g1 =>
      rw [h1] at h hok
      simp only [Bool.and_eq_true] at hok
      obtain ⟨e1, hsp1⟩ := applyLoop_equiv g g1 id r hsp hok.1 h1
      exact Equivalent.trans e1 (ih (id + 1) g1 g' hsp1 hok.2 h)

/-- **`build_loops` preserves behaviour** (pairs) -/
theorem buildLoops_equivP (records : List LoopRec) (raised : Option String) (g g' : BGraph)
    (hok : loopRecordsOk records g = true) (h : buildLoops records g raised = .ok g') :
    Equivalent g.ltsPL g'.ltsPL (0, 0) (0, 0) := by
  unfold buildLoops at h
  cases h1 : BGraph.applyLoops records 0 g with
  | error e => rw [h1] at h; cases h
  | ok g1 =>
    rw [h1] at h
    cases raised with
    | some cls => cases h
    | none =>
      simp only [Except.ok.injEq] at h
      subst h
      unfold loopRecordsOk at hok
      simp only [Bool.and_eq_true] at hok
      exact applyLoops_equiv records 0 g g1 hok.1 hok.2 h1

theorem buildLoops_equiv (records : List LoopRec) (raised : Option String) (g g' : BGraph)
    (hok : loopRecordsOk records g = true) (h : buildLoops records g raised = .ok g') :
    Equivalent g.ltsL g'.ltsL (0 : Nat) (0 : Nat) :=
  ltsL_of_ltsPL g g' 0 0 (by omega) (by omega) (buildLoops_equivP records raised g g' hok h)

end ESV.Decomp.Lp
