import ESV.Decomp.LpSem
/-
The rewriting part of `build_loops` for one loop construction (`applyLoopRaw`): what the graph looks like in front of the final
`delete_edges` - the vertices of the graph before keep what a step reads of their attributes (only markers are added), one
inserted vertex per split edge is appended, and per split edge `e` two edges: a copy of `e` to the inserted vertex and an edge from
the inserted vertex on (to the target of `e` for a break edge, to the loop's start vertex for a continue edge).
-/
namespace ESV.Decomp.Lp
open ESV.Beh ESV.Decomp ESV.Decomp.Opt ESV.Decomp.Gr ESV.Decomp.Sw

/-- one split: id of the edge, the edge, break / continue, index of the inserted vertex -/
structure Split where
  i : Nat
  e : BEdge
  isBreak : Bool
  m : Nat

def copyE (s : Split) : BEdge := if s.isBreak = true then { s.e with dst := s.m } else { s.e with dst := s.m, loop := false }

def outE (v : Nat) (s : Split) : BEdge :=
  if s.isBreak = true then ⟨s.m, s.e.dst, s.e.level, s.e.loop, false, []⟩ else ⟨s.m, v, s.e.level, true, false, []⟩

structure LInv (C : Nat → Prop) (g gc : BGraph) (v : Nat) (toDel : List Nat) (sp : List Split) : Prop where
  len : gc.vs.length = g.vs.length + sp.length
  old : ∀ u, u < g.vs.length → SameVL g gc u u
  syn : ∀ k, k < sp.length → gc.isSynV (g.vs.length + k) = true
  plain : ∀ k, k < sp.length → ∀ x, gc.vs[g.vs.length + k]? = some x → x.ifStart = none ∧ x.switchStart = none
  es : gc.es = g.es ++ sp.flatMap fun s => [copyE s, outE v s]
  del : toDel = sp.map (·.i)
  pos : ∀ s ∈ sp, g.es[s.i]? = some s.e
  idx : ∀ k s, sp[k]? = some s → s.m = g.vs.length + k
  cont : ∀ s ∈ sp, s.isBreak = false → C s.i

variable {C : Nat → Prop} {g gc : BGraph} {v : Nat} {toDel : List Nat} {sp : List Split}

theorem LInv.init (C : Nat → Prop) (g : BGraph) (v : Nat) : LInv C g g v [] [] :=
  ⟨by simp, fun _ _ => SameVL.of_eq rfl, by simp, by simp, by simp, rfl, by simp, by simp, by simp⟩

/-- the vertex attributes change, but nothing a step reads -/
theorem LInv.vsCore (h : LInv C g gc v toDel sp) (gc' : BGraph) (hes : gc'.es = gc.es)
    (hget : ∀ u : Nat, (gc'.vs[u]?).map coreL = (gc.vs[u]?).map coreL) : LInv C g gc' v toDel sp := by
  have hlen : gc'.vs.length = gc.vs.length := by
    rcases Nat.lt_trichotomy gc'.vs.length gc.vs.length with hlt | heq | hgt
    · have := hget gc'.vs.length
      rw [List.getElem?_eq_none (Nat.le_refl _), List.getElem?_eq_getElem hlt] at this
      simp at this
    · exact heq
    · have := hget gc.vs.length
      rw [List.getElem?_eq_none (Nat.le_refl _), List.getElem?_eq_getElem hgt] at this
      simp at this
  have hcore : ∀ (u : Nat) (y : BVertex), gc'.vs[u]? = some y → ∃ x, gc.vs[u]? = some x ∧ coreL y = coreL x := by
    intro u y hy
    have := hget u
    rw [hy] at this
    cases hx : gc.vs[u]? with
    | none => rw [hx] at this; simp at this
    | some x => rw [hx] at this; exact ⟨x, rfl, by simpa using this⟩
  refine ⟨by rw [hlen, h.len], ?_, ?_, ?_, by rw [hes]; exact h.es, h.del, h.pos, h.idx, h.cont⟩
  · intro u hu
    have := h.old u hu
    unfold SameVL at this ⊢
    rw [hget, this]
  · intro k hk
    have := h.syn k hk
    unfold BGraph.isSynV at this ⊢
    cases hy : gc'.vs[g.vs.length + k]? with
    | none =>
      have h2 := hget (g.vs.length + k)
      rw [hy] at h2
      cases hx : gc.vs[g.vs.length + k]? with
      | none => rw [hx] at this; cases this
      | some x => rw [hx] at h2; simp at h2
    | some y =>
      obtain ⟨x, hx, hc⟩ := hcore _ y hy
      rw [hx] at this
      simp only [coreL, Prod.mk.injEq] at hc
      simp only at this ⊢
      rw [hc.2.2.2.2.2]; exact this
  · intro k hk y hy
    obtain ⟨x, hx, hc⟩ := hcore _ y hy
    have := h.plain k hk x hx
    simp only [coreL, Prod.mk.injEq] at hc
    rw [hc.2.1, hc.2.2.2.2.1]; exact this

/-- a marker is added to vertex `w` (the attributes a step reads are kept) -/
theorem LInv.mark (h : LInv C g gc v toDel sp) (w : Nat) (f : BVertex → BVertex) (hf : ∀ x, coreL (f x) = coreL x) :
    LInv C g { gc with vs := gc.vs.modify w f } v toDel sp := by
  refine h.vsCore { gc with vs := gc.vs.modify w f } rfl ?_
  intro u
  simp only [List.getElem?_modify]
  split
  · cases gc.vs[u]? <;> simp [hf]
  · cases gc.vs[u]? <;> rfl

theorem set_eq_modify {α : Type} (l : List α) (w : Nat) (x x' : α) (h : l[w]? = some x) : l.set w x' = l.modify w (fun _ => x') := by
  apply List.ext_getElem?
  intro u
  simp only [List.getElem?_set, List.getElem?_modify]
  by_cases hu : w = u
  · subst hu
    have := (List.getElem?_eq_some_iff.mp h).1
    simp [this]
  · simp [hu]

theorem coreL_addLoopMark (start : Bool) (id : Nat) (x x' : BVertex) (h : BGraph.addLoopMark start id x = .ok x') :
    coreL x' = coreL x := by
  unfold BGraph.addLoopMark at h
  split at h
  · split at h
    · split at h
      · cases h
      · cases h; rfl
    · cases h; rfl
  · split at h
    · split at h
      · cases h
      · split at h <;> (cases h; rfl)
    · cases h

theorem LInv.markVertex (h : LInv C g gc v toDel sp) (w : Nat) (start : Bool) (id : Nat) (g1 : BGraph)
    (hm : gc.markVertex w (BGraph.addLoopMark start id) = .ok g1) : LInv C g g1 v toDel sp := by
  unfold BGraph.markVertex at hm
  cases hx : gc.vs[w]? with
  | none => rw [hx] at hm; cases hm
  | some x =>
    rw [hx] at hm
    simp only at hm
    cases hf : BGraph.addLoopMark start id x with
    | error e => rw [hf] at hm; cases hm
    | ok x' =>
      rw [hf] at hm
      simp only [Except.ok.injEq] at hm
      subst hm
      have hc := coreL_addLoopMark start id x x' hf
      refine h.vsCore { gc with vs := gc.vs.set w x' } rfl ?_
      intro u
      show ((gc.vs.set w x')[u]?).map coreL = _
      rw [set_eq_modify gc.vs w x x' hx]
      simp only [List.getElem?_modify]
      split
      · rename_i hwu; subst hwu; rw [hx]; simp [hc]
      · cases gc.vs[u]? <;> rfl

theorem coreL_setBreak (id : Nat) (x : BVertex) : coreL (BGraph.setBreakV id x) = coreL x := rfl
theorem coreL_setContinue (id : Nat) (x : BVertex) : coreL (BGraph.setContinueV id x) = coreL x := rfl

/-- one edge of the construction -/
theorem splitEdge_inv (h : LInv C g gc v toDel sp) (id : Nat) (isBreak : Bool) (i : Nat) (hi : i < g.es.length)
    (hC : isBreak = false → C i)
    (r : BGraph × List Nat) (hr : gc.splitEdge v id isBreak i toDel = .ok r) :
    ∃ sp', LInv C g r.1 v r.2 sp' := by
  unfold BGraph.splitEdge at hr
  have hgi : gc.es[i]? = some g.es[i] := by
    rw [h.es, List.getElem?_append_left hi]; exact List.getElem?_eq_getElem hi
  rw [hgi] at hr
  simp only at hr
  cases hx : gc.vs[g.es[i].src]? with
  | none => rw [hx] at hr; cases hr
  | some x =>
    rw [hx] at hr
    simp only at hr
    split at hr
    · cases hroot : BGraph.copyRoot x with
      | error e => rw [hroot] at hr; cases hr
      | ok root =>
        rw [hroot] at hr
        simp only [Except.ok.injEq] at hr
        subst hr
        let s : Split := ⟨i, g.es[i], isBreak, gc.vs.length⟩
        refine ⟨sp ++ [s], ?_⟩
        have hm : s.m = g.vs.length + sp.length := h.len
        refine ⟨by simp [h.len]; omega, ?_, ?_, ?_, ?_, by simp [h.del, s], ?_, ?_, ?_⟩
        · intro u hu
          have := h.old u hu
          unfold SameVL at this ⊢
          simp only
          rw [List.getElem?_append_left (by rw [h.len]; omega)]; exact this
        · intro k hk
          simp only [List.length_append, List.length_singleton] at hk
          unfold BGraph.isSynV
          simp only
          by_cases hk' : k < sp.length
          · have := h.syn k hk'
            unfold BGraph.isSynV at this
            rw [List.getElem?_append_left (by rw [h.len]; omega)]; exact this
          · have hk2 : k = sp.length := by omega
            subst hk2
            rw [List.getElem?_append_right (by rw [h.len]; omega)]
            simp [h.len, BGraph.synVertex]
        · intro k hk y hy
          simp only [List.length_append, List.length_singleton] at hk
          simp only at hy
          by_cases hk' : k < sp.length
          · rw [List.getElem?_append_left (by rw [h.len]; omega)] at hy
            exact h.plain k hk' y hy
          · have hk2 : k = sp.length := by omega
            subst hk2
            rw [List.getElem?_append_right (by rw [h.len]; omega)] at hy
            simp only [h.len, Nat.sub_self, List.getElem?_cons_zero, Option.some.injEq] at hy
            subst hy
            exact ⟨rfl, rfl⟩
        · simp only [List.flatMap_append, List.flatMap_cons, List.flatMap_nil, List.append_nil]
          rw [h.es, List.append_assoc]
          congr 2
          simp only [copyE, outE, s]
          cases isBreak <;> simp
        · intro s' hs'
          rcases List.mem_append.mp hs' with h1 | h1
          · exact h.pos s' h1
          · simp only [List.mem_singleton] at h1; subst h1; exact List.getElem?_eq_getElem hi
        · intro k s' hk
          by_cases hk' : k < sp.length
          · rw [List.getElem?_append_left hk'] at hk; exact h.idx k s' hk
          · rw [List.getElem?_append_right (by omega)] at hk
            have : k - sp.length = 0 := by
              rcases Nat.eq_zero_or_pos (k - sp.length) with h0 | h0
              · exact h0
              · rw [List.getElem?_eq_none (by simp; omega)] at hk; cases hk
            rw [this] at hk
            simp only [List.getElem?_cons_zero, Option.some.injEq] at hk
            subst hk
            rw [hm]; omega
        · intro s' hs' hb'
          rcases List.mem_append.mp hs' with h1 | h1
          · exact h.cont s' h1 hb'
          · simp only [List.mem_singleton] at h1; subst h1; exact hC hb'
    · simp only [Except.ok.injEq] at hr
      subst hr
      refine ⟨sp, ?_⟩
      cases isBreak with
      | true => exact h.mark _ _ (coreL_setBreak id)
      | false => exact h.mark _ _ (coreL_setContinue id)

theorem splitEdges_inv (id : Nat) (isBreak : Bool) : ∀ (ids : List Nat) (gc : BGraph) (toDel : List Nat) (sp : List Split),
    LInv C g gc v toDel sp → (∀ i ∈ ids, i < g.es.length) → (∀ i ∈ ids, isBreak = false → C i) → ∀ r, BGraph.splitEdges v id isBreak ids gc toDel = .ok r →
    ∃ sp', LInv C g r.1 v r.2 sp' := by
  intro ids
  induction ids with
  | nil =>
    intro gc toDel sp h _ _ r hr
    unfold BGraph.splitEdges at hr
    cases hr
    exact ⟨sp, h⟩
  | cons i rest ih =>
    intro gc toDel sp h hids hCs r hr
    unfold BGraph.splitEdges at hr
    cases h1 : gc.splitEdge v id isBreak i toDel with
    | error e => rw [h1] at hr; cases hr
    | ok r1 =>
      rw [h1] at hr
      obtain ⟨sp1, hinv1⟩ := splitEdge_inv h id isBreak i (hids i (List.mem_cons_self ..)) (hCs i (List.mem_cons_self ..)) r1 h1
      exact ih r1.1 r1.2 sp1 hinv1 (fun k hk => hids k (List.mem_cons_of_mem _ hk))
        (fun k hk => hCs k (List.mem_cons_of_mem _ hk)) r hr

/-- **the state in front of `delete_edges`** -/
theorem applyLoopRaw_inv (g : BGraph) (id : Nat) (r : LoopRec) (hids : g.idsOk r = true) (res : BGraph × List Nat)
    (hr : g.applyLoopRaw id r = .ok res) : ∃ sp, LInv (fun i => i ∈ r.continues) g res.1 r.v res.2 sp := by
  unfold BGraph.idsOk at hids
  simp only [Bool.and_eq_true, List.all_eq_true, decide_eq_true_eq] at hids
  unfold BGraph.applyLoopRaw at hr
  simp only at hr
  -- the ForeverEnd marker
  have h1 : ∀ g1, (match r.breaks with
      | b0 :: _ :: _ =>
        match g.es[b0]? with
        | none => Except.error "OracleEdgeMissing"
        | some e => g.markVertex e.dst (BGraph.addLoopMark false id)
      | _ => Except.ok g) = .ok g1 → LInv (fun i => i ∈ r.continues) g g1 r.v [] [] := by
    intro g1 hg1
    split at hg1
    · split at hg1
      · cases hg1
      · exact (LInv.init _ g r.v).markVertex _ false id g1 hg1
    · cases hg1; exact LInv.init _ g r.v
  split at hr
  · cases hr
  · rename_i g1 hg1
    have hinv1 := h1 g1 hg1
    cases hm : g1.markVertex r.v (BGraph.addLoopMark true id) with
    | error e => rw [hm] at hr; cases hr
    | ok g2 =>
      rw [hm] at hr
      simp only at hr
      have hinv2 := hinv1.markVertex r.v true id g2 hm
      cases hb : BGraph.splitEdges r.v id true r.breaks g2 [] with
      | error e => rw [hb] at hr; cases hr
      | ok rb =>
        rw [hb] at hr
        obtain ⟨sp1, hinv3⟩ := splitEdges_inv id true r.breaks g2 [] [] hinv2 hids.1 (fun _ _ hb => by cases hb) rb hb
        exact splitEdges_inv id false r.continues rb.1 rb.2 sp1 hinv3 hids.2 (fun i hi _ => hi) res hr

end ESV.Decomp.Lp
