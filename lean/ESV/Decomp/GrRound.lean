import ESV.Decomp.GrInv
import ESV.Decomp.GrMerge
import ESV.Decomp.GrStepL
/-
One round of the while loop of `group_branches` on the level of the graph: the vertex attributes of `v` change (`F`:
one more root op), its else-edge `ei` is deleted and re-added with the target `t` (`_reconnect`).  As a set, every
vertex but `v` keeps its out-edges; `v` keeps its if-edge and gets the else-target `t`.
-/
namespace ESV.Decomp.Gr
open ESV.Beh ESV.Decomp ESV.Decomp.Opt ESV.Decomp.Br

/-- the graph after `F` on the attributes of `v` and `_reconnect(g, v, else_edge, t)` -/
def merged (g : BGraph) (v : Nat) (F : BVertex → BVertex) (ei : Nat) (eE : BEdge) (t : Nat) : BGraph :=
  { vs := g.vs.modify v F, es := g.es.eraseIdx ei ++ [{ eE with dst := t }] }

/-- the situation at the start of a round -/
structure RCtx (g : BGraph) (v ei ii : Nat) (eE eI : BEdge) (F : BVertex → BVertex) : Prop where
  inv : GInv g
  ifv : g.isIfV v = true
  hE : g.firstElse v = some (ei, eE)
  hI : g.firstIf v = some (ii, eI)
  fop : ∀ x, (F x).op = x.op ∧ (F x).ifStart = x.ifStart
  fnot : ∀ x, x.isNot = false → (F x).isNot = false

theorem mapStep_id {σ : Type} (st : Step σ Ev) : mapStep id st = st := by cases st <;> rfl

namespace RCtx
variable {g : BGraph} {v ei ii : Nat} {eE eI : BEdge} {F : BVertex → BVertex}

theorem merged_vs_get (g : BGraph) (v : Nat) (F : BVertex → BVertex) (ei : Nat) (eE : BEdge) (t a : Nat) :
    (merged g v F ei eE t).vs[a]? = (g.vs[a]?).map fun x => if v = a then F x else x := modV_get g v F a

theorem merged_length (g : BGraph) (v : Nat) (F : BVertex → BVertex) (ei : Nat) (eE : BEdge) (t : Nat) :
    (merged g v F ei eE t).vs.length = g.vs.length := modV_length g v F

theorem isIfV_merged (c : RCtx g v ei ii eE eI F) (t a : Nat) : (merged g v F ei eE t).isIfV a = g.isIfV a :=
  isIfV_modV g v F c.fop a

theorem mem_merged_es (_c : RCtx g v ei ii eE eI F) (t : Nat) (e' : BEdge) :
    e' ∈ (merged g v F ei eE t).es ↔ (∃ k, k ≠ ei ∧ g.es[k]? = some e') ∨ e' = { eE with dst := t } := by
  show e' ∈ g.es.eraseIdx ei ++ [{ eE with dst := t }] ↔ _
  rw [List.mem_append, List.mem_eraseIdx_iff_getElem?]
  simp

theorem eE_facts (c : RCtx g v ei ii eE eI F) : g.es[ei]? = some eE ∧ eE.src = v ∧ eE.isElse = true :=
  firstElse_some g v ei eE c.hE

theorem eI_facts (c : RCtx g v ei ii eE eI F) : g.es[ii]? = some eI ∧ eI.src = v ∧ eI.isElse = false :=
  firstIf_some g v ii eI c.hI

theorem ii_ne (c : RCtx g v ei ii eE eI F) : ii ≠ ei := by
  intro h
  obtain ⟨h1, _, h3⟩ := c.eE_facts
  obtain ⟨h4, _, h6⟩ := c.eI_facts
  rw [h, h1] at h4; cases h4; rw [h3] at h6; cases h6

/-- an old edge with another source is still there -/
theorem old_mem (c : RCtx g v ei ii eE eI F) (t : Nat) (e : BEdge) (he : e ∈ g.es) (hs : e.src ≠ v) :
    e ∈ (merged g v F ei eE t).es := by
  obtain ⟨k, hk⟩ := List.getElem?_of_mem he
  refine (c.mem_merged_es t e).mpr (Or.inl ⟨k, ?_, hk⟩)
  intro h; subst h
  obtain ⟨h1, h2, _⟩ := c.eE_facts
  rw [h1] at hk; cases hk; exact hs h2

/-- an edge of the new graph with another source is an old one -/
theorem new_mem (c : RCtx g v ei ii eE eI F) (t : Nat) (e' : BEdge) (he' : e' ∈ (merged g v F ei eE t).es)
    (hs : e'.src ≠ v) : e' ∈ g.es := by
  rcases (c.mem_merged_es t e').mp he' with ⟨k, _, hk⟩ | rfl
  · exact List.mem_of_getElem? hk
  · exact absurd c.eE_facts.2.1 hs

theorem fu_merged (c : RCtx g v ei ii eE eI F) (t : Nat) : FU (merged g v F ei eE t) := by
  apply fu_of_ful
  have hif : (merged g v F ei eE t).isIfV = g.isIfV := funext (c.isIfV_merged t)
  rw [hif]
  have h0 := ful_of_fu g c.inv.fu
  unfold FUl at h0 ⊢
  show List.Pairwise _ (g.es.eraseIdx ei ++ [{ eE with dst := t }])
  rw [List.pairwise_append]
  refine ⟨h0.sublist (List.eraseIdx_sublist _ _), List.pairwise_singleton _ _, ?_⟩
  intro a ha b hb hs hv hfl
  simp only [List.mem_singleton] at hb; subst hb
  obtain ⟨k, hk, hak⟩ := (List.mem_eraseIdx_iff_getElem?.mp ha)
  obtain ⟨h1, h2, h3⟩ := c.eE_facts
  exact hk (c.inv.fu k ei a eE hak h1 (by rw [hs]) hv (by rw [hfl]))

theorem flagCorr_other (c : RCtx g v ei ii eE eI F) (t u : Nat) (hu : u ≠ v) :
    FlagCorr g (merged g v F ei eE t) u u id := by
  constructor
  · intro e he hs
    exact ⟨e, c.old_mem t e he (by rw [hs]; exact hu), hs, rfl, rfl⟩
  · intro e' he' hs
    exact ⟨e', c.new_mem t e' he' (by rw [hs]; exact hu), hs, rfl, rfl⟩

/-- the out-edges of another vertex, in igraph's order, are what they were -/
theorem outL_other (c : RCtx g v ei ii eE eI F) (t u : Nat) (hu : u ≠ v) :
    outL (merged g v F ei eE t).toGraph u = (outL g.toGraph u).map (renE u id) := by
  have hid : (outL g.toGraph u).map (renE u id) = outL g.toGraph u := by
    conv => rhs; rw [← List.map_id (outL g.toGraph u)]
    apply List.map_congr_left
    intro e he
    have := ((mem_outL g.toGraph u e).mp he).2
    unfold renE; cases e; simp_all
  rw [hid, outL_eq_isort, outL_eq_isort]
  congr 1
  obtain ⟨h1, h2, _⟩ := c.eE_facts
  have hes : (merged g v F ei eE t).toGraph.es = g.toGraph.es.eraseIdx ei ++ [({ eE with dst := t } : BEdge).toEdge] := by
    unfold merged BGraph.toGraph
    simp only [List.map_append, List.map_cons, List.map_nil, map_eraseIdx]
  rw [hes, List.filter_append]
  have hne : ((fun e : Edge => e.src == u) ({ eE with dst := t } : BEdge).toEdge) = false := by
    show (eE.src == u) = false
    rw [h2]; simp; exact fun h => hu h.symm
  have hget : g.toGraph.es[ei]? = some eE.toEdge := by rw [toGraph_es_get, h1]; rfl
  rw [filter_eraseIdx _ _ ei eE.toEdge hget (by show (eE.src == u) = false; rw [h2]; simp; exact fun h => hu h.symm)]
  simp [hne]

theorem toGraph_vs_merged (c : RCtx g v ei ii eE eI F) (t : Nat) : (merged g v F ei eE t).toGraph.vs = g.toGraph.vs := by
  unfold merged BGraph.toGraph
  simp only
  exact map_modify_of_eq _ _ (fun x => (c.fop x).1) _ _

theorem not_ctx_v (c : RCtx g v ei ii eE eI F) : g.toGraph.isCtxVertex v = false := by
  obtain ⟨x, r, l, id, h1, h2, _⟩ := isIfV_spec g v c.ifv
  unfold Graph.isCtxVertex
  rw [toGraph_vs_op g v, h1]; simp [h2]

theorem afterCtxE_merged (c : RCtx g v ei ii eE eI F) (t b : Nat) :
    (merged g v F ei eE t).toGraph.afterCtxE b = g.toGraph.afterCtxE b := by
  have hctx : ∀ a, (merged g v F ei eE t).toGraph.isCtxVertex a = g.toGraph.isCtxVertex a := by
    intro a; unfold Graph.isCtxVertex; rw [c.toGraph_vs_merged t]
  unfold Graph.afterCtxE
  rw [Bool.eq_iff_iff, List.any_eq_true, List.any_eq_true]
  simp only [hctx]
  constructor
  · rintro ⟨e', he', hc⟩
    obtain ⟨b', hb', rfl⟩ := (mem_toGraph_es _ e').mp he'
    simp only [Bool.and_eq_true, beq_iff_eq] at hc
    have hs : b'.src ≠ v := by
      intro h
      have := hc.2; rw [show b'.toEdge.src = b'.src from rfl, h, c.not_ctx_v] at this; cases this
    exact ⟨b'.toEdge, (mem_toGraph_es g _).mpr ⟨b', c.new_mem t b' hb' hs, rfl⟩, by simp [hc]⟩
  · rintro ⟨e, he, hc⟩
    obtain ⟨b', hb', rfl⟩ := (mem_toGraph_es _ e).mp he
    simp only [Bool.and_eq_true, beq_iff_eq] at hc
    have hs : b'.src ≠ v := by
      intro h
      have := hc.2; rw [show b'.toEdge.src = b'.src from rfl, h, c.not_ctx_v] at this; cases this
    exact ⟨b'.toEdge, (mem_toGraph_es _ _).mpr ⟨b', c.old_mem t b' hb' hs, rfl⟩, by simp [hc]⟩

/-- a vertex that is not an if steps as before -/
theorem stepE_other (c : RCtx g v ei ii eE eI F) (t u : Nat) (hu : g.isIfV u = false) :
    (merged g v F ei eE t).toGraph.stepE u = g.toGraph.stepE u := by
  have huv : u ≠ v := by intro h; rw [h, c.ifv] at hu; cases hu
  have h := stepE_of_outL g.toGraph (merged g v F ei eE t).toGraph u u id
    (by rw [c.toGraph_vs_merged t]) (c.outL_other t u huv)
    (by unfold Graph.fellOff; rw [c.toGraph_vs_merged t]; rfl)
    (by unfold Graph.stuck; rw [c.toGraph_vs_merged t]; rfl)
    (by intro _; unfold Graph.fellOff; rw [c.toGraph_vs_merged t])
    (by intro o _; exact c.afterCtxE_merged t u)
  rw [h, mapStep_id]

theorem stuck_merged (c : RCtx g v ei ii eE eI F) (t : Nat) :
    id g.toGraph.stuck = (merged g v F ei eE t).toGraph.stuck := by
  unfold Graph.stuck; rw [c.toGraph_vs_merged t]; rfl

/-- every vertex but `v` steps as before -/
theorem stepP_other (c : RCtx g v ei ii eE eI F) (t u : Nat) (hu : u ≠ v) (j : Nat) :
    (merged g v F ei eE t).stepP (u, j) = g.stepP (u, j) := by
  cases hif : g.isIfV u with
  | false =>
    rw [stepP_not_if g u j hif, stepP_not_if _ u j (by rw [c.isIfV_merged]; exact hif), c.stepE_other t u hif]
  | true =>
    have hif' : (merged g v F ei eE t).isIfV u = true := by rw [c.isIfV_merged]; exact hif
    cases hx : g.vs[u]? with
    | none => have := isIfV_lt g u hif; rw [List.getElem?_eq_none_iff] at hx; omega
    | some y =>
      have hy' : (merged g v F ei eE t).vs[u]? = some y := by
        rw [merged_vs_get, hx]; simp [Ne.symm hu]
      rw [stepP_if g u j y hif hx, stepP_if _ u j y hif' hy']
      have t1 := elseTarget_corr g _ u u id (c.flagCorr_other t u hu) (c.fu_merged t) hif' (c.stuck_merged t)
      have t2 := ifTarget_corr g _ u u id (c.flagCorr_other t u hu) (c.fu_merged t) hif' (c.stuck_merged t)
      unfold BGraph.ifStep BGraph.takenOf BGraph.notTakenOf
      simp only [t1, t2, id]

theorem ifv' (c : RCtx g v ei ii eE eI F) (t : Nat) : (merged g v F ei eE t).isIfV v = true := by
  rw [c.isIfV_merged]; exact c.ifv

/-- `v` keeps its if-target … -/
theorem ifTarget_v (c : RCtx g v ei ii eE eI F) (t : Nat) : (merged g v F ei eE t).ifTarget v = g.ifTarget v := by
  obtain ⟨h4, h5, h6⟩ := c.eI_facts
  have hm : eI ∈ (merged g v F ei eE t).es := (c.mem_merged_es t eI).mpr (Or.inl ⟨ii, c.ii_ne, h4⟩)
  obtain ⟨k, hk⟩ := List.getElem?_of_mem hm
  rw [ifTarget_of_edge _ (c.fu_merged t) v k eI (c.ifv' t) hk h5 h6]
  unfold BGraph.ifTarget; rw [c.hI]

/-- … and gets the else-target `t` -/
theorem elseTarget_v (c : RCtx g v ei ii eE eI F) (t : Nat) : (merged g v F ei eE t).elseTarget v = t := by
  obtain ⟨h1, h2, h3⟩ := c.eE_facts
  have hm : ({ eE with dst := t } : BEdge) ∈ (merged g v F ei eE t).es := (c.mem_merged_es t _).mpr (Or.inr rfl)
  obtain ⟨k, hk⟩ := List.getElem?_of_mem hm
  rw [elseTarget_of_edge _ (c.fu_merged t) v k _ (c.ifv' t) hk h2 h3]

theorem ginv_merged (c : RCtx g v ei ii eE eI F) (t : Nat) : GInv (merged g v F ei eE t) := by
  refine ⟨c.fu_merged t, ?_⟩
  · intro a x hv hx
    rw [c.isIfV_merged] at hv
    rw [merged_vs_get] at hx
    cases hg : g.vs[a]? with
    | none => rw [hg] at hx; cases hx
    | some z =>
      rw [hg] at hx
      simp only [Option.map_some, Option.some.injEq] at hx
      by_cases hva : v = a
      · simp only [hva, if_true] at hx; subst hx; exact c.fnot z (c.inv.nn a z hv hg)
      · simp only [hva, if_false] at hx; subst hx; exact c.inv.nn a z hv hg

end RCtx
end ESV.Decomp.Gr
