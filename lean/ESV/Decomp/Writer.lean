import ESV.Decomp.WriterBase
/-
The write handlers of the ExplorerScript decompiler (`ssb_converting/decompiler/write_handlers/`: routine.py, block.py, label.py,
foreign_label.py, label_jump.py, simple_op.py, label_jumps/*, labels/forever_start.py, simple_ops/*) and the decompiler's
`write_label_jump`, modelled at the level of the STATEMENT TREE the text denotes (core AST of lean/ESV/Src/Ast.lean), handler by
handler, statement by statement: same traversal of the final graph, same shared state (`labels_already_printed`,
`labels_jumped_to`, `forever_start_handler_stack`, the indent that `Blk` limits to `MAX_BLOCK_NESTING`), same exceptions.

The handlers are mutually recursive through `BlockWriteHandler`; the recursion is bounded in Python by the indent (RecursionError
at 100 nested blocks) and, per block, by `written_vertices`.  The model recurses on a `fuel` argument; running out of fuel is the
answer `unmodelled:fuel` (never seen: `writeFuel` exceeds 101 blocks of |V|+1 vertices each).
-/
namespace ESV.Decomp.Wr
open ESV.Beh ESV.Src ESV.Decomp.BGraph

/-- result of `BlockWriteHandler.write_content()`: the return value, `last_handler_in_block`, `last_vertex`, the statements -/
structure BRes where
  next : Option Nat
  last : HInfo
  lastVertex : Option Nat
  out : List Stmt
  st : WSt

/-- result of a handler's `write_content()`: return value, `ended_on_jump` of the handler object the block holds, statements -/
structure VRes where
  next : Option Nat
  eoj : Bool
  out : List Stmt
  st : WSt

/-- result of `_build_else_if_chain`: the elseif branches, the returned edge, `_v_after_elseif_branches`, `_continuations` -/
structure CRes where
  branches : List (Bool × List Ev × List Stmt)
  edge : Option (Nat × BEdge)
  afterElseif : Option Nat
  conts : List Nat
  st : WSt

/-- the body of the `with Blk(…)` of one switch case: does it end with `break;`? -/
def needsBreak (g : BGraph) (sid : Nat) (r : BRes) : Bool :=
  if r.last.isLabel && r.last.fell then false
  else
    -- `_get_root_op(handler.last_vertex)`: `None` without a last vertex and for a multi-if (its root is unset)
    let root : Option String := r.lastVertex.bind fun p => (g.vs[p]?).bind rootNameOf
    let wasJumpToEnd := root == some ESV.Gen.op_jump && r.last.isLabel && r.last.endedSwitches.contains sid
    !r.last.endedOnJump && (match root with
      | none => true
      | some n => !ESV.Gen.opsEndFlow.contains n || wasJumpToEnd)

mutual

/-- the `while self._next_vertex is not None` loop of `BlockWriteHandler.write_content` and what follows it.
`parentMsg`: the handler that created this block is a `MesageSwitchSimpleOpWriteHandler` -/
def wBlock (fuel : Nat) (g : BGraph) (perf : String) (ind : Nat) (chk : EndCheck) (vsb : Option Nat) (parentMsg : Bool)
    (cur : Option Nat) (first : Bool) (written : List Nat) (prev : Option Nat) (last : HInfo) (acc : List Stmt) (σ : WSt) :
    Except String BRes :=
  match fuel with
  | 0 => .error "unmodelled:fuel"
  | fuel + 1 =>
    let finish (next : Option Nat) (last : HInfo) : Except String BRes :=
      if next.isNone && !last.endedOnJump && !chk.disallowNested then
        match prev with
        | none => .error "ValueError"
        | some p => .ok ⟨next, last, prev, if needsDummy g p then acc ++ [.ret] else acc, σ⟩
      else .ok ⟨next, last, prev, acc, σ⟩
    match cur with
    | none => finish none last
    | some v =>
      if written.contains v then .error "ValueError"
      else match g.vs[v]? with
        | none => .error "unmodelled:no-such-vertex"
        | some x =>
          match hinfoOf x with
          | .error e => .error e
          | .ok h =>
            if !chk.goesOn x first then finish (some v) h
            else if chk.disallowNested && !(match pyKind x with
                | .plain o => simpleKind o.name != .ctx
                | _ => false) then .error "ValueError"      -- NestedBlockDisallowedError, re-raised as ValueError
            else
              match wVertex fuel g perf ind v x vsb first parentMsg σ with
              | .error e => .error e
              | .ok r => wBlock fuel g perf ind chk vsb parentMsg r.next false (v :: written) (some v)
                  { h with endedOnJump := r.eoj } (acc ++ r.out) r.st

/-- `WriteHandlerManager.get_for(v, …).write_content()` -/
def wVertex (fuel : Nat) (g : BGraph) (perf : String) (ind : Nat) (v : Nat) (x : BVertex) (vsb : Option Nat) (first : Bool)
    (parentMsg : Bool) (σ : WSt) : Except String VRes :=
  match fuel with
  | 0 => .error "unmodelled:fuel"
  | fuel + 1 =>
    match pyKind x with
    | .label id => wLabel fuel g perf ind v x id vsb first σ
    | .foreign lid =>
      -- ForeignLabelWriteHandler
      if !(g.outEs v).isEmpty then .error "AssertionError"
      else if first && vsb.isNone then .error "TypeError"
      else match labelJump g lid (if first then vsb else none) σ with
        | .error e => .error e
        | .ok (out, σ') => .ok ⟨none, false, out, σ'⟩
    | .jump => wJumpObj fuel g perf ind v x σ
    | .plain o => wPlain fuel g perf ind v o parentMsg σ

/-- `LabelWriteHandler.write_content` (+ `ForeverWriteHandler.write_content`) -/
def wLabel (fuel : Nat) (g : BGraph) (perf : String) (ind : Nat) (v : Nat) (x : BVertex) (id : Nat) (vsb : Option Nat)
    (first : Bool) (σ : WSt) : Except String VRes :=
  match fuel with
  | 0 => .error "unmodelled:fuel"
  | fuel + 1 =>
    -- `needs_to_be_printed` = not a switch fall-through (the rest of that method is dead code)
    if x.fallthrough && !first then .ok ⟨none, true, [], σ⟩
    else if σ.printed.contains id then
      if first && vsb.isNone then .error "TypeError"
      else match labelJump g id (if first then vsb else none) σ with
        | .error e => .error e
        | .ok (out, σ') => .ok ⟨none, true, out, σ'⟩
    else
      let out0 : List Stmt := if x.fallthrough then [] else [.label (labelName id)]
      let σ0 : WSt := if x.fallthrough then σ else { σ with printed := σ.printed ++ [id] }
      match g.outEs v with
      | [p] =>
        match x.foreverStart with
        | none => .ok ⟨some p.2.dst, false, out0, σ0⟩
        | some lid =>
          -- ForeverWriteHandler
          if ind ≥ maxNesting then .error "RecursionError"
          else match wBlock fuel g perf (ind + 1) (.loopEnd lid) (some v) false (some p.2.dst) true [] none {} []
              { σ0 with stack := none :: σ0.stack } with
            | .error e => .error e
            | .ok r =>
              match r.st.stack with
              | top :: rest => .ok ⟨top, false, out0 ++ [.forever (Stmts.ofList r.out)], { r.st with stack := rest }⟩
              | [] => .error "unmodelled:loop-stack"
      | _ => .error "ValueError"

/-- `LabelJumpWriteHandler.write_content` and the handlers of label_jumps/ except if and switch -/
def wJumpObj (fuel : Nat) (g : BGraph) (perf : String) (ind : Nat) (v : Nat) (x : BVertex) (σ : WSt) : Except String VRes :=
  match fuel with
  | 0 => .error "unmodelled:fuel"
  | fuel + 1 =>
    -- JumpWriteHandler
    let plainJump (eoj : Bool) : Except String VRes :=
      match g.outEs v with
      | [p] => .ok ⟨some p.2.dst, eoj, [], σ⟩
      | _ => .error "AssertionError"
    match markerOf x with
    | .error e => .error e
    | .ok .none => plainJump true
    | .ok .other => .error "ValueError"
    | .ok (.ifStart id) => wIf fuel g perf ind v x id σ
    | .ok (.switchStart sid) => wSwitch fuel g perf ind v x sid σ
    | .ok (.cont _) =>
      if σ.stack.isEmpty then plainJump false      -- FallbackToJump
      else .ok ⟨none, false, [.cont], σ⟩
    | .ok (.brk _) =>
      match g.outEs v with
      | [p] =>
        match σ.stack with
        | [] => plainJump false                    -- FallbackToJump
        | _ :: rest => .ok ⟨none, false, [.brkLoop], { σ with stack := some p.2.dst :: rest }⟩
      | _ => .error "ValueError"
    | .ok .call =>
      -- CallWriteHandler
      match x.op with
      | .item (.ljump _ lbl _) =>
        let σ' := { σ with jumped := lbl :: σ.jumped }
        let exits := g.outEs v
        if exits.length == 0 || exits.length ≥ 3 then .error "AssertionError"
        else
          let isCalled (t : Nat) : Bool := match (g.vs[t]?).map pyKind with
            | some (.label i) => i == lbl
            | some (.foreign i) => i == lbl
            | _ => false
          let nxt := match exits.find? fun p => !isCalled p.2.dst with
            | some p => some p.2.dst
            | none => exits.head?.map (·.2.dst)
          .ok ⟨nxt, false, [.call (labelName lbl)], σ'⟩
      | _ => .error "AssertionError"

/-- `SimpleOperationWriteHandler.write_content` and the handlers of simple_ops/ -/
def wPlain (fuel : Nat) (g : BGraph) (perf : String) (ind : Nat) (v : Nat) (o : MOp) (parentMsg : Bool) (σ : WSt) :
    Except String VRes :=
  match fuel with
  | 0 => .error "unmodelled:fuel"
  | fuel + 1 =>
    let done (out : List Stmt) (σ' : WSt) : Except String VRes :=
      match exits01 g v with
      | .error e => .error e
      | .ok n => .ok ⟨n, false, out, σ'⟩
    match simpleKind o.name with
    | .simple => done [(lowerSimple o).1] (σ.addBad (lowerSimple o).2)
    | .keyword =>
      match lowerKeyword o with
      | .error e => .error e
      | .ok s => done [s] σ
    | .flag =>
      match lowerFlag perf o with
      | .error e => .error e
      | .ok (s, b) => done [s] (σ.addBad b)
    | .msgCase =>
      if !parentMsg then .error "ValueError"
      else if o.name == ESV.Gen.op_case_text && o.params.isEmpty then .error "IndexError"
      else if ind ≥ maxNesting then .error "RecursionError"
      else match lowerMsgCase o with
        | .error e => .error e
        | .ok (s, b) => done s.toList (σ.addBad b)
    | .ctx =>
      match lowerCtx o with
      | .error e => .error e
      | .ok ((cname, cps), b) =>
        match g.outEs v with
        | [p] =>
          let t := p.2.dst
          match g.vs[t]? with
          | none => .error "unmodelled:no-such-vertex"
          | some tx =>
            match hinfoOf tx with
            | .error e => .error e
            | .ok _ =>
              let inline : Option MOp := match pyKind tx with
                | .plain o' => if simpleKind o'.name == .simple then some o' else none
                | _ => none
              match inline with
              | some o' =>
                match exits01 g t with
                | .error e => .error e
                | .ok n => .ok ⟨n, false, [.ctx cname cps (lowerSimple o').1], (σ.addBad b).addBad (lowerSimple o').2⟩
              | none =>
                if ind ≥ maxNesting then .error "RecursionError"
                else match wBlock fuel g perf (ind + 1) .once (some v) false (some t) true [] none {} [] (σ.addBad b) with
                  | .error e => .error e
                  | .ok r =>
                    -- `with (…) { … }` holds one simple statement: a message switch is none (with or without cases)
                    let isMsg : Bool := match pyKind tx with
                      | .plain o' => simpleKind o'.name == .msgSwitch
                      | _ => false
                    match r.out with
                    | [s] => .ok ⟨r.next, false, [.ctx cname cps s], r.st.addBad (need (!isMsg) "with-block")⟩
                    | _ => .ok ⟨r.next, false, [.ctx cname cps (.op "?" [])], r.st.addBad (some "with-block")⟩
        | _ => .error "AssertionError"
    | .msgSwitch =>
      match o.params with
      | [p0] =>
        match g.outEs v with
        | [p] =>
          if ind ≥ maxNesting then .error "RecursionError"
          else
            match wBlock fuel g perf (ind + 1) (.msg (msgCasesOf o.name)) (some v) true (some p.2.dst) true [] none {} []
                (σ.addBad (need (isIL p0) "message-switch")) with
            | .error e => .error e
            | .ok r => .ok ⟨r.next, false, msgSwitchStmts (.op o.name [p0]) r.out, r.st⟩
        | _ => .error "AssertionError"
      | _ => .error "ValueError"

/-- `IfWriteHandler.write_content` -/
def wIf (fuel : Nat) (g : BGraph) (perf : String) (ind : Nat) (v : Nat) (x : BVertex) (id : Nat) (σ : WSt) : Except String VRes :=
  match fuel with
  | 0 => .error "unmodelled:fuel"
  | fuel + 1 =>
    match ifHeader g perf v x with
    | .error e => .error e
    | .ok (ifE, elseE, tests, b) =>
      if ind ≥ maxNesting then .error "RecursionError"
      else match wBlock fuel g perf (ind + 1) (.ifEnd id) (some v) false (some ifE.2.dst) true [] none {} [] (σ.addBad b) with
        | .error e => .error e
        | .ok rIf =>
          let conts0 := rIf.next.toList
          let finish (branches : List (Bool × List Ev × List Stmt)) (els : Option (List Stmt)) (conts : List Nat)
              (ret : Option Nat) (σ' : WSt) : Except String VRes :=
            if conts.eraseDups.length > 1 then .error "ValueError"
            else .ok ⟨ret, false, [.ite (Branches.ofList ((x.isNot, tests, rIf.out) :: branches)) els.isSome
              (Stmts.ofList (els.getD []))], σ'⟩
          if isLabelWithIfEnd g elseE.2.dst id then
            finish [] none (conts0 ++ [elseE.2.dst]) (match rIf.next with | some a => some a | none => some elseE.2.dst) rIf.st
          else match wChain fuel g perf ind v id elseE [] none conts0 rIf.st with
            | .error e => .error e
            | .ok c =>
              match c.edge with
              | none => finish c.branches none c.conts (match rIf.next with | some a => some a | none => c.afterElseif) c.st
              | some e =>
                if ind ≥ maxNesting then .error "RecursionError"
                else match wBlock fuel g perf (ind + 1) (.ifEnd id) (some v) false (some e.2.dst) true [] none {} [] c.st with
                  | .error err => .error err
                  | .ok rElse =>
                    if !(rIf.last.endedOnJump || rElse.last.endedOnJump || rIf.next == rElse.next) then .error "AssertionError"
                    else finish c.branches (some rElse.out) (c.conts ++ rElse.next.toList)
                      (match rIf.next with
                       | some a => some a
                       | none => match rElse.next with
                         | none => c.afterElseif
                         | some a => some a) rElse.st

/-- `IfWriteHandler._build_else_if_chain(in_edge)`; `v`, `id`: start vertex and if id of the if whose handler this is -/
def wChain (fuel : Nat) (g : BGraph) (perf : String) (ind : Nat) (v id : Nat) (inEdge : Nat × BEdge)
    (branches : List (Bool × List Ev × List Stmt)) (afterElseif : Option Nat) (conts : List Nat) (σ : WSt) : Except String CRes :=
  match fuel with
  | 0 => .error "unmodelled:fuel"
  | fuel + 1 =>
    let t := inEdge.2.dst
    match g.vs[t]? with
    | none => .error "unmodelled:no-such-vertex"
    | some tx =>
      let isIf : Except String (Option Nat) :=
        if isJumpObj tx then
          match markerOf tx with
          | .error e => .error e
          | .ok (.ifStart mid) => .ok (some mid)
          | .ok _ => .ok none
        else .ok none
      match isIf with
      | .error e => .error e
      | .ok none => .ok ⟨branches, some inEdge, afterElseif, conts, σ⟩
      | .ok (some mid) =>
        match ifHeader g perf t tx with
        | .error e => .error e
        | .ok (ifE, elseE, tests, b) =>
          if ind ≥ maxNesting then .error "RecursionError"
          else match wBlock fuel g perf (ind + 1) (.ifEnd id) (some v) false (some ifE.2.dst) true [] none {} [] (σ.addBad b) with
            | .error e => .error e
            | .ok r =>
              let afterElseif' := match afterElseif with | some a => some a | none => r.next
              let conts' := conts ++ r.next.toList
              let branches' := branches ++ [(tx.isNot, tests, r.out)]
              let nextEnds := isLabelWithIfEnd g elseE.2.dst mid
              if elseE.2.dst == ifE.2.dst || !nextEnds then
                if inEdge.1 == elseE.1 then .error "AssertionError"
                else wChain fuel g perf ind v id elseE branches' afterElseif' conts' r.st
              else
                let printed : Bool := match (g.vs[elseE.2.dst]?).map pyKind with
                  | some (.label lid) => r.st.printed.contains lid
                  | _ => false
                if printed then .ok ⟨branches', some elseE, afterElseif', conts', r.st⟩
                else .ok ⟨branches', none, afterElseif', conts' ++ [elseE.2.dst], r.st⟩

/-- `SwitchWriteHandler.write_content` -/
def wSwitch (fuel : Nat) (g : BGraph) (perf : String) (ind : Nat) (v : Nat) (x : BVertex) (sid : Nat) (σ : WSt) : Except String VRes :=
  match fuel with
  | 0 => .error "unmodelled:fuel"
  | fuel + 1 =>
    match x.op with
    | .item (.op o) =>
      match lowerSwitchHdr o with
      | .error e => .error e
      | .ok (hdr, b) =>
        let σ1 := σ.addBad b
        let exits := g.outEs v
        let empty : Option Nat := match exits with
          | [p] => if p.2.switchOps.isEmpty then some p.2.dst else none
          | _ => none
        match empty with
        | some t => .ok ⟨some t, false, [.switch hdr .nil], σ1⟩
        | none =>
          match iterateSwitch exits with
          | .error e => .error e
          | .ok ys =>
            if ind ≥ maxNesting then .error "RecursionError"
            else match wCases fuel g perf (ind + 1) v sid hdr.name (multiEdges ys []) ys [] [] σ1 with
              | .error e => .error e
              | .ok (entries, σ2) => .ok ⟨findSwitchEnd g sid, false, [.switch hdr (Cases.ofList entries)], σ2⟩
    | _ => .error "unmodelled:switch-marker-on-non-op"

/-- the loop `for e, switch_case_ops, is_default in list_of_switch_cases` -/
def wCases (fuel : Nat) (g : BGraph) (perf : String) (ind : Nat) (v sid : Nat) (swName : String) (multi : List Nat)
    (ys : List CaseY) (already : List Nat) (acc : List (Bool × Ev × List Stmt)) (σ : WSt) :
    Except String (List (Bool × Ev × List Stmt) × WSt) :=
  match fuel with
  | 0 => .error "unmodelled:fuel"
  | fuel + 1 =>
    match ys with
    | [] => .ok (acc, σ)
    | y :: rest =>
      match y.ops.mapM (lowerCase swName) with
      | .error e => .error e
      | .ok ts =>
        let σ1 := σ.addBad (ts.foldl (fun a t => orBad a t.2) none)
        if ind ≥ maxNesting then .error "RecursionError"
        else
          let name := switchLabelName sid y.eid
          if already.contains y.eid then
            match caseEntries (ts.map (·.1)) y.isDefault [.jump name] with
            | .error e => .error e
            | .ok es => wCases fuel g perf ind v sid swName multi rest already (acc ++ es) σ1
          else
            let lab : List Stmt := if multi.contains y.eid then [.label name] else []
            match wBlock fuel g perf (ind + 1) (.switchEnd sid) (some v) false (some y.e.dst) true [] none {} [] σ1 with
            | .error e => .error e
            | .ok r =>
              let body := lab ++ r.out ++ (if needsBreak g sid r then [.brk] else [])
              match caseEntries (ts.map (·.1)) y.isDefault body with
              | .error e => .error e
              | .ok es => wCases fuel g perf ind v sid swName multi rest (y.eid :: already) (acc ++ es) r.st

end

/-- enough for 101 nested blocks of |V| + 1 vertices each, with the handlers in between -/
def writeFuel (g : BGraph) : Nat := 8 * (g.vs.length + 4) * (maxNesting + 4)

/-- `SsbRoutineInfo.type` by name and whether `named_coroutines` has the routine id -/
structure RInfo where
  kind : String
  named : Bool
deriving Repr, DecidableEq

/-- `RoutineWriteHandler.write_content()`: `none` = `alias previous;` -/
def writeRoutineSt (perf : String) (info : RInfo) (g : BGraph) (σ : WSt) : Except String (Option (List Stmt) × WSt) :=
  if info.kind == "COROUTINE" && !info.named then .error "ValueError"
  else if !["COROUTINE", "ACTOR", "OBJECT", "PERFORMER", "GENERIC"].contains info.kind then .error "ValueError"
  else if g.vs.isEmpty then .ok (none, σ)
  else match wBlock (writeFuel g) g perf 1 .none none false (some 0) true [] none {} [] σ with
    | .error e => .error e
    | .ok r => .ok (some r.out, r.st.addBad (need (!r.out.isEmpty) "empty-routine"))

def writeRoutines (perf : String) : List (RInfo × BGraph) → WSt → Except String (List Routine × WSt)
  | [], σ => .ok ([], σ)
  | (i, g) :: rest, σ =>
    match writeRoutineSt perf i g σ with
    | .error e => .error e
    | .ok (b, σ') =>
      match writeRoutines perf rest σ' with
      | .error e => .error e
      | .ok (rs, σ'') => .ok (⟨b.map Stmts.ofList⟩ :: rs, σ'')

/-- the part of `ExplorerScriptSsbDecompiler.convert()` behind the graph passes: all routines (`zip(infos, graphs)`), then the
check "Labels … are jumped to, but were not written".  `.error "unparseable:…"`: a text is written that the parser rejects. -/
def writeProgram (perf : String) (infos : List RInfo) (graphs : List BGraph) : Except String Program :=
  match writeRoutines perf (infos.zip graphs) {} with
  | .error e => .error e
  | .ok (rs, σ) =>
    if σ.jumped.any fun l => !σ.printed.contains l then .error "ValueError"
    else match σ.bad with
      | some why => .error ("unparseable:" ++ why)
      | none => .ok ⟨[], rs⟩

/-- one routine on its own (fresh state) -/
def writeRoutine (perf : String) (info : RInfo) (g : BGraph) : Except String (Option Stmts) :=
  match writeRoutineSt perf info g {} with
  | .error e => .error e
  | .ok (b, _) => .ok (b.map Stmts.ofList)

end ESV.Decomp.Wr
