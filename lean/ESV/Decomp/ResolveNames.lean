import ESV.Decomp.ResolveItems
import ESV.Decomp.GraphGuard
/-
The resolver's output only contains item names the graph theorem needs: a plain op is never `Jump`, and
the root of a label jump is `Jump` or an op that does not end the flow.
-/
namespace ESV.Decomp
open ESV.Beh

theorem withJump_endFlow :
    ∀ kv ∈ ESV.Spec.opsWithJump, (isJump kv.1 || !ESV.Spec.opsEndFlow.contains kv.1) = true := by decide

theorem jumpIndex_some_endFlow {n : String} {idx : Nat} (h : jumpIndex n = some idx) :
    (isJump n || !ESV.Spec.opsEndFlow.contains n) = true := by
  unfold jumpIndex at h
  rw [ESV.TableTie.opsWithJump_eq] at h
  simp only [Option.map_eq_some_iff] at h
  obtain ⟨kv, hf, _⟩ := h
  have hmem := List.mem_of_find?_eq_some hf
  have hp := List.find?_some hf
  simp only [beq_iff_eq] at hp
  subst hp
  exact withJump_endFlow kv hmem

theorem itemNameOk_conv (K : List Lbl) (o : MOp) (ht : tgtOk K o) : itemNameOk (conv K o) = true := by
  cases hj : jumpIndex o.name with
  | none =>
    have : conv K o = .op o := by simp [conv, hj]
    rw [this]
    simp [itemNameOk, (jumpIndex_none hj).1]
  | some idx =>
    obtain ⟨t, lid, hp, hid⟩ := ht idx hj
    have : conv K o = .ljump ⟨o.off, o.name, o.params.eraseIdx idx⟩ lid (o.name == ESV.Gen.op_call) := by
      simp [conv, hj, hp, hid]
    rw [this]
    exact jumpIndex_some_endFlow hj

theorem resolve_namesGuard (rs : List (List MOp)) (r : Resolved) (h : resolve rs = .ok r) :
    ∀ rt ∈ r.rtns, namesGuard rt = true := by
  obtain ⟨_, hrtns, htgt⟩ := resolve_spec rs r h
  intro rt hrt
  rw [hrtns] at hrt
  obtain ⟨os, hos, rfl⟩ := List.mem_map.mp hrt
  rw [interleave_conv]
  unfold namesGuard
  rw [List.all_eq_true]
  intro it hit
  obtain ⟨o, ho, hito⟩ := List.mem_flatMap.mp hit
  simp only [List.mem_append, List.mem_singleton] at hito
  rcases hito with hl | rfl
  · unfold lblOf at hl
    cases hk : r.labels.find? fun l => l.off == o.off with
    | none => simp [hk] at hl
    | some l => simp [hk] at hl; subst hl; rfl
  · exact itemNameOk_conv _ _ (htgt o (mem_allOps' hos ho))
where
  mem_allOps' {rs : List (List MOp)} {r : List MOp} {o : MOp} (hr : r ∈ rs) (ho : o ∈ r) : o ∈ allOps rs := by
    unfold allOps
    exact List.mem_flatMap.mpr ⟨r, hr, ho⟩

end ESV.Decomp
