import ESV.Decomp.BisimGen
/-
LTS-level lemmas for `optimize_paths`:
* `equiv_of_stepMap`: a renaming of states that commutes with `step` (on a set of states closed under steps) gives
  behavioural equality (used for `delete_vertices`);
* `equiv_of_collapse`: collapsing a silent chain `L → v → ov` (every successor `L` becomes `ov`) gives behavioural
  equality on all states but `L`, `v` (used for one application of the rewriting rule);
* `settles_of_collapse`: the collapse keeps "every state reaches an observable step".
-/
namespace ESV.Decomp.Opt
open ESV.Beh ESV.Decomp.Bisim

variable {ε : Type}

def mapStep {σ τ : Type} (f : σ → τ) : Step σ ε → Step τ ε
  | .silent n => .silent (f n)
  | .emit e n => .emit e (f n)
  | .test e y n => .test e (f y) (f n)
  | .halt e => .halt e

/-- every successor of the step satisfies `P` -/
def allSucc {σ : Type} (P : σ → Prop) : Step σ ε → Prop
  | .silent n => P n
  | .emit _ n => P n
  | .test _ y n => P y ∧ P n
  | .halt _ => True

/-- strong bisimulation along a renaming -/
theorem equiv_of_stepMap (L₁ L₂ : LTS ε) (ρ : L₁.σ → L₂.σ) (P : L₁.σ → Prop)
    (h : ∀ a, P a → L₂.step (ρ a) = mapStep ρ (L₁.step a) ∧ allSucc P (L₁.step a)) :
    ∀ a, P a → Equivalent L₁ L₂ a (ρ a) := by
  intro a ha
  refine equivalent_of_stepMatch L₁ L₂ (fun a b => P a ∧ b = ρ a) (fun b a => P a ∧ b = ρ a) ?_ ?_ a (ρ a)
    ⟨ha, rfl⟩ ⟨ha, rfl⟩
  · rintro a b ⟨hp, rfl⟩
    obtain ⟨h1, h2⟩ := h a hp
    cases hs : L₁.step a with
    | silent s =>
      rw [hs] at h1 h2
      exact stepMatch_silent hs ⟨1, ρ s, ⟨ρ s, h1, rfl⟩, h2, rfl⟩
    | emit e s =>
      rw [hs] at h1 h2
      exact stepMatch_emit hs ⟨1, ρ s, settle_emit 0 h1, h2, rfl⟩
    | test e y n =>
      rw [hs] at h1 h2
      exact stepMatch_test hs ⟨1, ρ y, ρ n, settle_test 0 h1, ⟨h2.1, rfl⟩, ⟨h2.2, rfl⟩⟩
    | halt e =>
      rw [hs] at h1
      exact stepMatch_halt hs ⟨1, settle_halt 0 h1⟩
  · rintro b a ⟨hp, rfl⟩
    obtain ⟨h1, h2⟩ := h a hp
    cases hs : L₁.step a with
    | silent s =>
      rw [hs] at h1 h2
      exact stepMatch_silent h1 ⟨1, s, ⟨s, hs, rfl⟩, h2, rfl⟩
    | emit e s =>
      rw [hs] at h1 h2
      exact stepMatch_emit h1 ⟨1, s, settle_emit 0 hs, h2, rfl⟩
    | test e y n =>
      rw [hs] at h1 h2
      exact stepMatch_test h1 ⟨1, y, n, settle_test 0 hs, ⟨h2.1, rfl⟩, ⟨h2.2, rfl⟩⟩
    | halt e =>
      rw [hs] at h1
      exact stepMatch_halt h1 ⟨1, settle_halt 0 hs⟩

/-- the successor renaming of one rule application: `L` becomes `ov` -/
def tgt (L ov : Nat) (d : Nat) : Nat := if d = L then ov else d

theorem tgt_ne (L ov d : Nat) (h : d ≠ L) : tgt L ov d = d := by simp [tgt, h]
theorem tgt_self (L ov : Nat) : tgt L ov L = ov := by simp [tgt]

/-- what a collapse of the silent chain `L → v → ov` is, at the level of the two step functions -/
structure Collapse (s₁ s₂ : Nat → Step Nat ε) (L v ov : Nat) : Prop where
  map : ∀ b, s₂ b = mapStep (tgt L ov) (s₁ b)
  stepL : s₁ L = .silent v
  stepV : s₁ v = .silent ov
  ovL : ov ≠ L
  ovV : ov ≠ v
  noV : ∀ b, b ≠ L → allSucc (fun s => s ≠ v) (s₁ b)
  stepOv : ∃ s, s₁ ov = .silent s

theorem equiv_of_collapse (s₁ s₂ : Nat → Step Nat ε) (L v ov : Nat) (c : Collapse s₁ s₂ L v ov) :
    ∀ a : Nat, a ≠ L → a ≠ v → Equivalent (⟨Nat, s₁⟩ : LTS ε) ⟨Nat, s₂⟩ a a := by
  intro a haL haV
  -- successors of live states
  have live : ∀ s : Nat, s ≠ v → tgt L ov s ≠ L ∧ tgt L ov s ≠ v := by
    intro s hs
    by_cases h : s = L
    · subst h; rw [tgt_self]; exact ⟨c.ovL, c.ovV⟩
    · rw [tgt_ne _ _ _ h]; exact ⟨h, hs⟩
  refine equivalent_of_stepMatch (⟨Nat, s₁⟩ : LTS ε) ⟨Nat, s₂⟩
    (fun a b => (a ≠ L ∧ a ≠ v ∧ b = a) ∨ (a = L ∧ b = ov) ∨ (a = v ∧ b = ov))
    (fun b a => b ≠ L ∧ b ≠ v ∧ (a = b ∨ (b = ov ∧ (a = L ∨ a = v)))) ?_ ?_ a a
    (Or.inl ⟨haL, haV, rfl⟩) ⟨haL, haV, Or.inl rfl⟩
  · -- left: the graph before, right: after
    have rel : ∀ s : Nat, s ≠ v →
        (s ≠ L ∧ s ≠ v ∧ tgt L ov s = s) ∨ (s = L ∧ tgt L ov s = ov) ∨ (s = v ∧ tgt L ov s = ov) := by
      intro s hs
      by_cases h : s = L
      · subst h; exact Or.inr (Or.inl ⟨rfl, tgt_self _ _⟩)
      · exact Or.inl ⟨h, hs, tgt_ne _ _ _ h⟩
    rintro a b (⟨h1, h2, rfl⟩ | ⟨ha, hb⟩ | ⟨ha, hb⟩)
    · have hm := c.map b
      have hn := c.noV b h1
      cases hs : s₁ b with
      | silent s =>
        rw [hs] at hm hn
        exact stepMatch_silent (L₁ := (⟨Nat, s₁⟩ : LTS ε)) hs ⟨1, tgt L ov s, ⟨_, hm, rfl⟩, rel s hn⟩
      | emit e s =>
        rw [hs] at hm hn
        exact stepMatch_emit (L₁ := (⟨Nat, s₁⟩ : LTS ε)) hs
          ⟨1, tgt L ov s, settle_emit (L := (⟨Nat, s₂⟩ : LTS ε)) 0 hm, rel s hn⟩
      | test e y n =>
        rw [hs] at hm hn
        exact stepMatch_test (L₁ := (⟨Nat, s₁⟩ : LTS ε)) hs
          ⟨1, tgt L ov y, tgt L ov n, settle_test (L := (⟨Nat, s₂⟩ : LTS ε)) 0 hm, rel y hn.1, rel n hn.2⟩
      | halt e =>
        rw [hs] at hm
        exact stepMatch_halt (L₁ := (⟨Nat, s₁⟩ : LTS ε)) hs ⟨1, settle_halt (L := (⟨Nat, s₂⟩ : LTS ε)) 0 hm⟩
    · rw [ha, hb]
      exact stepMatch_silent (L₁ := (⟨Nat, s₁⟩ : LTS ε)) c.stepL ⟨0, ov, rfl, Or.inr (Or.inr ⟨rfl, rfl⟩)⟩
    · rw [ha, hb]
      exact stepMatch_silent (L₁ := (⟨Nat, s₁⟩ : LTS ε)) c.stepV ⟨0, ov, rfl, Or.inl ⟨c.ovL, c.ovV, rfl⟩⟩
  · -- left: the graph after, right: before
    have rel : ∀ s : Nat, s ≠ v →
        tgt L ov s ≠ L ∧ tgt L ov s ≠ v ∧ (s = tgt L ov s ∨ (tgt L ov s = ov ∧ (s = L ∨ s = v))) := by
      intro s hs
      refine ⟨(live s hs).1, (live s hs).2, ?_⟩
      by_cases h : s = L
      · subst h; exact Or.inr ⟨tgt_self _ _, Or.inl rfl⟩
      · exact Or.inl (tgt_ne _ _ _ h).symm
    -- the chain in front of `ov`
    obtain ⟨so, hso⟩ := c.stepOv
    have hsoV : so ≠ v := by
      have := c.noV ov c.ovL; rw [hso] at this; exact this
    rintro b a ⟨h1, h2, (rfl | ⟨hb, (ha | ha)⟩)⟩
    · have hm := c.map a
      have hn := c.noV a h1
      cases hs : s₁ a with
      | silent s =>
        rw [hs] at hm hn
        exact stepMatch_silent (L₁ := (⟨Nat, s₂⟩ : LTS ε)) hm ⟨1, s, ⟨_, hs, rfl⟩, rel s hn⟩
      | emit e s =>
        rw [hs] at hm hn
        exact stepMatch_emit (L₁ := (⟨Nat, s₂⟩ : LTS ε)) hm
          ⟨1, s, settle_emit (L := (⟨Nat, s₁⟩ : LTS ε)) 0 hs, rel s hn⟩
      | test e y n =>
        rw [hs] at hm hn
        exact stepMatch_test (L₁ := (⟨Nat, s₂⟩ : LTS ε)) hm
          ⟨1, y, n, settle_test (L := (⟨Nat, s₁⟩ : LTS ε)) 0 hs, rel y hn.1, rel n hn.2⟩
      | halt e =>
        rw [hs] at hm
        exact stepMatch_halt (L₁ := (⟨Nat, s₂⟩ : LTS ε)) hm ⟨1, settle_halt (L := (⟨Nat, s₁⟩ : LTS ε)) 0 hs⟩
    · rw [ha, hb]
      have hm := c.map ov
      rw [hso] at hm
      exact stepMatch_silent (L₁ := (⟨Nat, s₂⟩ : LTS ε)) hm
        ⟨3, so, ⟨_, c.stepL, _, c.stepV, _, hso, rfl⟩, rel so hsoV⟩
    · rw [ha, hb]
      have hm := c.map ov
      rw [hso] at hm
      exact stepMatch_silent (L₁ := (⟨Nat, s₂⟩ : LTS ε)) hm
        ⟨2, so, ⟨_, c.stepV, _, hso, rfl⟩, rel so hsoV⟩

/-- every state reaches an observable step -/
def Settles (L : LTS ε) : Prop := ∀ a, ∃ f, (settle L f a).isSome = true

/-- a silent two-cycle never settles -/
theorem not_settles_two_cycle (L : LTS ε) (a b : L.σ) (h1 : L.step a = .silent b) (h2 : L.step b = .silent a) :
    ∀ f, settle L f a = none ∧ settle L f b = none := by
  intro f
  induction f with
  | zero => exact ⟨rfl, rfl⟩
  | succ f ih => exact ⟨by rw [settle_silent f h1]; exact ih.2, by rw [settle_silent f h2]; exact ih.1⟩

theorem settles_of_collapse (s₁ s₂ : Nat → Step Nat ε) (L v ov : Nat) (c : Collapse s₁ s₂ L v ov)
    (hs : Settles (⟨Nat, s₁⟩ : LTS ε)) : Settles (⟨Nat, s₂⟩ : LTS ε) := by
  have key : ∀ f, ∀ a : Nat, a ≠ L → a ≠ v → (settle (⟨Nat, s₁⟩ : LTS ε) f a).isSome = true →
      ∃ f', (settle (⟨Nat, s₂⟩ : LTS ε) f' a).isSome = true := by
    intro f
    induction f using Nat.strongRecOn with
    | ind f ih =>
      intro a haL haV hsome
      cases f with
      | zero => simp [settle] at hsome
      | succ f =>
        have hm := c.map a
        have hn := c.noV a haL
        cases hst : s₁ a with
        | silent s =>
          rw [hst] at hm hn
          rw [settle_silent (L := (⟨Nat, s₁⟩ : LTS ε)) f hst] at hsome
          by_cases hsL : s = L
          · rw [hsL] at hsome
            simp only [mapStep, hsL, tgt_self] at hm
            -- two more silent steps on the left
            cases f with
            | zero => simp [settle] at hsome
            | succ f =>
              rw [settle_silent (L := (⟨Nat, s₁⟩ : LTS ε)) f c.stepL] at hsome
              cases f with
              | zero => simp [settle] at hsome
              | succ f =>
                rw [settle_silent (L := (⟨Nat, s₁⟩ : LTS ε)) f c.stepV] at hsome
                obtain ⟨f', hf'⟩ := ih f (by omega) ov c.ovL c.ovV hsome
                exact ⟨f' + 1, by rw [settle_silent (L := (⟨Nat, s₂⟩ : LTS ε)) f' hm]; exact hf'⟩
          · simp only [mapStep, tgt_ne _ _ _ hsL] at hm
            obtain ⟨f', hf'⟩ := ih f (by omega) s hsL hn hsome
            exact ⟨f' + 1, by rw [settle_silent (L := (⟨Nat, s₂⟩ : LTS ε)) f' hm]; exact hf'⟩
        | emit e s =>
          rw [hst] at hm
          exact ⟨1, by rw [settle_emit (L := (⟨Nat, s₂⟩ : LTS ε)) 0 hm]; rfl⟩
        | test e y n =>
          rw [hst] at hm
          exact ⟨1, by rw [settle_test (L := (⟨Nat, s₂⟩ : LTS ε)) 0 hm]; rfl⟩
        | halt e =>
          rw [hst] at hm
          exact ⟨1, by rw [settle_halt (L := (⟨Nat, s₂⟩ : LTS ε)) 0 hm]; rfl⟩
  have live : ∀ a : Nat, a ≠ L → a ≠ v → ∃ f', (settle (⟨Nat, s₂⟩ : LTS ε) f' a).isSome = true := by
    intro a h1 h2
    obtain ⟨f, hf⟩ := hs a
    exact key f a h1 h2 hf
  have hV : ∃ f', (settle (⟨Nat, s₂⟩ : LTS ε) f' v).isSome = true := by
    obtain ⟨f', hf'⟩ := live ov c.ovL c.ovV
    have hm := c.map v
    rw [c.stepV] at hm
    have : tgt L ov ov = ov := tgt_ne _ _ _ c.ovL
    simp only [mapStep, this] at hm
    exact ⟨f' + 1, by rw [settle_silent (L := (⟨Nat, s₂⟩ : LTS ε)) f' hm]; exact hf'⟩
  intro a
  by_cases h1 : a = L
  · subst h1
    obtain ⟨f', hf'⟩ := hV
    have hm := c.map a
    rw [c.stepL] at hm
    by_cases hva : v = a
    · subst hva; exact ⟨f', hf'⟩
    · have : tgt a ov v = v := tgt_ne _ _ _ hva
      simp only [mapStep, this] at hm
      exact ⟨f' + 1, by rw [settle_silent (L := (⟨Nat, s₂⟩ : LTS ε)) f' hm]; exact hf'⟩
  · by_cases h2 : a = v
    · subst h2; exact hV
    · exact live a h1 h2

end ESV.Decomp.Opt
