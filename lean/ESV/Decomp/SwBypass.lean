import ESV.Decomp.SwInv
import ESV.Decomp.BrModel
/-
The loop `for e in result` of the second part of `build_and_group_switch_cases` (`bypassLoop`): what the graph looks like
when it ends - the edges of the graph before it, plus one copy per by-passed Jump `J` of THE edge into `J`, re-targeted
to the end label - and what the final `delete_edges(es_to_delete)` leaves: every edge into a by-passed Jump is replaced by an
edge to the end label (`byp`), nothing else changes.
-/
namespace ESV.Decomp.Sw
open ESV.Beh ESV.Decomp ESV.Decomp.Opt ESV.Decomp.Gr

/-- a label jump without marker whose root is Jump -/
def PlainJump (g : BGraph) (j : Nat) : Prop :=
  ∃ x r l c, g.vs[j]? = some x ∧ x.op = .item (.ljump r l c) ∧ x.ifStart = none ∧ x.ifOps = [] ∧ isJump r.name = true

/-- the by-passed Jumps go to the end label -/
def byp (js : List Nat) (endV : Nat) (x : Nat) : Nat := if js.contains x then endV else x

def retarget (τ : Nat → Nat) (e : BEdge) : BEdge := { e with dst := τ e.dst }

def copyTo (endV : Nat) (t : Nat × Nat × BEdge) : BEdge := { t.2.2 with dst := endV }

/-- state of `bypassLoop`: `bs` = (position of the edge into the Jump, the Jump, that edge) per by-pass so far -/
structure BInv (g1 : BGraph) (endV : Nat) (gc : BGraph) (bs : List (Nat × Nat × BEdge)) : Prop where
  vs : gc.vs = g1.vs
  es : gc.es = g1.es ++ bs.map (copyTo endV)
  pos : ∀ t ∈ bs, g1.es[t.1]? = some t.2.2 ∧ t.2.2.dst = t.2.1
  uniq : ∀ t ∈ bs, ∀ i e, g1.es[i]? = some e → e.dst = t.2.1 → i = t.1
  jump : ∀ t ∈ bs, PlainJump g1 t.2.1 ∧ t.2.1 ≠ 0 ∧ (∃ e ∈ g1.es, e.src = t.2.1) ∧ ∀ e ∈ g1.es, e.src = t.2.1 → e.dst = endV

theorem jumpOkS_spec (g : BGraph) (j endV : Nat) (h : g.jumpOkS j endV = true) :
    j ≠ 0 ∧ PlainJump g j ∧ (∃ b, g.inIds j = [b]) ∧ ∀ e ∈ g.es, e.src = j → e.dst = endV := by
  unfold BGraph.jumpOkS at h
  simp only [Bool.and_eq_true, bne_iff_ne, ne_eq, List.all_eq_true, Bool.or_eq_true, Bool.not_eq_true',
    beq_eq_false_iff_ne, beq_iff_eq] at h
  obtain ⟨⟨⟨h0, hv⟩, hin⟩, hout⟩ := h
  refine ⟨h0, ?_, ?_, ?_⟩
  · split at hv
    · rename_i nm r l c a4 a6 a7 a8 b1 b2 b3 b4 b5 b6 b7 heq
      exact ⟨_, r, l, c, heq, rfl, rfl, rfl, hv⟩
    · cases hv
  · split at hin
    · rename_i b heq; exact ⟨b, heq⟩
    · cases hin
  · intro e he hs
    rcases hout e he with h1 | h1
    · exact absurd hs h1
    · exact h1

theorem mem_inIds (g : BGraph) (v i : Nat) : i ∈ g.inIds v ↔ ∃ e, g.es[i]? = some e ∧ e.dst = v := by
  unfold BGraph.inIds
  rw [mem_inEdgeIds]
  constructor
  · rintro ⟨e, he, hd⟩
    rw [Br.toGraph_es_get] at he
    cases hb : g.es[i]? with
    | none => rw [hb] at he; cases he
    | some b => rw [hb] at he; simp at he; subst he; exact ⟨b, rfl, hd⟩
  · rintro ⟨b, hb, hd⟩
    exact ⟨b.toEdge, by rw [Br.toGraph_es_get, hb]; rfl, hd⟩

theorem isJumpS_congr (g g' : BGraph) (h : g'.vs = g.vs) (w : Nat) : g'.isJumpS w = g.isJumpS w := by
  unfold BGraph.isJumpS; rw [h]

theorem plainJump_congr (g g' : BGraph) (h : g'.vs = g.vs) (w : Nat) (hp : PlainJump g' w) : PlainJump g w := by
  unfold PlainJump at hp ⊢; rw [h] at hp; exact hp

theorem plainJump_not_label (g : BGraph) (j : Nat) (h : PlainJump g j) : g.isLabelV j = false := by
  obtain ⟨x, r, l, c, h1, h2, _⟩ := h
  unfold BGraph.isLabelV BGraph.opAt
  rw [h1]; simp [h2]

variable {g1 : BGraph} {endV : Nat}

theorem BInv.prefix {gc : BGraph} {bs : List (Nat × Nat × BEdge)} (h : BInv g1 endV gc bs) (i : Nat) (e : BEdge)
    (he : g1.es[i]? = some e) : gc.es[i]? = some e := by
  rw [h.es, List.getElem?_append_left (List.getElem?_eq_some_iff.mp he).1]; exact he

/-- a position of the current graph that holds an edge into a vertex other than the end label is a position of the graph
the loop started with -/
theorem BInv.old_pos {gc : BGraph} {bs : List (Nat × Nat × BEdge)} (h : BInv g1 endV gc bs) (i : Nat) (e : BEdge)
    (he : gc.es[i]? = some e) (hd : e.dst ≠ endV) : g1.es[i]? = some e := by
  rw [h.es] at he
  rcases Nat.lt_or_ge i g1.es.length with hlt | hge
  · rw [List.getElem?_append_left hlt] at he; exact he
  · rw [List.getElem?_append_right hge] at he
    have := List.mem_of_getElem? he
    simp only [List.mem_map] at this
    obtain ⟨t, _, rfl⟩ := this
    exact absurd rfl hd

theorem bypassLoop_inv (hl : g1.isLabelV endV = true) (delI0 : List Nat) :
    ∀ (ids : List Nat) (gc : BGraph) (seen : List Nat) (bs : List (Nat × Nat × BEdge)) (g2 : BGraph) (toDel' delI' : List Nat),
      BInv g1 endV gc bs → (∀ i ∈ ids, i < g1.es.length) → BGraph.bypassOkLoop endV ids gc seen = true →
      BGraph.bypassLoop endV ids gc seen (bs.map (·.1)) (delI0 ++ bs.map (·.2.1)) = .ok (g2, toDel', delI') →
      ∃ bs', BInv g1 endV g2 bs' ∧ toDel' = bs'.map (·.1) ∧ delI' = delI0 ++ bs'.map (·.2.1) := by
  intro ids
  induction ids with
  | nil =>
    intro gc seen bs g2 toDel' delI' hinv _ _ hr
    unfold BGraph.bypassLoop at hr
    simp only [Except.ok.injEq, Prod.mk.injEq] at hr
    obtain ⟨rfl, rfl, rfl⟩ := hr
    exact ⟨bs, hinv, rfl, rfl⟩
  | cons i rest ih =>
    intro gc seen bs g2 toDel' delI' hinv hids hok hr
    have hrest : ∀ k ∈ rest, k < g1.es.length := fun k hk => hids k (List.mem_cons_of_mem _ hk)
    unfold BGraph.bypassLoop at hr
    unfold BGraph.bypassOkLoop at hok
    by_cases hseen : seen.contains i = true
    · rw [if_pos hseen] at hr hok
      exact ih gc seen bs g2 toDel' delI' hinv hrest hok hr
    · rw [if_neg hseen] at hr hok
      have hi := hids i (List.mem_cons_self ..)
      have hgi : gc.es[i]? = some g1.es[i] := hinv.prefix i _ (List.getElem?_eq_getElem hi)
      rw [hgi] at hr hok
      simp only at hr hok
      by_cases hj : gc.isJumpS g1.es[i].src = true
      · rw [if_pos hj] at hr hok
        simp only [Bool.and_eq_true] at hok
        obtain ⟨hjok, hok⟩ := hok
        obtain ⟨h0, hpj, ⟨b, hb⟩, hout⟩ := jumpOkS_spec gc _ endV hjok
        rw [hb] at hr hok
        simp only at hr hok
        have hbm : b ∈ gc.inIds g1.es[i].src := by rw [hb]; simp
        obtain ⟨eb, heb, hebd⟩ := (mem_inIds gc _ b).mp hbm
        rw [heb] at hr hok
        simp only at hr hok
        have hpj1 : PlainJump g1 g1.es[i].src := plainJump_congr g1 gc hinv.vs _ hpj
        have hne : g1.es[i].src ≠ endV := by
          intro heq
          have := plainJump_not_label g1 _ hpj1
          rw [heq, hl] at this; cases this
        have hb1 : g1.es[b]? = some eb := hinv.old_pos b eb heb (by rw [hebd]; exact hne)
        let t : Nat × Nat × BEdge := (b, g1.es[i].src, eb)
        have hinv' : BInv g1 endV (gc.addEdge { eb with dst := endV }) (bs ++ [t]) := by
          refine ⟨hinv.vs, ?_, ?_, ?_, ?_⟩
          · rw [addEdge_es, hinv.es, List.map_append, List.append_assoc]; rfl
          · intro t' ht'
            rcases List.mem_append.mp ht' with h | h
            · exact hinv.pos t' h
            · simp at h; subst h; exact ⟨hb1, hebd⟩
          · intro t' ht'
            rcases List.mem_append.mp ht' with h | h
            · exact hinv.uniq t' h
            · simp at h; subst h
              intro k e hk hd
              have : k ∈ gc.inIds g1.es[i].src := (mem_inIds gc _ k).mpr ⟨e, hinv.prefix k e hk, hd⟩
              rw [hb] at this; simpa using this
          · intro t' ht'
            rcases List.mem_append.mp ht' with h | h
            · exact hinv.jump t' h
            · simp at h; subst h
              refine ⟨hpj1, h0, ⟨g1.es[i], List.getElem_mem hi, rfl⟩, ?_⟩
              intro e he hs
              obtain ⟨k, hk⟩ := List.getElem?_of_mem he
              exact hout e (List.mem_of_getElem? (hinv.prefix k e hk)) hs
        have := ih (gc.addEdge { eb with dst := endV }) (seen ++ [i]) (bs ++ [t]) g2 toDel' delI' hinv' hrest hok
          (by simpa [t, List.append_assoc] using hr)
        exact this
      · rw [if_neg hj] at hr hok
        exact ih gc (seen ++ [i]) bs g2 toDel' delI' hinv hrest hok hr

end ESV.Decomp.Sw
