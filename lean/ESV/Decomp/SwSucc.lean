import ESV.Decomp.SwEdges
/-
Where a step can lead: back to the same vertex (the next test), off the routine, to "stuck", or along an out-edge that the
vertex READS (`ignoredE = false`).  No determinacy hypothesis is needed.
-/
namespace ESV.Decomp.Sw
open ESV.Beh ESV.Decomp ESV.Decomp.Opt ESV.Decomp.Gr

def SuccOk (g : BGraph) (a : Nat) (p : Nat × Nat) : Prop :=
  p.1 = a ∨ (p.2 = 0 ∧ (p.1 = g.vs.length ∨ p.1 = g.vs.length + 1 ∨
    ∃ e ∈ g.es, e.src = a ∧ e.dst = p.1 ∧ g.ignoredE e = false))

variable {g : BGraph} {a : Nat}

theorem succOk_edge (e : BEdge) (he : e ∈ g.es) (hs : e.src = a) (hi : g.ignoredE e = false) : SuccOk g a (e.dst, 0) :=
  Or.inr ⟨rfl, Or.inr (Or.inr ⟨e, he, hs, rfl, hi⟩)⟩

theorem fall_ok (hs : g.isSwitchV a = false) : SuccOk g a (g.toGraph.fall a, 0) := by
  unfold Graph.fall
  rcases lowest_char g a with ⟨h1, _⟩ | ⟨b, hb, hsrc, h1, _⟩
  · rw [h1, toGraph_fellOff]; exact Or.inr ⟨rfl, Or.inl rfl⟩
  · rw [h1]; exact succOk_edge b hb hsrc (ignoredE_of_not_switch g b (by rw [hsrc]; exact hs))

theorem jumpTarget_ok (hs : g.isSwitchV a = false) : SuccOk g a (g.toGraph.jumpTarget a, 0) := by
  unfold Graph.jumpTarget
  rcases highest_char g a with ⟨h1, _⟩ | ⟨b, hb, hsrc, h1, _⟩
  · rw [h1, toGraph_stuck]; exact Or.inr ⟨rfl, Or.inr (Or.inl rfl)⟩
  · rw [h1]; exact succOk_edge b hb hsrc (ignoredE_of_not_switch g b (by rw [hsrc]; exact hs))

theorem fallOfJump_ok (hs : g.isSwitchV a = false) : SuccOk g a (g.toGraph.fallOfJump a, 0) := by
  unfold Graph.fallOfJump
  have hf : SuccOk g a (g.toGraph.fellOff, 0) := by rw [toGraph_fellOff]; exact Or.inr ⟨rfl, Or.inl rfl⟩
  rcases lowest_char g a with ⟨h1, _⟩ | ⟨b, hb, hsrc, h1, _⟩
  · rw [h1]; exact hf
  · rw [h1]
    cases g.toGraph.highest a with
    | none => exact hf
    | some hi =>
      simp only
      split
      · exact succOk_edge b hb hsrc (ignoredE_of_not_switch g b (by rw [hsrc]; exact hs))
      · exact hf

theorem ifTarget_ok (hs : g.isSwitchV a = false) : SuccOk g a (g.ifTarget a, 0) := by
  unfold BGraph.ifTarget
  cases h : g.firstIf a with
  | none => simp only; rw [toGraph_stuck]; exact Or.inr ⟨rfl, Or.inr (Or.inl rfl)⟩
  | some p =>
    obtain ⟨i, e⟩ := p
    obtain ⟨h1, h2, _⟩ := firstIf_some g a i e h
    exact succOk_edge e (List.mem_of_getElem? h1) h2 (ignoredE_of_not_switch g e (by rw [h2]; exact hs))

theorem elseTarget_ok (hs : g.isSwitchV a = false) : SuccOk g a (g.elseTarget a, 0) := by
  unfold BGraph.elseTarget
  cases h : g.firstElse a with
  | none => simp only; rw [toGraph_stuck]; exact Or.inr ⟨rfl, Or.inr (Or.inl rfl)⟩
  | some p =>
    obtain ⟨i, e⟩ := p
    obtain ⟨h1, h2, _⟩ := firstElse_some g a i e h
    exact succOk_edge e (List.mem_of_getElem? h1) h2 (ignoredE_of_not_switch g e (by rw [h2]; exact hs))

theorem switchElse_ok : SuccOk g a (g.switchElse a, 0) := by
  unfold BGraph.switchElse
  cases h : g.firstElse a with
  | none => simp only; rw [toGraph_fellOff]; exact Or.inr ⟨rfl, Or.inl rfl⟩
  | some p =>
    obtain ⟨i, e⟩ := p
    obtain ⟨h1, h2, h3⟩ := firstElse_some g a i e h
    exact succOk_edge e (List.mem_of_getElem? h1) h2 (by unfold BGraph.ignoredE; simp [h3])

theorem switchNext_ok (i : Nat) : SuccOk g a (g.switchNext a i) := by
  unfold BGraph.switchNext
  cases g.nextTest a i with
  | none => exact switchElse_ok
  | some t => exact Or.inl rfl

theorem nextTest_edge (i : Nat) (t : CaseT) (h : g.nextTest a i = some t) :
    ∃ e ∈ g.es, e.src = a ∧ e.dst = t.2.2 ∧ g.ignoredE e = false := by
  rcases nextTest_spec g a i with ⟨h1, _⟩ | ⟨t', h1, h2, _, _⟩
  · rw [h1] at h; cases h
  · rw [h1] at h
    have ht : t' = t := by simpa using h
    subst ht
    obtain ⟨e, he, hs, hd, si, hm⟩ := (mem_caseTriples g a t').mp h2
    refine ⟨e, he, hs, hd.symm, ?_⟩
    unfold BGraph.ignoredE
    have : e.switchOps.isEmpty = false := by
      cases hl : e.switchOps with
      | nil => rw [hl] at hm; cases hm
      | cons _ _ => rfl
    simp [this]

theorem isIfV_not_switch (h : g.isIfV a = true) : g.isSwitchV a = false := by
  obtain ⟨x, r, l, id, h1, h2, _⟩ := isIfV_spec g a h
  unfold BGraph.isSwitchV BGraph.isSwitchVertex
  rw [h1]; simp [h2]

theorem succ_read (g : BGraph) (a j : Nat) : allSucc (SuccOk g a) (g.stepPS (a, j)) := by
  unfold BGraph.stepPS
  simp only
  cases hs : g.isSwitchV a with
  | true =>
    simp only [if_true]
    split
    · rename_i o _
      unfold BGraph.switchStep
      cases j with
      | zero =>
        simp only
        split
        · trivial
        · exact switchNext_ok 0
      | succ i =>
        simp only
        cases ht : g.nextTest a i with
        | none => trivial
        | some t =>
          obtain ⟨ix, op, d⟩ := t
          obtain ⟨e, he, hsrc, hd, hi⟩ := nextTest_edge i _ ht
          refine ⟨?_, switchNext_ok _⟩
          simp only at hd
          rw [← hd]; exact succOk_edge e he hsrc hi
    · trivial
  | false =>
    simp only [Bool.false_eq_true, if_false]
    unfold BGraph.stepP
    simp only
    cases hi : g.isIfV a with
    | true =>
      simp only [if_true]
      cases g.vs[a]? with
      | none => trivial
      | some x =>
        simp only
        unfold BGraph.ifStep BGraph.takenOf BGraph.notTakenOf
        cases (BGraph.testsOf x)[j]? with
        | none => trivial
        | some t =>
          simp only
          refine ⟨?_, ?_⟩
          · split
            · exact elseTarget_ok hs
            · exact ifTarget_ok hs
          · split
            · exact Or.inl rfl
            · split
              · exact ifTarget_ok hs
              · exact elseTarget_ok hs
    | false =>
      simp only [Bool.false_eq_true, if_false]
      split
      · unfold Graph.stepE
        split
        · split <;> trivial
        · trivial
        · exact fall_ok hs
        · split
          · exact jumpTarget_ok hs
          · exact ⟨jumpTarget_ok hs, fallOfJump_ok hs⟩
        · split
          · trivial
          · exact fall_ok hs
      · trivial

end ESV.Decomp.Sw
