import ESV.Decomp.LpByp
/-
The two loops of `remove_label_markers` (`jumpsGo`, `labelsGo`): what the graph looks like when they end - the vertices keep
what a step reads of their attributes (`force_write` is not read), the edges are those of the graph before the loop plus one copy
per by-pass of an edge that led to the by-passed vertex.
-/
namespace ESV.Decomp.Lp
open ESV.Beh ESV.Decomp ESV.Decomp.Opt ESV.Decomp.Gr ESV.Decomp.Sw

structure JInv (g gc : BGraph) (del : List Nat) (bs : List Byp) (raise : Bool) : Prop where
  same : ∀ u, SameVL g gc u u
  len : gc.vs.length = g.vs.length
  es : gc.es = g.es ++ bs.map (fun b => BGraph.bypEdge b.ein b.a raise)
  ein : ∀ b ∈ bs, b.ein ∈ gc.es ∧ b.ein.dst = b.d ∧ b.d ∈ del

variable {g gc : BGraph} {del : List Nat} {bs : List Byp} {raise : Bool}

theorem JInv.init (g : BGraph) (raise : Bool) : JInv g g [] [] raise :=
  ⟨fun _ => SameVL.of_eq rfl, rfl, by simp, by simp⟩

theorem coreL_setForceWrite (x : BVertex) : coreL (BGraph.setForceWriteV x) = coreL x := rfl

/-- `v_after["op"].force_write = True` -/
theorem JInv.fw (h : JInv g gc del bs raise) (a : Nat) (c : Bool) :
    JInv g (if c = true then { vs := gc.vs.modify a BGraph.setForceWriteV, es := gc.es } else gc) del bs raise := by
  cases c with
  | false => exact h
  | true =>
    simp only [if_true]
    refine ⟨?_, by simp [h.len], h.es, h.ein⟩
    intro u
    have := h.same u
    unfold SameVL at this ⊢
    rw [← this]
    simp only [List.getElem?_modify]
    split
    · cases gc.vs[u]? <;> simp [coreL_setForceWrite]
    · cases gc.vs[u]? <;> rfl

theorem JInv.addDel (h : JInv g gc del bs raise) (v : Nat) : JInv g gc (del ++ [v]) bs raise :=
  ⟨h.same, h.len, h.es, fun b hb => ⟨(h.ein b hb).1, (h.ein b hb).2.1, List.mem_append_left _ (h.ein b hb).2.2⟩⟩

theorem JInv.byp (h : JInv g gc del bs raise) (v i a : Nat) (ein : BEdge) (hi : i ∈ gc.inIds v) (he : gc.es[i]? = some ein) :
    JInv g { vs := gc.vs, es := gc.es ++ [BGraph.bypEdge ein a raise] } (del ++ [v]) (bs ++ [⟨v, ein, a⟩]) raise := by
  obtain ⟨e', he', hd'⟩ := (mem_inIds gc v i).mp hi
  rw [he] at he'
  have : e' = ein := by simpa using he'.symm
  subst this
  refine ⟨h.same, h.len, ?_, ?_⟩
  · simp only [List.map_append, List.map_cons, List.map_nil]
    rw [h.es, List.append_assoc]
  · intro b hb
    rcases List.mem_append.mp hb with hb | hb
    · exact ⟨List.mem_append_left _ (h.ein b hb).1, (h.ein b hb).2.1, List.mem_append_left _ (h.ein b hb).2.2⟩
    · simp only [List.mem_singleton] at hb
      subst hb
      exact ⟨List.mem_append_left _ (List.mem_of_getElem? he), hd', by simp⟩

theorem jumpsGo_inv (g : BGraph) (vs : List Nat) (gc : BGraph) (del : List Nat) (bs : List Byp)
    (r : BGraph × List Nat × List Byp) (hinv : JInv g gc del bs true) (hr : BGraph.jumpsGo vs gc del bs = .ok r) :
    JInv g r.1 r.2.1 r.2.2 true := by
  fun_induction BGraph.jumpsGo vs gc del bs
  case case1 => cases hr; exact hinv
  case case2 ih => exact ih hinv hr
  case case3 ih => exact ih hinv hr
  case case4 ih => exact ih hinv hr
  case case5 ih => exact ih (hinv.addDel _) hr
  case case6 => cases hr
  case case7 ih => exact ih (hinv.fw _ _) hr
  case case8 ih => exact ih (hinv.fw _ _) hr
  case case9 => cases hr
  case case10 ih => exact ih (hinv.fw _ _) hr
  case case11 v _ gc' _ _ _ _ _ ins _ _ _ i o _ hins ein _ _ hein a y _ g1 _ _ _ _ _ ih =>
    refine ih ?_ hr
    have h1 := hinv.fw a (BGraph.isLabelX y)
    have hi : i ∈ BGraph.inIds g1 v := by
      have : BGraph.inIds g1 v = gc'.inIds v := by
        show BGraph.inIds (if BGraph.isLabelX y = true then _ else gc') v = _
        split <;> rfl
      rw [this]
      show i ∈ ins
      rw [hins]; simp
    have he : g1.es[i]? = some ein := by
      have : g1.es = gc'.es := by
        show BGraph.es (if BGraph.isLabelX y = true then _ else gc') = _
        split <;> rfl
      rw [this]; exact hein
    exact h1.byp v i a ein hi he
  case case12 => cases hr
  case case13 => cases hr

theorem labelsGo_inv (labels : List Lbl) (g : BGraph) (vs : List Nat) (gc : BGraph) (del : List Nat) (bs : List Byp)
    (r : BGraph × List Nat × List Byp) (hinv : JInv g gc del bs false) (hr : BGraph.labelsGo labels vs gc del bs = .ok r) :
    JInv g r.1 r.2.1 r.2.2 false := by
  fun_induction BGraph.labelsGo labels vs gc del bs
  case case1 => cases hr; exact hinv
  case case2 ih => exact ih hinv hr
  case case3 ih => exact ih hinv hr
  case case4 ih => exact ih (hinv.addDel _) hr
  case case5 ih => exact ih hinv hr
  case case6 ih => exact ih hinv hr
  case case7 v _ gc' _ _ _ _ _ _ i hins _ _ ein eout _ hein _ ih =>
    refine ih ?_ hr
    exact hinv.byp v i eout.dst ein (by rw [hins]; simp) hein
  case case8 => cases hr
  case case9 => cases hr
  case case10 ih => exact ih hinv hr

/-- the state in front of the first `delete_vertices` -/
theorem removeJumpsRaw_inv (g graw : BGraph) (del : List Nat) (bs : List Byp) (h : removeJumpsRaw g = .ok (graw, del, bs)) :
    JInv g graw del bs true :=
  jumpsGo_inv g _ g [] [] (graw, del, bs) (JInv.init g true) h

/-- the state in front of the second `delete_vertices` -/
theorem removeLabelsRaw_inv (labels : List Lbl) (g graw : BGraph) (del : List Nat) (bs : List Byp)
    (h : removeLabelsRaw labels g = .ok (graw, del, bs)) : JInv g graw del bs false :=
  labelsGo_inv labels g _ g [] [] (graw, del, bs) (JInv.init g false) h

end ESV.Decomp.Lp
