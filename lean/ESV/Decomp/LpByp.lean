import ESV.Decomp.LpSem
/-
One loop of `remove_label_markers` in front of its `delete_vertices`, abstractly (`BypCtx`): the graph `Graw` has the edges of
`G` plus, per by-pass, a copy of THE edge into the by-passed vertex, re-targeted to where that vertex leads; `D` = what goes.
Then `Graw.deleteVs D` behaves like `G`: a vertex that stays keeps its step, with every edge into a by-passed vertex `d`
replaced by an edge to the successor of `d` (`ρ = renumber ∘ τ`); a by-passed vertex only takes a silent step to its successor.
-/
namespace ESV.Decomp.Lp
open ESV.Beh ESV.Decomp ESV.Decomp.Opt ESV.Decomp.Gr ESV.Decomp.Sw

structure BypCtx (G Graw : BGraph) (D : List Nat) (bs : List Byp) : Prop where
  det : Det G
  synp : ∀ a, G.isSynV a = true → G.isIfV a = false ∧ G.isSwitchV a = false
  same : ∀ u, SameVL G Graw u u
  len : Graw.vs.length = G.vs.length
  es : ∀ x, x ∈ Graw.es ↔ x ∈ G.es ∨ ∃ b ∈ bs, x = BGraph.bypEdge b.ein b.a false
  ein : ∀ b ∈ bs, b.ein ∈ G.es ∧ b.ein.dst = b.d ∧ b.d ∈ D
  nz : 0 ∉ D
  lt : ∀ d ∈ D, d < G.vs.length
  silent : ∀ d ∈ D, ∃ x, G.vs[d]? = some x ∧ silentX x = true
  keep : ∀ b ∈ bs, b.a ∉ D
  out : ∀ b ∈ bs, (∃ e ∈ G.es, e.src = b.d) ∧ ∀ e ∈ G.es, e.src = b.d → e.dst = b.a
  dead : ∀ e ∈ G.es, e.dst ∈ D → e.src ∈ D ∨ ∃ b ∈ bs, b.d = e.dst ∧ b.ein = e
  ctx : ∀ b ∈ bs, G.toGraph.isCtxVertex b.ein.src = true → ∀ y, G.vs[b.a]? = some y → readsCtxX y = false

/-- where a by-passed vertex leads -/
def tau (bs : List Byp) (x : Nat) : Nat :=
  match bs.find? fun b => b.d == x with
  | some b => b.a
  | none => x

variable {G Graw : BGraph} {D : List Nat} {bs : List Byp}

theorem tau_not (h : BypCtx G Graw D bs) (x : Nat) (hx : x ∉ D) : tau bs x = x := by
  unfold tau
  cases hf : bs.find? fun b => b.d == x with
  | none => rfl
  | some b =>
    have hm := List.mem_of_find?_eq_some hf
    have hd : b.d = x := by simpa using List.find?_some hf
    exact absurd (hd ▸ (h.ein b hm).2.2) hx

theorem tau_byp (h : BypCtx G Graw D bs) (b : Byp) (hb : b ∈ bs) : tau bs b.d = b.a := by
  unfold tau
  cases hf : bs.find? fun b' => b'.d == b.d with
  | none =>
    have := List.find?_eq_none.mp hf b hb
    simp at this
  | some b' =>
    have hm := List.mem_of_find?_eq_some hf
    have hd : b'.d = b.d := by simpa using List.find?_some hf
    obtain ⟨⟨e, he, hs⟩, hall⟩ := h.out b hb
    have h1 := hall e he hs
    have h2 := (h.out b' hm).2 e he (by rw [hd]; exact hs)
    simp only
    rw [← h2, h1]

/-- a plain op or wrapped switch op is not silent -/
theorem silent_kinds (x : BVertex) (h : silentX x = true) :
    x.synthetic = false ∧ ((∃ id, x.op = .item (.label id)) ∨
      (∃ r l c, x.op = .item (.ljump r l c) ∧ x.ifStart = none ∧ x.ifOps = [] ∧ isJump r.name = true)) := by
  unfold silentX at h
  rw [Bool.or_eq_true] at h
  rcases h with h | h
  · unfold BGraph.isLabelX at h
    simp only [Bool.and_eq_true, Bool.not_eq_true'] at h
    refine ⟨h.1, Or.inl ?_⟩
    have h2 := h.2
    split at h2
    · rename_i id heq; exact ⟨id, heq⟩
    · cases h2
  · unfold plainJumpX at h
    simp only [Bool.and_eq_true, Bool.not_eq_true', Option.isNone_iff_eq_none, List.isEmpty_iff] at h
    obtain ⟨⟨⟨⟨h1, h2⟩, h3⟩, _⟩, h5⟩ := h
    refine ⟨h1, Or.inr ?_⟩
    split at h5
    · rename_i r l c heq; exact ⟨r, l, c, heq, h2, h3, h5⟩
    · cases h5

theorem silent_not_ctx (g : BGraph) (d : Nat) (x : BVertex) (hx : g.vs[d]? = some x) (h : silentX x = true) :
    g.toGraph.isCtxVertex d = false := by
  rw [isCtxVertex_eq, hx]
  rcases (silent_kinds x h).2 with ⟨id, ho⟩ | ⟨r, l, c, ho, _⟩ <;> simp [ho]

theorem isSynV_of (g : BGraph) (d : Nat) (x : BVertex) (hx : g.vs[d]? = some x) : g.isSynV d = x.synthetic := by
  unfold BGraph.isSynV; rw [hx]

/-- a silent vertex whose out-edges all lead to `a` (there is one) steps silently to `a` -/
theorem silent_step (g : BGraph) (d a : Nat) (x : BVertex) (hx : g.vs[d]? = some x) (h : silentX x = true)
    (hex : ∃ e ∈ g.es, e.src = d) (hall : ∀ e ∈ g.es, e.src = d → e.dst = a) :
    g.stepPL (d, 0) = .silent (a, 0) := by
  obtain ⟨hsyn, hk⟩ := silent_kinds x h
  rw [stepPL_of_not_syn g (d, 0) (by rw [isSynV_of g d x hx]; exact hsyn)]
  obtain ⟨e0, he0, hs0⟩ := hex
  rcases hk with ⟨id, ho⟩ | ⟨r, l, c, ho, h1, h2, h3⟩
  · have hl : g.isLabelV d = true := by unfold BGraph.isLabelV BGraph.opAt; rw [hx]; simp [ho]
    obtain ⟨hi, hs⟩ := label_kind g d hl
    rw [stepPS_of_not_switch g (d, 0) hs]
    unfold BGraph.stepP
    simp only [hi, Bool.false_eq_true, if_false, if_true]
    unfold Graph.stepE
    rw [toGraph_vs_get', hx]
    simp only [Option.map_some, ho, mapStep]
    congr 2
    unfold Graph.fall
    rcases lowest_char g d with ⟨_, h2⟩ | ⟨b, hb, hsb, h1, _⟩
    · exact absurd hs0 (h2 e0 he0)
    · rw [h1]; exact hall b hb hsb
  · have hp : PlainJump g d := ⟨x, r, l, c, hx, ho, h1, h2, h3⟩
    rw [stepPS_plainJump g d 0 hp, if_pos rfl]
    congr 2
    unfold Graph.jumpTarget
    rcases highest_char g d with ⟨_, h2⟩ | ⟨b, hb, hsb, h1, _⟩
    · exact absurd hs0 (h2 e0 he0)
    · rw [h1]; exact hall b hb hsb

/-- where a step of `stepPL` can lead -/
theorem succ_readL (g : BGraph) (a j : Nat) (hk : g.isSynV a = true → g.isSwitchV a = false) :
    allSucc (SuccOk g a) (g.stepPL (a, j)) := by
  cases hs : g.isSynV a with
  | true =>
    rw [stepPL_syn g a j hs]
    split
    · exact fall_ok (hk hs)
    · trivial
  | false => rw [stepPL_of_not_syn g (a, j) hs]; exact succ_read g a j

theorem ignoredE_sameL {g g' : BGraph} (e : BEdge) (h : SameVL g g' e.src e.src) : g'.ignoredE e = g.ignoredE e :=
  ignoredE_same e h.sameV

theorem isCtxVertex_sameL {g g' : BGraph} {a a' : Nat} (h : SameVL g g' a a') :
    g'.toGraph.isCtxVertex a' = g.toGraph.isCtxVertex a := isCtxVertex_same h.sameV

/-- **one loop of `remove_label_markers`** -/
theorem BypCtx.equiv (h : BypCtx G Graw D bs) :
    Equivalent G.ltsPL (Graw.deleteVs D).ltsPL (0, 0) (0, 0) := by
  let G' := Graw.deleteVs D
  let ρ : Nat → Nat := fun x => renumber D (tau bs x)
  let P : Nat × Nat → Prop := fun p => p.1 ∉ D ∨ (p.2 = 0 ∧ ∃ b ∈ bs, b.d = p.1)
  have hltR : ∀ d ∈ D, d < Graw.vs.length := fun d hd => by rw [h.len]; exact h.lt d hd
  have hρ_not : ∀ x, x ∉ D → ρ x = renumber D x := fun x hx => by show renumber D (tau bs x) = _; rw [tau_not h x hx]
  have hρ_byp : ∀ b ∈ bs, ρ b.d = renumber D b.a := fun b hb => by show renumber D (tau bs b.d) = _; rw [tau_byp h b hb]
  have hge : ∀ a, G.vs.length ≤ a → a ∉ D := fun a ha hm => by have := h.lt a hm; omega
  have hsm : StateMap G G' ρ := by
    have := stateMap_delete (g := Graw) (del := D) hltR
    constructor
    · rw [hρ_not _ (hge _ (Nat.le_refl _)), ← h.len]; exact this.fell
    · rw [hρ_not _ (hge _ (by omega)), ← h.len]; exact this.stuck
  -- the vertices that stay keep their step
  have hstrong : ∀ a j, a ∉ D → Strong G.ltsPL G'.ltsPL (pmap ρ) P (a, j) := by
    intro a j ha
    have hρa : ρ a = renumber D a := hρ_not a ha
    constructor
    · show G'.stepPL (ρ a, j) = mapStep (pmap ρ) (G.stepPL (a, j))
      apply stepPL_congr h.det hsm a j
      · rw [hρa]
        unfold SameVL
        rw [BDel.vs_get Graw D a ha]
        exact h.same a
      · intro hnone
        have hge' : G.vs.length ≤ a := by
          rcases Nat.lt_or_ge a G.vs.length with hlt | hge'
          · rw [List.getElem?_eq_getElem hlt] at hnone; cases hnone
          · exact hge'
        rw [hρa, renumber_ge hltR a (by rw [h.len]; exact hge'), h.len]
        show ((Graw.deleteVs D).vs.length + (a - G.vs.length) == (Graw.deleteVs D).vs.length) = (a == G.vs.length)
        rw [Bool.eq_iff_iff]
        simp only [beq_iff_eq]
        omega
      · constructor
        · intro e' he' hs'
          obtain ⟨x, hx, h1, h2, rfl⟩ := (BDel.mem_es Graw D e').mp he'
          simp only at hs'
          rw [hρa] at hs'
          have hxa : x.src = a := renumber_inj D _ _ h1 ha hs'
          rcases (h.es x).mp hx with hg | ⟨b, hb, rfl⟩
          · refine ⟨x, hg, hxa, ?_⟩
            simp only [img]
            rw [hρ_not _ h1, hρ_not _ h2]
          · obtain ⟨hbe, hbd, _⟩ := h.ein b hb
            refine ⟨b.ein, hbe, hxa, ?_⟩
            simp only [img, BGraph.bypEdge]
            have hsrc : b.ein.src ∉ D := h1
            rw [hρ_not _ hsrc, hbd, hρ_byp b hb]
            simp
        · intro e he hs hi
          by_cases hd : e.dst ∈ D
          · rcases h.dead e he hd with h1 | ⟨b, hb, hbd, hbe⟩
            · rw [hs] at h1; exact absurd h1 ha
            · have hcopy : BGraph.bypEdge b.ein b.a false ∈ Graw.es := (h.es _).mpr (Or.inr ⟨b, hb, rfl⟩)
              refine (BDel.mem_es Graw D _).mpr ⟨_, hcopy, ?_, ?_, ?_⟩
              · simp only [BGraph.bypEdge]; rw [hbe, hs]; exact ha
              · simp only [BGraph.bypEdge]; exact h.keep b hb
              · simp only [img, BGraph.bypEdge]
                subst hbe
                rw [hρ_not _ (by rw [hs]; exact ha), ← hbd, hρ_byp b hb]
                simp
          · refine (BDel.mem_es Graw D _).mpr ⟨e, (h.es e).mpr (Or.inl he), by rw [hs]; exact ha, hd, ?_⟩
            simp only [img]
            rw [hρ_not _ (by rw [hs]; exact ha), hρ_not _ hd]
      · intro o ho hnsyn
        rw [hρa]
        apply afterCtxE_congr
        · intro e' he' hd' hc'
          obtain ⟨x, hx, h1, h2, rfl⟩ := (BDel.mem_es Graw D e').mp he'
          simp only at hd' hc'
          have hxa : x.dst = a := renumber_inj D _ _ h2 ha hd'
          rw [isCtxVertex_delete' Graw D x.src h1, isCtxVertex_sameL (h.same x.src)] at hc'
          rcases (h.es x).mp hx with hg | ⟨b, hb, rfl⟩
          · exact ⟨x, hg, hxa, hc'⟩
          · exfalso
            simp only [BGraph.bypEdge] at hxa hc'
            cases hxv : G.vs[a]? with
            | none => rw [hxv] at ho; simp at ho
            | some y =>
              have := h.ctx b hb hc' y (by rw [hxa]; exact hxv)
              rw [hxv] at ho
              simp only [Option.map_some, Option.some.injEq] at ho
              have hys : y.synthetic = false := by rw [← isSynV_of G a y hxv]; exact hnsyn
              unfold readsCtxX at this
              simp [ho, hys] at this
        · intro e he hd hc
          have h1 : e.src ∉ D := fun hm => by
            obtain ⟨x, hx, hsx⟩ := h.silent _ hm
            rw [silent_not_ctx G e.src x hx hsx] at hc; cases hc
          refine ⟨_, (BDel.mem_es Graw D _).mpr ⟨e, (h.es e).mpr (Or.inl he), h1, by rw [hd]; exact ha, rfl⟩, by simp [hd], ?_⟩
          simp only
          rw [isCtxVertex_delete' Graw D e.src h1, isCtxVertex_sameL (h.same e.src)]; exact hc
      · exact h.synp a
    · show allSucc P (G.stepPL (a, j))
      refine allSucc_imp ?_ _ (succ_readL G a j (fun hs => (h.synp a hs).2))
      rintro p (h1 | ⟨hp2, h1 | h1 | ⟨e, he, hs, hd, _⟩⟩)
      · left; rw [h1]; exact ha
      · left; rw [h1]; exact hge _ (Nat.le_refl _)
      · left; rw [h1]; exact hge _ (by omega)
      · by_cases hdD : e.dst ∈ D
        · rcases h.dead e he hdD with h2 | ⟨b, hb, hbd, _⟩
          · rw [hs] at h2; exact absurd h2 ha
          · right; exact ⟨hp2, b, hb, by rw [hbd, hd]⟩
        · left; rw [← hd]; exact hdD
  have hρ0 : pmap ρ (0, 0) = (0, 0) := by
    simp only [pmap]
    rw [hρ_not 0 h.nz]
    unfold renumber; simp
  have := equiv_of_skipMap G.ltsPL G'.ltsPL (pmap ρ) P ?_ (0, 0) (Or.inl h.nz)
  · rw [hρ0] at this; exact this
  · rintro ⟨a, j⟩ hp
    by_cases haD : a ∈ D
    · rcases hp with hp | ⟨hj, b, hb, hbd⟩
      · exact absurd haD hp
      · right
        simp only at hj hbd
        subst hj
        obtain ⟨x, hx, hsx⟩ := h.silent a haD
        obtain ⟨hex, hall⟩ := h.out b hb
        refine ⟨(b.a, 0), ?_, ?_, Or.inl (h.keep b hb), hstrong b.a 0 (h.keep b hb)⟩
        · show G.stepPL (a, 0) = .silent (b.a, 0)
          exact silent_step G a b.a x hx hsx (by rw [← hbd]; exact hex) (by rw [← hbd]; exact hall)
        · simp only [pmap]
          rw [hρ_not _ (h.keep b hb), ← hbd, hρ_byp b hb]
    · exact Or.inl (hstrong a j haD)

end ESV.Decomp.Lp
