import ESV.Decomp.BisimGen
import ESV.Decomp.GraphRead
import ESV.Decomp.GraphNext
/-
Step correspondence between the item list of a routine (`RMachine`) and its finished base graph.
-/
namespace ESV.Decomp
open ESV.Beh ESV.Decomp.Bisim

/-- the worklist invariant at termination (empty queue) -/
structure Final (labels : List Lbl) (opt : Bool) (rid : Nat) (items : List Item)
    (visited : List Nat) (g : Graph) : Prop where
  vsShape : ∃ fs, g.vs = items.map .item ++ fs ∧ ∀ v ∈ fs, ∃ lid, v = VOp.foreign lid
  good : ∀ i ∈ visited, ∃ lv S g0 g1, nextFor labels opt rid items g0 lv i = .ok (S, g1) ∧
    g1.vs <+: g.vs ∧ ∀ l d, (i, l, d) ∈ keys g ↔ (l, d) ∈ S
  closed : ∀ k ∈ keys g, k.2.2 ∈ visited ∨ isForeignV g k.2.2 = true

theorem Inv.final {labels : List Lbl} {opt : Bool} {rid : Nat} {items : List Item} {visited : List Nat}
    {g : Graph} (h : Inv labels opt rid items visited [] g) : Final labels opt rid items visited g := by
  refine ⟨h.vsShape, h.good, ?_⟩
  intro k hk
  rcases h.closed k hk with h | h | ⟨l, h⟩
  · exact Or.inl h
  · exact Or.inr h
  · simp at h

section
variable {labels : List Lbl} {opt : Bool} {rid : Nat} {items : List Item} {visited : List Nat} {g : Graph}

theorem Final.vis_lt (F : Final labels opt rid items visited g) (i : Nat) (hi : i ∈ visited) :
    i < items.length := by
  obtain ⟨lv, S, g0, g1, h, _, _⟩ := F.good i hi
  obtain ⟨prev, it, _, hit⟩ := nextFor_none labels opt rid items g0 lv i S g1 h
  rcases Nat.lt_or_ge i items.length with h | h
  · exact h
  · rw [List.getElem?_eq_none h] at hit; simp at hit

theorem Final.vs_item (F : Final labels opt rid items visited g) (i : Nat) (it : Item)
    (hi : items[i]? = some it) : g.vs[i]? = some (.item it) := by
  obtain ⟨fs, h1, _⟩ := F.vsShape
  have hlt : i < items.length := by
    rcases Nat.lt_or_ge i items.length with h | h
    · exact h
    · rw [List.getElem?_eq_none h] at hi; simp at hi
  rw [h1, List.getElem?_append_left (by simpa using hlt)]
  simp [hi]

theorem Final.dst_ok (F : Final labels opt rid items visited g) (s l d : Nat) (hk : (s, l, d) ∈ keys g) :
    (d < items.length ∧ d ∈ visited) ∨ ∃ lid, g.vs[d]? = some (.foreign lid) := by
  rcases F.closed _ hk with h | h
  · left; exact ⟨F.vis_lt d h, h⟩
  · right
    simp only at h
    unfold isForeignV at h
    split at h
    · rename_i lid hl; exact ⟨lid, hl⟩
    · simp at h

theorem Final.dst_vis (F : Final labels opt rid items visited g) (s l d : Nat) (hk : (s, l, d) ∈ keys g)
    (hd : d < items.length) : d ∈ visited := by
  rcases F.dst_ok s l d hk with h | ⟨lid, h⟩
  · exact h.2
  · have : items[d]? = some items[d] := by simp [hd]
    rw [F.vs_item d _ this] at h
    simp at h

/-- the bisimulation: the same visited position; fallen off the routine; left for a foreign label -/
def Rel (m : RMachine) (g : Graph) (visited : List Nat) (a b : Nat) : Prop :=
  (a = b ∧ a ∈ visited) ∨ (a = m.items.length ∧ b = g.vs.length) ∨
  ∃ lid, m.stepAll a = .halt (evForeign lid) ∧ g.vs[b]? = some (.foreign lid)

/-- how one step of the item list and one step of the graph correspond -/
def Corr (R : Nat → Nat → Prop) (g : Graph) : Step Nat Ev → Step Nat Ev → Prop
  | .silent a', .silent b' => R a' b'
  | .emit e a', .emit e' b' => e = e' ∧ R a' b'
  | .test e y n, .test e' y' n' => e = e' ∧ R y y' ∧ R n n'
  | .halt e, .halt e' => e = e'
  | .halt e, .silent b' => ∃ lid, e = evForeign lid ∧ g.vs[b']? = some (.foreign lid)
  | _, _ => False

theorem next_fall (F : Final labels opt rid items visited g) (i : Nat)
    (hall : ∀ l d, (i, l, d) ∈ keys g → d = i + 1 ∧ i + 1 < items.length)
    (hex : i + 1 < items.length → ∃ l, (i, l, i + 1) ∈ keys g) :
    Rel ⟨labels, rid, items⟩ g visited (RMachine.next ⟨labels, rid, items⟩ i) (g.fall i) := by
  by_cases hlt : i + 1 < items.length
  · obtain ⟨l, hl⟩ := hex hlt
    have h1 : RMachine.next ⟨labels, rid, items⟩ i = i + 1 := by simp [RMachine.next, hlt]
    have h2 : g.fall i = i + 1 := fall_eq g i (i+1) (fun l d h => (hall l d h).1) ⟨l, hl⟩
    rw [h1, h2]
    exact Or.inl ⟨rfl, F.dst_vis i l (i+1) hl hlt⟩
  · have h1 : RMachine.next ⟨labels, rid, items⟩ i = items.length := by
      simp [RMachine.next, hlt, RMachine.fellOff]
    have h2 : g.fall i = g.vs.length := fall_none g i (fun l d h => hlt (hall l d h).2)
    rw [h1, h2]
    exact Or.inr (Or.inl ⟨rfl, rfl⟩)

theorem stepAll_lt (m : RMachine) (i : Nat) (h : i < m.items.length) : m.stepAll i = m.step i := by
  unfold RMachine.stepAll
  rw [if_neg (by omega)]

theorem corr_label (F : Final labels opt rid items visited g) (i : Nat) (hv : i ∈ visited) (id : Nat)
    (hi : items[i]? = some (.label id)) :
    Corr (Rel ⟨labels, rid, items⟩ g visited) g (RMachine.stepAll ⟨labels, rid, items⟩ i) (g.step i) := by
  have hlt := F.vis_lt i hv
  obtain ⟨lv, S, g0, g1, hnf, hpre, hkeys⟩ := F.good i hv
  obtain ⟨prev, it, hp, hit⟩ := nextFor_none labels opt rid items g0 lv i S g1 hnf
  have hS := nextFor_label labels opt rid items g0 g1 lv i S prev id hp hi hnf
  have h1 : RMachine.stepAll ⟨labels, rid, items⟩ i = .silent (RMachine.next ⟨labels, rid, items⟩ i) := by
    rw [stepAll_lt _ _ hlt]; simp [RMachine.step, hi]
  have h2 : g.step i = .silent (g.fall i) := by
    simp [Graph.step, F.vs_item i _ hi]
  rw [h1, h2]
  show Rel _ g visited _ _
  apply next_fall F i
  · intro l d hk
    have := (hkeys l d).mp hk
    rw [hS] at this
    rcases List.mem_append.mp this with h | h
    · have := n1F_mem _ _ _ _ _ _ _ h; simp only [Prod.mk.injEq] at this; exact ⟨this.1.2, this.2⟩
    · have := holdF_mem _ _ _ _ _ _ _ h; simp only [Prod.mk.injEq] at this; exact ⟨this.1.2, this.2⟩
  · intro hl
    refine ⟨lv, (hkeys lv (i+1)).mpr ?_⟩
    rw [hS, n1F_eq opt items lv i prev (.label id) hl (label_not_guaranteed id) (Or.inr (label_not_endFlow id))]
    simp

theorem corr_op (F : Final labels opt rid items visited g) (hguard : ctxGuard items = true)
    (hnames : namesGuard items = true) (i : Nat) (hv : i ∈ visited) (o : MOp)
    (hi : items[i]? = some (.op o)) :
    Corr (Rel ⟨labels, rid, items⟩ g visited) g (RMachine.stepAll ⟨labels, rid, items⟩ i) (g.step i) := by
  have hlt := F.vis_lt i hv
  obtain ⟨lv, S, g0, g1, hnf, hpre, hkeys⟩ := F.good i hv
  obtain ⟨prev, it, hp, hit⟩ := nextFor_none labels opt rid items g0 lv i S g1 hnf
  have hS := nextFor_op labels opt rid items g0 g1 lv i S prev o hp hi hnf
  obtain ⟨fs, hvs, _⟩ := F.vsShape
  have haft : g.afterCtx i = RMachine.afterCtx ⟨labels, rid, items⟩ i :=
    graph_afterCtx_eq labels rid items g fs hvs i (by omega)
  have h1 : RMachine.stepAll ⟨labels, rid, items⟩ i =
      if endsFlow o.name && !RMachine.afterCtx ⟨labels, rid, items⟩ i then .halt ⟨o.name, o.params⟩
      else .emit ⟨o.name, o.params⟩ (RMachine.next ⟨labels, rid, items⟩ i) := by
    rw [stepAll_lt _ _ hlt]; simp [RMachine.step, hi]
  have h2 : g.step i =
      if endsFlow o.name && !RMachine.afterCtx ⟨labels, rid, items⟩ i then .halt ⟨o.name, o.params⟩
      else .emit ⟨o.name, o.params⟩ (g.fall i) := by
    simp [Graph.step, F.vs_item i _ hi, haft]
  rw [h1, h2]
  by_cases hc : (endsFlow o.name && !RMachine.afterCtx ⟨labels, rid, items⟩ i) = true
  · rw [if_pos hc, if_pos hc]; exact rfl
  · rw [if_neg hc, if_neg hc]
    refine ⟨rfl, ?_⟩
    apply next_fall F i
    · intro l d hk
      have := (hkeys l d).mp hk
      rw [hS] at this
      rcases List.mem_append.mp this with h | h
      · have := n1F_mem _ _ _ _ _ _ _ h; simp only [Prod.mk.injEq] at this; exact ⟨this.1.2, this.2⟩
      · have := holdF_mem _ _ _ _ _ _ _ h; simp only [Prod.mk.injEq] at this; exact ⟨this.1.2, this.2⟩
    · intro hl
      refine ⟨lv, (hkeys lv (i+1)).mpr ?_⟩
      have hnj : isJump o.name = false := by
        have := namesGuard_at items hnames i _ hi
        simpa [itemNameOk] using this
      have key : ESV.Gen.opsJumpGuaranteed.contains (realName (.op o)) = false ∧
          ((ESV.Gen.opsCtx.contains (itemName prev) || !opt) = true ∨
            ESV.Gen.opsEndFlow.contains (realName (.op o)) = false) := by
        rw [ESV.TableTie.opsJumpGuaranteed_eq, ESV.TableTie.opsEndFlow_eq, ESV.TableTie.opsCtx_eq]
        show ESV.Spec.opsJumpGuaranteed.contains o.name = false ∧ _
        cases haf : RMachine.afterCtx ⟨labels, rid, items⟩ i with
        | true =>
          cases i with
          | zero => simp [RMachine.afterCtx] at haf
          | succ j =>
            obtain ⟨c, hc1, hc2⟩ := afterCtx_prev labels rid items hguard j haf
            have hb := ctxGuard_at items j c (.op o) hguard hc1 hc2 hi
            have hprev : prev = .op c := by
              simp only [prevItem] at hp; rw [hc1] at hp; simpa using hp.symm
            refine ⟨by simpa [behindCtxOk] using hb, Or.inl ?_⟩
            rw [hprev]
            show (ESV.Spec.opsCtx.contains c.name || !opt) = true
            unfold isCtx at hc2; rw [hc2]; rfl
        | false =>
          rw [haf] at hc
          have he : endsFlow o.name = false := by simpa using hc
          unfold endsFlow at he
          rw [hnj] at he
          have he' : ESV.Spec.opsEndFlow.contains o.name = false := by simpa using he
          exact ⟨guaranteed_of_endFlow_false _ he', Or.inr he'⟩
      rw [hS, n1F_eq opt items lv i prev (.op o) hl key.1 key.2]
      simp

end
end ESV.Decomp
