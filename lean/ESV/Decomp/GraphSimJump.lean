import ESV.Decomp.GraphSim
/-
Step correspondence for label jumps, and the two simulations.
-/
namespace ESV.Decomp
open ESV.Beh ESV.Decomp.Bisim

section
variable {labels : List Lbl} {opt : Bool} {rid : Nat} {items : List Item} {visited : List Nat} {g : Graph}

theorem next_fallOfJump (F : Final labels opt rid items visited g) (i lv t : Nat)
    (hj : (i, lv + 1, t) ∈ keys g)
    (hall : ∀ l d, (i, l, d) ∈ keys g → (l = lv + 1 ∧ d = t) ∨ (l = lv ∧ d = i + 1 ∧ i + 1 < items.length))
    (hex : i + 1 < items.length → (i, lv, i + 1) ∈ keys g) :
    Rel ⟨labels, rid, items⟩ g visited (RMachine.next ⟨labels, rid, items⟩ i) (g.fallOfJump i) := by
  by_cases hlt : i + 1 < items.length
  · have h1 : RMachine.next ⟨labels, rid, items⟩ i = i + 1 := by simp [RMachine.next, hlt]
    have h2 : g.fallOfJump i = i + 1 := by
      apply fallOfJump_some g i lv t (i+1) hj (hex hlt)
      intro l d hk
      rcases hall l d hk with h | h
      · exact Or.inl h
      · exact Or.inr ⟨h.1, h.2.1⟩
    rw [h1, h2]
    exact Or.inl ⟨rfl, F.dst_vis i lv (i+1) (hex hlt) hlt⟩
  · have h1 : RMachine.next ⟨labels, rid, items⟩ i = items.length := by
      simp [RMachine.next, hlt, RMachine.fellOff]
    have h2 : g.fallOfJump i = g.vs.length := by
      apply fallOfJump_none g i lv t hj
      intro l d hk
      rcases hall l d hk with h | h
      · exact h
      · exact absurd h.2.2 hlt
    rw [h1, h2]
    exact Or.inr (Or.inl ⟨rfl, rfl⟩)

theorem ljump_keys (i lv t : Nat) (prev : Item) (r : MOp) (lid : Nat) (c : Bool) (S : List (Nat × Nat))
    (hS : S = n1F opt items lv i prev (.ljump r lid c) ++ [(lv + 1, t)] ++ holdF opt items lv i prev (.ljump r lid c))
    (hkeys : ∀ l d, (i, l, d) ∈ keys g ↔ (l, d) ∈ S)
    (hok : itemNameOk (.ljump r lid c) = true) :
    (i, lv + 1, t) ∈ keys g ∧
    (∀ l d, (i, l, d) ∈ keys g → (l = lv + 1 ∧ d = t) ∨ (l = lv ∧ d = i + 1 ∧ i + 1 < items.length)) ∧
    (isJump r.name = false → i + 1 < items.length → (i, lv, i + 1) ∈ keys g) := by
  refine ⟨?_, ?_, ?_⟩
  · rw [hkeys, hS]; simp
  · intro l d hk
    have := (hkeys l d).mp hk
    rw [hS] at this
    rcases List.mem_append.mp this with h | h
    · rcases List.mem_append.mp h with h | h
      · have := n1F_mem _ _ _ _ _ _ _ h; simp only [Prod.mk.injEq] at this
        exact Or.inr ⟨this.1.1, this.1.2, this.2⟩
      · simp only [List.mem_singleton, Prod.mk.injEq] at h; exact Or.inl h
    · have := holdF_mem _ _ _ _ _ _ _ h; simp only [Prod.mk.injEq] at this
      exact Or.inr ⟨this.1.1, this.1.2, this.2⟩
  · intro hnj hl
    have he : ESV.Spec.opsEndFlow.contains r.name = false := by
      simp only [itemNameOk, hnj, Bool.false_or] at hok
      simpa using hok
    rw [hkeys, hS, n1F_eq opt items lv i prev (.ljump r lid c) hl]
    · simp
    · rw [ESV.TableTie.opsJumpGuaranteed_eq]; exact guaranteed_of_endFlow_false _ he
    · right; rw [ESV.TableTie.opsEndFlow_eq]; exact he

theorem corr_ljump (F : Final labels opt rid items visited g)
    (hnames : namesGuard items = true) (i : Nat) (hv : i ∈ visited) (r : MOp) (lid : Nat) (c : Bool)
    (hi : items[i]? = some (.ljump r lid c)) :
    Corr (Rel ⟨labels, rid, items⟩ g visited) g (RMachine.stepAll ⟨labels, rid, items⟩ i) (g.step i) := by
  have hlt := F.vis_lt i hv
  obtain ⟨lv, S, g0, g1, hnf, hpre, hkeys⟩ := F.good i hv
  obtain ⟨prev, it, hp, hit⟩ := nextFor_none labels opt rid items g0 lv i S g1 hnf
  obtain ⟨l, hf, hcase⟩ := nextFor_ljump labels opt rid items g0 g1 lv i S prev r lid c hp hi hnf
  have hok := namesGuard_at items hnames i _ hi
  have h2 : g.step i = if isJump r.name then .silent (g.jumpTarget i)
      else .test ⟨r.name, r.params⟩ (g.jumpTarget i) (g.fallOfJump i) := by
    simp [Graph.step, F.vs_item i _ hi]
  rcases hcase with ⟨hr, li, hli, hS⟩ | ⟨hr, hS, hg1⟩
  · -- a label of this routine
    obtain ⟨k1, k2, k3⟩ := ljump_keys i lv li prev r lid c S hS hkeys hok
    have htgt : RMachine.target ⟨labels, rid, items⟩ lid = some (.inl li) := by
      simp only [RMachine.target, hf, hr, if_true, hli]; rfl
    have h1 : RMachine.stepAll ⟨labels, rid, items⟩ i = if isJump r.name then .silent li
        else .test ⟨r.name, r.params⟩ li (RMachine.next ⟨labels, rid, items⟩ i) := by
      rw [stepAll_lt _ _ hlt]; simp [RMachine.step, hi, htgt]
    have hjt : g.jumpTarget i = li := by
      apply jumpTarget_eq g i lv li k1
      intro l d hk
      rcases k2 l d hk with h | h
      · exact Or.inl h
      · exact Or.inr h.1
    have hrel : Rel ⟨labels, rid, items⟩ g visited li li :=
      Or.inl ⟨rfl, F.dst_vis i (lv+1) li k1 (labelIndex_lt items lid li hli)⟩
    rw [h1, h2, hjt]
    cases hj : isJump r.name with
    | true => simp only [if_true]; exact hrel
    | false =>
      simp only [Bool.false_eq_true, if_false]
      exact ⟨rfl, hrel, next_fallOfJump F i lv li k1 k2 (k3 hj)⟩
  · -- a label of another routine
    obtain ⟨k1, k2, k3⟩ := ljump_keys i lv g0.vs.length prev r lid c S hS hkeys hok
    have hvt : g.vs[g0.vs.length]? = some (.foreign lid) := by
      apply prefix_getElem? g1.vs g.vs hpre
      rw [hg1]; simp
    have htgt : RMachine.target ⟨labels, rid, items⟩ lid = some (.inr lid) := by
      simp only [RMachine.target, hf, hr]; rfl
    have h1 : RMachine.stepAll ⟨labels, rid, items⟩ i = if isJump r.name then .halt (evForeign lid)
        else .test ⟨r.name, r.params⟩ (items.length + 2 + lid) (RMachine.next ⟨labels, rid, items⟩ i) := by
      rw [stepAll_lt _ _ hlt]; simp [RMachine.step, hi, htgt]
    have hjt : g.jumpTarget i = g0.vs.length := by
      apply jumpTarget_eq g i lv _ k1
      intro l d hk
      rcases k2 l d hk with h | h
      · exact Or.inl h
      · exact Or.inr h.1
    rw [h1, h2, hjt]
    cases hj : isJump r.name with
    | true => simp only [if_true]; exact ⟨lid, rfl, hvt⟩
    | false =>
      simp only [Bool.false_eq_true, if_false]
      refine ⟨rfl, ?_, next_fallOfJump F i lv _ k1 k2 (k3 hj)⟩
      refine Or.inr (Or.inr ⟨lid, ?_, hvt⟩)
      simp [RMachine.stepAll]

theorem stepAll_lt_add (m : RMachine) (i : Nat) (h : i < m.items.length + 2) : m.stepAll i = m.step i := by
  unfold RMachine.stepAll
  rw [if_neg (by omega)]

theorem corr (F : Final labels opt rid items visited g) (hguard : ctxGuard items = true)
    (hnames : namesGuard items = true) (a b : Nat) (h : Rel ⟨labels, rid, items⟩ g visited a b) :
    Corr (Rel ⟨labels, rid, items⟩ g visited) g (RMachine.stepAll ⟨labels, rid, items⟩ a) (g.step b) := by
  rcases h with ⟨rfl, hv⟩ | ⟨rfl, rfl⟩ | ⟨lid, h1, h2⟩
  · have hlt := F.vis_lt a hv
    have hi : items[a]? = some items[a] := by simp [hlt]
    cases hit : items[a] with
    | op o => rw [hit] at hi; exact corr_op F hguard hnames a hv o hi
    | label id => rw [hit] at hi; exact corr_label F a hv id hi
    | ljump r lid c => rw [hit] at hi; exact corr_ljump F hnames a hv r lid c hi
  · have h1 : RMachine.stepAll ⟨labels, rid, items⟩ items.length = .halt evReturn := by
      rw [stepAll_lt_add _ _ (by simp)]
      simp [RMachine.step, RMachine.fellOff]
    have h2 : g.step g.vs.length = .halt evReturn := by
      simp [Graph.step, Graph.fellOff]
    show Corr _ g (RMachine.stepAll ⟨labels, rid, items⟩ items.length) _
    rw [h1, h2]; exact rfl
  · have h3 : g.step b = .halt (evForeign lid) := by simp [Graph.step, h2]
    rw [h1, h3]; exact rfl

end
end ESV.Decomp
