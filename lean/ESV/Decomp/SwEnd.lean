import ESV.Decomp.SwBypass
/-
The second part of `build_and_group_switch_cases` for one switch (`endPart`: marker on the end label, by-pass of the Jumps in
front of it, `delete_edges`): the invariant is kept and the behaviour from the routine's first vertex is kept.
-/
namespace ESV.Decomp.Sw
open ESV.Beh ESV.Decomp ESV.Decomp.Opt ESV.Decomp.Gr

theorem byp_mem {js : List Nat} {endV x : Nat} (h : x ∈ js) : byp js endV x = endV := by
  unfold byp; rw [if_pos (List.contains_iff_mem.mpr h)]

theorem byp_not_mem {js : List Nat} {endV x : Nat} (h : x ∉ js) : byp js endV x = x := by
  unfold byp
  have : js.contains x = false := by
    cases hc : js.contains x with
    | false => rfl
    | true => exact absurd (List.contains_iff_mem.mp hc) h
  rw [this]; rfl

variable {g1 g2 : BGraph} {endV : Nat} {bs : List (Nat × Nat × BEdge)}

theorem mem_js (J : Nat) (h : J ∈ bs.map (·.2.1)) : ∃ t ∈ bs, t.2.1 = J := by
  simpa using h

/-- what is left after `delete_edges(es_to_delete)`: every edge of the graph before the loop, re-targeted -/
theorem BInv.after_up (h : BInv g1 endV g2 bs) (x : BEdge) (hx : x ∈ (g2.delEdges (bs.map (·.1))).es) :
    ∃ e ∈ g1.es, x = retarget (byp (bs.map (·.2.1)) endV) e := by
  obtain ⟨i, hi, hx⟩ := (mem_delEdges g2 _ x).mp hx
  rw [h.es] at hx
  rcases Nat.lt_or_ge i g1.es.length with hlt | hge
  · rw [List.getElem?_append_left hlt] at hx
    refine ⟨x, List.mem_of_getElem? hx, ?_⟩
    have : x.dst ∉ bs.map (·.2.1) := by
      intro hm
      obtain ⟨t, ht, hJ⟩ := mem_js _ hm
      have := h.uniq t ht i x hx hJ.symm
      exact hi (by rw [this]; exact List.mem_map.mpr ⟨t, ht, rfl⟩)
    unfold retarget; rw [byp_not_mem this]
  · rw [List.getElem?_append_right hge] at hx
    have := List.mem_of_getElem? hx
    simp only [List.mem_map] at this
    obtain ⟨t, ht, rfl⟩ := this
    obtain ⟨hp, hd⟩ := h.pos t ht
    refine ⟨t.2.2, List.mem_of_getElem? hp, ?_⟩
    unfold retarget copyTo
    rw [hd, byp_mem (List.mem_map.mpr ⟨t, ht, rfl⟩)]

theorem BInv.after_low (h : BInv g1 endV g2 bs) (e : BEdge) (he : e ∈ g1.es) :
    retarget (byp (bs.map (·.2.1)) endV) e ∈ (g2.delEdges (bs.map (·.1))).es := by
  obtain ⟨k, hk⟩ := List.getElem?_of_mem he
  rw [mem_delEdges]
  by_cases hm : e.dst ∈ bs.map (·.2.1)
  · obtain ⟨t, ht, hJ⟩ := mem_js _ hm
    have hkt := h.uniq t ht k e hk hJ.symm
    obtain ⟨hp, _⟩ := h.pos t ht
    rw [← hkt, hk] at hp
    have hte : t.2.2 = e := by simpa using hp.symm
    obtain ⟨idx, hidx⟩ := List.getElem?_of_mem ht
    refine ⟨g1.es.length + idx, ?_, ?_⟩
    · intro hmem
      simp only [List.mem_map] at hmem
      obtain ⟨t', ht', heq⟩ := hmem
      have := (List.getElem?_eq_some_iff.mp (h.pos t' ht').1).1
      omega
    · rw [h.es, List.getElem?_append_right (by omega)]
      simp only [Nat.add_sub_cancel_left, List.getElem?_map, hidx, Option.map_some]
      unfold retarget copyTo
      rw [hte, byp_mem hm]
  · refine ⟨k, ?_, ?_⟩
    · intro hmem
      simp only [List.mem_map] at hmem
      obtain ⟨t, ht, heq⟩ := hmem
      obtain ⟨hp, hd⟩ := h.pos t ht
      rw [heq, hk] at hp
      have hte : t.2.2 = e := by simpa using hp.symm
      exact hm (List.mem_map.mpr ⟨t, ht, by rw [← hd, hte]⟩)
    · rw [h.es, List.getElem?_append_left (List.getElem?_eq_some_iff.mp hk).1, hk]
      unfold retarget; rw [byp_not_mem hm]

/-! ## steps of Jumps and labels -/

theorem plainJump_kind (g : BGraph) (j : Nat) (h : PlainJump g j) : g.isIfV j = false ∧ g.isSwitchV j = false := by
  obtain ⟨x, r, l, c, h1, h2, h3, _⟩ := h
  unfold BGraph.isIfV BGraph.isSwitchV BGraph.isIfVertex BGraph.isSwitchVertex
  rw [h1]; simp [h2, h3]

theorem stepPS_plainJump (g : BGraph) (j k : Nat) (h : PlainJump g j) :
    g.stepPS (j, k) = if k = 0 then .silent (g.toGraph.jumpTarget j, 0) else .halt evStuck := by
  obtain ⟨hi, hs⟩ := plainJump_kind g j h
  obtain ⟨x, r, l, c, h1, h2, _, _, h5⟩ := h
  rw [stepPS_of_not_switch g (j, k) hs]
  unfold BGraph.stepP
  simp only [hi, Bool.false_eq_true, if_false]
  split
  · unfold Graph.stepE
    rw [toGraph_vs_get', h1]
    simp [h2, h5, mapStep]
  · rfl

theorem label_kind (g : BGraph) (l : Nat) (h : g.isLabelV l = true) : g.isIfV l = false ∧ g.isSwitchV l = false := by
  unfold BGraph.isLabelV BGraph.opAt at h
  unfold BGraph.isIfV BGraph.isSwitchV BGraph.isIfVertex BGraph.isSwitchVertex
  cases hx : g.vs[l]? with
  | none => rw [hx] at h; simp at h
  | some x =>
    rw [hx] at h
    simp only [Option.map_some] at h
    split at h
    · rename_i id hop
      have hop' : x.op = .item (.label id) := by simpa using hop
      simp [hop']
    · cases h

theorem stepPS_label_succ (g : BGraph) (l k : Nat) (h : g.isLabelV l = true) : g.stepPS (l, k + 1) = .halt evStuck := by
  obtain ⟨hi, hs⟩ := label_kind g l h
  rw [stepPS_of_not_switch g (l, k + 1) hs]
  unfold BGraph.stepP
  simp [hi]

theorem isLabelV_same {g g' : BGraph} {a a' : Nat} (h : SameV g g' a a') : g'.isLabelV a' = g.isLabelV a := by
  unfold BGraph.isLabelV BGraph.opAt; rw [h.op]

theorem isCtxVertex_same {g g' : BGraph} {a a' : Nat} (h : SameV g g' a a') :
    g'.toGraph.isCtxVertex a' = g.toGraph.isCtxVertex a := by
  rw [isCtxVertex_eq, isCtxVertex_eq, h.op]

theorem ignoredE_same {g g' : BGraph} (e : BEdge) (h : SameV g g' e.src e.src) : g'.ignoredE e = g.ignoredE e := by
  unfold BGraph.ignoredE; rw [isSwitchV_same h]

theorem levelRead_same {g g' : BGraph} {a : Nat} (h : SameV g g' a a) : g'.levelRead a = g.levelRead a := by
  unfold BGraph.levelRead; rw [isSwitchV_same h, isIfV_same h]

theorem sameV_addSwitchEnd (g : BGraph) (v n u : Nat) : SameV g (g.addSwitchEnd v n) u u := by
  unfold SameV
  exact addSwitchEnd_op g v n u

theorem plainJump_same {g g' : BGraph} {j : Nat} (h : SameV g g' j j) (hp : PlainJump g' j) : PlainJump g j := by
  obtain ⟨x', r, l, c, h1, h2, h3, h4, h5⟩ := hp
  unfold SameV at h
  rw [h1] at h
  cases hx : g.vs[j]? with
  | none => rw [hx] at h; simp at h
  | some x =>
    rw [hx] at h
    simp only [Option.map_some, Option.some.injEq, core, Prod.mk.injEq] at h
    exact ⟨x, r, l, c, hx, by rw [← h.1, h2], by rw [← h.2.1, h3], by rw [← h.2.2.1, h4], h5⟩

/-- uniform re-targeting keeps the determinacy of the readings -/
theorem det_retarget {g g3 : BGraph} (τ : Nat → Nat) (hdet : Det g) (hsame : ∀ u, SameV g g3 u u)
    (hup : ∀ x ∈ g3.es, ∃ e ∈ g.es, x = retarget τ e) : Det g3 := by
  constructor
  · intro x hx x' hx' hs hl hlv
    obtain ⟨e, he, rfl⟩ := hup x hx
    obtain ⟨e', he', rfl⟩ := hup x' hx'
    have := hdet.lvl e he e' he' hs (by rw [← levelRead_same (hsame e.src)]; exact hl) hlv
    simp only [retarget]; rw [this]
  · intro x hx x' hx' hs hl hlv
    obtain ⟨e, he, rfl⟩ := hup x hx
    obtain ⟨e', he', rfl⟩ := hup x' hx'
    have := hdet.flag e he e' he' hs (by rw [← isIfV_same (hsame e.src)]; exact hl) hlv
    simp only [retarget]; rw [this]
  · intro x hx x' hx' hs hl h1 h2
    obtain ⟨e, he, rfl⟩ := hup x hx
    obtain ⟨e', he', rfl⟩ := hup x' hx'
    have := hdet.els e he e' he' hs (by rw [← isSwitchV_same (hsame e.src)]; exact hl) h1 h2
    simp only [retarget]; rw [this]
  · intro x hx x' hx' hs hl t ht t' ht' hix
    obtain ⟨e, he, rfl⟩ := hup x hx
    obtain ⟨e', he', rfl⟩ := hup x' hx'
    obtain ⟨h1, h2⟩ := hdet.idx e he e' he' hs (by rw [← isSwitchV_same (hsame e.src)]; exact hl) t ht t' ht' hix
    exact ⟨h1, by simp only [retarget]; rw [h2]⟩

end ESV.Decomp.Sw
