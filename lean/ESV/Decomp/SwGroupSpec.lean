import ESV.Decomp.SwLoop
/-
`group_switch_cases`: specifications of its building blocks - `absorb` (what the first edge of a group becomes), the
positions of `v.out_edges()` are pairwise different, a group is its first non-else edge plus the rest.
-/
namespace ESV.Decomp.Sw
open ESV.Beh ESV.Decomp ESV.Decomp.Opt ESV.Decomp.Gr

theorem absorb_spec : ∀ (rest : List BEdge) (fe fe' : BEdge), BGraph.absorb fe rest = .ok fe' →
    fe'.src = fe.src ∧ fe'.dst = fe.dst ∧
    (fe'.isElse = true ↔ fe.isElse = true ∨ ∃ r ∈ rest, r.isElse = true) ∧
    (∀ t, t ∈ fe'.switchOps ↔ t ∈ fe.switchOps ∨ ∃ r ∈ rest, r.isElse = false ∧ t ∈ r.switchOps)
  | [], fe, fe', h => by
    unfold BGraph.absorb at h
    simp only [Except.ok.injEq] at h
    subst h
    simp
  | r :: rest, fe, fe', h => by
    unfold BGraph.absorb at h
    by_cases hr : r.isElse = true
    · rw [if_pos hr] at h
      obtain ⟨h1, h2, h3, h4⟩ := absorb_spec rest _ fe' h
      refine ⟨h1, h2, ?_, ?_⟩
      · rw [h3]
        constructor
        · rintro (_ | ⟨q, hq, hqe⟩)
          · exact Or.inr ⟨r, List.mem_cons_self .., hr⟩
          · exact Or.inr ⟨q, List.mem_cons_of_mem _ hq, hqe⟩
        · rintro (h5 | ⟨q, hq, hqe⟩)
          · exact Or.inl rfl
          · rcases List.mem_cons.mp hq with rfl | hq
            · exact Or.inl rfl
            · exact Or.inr ⟨q, hq, hqe⟩
      · intro t
        rw [h4]
        constructor
        · rintro (h5 | ⟨q, hq, hqe, hqt⟩)
          · exact Or.inl h5
          · exact Or.inr ⟨q, List.mem_cons_of_mem _ hq, hqe, hqt⟩
        · rintro (h5 | ⟨q, hq, hqe, hqt⟩)
          · exact Or.inl h5
          · rcases List.mem_cons.mp hq with rfl | hq
            · rw [hr] at hqe; cases hqe
            · exact Or.inr ⟨q, hq, hqe, hqt⟩
    · rw [if_neg hr] at h
      have hrf : r.isElse = false := by simpa using hr
      split at h
      · cases h
      · obtain ⟨h1, h2, h3, h4⟩ := absorb_spec rest _ fe' h
        refine ⟨h1, h2, ?_, ?_⟩
        · rw [h3]
          constructor
          · rintro (h5 | ⟨q, hq, hqe⟩)
            · exact Or.inl h5
            · exact Or.inr ⟨q, List.mem_cons_of_mem _ hq, hqe⟩
          · rintro (h5 | ⟨q, hq, hqe⟩)
            · exact Or.inl h5
            · rcases List.mem_cons.mp hq with rfl | hq
              · rw [hrf] at hqe; cases hqe
              · exact Or.inr ⟨q, hq, hqe⟩
        · intro t
          rw [h4]
          simp only [List.mem_append]
          constructor
          · rintro ((h5 | h5) | ⟨q, hq, hqe, hqt⟩)
            · exact Or.inl h5
            · exact Or.inr ⟨r, List.mem_cons_self .., hrf, h5⟩
            · exact Or.inr ⟨q, List.mem_cons_of_mem _ hq, hqe, hqt⟩
          · rintro (h5 | ⟨q, hq, hqe, hqt⟩)
            · exact Or.inl (Or.inl h5)
            · rcases List.mem_cons.mp hq with rfl | hq
              · exact Or.inl (Or.inr hqt)
              · exact Or.inr ⟨q, hq, hqe, hqt⟩

/-! ## the positions of `out_edges()` are pairwise different -/

theorem insertBy_perm {α : Type} (lt : α → α → Bool) (x : α) : ∀ l : List α, (insertBy lt x l).Perm (x :: l)
  | [] => List.Perm.refl _
  | y :: ys => by
    unfold insertBy
    split
    · exact List.Perm.refl _
    · exact ((insertBy_perm lt x ys).cons y).trans (List.Perm.swap x y ys)

theorem sortBy_perm {α : Type} (lt : α → α → Bool) : ∀ l : List α, (sortBy lt l).Perm l
  | [] => List.Perm.refl _
  | x :: xs => by
    have : sortBy lt (x :: xs) = insertBy lt x (sortBy lt xs) := rfl
    rw [this]
    exact (insertBy_perm lt x _).trans ((sortBy_perm lt xs).cons x)

theorem outEs_nodup (g : BGraph) (v : Nat) : ((g.outEs v).map (·.1)).Nodup := by
  unfold BGraph.outEs
  refine ((sortBy_perm _ _).map _).nodup_iff.mpr ?_
  rw [List.map_map]
  have : ((fun x : Nat × BEdge => x.1) ∘ fun p : BEdge × Nat => (p.2, p.1)) = Prod.snd := rfl
  rw [this]
  refine List.Nodup.sublist (List.Sublist.map _ List.filter_sublist) ?_
  rw [List.zipIdx_map_snd]
  exact List.nodup_range' 1

theorem nodup_getElem_inj {l : List Nat} (h : l.Nodup) (i k : Nat) (hi : i < l.length) (hk : k < l.length)
    (heq : l[i] = l[k]) : i = k := by
  have a := List.Nodup.idxOf_getElem h i hi
  have b := List.Nodup.idxOf_getElem h k hk
  rw [heq] at a; omega

/-- a group, its first non-else edge, the rest -/
theorem group_split (grp : List (Nat × BEdge)) (hnd : (grp.map (·.1)).Nodup) (k : Nat)
    (hk : grp.findIdx? (fun q => !q.2.isElse) = some k) (fi : Nat) (fe : BEdge) (hget : grp[k]? = some (fi, fe)) :
    fe.isElse = false ∧ (fi, fe) ∈ grp ∧ (∀ q ∈ grp.eraseIdx k, q ∈ grp) ∧ (∀ q ∈ grp, q = (fi, fe) ∨ q ∈ grp.eraseIdx k) ∧
      fi ∉ (grp.eraseIdx k).map (·.1) := by
  obtain ⟨hklt, hp, _⟩ := List.findIdx?_eq_some_iff_getElem.mp hk
  have hgk : grp[k] = (fi, fe) := by
    have := List.getElem?_eq_getElem hklt
    rw [this] at hget; simpa using hget
  refine ⟨by rw [hgk] at hp; simpa using hp, List.mem_of_getElem? hget, fun q hq => List.mem_of_mem_eraseIdx hq, ?_, ?_⟩
  · intro q hq
    obtain ⟨i, hi⟩ := List.getElem?_of_mem hq
    by_cases hik : i = k
    · subst hik; rw [hget] at hi; exact Or.inl (by simpa using hi.symm)
    · exact Or.inr (List.mem_eraseIdx_iff_getElem?.mpr ⟨i, hik, hi⟩)
  · intro hm
    obtain ⟨q, hq, hq1⟩ := List.mem_map.mp hm
    obtain ⟨i, hik, hi⟩ := List.mem_eraseIdx_iff_getElem?.mp hq
    have hilt := (List.getElem?_eq_some_iff.mp hi).1
    have hgi : grp[i] = q := (List.getElem?_eq_some_iff.mp hi).2
    have := nodup_getElem_inj hnd i k (by simpa using hilt) (by simpa using hklt)
      (by rw [List.getElem_map, List.getElem_map, hgi, hgk]; exact hq1)
    exact hik this

end ESV.Decomp.Sw
