import ESV.Decomp.GrEdges
/-
The flag-based semantics on pairs (`stepP`) and on the encoded state space of the checker (`stepB`) are the same
system: `enc` is a strong bisimulation.  All graph theorems are proved on pairs and carried over by `ltsB_of_ltsP`.
-/
namespace ESV.Decomp.Gr
open ESV.Beh ESV.Decomp ESV.Decomp.Opt

theorem isIfV_ge (g : BGraph) (v : Nat) (h : g.vs.length ≤ v) : g.isIfV v = false := by
  cases hv : g.isIfV v with
  | false => rfl
  | true => have := isIfV_lt g v hv; omega

/-- beyond `n + 1` every vertex number is "stuck" -/
theorem stepP_clip (g : BGraph) (v j : Nat) : g.stepP (min v (g.vs.length + 1), j) = g.stepP (v, j) := by
  by_cases h : v ≤ g.vs.length + 1
  · rw [Nat.min_eq_left h]
  · have hm : min v (g.vs.length + 1) = g.vs.length + 1 := Nat.min_eq_right (by omega)
    rw [hm]
    have e1 : g.toGraph.vs.length = g.vs.length := by unfold BGraph.toGraph; simp
    have hs : ∀ w, g.vs.length + 1 ≤ w → g.stepP (w, j) = .halt evStuck := by
      intro w hw
      unfold BGraph.stepP
      simp only [isIfV_ge g w (by omega)]
      have hnone : g.toGraph.vs[w]? = none := by
        rw [List.getElem?_eq_none_iff]; omega
      have : g.toGraph.stepE w = .halt evStuck := by
        unfold Graph.stepE Graph.fellOff
        rw [hnone]
        have : (w == g.toGraph.vs.length) = false := by simp; omega
        simp [this]
      rw [this]
      by_cases hj : j = 0 <;> simp [hj, mapStep]
    rw [hs _ (Nat.le_refl _), hs v (by omega)]

theorem dec_enc (g : BGraph) (p : Nat × Nat) : g.dec (g.enc p) = (min p.1 (g.vs.length + 1), p.2) := by
  unfold BGraph.dec BGraph.enc
  have hlt : min p.1 (g.vs.length + 1) < g.vs.length + 2 := by
    have := Nat.min_le_right p.1 (g.vs.length + 1); omega
  rw [Nat.add_mul_mod_self_left, Nat.mod_eq_of_lt hlt, Nat.add_mul_div_left _ _ (by omega : 0 < g.vs.length + 2),
    Nat.div_eq_of_lt hlt, Nat.zero_add]

theorem stepB_enc (g : BGraph) (p : Nat × Nat) : g.stepB (g.enc p) = mapStep g.enc (g.stepP p) := by
  unfold BGraph.stepB
  rw [dec_enc, stepP_clip]

/-- pairs and encoded states: the same behaviour -/
theorem ltsP_equiv_ltsB (g : BGraph) (p : Nat × Nat) : Equivalent g.ltsP g.ltsB p (g.enc p) := by
  apply equiv_of_stepMap g.ltsP g.ltsB g.enc (fun _ => True) ?_ p trivial
  intro a _
  refine ⟨stepB_enc g a, ?_⟩
  show allSucc (fun _ => True) (g.stepP a)
  cases g.stepP a <;> simp [allSucc]

theorem enc_vertex (g : BGraph) (v : Nat) (h : v ≤ g.vs.length + 1) : g.enc (v, 0) = v := by
  unfold BGraph.enc; simp [Nat.min_eq_left h]

/-- a pair-level equivalence between vertices is an equivalence of the encoded systems -/
theorem ltsB_of_ltsP (g g' : BGraph) (v v' : Nat) (hv : v ≤ g.vs.length + 1) (hv' : v' ≤ g'.vs.length + 1)
    (h : Equivalent g.ltsP g'.ltsP (v, 0) (v', 0)) : Equivalent g.ltsB g'.ltsB v v' := by
  have h1 := ltsP_equiv_ltsB g (v, 0)
  have h2 := ltsP_equiv_ltsB g' (v', 0)
  rw [enc_vertex g v hv] at h1
  rw [enc_vertex g' v' hv'] at h2
  exact Equivalent.trans (Equivalent.trans h1.symm h) h2

end ESV.Decomp.Gr
