import ESV.Decomp.GraphGuard
/-
Why `namesGuard` is needed: three item lists (none of them can come out of `resolve`) on which the base graph
is built without exception, `ctxGuard` holds, and the graph behaves differently from the item list.
-/
namespace ESV.Decomp
open ESV.Beh

theorem run_halted_stable {ε : Type} (L : LTS ε) (ω : Nat → Bool) :
    ∀ (n k : Nat) (s : L.σ) (t : List (Obs ε)), run L ω n k s = (t, none) → ∀ m, run L ω (n + m) k s = (t, none) := by
  intro n
  induction n with
  | zero => intro k s t h; simp [run] at h
  | succ n ih =>
    intro k s t h m
    have : n + 1 + m = (n + m) + 1 := by omega
    rw [this]
    simp only [run] at h ⊢
    cases hs : L.step s with
    | silent s' => rw [hs] at h; simp only at h ⊢; exact ih k s' t h m
    | emit e s' =>
      rw [hs] at h; simp only [Prod.mk.injEq] at h ⊢
      obtain ⟨rfl, h2⟩ := h
      have h1 := ih k s' _ (Prod.ext rfl h2) m
      rw [h1]; exact ⟨rfl, rfl⟩
    | test e y no =>
      rw [hs] at h; simp only [Prod.mk.injEq] at h ⊢
      obtain ⟨rfl, h2⟩ := h
      have h1 := ih (k+1) _ _ (Prod.ext rfl h2) m
      rw [h1]; exact ⟨rfl, rfl⟩
    | halt e => rw [hs] at h; simp only at h ⊢; exact h

/-- a left run that has halted with trace `t₁` cannot be simulated by a right side that halts with another trace -/
theorem not_sim_of_traces {ε : Type} (L₁ L₂ : LTS ε) (a : L₁.σ) (b : L₂.σ) (ω : Nat → Bool) (n m : Nat)
    (t₁ t₂ : List (Obs ε)) (h₁ : run L₁ ω n 0 a = (t₁, none)) (h₂ : run L₂ ω m 0 b = (t₂, none))
    (hne : t₁ ≠ t₂) : ¬ Sim L₁ L₂ a b := by
  intro hs
  obtain ⟨m', p, q⟩ := hs ω n 0
  rw [h₁] at p q
  obtain ⟨q1, q2⟩ := q rfl
  simp only at q2 p
  rcases Nat.le_total m m' with hle | hle
  · obtain ⟨d, rfl⟩ := Nat.exists_eq_add_of_le hle
    rw [run_halted_stable L₂ ω m 0 b t₂ h₂ d] at q2
    exact hne q2
  · obtain ⟨d, rfl⟩ := Nat.exists_eq_add_of_le hle
    have h3 : run L₂ ω m' 0 b = ((run L₂ ω m' 0 b).1, none) := Prod.ext rfl q1
    have := run_halted_stable L₂ ω m' 0 b _ h3 d
    rw [h₂] at this
    have : t₂ = (run L₂ ω m' 0 b).1 := congrArg Prod.fst this
    exact hne (q2.trans this.symm)

def cexOpJump : List Item := [.op ⟨0, "Jump", []⟩, .op ⟨0, "Foo", []⟩]

theorem opJump_counterexample :
    ctxGuard cexOpJump = true ∧ ∃ g, baseGraph [] true 0 cexOpJump = .ok g ∧
      ¬ Equivalent (RMachine.lts ⟨[], 0, cexOpJump⟩) g.lts (0 : Nat) (0 : Nat) := by
  refine ⟨by decide, ⟨cexOpJump.map .item, []⟩, by rfl, ?_⟩
  intro h
  exact not_sim_of_traces (RMachine.lts ⟨[], 0, cexOpJump⟩) (Graph.lts ⟨cexOpJump.map .item, []⟩) (0 : Nat) (0 : Nat)
    (fun _ => false) 3 2
    [.op ⟨"Jump", []⟩, .op ⟨"Foo", []⟩, .stop evReturn] [.op ⟨"Jump", []⟩, .stop evReturn]
    (by rfl) (by rfl) (by decide) h.1

def cexJumpRoot (root : String) : List Item := [.ljump ⟨0, root, []⟩ 0 false, .op ⟨0, "Foo", []⟩, .label 0]

/-- a label jump whose root "will jump guaranteed" (and is not Jump) gets no fall-through edge -/
theorem ljumpGuaranteed_counterexample :
    ctxGuard (cexJumpRoot "JumpCommon") = true ∧
    ∃ g, baseGraph [⟨5, 0, 0, false⟩] true 0 (cexJumpRoot "JumpCommon") = .ok g ∧
      ¬ Equivalent (RMachine.lts ⟨[⟨5, 0, 0, false⟩], 0, cexJumpRoot "JumpCommon"⟩) g.lts (0 : Nat) (0 : Nat) := by
  refine ⟨by decide, ⟨(cexJumpRoot "JumpCommon").map .item, [⟨0, 2, 1, false⟩]⟩, by rfl, ?_⟩
  intro h
  exact not_sim_of_traces (RMachine.lts ⟨[⟨5, 0, 0, false⟩], 0, cexJumpRoot "JumpCommon"⟩)
    (Graph.lts ⟨(cexJumpRoot "JumpCommon").map .item, [⟨0, 2, 1, false⟩]⟩) (0 : Nat) (0 : Nat)
    (fun _ => false) 4 2
    [.tst ⟨"JumpCommon", []⟩ false, .op ⟨"Foo", []⟩, .stop evReturn] [.tst ⟨"JumpCommon", []⟩ false, .stop evReturn]
    (by rfl) (by rfl) (by decide) h.1

/-- a label jump whose root ends the flow gets no fall-through edge when `optimizeEnding` is on -/
theorem ljumpEndFlow_counterexample :
    ctxGuard (cexJumpRoot "Return") = true ∧
    ∃ g, baseGraph [⟨5, 0, 0, false⟩] true 0 (cexJumpRoot "Return") = .ok g ∧
      ¬ Equivalent (RMachine.lts ⟨[⟨5, 0, 0, false⟩], 0, cexJumpRoot "Return"⟩) g.lts (0 : Nat) (0 : Nat) := by
  refine ⟨by decide, ⟨(cexJumpRoot "Return").map .item, [⟨0, 2, 1, false⟩]⟩, by rfl, ?_⟩
  intro h
  exact not_sim_of_traces (RMachine.lts ⟨[⟨5, 0, 0, false⟩], 0, cexJumpRoot "Return"⟩)
    (Graph.lts ⟨(cexJumpRoot "Return").map .item, [⟨0, 2, 1, false⟩]⟩) (0 : Nat) (0 : Nat)
    (fun _ => false) 4 2
    [.tst ⟨"Return", []⟩ false, .op ⟨"Foo", []⟩, .stop evReturn] [.tst ⟨"Return", []⟩ false, .stop evReturn]
    (by rfl) (by rfl) (by decide) h.1

end ESV.Decomp
