import ESV.Decomp.SemE
/-
`renumber del`: the new index of a vertex after `delete_vertices(del)` - counting facts and the position lemma for
the filtered vertex list.
-/
namespace ESV.Decomp.Opt
open ESV.Beh ESV.Decomp

/-- number of kept indices below `a` -/
def kept (del : List Nat) (a : Nat) : Nat := ((List.range a).filter fun i => !del.contains i).length

theorem kept_zero (del : List Nat) : kept del 0 = 0 := rfl

theorem kept_succ (del : List Nat) (a : Nat) :
    kept del (a+1) = kept del a + (if a ∈ del then 0 else 1) := by
  unfold kept
  rw [List.range_succ, List.filter_append, List.length_append]
  by_cases h : a ∈ del <;> simp [h]

theorem renumber_eq_kept (del : List Nat) (a : Nat) : renumber del a = kept del a := by
  have : ((List.range a).filter fun i => del.contains i).length + kept del a = a := by
    induction a with
    | zero => rfl
    | succ a ih =>
      rw [kept_succ, List.range_succ, List.filter_append, List.length_append]
      simp only [List.contains_eq_mem] at ih ⊢
      by_cases h : a ∈ del <;> simp [h] <;> omega
  unfold renumber; omega

theorem kept_mono (del : List Nat) (a b : Nat) (h : a ≤ b) : kept del a ≤ kept del b := by
  induction b with
  | zero => have : a = 0 := by omega
            subst this; exact Nat.le_refl _
  | succ b ih =>
    by_cases hab : a = b + 1
    · subst hab; exact Nat.le_refl _
    · have := ih (by omega); rw [kept_succ]; omega

theorem kept_strict (del : List Nat) (a b : Nat) (h : a < b) (ha : a ∉ del) : kept del a < kept del b := by
  have h1 : kept del (a+1) = kept del a + 1 := by rw [kept_succ]; simp [ha]
  have h2 := kept_mono del (a+1) b (by omega)
  omega

theorem kept_inj (del : List Nat) (a b : Nat) (ha : a ∉ del) (hb : b ∉ del) (h : kept del a = kept del b) :
    a = b := by
  rcases Nat.lt_trichotomy a b with h1 | h1 | h1
  · have := kept_strict del a b h1 ha; omega
  · exact h1
  · have := kept_strict del b a h1 hb; omega

theorem kept_le (del : List Nat) (a : Nat) : kept del a ≤ a := by
  induction a with
  | zero => exact Nat.le_refl _
  | succ a ih => rw [kept_succ]; split <;> omega

/-- if everything deleted is below `n`, indices from `n` on are shifted uniformly -/
theorem kept_above (del : List Nat) (n : Nat) (hdel : ∀ d ∈ del, d < n) (a : Nat) (h : n ≤ a) :
    kept del a = kept del n + (a - n) := by
  induction a with
  | zero => have : n = 0 := by omega
            subst this; rfl
  | succ a ih =>
    by_cases han : n = a + 1
    · subst han; simp
    · have := ih (by omega)
      have hnd : a ∉ del := fun hd => by have := hdel a hd; omega
      rw [kept_succ]; simp [hnd]; omega

/-- filtering a list by index -/
def keepIdx {α : Type} (del : List Nat) (l : List α) (k : Nat) : List α :=
  ((l.zipIdx k).filter fun p => !del.contains p.2).map (·.1)

theorem keepIdx_nil {α : Type} (del : List Nat) (k : Nat) : keepIdx del ([] : List α) k = [] := rfl

theorem keepIdx_cons {α : Type} (del : List Nat) (x : α) (xs : List α) (k : Nat) :
    keepIdx del (x :: xs) k = if k ∈ del then keepIdx del xs (k+1) else x :: keepIdx del xs (k+1) := by
  unfold keepIdx
  rw [List.zipIdx_cons, List.filter_cons]
  by_cases h : k ∈ del <;> simp [h]

theorem keepIdx_length {α : Type} (del : List Nat) (l : List α) (k : Nat) :
    (keepIdx del l k).length + kept del k = kept del (k + l.length) := by
  induction l generalizing k with
  | nil => simp [keepIdx_nil]
  | cons x xs ih =>
    rw [keepIdx_cons]
    have := ih (k+1)
    have hk := kept_succ del k
    have e : k + (x :: xs).length = k + 1 + xs.length := by simp; omega
    rw [e]
    by_cases h : k ∈ del
    · simp [h] at hk ⊢; omega
    · simp [h] at hk ⊢; omega

theorem keepIdx_get {α : Type} (del : List Nat) (l : List α) (k a : Nat) (hka : k ≤ a) (ha : a ∉ del) :
    (keepIdx del l k)[kept del a - kept del k]? = l[a - k]? := by
  induction l generalizing k with
  | nil => simp [keepIdx_nil]
  | cons x xs ih =>
    rw [keepIdx_cons]
    have hk := kept_succ del k
    by_cases hak : a = k
    · subst hak
      simp [ha]
    · have hlt : k + 1 ≤ a := by omega
      have := ih (k+1) hlt
      have hm := kept_mono del (k+1) a hlt
      have e : a - k = (a - (k+1)) + 1 := by omega
      by_cases h : k ∈ del
      · simp only [h, if_true] at hk ⊢
        rw [e, List.getElem?_cons_succ, ← this]
        congr 1; omega
      · simp only [h, if_false] at hk ⊢
        have e2 : kept del a - kept del k = (kept del a - kept del (k+1)) + 1 := by omega
        rw [e, e2, List.getElem?_cons_succ, List.getElem?_cons_succ, this]

theorem deleteVertices_vs (g : Graph) (del : List Nat) : (deleteVertices g del).vs = keepIdx del g.vs 0 := rfl

theorem deleteVertices_vs_get (g : Graph) (del : List Nat) (a : Nat) (ha : a ∉ del) :
    (deleteVertices g del).vs[renumber del a]? = g.vs[a]? := by
  rw [deleteVertices_vs, renumber_eq_kept]
  have := keepIdx_get del g.vs 0 a (Nat.zero_le _) ha
  simpa [kept_zero] using this

theorem deleteVertices_vs_length (g : Graph) (del : List Nat) :
    (deleteVertices g del).vs.length = renumber del g.vs.length := by
  rw [deleteVertices_vs, renumber_eq_kept]
  have := keepIdx_length del g.vs 0
  simpa [kept_zero] using this

theorem mem_deleteVertices_es (g : Graph) (del : List Nat) (e' : Edge) :
    e' ∈ (deleteVertices g del).es ↔
      ∃ e ∈ g.es, e.src ∉ del ∧ e.dst ∉ del ∧
        e' = { e with src := renumber del e.src, dst := renumber del e.dst } := by
  unfold deleteVertices
  simp only [List.mem_map, List.mem_filter]
  constructor
  · rintro ⟨e, ⟨he, hc⟩, rfl⟩
    simp at hc
    exact ⟨e, he, hc.1, hc.2, rfl⟩
  · rintro ⟨e, he, h1, h2, rfl⟩
    exact ⟨e, ⟨he, by simp [h1, h2]⟩, rfl⟩

end ESV.Decomp.Opt
