import ESV.Decomp.Writer
import ESV.Src.Sem
/-
Meaning of what the writers produce for ONE routine: the core program that consists of this routine alone, under the language
semantics `Src.Program.graph` (lean/ESV/Src/Sem.lean).  (Labels of other routines are undefined in it; a graph without foreign
label vertices never refers to one.)
-/
namespace ESV.Decomp.Wr
open ESV.Beh ESV.Src

/-- the program whose only routine has the body `ss` -/
def routineProgram (ss : Stmts) : Program := ⟨[], [⟨some ss⟩]⟩

/-- the transition system of that program -/
def astLts (ss : Stmts) : LTS Ev := (routineProgram ss).graph.lts

/-- the node its routine starts at -/
def astEntry (ss : Stmts) : Nat := (((routineProgram ss).graph.entries[0]?).join).getD 0

end ESV.Decomp.Wr
