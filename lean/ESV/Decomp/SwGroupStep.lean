import ESV.Decomp.SwGroupInv
/-
`group_switch_cases` keeps the step function: a vertex that is not a switch keeps its out-edges; a switch keeps the SET of its
case tests (index, op, target) and the set of its else targets, which determine its step under `Det`.
-/
namespace ESV.Decomp.Sw
open ESV.Beh ESV.Decomp ESV.Decomp.Opt ESV.Decomp.Gr

theorem outsOf_of_grp {g0 gc : BGraph} {toDel : List Nat} {pd : List (Nat × Nat)} (h : Grp g0 gc toDel pd) (v : Nat)
    (hv : ∀ q ∈ pd, q.1 ≠ v) : OutsOf g0 v (gc.outEs v) := by
  refine ⟨?_, ?_, outEs_nodup gc v⟩
  · intro p hp
    obtain ⟨h1, h2⟩ := (mem_outEs gc v p.1 p.2).mp hp
    have hlt : p.1 < g0.es.length := by rw [← h.len]; exact (List.getElem?_eq_some_iff.mp h1).1
    have h0 : g0.es[p.1]? = some g0.es[p.1] := List.getElem?_eq_getElem hlt
    obtain ⟨g1, _⟩ := h.geo p.1 _ p.2 h0 h1
    obtain ⟨u1, _⟩ := h.untouched p.1 _ h0 (fun hm => hv _ hm (by simp only; rw [← g1, h2]))
    rw [h1] at u1
    have : p.2 = g0.es[p.1] := by simpa using u1
    exact ⟨by rw [this]; exact h0, h2⟩
  · intro i e hi hs
    obtain ⟨u1, _⟩ := h.untouched i e hi (fun hm => hv _ hm (by simp only; exact hs))
    exact (mem_outEs gc v i e).mpr ⟨u1, hs⟩

theorem groupSwGo_inv {g0 : BGraph} : ∀ (vsl : List Nat) (gc : BGraph) (toDel : List Nat) (pd : List (Nat × Nat))
    (gc' : BGraph) (toDel' : List Nat), Grp g0 gc toDel pd → vsl.Nodup → (∀ q ∈ pd, q.1 ∉ vsl) →
    BGraph.groupSwGo vsl gc toDel = .ok (gc', toDel') → ∃ pd', Grp g0 gc' toDel' pd' := by
  intro vsl
  induction vsl with
  | nil =>
    intro gc toDel pd gc' toDel' h _ _ hr
    unfold BGraph.groupSwGo at hr
    simp only [Except.ok.injEq, Prod.mk.injEq] at hr
    obtain ⟨rfl, rfl⟩ := hr
    exact ⟨pd, h⟩
  | cons v rest ih =>
    intro gc toDel pd gc' toDel' h hnd hpd hr
    have hnd' := (List.nodup_cons.mp hnd)
    have hpd' : ∀ q ∈ pd, q.1 ∉ rest := fun q hq hm => hpd q hq (List.mem_cons_of_mem _ hm)
    unfold BGraph.groupSwGo at hr
    by_cases hs : gc.isSwitchV v = true
    · rw [if_pos hs] at hr
      simp only at hr
      cases hgt : BGraph.groupTargets (gc.outEs v) (gc.outEs v) [] gc toDel with
      | error e => rw [hgt] at hr; cases hr
      | ok res =>
        obtain ⟨g1, td1⟩ := res
        rw [hgt] at hr
        simp only at hr
        have hv0 : g0.isSwitchV v = true := by rw [← isSwitchV_vs g0 gc h.vs]; exact hs
        have hvpd : ∀ q ∈ pd, q.1 ≠ v := fun q hq heq => hpd q hq (by rw [heq]; exact List.mem_cons_self ..)
        obtain ⟨pd1, h1, h2⟩ := groupTargets_inv (outsOf_of_grp h v hvpd) hv0 (gc.outEs v) [] gc toDel pd g1 td1 h
          (by intro t; constructor
              · intro hm; cases hm
              · intro hm; exact absurd rfl (hvpd _ hm)) hgt
        refine ih g1 td1 pd1 gc' toDel' h1 hnd'.2 ?_ hr
        intro q hq hm
        rcases h2 q hq with h3 | h3
        · exact hpd' q h3 hm
        · rw [h3] at hm; exact hnd'.1 hm
    · rw [if_neg hs] at hr
      exact ih gc toDel pd gc' toDel' h hnd'.2 hpd' hr

/-! ## the readings of a switch from the sets of its tests and else targets -/

theorem nextTest_of_sets (g g' : BGraph) (a : Nat) (hT : ∀ t, t ∈ g'.caseTriples a ↔ t ∈ g.caseTriples a)
    (hdet : ∀ t ∈ g.caseTriples a, ∀ t' ∈ g.caseTriples a, t.1 = t'.1 → t = t') (i : Nat) :
    g'.nextTest a i = g.nextTest a i := by
  rcases nextTest_spec g' a i with ⟨h1, h2⟩ | ⟨t', h1, h2, h3, h4⟩
  · rcases nextTest_spec g a i with ⟨h5, _⟩ | ⟨t, _, h6, h7, _⟩
    · rw [h1, h5]
    · have := h2 t ((hT t).mpr h6); omega
  · rcases nextTest_spec g a i with ⟨_, h6⟩ | ⟨t, h5, h6, h7, h8⟩
    · have := h6 t' ((hT t').mp h2); omega
    · rw [h1, h5]
      have l1 := h8 t' ((hT t').mp h2) h3
      have l2 := h4 t ((hT t).mpr h6) h7
      rw [hdet t h6 t' ((hT t').mp h2) (by omega)]

theorem switchElse_of_sets (g g' : BGraph) (a : Nat) (hlen : g'.vs.length = g.vs.length)
    (hE : ∀ d, (∃ y ∈ g'.es, y.src = a ∧ y.isElse = true ∧ y.dst = d) ↔ (∃ e ∈ g.es, e.src = a ∧ e.isElse = true ∧ e.dst = d))
    (hdet : ∀ e ∈ g.es, ∀ e' ∈ g.es, e.src = a → e'.src = a → e.isElse = true → e'.isElse = true → e.dst = e'.dst) :
    g'.switchElse a = g.switchElse a := by
  unfold BGraph.switchElse
  cases h' : g'.firstElse a with
  | none =>
    cases h : g.firstElse a with
    | none => simp only; rw [toGraph_fellOff, toGraph_fellOff, hlen]
    | some p =>
      obtain ⟨i, e⟩ := p
      obtain ⟨h1, h2, h3⟩ := firstElse_some g a i e h
      obtain ⟨y, hy, hys, hye, _⟩ := (hE e.dst).mpr ⟨e, List.mem_of_getElem? h1, h2, h3, rfl⟩
      obtain ⟨k, hk⟩ := List.getElem?_of_mem hy
      have := firstElse_none g' a h' k y hk hys
      rw [hye] at this; cases this
  | some p' =>
    obtain ⟨i', y⟩ := p'
    obtain ⟨h1, h2, h3⟩ := firstElse_some g' a i' y h'
    obtain ⟨e0, he0, hs0, hel0, hd0⟩ := (hE y.dst).mp ⟨y, List.mem_of_getElem? h1, h2, h3, rfl⟩
    cases h : g.firstElse a with
    | none =>
      obtain ⟨k, hk⟩ := List.getElem?_of_mem he0
      have := firstElse_none g a h k e0 hk hs0
      rw [hel0] at this; cases this
    | some p =>
      obtain ⟨i, e⟩ := p
      obtain ⟨h4, h5, h6⟩ := firstElse_some g a i e h
      simp only
      rw [← hd0]
      exact hdet e0 he0 e (List.mem_of_getElem? h4) hs0 h5 hel0 h6

end ESV.Decomp.Sw
