import ESV.Decomp.GrFlag
import ESV.Decomp.BrModel
/-
The invariant of the loops of `group_branches` (`GInv`: at most one out-edge per flag at an if, no if is inverted) in the forms the proofs use, and what a change of vertex
attributes that the semantics does not read (`IfEnd` markers) leaves alone.
-/
namespace ESV.Decomp.Gr
open ESV.Beh ESV.Decomp ESV.Decomp.Opt ESV.Decomp.Br

/-- `FU` as a pairwise property of the edge list (kept by sublists, appending, filtering, renaming) -/
def FUl (isIf : Nat → Bool) (es : List BEdge) : Prop :=
  es.Pairwise fun e e' => e.src = e'.src → isIf e.src = true → e.isElse ≠ e'.isElse

theorem fu_of_ful (g : BGraph) (h : FUl g.isIfV g.es) : FU g := by
  intro i j e e' hi hj hs hv hf
  unfold FUl at h
  rw [List.pairwise_iff_getElem] at h
  obtain ⟨hi1, hi2⟩ := List.getElem?_eq_some_iff.mp hi
  obtain ⟨hj1, hj2⟩ := List.getElem?_eq_some_iff.mp hj
  rcases Nat.lt_trichotomy i j with hlt | heq | hgt
  · have := h i j hi1 hj1 hlt; rw [hi2, hj2] at this; exact absurd hf (this hs hv)
  · exact heq
  · have := h j i hj1 hi1 hgt; rw [hi2, hj2] at this
    exact absurd hf.symm (this hs.symm (by rw [← hs]; exact hv))

theorem ful_of_fu (g : BGraph) (h : FU g) : FUl g.isIfV g.es := by
  unfold FUl
  rw [List.pairwise_iff_getElem]
  intro i j hi hj hlt hs hv hf
  have := h i j _ _ (List.getElem?_eq_getElem hi) (List.getElem?_eq_getElem hj) hs hv hf
  omega

theorem toGraph_vs_op (g : BGraph) (v : Nat) : g.toGraph.vs[v]? = (g.vs[v]?).map (·.op) := by
  unfold BGraph.toGraph; simp

theorem mem_toGraph_es (g : BGraph) (e : Edge) : e ∈ g.toGraph.es ↔ ∃ b ∈ g.es, b.toEdge = e := by
  unfold BGraph.toGraph; simp

/-- no if is inverted -/
def NN (g : BGraph) : Prop := ∀ u x, g.isIfV u = true → g.vs[u]? = some x → x.isNot = false

theorem nn_of_bool (g : BGraph) (h : noNot g = true) : NN g := by
  intro u x hv hx
  unfold noNot at h
  rw [List.all_eq_true] at h
  have := h u (List.mem_range.mpr (isIfV_lt g u hv))
  rw [hx] at this
  simpa [hv] using this

structure GInv (g : BGraph) : Prop where
  fu : FU g
  nn : NN g

theorem ginv_of_bool (g : BGraph) (h : groupStructOk g = true) : GInv g := by
  unfold groupStructOk at h
  simp only [Bool.and_eq_true] at h
  exact ⟨fu_of_flagsUnique g h.1, nn_of_bool g h.2⟩

/-! ## a change of vertex attributes the semantics does not read -/

/-- `f` keeps everything of a vertex but its `IfEnd` markers (and its name) -/
def SemPres (f : BVertex → BVertex) : Prop :=
  ∀ x, (f x).op = x.op ∧ (f x).ifStart = x.ifStart ∧ (f x).ifOps = x.ifOps ∧ (f x).isNot = x.isNot

def modV (g : BGraph) (u : Nat) (f : BVertex → BVertex) : BGraph := { g with vs := g.vs.modify u f }

theorem modV_get (g : BGraph) (u : Nat) (f : BVertex → BVertex) (a : Nat) :
    (modV g u f).vs[a]? = (g.vs[a]?).map fun x => if u = a then f x else x := by
  show (g.vs.modify u f)[a]? = _
  rw [List.getElem?_modify]
  cases g.vs[a]? <;> simp

theorem modV_length (g : BGraph) (u : Nat) (f : BVertex → BVertex) : (modV g u f).vs.length = g.vs.length := by
  show (g.vs.modify u f).length = _
  rw [List.length_modify]

theorem isIfV_modV (g : BGraph) (u : Nat) (f : BVertex → BVertex) (hf : ∀ x, (f x).op = x.op ∧ (f x).ifStart = x.ifStart)
    (a : Nat) : (modV g u f).isIfV a = g.isIfV a := by
  unfold BGraph.isIfV
  rw [modV_get]
  cases g.vs[a]? with
  | none => rfl
  | some x =>
    by_cases h : u = a
    · simp only [Option.map_some, h, if_true]
      unfold BGraph.isIfVertex; rw [(hf x).1, (hf x).2]
    · simp [h]

theorem toGraph_modV (g : BGraph) (u : Nat) (f : BVertex → BVertex) (hf : ∀ x, (f x).op = x.op) :
    (modV g u f).toGraph = g.toGraph := by
  unfold modV BGraph.toGraph
  simp only [Graph.mk.injEq, and_true]
  exact map_modify_of_eq _ _ hf _ _

theorem elseTarget_modV (g : BGraph) (u : Nat) (f : BVertex → BVertex) (a : Nat) :
    (modV g u f).elseTarget a = g.elseTarget a := by
  unfold BGraph.elseTarget BGraph.firstElse BGraph.outEs Graph.stuck BGraph.toGraph modV
  simp [List.length_modify]

theorem ifTarget_modV (g : BGraph) (u : Nat) (f : BVertex → BVertex) (a : Nat) :
    (modV g u f).ifTarget a = g.ifTarget a := by
  unfold BGraph.ifTarget BGraph.firstIf BGraph.outEs Graph.stuck BGraph.toGraph modV
  simp [List.length_modify]

/-- the step function does not read what `SemPres` lets change -/
theorem stepP_modV (g : BGraph) (u : Nat) (f : BVertex → BVertex) (hf : SemPres f) (s : Nat × Nat) :
    (modV g u f).stepP s = g.stepP s := by
  have hif := isIfV_modV g u f (fun x => ⟨(hf x).1, (hf x).2.1⟩)
  unfold BGraph.stepP
  rw [hif, toGraph_modV g u f (fun x => (hf x).1), modV_get]
  cases hx : g.vs[s.1]? with
  | none => rfl
  | some x =>
    simp only [Option.map_some]
    by_cases h : u = s.1
    · simp only [h, if_true]
      unfold BGraph.ifStep BGraph.takenOf BGraph.notTakenOf BGraph.testsOf
      rw [(hf x).1, (hf x).2.2.1, (hf x).2.2.2]
      simp only [elseTarget_modV, ifTarget_modV]
    · simp only [h, if_false]
      unfold BGraph.ifStep BGraph.takenOf BGraph.notTakenOf
      simp only [elseTarget_modV, ifTarget_modV]

theorem ginv_modV (g : BGraph) (u : Nat) (f : BVertex → BVertex) (hf : SemPres f) (h : GInv g) : GInv (modV g u f) := by
  have hif := isIfV_modV g u f (fun x => ⟨(hf x).1, (hf x).2.1⟩)
  refine ⟨?_, ?_⟩
  · intro i j e e' hi hj hs hv hfl
    rw [hif] at hv
    exact h.fu i j e e' hi hj hs hv hfl
  · intro a x hv hx
    rw [hif] at hv
    rw [modV_get] at hx
    cases hg : g.vs[a]? with
    | none => rw [hg] at hx; cases hx
    | some z =>
      rw [hg] at hx
      simp only [Option.map_some, Option.some.injEq] at hx
      by_cases hua : u = a
      · simp only [hua, if_true] at hx; subst hx; rw [(hf z).2.2.2]; exact h.nn a z hv hg
      · simp only [hua, if_false] at hx; subst hx; exact h.nn a z hv hg

theorem semPres_eraseIfEnd (id : Nat) : SemPres (BGraph.eraseIfEndV id) := fun _ => ⟨rfl, rfl, rfl, rfl⟩

theorem removeIfEnd_eq (g : BGraph) (id : Nat) :
    g.removeIfEnd id = g ∨ ∃ u, g.removeIfEnd id = modV g u (BGraph.eraseIfEndV id) := by
  unfold BGraph.removeIfEnd
  split
  · rename_i u _; exact Or.inr ⟨u, rfl⟩
  · exact Or.inl rfl

end ESV.Decomp.Gr
