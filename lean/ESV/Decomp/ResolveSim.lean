import ESV.Beh.Lts
/-
A general weak-simulation lemma for the LTS framework of ESV/Beh/Lts.lean: a Prop-valued relation whose
related pairs match step by step (a silent step on the left is answered by zero or more silent steps on
the right; an observable step on the left by silent steps followed by the same observable step) is
contained in `Sim`.  Silent cycles are allowed.
-/
namespace ESV.Beh
variable {ε : Type}

/-- zero or more silent steps -/
inductive Silents (L : LTS ε) : L.σ → L.σ → Prop where
  | refl (a : L.σ) : Silents L a a
  | step {a a' c : L.σ} : L.step a = .silent a' → Silents L a' c → Silents L a c

theorem Silents.one {L : LTS ε} {a a' : L.σ} (h : L.step a = .silent a') : Silents L a a' :=
  .step h (.refl _)

theorem Silents.two {L : LTS ε} {a a' a'' : L.σ} (h : L.step a = .silent a') (h' : L.step a' = .silent a'') :
    Silents L a a'' :=
  .step h (.step h' (.refl _))

theorem Silents.run_eq {L : LTS ε} (ω : Nat → Bool) {b b' : L.σ} (h : Silents L b b') :
    ∃ j, ∀ m k, run L ω (j + m) k b = run L ω m k b' := by
  induction h with
  | refl a => exact ⟨0, fun m k => by rw [Nat.zero_add]⟩
  | step hs _ ih =>
    obtain ⟨j, hj⟩ := ih
    refine ⟨j + 1, fun m k => ?_⟩
    have : j + 1 + m = (j + m) + 1 := by omega
    rw [this]
    simp only [run, hs]
    exact hj m k

/-- one-directional matching condition of a weak simulation -/
def WMatch (L₁ L₂ : LTS ε) (R : L₁.σ → L₂.σ → Prop) (a : L₁.σ) (b : L₂.σ) : Prop :=
  match L₁.step a with
  | .silent a' => ∃ b', Silents L₂ b b' ∧ R a' b'
  | .emit e a' => ∃ f b', settle L₂ f b = some (.emit e b') ∧ R a' b'
  | .test e y n => ∃ f y' n', settle L₂ f b = some (.test e y' n') ∧ R y y' ∧ R n n'
  | .halt e => ∃ f, settle L₂ f b = some (.halt e)

theorem sim_of_wmatch (L₁ L₂ : LTS ε) (R : L₁.σ → L₂.σ → Prop)
    (h : ∀ a b, R a b → WMatch L₁ L₂ R a b) : ∀ a b, R a b → Sim L₁ L₂ a b := by
  intro a b hab ω n
  induction n generalizing a b with
  | zero =>
    intro k
    exact ⟨0, by simp [run], by simp [run]⟩
  | succ n ih =>
    intro k
    have hm := h a b hab
    unfold WMatch at hm
    cases hst : L₁.step a with
    | silent a' =>
      rw [hst] at hm
      obtain ⟨b', hs, hr⟩ := hm
      obtain ⟨j, hj⟩ := hs.run_eq ω
      obtain ⟨m', p1, p2⟩ := ih a' b' hr k
      refine ⟨j + m', ?_, ?_⟩
      · rw [hj m' k]; simp only [run, hst]; exact p1
      · rw [hj m' k]; simp only [run, hst]; exact p2
    | emit e a' =>
      rw [hst] at hm
      obtain ⟨f, b', hs, hr⟩ := hm
      obtain ⟨j2, _, b2⟩ := settle_run L₂ ω f b _ hs
      obtain ⟨m', p1, p2⟩ := ih a' b' hr k
      refine ⟨j2 + 1 + m', ?_, ?_⟩
      · rw [b2 m' k]; simp only [run, hst, afterHead]
        exact List.prefix_cons_inj _ |>.mpr p1
      · rw [b2 m' k]; simp only [run, hst, afterHead]; intro hh
        obtain ⟨q1, q2⟩ := p2 hh
        exact ⟨q1, by rw [q2]⟩
    | test e y no =>
      rw [hst] at hm
      obtain ⟨f, y', n', hs, hy, hn⟩ := hm
      obtain ⟨j2, _, b2⟩ := settle_run L₂ ω f b _ hs
      have hr : R (if ω k then y else no) (if ω k then y' else n') := by
        cases ω k <;> simp [hy, hn]
      obtain ⟨m', p1, p2⟩ := ih _ _ hr (k+1)
      refine ⟨j2 + 1 + m', ?_, ?_⟩
      · rw [b2 m' k]; simp only [run, hst, afterHead]
        exact List.prefix_cons_inj _ |>.mpr p1
      · rw [b2 m' k]; simp only [run, hst, afterHead]; intro hh
        obtain ⟨q1, q2⟩ := p2 hh
        exact ⟨q1, by rw [q2]⟩
    | halt e =>
      rw [hst] at hm
      obtain ⟨f, hs⟩ := hm
      obtain ⟨j2, _, b2⟩ := settle_run L₂ ω f b _ hs
      refine ⟨j2 + 1, ?_, ?_⟩
      · have := b2 0 k; simp at this; rw [this]; simp [run, hst, afterHead]
      · have := b2 0 k; simp at this; rw [this]; simp [run, hst, afterHead]

/-- a relation that matches in both directions is contained in behavioural equality -/
theorem equivalent_of_wmatch (L₁ L₂ : LTS ε) (R : L₁.σ → L₂.σ → Prop)
    (h₁ : ∀ a b, R a b → WMatch L₁ L₂ R a b)
    (h₂ : ∀ a b, R a b → WMatch L₂ L₁ (fun y x => R x y) b a) :
    ∀ a b, R a b → Equivalent L₁ L₂ a b := by
  intro a b hab
  refine ⟨sim_of_wmatch L₁ L₂ R h₁ a b hab, ?_⟩
  exact sim_of_wmatch L₂ L₁ (fun y x => R x y) (fun y x hyx => h₂ x y hyx) b a hab

end ESV.Beh

namespace ESV.Beh
variable {ε : Type}

theorem Silents.trans {L : LTS ε} {a b c : L.σ} (h₁ : Silents L a b) (h₂ : Silents L b c) : Silents L a c := by
  induction h₁ with
  | refl _ => exact h₂
  | step hs _ ih => exact .step hs (ih h₂)

theorem Silents.settle {L : LTS ε} {b b' : L.σ} (h : Silents L b b') {f : Nat} {hd : Head L.σ ε}
    (hs : settle L f b' = some hd) : ∃ f', settle L f' b = some hd := by
  induction h with
  | refl _ => exact ⟨f, hs⟩
  | step hst _ ih =>
    obtain ⟨f', hf'⟩ := ih hs
    exact ⟨f' + 1, by simp only [ESV.Beh.settle, hst]; exact hf'⟩

/-- matching survives silent steps in front of the right-hand state -/
theorem WMatch.of_silents {L₁ L₂ : LTS ε} {R : L₁.σ → L₂.σ → Prop} {a : L₁.σ} {b b' : L₂.σ}
    (hs : Silents L₂ b b') (h : WMatch L₁ L₂ R a b') : WMatch L₁ L₂ R a b := by
  unfold WMatch at *
  cases hst : L₁.step a with
  | silent a' =>
    rw [hst] at h
    obtain ⟨b'', h1, h2⟩ := h
    exact ⟨b'', hs.trans h1, h2⟩
  | emit e a' =>
    rw [hst] at h
    obtain ⟨f, b'', h1, h2⟩ := h
    obtain ⟨f', hf'⟩ := hs.settle h1
    exact ⟨f', b'', hf', h2⟩
  | test e y n =>
    rw [hst] at h
    obtain ⟨f, y', n', h1, h2, h3⟩ := h
    obtain ⟨f', hf'⟩ := hs.settle h1
    exact ⟨f', y', n', hf', h2, h3⟩
  | halt e =>
    rw [hst] at h
    obtain ⟨f, h1⟩ := h
    obtain ⟨f', hf'⟩ := hs.settle h1
    exact ⟨f', hf'⟩

/-- the two steps are of the same kind, with the same event and related successors -/
def StepRel {σ₁ σ₂ : Type} (R : σ₁ → σ₂ → Prop) : Step σ₁ ε → Step σ₂ ε → Prop
  | .silent a, .silent b => R a b
  | .emit e a, .emit e' b => e = e' ∧ R a b
  | .test e y n, .test e' y' n' => e = e' ∧ R y y' ∧ R n n'
  | .halt e, .halt e' => e = e'
  | _, _ => False

theorem WMatch.of_stepRel {L₁ L₂ : LTS ε} {R : L₁.σ → L₂.σ → Prop} {a : L₁.σ} {b : L₂.σ}
    (h : StepRel R (L₁.step a) (L₂.step b)) : WMatch L₁ L₂ R a b := by
  unfold WMatch
  cases h1 : L₁.step a <;> cases h2 : L₂.step b <;> rw [h1, h2] at h <;> simp only [StepRel] at h
  · exact ⟨_, Silents.one h2, h⟩
  · obtain ⟨rfl, hr⟩ := h
    exact ⟨1, _, by simp [settle, h2], hr⟩
  · obtain ⟨rfl, hy, hn⟩ := h
    exact ⟨1, _, _, by simp [settle, h2], hy, hn⟩
  · subst h
    exact ⟨1, by simp [settle, h2]⟩

theorem WMatch.of_stepRel_symm {L₁ L₂ : LTS ε} {R : L₁.σ → L₂.σ → Prop} {a : L₁.σ} {b : L₂.σ}
    (h : StepRel R (L₁.step a) (L₂.step b)) : WMatch L₂ L₁ (fun y x => R x y) b a := by
  unfold WMatch
  cases h1 : L₁.step a <;> cases h2 : L₂.step b <;> rw [h1, h2] at h <;> simp only [StepRel] at h
  · exact ⟨_, Silents.one h1, h⟩
  · obtain ⟨rfl, hr⟩ := h
    exact ⟨1, _, by simp [settle, h1], hr⟩
  · obtain ⟨rfl, hy, hn⟩ := h
    exact ⟨1, _, _, by simp [settle, h1], hy, hn⟩
  · subst h
    exact ⟨1, by simp [settle, h1]⟩

end ESV.Beh
