import ESV.Decomp.SwCaseLoop
/-
The whole case loop (`caseLoop`), by induction on its fuel.
-/
namespace ESV.Decomp.Sw
open ESV.Beh ESV.Decomp ESV.Decomp.Opt ESV.Decomp.Gr

variable {g : BGraph} {v n : Nat} {del : List Nat} {cases : List String} {first : Nat} {o : MOp}

theorem caseLoop_inv (h : SInv g del) (hv : VFacts g v del o) (delH : List Nat) :
    ∀ (fuel : Nat) (gc : BGraph) (next : Option Nat) (ch : List CElem) (g1 : BGraph) (next' : Option Nat) (dH' : List Nat),
      CInv g v n gc ch → Chain g v n del cases first ch next →
      BGraph.chainOkLoop fuel gc v cases next ch.length (del ++ ch.map (·.w)) = true →
      BGraph.caseLoop fuel gc v cases next ch.length (delH ++ ch.map (·.w)) = .ok (g1, next', dH') →
      ∃ ch', CInv g v n g1 ch' ∧ Chain g v n del cases first ch' next' ∧ dH' = delH ++ ch'.map (·.w) ∧
        ∀ x, next' = some x → g1.isCaseV x cases = false := by
  intro fuel
  induction fuel with
  | zero =>
    intro gc next ch g1 next' dH' _ _ _ hr
    unfold BGraph.caseLoop at hr; cases hr
  | succ fuel ih =>
    intro gc next ch g1 next' dH' hinv hch hok hr
    unfold BGraph.caseLoop at hr
    unfold BGraph.chainOkLoop at hok
    cases next with
    | none =>
      simp only [Except.ok.injEq, Prod.mk.injEq] at hr
      obtain ⟨rfl, rfl, rfl⟩ := hr
      exact ⟨ch, hinv, hch, rfl, fun x hx => by cases hx⟩
    | some w =>
      simp only at hr hok
      by_cases hcase : gc.isCaseV w cases = true
      · simp only [hcase, Bool.not_true, Bool.false_eq_true, if_false, Bool.and_eq_true] at hr hok
        obtain ⟨⟨hcv, hdead⟩, hok⟩ := hok
        cases hlh : gc.lowHigh w with
        | none => rw [hlh] at hr; cases hr
        | some p =>
          obtain ⟨lo, hi⟩ := p
          rw [hlh] at hr hok
          simp only at hr hok
          cases hroot : (gc.vs[w]?).bind BGraph.rootOfS with
          | none => rw [hroot] at hr; cases hr
          | some r =>
            cases heh : gc.es[hi]? with
            | none => rw [hroot, heh] at hr; cases hr
            | some eh =>
              cases hel : gc.es[lo]? with
              | none => rw [hroot, heh, hel] at hr; cases hr
              | some el =>
                rw [hroot, heh, hel] at hr hok
                simp only at hr hok
                by_cases hlohi : (lo == hi) = true
                · rw [if_pos hlohi] at hr hok
                  have hle : lo = hi := by simpa using hlohi
                  obtain ⟨hinv', hch'⟩ := caseRound h hv gc ch w hinv hch hcase hcv hdead lo hi hlh r hroot el eh hel heh
                    [hi] (Or.inl rfl)
                  simp only [hle, if_true] at hinv' hch'
                  have := ih _ none (ch ++ [⟨w, r, eh, none⟩]) g1 next' dH' hinv' hch'
                    (by simpa [List.append_assoc] using hok) (by simpa [List.append_assoc] using hr)
                  exact this
                · rw [if_neg hlohi] at hr hok
                  have hne : lo ≠ hi := by simpa using hlohi
                  obtain ⟨hinv', hch'⟩ := caseRound h hv gc ch w hinv hch hcase hcv hdead lo hi hlh r hroot el eh hel heh
                    [hi, lo] (Or.inr rfl)
                  simp only [hne, if_false] at hinv' hch'
                  have := ih _ (some el.dst) (ch ++ [⟨w, r, eh, some el.dst⟩]) g1 next' dH' hinv' hch'
                    (by simpa [List.append_assoc] using hok) (by simpa [List.append_assoc] using hr)
                  exact this
      · have hcf : gc.isCaseV w cases = false := by simpa using hcase
        simp only [hcf, Bool.not_false, if_true, Except.ok.injEq, Prod.mk.injEq] at hr
        obtain ⟨rfl, rfl, rfl⟩ := hr
        exact ⟨ch, hinv, hch, rfl, fun x hx => by cases hx; exact hcf⟩

end ESV.Decomp.Sw
