import ESV.Decomp.Sem
/-
The worklist invariant of `explore`: the vertex list only grows by foreign-label vertices, every edge leaves
a visited vertex, the out-edges of a visited vertex are those `nextFor` prescribed, and every edge target is
visited, a foreign-label vertex, or still queued.
-/
namespace ESV.Decomp
open ESV.Beh

/-- what the semantics reads of an edge: source, level, target (never the loop flag) -/
def ekey (e : Edge) : Nat × Nat × Nat := (e.src, e.level, e.dst)
def keys (g : Graph) : List (Nat × Nat × Nat) := g.es.map ekey

theorem mem_keys (g : Graph) (v l d : Nat) :
    (v, l, d) ∈ keys g ↔ ∃ e ∈ g.es, e.src = v ∧ e.level = l ∧ e.dst = d := by
  unfold keys ekey
  simp only [List.mem_map, Prod.mk.injEq]

theorem addEdges_spec (src : Nat) : ∀ (nexts : List (Nat × Nat)) (g : Graph) (q : List (Nat × Nat)),
    (addEdges src nexts g q).1.vs = g.vs ∧
    keys (addEdges src nexts g q).1 = keys g ++ nexts.map (fun p => (src, p.1, p.2)) ∧
    (addEdges src nexts g q).2 = q ++ nexts := by
  intro nexts
  induction nexts with
  | nil => intro g q; simp [addEdges]
  | cons p rest ih =>
    intro g q
    obtain ⟨lv, nxt⟩ := p
    simp only [addEdges]
    split
    · rename_i hl
      obtain ⟨h1, h2, h3⟩ := ih { vs := g.vs, es := (g.es ++ [(⟨src, nxt, lv, false⟩ : Edge)]).set g.es.length (⟨src, nxt, lv, true⟩ : Edge) } (q ++ [(lv, nxt)])
      refine ⟨h1, ?_, by rw [h3]; simp⟩
      rw [h2]
      simp [keys, ekey]
    · obtain ⟨h1, h2, h3⟩ := ih { vs := g.vs, es := g.es ++ [(⟨src, nxt, lv, false⟩ : Edge)] } (q ++ [(lv, nxt)])
      refine ⟨h1, ?_, by rw [h3]; simp⟩
      rw [h2]
      simp [keys, ekey]

/-- the fall-through successor `nextFor` computes -/
def n1F (opt : Bool) (items : List Item) (lv i : Nat) (prev it : Item) : List (Nat × Nat) :=
  if !ESV.Gen.opsJumpGuaranteed.contains (realName it) && items.length > i + 1 &&
      ((ESV.Gen.opsCtx.contains (itemName prev) || !opt) || !ESV.Gen.opsEndFlow.contains (realName it))
  then [(lv, i+1)] else []

/-- the Hold look-ahead of `nextFor` (nothing when the fall-through successor is there already) -/
def holdF (opt : Bool) (items : List Item) (lv i : Nat) (prev it : Item) : List (Nat × Nat) :=
  if realName it == ESV.Gen.op_hold && items.length > i + 1 &&
      !(n1F opt items lv i prev it).contains (lv, i+1) then
    match items[i+1]? with
    | some nx => if ESV.Gen.opsEndFlow.contains (itemName nx) then [(lv, i+1)] else []
    | none => []
  else []

theorem nextFor_some (labels : List Lbl) (opt : Bool) (rid : Nat) (items : List Item) (g : Graph)
    (lv i : Nat) (prev it : Item) (hp : prevItem items i = some prev) (hi : items[i]? = some it) :
    nextFor labels opt rid items g lv i =
      match it with
      | .ljump _ lid _ =>
        match labels.find? fun l => l.id == lid with
        | none => .error "KeyError"
        | some l =>
          if l.rtn == rid then
            match labelIndex items lid with
            | some li => .ok (n1F opt items lv i prev it ++ [(lv + 1, li)] ++ holdF opt items lv i prev it, g)
            | none => .error "KeyError"
          else
            .ok (n1F opt items lv i prev it ++ [(lv + 1, g.vs.length)] ++ holdF opt items lv i prev it,
              { g with vs := g.vs ++ [.foreign lid] })
      | _ => .ok (n1F opt items lv i prev it ++ holdF opt items lv i prev it, g) := by
  unfold nextFor
  simp only [hp, hi]
  cases it <;> rfl

theorem nextFor_none (labels : List Lbl) (opt : Bool) (rid : Nat) (items : List Item) (g : Graph)
    (lv i : Nat) (S : List (Nat × Nat)) (g1 : Graph)
    (h : nextFor labels opt rid items g lv i = .ok (S, g1)) :
    ∃ prev it, prevItem items i = some prev ∧ items[i]? = some it := by
  unfold nextFor at h
  cases hp : prevItem items i with
  | none => simp [hp] at h
  | some prev =>
    cases hi : items[i]? with
    | none => simp [hp, hi] at h
    | some it => exact ⟨prev, it, rfl, rfl⟩

theorem nextFor_graph (labels : List Lbl) (opt : Bool) (rid : Nat) (items : List Item) (g : Graph)
    (lv i : Nat) (S : List (Nat × Nat)) (g1 : Graph)
    (h : nextFor labels opt rid items g lv i = .ok (S, g1)) :
    g1.es = g.es ∧ (g1.vs = g.vs ∨ ∃ lid, g1.vs = g.vs ++ [.foreign lid]) := by
  obtain ⟨prev, it, hp, hi⟩ := nextFor_none labels opt rid items g lv i S g1 h
  rw [nextFor_some labels opt rid items g lv i prev it hp hi] at h
  cases it with
  | op o => simp at h; obtain ⟨_, rfl⟩ := h; simp
  | label id => simp at h; obtain ⟨_, rfl⟩ := h; simp
  | ljump r lid c =>
    simp only at h
    cases hf : labels.find? fun l => l.id == lid with
    | none => simp [hf] at h
    | some l =>
      simp only [hf] at h
      split at h
      · cases hli : labelIndex items lid with
        | none => simp [hli] at h
        | some li => simp [hli] at h; obtain ⟨_, rfl⟩ := h; simp
      · simp at h; obtain ⟨_, rfl⟩ := h; simp

theorem isForeignV_mono (g g' : Graph) (h : g.vs <+: g'.vs) (d : Nat) (hd : isForeignV g d = true) :
    isForeignV g' d = true := by
  unfold isForeignV at *
  obtain ⟨t, ht⟩ := h
  split at hd
  · rename_i lid hv
    have hlt : d < g.vs.length := by
      rcases Nat.lt_or_ge d g.vs.length with h | h
      · exact h
      · rw [List.getElem?_eq_none h] at hv; simp at hv
    rw [← ht, List.getElem?_append_left hlt, hv]
  · simp at hd

structure Inv (labels : List Lbl) (opt : Bool) (rid : Nat) (items : List Item)
    (visited : List Nat) (queue : List (Nat × Nat)) (g : Graph) : Prop where
  vsShape : ∃ fs, g.vs = items.map .item ++ fs ∧ ∀ v ∈ fs, ∃ lid, v = VOp.foreign lid
  srcVisited : ∀ k ∈ keys g, k.1 ∈ visited
  good : ∀ i ∈ visited, ∃ lv S g0 g1, nextFor labels opt rid items g0 lv i = .ok (S, g1) ∧
    g1.vs <+: g.vs ∧ ∀ l d, (i, l, d) ∈ keys g ↔ (l, d) ∈ S
  closed : ∀ k ∈ keys g, k.2.2 ∈ visited ∨ isForeignV g k.2.2 = true ∨ ∃ l, (l, k.2.2) ∈ queue
  zero : 0 ∈ visited ∨ isForeignV g 0 = true ∨ ∃ l, (l, 0) ∈ queue

theorem explore_inv (labels : List Lbl) (opt : Bool) (rid : Nat) (items : List Item) :
    ∀ (fuel : Nat) (queue : List (Nat × Nat)) (visited : List Nat) (g g' : Graph),
      Inv labels opt rid items visited queue g →
      explore labels opt rid items fuel queue visited g = .ok g' →
      ∃ visited', Inv labels opt rid items visited' [] g' := by
  intro fuel
  induction fuel with
  | zero =>
    intro queue visited g g' hinv he
    cases queue with
    | nil => simp [explore] at he; subst he; exact ⟨visited, hinv⟩
    | cons p q => simp [explore] at he
  | succ fuel ih =>
    intro queue visited g g' hinv he
    cases queue with
    | nil => simp [explore] at he; subst he; exact ⟨visited, hinv⟩
    | cons p q =>
      obtain ⟨lv, i⟩ := p
      simp only [explore] at he
      split at he
      · -- already visited
        rename_i hv
        have hv' : i ∈ visited := by simpa using hv
        apply ih q visited g g' _ he
        refine ⟨hinv.vsShape, hinv.srcVisited, hinv.good, ?_, ?_⟩
        · intro k hk
          rcases hinv.closed k hk with h | h | ⟨l, h⟩
          · exact Or.inl h
          · exact Or.inr (Or.inl h)
          · rcases List.mem_cons.mp h with h | h
            · simp only [Prod.mk.injEq] at h; rw [h.2]; exact Or.inl hv'
            · exact Or.inr (Or.inr ⟨l, h⟩)
        · rcases hinv.zero with h | h | ⟨l, h⟩
          · exact Or.inl h
          · exact Or.inr (Or.inl h)
          · rcases List.mem_cons.mp h with h | h
            · simp only [Prod.mk.injEq] at h; rw [h.2]; exact Or.inl hv'
            · exact Or.inr (Or.inr ⟨l, h⟩)
      · split at he
        · -- a foreign-label vertex
          rename_i _ hf
          apply ih q visited g g' _ he
          refine ⟨hinv.vsShape, hinv.srcVisited, hinv.good, ?_, ?_⟩
          · intro k hk
            rcases hinv.closed k hk with h | h | ⟨l, h⟩
            · exact Or.inl h
            · exact Or.inr (Or.inl h)
            · rcases List.mem_cons.mp h with h | h
              · simp only [Prod.mk.injEq] at h; rw [h.2]; exact Or.inr (Or.inl hf)
              · exact Or.inr (Or.inr ⟨l, h⟩)
          · rcases hinv.zero with h | h | ⟨l, h⟩
            · exact Or.inl h
            · exact Or.inr (Or.inl h)
            · rcases List.mem_cons.mp h with h | h
              · simp only [Prod.mk.injEq] at h; rw [h.2]; exact Or.inr (Or.inl hf)
              · exact Or.inr (Or.inr ⟨l, h⟩)
        · rename_i hnv hnf
          have hnv' : i ∉ visited := by simpa using hnv
          split at he
          · simp at he
          · rename_i S g1 hnf
            obtain ⟨hes, hvs⟩ := nextFor_graph labels opt rid items g lv i S g1 hnf
            obtain ⟨a1, a2, a3⟩ := addEdges_spec i S g1 q
            have hk1 : keys g1 = keys g := by unfold keys; rw [hes]
            have hpre : g.vs <+: g1.vs := by
              rcases hvs with h | ⟨lid, h⟩
              · rw [h]; exact List.prefix_refl _
              · rw [h]; exact List.prefix_append _ _
            generalize hg2 : (addEdges i S g1 q).1 = g2 at *
            generalize hq2 : (addEdges i S g1 q).2 = q2 at *
            have he' : explore labels opt rid items fuel q2 (i :: visited) g2 = .ok g' := he
            rw [hk1] at a2
            have hpre2 : g.vs <+: g2.vs := by rw [a1]; exact hpre
            apply ih q2 (i :: visited) g2 g' _ he'
            refine ⟨?_, ?_, ?_, ?_, ?_⟩
            · obtain ⟨fs, h1, h2⟩ := hinv.vsShape
              rw [a1]
              rcases hvs with h | ⟨lid, h⟩
              · exact ⟨fs, by rw [h, h1], h2⟩
              · refine ⟨fs ++ [.foreign lid], by rw [h, h1]; simp, ?_⟩
                intro v hv
                rcases List.mem_append.mp hv with h | h
                · exact h2 v h
                · exact ⟨lid, by simpa using h⟩
            · intro k hk
              rw [a2] at hk
              rcases List.mem_append.mp hk with h | h
              · exact List.mem_cons_of_mem _ (hinv.srcVisited k h)
              · obtain ⟨p, _, rfl⟩ := List.mem_map.mp h; simp
            · intro j hj
              rcases List.mem_cons.mp hj with h | h
              · subst h
                refine ⟨lv, S, g, g1, hnf, by rw [a1]; exact List.prefix_refl _, ?_⟩
                intro l d
                rw [a2, List.mem_append]
                constructor
                · rintro (h | h)
                  · exact absurd (hinv.srcVisited _ h) hnv'
                  · obtain ⟨p, hp, hpe⟩ := List.mem_map.mp h
                    simp only [Prod.mk.injEq, true_and] at hpe
                    obtain ⟨rfl, rfl⟩ := hpe; exact hp
                · intro h; exact Or.inr (List.mem_map.mpr ⟨(l, d), h, rfl⟩)
              · obtain ⟨lv', S', g0, g1', h1, h2, h3⟩ := hinv.good j h
                refine ⟨lv', S', g0, g1', h1, List.IsPrefix.trans h2 hpre2, ?_⟩
                intro l d
                rw [← h3 l d, a2, List.mem_append]
                constructor
                · rintro (h' | h')
                  · exact h'
                  · obtain ⟨p, _, hpe⟩ := List.mem_map.mp h'
                    simp only [Prod.mk.injEq] at hpe
                    exact absurd (hpe.1 ▸ h) hnv'
                · intro h'; exact Or.inl h'
            · intro k hk
              rw [a2] at hk
              rcases List.mem_append.mp hk with h | h
              · rcases hinv.closed k h with h | h | ⟨l, h⟩
                · exact Or.inl (List.mem_cons_of_mem _ h)
                · exact Or.inr (Or.inl (isForeignV_mono g g2 hpre2 _ h))
                · rcases List.mem_cons.mp h with h | h
                  · simp only [Prod.mk.injEq] at h; rw [h.2]; exact Or.inl (List.mem_cons_self)
                  · exact Or.inr (Or.inr ⟨l, by rw [a3]; exact List.mem_append_left _ h⟩)
              · obtain ⟨p, hp, rfl⟩ := List.mem_map.mp h
                exact Or.inr (Or.inr ⟨p.1, by rw [a3]; exact List.mem_append_right _ hp⟩)
            · rcases hinv.zero with h | h | ⟨l, h⟩
              · exact Or.inl (List.mem_cons_of_mem _ h)
              · exact Or.inr (Or.inl (isForeignV_mono g g2 hpre2 _ h))
              · rcases List.mem_cons.mp h with h | h
                · simp only [Prod.mk.injEq] at h; rw [h.2]; exact Or.inl (List.mem_cons_self)
                · exact Or.inr (Or.inr ⟨l, by rw [a3]; exact List.mem_append_left _ h⟩)

end ESV.Decomp
