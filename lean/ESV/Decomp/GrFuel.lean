import ESV.Decomp.Group
/-
The fuel of `groupLoop` (the while loop of `group_branches`) is never the reason for an answer other than "Hang":
whatever the loop answers with `fuel` rounds allowed - a graph or a Python exception class - it answers with every
larger bound.  ("Hang" itself stands for a Python loop that does not terminate: the chain of else-successors has
entered a cycle that avoids the grouping vertex; the graph-level tie compares it with the real loop exceeding the same
bound.)
-/
namespace ESV.Decomp.Gr
open ESV.Decomp

theorem groupLoop_fuel_succ (fuel : Nat) : ∀ (g : BGraph) (v : Nat) (del : List Nat) (first : Bool)
    (r : Except String (BGraph × List Nat)), g.groupLoop fuel v del first = r → r ≠ .error "Hang" →
    g.groupLoop (fuel + 1) v del first = r := by
  induction fuel with
  | zero => intro g v del first r h hne; unfold BGraph.groupLoop at h; exact absurd h.symm hne
  | succ fuel ih =>
    intro g v del first r h hne
    unfold BGraph.groupLoop at h ⊢
    split
    · rename_i hE; rw [hE] at h; exact h
    · rename_i ei eE hE
      rw [hE] at h
      simp only at h ⊢
      split
      · rename_i hI; rw [hI] at h; exact h
      · rename_i ii eI hI
        rw [hI] at h
        simp only at h ⊢
        split
        · rename_i hw; rw [if_pos hw] at h; exact h
        · rename_i hw
          rw [if_neg hw] at h
          split
          · rename_i hwI; rw [hwI] at h; exact h
          · rename_i iw wI hwI
            rw [hwI] at h
            simp only at h ⊢
            split
            · rename_i hs; rw [if_pos hs] at h; exact h
            · rename_i hs
              rw [if_neg hs] at h
              split
              · rename_i hid; rw [hid] at h; exact h
              · rename_i wid hid
                rw [hid] at h
                simp only at h ⊢
                split
                · rename_i hm; rw [hm] at h; exact h
                · rename_i g1 hm
                  rw [hm] at h
                  simp only at h ⊢
                  split
                  · rename_i hwE; rw [hwE] at h; exact h
                  · rename_i iwe wE hwE
                    rw [hwE] at h
                    exact ih _ v _ false r h hne

theorem groupLoop_fuel_irrelevant (fuel extra : Nat) (g : BGraph) (v : Nat) (del : List Nat) (first : Bool)
    (r : Except String (BGraph × List Nat)) (h : g.groupLoop fuel v del first = r) (hne : r ≠ .error "Hang") :
    g.groupLoop (fuel + extra) v del first = r := by
  induction extra with
  | zero => exact h
  | succ k ih => exact groupLoop_fuel_succ (fuel + k) g v del first r ih hne

end ESV.Decomp.Gr
