import ESV.Decomp.Sem
/-
The label table built by `processOp`/`processRoutine`/`processAll`: it only grows (the id found for a key
never changes), its ids stay pairwise distinct, and every produced item is a function (`conv`) of the op
and the final table.
-/
namespace ESV.Decomp
open ESV.Beh

def idOf (K : List Lbl) (t : Int) : Option Nat := (K.find? fun l => l.off == t).map (·.id)

def Ext (K K' : List Lbl) : Prop := ∀ t i, idOf K t = some i → idOf K' t = some i

theorem Ext.refl (K : List Lbl) : Ext K K := fun _ _ h => h
theorem Ext.trans {K₁ K₂ K₃ : List Lbl} (h₁ : Ext K₁ K₂) (h₂ : Ext K₂ K₃) : Ext K₁ K₃ :=
  fun t i h => h₂ t i (h₁ t i h)

def DistIds (K : List Lbl) : Prop := K.Pairwise (fun a b => a.id ≠ b.id)

theorem DistIds.eq_of_id {K : List Lbl} (h : DistIds K) {l l' : Lbl} (hl : l ∈ K) (hl' : l' ∈ K)
    (hid : l.id = l'.id) : l = l' := by
  unfold DistIds at h
  induction K with
  | nil => simp at hl
  | cons x xs ih =>
    rw [List.pairwise_cons] at h
    obtain ⟨hx, hxs⟩ := h
    rcases List.mem_cons.mp hl with rfl | hl1
    · rcases List.mem_cons.mp hl' with rfl | hl2
      · rfl
      · exact absurd hid (hx l' hl2)
    · rcases List.mem_cons.mp hl' with rfl | hl2
      · exact absurd hid.symm (hx l hl1)
      · exact ih hxs hl1 hl2

/-- the item the resolver yields for an op, given the final table -/
def conv (K : List Lbl) (o : MOp) : Item :=
  match jumpIndex o.name with
  | none => .op o
  | some idx =>
    match o.params[idx]? with
    | some (.int t) =>
      .ljump ⟨o.off, o.name, o.params.eraseIdx idx⟩ ((idOf K t).getD 0) (o.name == ESV.Gen.op_call)
    | _ => .op o

/-- the target of a jump-carrying op is a key of the table -/
def tgtOk (K : List Lbl) (o : MOp) : Prop :=
  ∀ idx, jumpIndex o.name = some idx → ∃ t lid, o.params[idx]? = some (.int t) ∧ idOf K t = some lid

theorem idOf_markForeign (K : List Lbl) (x t : Int) : idOf (markForeign K x) t = idOf K t := by
  unfold idOf markForeign
  induction K with
  | nil => rfl
  | cons l ls ih =>
    simp only [List.map_cons, List.find?_cons]
    by_cases hx : (l.off == x) = true
    · simp only [hx, if_true]
      cases ht : (l.off == t)
      · simp only; exact ih
      · simp
    · simp only [hx]
      cases ht : (l.off == t)
      · simp only [Bool.false_eq_true, if_false, ht]; exact ih
      · simp [ht]

theorem foldl_max_ge (K : List Lbl) : ∀ m, m ≤ K.foldl (fun m l => max m l.id) m ∧
    ∀ l ∈ K, l.id ≤ K.foldl (fun m l => max m l.id) m := by
  induction K with
  | nil => intro m; simp
  | cons x xs ih =>
    intro m
    simp only [List.foldl_cons]
    obtain ⟨h1, h2⟩ := ih (max m x.id)
    refine ⟨by omega, ?_⟩
    intro l hl
    rcases List.mem_cons.mp hl with rfl | hl'
    · omega
    · exact h2 l hl'

theorem lt_nextLabelId (K : List Lbl) : ∀ l ∈ K, l.id < nextLabelId K := by
  intro l hl
  unfold nextLabelId
  cases K with
  | nil => simp at hl
  | cons x xs =>
    simp only
    have := (foldl_max_ge (x :: xs) 0).2 l hl
    omega

theorem DistIds.markForeign {K : List Lbl} (h : DistIds K) (x : Int) : DistIds (markForeign K x) := by
  unfold DistIds ESV.Decomp.markForeign at *
  rw [List.pairwise_map]
  refine h.imp ?_
  intro a b hab
  by_cases ha : (a.off == x) = true <;> by_cases hb : (b.off == x) = true <;> simp [ha, hb, hab]

theorem DistIds.snoc {K : List Lbl} (h : DistIds K) (off : Int) (rtn : Nat) (fr : Bool) :
    DistIds (K ++ [⟨off, nextLabelId K, rtn, fr⟩]) := by
  unfold DistIds at *
  rw [List.pairwise_append]
  refine ⟨h, by simp, ?_⟩
  intro a ha b hb
  simp at hb
  subst hb
  have := lt_nextLabelId K a ha
  simp only
  omega

theorem idOf_snoc_of_some (K : List Lbl) (l : Lbl) (t : Int) (i : Nat) (h : idOf K t = some i) :
    idOf (K ++ [l]) t = some i := by
  unfold idOf at *
  rw [List.find?_append]
  cases hf : K.find? fun l => l.off == t with
  | none => rw [hf] at h; simp at h
  | some l0 => rw [hf] at h; simpa using h

theorem idOf_snoc_of_none (K : List Lbl) (t : Int) (id rtn : Nat) (fr : Bool)
    (h : (K.find? fun l => l.off == t) = none) :
    idOf (K ++ [⟨t, id, rtn, fr⟩]) t = some id := by
  unfold idOf
  rw [List.find?_append, h]
  simp

theorem processOp_spec (ends : List Int) (known : List Lbl) (rid : Nat) (o : MOp) (known' : List Lbl)
    (it : Item) (h : processOp ends known rid o = .ok (known', it)) (hd : DistIds known) :
    DistIds known' ∧ Ext known known' ∧ ∀ K, Ext known' K → it = conv K o ∧ tgtOk K o := by
  unfold processOp at h
  cases hj : jumpIndex o.name with
  | none =>
    rw [hj] at h
    simp only [Except.ok.injEq, Prod.mk.injEq] at h
    obtain ⟨rfl, rfl⟩ := h
    refine ⟨hd, Ext.refl _, fun K _ => ⟨?_, ?_⟩⟩
    · simp [conv, hj]
    · intro idx hidx; rw [hj] at hidx; cases hidx
  | some idx =>
    rw [hj] at h
    simp only at h
    split at h
    · cases h
    · cases hp : o.params[idx]? with
      | none => rw [hp] at h; cases h
      | some p =>
        rw [hp] at h
        cases p with
        | int t =>
          simp only at h
          cases hk : known.find? fun l => l.off == t with
          | some l =>
            rw [hk] at h
            simp only [Except.ok.injEq, Prod.mk.injEq] at h
            obtain ⟨rfl, rfl⟩ := h
            have hid : idOf known t = some l.id := by simp [idOf, hk]
            have hext : Ext known (if (rid != l.rtn) = true then markForeign known t else known) := by
              split
              · intro t' i hi; rw [idOf_markForeign]; exact hi
              · exact Ext.refl _
            refine ⟨?_, hext, fun K hK => ⟨?_, ?_⟩⟩
            · split
              · exact hd.markForeign t
              · exact hd
            · have := hK t l.id (hext t l.id hid)
              simp [conv, hj, hp, this]
            · intro idx' hidx'
              rw [hj] at hidx'; cases hidx'
              exact ⟨t, l.id, hp, hK t l.id (hext t l.id hid)⟩
          | none =>
            rw [hk] at h
            simp only at h
            split at h
            · cases h
            · rename_i r hr
              simp only [Except.ok.injEq, Prod.mk.injEq] at h
              obtain ⟨rfl, rfl⟩ := h
              have hnew := idOf_snoc_of_none known t (nextLabelId known) r (r != rid) hk
              refine ⟨hd.snoc _ _ _, fun t' i hi => idOf_snoc_of_some _ _ _ _ hi, fun K hK => ⟨?_, ?_⟩⟩
              · have := hK t _ hnew
                simp [conv, hj, hp, this]
              · intro idx' hidx'
                rw [hj] at hidx'; cases hidx'
                exact ⟨t, _, hp, hK t _ hnew⟩
        | _ => simp only at h; cases h

theorem processRoutine_spec (ends : List Int) (rid : Nat) :
    ∀ (os : List MOp) (known known' : List Lbl) (its : List Item),
      processRoutine ends rid known os = .ok (known', its) → DistIds known →
      DistIds known' ∧ Ext known known' ∧
        ∀ K, Ext known' K → its = os.map (conv K) ∧ ∀ o ∈ os, tgtOk K o := by
  intro os
  induction os with
  | nil =>
    intro known known' its h hd
    simp only [processRoutine, Except.ok.injEq, Prod.mk.injEq] at h
    obtain ⟨rfl, rfl⟩ := h
    exact ⟨hd, Ext.refl _, fun K _ => ⟨rfl, by simp⟩⟩
  | cons o os ih =>
    intro known known' its h hd
    unfold processRoutine at h
    cases h1 : processOp ends known rid o with
    | error e => rw [h1] at h; cases h
    | ok res =>
      obtain ⟨k1, it⟩ := res
      rw [h1] at h
      simp only at h
      cases h2 : processRoutine ends rid k1 os with
      | error e => rw [h2] at h; cases h
      | ok res2 =>
        obtain ⟨k2, its2⟩ := res2
        rw [h2] at h
        simp only [Except.ok.injEq, Prod.mk.injEq] at h
        obtain ⟨rfl, rfl⟩ := h
        obtain ⟨d1, e1, s1⟩ := processOp_spec ends known rid o k1 it h1 hd
        obtain ⟨d2, e2, s2⟩ := ih k1 k2 its2 h2 d1
        refine ⟨d2, e1.trans e2, fun K hK => ?_⟩
        obtain ⟨c1, t1⟩ := s1 K (e2.trans hK)
        obtain ⟨c2, t2⟩ := s2 K hK
        refine ⟨by rw [c1, c2]; rfl, ?_⟩
        intro o' ho'
        rcases List.mem_cons.mp ho' with rfl | ho''
        · exact t1
        · exact t2 o' ho''

theorem processAll_spec (ends : List Int) :
    ∀ (rs : List (List MOp)) (rid : Nat) (known known' : List Lbl) (rtns : List (List Item)),
      processAll ends rid known rs = .ok (known', rtns) → DistIds known →
      DistIds known' ∧ Ext known known' ∧
        ∀ K, Ext known' K → rtns = rs.map (fun os => os.map (conv K)) ∧ ∀ r ∈ rs, ∀ o ∈ r, tgtOk K o := by
  intro rs
  induction rs with
  | nil =>
    intro rid known known' rtns h hd
    simp only [processAll, Except.ok.injEq, Prod.mk.injEq] at h
    obtain ⟨rfl, rfl⟩ := h
    exact ⟨hd, Ext.refl _, fun K _ => ⟨rfl, by simp⟩⟩
  | cons r rs ih =>
    intro rid known known' rtns h hd
    unfold processAll at h
    cases h1 : processRoutine ends rid known r with
    | error e => rw [h1] at h; cases h
    | ok res =>
      obtain ⟨k1, its⟩ := res
      rw [h1] at h
      simp only at h
      cases h2 : processAll ends (rid+1) k1 rs with
      | error e => rw [h2] at h; cases h
      | ok res2 =>
        obtain ⟨k2, rest⟩ := res2
        rw [h2] at h
        simp only [Except.ok.injEq, Prod.mk.injEq] at h
        obtain ⟨rfl, rfl⟩ := h
        obtain ⟨d1, e1, s1⟩ := processRoutine_spec ends rid r known k1 its h1 hd
        obtain ⟨d2, e2, s2⟩ := ih (rid+1) k1 k2 rest h2 d1
        refine ⟨d2, e1.trans e2, fun K hK => ?_⟩
        obtain ⟨c1, t1⟩ := s1 K (e2.trans hK)
        obtain ⟨c2, t2⟩ := s2 K hK
        refine ⟨by rw [c1, c2]; rfl, ?_⟩
        intro r' hr'
        rcases List.mem_cons.mp hr' with rfl | hr''
        · exact t1
        · exact t2 r' hr''

/-- what `resolve` returns, in closed form -/
theorem resolve_spec (rs : List (List MOp)) (r : Resolved) (h : resolve rs = .ok r) :
    DistIds r.labels ∧
    r.rtns = rs.map (fun os => interleave r.labels (os.map (conv r.labels))) ∧
    ∀ o ∈ allOps rs, tgtOk r.labels o := by
  unfold resolve at h
  cases h1 : processAll (endOffsets rs 0) 0 [] rs with
  | error e => rw [h1] at h; cases h
  | ok res =>
    obtain ⟨K, rtns⟩ := res
    rw [h1] at h
    simp only [Except.ok.injEq] at h
    subst h
    obtain ⟨d, _, s⟩ := processAll_spec _ rs 0 [] K rtns h1 (by simp [DistIds])
    obtain ⟨c, t⟩ := s K (Ext.refl _)
    refine ⟨d, ?_, ?_⟩
    · simp only; rw [c, List.map_map]; rfl
    · intro o ho
      unfold allOps at ho
      obtain ⟨r', hr', ho'⟩ := List.mem_flatMap.mp ho
      exact t r' hr' o ho'

end ESV.Decomp
