import ESV.Decomp.WrLfDefs
/-
Label-free fragment, plain ops: the statement `SimpleOperationWriteHandler` writes for a vertex of the fragment behaves like the
vertex (`plain_step`).
-/
namespace ESV.Decomp.Wr
open ESV ESV.Beh ESV.Decomp ESV.Decomp.BGraph ESV.Decomp.Opt ESV.Comp

theorem isSwitchVertex_none {x : BVertex} (h : x.switchStart = none) : isSwitchVertex x = false := by
  unfold isSwitchVertex; rw [h]; split <;> simp_all

theorem isIfVertex_op {x : BVertex} {o : MOp} (h : x.op = .item (.op o)) : isIfVertex x = false := by
  unfold isIfVertex; rw [h]

/-- how the graph reads a plain op -/
theorem stepPL_op (g : BGraph) (v : Nat) (x : BVertex) (o : MOp) (hx : g.vs[v]? = some x) (hop : x.op = .item (.op o))
    (hs : x.synthetic = false) (hw : x.switchStart = none) :
    g.stepPL (v, 0) = if endsFlow o.name && !g.toGraph.afterCtxE v then .halt ⟨o.name, o.params⟩
      else .emit ⟨o.name, o.params⟩ (g.toGraph.fall v, 0) := by
  rw [stepPL_level g v x hx hs (isSwitchVertex_none hw) (isIfVertex_op hop)]
  have hv : g.toGraph.vs[v]? = some (.item (.op o)) := by rw [toGraph_vs, hx]; simp [hop]
  simp only [Graph.stepE, hv]
  split <;> rfl

/-- an op that does not end the flow and is not called Jump is one the block writes the dummy `return;` behind -/
theorem needsDummy_op (g : BGraph) (v : Nat) (x : BVertex) (o : MOp) (hx : g.vs[v]? = some x) (hop : x.op = .item (.op o))
    (hs : x.synthetic = false) (hw : x.switchStart = none) (hf : endsFlow o.name = false) (hj : isJump o.name = false) :
    needsDummy g v = true := by
  have hpk : pyKind x = .plain o := by unfold pyKind isJumpObj; simp [hs, hop, hw]
  have : ESV.Spec.opsEndFlow.contains o.name = false := by
    unfold Beh.endsFlow at hf
    simpa [hj] using hf
  have hgen : ESV.Gen.opsEndFlow = ESV.Spec.opsEndFlow := by decide
  have hnm : ¬ o.name ∈ ESV.Spec.opsEndFlow := by simpa using this
  simp [needsDummy, hx, hpk, hgen, hnm]

theorem op_eq (g : BGraph) (v : Nat) (x : BVertex) (o : MOp) (hx : g.vs[v]? = some x) (hop : x.op = .item (.op o))
    (hs : x.synthetic = false) (hw : x.switchStart = none) (h2 : (!endsFlow o.name || !g.toGraph.afterCtxE v) = true)
    (hj : isJump o.name = false)
    (n : Option Nat) (hn : exits01 g v = .ok n) (labs : List (String × Nat)) (N : List Src.Node) (e m : Nat)
    (hS : SpecS labs N (.op o.name o.params) e m) (h1 : ∀ w, n = some w → EQ g N m (w, 0))
    (h0 : n = none → needsDummy g v = true → EQ g N m (st g none)) : EQ g N e (v, 0) := by
  have hstep := stepPL_op g v x o hx hop hs hw
  cases hS with
  | opHalt hf hN =>
    have ha : g.toGraph.afterCtxE v = false := by simpa [hf] using h2
    rw [hf, ha] at hstep
    exact Equivalent.of_halt (nodeStep_of hN) hstep
  | opEmit hf hN =>
    rw [hf] at hstep
    simp only [Bool.false_and, Bool.false_eq_true, if_false] at hstep
    rw [exits01_fall g v n hn] at hstep
    have hm : EQ g N m (st g n) := by
      cases n with
      | some w => exact h1 w rfl
      | none => exact h0 rfl (needsDummy_op g v x o hx hop hs hw hf hj)
    exact Equivalent.of_emit (nodeStep_of hN) hstep hm

theorem endsFlow_return : endsFlow ESV.Gen.op_return = true := by decide
theorem endsFlow_end : endsFlow ESV.Gen.op_end = true := by decide
theorem endsFlow_hold : endsFlow ESV.Gen.op_hold = true := by decide

/-- `return;` / `end;` / `hold;` for the op of that name without parameters -/
theorem kw_eq (g : BGraph) (v : Nat) (x : BVertex) (o : MOp) (hx : g.vs[v]? = some x) (hop : x.op = .item (.op o))
    (hs : x.synthetic = false) (hw : x.switchStart = none) (h2 : (!endsFlow o.name || !g.toGraph.afterCtxE v) = true)
    (hp : o.params = []) (s : Src.Stmt) (hk : lowerKeyword o = .ok s) (labs : List (String × Nat)) (N : List Src.Node) (e m : Nat)
    (hS : SpecS labs N s e m) :
    EQ g N e (v, 0) := by
  have hstep := stepPL_op g v x o hx hop hs hw
  unfold lowerKeyword at hk
  split at hk
  · rename_i hn
    have hn' : o.name = ESV.Gen.op_return := by simpa using hn
    cases hk
    have ha : g.toGraph.afterCtxE v = false := by simpa [hn', endsFlow_return] using h2
    rw [hn', endsFlow_return, ha, hp] at hstep
    cases hS with
    | ret hN => exact Equivalent.of_halt (nodeStep_of hN) hstep
  · split at hk
    · rename_i _ hn
      have hn' : o.name = ESV.Gen.op_end := by simpa using hn
      cases hk
      have ha : g.toGraph.afterCtxE v = false := by simpa [hn', endsFlow_end] using h2
      rw [hn', endsFlow_end, ha, hp] at hstep
      cases hS with
      | end_ hN => exact Equivalent.of_halt (nodeStep_of hN) hstep
    · split at hk
      · rename_i _ _ hn
        have hn' : o.name = ESV.Gen.op_hold := by simpa using hn
        cases hk
        have ha : g.toGraph.afterCtxE v = false := by simpa [hn', endsFlow_hold] using h2
        rw [hn', endsFlow_hold, ha, hp] at hstep
        cases hS with
        | hold hN => exact Equivalent.of_halt (nodeStep_of hN) hstep
      · cases hk

theorem lf_keyword (o : MOp) (s : Src.Stmt) (hk : lowerKeyword o = .ok s) : lf0 s = true := by
  unfold lowerKeyword at hk
  split at hk
  · cases hk; rfl
  · split at hk
    · cases hk; rfl
    · split at hk
      · cases hk; rfl
      · cases hk

/-- a context op is not an op that ends the flow -/
theorem endsFlow_of_ctx (name : String) (h : simpleKind name = .ctx) : endsFlow name = false := by
  unfold simpleKind at h
  split at h
  · cases h
  · split at h
    · rename_i hc
      have : name = "lives" ∨ name = "object" ∨ name = "performer" := by
        simpa [ESV.Gen.opsCtx] using hc
      rcases this with rfl | rfl | rfl <;> decide
    · split at h
      · cases h
      · split at h
        · cases h
        · split at h <;> cases h

theorem isCtx_of_ctx (name : String) (h : simpleKind name = .ctx) : isCtx name = true := by
  unfold simpleKind at h
  split at h
  · cases h
  · split at h
    · rename_i hc
      have : name = "lives" ∨ name = "object" ∨ name = "performer" := by
        simpa [ESV.Gen.opsCtx] using hc
      rcases this with rfl | rfl | rfl <;> decide
    · split at h
      · cases h
      · split at h
        · cases h
        · split at h <;> cases h

/-- the vertex behind a context op does not stop the routine -/
theorem afterCtxE_of_edge (g : BGraph) (v t : Nat) (x : BVertex) (o : MOp) (hx : g.vs[v]? = some x) (hop : x.op = .item (.op o))
    (hc : isCtx o.name = true) (p : Nat × BEdge) (hp : g.outEs v = [p]) (ht : p.2.dst = t) : g.toGraph.afterCtxE t = true := by
  have hmem : p ∈ g.outEs v := by rw [hp]; simp
  obtain ⟨hpe, hps⟩ := (Gr.mem_outEs g v p.1 p.2).mp hmem
  unfold Graph.afterCtxE
  rw [List.any_eq_true]
  refine ⟨p.2.toEdge, (Sw.mem_toGraph_es g _).mpr ⟨p.2, List.mem_of_getElem? hpe, rfl⟩, ?_⟩
  have hv : g.toGraph.vs[v]? = some (.item (.op o)) := by rw [toGraph_vs, hx]; simp [hop]
  simp [BEdge.toEdge, ht, hps, Graph.isCtxVertex, hv, hc]

/-- an op that is handled as a simple op, an assignment or a context op is not called Jump -/
theorem not_jump_of_kind (name : String) (h : simpleKind name ≠ .keyword) : isJump name = false := by
  unfold simpleKind at h
  split at h
  · exact absurd rfl h
  · rename_i hk
    have : ¬ (name == ESV.Gen.op_jump) = true := fun hh => hk (by simp [hh])
    have hs : ESV.Spec.op_jump = ESV.Gen.op_jump := by decide
    simpa [isJump, hs] using this

/-- behind a context op the block writes the dummy `return;` -/
theorem needsDummy_ctx (g : BGraph) (v : Nat) (x : BVertex) (o : MOp) (hx : g.vs[v]? = some x) (hop : x.op = .item (.op o))
    (hs : x.synthetic = false) (hw : x.switchStart = none) (hk : simpleKind o.name = .ctx) : needsDummy g v = true :=
  needsDummy_op g v x o hx hop hs hw (endsFlow_of_ctx o.name hk) (not_jump_of_kind o.name (by rw [hk]; decide))

end ESV.Decomp.Wr
