import ESV.Decomp.GrGuard
import ESV.Decomp.GraphSort
/-
Reading the flagged out-edges of an if vertex: `outEs` delivers exactly the edges with that source; when an if has at
most one out-edge per flag (`flagsUnique`), "the first else-edge in igraph's order" is THE else-edge, whatever the
edge ids - `ifTarget` / `elseTarget` are then characterised by membership alone.
-/
namespace ESV.Decomp.Gr
open ESV.Beh ESV.Decomp

theorem mem_outEs (g : BGraph) (v i : Nat) (e : BEdge) :
    (i, e) ∈ g.outEs v ↔ g.es[i]? = some e ∧ e.src = v := by
  unfold BGraph.outEs
  simp only [mem_sortBy, List.mem_map, List.mem_filter]
  constructor
  · rintro ⟨q, ⟨hq, hs⟩, heq⟩
    rw [List.mem_zipIdx_iff_getElem?] at hq
    simp only [Prod.mk.injEq] at heq
    obtain ⟨rfl, rfl⟩ := heq
    exact ⟨hq, by simpa using hs⟩
  · rintro ⟨he, hs⟩
    refine ⟨(e, i), ⟨?_, by simpa using hs⟩, rfl⟩
    rw [List.mem_zipIdx_iff_getElem?]; exact he

/-- at most one out-edge per flag at every if vertex -/
def FU (g : BGraph) : Prop :=
  ∀ (i j : Nat) (e e' : BEdge), g.es[i]? = some e → g.es[j]? = some e' → e.src = e'.src → g.isIfV e.src = true →
    e.isElse = e'.isElse → i = j

theorem fu_of_flagsUnique (g : BGraph) (h : flagsUnique g = true) : FU g := by
  intro i j e e' hi hj hs hv hf
  unfold flagsUnique at h
  rw [List.all_eq_true] at h
  have h1 := h (e, i) (List.mem_zipIdx_iff_getElem?.mpr hi)
  rw [List.all_eq_true] at h1
  have h2 := h1 (e', j) (List.mem_zipIdx_iff_getElem?.mpr hj)
  simp only [Bool.or_eq_true, Bool.not_eq_true', Bool.and_eq_false_iff, beq_eq_false_iff_ne, beq_iff_eq] at h2
  rcases h2 with ((h3 | h3) | h3) | h3
  · exact absurd hs h3
  · rw [hv] at h3; exact absurd h3 (by simp)
  · exact absurd hf h3
  · exact h3

theorem firstElse_some (g : BGraph) (v i : Nat) (e : BEdge) (h : g.firstElse v = some (i, e)) :
    g.es[i]? = some e ∧ e.src = v ∧ e.isElse = true := by
  unfold BGraph.firstElse at h
  have h1 := List.find?_some h
  have h2 := List.mem_of_find?_eq_some h
  obtain ⟨h3, h4⟩ := (mem_outEs g v i e).mp h2
  exact ⟨h3, h4, h1⟩

theorem firstIf_some (g : BGraph) (v i : Nat) (e : BEdge) (h : g.firstIf v = some (i, e)) :
    g.es[i]? = some e ∧ e.src = v ∧ e.isElse = false := by
  unfold BGraph.firstIf at h
  have h1 := List.find?_some h
  have h2 := List.mem_of_find?_eq_some h
  obtain ⟨h3, h4⟩ := (mem_outEs g v i e).mp h2
  exact ⟨h3, h4, by simpa using h1⟩

theorem firstElse_none (g : BGraph) (v : Nat) (h : g.firstElse v = none) :
    ∀ (i : Nat) (e : BEdge), g.es[i]? = some e → e.src = v → e.isElse = false := by
  intro i e hi hs
  unfold BGraph.firstElse at h
  rw [List.find?_eq_none] at h
  have := h (i, e) ((mem_outEs g v i e).mpr ⟨hi, hs⟩)
  simpa using this

theorem firstIf_none (g : BGraph) (v : Nat) (h : g.firstIf v = none) :
    ∀ (i : Nat) (e : BEdge), g.es[i]? = some e → e.src = v → e.isElse = true := by
  intro i e hi hs
  unfold BGraph.firstIf at h
  rw [List.find?_eq_none] at h
  have := h (i, e) ((mem_outEs g v i e).mpr ⟨hi, hs⟩)
  simpa using this

/-- under `FU` the else-edge of an if vertex is the first else-edge -/
theorem firstElse_of_edge (g : BGraph) (hfu : FU g) (v i : Nat) (e : BEdge) (hv : g.isIfV v = true)
    (hi : g.es[i]? = some e) (hs : e.src = v) (he : e.isElse = true) : g.firstElse v = some (i, e) := by
  cases h : g.firstElse v with
  | none => have := firstElse_none g v h i e hi hs; rw [he] at this; cases this
  | some p =>
    obtain ⟨j, e'⟩ := p
    obtain ⟨h1, h2, h3⟩ := firstElse_some g v j e' h
    have : j = i := hfu j i e' e h1 hi (by rw [h2, hs]) (by rw [h2]; exact hv) (by rw [h3, he])
    subst this
    rw [hi] at h1; cases h1; rfl

theorem firstIf_of_edge (g : BGraph) (hfu : FU g) (v i : Nat) (e : BEdge) (hv : g.isIfV v = true)
    (hi : g.es[i]? = some e) (hs : e.src = v) (he : e.isElse = false) : g.firstIf v = some (i, e) := by
  cases h : g.firstIf v with
  | none => have := firstIf_none g v h i e hi hs; rw [he] at this; cases this
  | some p =>
    obtain ⟨j, e'⟩ := p
    obtain ⟨h1, h2, h3⟩ := firstIf_some g v j e' h
    have : j = i := hfu j i e' e h1 hi (by rw [h2, hs]) (by rw [h2]; exact hv) (by rw [h3, he])
    subst this
    rw [hi] at h1; cases h1; rfl

theorem elseTarget_of_edge (g : BGraph) (hfu : FU g) (v i : Nat) (e : BEdge) (hv : g.isIfV v = true)
    (hi : g.es[i]? = some e) (hs : e.src = v) (he : e.isElse = true) : g.elseTarget v = e.dst := by
  unfold BGraph.elseTarget; rw [firstElse_of_edge g hfu v i e hv hi hs he]

theorem ifTarget_of_edge (g : BGraph) (hfu : FU g) (v i : Nat) (e : BEdge) (hv : g.isIfV v = true)
    (hi : g.es[i]? = some e) (hs : e.src = v) (he : e.isElse = false) : g.ifTarget v = e.dst := by
  unfold BGraph.ifTarget; rw [firstIf_of_edge g hfu v i e hv hi hs he]

theorem isIfV_lt (g : BGraph) (v : Nat) (h : g.isIfV v = true) : v < g.vs.length := by
  unfold BGraph.isIfV at h
  cases hv : g.vs[v]? with
  | none => simp [hv] at h
  | some x => exact (List.getElem?_eq_some_iff.mp hv).1

/-- `isIfV` reads the vertex attributes only -/
theorem isIfV_congr (g g' : BGraph) (v v' : Nat) (h : g'.vs[v']? = g.vs[v]?) : g'.isIfV v' = g.isIfV v := by
  unfold BGraph.isIfV; rw [h]

/-- what `isIfV` says about the vertex -/
theorem isIfV_spec (g : BGraph) (v : Nat) (h : g.isIfV v = true) :
    ∃ x r l id, g.vs[v]? = some x ∧ x.op = .item (.ljump r l false) ∧ x.ifStart = some id := by
  unfold BGraph.isIfV at h
  split at h
  · rename_i x heq
    unfold BGraph.isIfVertex at h
    split at h
    · rename_i r l call id h1 h2
      simp only [Bool.not_eq_true'] at h
      subst h
      exact ⟨x, r, l, id, heq, h1, h2⟩
    · cases h
  · cases h

end ESV.Decomp.Gr
