import ESV.Decomp.SwGroupStep
/-
`group_switch_cases` does not change the step function (under `Det` and "an else edge carries no tests").
-/
namespace ESV.Decomp.Sw
open ESV.Beh ESV.Decomp ESV.Decomp.Opt ESV.Decomp.Gr

theorem grp_init (g : BGraph) : Grp g g [] [] := by
  refine ⟨rfl, rfl, ?_, ?_, ?_, ?_, by simp⟩
  · intro i e0 ec h0 hc; rw [h0] at hc; have : ec = e0 := by simpa using hc.symm
    subst this; exact ⟨rfl, rfl⟩
  · intro i e0 h0 _; exact ⟨h0, by simp⟩
  · intro i ec hc
    exact ⟨fun he => ⟨ec, List.mem_of_getElem? hc, rfl, rfl, he⟩, fun t ht => ⟨ec, List.mem_of_getElem? hc, rfl, rfl, ht⟩⟩
  · intro i e0 h0
    exact ⟨i, e0, by simp, h0, rfl, rfl, fun h => h, fun _ t ht => ht⟩

variable {g gc : BGraph} {toDel : List Nat} {pd : List (Nat × Nat)}

theorem grp_stepPS (h : Grp g gc toDel pd) (hdet : Det g)
    (hno : ∀ e ∈ g.es, g.isSwitchV e.src = true → e.isElse = true → e.switchOps = []) (a j : Nat) :
    (gc.delEdges toDel).stepPS (a, j) = g.stepPS (a, j) := by
  let g' := gc.delEdges toDel
  have hvs : g'.vs = g.vs := h.vs
  have hmem : ∀ y, y ∈ g'.es ↔ ∃ k, k ∉ toDel ∧ gc.es[k]? = some y := fun y => mem_delEdges gc toDel y
  have hpos0 : ∀ (k : Nat) (y : BEdge), gc.es[k]? = some y → ∃ e0 : BEdge, g.es[k]? = some e0 ∧ y.src = e0.src ∧ y.dst = e0.dst := by
    intro k y hk
    have hlt : k < g.es.length := by rw [← h.len]; exact (List.getElem?_eq_some_iff.mp hk).1
    have h0 : g.es[k]? = some g.es[k] := List.getElem?_eq_getElem hlt
    obtain ⟨g1, g2⟩ := h.geo k _ y h0 hk
    exact ⟨_, h0, g1, g2⟩
  have hsameV : ∀ u, SameV g g' u u := fun u => SameV.of_eq (by rw [hvs])
  have hctx : ∀ b, g'.toGraph.afterCtxE b = g.toGraph.afterCtxE b := by
    intro b
    apply afterCtxE_congr
    · intro y hy hd hc
      obtain ⟨k, _, hk⟩ := (hmem y).mp hy
      obtain ⟨e0, h0, g1, g2⟩ := hpos0 k y hk
      rw [isCtxVertex_same (hsameV y.src), g1] at hc
      exact ⟨e0, List.mem_of_getElem? h0, by rw [← g2]; exact hd, hc⟩
    · intro e he hd hc
      obtain ⟨i, hi⟩ := List.getElem?_of_mem he
      obtain ⟨k, ec, b1, b2, b3, b4, _, _⟩ := h.low i e hi
      exact ⟨ec, (hmem ec).mpr ⟨k, b1, b2⟩, by rw [b4]; exact hd, by rw [isCtxVertex_same (hsameV ec.src), b3]; exact hc⟩
  cases hs : g.isSwitchV a with
  | false =>
    have hc : EdgeCorr g g' id a := by
      constructor
      · intro y hy hys
        obtain ⟨k, _, hk⟩ := (hmem y).mp hy
        obtain ⟨e0, h0, g1, _⟩ := hpos0 k y hk
        have hnp : (e0.src, e0.dst) ∉ pd := by
          intro hm
          have := h.sw _ hm
          simp only at this
          rw [← g1, hys] at this
          change g.isSwitchV a = true at this
          rw [hs] at this; cases this
        obtain ⟨u1, _⟩ := h.untouched k e0 h0 hnp
        rw [hk] at u1
        have : y = e0 := by simpa using u1
        subst this
        exact ⟨y, List.mem_of_getElem? h0, hys, rfl⟩
      · intro e he hes _
        obtain ⟨i, hi⟩ := List.getElem?_of_mem he
        have hnp : (e.src, e.dst) ∉ pd := by
          intro hm
          have := h.sw _ hm
          simp only at this
          rw [hes, hs] at this; cases this
        obtain ⟨u1, u2⟩ := h.untouched i e hi hnp
        exact (hmem _).mpr ⟨i, u2, u1⟩
    have hsm : StateMap g g' id := ⟨by show g.vs.length = g'.vs.length; rw [hvs], by show g.vs.length + 1 = g'.vs.length + 1; rw [hvs]⟩
    have := step_congr hdet hsm a j (hsameV a) (fun _ => by show (a == g'.vs.length) = (a == g.vs.length); rw [hvs]) hc
      (fun _ _ => hctx a)
    have hpm : pmap id = fun p : Nat × Nat => p := by funext p; rfl
    rw [hpm, mapStep_id'] at this
    exact this
  | true =>
    obtain ⟨x, o, hx, ho⟩ := isSwitchV_op g a hs
    have hs' : g'.isSwitchV a = true := by rw [isSwitchV_same (hsameV a)]; exact hs
    rw [stepPS_switch g a j x o hx hs ho, stepPS_switch g' a j x o (by rw [hvs]; exact hx) hs' ho]
    have hT : ∀ t, t ∈ g'.caseTriples a ↔ t ∈ g.caseTriples a := by
      intro t
      rw [mem_caseTriples, mem_caseTriples]
      constructor
      · rintro ⟨y, hy, hys, hd, si, hm⟩
        obtain ⟨k, _, hk⟩ := (hmem y).mp hy
        obtain ⟨e1, he1, b1, b2, b3⟩ := (h.up k y hk).2 _ hm
        exact ⟨e1, he1, by rw [b1, hys], by rw [b2, hd], si, b3⟩
      · rintro ⟨e, he, hes, hd, si, hm⟩
        obtain ⟨i, hi⟩ := List.getElem?_of_mem he
        have hne : e.isElse = false := by
          cases hel : e.isElse with
          | false => rfl
          | true => rw [hno e he (by rw [hes]; exact hs) hel] at hm; cases hm
        obtain ⟨k, ec, b1, b2, b3, b4, _, b6⟩ := h.low i e hi
        exact ⟨ec, (hmem ec).mpr ⟨k, b1, b2⟩, by rw [b3, hes], by rw [b4, hd], si, b6 hne _ hm⟩
    have hdetT : ∀ t ∈ g.caseTriples a, ∀ t' ∈ g.caseTriples a, t.1 = t'.1 → t = t' := by
      intro t ht t' ht' hix
      obtain ⟨e, he, hes, hd, si, hm⟩ := (mem_caseTriples g a t).mp ht
      obtain ⟨e', he', hes', hd', si', hm'⟩ := (mem_caseTriples g a t').mp ht'
      obtain ⟨c1, c2⟩ := hdet.idx e he e' he' (by rw [hes, hes']) (by rw [hes]; exact hs) _ hm _ hm' hix
      obtain ⟨t1, t2, t3⟩ := t
      obtain ⟨t1', t2', t3'⟩ := t'
      simp only at hix c1 hd hd'
      rw [hix, c1, hd, hd', c2]
    have hE : ∀ d, (∃ y ∈ g'.es, y.src = a ∧ y.isElse = true ∧ y.dst = d) ↔
        (∃ e ∈ g.es, e.src = a ∧ e.isElse = true ∧ e.dst = d) := by
      intro d
      constructor
      · rintro ⟨y, hy, hys, hye, hyd⟩
        obtain ⟨k, _, hk⟩ := (hmem y).mp hy
        obtain ⟨e1, he1, b1, b2, b3⟩ := (h.up k y hk).1 hye
        exact ⟨e1, he1, by rw [b1, hys], b3, by rw [b2, hyd]⟩
      · rintro ⟨e, he, hes, hee, hed⟩
        obtain ⟨i, hi⟩ := List.getElem?_of_mem he
        obtain ⟨k, ec, b1, b2, b3, b4, b5, _⟩ := h.low i e hi
        exact ⟨ec, (hmem ec).mpr ⟨k, b1, b2⟩, by rw [b3, hes], b5 hee, by rw [b4, hed]⟩
    have hNT : ∀ i, g'.nextTest a i = g.nextTest a i := nextTest_of_sets g g' a hT hdetT
    have hSE : g'.switchElse a = g.switchElse a :=
      switchElse_of_sets g g' a (by rw [hvs]) hE
        (fun e he e' he' h1 h2 h3 h4 => hdet.els e he e' he' (by rw [h1, h2]) (by rw [h1]; exact hs) h3 h4)
    have hSN : ∀ i, g'.switchNext a i = g.switchNext a i := by
      intro i; unfold BGraph.switchNext; rw [hNT i, hSE]
    unfold BGraph.switchStep
    cases j with
    | zero => simp only; rw [hctx a, hSN 0]
    | succ i =>
      simp only
      rw [hNT i]
      cases g.nextTest a i with
      | none => rfl
      | some t => obtain ⟨ix, op, d⟩ := t; simp only; rw [hSN]

theorem det_of_bools (g : BGraph) (h1 : lvlDet g = true) (h2 : flagDet g = true) (h3 : elseDet g = true)
    (h4 : idxDet g = true) : Det g := by
  unfold lvlDet at h1; unfold flagDet at h2; unfold elseDet at h3; unfold idxDet at h4
  simp only [List.all_eq_true] at h1 h2 h3 h4
  refine ⟨?_, ?_, ?_, ?_⟩
  · intro e he e' he' hs hl hlv
    have hl' : g.levelRead e'.src = true := by rw [← hs]; exact hl
    simpa [hs, hl', hlv] using h1 e he e' he'
  · intro e he e' he' hs hl hlv
    have hl' : g.isIfV e'.src = true := by rw [← hs]; exact hl
    simpa [hs, hl', hlv] using h2 e he e' he'
  · intro e he e' he' hs hl a b
    have hl' : g.isSwitchV e'.src = true := by rw [← hs]; exact hl
    simpa [hs, hl', a, b] using h3 e he e' he'
  · intro e he e' he' hs hl t ht t' ht' hix
    have hl' : g.isSwitchV e'.src = true := by rw [← hs]; exact hl
    have := h4 e he e' he'
    simp only [hs, hl', beq_self_eq_true, Bool.and_self, Bool.not_true, Bool.false_or, List.all_eq_true] at this
    have := this t ht t' ht'
    simpa [hix] using this

/-- **`group_switch_cases` keeps the behaviour** (the step function on pairs is unchanged) -/
theorem groupSwitchCases_equiv (g g' : BGraph) (hs : groupSwStructOk g = true) (h : groupSwitchCases g = .ok g') :
    Equivalent g.ltsS g'.ltsS (0 : Nat) (0 : Nat) := by
  unfold groupSwStructOk at hs
  simp only [Bool.and_eq_true] at hs
  obtain ⟨⟨⟨⟨h1, h2⟩, h3⟩, h4⟩, h5⟩ := hs
  have hdet := det_of_bools g h1 h2 h3 h4
  have hno : ∀ e ∈ g.es, g.isSwitchV e.src = true → e.isElse = true → e.switchOps = [] := by
    intro e he hsw hel
    unfold elseNoOps at h5
    rw [List.all_eq_true] at h5
    simpa [hsw, hel] using h5 e he
  unfold groupSwitchCases at h
  cases hgo : BGraph.groupSwGo (List.range g.vs.length) g [] with
  | error e => rw [hgo] at h; cases h
  | ok res =>
    obtain ⟨gc, toDel⟩ := res
    rw [hgo] at h
    simp only [Except.ok.injEq] at h
    subst h
    obtain ⟨pd, hg⟩ := groupSwGo_inv (List.range g.vs.length) g [] [] gc toDel (grp_init g) List.nodup_range (by simp) hgo
    have hP : (gc.delEdges toDel).stepPS = g.stepPS := by
      funext s; obtain ⟨a, j⟩ := s; exact grp_stepPS hg hdet hno a j
    have hlen : (gc.delEdges toDel).vs.length = g.vs.length := by rw [delEdges_vs, hg.vs]
    have hS : (gc.delEdges toDel).stepS = g.stepS := by
      funext s
      unfold BGraph.stepS BGraph.dec
      rw [hlen, hP]
      congr 1
      funext p
      unfold BGraph.enc; rw [hlen]
    exact equiv_of_step_eq g.stepS (gc.delEdges toDel).stepS hS.symm 0

end ESV.Decomp.Sw
