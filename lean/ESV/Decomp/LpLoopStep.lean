import ESV.Decomp.LpSplit
import ESV.Decomp.LpRelabel
import ESV.Decomp.LpRemove
/-
One loop construction of `build_loops` keeps the behaviour: the graph after it (`g' = gc.delEdges toDel`) maps onto the graph
before it - an inserted vertex to the target of the edge it splits, everything else to itself (`rho`) -, an inserted vertex only
takes a silent step to the vertex it is mapped to.  Loop flags (a continue copy loses its flag) are forgotten on both sides first.
-/
namespace ESV.Decomp.Lp
open ESV.Beh ESV.Decomp ESV.Decomp.Opt ESV.Decomp.Gr ESV.Decomp.Sw

def rho (n : Nat) (sp : List Split) (x : Nat) : Nat :=
  if x < n then x else
    match sp[x - n]? with
    | some s => s.e.dst
    | none => x - sp.length

theorem rho_old (n : Nat) (sp : List Split) (x : Nat) (h : x < n) : rho n sp x = x := by unfold rho; rw [if_pos h]

theorem rho_syn (n : Nat) (sp : List Split) (k : Nat) (s : Split) (h : sp[k]? = some s) : rho n sp (n + k) = s.e.dst := by
  unfold rho
  rw [if_neg (by omega), show n + k - n = k by omega, h]

theorem rho_ge (n : Nat) (sp : List Split) (x : Nat) (h : n + sp.length ≤ x) : rho n sp x = x - sp.length := by
  unfold rho
  rw [if_neg (by omega), List.getElem?_eq_none (by omega)]

def unl (e : BEdge) : BEdge := relF (fun e => e.level) (fun _ => false) e

theorem mem_unloop (g : BGraph) (x : BEdge) : x ∈ (unloop g).es ↔ ∃ e ∈ g.es, x = unl e := by
  unfold unloop relG
  simp only [List.mem_map]
  constructor
  · rintro ⟨e, he, rfl⟩; exact ⟨e, he, rfl⟩
  · rintro ⟨e, he, rfl⟩; exact ⟨e, he, rfl⟩

theorem edgesInRange_spec (g : BGraph) (h : edgesInRangeB g = true) (e : BEdge) (he : e ∈ g.es) :
    e.src < g.vs.length ∧ e.dst < g.vs.length := by
  unfold edgesInRangeB at h
  rw [List.all_eq_true] at h
  simpa using h e he

theorem synCtxOk_spec (g : BGraph) (h : synCtxOk g = true) (e : BEdge) (he : e ∈ g.es) (hs : g.isSynV e.dst = true) :
    g.toGraph.isCtxVertex e.src = g.toGraph.isCtxVertex e.dst := by
  unfold synCtxOk at h
  rw [List.all_eq_true] at h
  have := h e he
  simp only [Bool.or_eq_true, Bool.not_eq_true', beq_iff_eq] at this
  rcases this with h1 | h1
  · rw [hs] at h1; cases h1
  · exact h1

section
variable {C : Nat → Prop} {g gc : BGraph} {v : Nat} {toDel : List Nat} {sp : List Split}

theorem LInv.idlt (h : LInv C g gc v toDel sp) (s : Split) (hs : s ∈ sp) : s.i < g.es.length :=
  (List.getElem?_eq_some_iff.mp (h.pos s hs)).1

/-- the edges after `delete_edges` -/
theorem LInv.mem_after (h : LInv C g gc v toDel sp) (x : BEdge) :
    x ∈ (gc.delEdges toDel).es ↔ (∃ p, p ∉ toDel ∧ g.es[p]? = some x) ∨ ∃ s ∈ sp, x = copyE s ∨ x = outE v s := by
  rw [mem_delEdges, h.es]
  constructor
  · rintro ⟨p, hp, hx⟩
    rcases Nat.lt_or_ge p g.es.length with hlt | hge
    · rw [List.getElem?_append_left hlt] at hx; exact Or.inl ⟨p, hp, hx⟩
    · rw [List.getElem?_append_right hge] at hx
      have := List.mem_of_getElem? hx
      simp only [List.mem_flatMap, List.mem_cons, List.not_mem_nil, or_false] at this
      exact Or.inr this
  · rintro (⟨p, hp, hx⟩ | ⟨s, hs, hx⟩)
    · exact ⟨p, hp, by rw [List.getElem?_append_left (List.getElem?_eq_some_iff.mp hx).1]; exact hx⟩
    · have hm : x ∈ sp.flatMap fun s => [copyE s, outE v s] := by
        simp only [List.mem_flatMap, List.mem_cons, List.not_mem_nil, or_false]
        exact ⟨s, hs, hx⟩
      obtain ⟨q, hq⟩ := List.getElem?_of_mem hm
      refine ⟨g.es.length + q, ?_, by rw [List.getElem?_append_right (by omega)]; simpa using hq⟩
      intro hmem
      rw [h.del] at hmem
      obtain ⟨s', hs', heq⟩ := List.mem_map.mp hmem
      have := h.idlt s' hs'
      omega

theorem LInv.m_of (h : LInv C g gc v toDel sp) (s : Split) (hs : s ∈ sp) : ∃ k, sp[k]? = some s ∧ s.m = g.vs.length + k := by
  obtain ⟨k, hk⟩ := List.getElem?_of_mem hs
  exact ⟨k, hk, h.idx k s hk⟩

theorem LInv.rho_m (h : LInv C g gc v toDel sp) (s : Split) (hs : s ∈ sp) : rho g.vs.length sp s.m = s.e.dst := by
  obtain ⟨k, hk, hm⟩ := h.m_of s hs
  rw [hm]; exact rho_syn _ sp k s hk

end

/-- what the semantic step needs -/
structure LoopCtx (C : Nat → Prop) (g gc : BGraph) (v : Nat) (toDel : List Nat) (sp : List Split) : Prop where
  inv : LInv C g gc v toDel sp
  range : edgesInRangeB g = true
  cont : ∀ i, C i → ∀ e, g.es[i]? = some e → e.dst = v
  det : Det (gc.delEdges toDel)
  synpG : synPlainOk g = true
  sctx : synCtxOk (gc.delEdges toDel) = true

section
variable {C : Nat → Prop} {g gc : BGraph} {v : Nat} {toDel : List Nat} {sp : List Split}

/-- the inserted vertices are neither ifs nor switches, before and after -/
theorem LoopCtx.synp (h : LoopCtx C g gc v toDel sp) : synPlainOk (gc.delEdges toDel) = true := by
  have hg := h.synpG
  unfold synPlainOk at hg ⊢
  rw [List.all_eq_true] at hg ⊢
  intro y hy
  have hy' : y ∈ gc.vs := hy
  obtain ⟨u, hu⟩ := List.getElem?_of_mem hy'
  rcases Nat.lt_or_ge u g.vs.length with hlt | hge
  · obtain ⟨x, hx, hc⟩ := sameVL_get (h.inv.old u hlt) y hu
    have := hg x (List.mem_of_getElem? hx)
    simp only [coreL, Prod.mk.injEq] at hc
    obtain ⟨_, h2, _, _, h5, h6⟩ := hc
    rw [← h2, ← h5, ← h6]; exact this
  · have hul := (List.getElem?_eq_some_iff.mp hu).1
    rw [h.inv.len] at hul
    have := h.inv.plain (u - g.vs.length) (by omega) y (by rw [show g.vs.length + (u - g.vs.length) = u by omega]; exact hu)
    simp [this.1, this.2]

theorem LoopCtx.out_dst (h : LoopCtx C g gc v toDel sp) (s : Split) (hs : s ∈ sp) : (outE v s).dst = s.e.dst := by
  unfold outE
  cases hb : s.isBreak with
  | true => rfl
  | false =>
    simp only [Bool.false_eq_true, if_false]
    exact (h.cont s.i (h.inv.cont s hs hb) s.e (h.inv.pos s hs)).symm

theorem img_unl_old (h : LoopCtx C g gc v toDel sp) (x : BEdge) (hx : x ∈ g.es) :
    img (rho g.vs.length sp) (unl x) = unl x := by
  obtain ⟨h1, h2⟩ := edgesInRange_spec g h.range x hx
  simp only [img, unl, relF]
  rw [rho_old _ _ _ h1, rho_old _ _ _ h2]

theorem img_unl_copy (h : LoopCtx C g gc v toDel sp) (s : Split) (hs : s ∈ sp) :
    img (rho g.vs.length sp) (unl (copyE s)) = unl s.e := by
  have hpos := h.inv.pos s hs
  obtain ⟨h1, _⟩ := edgesInRange_spec g h.range s.e (List.mem_of_getElem? hpos)
  have hm := h.inv.rho_m s hs
  unfold copyE
  cases s.isBreak <;> simp only [img, unl, relF, Bool.false_eq_true, if_false, if_true] <;> rw [rho_old _ _ _ h1, hm]

/-- the old vertices keep their step -/
theorem old_corr (h : LoopCtx C g gc v toDel sp) (b : Nat) (hb : b < g.vs.length) :
    EdgeCorr (unloop (gc.delEdges toDel)) (unloop g) (rho g.vs.length sp) b := by
  have hρb := rho_old g.vs.length sp b hb
  constructor
  · intro eU heU hsrc
    rw [hρb] at hsrc
    obtain ⟨x, hx, rfl⟩ := (mem_unloop g eU).mp heU
    obtain ⟨p, hp⟩ := List.getElem?_of_mem hx
    by_cases hdel : p ∈ toDel
    · rw [h.inv.del] at hdel
      obtain ⟨s, hs, hsi⟩ := List.mem_map.mp hdel
      have hse : s.e = x := by
        have := h.inv.pos s hs
        rw [hsi, hp] at this
        simpa using this.symm
      refine ⟨unl (copyE s), (mem_unloop _ _).mpr ⟨copyE s, (h.inv.mem_after _).mpr (Or.inr ⟨s, hs, Or.inl rfl⟩), rfl⟩, ?_, ?_⟩
      · have : (unl (copyE s)).src = s.e.src := by unfold copyE; cases s.isBreak <;> rfl
        rw [this, hse]; exact hsrc
      · rw [img_unl_copy h s hs, hse]
    · refine ⟨unl x, (mem_unloop _ _).mpr ⟨x, (h.inv.mem_after _).mpr (Or.inl ⟨p, hdel, hp⟩), rfl⟩, hsrc, ?_⟩
      rw [img_unl_old h x hx]
  · intro e' he' hsrc _
    obtain ⟨x, hx, rfl⟩ := (mem_unloop _ e').mp he'
    rcases (h.inv.mem_after x).mp hx with ⟨p, _, hp⟩ | ⟨s, hs, rfl | rfl⟩
    · rw [img_unl_old h x (List.mem_of_getElem? hp)]
      exact (mem_unloop g _).mpr ⟨x, List.mem_of_getElem? hp, rfl⟩
    · rw [img_unl_copy h s hs]
      exact (mem_unloop g _).mpr ⟨s.e, List.mem_of_getElem? (h.inv.pos s hs), rfl⟩
    · exfalso
      obtain ⟨k, _, hm⟩ := h.inv.m_of s hs
      have : (unl (outE v s)).src = s.m := by unfold outE; cases s.isBreak <;> rfl
      rw [this, hm] at hsrc
      omega

/-- beyond the inserted vertices there are no edges -/
theorem far_corr (h : LoopCtx C g gc v toDel sp) (b : Nat) (hb : g.vs.length + sp.length ≤ b) :
    EdgeCorr (unloop (gc.delEdges toDel)) (unloop g) (rho g.vs.length sp) b := by
  constructor
  · intro eU heU hsrc
    exfalso
    obtain ⟨x, hx, rfl⟩ := (mem_unloop g eU).mp heU
    have := (edgesInRange_spec g h.range x hx).1
    rw [rho_ge _ _ _ hb] at hsrc
    have : (unl x).src = x.src := rfl
    omega
  · intro e' he' hsrc _
    exfalso
    obtain ⟨x, hx, rfl⟩ := (mem_unloop _ e').mp he'
    have hs' : x.src = b := hsrc
    rcases (h.inv.mem_after x).mp hx with ⟨p, _, hp⟩ | ⟨s, hs, rfl | rfl⟩
    · have := (edgesInRange_spec g h.range x (List.mem_of_getElem? hp)).1; omega
    · have := (edgesInRange_spec g h.range s.e (List.mem_of_getElem? (h.inv.pos s hs))).1
      have e1 : (copyE s).src = s.e.src := by unfold copyE; cases s.isBreak <;> rfl
      omega
    · obtain ⟨k, hk, hm⟩ := h.inv.m_of s hs
      have e1 : (outE v s).src = s.m := by unfold outE; cases s.isBreak <;> rfl
      have := (List.getElem?_eq_some_iff.mp hk).1
      omega

theorem unloop_vs (g : BGraph) : (unloop g).vs = g.vs := rfl

theorem isCtx_unloop (g : BGraph) (w : Nat) : (unloop g).toGraph.isCtxVertex w = g.toGraph.isCtxVertex w := by
  rw [isCtxVertex_eq, isCtxVertex_eq]; rfl

theorem isSyn_unloop (g : BGraph) (w : Nat) : (unloop g).isSynV w = g.isSynV w := rfl

theorem LoopCtx.sameOld (h : LoopCtx C g gc v toDel sp) (u : Nat) (hu : u < g.vs.length) :
    SameVL (unloop (gc.delEdges toDel)) (unloop g) u u := by
  have := h.inv.old u hu
  unfold SameVL at this ⊢
  exact this.symm

theorem LoopCtx.isCtx_old (h : LoopCtx C g gc v toDel sp) (u : Nat) (hu : u < g.vs.length) :
    (gc.delEdges toDel).toGraph.isCtxVertex u = g.toGraph.isCtxVertex u := by
  have := isCtxVertex_sameL (h.inv.old u hu)
  rw [isCtxVertex_eq] at this ⊢
  exact this

theorem LoopCtx.syn_m (h : LoopCtx C g gc v toDel sp) (s : Split) (hs : s ∈ sp) : (gc.delEdges toDel).isSynV s.m = true := by
  obtain ⟨k, hk, hm⟩ := h.inv.m_of s hs
  rw [hm]
  exact h.inv.syn k (List.getElem?_eq_some_iff.mp hk).1

/-- "directly behind a context op" is kept at the old vertices -/
theorem old_ctx (h : LoopCtx C g gc v toDel sp) (a : Nat) (ha : a < g.vs.length) :
    (unloop g).toGraph.afterCtxE a = (unloop (gc.delEdges toDel)).toGraph.afterCtxE a := by
  have hcopy : ∀ s ∈ sp, copyE s ∈ (gc.delEdges toDel).es := fun s hs => (h.inv.mem_after _).mpr (Or.inr ⟨s, hs, Or.inl rfl⟩)
  have hout : ∀ s ∈ sp, outE v s ∈ (gc.delEdges toDel).es := fun s hs => (h.inv.mem_after _).mpr (Or.inr ⟨s, hs, Or.inr rfl⟩)
  have e1 : ∀ s : Split, (copyE s).src = s.e.src := fun s => by unfold copyE; cases s.isBreak <;> rfl
  have e2 : ∀ s : Split, (copyE s).dst = s.m := fun s => by unfold copyE; cases s.isBreak <;> rfl
  have e3 : ∀ s : Split, (outE v s).src = s.m := fun s => by unfold outE; cases s.isBreak <;> rfl
  -- the inserted vertex is a context op exactly if the source of the split edge is
  have hsame : ∀ s ∈ sp, (gc.delEdges toDel).toGraph.isCtxVertex s.e.src = (gc.delEdges toDel).toGraph.isCtxVertex s.m := by
    intro s hs
    have := synCtxOk_spec _ h.sctx (copyE s) (hcopy s hs) (by rw [e2]; exact h.syn_m s hs)
    rw [e1, e2] at this; exact this
  apply afterCtxE_congr
  · intro eU heU hd hc
    obtain ⟨x, hx, rfl⟩ := (mem_unloop g eU).mp heU
    obtain ⟨p, hp⟩ := List.getElem?_of_mem hx
    have hsrc := (edgesInRange_spec g h.range x hx).1
    have hc' : (gc.delEdges toDel).toGraph.isCtxVertex x.src = true := by
      rw [h.isCtx_old x.src hsrc, ← isCtx_unloop g]; exact hc
    by_cases hdel : p ∈ toDel
    · rw [h.inv.del] at hdel
      obtain ⟨s, hs, hsi⟩ := List.mem_map.mp hdel
      have hse : s.e = x := by
        have := h.inv.pos s hs
        rw [hsi, hp] at this
        simpa using this.symm
      refine ⟨unl (outE v s), (mem_unloop _ _).mpr ⟨outE v s, hout s hs, rfl⟩, ?_, ?_⟩
      · show (outE v s).dst = a
        rw [h.out_dst s hs, hse]; exact hd
      · show (unloop (gc.delEdges toDel)).toGraph.isCtxVertex (outE v s).src = true
        rw [isCtx_unloop, e3, ← hsame s hs, hse]; exact hc'
    · exact ⟨unl x, (mem_unloop _ _).mpr ⟨x, (h.inv.mem_after _).mpr (Or.inl ⟨p, hdel, hp⟩), rfl⟩, hd,
        by rw [isCtx_unloop]; exact hc'⟩
  · intro e' he' hd hc
    obtain ⟨x, hx, rfl⟩ := (mem_unloop _ e').mp he'
    have hc' : (gc.delEdges toDel).toGraph.isCtxVertex x.src = true := by rw [← isCtx_unloop]; exact hc
    have hd' : x.dst = a := hd
    rcases (h.inv.mem_after x).mp hx with ⟨p, _, hp⟩ | ⟨s, hs, rfl | rfl⟩
    · have hxg := List.mem_of_getElem? hp
      have hsrc := (edgesInRange_spec g h.range x hxg).1
      refine ⟨unl x, (mem_unloop g _).mpr ⟨x, hxg, rfl⟩, hd, ?_⟩
      show (unloop g).toGraph.isCtxVertex x.src = true
      rw [isCtx_unloop, ← h.isCtx_old x.src hsrc]; exact hc'
    · exfalso
      obtain ⟨k, _, hm⟩ := h.inv.m_of s hs
      have := e2 s
      omega
    · have hse := List.mem_of_getElem? (h.inv.pos s hs)
      have hsrc := (edgesInRange_spec g h.range s.e hse).1
      refine ⟨unl s.e, (mem_unloop g _).mpr ⟨s.e, hse, rfl⟩, ?_, ?_⟩
      · show s.e.dst = a
        rw [← h.out_dst s hs]; exact hd'
      · show (unloop g).toGraph.isCtxVertex s.e.src = true
        rw [isCtx_unloop, ← h.isCtx_old s.e.src hsrc, hsame s hs, ← e3 s]; exact hc'

end
end ESV.Decomp.Lp
