import ESV.Decomp.LpGuard
import ESV.Decomp.SwEndStep
/-
`stepPL` (pairs) and `stepL` (encoded states) are the same system; `stepL` is literally `stepS` on graphs without inserted
vertices; `stepPL_congr`: the step of a vertex commutes with a renaming of the vertices (`Sw.step_congr` plus the inserted
vertices, which read their lowest out-edge).
-/
namespace ESV.Decomp.Lp
open ESV.Beh ESV.Decomp ESV.Decomp.Opt ESV.Decomp.Gr ESV.Decomp.Sw

theorem isSynV_lt (g : BGraph) (v : Nat) (h : g.isSynV v = true) : v < g.vs.length := by
  unfold BGraph.isSynV at h
  split at h
  · rename_i x hx; exact (List.getElem?_eq_some_iff.mp hx).1
  · cases h

theorem isSynV_ge (g : BGraph) (v : Nat) (h : g.vs.length ≤ v) : g.isSynV v = false := by
  cases hv : g.isSynV v with
  | false => rfl
  | true => have := isSynV_lt g v hv; omega

theorem stepPL_of_not_syn (g : BGraph) (s : Nat × Nat) (h : g.isSynV s.1 = false) : g.stepPL s = g.stepPS s := by
  unfold BGraph.stepPL; simp [h]

theorem stepPL_syn (g : BGraph) (v j : Nat) (h : g.isSynV v = true) :
    g.stepPL (v, j) = if j = 0 then .silent (g.toGraph.fall v, 0) else .halt evStuck := by
  unfold BGraph.stepPL; simp [h]

theorem stepPL_clip (g : BGraph) (v j : Nat) : g.stepPL (min v (g.vs.length + 1), j) = g.stepPL (v, j) := by
  by_cases h : v ≤ g.vs.length + 1
  · rw [Nat.min_eq_left h]
  · have hm : min v (g.vs.length + 1) = g.vs.length + 1 := Nat.min_eq_right (by omega)
    rw [stepPL_of_not_syn g _ (by rw [hm]; exact isSynV_ge g _ (by omega)),
      stepPL_of_not_syn g _ (isSynV_ge g _ (by show g.vs.length ≤ v; omega))]
    exact stepPS_clip g v j

theorem stepL_enc (g : BGraph) (p : Nat × Nat) : g.stepL (g.enc p) = mapStep g.enc (g.stepPL p) := by
  unfold BGraph.stepL
  rw [dec_enc, stepPL_clip]

/-- pairs and encoded states: the same behaviour -/
theorem ltsPL_equiv_ltsL (g : BGraph) (p : Nat × Nat) : Equivalent g.ltsPL g.ltsL p (g.enc p) := by
  apply equiv_of_stepMap g.ltsPL g.ltsL g.enc (fun _ => True) ?_ p trivial
  intro a _
  refine ⟨stepL_enc g a, ?_⟩
  show allSucc (fun _ => True) (g.stepPL a)
  cases g.stepPL a <;> simp [allSucc]

/-- a pair-level equivalence between vertices is an equivalence of the encoded systems -/
theorem ltsL_of_ltsPL (g g' : BGraph) (v v' : Nat) (hv : v ≤ g.vs.length + 1) (hv' : v' ≤ g'.vs.length + 1)
    (h : Equivalent g.ltsPL g'.ltsPL (v, 0) (v', 0)) : Equivalent g.ltsL g'.ltsL v v' := by
  have h1 := ltsPL_equiv_ltsL g (v, 0)
  have h2 := ltsPL_equiv_ltsL g' (v', 0)
  rw [enc_vertex g v hv] at h1
  rw [enc_vertex g' v' hv'] at h2
  exact Equivalent.trans (Equivalent.trans h1.symm h) h2

/-! ## the bridge: without inserted vertices `stepL` is `stepS` -/

theorem noSyn_of (g : BGraph) (h : noSynthetic g = true) (v : Nat) : g.isSynV v = false := by
  unfold noSynthetic at h
  rw [List.all_eq_true] at h
  unfold BGraph.isSynV
  cases hx : g.vs[v]? with
  | none => rfl
  | some x => simpa using h x (List.mem_of_getElem? hx)

theorem stepPL_eq_stepPS (g : BGraph) (h : ∀ v, g.isSynV v = false) : g.stepPL = g.stepPS := by
  funext s; exact stepPL_of_not_syn g s (h _)

theorem stepL_eq_stepS (g : BGraph) (h : ∀ v, g.isSynV v = false) : g.stepL = g.stepS := by
  funext s
  unfold BGraph.stepL BGraph.stepS
  rw [stepPL_of_not_syn g _ (h _)]

/-! ## the step commutes with a renaming -/

/-- what a step reads of the attributes of a vertex -/
def coreL (x : BVertex) : VOp × Option Nat × List MOp × Bool × Option Nat × Bool :=
  (x.op, x.ifStart, x.ifOps, x.isNot, x.switchStart, x.synthetic)

def SameVL (g g' : BGraph) (a a' : Nat) : Prop := (g'.vs[a']?).map coreL = (g.vs[a]?).map coreL

theorem SameVL.of_eq {g g' : BGraph} {a a' : Nat} (h : g'.vs[a']? = g.vs[a]?) : SameVL g g' a a' := by
  unfold SameVL; rw [h]

theorem SameVL.sameV {g g' : BGraph} {a a' : Nat} (h : SameVL g g' a a') : SameV g g' a a' := by
  unfold SameVL at h
  unfold SameV
  cases h1 : g'.vs[a']? <;> cases h2 : g.vs[a]? <;> rw [h1, h2] at h <;> simp [coreL, core] at h ⊢
  exact ⟨h.1, h.2.1, h.2.2.1, h.2.2.2.1, h.2.2.2.2.1⟩

theorem SameVL.syn {g g' : BGraph} {a a' : Nat} (h : SameVL g g' a a') : g'.isSynV a' = g.isSynV a := by
  unfold SameVL at h
  unfold BGraph.isSynV
  cases h1 : g'.vs[a']? <;> cases h2 : g.vs[a]? <;> rw [h1, h2] at h <;> simp [coreL] at h ⊢
  exact h.2.2.2.2.2

theorem syn_levelRead (g : BGraph) (a : Nat) (_hsyn : g.isSynV a = true) (hk : g.isIfV a = false ∧ g.isSwitchV a = false) :
    g.levelRead a = true := by
  unfold BGraph.levelRead; simp [hk.1, hk.2]

variable {g g' : BGraph} {τ : Nat → Nat}

/-- `Sw.step_congr` for `stepPL`; an inserted vertex must be neither an if nor a switch (it never is: `synKindOk`) -/
theorem stepPL_congr (hdet : Det g) (hm : StateMap g g' τ) (a j : Nat)
    (hvs : SameVL g g' a (τ a))
    (hout : g.vs[a]? = none → ((τ a == g'.vs.length) = (a == g.vs.length)))
    (hc : EdgeCorr g g' τ a)
    (hctx : ∀ o, (g.vs[a]?).map (·.op) = some (.item (.op o)) → g.isSynV a = false →
      g'.toGraph.afterCtxE (τ a) = g.toGraph.afterCtxE a)
    (hkind : g.isSynV a = true → g.isIfV a = false ∧ g.isSwitchV a = false) :
    g'.stepPL (τ a, j) = mapStep (pmap τ) (g.stepPL (a, j)) := by
  cases hs : g.isSynV a with
  | true =>
    rw [stepPL_syn g a j hs, stepPL_syn g' (τ a) j (by rw [hvs.syn]; exact hs)]
    split
    · simp only [mapStep, pmap]
      rw [fall_congr hdet (syn_levelRead g a hs (hkind hs)) hc hm.fell]
    · rfl
  | false =>
    rw [stepPL_of_not_syn g (a, j) hs, stepPL_of_not_syn g' (τ a, j) (by rw [hvs.syn]; exact hs)]
    exact step_congr hdet hm a j hvs.sameV hout hc (fun o ho => hctx o ho hs)

end ESV.Decomp.Lp
