import ESV.Beh.Lts
/-
A general simulation lemma for Prop-valued relations: the left system is followed one step at a time, the
right system answers with finitely many silent steps (possibly none) up to the matching observable step.
Silent cycles on the left are allowed (the right side may stay where it is).
-/
namespace ESV.Decomp.Bisim
open ESV.Beh

variable {ε : Type}

/-- `j` silent steps lead from `s` to `t` -/
def silents (L : LTS ε) : Nat → L.σ → L.σ → Prop
  | 0, s, t => s = t
  | j+1, s, t => ∃ s', L.step s = .silent s' ∧ silents L j s' t

theorem silents_run (L : LTS ε) (ω : Nat → Bool) :
    ∀ (j : Nat) (s t : L.σ), silents L j s t → ∀ n k, run L ω (j + n) k s = run L ω n k t := by
  intro j
  induction j with
  | zero => intro s t h n k; simp [silents] at h; subst h; simp
  | succ j ih =>
    intro s t h n k
    obtain ⟨s', h1, h2⟩ := h
    have : j + 1 + n = (j + n) + 1 := by omega
    rw [this]
    simp only [run, h1]
    exact ih s' t h2 n k

/-- what the right system has to answer to one step of the left system -/
def StepMatch (L₁ L₂ : LTS ε) (R : L₁.σ → L₂.σ → Prop) (a : L₁.σ) (b : L₂.σ) : Prop :=
  match L₁.step a with
  | .silent a' => ∃ j b', silents L₂ j b b' ∧ R a' b'
  | .emit e a' => ∃ f b', settle L₂ f b = some (.emit e b') ∧ R a' b'
  | .test e y n => ∃ f y' n', settle L₂ f b = some (.test e y' n') ∧ R y y' ∧ R n n'
  | .halt e => ∃ f, settle L₂ f b = some (.halt e)

theorem settle_emit {L : LTS ε} {s : L.σ} {e : ε} {n : L.σ} (f : Nat) (h : L.step s = .emit e n) :
    settle L (f+1) s = some (.emit e n) := by
  unfold settle; rw [h]

theorem settle_test {L : LTS ε} {s : L.σ} {e : ε} {y n : L.σ} (f : Nat) (h : L.step s = .test e y n) :
    settle L (f+1) s = some (.test e y n) := by
  unfold settle; rw [h]

theorem settle_halt {L : LTS ε} {s : L.σ} {e : ε} (f : Nat) (h : L.step s = .halt e) :
    settle L (f+1) s = some (.halt e) := by
  unfold settle; rw [h]

theorem settle_silent {L : LTS ε} {s s' : L.σ} (f : Nat) (h : L.step s = .silent s') :
    settle L (f+1) s = settle L f s' := by
  conv => lhs; unfold settle
  rw [h]

theorem stepMatch_silent {L₁ L₂ : LTS ε} {R : L₁.σ → L₂.σ → Prop} {a : L₁.σ} {b : L₂.σ} {a' : L₁.σ}
    (hs : L₁.step a = .silent a') (h : ∃ j b', silents L₂ j b b' ∧ R a' b') : StepMatch L₁ L₂ R a b := by
  unfold StepMatch; rw [hs]; exact h

theorem stepMatch_emit {L₁ L₂ : LTS ε} {R : L₁.σ → L₂.σ → Prop} {a : L₁.σ} {b : L₂.σ} {e : ε} {a' : L₁.σ}
    (hs : L₁.step a = .emit e a') (h : ∃ f b', settle L₂ f b = some (.emit e b') ∧ R a' b') :
    StepMatch L₁ L₂ R a b := by
  unfold StepMatch; rw [hs]; exact h

theorem stepMatch_test {L₁ L₂ : LTS ε} {R : L₁.σ → L₂.σ → Prop} {a : L₁.σ} {b : L₂.σ} {e : ε} {y n : L₁.σ}
    (hs : L₁.step a = .test e y n)
    (h : ∃ f y' n', settle L₂ f b = some (.test e y' n') ∧ R y y' ∧ R n n') : StepMatch L₁ L₂ R a b := by
  unfold StepMatch; rw [hs]; exact h

theorem stepMatch_halt {L₁ L₂ : LTS ε} {R : L₁.σ → L₂.σ → Prop} {a : L₁.σ} {b : L₂.σ} {e : ε}
    (hs : L₁.step a = .halt e) (h : ∃ f, settle L₂ f b = some (.halt e)) : StepMatch L₁ L₂ R a b := by
  unfold StepMatch; rw [hs]; exact h

theorem sim_of_stepMatch (L₁ L₂ : LTS ε) (R : L₁.σ → L₂.σ → Prop)
    (h : ∀ a b, R a b → StepMatch L₁ L₂ R a b) :
    ∀ a b, R a b → Sim L₁ L₂ a b := by
  intro a b hab ω n
  induction n generalizing a b with
  | zero =>
    intro k
    refine ⟨0, ?_, ?_⟩
    · simp [run]
    · simp [run]
  | succ n ih =>
    intro k
    have hm := h a b hab
    unfold StepMatch at hm
    cases hst : L₁.step a with
    | silent a' =>
      rw [hst] at hm
      obtain ⟨j, b', hs, hr⟩ := hm
      obtain ⟨m, p1, p2⟩ := ih a' b' hr k
      refine ⟨j + m, ?_, ?_⟩
      · rw [silents_run L₂ ω j b b' hs m k]; simp only [run, hst]; exact p1
      · rw [silents_run L₂ ω j b b' hs m k]; simp only [run, hst]; exact p2
    | emit e a' =>
      rw [hst] at hm
      obtain ⟨f, b', hs, hr⟩ := hm
      obtain ⟨j2, _, b2⟩ := settle_run L₂ ω f b _ hs
      obtain ⟨m, p1, p2⟩ := ih a' b' hr k
      refine ⟨j2 + 1 + m, ?_, ?_⟩
      · rw [b2 m k]; simp only [run, hst, afterHead]
        exact List.prefix_cons_inj _ |>.mpr p1
      · rw [b2 m k]; simp only [run, hst, afterHead]; intro hh
        obtain ⟨q1, q2⟩ := p2 hh
        exact ⟨q1, by rw [q2]⟩
    | test e y no =>
      rw [hst] at hm
      obtain ⟨f, y', no', hs, hy, hno⟩ := hm
      obtain ⟨j2, _, b2⟩ := settle_run L₂ ω f b _ hs
      have hin : R (if ω k then y else no) (if ω k then y' else no') := by
        cases ω k <;> simp [hy, hno]
      obtain ⟨m, p1, p2⟩ := ih _ _ hin (k+1)
      refine ⟨j2 + 1 + m, ?_, ?_⟩
      · rw [b2 m k]; simp only [run, hst, afterHead]
        exact List.prefix_cons_inj _ |>.mpr p1
      · rw [b2 m k]; simp only [run, hst, afterHead]; intro hh
        obtain ⟨q1, q2⟩ := p2 hh
        exact ⟨q1, by rw [q2]⟩
    | halt e =>
      rw [hst] at hm
      obtain ⟨f, hs⟩ := hm
      obtain ⟨j2, _, b2⟩ := settle_run L₂ ω f b _ hs
      refine ⟨j2 + 1, ?_, ?_⟩
      · have := b2 0 k; simp at this; rw [this]; simp [run, hst, afterHead]
      · have := b2 0 k; simp at this; rw [this]; simp [run, hst, afterHead]

/-- both directions at once: a relation and its converse (possibly enlarged) are step-matched -/
theorem equivalent_of_stepMatch (L₁ L₂ : LTS ε) (R : L₁.σ → L₂.σ → Prop) (R' : L₂.σ → L₁.σ → Prop)
    (h₁ : ∀ a b, R a b → StepMatch L₁ L₂ R a b)
    (h₂ : ∀ b a, R' b a → StepMatch L₂ L₁ R' b a)
    (a : L₁.σ) (b : L₂.σ) (hab : R a b) (hba : R' b a) : Equivalent L₁ L₂ a b :=
  ⟨sim_of_stepMatch L₁ L₂ R h₁ a b hab, sim_of_stepMatch L₂ L₁ R' h₂ b a hba⟩

end ESV.Decomp.Bisim
