import ESV.Decomp.SwLowHigh
/-
The fuel of the case loop (`caseLoop`, `fuel = |E| + 2`) is never the reason for an answer: a round that goes on (the case
vertex has an else edge that is another edge than its case edge) appends one edge and deletes two, so the graph gets one
edge smaller; a round without else edge ends the loop.  I.e. the Python `while` loop terminates within `|E| + 1` rounds.
-/
namespace ESV.Decomp.Sw
open ESV.Beh ESV.Decomp

theorem filter_one {α : Type} (b : Nat) : ∀ (M : List (α × Nat)), (M.map (·.2)).Nodup → (∃ x, (x, b) ∈ M) →
    (M.filter (fun p => p.2 != b)).length + 1 = M.length
  | [], _, ⟨_, hx⟩ => by cases hx
  | p :: ps, hn, ⟨x, hx⟩ => by
    simp only [List.map_cons, List.nodup_cons] at hn
    by_cases hp : p.2 = b
    · have hall : ∀ q ∈ ps, (q.2 != b) = true := by
        intro q hq
        have : q.2 ≠ p.2 := fun h => hn.1 (h ▸ List.mem_map.mpr ⟨q, hq, rfl⟩)
        simpa [hp] using this
      rw [List.filter_cons_of_neg (by simp [hp]), List.filter_eq_self.mpr hall]
      simp
    · have hx' : (x, b) ∈ ps := by
        rcases List.mem_cons.mp hx with h | h
        · exact absurd (by rw [← h]) hp
        · exact h
      rw [List.filter_cons_of_pos (by simpa using hp)]
      have := filter_one b ps hn.2 ⟨x, hx'⟩
      simp only [List.length_cons]
      omega

theorem delEdges_two_length (g : BGraph) (a b : Nat) (hab : a ≠ b) (ha : a < g.es.length) (hb : b < g.es.length) :
    (g.delEdges [a, b]).es.length + 2 = g.es.length := by
  unfold BGraph.delEdges
  simp only [List.length_map]
  have hf : (g.es.zipIdx.filter fun p => !([a, b].contains p.2)) =
      (g.es.zipIdx.filter fun p => p.2 != a).filter fun p => p.2 != b := by
    rw [List.filter_filter]
    congr 1
    funext p
    have hc : [a, b].contains p.2 = (decide (p.2 = a) || decide (p.2 = b)) := by
      simp
    rw [hc]
    by_cases h1 : p.2 = a <;> by_cases h2 : p.2 = b <;> simp [h1, h2, bne]
  rw [hf]
  have hnd : (g.es.zipIdx.map (·.2)).Nodup := by
    have : g.es.zipIdx.map (·.2) = g.es.zipIdx.map Prod.snd := rfl
    rw [this, List.zipIdx_map_snd]; exact List.nodup_range' 1
  have h1 := filter_one a g.es.zipIdx hnd ⟨g.es[a], List.mem_zipIdx_iff_getElem?.mpr (List.getElem?_eq_getElem ha)⟩
  have hnd2 : ((g.es.zipIdx.filter fun p => p.2 != a).map (·.2)).Nodup :=
    List.Nodup.sublist (List.Sublist.map _ List.filter_sublist) hnd
  have h2 := filter_one b (g.es.zipIdx.filter fun p => p.2 != a) hnd2
    ⟨g.es[b], List.mem_filter.mpr ⟨List.mem_zipIdx_iff_getElem?.mpr (List.getElem?_eq_getElem hb), by simpa using Ne.symm hab⟩⟩
  simp only [List.length_zipIdx] at h1
  omega

theorem lowHigh_lt (g : BGraph) (w lo hi : Nat) (h : g.lowHigh w = some (lo, hi)) : lo < g.es.length ∧ hi < g.es.length := by
  obtain ⟨el, eh, h1, h2, _⟩ := lowHigh_spec g w lo hi h
  exact ⟨(List.getElem?_eq_some_iff.mp h1).1, (List.getElem?_eq_some_iff.mp h2).1⟩

/-- **the fuel of `caseLoop` is never the reason for an answer** -/
theorem caseLoop_never_hang : ∀ (fuel : Nat) (g : BGraph) (v : Nat) (cases : List String) (next : Option Nat) (i : Nat)
    (delH : List Nat), (next = none → 1 ≤ fuel) → (next ≠ none → g.es.length + 2 ≤ fuel) →
    BGraph.caseLoop fuel g v cases next i delH ≠ .error "Hang" := by
  intro fuel
  induction fuel with
  | zero =>
    intro g v cases next i delH h1 h2
    cases next with
    | none => have := h1 rfl; omega
    | some w => have := h2 (by simp); omega
  | succ fuel ih =>
    intro g v cases next i delH h1 h2
    unfold BGraph.caseLoop
    cases next with
    | none => simp
    | some w =>
      have hlen := h2 (by simp)
      simp only
      split
      · simp
      · cases hlh : g.lowHigh w with
        | none => simp
        | some p =>
          obtain ⟨lo, hi⟩ := p
          simp only
          cases (g.vs[w]?).bind BGraph.rootOfS with
          | none => simp
          | some r =>
            cases heh : g.es[hi]? with
            | none => simp
            | some eh =>
              cases hel : g.es[lo]? with
              | none => simp
              | some el =>
                simp only
                obtain ⟨hlo, hhi⟩ := lowHigh_lt g w lo hi hlh
                split
                · exact ih _ v cases none (i + 1) _ (fun _ => by omega) (fun h => absurd rfl h)
                · rename_i hne
                  refine ih _ v cases (some el.dst) (i + 1) _ (fun h => by cases h) (fun _ => ?_)
                  have hne' : hi ≠ lo := fun h => hne (by simp [h])
                  have := delEdges_two_length (g.addEdge (BGraph.caseEdge v i r eh)) hi lo hne'
                    (by rw [addEdge_es]; simp; omega) (by rw [addEdge_es]; simp; omega)
                  rw [addEdge_es] at this
                  simp only [List.length_append, List.length_cons, List.length_nil] at this
                  omega

/-- … in particular with the fuel `casePart` supplies -/
theorem casePart_never_hang (g : BGraph) (v n : Nat) (cases : List String) (delH : List Nat) :
    g.casePart v n cases delH ≠ .error "Hang" := by
  unfold BGraph.casePart
  cases g.outEs v with
  | nil => simp
  | cons p rest =>
    obtain ⟨i0, e0⟩ := p
    simp only
    have h := caseLoop_never_hang (g.es.length + 2) (g.setSwitchStart v n) v cases (some e0.dst) 0 delH (fun h => by cases h)
      (fun _ => by simp)
    cases hl : BGraph.caseLoop (g.es.length + 2) (g.setSwitchStart v n) v cases (some e0.dst) 0 delH with
    | error e =>
      simp only
      intro heq
      rw [hl] at h
      exact h (by simpa using heq)
    | ok res =>
      obtain ⟨g1, next, dH⟩ := res
      simp only
      -- the else part raises StopIteration at most
      unfold BGraph.elsePart
      cases next with
      | none => simp
      | some x =>
        simp only
        cases (g1.outEs v).find? (fun p => p.2.switchOps.isEmpty) with
        | none => simp
        | some q =>
          obtain ⟨i, e⟩ := q
          simp only
          by_cases hd : (e.dst != x) = true
          · rw [if_pos hd]; simp
          · rw [if_neg hd]; simp

end ESV.Decomp.Sw
