import ESV.Decomp.WrLfPlain
/-
Context ops: the pair "context op, op performed in the context" on the graph against `Op<actor x>(…)` / `with (actor x) { … }`
(`ctx_pair_eq`), and the block of a `with`: exactly one statement (`once_block`).
-/
namespace ESV.Decomp.Wr
open ESV ESV.Beh ESV.Decomp ESV.Decomp.BGraph ESV.Decomp.Opt ESV.Comp

/-- a context op and the op behind it against the statement `ctx c [p] (op …)` -/
theorem ctx_pair_eq (g : BGraph) (v : Nat) (x : BVertex) (o : MOp) (hx : g.vs[v]? = some x) (hop : x.op = .item (.op o))
    (hs : x.synthetic = false) (hsw : x.switchStart = none) (hkind : simpleKind o.name = .ctx)
    (q : Nat × BEdge) (hes : g.outEs v = [q]) (tx : BVertex) (o' : MOp) (htx : g.vs[q.2.dst]? = some tx)
    (htop : tx.op = .item (.op o')) (hts : tx.synthetic = false) (htsw : tx.switchStart = none)
    (n : Option Nat) (hn : exits01 g q.2.dst = .ok n) (labs : List (String × Nat)) (N : List Src.Node) (e m : Nat)
    (hS : SpecS labs N (.ctx o.name o.params (.op o'.name o'.params)) e m) (h1 : ∀ w, n = some w → EQ g N m (w, 0))
    (h0 : n = none → needsDummy g v = true → EQ g N m (st g none)) : EQ g N e (v, 0) := by
  have hm : EQ g N m (st g n) := by
    cases n with
    | some w => exact h1 w rfl
    | none => exact h0 rfl (needsDummy_ctx g v x o hx hop hs hsw hkind)
  cases hS with
  | ctx hN hI =>
    cases hI with
    | op hN' =>
      have hef := endsFlow_of_ctx o.name hkind
      have h1 := stepPL_op g v x o hx hop hs hsw
      rw [hef] at h1
      simp only [Bool.false_and, Bool.false_eq_true, if_false] at h1
      rw [fall_single g v q hes] at h1
      have hac := afterCtxE_of_edge g v q.2.dst x o hx hop (isCtx_of_ctx o.name hkind) q hes rfl
      have h3 := stepPL_op g q.2.dst tx o' htx htop hts htsw
      rw [hac] at h3
      simp only [Bool.not_true, Bool.and_false, Bool.false_eq_true, if_false] at h3
      rw [exits01_fall g q.2.dst n hn] at h3
      exact Equivalent.of_emit (nodeStep_of hN) h1 (Equivalent.of_emit (nodeStep_of hN') h3 hm)

/-- the block of `with (…) { … }` (`check_end_block=Once()`, `disallow_nested=True`) in front of an assignment: the one statement,
and the block returns what follows it -/
theorem once_block (perf : String) (g : BGraph) (fuel ind t : Nat) (tx : BVertex) (o' : MOp) (vsb : Option Nat) (σ : WSt) (rb : BRes)
    (htx : g.vs[t]? = some tx) (htop : tx.op = .item (.op o')) (hts : tx.synthetic = false) (htsw : tx.switchStart = none)
    (hkind : simpleKind o'.name = .flag) (hid : plainIdOk perf o' = true)
    (hw : wBlock fuel g perf ind .once vsb false (some t) true [] none {} [] σ = .ok rb) :
    rb.out = [.op o'.name o'.params] ∧ exits01 g t = .ok rb.next := by
  have hpk : pyKind tx = .plain o' := by unfold pyKind isJumpObj; simp [hts, htop, htsw]
  have hhi : hinfoOf tx = .ok {} := by unfold hinfoOf; rw [hpk]
  cases fuel with
  | zero => rw [wBlock.eq_def] at hw; cases hw
  | succ f =>
    rw [wBlock.eq_def] at hw
    have hne : (SimpleKind.flag != SimpleKind.ctx) = true := rfl
    simp only [List.contains_nil, Bool.false_eq_true, if_false, htx, hhi, EndCheck.goesOn, Bool.not_true, EndCheck.disallowNested,
      hpk, hkind, hne, Bool.and_false] at hw
    cases hr1 : wVertex f g perf ind t tx vsb true false σ with
    | error e => simp [hr1] at hw
    | ok r1 =>
      simp only [hr1] at hw
      -- the handler of the assignment
      have h1 : r1.out = [.op o'.name o'.params] ∧ r1.eoj = false ∧ exits01 g t = .ok r1.next := by
        cases f with
        | zero => rw [wVertex.eq_def] at hr1; cases hr1
        | succ f' =>
          rw [wVertex] at hr1
          simp only [hpk] at hr1
          cases f' with
          | zero => rw [wPlain.eq_def] at hr1; cases hr1
          | succ f'' =>
            rw [wPlain] at hr1
            simp only [hkind] at hr1
            cases hfl : lowerFlag perf o' with
            | error e => simp [hfl] at hr1
            | ok sb =>
              obtain ⟨s, b⟩ := sb
              simp only [hfl] at hr1
              have hs' : s = .op o'.name o'.params := by
                simp only [plainIdOk, hkind, hfl] at hid
                cases s <;> simp at hid
                rw [hid.1, hid.2]
              cases hn : exits01 g t with
              | error e => simp [hn] at hr1
              | ok n =>
                simp only [hn, Except.ok.injEq] at hr1
                subst hr1
                exact ⟨by rw [hs'], rfl, rfl⟩
      obtain ⟨hout1, heoj1, hex1⟩ := h1
      -- the second round of the loop: `Once()` says stop (or there is no vertex left)
      cases f with
      | zero => rw [wVertex.eq_def] at hr1; cases hr1
      | succ f' =>
        rw [wBlock.eq_def] at hw
        cases hn1 : r1.next with
        | none =>
          simp only [hn1, EndCheck.disallowNested, Bool.not_true, Bool.and_false, Bool.false_eq_true, if_false, Except.ok.injEq] at hw
          subst hw
          exact ⟨by simp [hout1], by rw [hex1, hn1]⟩
        | some w =>
          simp only [hn1] at hw
          split at hw
          · cases hw
          · cases hxw : g.vs[w]? with
            | none => simp [hxw] at hw
            | some xw =>
              simp only [hxw] at hw
              cases hhw : hinfoOf xw with
              | error e => simp [hhw] at hw
              | ok h' =>
                simp only [hhw, EndCheck.goesOn, Bool.not_false, if_true, Option.isNone_some, Bool.false_and, Bool.false_eq_true,
                  if_false, Except.ok.injEq] at hw
                subst hw
                exact ⟨by simp [hout1], by rw [hex1, hn1]⟩

end ESV.Decomp.Wr
