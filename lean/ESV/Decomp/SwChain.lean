import ESV.Decomp.SwLowHigh
/-
The case chain behind a switch op: what is recorded about every case vertex the loop of the first part merges away
(`CElem`, `ElemOk`, `Chain`), what the graph looks like in the middle of the loop (`CInv`), and the specifications of the
decidable checks `caseVertexOk` / `inDead`.
-/
namespace ESV.Decomp.Sw
open ESV.Beh ESV.Decomp ESV.Decomp.Opt ESV.Decomp.Gr

/-- a case vertex that has been merged: the vertex, its root op, its case edge, the target of its else edge -/
structure CElem where
  w : Nat
  r : MOp
  eh : BEdge
  nx : Option Nat

/-- a plain test: a label jump without marker whose root is not Jump -/
def TestV (g : BGraph) (w : Nat) (r : MOp) : Prop :=
  ∃ x l c, g.vs[w]? = some x ∧ x.op = .item (.ljump r l c) ∧ x.ifStart = none ∧ x.ifOps = [] ∧ isJump r.name = false

def nxTarget (g : BGraph) : Option Nat → Nat
  | some x => x
  | none => g.vs.length

structure ElemOk (g : BGraph) (v : Nat) (del : List Nat) (cases : List String) (c : CElem) : Prop where
  test : TestV g c.w c.r
  isCase : cases.contains c.r.name = true
  nz : c.w ≠ 0
  alive : c.w ∉ del
  nev : c.w ≠ v
  ehMem : c.eh ∈ g.es
  ehSrc : c.eh.src = c.w
  ehElse : c.eh.isElse = false
  jump : g.toGraph.jumpTarget c.w = c.eh.dst
  fall : g.toGraph.fallOfJump c.w = nxTarget g c.nx
  nxEdge : ∀ x, c.nx = some x → ∃ el ∈ g.es, el.src = c.w ∧ el.dst = x

/-- the chain so far: `first` = where the first out-edge of the switch op leads, `next` = `next_vertex` -/
structure Chain (g : BGraph) (v n : Nat) (del : List Nat) (cases : List String) (first : Nat) (ch : List CElem)
    (next : Option Nat) : Prop where
  elem : ∀ c ∈ ch, ElemOk g v del cases c
  inn : ∀ c ∈ ch, ∀ e ∈ g.es, e.dst = c.w →
    e.src ∈ del ∨ e.src ∈ ch.map (·.w) ∨ (g.setSwitchStart v n).ignoredE e = true
  tgt : ∀ c ∈ ch, ∀ c' ∈ ch, c.eh.dst ≠ c'.w
  nodup : (ch.map (·.w)).Nodup
  link : ∀ j c c', ch[j]? = some c → ch[j+1]? = some c' → c.nx = some c'.w
  head : ∀ c, ch[0]? = some c → c.w = first
  last : next = (match ch.getLast? with
    | some c => c.nx
    | none => some first)

/-- the graph in the middle of the case loop, relative to the graph `g` the first part started with -/
structure CInv (g : BGraph) (v n : Nat) (gc : BGraph) (ch : List CElem) : Prop where
  vs : gc.vs = (g.setSwitchStart v n).vs
  up : ∀ x ∈ gc.es, x ∈ g.es ∨ ∃ j c, ch[j]? = some c ∧ x = BGraph.caseEdge v j c.r c.eh
  keep : ∀ e ∈ g.es, (∀ c ∈ ch, e.src ≠ c.w) → e ∈ gc.es
  copies : ∀ j c, ch[j]? = some c → BGraph.caseEdge v j c.r c.eh ∈ gc.es

theorem testV_kind (g : BGraph) (w : Nat) (r : MOp) (h : TestV g w r) :
    g.isIfV w = false ∧ g.isSwitchV w = false ∧ g.levelRead w = true := by
  obtain ⟨x, l, c, h1, h2, h3, _⟩ := h
  have a : g.isIfV w = false := by unfold BGraph.isIfV BGraph.isIfVertex; rw [h1]; simp [h2, h3]
  have b : g.isSwitchV w = false := by unfold BGraph.isSwitchV BGraph.isSwitchVertex; rw [h1]; simp [h2]
  exact ⟨a, b, levelRead_of a b⟩

theorem testV_root (g : BGraph) (w : Nat) (r : MOp) (h : TestV g w r) : (g.vs[w]?).bind BGraph.rootOfS = some r := by
  obtain ⟨x, l, c, h1, h2, _, h4, _⟩ := h
  rw [h1]
  simp only [Option.bind_some]
  unfold BGraph.rootOfS
  rw [h2, h4]

theorem caseVertexOk_spec (g : BGraph) (del : List Nat) (w : Nat) (h : g.caseVertexOk del w = true) :
    w ≠ 0 ∧ w ∉ del ∧ (∃ r, TestV g w r) ∧ ∀ e ∈ g.es, e.src = w → e.isElse = false := by
  unfold BGraph.caseVertexOk at h
  simp only [Bool.and_eq_true, bne_iff_ne, ne_eq, Bool.not_eq_true', List.all_eq_true, Bool.or_eq_true,
    beq_eq_false_iff_ne] at h
  obtain ⟨⟨⟨h0, hd⟩, hv⟩, hout⟩ := h
  refine ⟨h0, ?_, ?_, ?_⟩
  · intro hm; rw [List.contains_iff_mem.mpr hm] at hd; cases hd
  · split at hv
    · rename_i nm r l c a4 a6 a7 a8 b1 b2 b3 b4 b5 b6 b7 heq
      exact ⟨r, _, l, c, heq, rfl, rfl, rfl, by simpa using hv⟩
    · cases hv
  · intro e he hs
    rcases hout e he with h1 | h1
    · exact absurd hs h1
    · exact h1

theorem inDead_spec (g : BGraph) (del : List Nat) (w : Nat) (h : g.inDead del w = true) :
    ∀ e ∈ g.es, e.dst = w → e.src ∈ del ∨ g.ignoredE e = true := by
  intro e he hd
  unfold BGraph.inDead at h
  rw [List.all_eq_true] at h
  have := h e he
  simp only [Bool.or_eq_true, Bool.not_eq_true', beq_eq_false_iff_ne] at this
  rcases this with (h1 | h1) | h1
  · exact absurd hd h1
  · exact Or.inl (List.contains_iff_mem.mp h1)
  · exact Or.inr h1

/-- the level-based reading of a plain test whose out-edges are the same SET in `gc` and `g`, from what
`find_lowest_and_highest_out_edge` finds in `gc` -/
theorem read_of_lowHigh (g gc : BGraph) (hdet : Det g) (w : Nat) (r : MOp) (ht : TestV g w r)
    (h1 : ∀ x ∈ gc.es, x.src = w → x ∈ g.es) (h2 : ∀ e ∈ g.es, e.src = w → e ∈ gc.es)
    (lo hi : Nat) (hlh : gc.lowHigh w = some (lo, hi)) :
    ∃ el eh, gc.es[lo]? = some el ∧ gc.es[hi]? = some eh ∧ el ∈ g.es ∧ eh ∈ g.es ∧ el.src = w ∧ eh.src = w ∧
      g.toGraph.jumpTarget w = eh.dst ∧
      g.toGraph.fallOfJump w = (if lo = hi then g.vs.length else el.dst) := by
  obtain ⟨el, eh, hel, heh, hsl, hsh, hmm, hne⟩ := lowHigh_spec gc w lo hi hlh
  have hlr := (testV_kind g w r ht).2.2
  have elg : el ∈ g.es := h1 el (List.mem_of_getElem? hel) hsl
  have ehg : eh ∈ g.es := h1 eh (List.mem_of_getElem? heh) hsh
  refine ⟨el, eh, hel, heh, elg, ehg, hsl, hsh, ?_, ?_⟩
  · unfold Graph.jumpTarget
    rcases highest_char g w with ⟨_, hno⟩ | ⟨b, hb, hsb, hh, hmax⟩
    · exact absurd hsh (hno eh ehg)
    · rw [hh]
      have l1 := hmax eh ehg hsh
      have l2 := (hmm b (h2 b hb hsb) hsb).2
      exact hdet.lvl b hb eh ehg (by rw [hsb, hsh]) (by rw [hsb]; exact hlr) (by omega)
  · unfold Graph.fallOfJump
    rcases lowest_char g w with ⟨_, hno⟩ | ⟨b, hb, hsb, hl, hmin⟩
    · exact absurd hsl (hno el elg)
    · rcases highest_char g w with ⟨_, hno⟩ | ⟨b', hb', hsb', hh, hmax⟩
      · exact absurd hsh (hno eh ehg)
      · rw [hl, hh, toGraph_fellOff]
        have l1 := hmin el elg hsl
        have l2 := (hmm b (h2 b hb hsb) hsb).1
        have l3 := hmax eh ehg hsh
        have l4 := (hmm b' (h2 b' hb' hsb') hsb').2
        have eb : b.level = el.level := by omega
        have eb' : b'.level = eh.level := by omega
        show (if b.level < b'.level then b.dst else g.vs.length) = _
        by_cases hlohi : lo = hi
        · rw [if_pos hlohi]
          subst hlohi
          rw [hel] at heh
          have : el = eh := by simpa using heh
          rw [if_neg (by rw [eb, eb', this]; omega)]
        · rw [if_neg hlohi, if_pos (by rw [eb, eb']; exact hne hlohi)]
          exact hdet.lvl b hb el elg (by rw [hsb, hsl]) (by rw [hsb]; exact hlr) eb

end ESV.Decomp.Sw
