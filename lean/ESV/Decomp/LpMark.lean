import ESV.Decomp.LpSem
/-
Markers that no step reads: two graphs with the same edges whose vertices agree on what a step reads (`coreL`: op, if marker, multi-if
ops, `is_not`, switch marker, inserted flag) have LITERALLY the same step function.  `build_switch_fallthroughs` is such a change.
-/
namespace ESV.Decomp.Lp
open ESV.Beh ESV.Decomp ESV.Decomp.Opt ESV.Decomp.Gr ESV.Decomp.Sw

structure SameCore (g g' : BGraph) : Prop where
  es : g'.es = g.es
  vs : ∀ u : Nat, (g'.vs[u]?).map coreL = (g.vs[u]?).map coreL

variable {g g' : BGraph}

theorem SameCore.len (h : SameCore g g') : g'.vs.length = g.vs.length := by
  rcases Nat.lt_trichotomy g'.vs.length g.vs.length with hlt | heq | hgt
  · have := h.vs g'.vs.length
    rw [List.getElem?_eq_none (Nat.le_refl _), List.getElem?_eq_getElem hlt] at this
    simp at this
  · exact heq
  · have := h.vs g.vs.length
    rw [List.getElem?_eq_none (Nat.le_refl _), List.getElem?_eq_getElem hgt] at this
    simp at this

theorem SameCore.toGraph (h : SameCore g g') : g'.toGraph = g.toGraph := by
  unfold BGraph.toGraph
  rw [h.es]
  congr 1
  apply List.ext_getElem?
  intro u
  have := h.vs u
  simp only [List.getElem?_map]
  cases h1 : g'.vs[u]? <;> cases h2 : g.vs[u]? <;> rw [h1, h2] at this <;> simp [coreL] at this ⊢
  exact this.1

theorem SameCore.outEs (h : SameCore g g') : g'.outEs = g.outEs := by
  funext v; unfold BGraph.outEs; rw [h.es]

theorem SameCore.isSynV (h : SameCore g g') (a : Nat) : g'.isSynV a = g.isSynV a :=
  (SameVL.syn (g := g) (g' := g') (a := a) (a' := a) (h.vs a))

theorem SameCore.isIfV (h : SameCore g g') (a : Nat) : g'.isIfV a = g.isIfV a :=
  isIfV_same (SameVL.sameV (g := g) (g' := g') (a := a) (a' := a) (h.vs a))

theorem SameCore.isSwitchV (h : SameCore g g') (a : Nat) : g'.isSwitchV a = g.isSwitchV a :=
  isSwitchV_same (SameVL.sameV (g := g) (g' := g') (a := a) (a' := a) (h.vs a))

theorem SameCore.switchStep (h : SameCore g g') (a j : Nat) (o : MOp) : g'.switchStep a j o = g.switchStep a j o := by
  unfold BGraph.switchStep BGraph.switchNext BGraph.nextTest BGraph.caseTriples BGraph.switchElse BGraph.firstElse
  rw [h.toGraph, h.outEs]

theorem SameCore.ifStep (h : SameCore g g') (a j : Nat) (x x' : BVertex) (hx : coreL x' = coreL x) :
    g'.ifStep a j x' = g.ifStep a j x := by
  simp only [coreL, Prod.mk.injEq] at hx
  obtain ⟨e1, _, e3, e4, _, _⟩ := hx
  unfold BGraph.ifStep BGraph.takenOf BGraph.notTakenOf BGraph.testsOf BGraph.ifTarget BGraph.elseTarget BGraph.firstIf
    BGraph.firstElse
  rw [h.toGraph, h.outEs, e1, e3, e4]

theorem SameCore.stepPS (h : SameCore g g') (a j : Nat) : g'.stepPS (a, j) = g.stepPS (a, j) := by
  cases hs : g.isSwitchV a with
  | true =>
    obtain ⟨x, o, hx, ho⟩ := isSwitchV_op g a hs
    obtain ⟨x', o', hx', ho'⟩ := isSwitchV_op g' a (by rw [h.isSwitchV]; exact hs)
    have hv := h.vs a
    rw [hx, hx'] at hv
    simp only [Option.map_some, Option.some.injEq, coreL, Prod.mk.injEq] at hv
    have : o' = o := by
      have := hv.1
      rw [ho, ho'] at this
      simpa using this
    subst this
    rw [stepPS_switch g a j x o' hx hs ho, stepPS_switch g' a j x' o' hx' (by rw [h.isSwitchV]; exact hs) ho']
    exact h.switchStep a j o'
  | false =>
    rw [stepPS_of_not_switch g' (a, j) (by rw [h.isSwitchV]; exact hs), stepPS_of_not_switch g (a, j) hs]
    unfold BGraph.stepP
    simp only
    rw [h.isIfV, h.toGraph]
    cases hi : g.isIfV a with
    | true =>
      simp only [if_true]
      have hv := h.vs a
      cases h1 : g'.vs[a]? with
      | none =>
        cases h2 : g.vs[a]? with
        | none => rfl
        | some x => rw [h1, h2] at hv; simp at hv
      | some x' =>
        cases h2 : g.vs[a]? with
        | none => rw [h1, h2] at hv; simp at hv
        | some x =>
          rw [h1, h2] at hv
          exact h.ifStep a j x x' (by simpa using hv)
    | false => rfl

/-- **the step function does not see the markers** -/
theorem SameCore.stepPL (h : SameCore g g') : g'.stepPL = g.stepPL := by
  funext ⟨a, j⟩
  unfold BGraph.stepPL
  simp only [h.isSynV, h.toGraph, h.stepPS]

theorem SameCore.stepS (h : SameCore g g') : g'.stepS = g.stepS := by
  funext s
  unfold BGraph.stepS BGraph.enc BGraph.dec
  rw [h.len]
  have : ∀ p, g'.stepPS p = g.stepPS p := fun p => h.stepPS p.1 p.2
  rw [this]

theorem SameCore.stepL (h : SameCore g g') : g'.stepL = g.stepL := by
  funext s
  unfold BGraph.stepL BGraph.enc BGraph.dec
  rw [h.len, h.stepPL]

theorem SameCore.refl (g : BGraph) : SameCore g g := ⟨rfl, fun _ => rfl⟩

theorem SameCore.trans {g1 g2 g3 : BGraph} (h1 : SameCore g1 g2) (h2 : SameCore g2 g3) : SameCore g1 g3 :=
  ⟨h2.es.trans h1.es, fun u => (h2.vs u).trans (h1.vs u)⟩

theorem sameCore_modify (g : BGraph) (w : Nat) (f : BVertex → BVertex) (hf : ∀ x, coreL (f x) = coreL x) :
    SameCore g { g with vs := g.vs.modify w f } := by
  refine ⟨rfl, ?_⟩
  intro u
  simp only [List.getElem?_modify]
  split
  · cases g.vs[u]? <;> simp [hf]
  · cases g.vs[u]? <;> rfl

theorem markFallthroughs_sameCore : ∀ (marked : List Nat) (g g' : BGraph), BGraph.markFallthroughs marked g = .ok g' → SameCore g g' := by
  intro marked
  induction marked with
  | nil => intro g g' h; unfold BGraph.markFallthroughs at h; cases h; exact SameCore.refl g
  | cons v rest ih =>
    intro g g' h
    unfold BGraph.markFallthroughs at h
    split at h
    · exact (sameCore_modify g v BGraph.setFallthroughV (fun _ => rfl)).trans (ih _ g' h)
    · cases h

end ESV.Decomp.Lp
