import ESV.Decomp.SwGroupSpec
/-
`group_switch_cases`: the invariant of its loops (`Grp`) - what the raw graph (before the final `delete_edges`) and the set
`es_to_delete` look like relative to the graph `g0` the phase started with, `pd` = the (switch, target) groups already visited.
-/
namespace ESV.Decomp.Sw
open ESV.Beh ESV.Decomp ESV.Decomp.Opt ESV.Decomp.Gr

structure Grp (g0 gc : BGraph) (toDel : List Nat) (pd : List (Nat × Nat)) : Prop where
  vs : gc.vs = g0.vs
  len : gc.es.length = g0.es.length
  geo : ∀ (i : Nat) (e0 ec : BEdge), g0.es[i]? = some e0 → gc.es[i]? = some ec → ec.src = e0.src ∧ ec.dst = e0.dst
  untouched : ∀ (i : Nat) (e0 : BEdge), g0.es[i]? = some e0 → (e0.src, e0.dst) ∉ pd → gc.es[i]? = some e0 ∧ i ∉ toDel
  up : ∀ (i : Nat) (ec : BEdge), gc.es[i]? = some ec →
    (ec.isElse = true → ∃ e1 ∈ g0.es, e1.src = ec.src ∧ e1.dst = ec.dst ∧ e1.isElse = true) ∧
    (∀ t ∈ ec.switchOps, ∃ e1 ∈ g0.es, e1.src = ec.src ∧ e1.dst = ec.dst ∧ t ∈ e1.switchOps)
  low : ∀ (i : Nat) (e0 : BEdge), g0.es[i]? = some e0 → ∃ (k : Nat) (ec : BEdge), k ∉ toDel ∧ gc.es[k]? = some ec ∧ ec.src = e0.src ∧ ec.dst = e0.dst ∧
    (e0.isElse = true → ec.isElse = true) ∧ (e0.isElse = false → ∀ t ∈ e0.switchOps, t ∈ ec.switchOps)
  sw : ∀ q ∈ pd, g0.isSwitchV q.1 = true

/-- `outs` = `v.out_edges()` at the time the switch `v` is visited: the out-edges of `v` in `g0`, with their positions -/
structure OutsOf (g0 : BGraph) (v : Nat) (outs : List (Nat × BEdge)) : Prop where
  pos : ∀ p ∈ outs, g0.es[p.1]? = some p.2 ∧ p.2.src = v
  all : ∀ (i : Nat) (e : BEdge), g0.es[i]? = some e → e.src = v → (i, e) ∈ outs
  nodup : (outs.map (·.1)).Nodup

variable {g0 gc : BGraph} {toDel : List Nat} {pd : List (Nat × Nat)} {v : Nat} {outs : List (Nat × BEdge)}

theorem Grp.mono (h : Grp g0 gc toDel pd) (q : Nat × Nat) (hq : g0.isSwitchV q.1 = true) : Grp g0 gc toDel (q :: pd) :=
  ⟨h.vs, h.len, h.geo, fun i e0 hi hn => h.untouched i e0 hi (fun hm => hn (List.mem_cons_of_mem _ hm)), h.up, h.low,
    fun q' hq' => by
      rcases List.mem_cons.mp hq' with rfl | h1
      · exact hq
      · exact h.sw q' h1⟩

/-- **one group** (the edges of the switch `v` that lead to `t`) with a non-else edge at `k` -/
theorem grp_round (h : Grp g0 gc toDel pd) (ho : OutsOf g0 v outs) (hv : g0.isSwitchV v = true) (t : Nat)
    (hnew : (v, t) ∉ pd) (k fi : Nat) (fe fe' : BEdge)
    (hk : (outs.filter fun q => q.2.dst == t).findIdx? (fun q => !q.2.isElse) = some k)
    (hget : (outs.filter fun q => q.2.dst == t)[k]? = some (fi, fe))
    (hab : BGraph.absorb fe (((outs.filter fun q => q.2.dst == t).eraseIdx k).map (·.2)) = .ok fe') :
    Grp g0 { gc with es := gc.es.set fi fe' } (toDel ++ ((outs.filter fun q => q.2.dst == t).eraseIdx k).map (·.1))
      ((v, t) :: pd) := by
  let grp := outs.filter fun q => q.2.dst == t
  have hgnd : (grp.map (·.1)).Nodup := List.Nodup.sublist (List.Sublist.map _ List.filter_sublist) ho.nodup
  obtain ⟨hfe, hfm, hrsub, hcover, hfi⟩ := group_split grp hgnd k hk fi fe hget
  obtain ⟨a1, a2, a3, a4⟩ := absorb_spec _ fe fe' hab
  -- what is known of a member of the group
  have hmem : ∀ q ∈ grp, g0.es[q.1]? = some q.2 ∧ q.2.src = v ∧ q.2.dst = t ∧ gc.es[q.1]? = some q.2 ∧ q.1 ∉ toDel := by
    intro q hq
    have hq' := List.mem_filter.mp hq
    obtain ⟨h1, h2⟩ := ho.pos q hq'.1
    have h3 : q.2.dst = t := by simpa using hq'.2
    obtain ⟨h4, h5⟩ := h.untouched q.1 q.2 h1 (by rw [h2, h3]; exact hnew)
    exact ⟨h1, h2, h3, h4, h5⟩
  obtain ⟨f1, f2, f3, f4, f5⟩ := hmem (fi, fe) hfm
  simp only at f1 f2 f3 f4 f5
  have hfilt : fi < gc.es.length := (List.getElem?_eq_some_iff.mp f4).1
  -- a position of the group: its edge leads from `v` to `t`
  have hpair : ∀ i e0, g0.es[i]? = some e0 → e0.src = v → e0.dst = t → (i, e0) ∈ grp := by
    intro i e0 hi hs hd
    exact List.mem_filter.mpr ⟨ho.all i e0 hi hs, by simpa using hd⟩
  have hget' : ∀ i, i ≠ fi → (gc.es.set fi fe')[i]? = gc.es[i]? := by
    intro i hi; rw [List.getElem?_set, if_neg (fun hh => hi hh.symm)]
  have hgetfi : (gc.es.set fi fe')[fi]? = some fe' := by rw [List.getElem?_set, if_pos rfl, if_pos hfilt]
  refine ⟨h.vs, by simp only [List.length_set]; exact h.len, ?_, ?_, ?_, ?_, ?_⟩
  · intro i e0 ec hi hc
    by_cases hif : i = fi
    · subst hif
      rw [hgetfi] at hc
      have : ec = fe' := by simpa using hc.symm
      rw [f1] at hi
      have : e0 = fe := by simpa using hi.symm
      subst_vars
      exact ⟨a1, a2⟩
    · simp only at hc; rw [hget' i hif] at hc; exact h.geo i e0 ec hi hc
  · intro i e0 hi hn
    have hn1 : (e0.src, e0.dst) ≠ (v, t) := fun hh => hn (by rw [hh]; exact List.mem_cons_self ..)
    obtain ⟨b1, b2⟩ := h.untouched i e0 hi (fun hm => hn (List.mem_cons_of_mem _ hm))
    have hif : i ≠ fi := by
      rintro rfl
      rw [f1] at hi
      have : e0 = fe := by simpa using hi.symm
      exact hn1 (by rw [this, f2, f3])
    refine ⟨by simp only; rw [hget' i hif]; exact b1, ?_⟩
    intro hm
    rcases List.mem_append.mp hm with h1 | h1
    · exact b2 h1
    · obtain ⟨q, hq, hq1⟩ := List.mem_map.mp h1
      obtain ⟨c1, c2, c3, _, _⟩ := hmem q (hrsub q hq)
      rw [hq1, hi] at c1
      have : e0 = q.2 := by simpa using c1
      exact hn1 (by rw [this, c2, c3])
  · intro i ec hc
    by_cases hif : i = fi
    · subst hif
      rw [hgetfi] at hc
      have : ec = fe' := by simpa using hc.symm
      subst this
      have hfg : fe ∈ g0.es := List.mem_of_getElem? f1
      constructor
      · intro hel
        rcases a3.mp hel with h1 | ⟨r, hr, hre⟩
        · rw [hfe] at h1; cases h1
        · obtain ⟨q, hq, rfl⟩ := List.mem_map.mp hr
          obtain ⟨c1, c2, c3, _, _⟩ := hmem q (hrsub q hq)
          exact ⟨q.2, List.mem_of_getElem? c1, by rw [a1, c2, f2], by rw [a2, c3, f3], hre⟩
      · intro t' ht'
        rcases (a4 t').mp ht' with h1 | ⟨r, hr, _, hrt⟩
        · exact ⟨fe, hfg, a1.symm, a2.symm, h1⟩
        · obtain ⟨q, hq, rfl⟩ := List.mem_map.mp hr
          obtain ⟨c1, c2, c3, _, _⟩ := hmem q (hrsub q hq)
          exact ⟨q.2, List.mem_of_getElem? c1, by rw [a1, c2, f2], by rw [a2, c3, f3], hrt⟩
    · simp only at hc; rw [hget' i hif] at hc; exact h.up i ec hc
  · intro i e0 hi
    by_cases hp : e0.src = v ∧ e0.dst = t
    · -- a member of the group: its witness is the first edge
      have hq := hpair i e0 hi hp.1 hp.2
      refine ⟨fi, fe', ?_, hgetfi, by rw [a1, f2, hp.1], by rw [a2, f3, hp.2], ?_, ?_⟩
      · intro hm
        rcases List.mem_append.mp hm with h1 | h1
        · exact f5 h1
        · exact hfi h1
      · intro hel
        rcases hcover (i, e0) hq with h1 | h1
        · have : e0 = fe := by simpa using (Prod.mk.inj h1).2
          rw [this, hfe] at hel; cases hel
        · exact a3.mpr (Or.inr ⟨e0, List.mem_map.mpr ⟨(i, e0), h1, rfl⟩, hel⟩)
      · intro hel t' ht'
        rcases hcover (i, e0) hq with h1 | h1
        · have : e0 = fe := by simpa using (Prod.mk.inj h1).2
          rw [this] at ht'
          exact (a4 t').mpr (Or.inl ht')
        · exact (a4 t').mpr (Or.inr ⟨e0, List.mem_map.mpr ⟨(i, e0), h1, rfl⟩, hel, ht'⟩)
    · obtain ⟨k0, ec0, b1, b2, b3, b4, b5, b6⟩ := h.low i e0 hi
      have hk0 : k0 ≠ fi := by
        rintro rfl
        rw [f4] at b2
        have : ec0 = fe := by simpa using b2.symm
        exact hp ⟨by rw [← b3, this, f2], by rw [← b4, this, f3]⟩
      refine ⟨k0, ec0, ?_, by simp only; rw [hget' k0 hk0]; exact b2, b3, b4, b5, b6⟩
      intro hm
      rcases List.mem_append.mp hm with h1 | h1
      · exact b1 h1
      · obtain ⟨q, hq, hq1⟩ := List.mem_map.mp h1
        obtain ⟨_, c2, c3, c4, _⟩ := hmem q (hrsub q hq)
        rw [hq1, b2] at c4
        have : ec0 = q.2 := by simpa using c4
        exact hp ⟨by rw [← b3, this, c2], by rw [← b4, this, c3]⟩
  · intro q hq
    rcases List.mem_cons.mp hq with rfl | h1
    · exact hv
    · exact h.sw q h1

/-- the loop over the groups of one switch -/
theorem groupTargets_inv (ho : OutsOf g0 v outs) (hv : g0.isSwitchV v = true) :
    ∀ (ps : List (Nat × BEdge)) (seen : List Nat) (gc : BGraph) (toDel : List Nat) (pd : List (Nat × Nat))
      (gc' : BGraph) (toDel' : List Nat),
      Grp g0 gc toDel pd → (∀ t, t ∈ seen ↔ (v, t) ∈ pd) →
      BGraph.groupTargets outs ps seen gc toDel = .ok (gc', toDel') →
      ∃ pd', Grp g0 gc' toDel' pd' ∧ ∀ q ∈ pd', q ∈ pd ∨ q.1 = v := by
  intro ps
  induction ps with
  | nil =>
    intro seen gc toDel pd gc' toDel' h _ hr
    unfold BGraph.groupTargets at hr
    simp only [Except.ok.injEq, Prod.mk.injEq] at hr
    obtain ⟨rfl, rfl⟩ := hr
    exact ⟨pd, h, fun q hq => Or.inl hq⟩
  | cons p ps ih =>
    intro seen gc toDel pd gc' toDel' h hseen hr
    unfold BGraph.groupTargets at hr
    by_cases hs : seen.contains p.2.dst = true
    · rw [if_pos hs] at hr
      exact ih seen gc toDel pd gc' toDel' h hseen hr
    · rw [if_neg hs] at hr
      have hnew : (v, p.2.dst) ∉ pd := fun hm => hs (List.contains_iff_mem.mpr ((hseen _).mpr hm))
      have hseen' : ∀ t, t ∈ p.2.dst :: seen ↔ (v, t) ∈ (v, p.2.dst) :: pd := by
        intro t
        simp only [List.mem_cons, Prod.mk.injEq, true_and]
        rw [hseen t]
      have wrap : ∀ pd1 : List (Nat × Nat), (∀ q ∈ pd1, q ∈ (v, p.2.dst) :: pd ∨ q.1 = v) → ∀ q ∈ pd1, q ∈ pd ∨ q.1 = v := by
        intro pd1 h1 q hq
        rcases h1 q hq with h2 | h2
        · rcases List.mem_cons.mp h2 with rfl | h3
          · exact Or.inr rfl
          · exact Or.inl h3
        · exact Or.inr h2
      simp only at hr
      cases hk : (outs.filter fun q => q.2.dst == p.2.dst).findIdx? (fun q => !q.2.isElse) with
      | none =>
        rw [hk] at hr
        simp only at hr
        obtain ⟨pd1, g1, g2⟩ := ih _ gc toDel _ gc' toDel' (h.mono (v, p.2.dst) hv) hseen' hr
        exact ⟨pd1, g1, wrap pd1 g2⟩
      | some k =>
        rw [hk] at hr
        simp only at hr
        cases hget : (outs.filter fun q => q.2.dst == p.2.dst)[k]? with
        | none => rw [hget] at hr; cases hr
        | some fp =>
          obtain ⟨fi, fe⟩ := fp
          rw [hget] at hr
          simp only at hr
          cases hab : BGraph.absorb fe (((outs.filter fun q => q.2.dst == p.2.dst).eraseIdx k).map (·.2)) with
          | error e => rw [hab] at hr; cases hr
          | ok fe' =>
            rw [hab] at hr
            simp only at hr
            have h' := grp_round h ho hv p.2.dst hnew k fi fe fe' hk hget hab
            obtain ⟨pd1, g1, g2⟩ := ih _ _ _ _ gc' toDel' h' hseen' hr
            exact ⟨pd1, g1, wrap pd1 g2⟩

end ESV.Decomp.Sw
