import ESV.Decomp.BrGuard
import ESV.Decomp.GraphCounter
/-
Why `answerOk` asks what it asks: two graphs with the structure `build_branches` expects (`branchesStructOk`) and an
answer of the search that violates one clause of `answerOk`, on which the phase answers and changes behaviour.
-/
namespace ESV.Decomp
open ESV.Beh

def bv (i : Nat) (it : Item) : BVertex := ⟨some i, .item it, none, [], [], false, none, [], false, false, none, [], none, none, false⟩

/-- `if (Branch) { Bar } else { Foo }`, both branches running into the SAME Jump (vertex 3) in front of the end
label (vertex 4): the Jump has two in-edges -/
def cexTwoIn : BGraph :=
  { vs := [bv 0 (.ljump ⟨0, "Branch", []⟩ 7 false), bv 1 (.op ⟨1, "Foo", []⟩), bv 2 (.op ⟨2, "Bar", []⟩),
           bv 3 (.ljump ⟨3, "Jump", []⟩ 8 false), bv 4 (.label 8), bv 5 (.op ⟨4, "Baz", []⟩)],
    es := [⟨0, 1, 0, false, false, []⟩, ⟨0, 2, 1, false, false, []⟩, ⟨1, 3, 0, false, false, []⟩, ⟨2, 3, 0, false, false, []⟩,
           ⟨3, 4, 1, false, false, []⟩, ⟨4, 5, 0, false, false, []⟩] }

def cexTwoInAfter : BGraph :=
  { vs := [⟨some 0, .item (.ljump ⟨0, "Branch", []⟩ 7 false), some 0, [], [], false, none, [], false, false, none, [], none, none, false⟩, bv 1 (.op ⟨1, "Foo", []⟩),
           bv 2 (.op ⟨2, "Bar", []⟩), ⟨some 4, .item (.label 8), none, [0], [], false, none, [], false, false, none, [], none, none, false⟩, bv 5 (.op ⟨4, "Baz", []⟩)],
    es := [⟨0, 1, 0, false, true, []⟩, ⟨0, 2, 1, false, false, []⟩, ⟨3, 4, 0, false, false, []⟩, ⟨1, 3, 0, false, false, []⟩] }

/-- a second in-edge of the by-passed Jump is cut by the final deletion: `_reconnect` moves `in_edges[0]` only.  On
the answer "both branches reach the end via the edge Jump→label" the path through `Bar` loses `Baz`. -/
theorem buildBranches_second_in_edge_counterexample :
    branchesStructOk cexTwoIn = true ∧ answersOk [some (4, 4)] cexTwoIn = false ∧
    ∃ g', buildBranches [some (4, 4)] cexTwoIn = .ok g' ∧
      ¬ Equivalent cexTwoIn.toGraph.ltsE g'.toGraph.ltsE (0 : Nat) (0 : Nat) := by
  refine ⟨by decide, by decide, cexTwoInAfter, by rfl, ?_⟩
  intro h
  exact not_sim_of_traces cexTwoIn.toGraph.ltsE cexTwoInAfter.toGraph.ltsE (0 : Nat) (0 : Nat) (fun _ => true) 6 3
    [.tst ⟨"Branch", []⟩ true, .op ⟨"Bar", []⟩, .op ⟨"Baz", []⟩, .stop evReturn]
    [.tst ⟨"Branch", []⟩ true, .op ⟨"Bar", []⟩, .stop evReturn]
    (by rfl) (by rfl) (by decide) h.1

/-- the routine starts with a Jump (vertex 0) to the label in front of a Branch whose taken path leads back to that
Jump -/
def cexStart : BGraph :=
  { vs := [bv 0 (.ljump ⟨0, "Jump", []⟩ 8 false), bv 1 (.op ⟨1, "Foo", []⟩), bv 2 (.label 8),
           bv 3 (.ljump ⟨2, "Branch", []⟩ 9 false), bv 4 (.op ⟨3, "Bar", []⟩)],
    es := [⟨0, 2, 1, false, false, []⟩, ⟨2, 3, 0, false, false, []⟩, ⟨3, 4, 0, false, false, []⟩, ⟨3, 0, 1, false, false, []⟩] }

def cexStartAfter : BGraph :=
  { vs := [bv 1 (.op ⟨1, "Foo", []⟩), ⟨some 2, .item (.label 8), none, [0], [], false, none, [], false, false, none, [], none, none, false⟩,
           ⟨some 3, .item (.ljump ⟨2, "Branch", []⟩ 9 false), some 0, [], [], false, none, [], false, false, none, [], none, none, false⟩, bv 4 (.op ⟨3, "Bar", []⟩)],
    es := [⟨1, 2, 0, false, false, []⟩, ⟨2, 3, 0, false, true, []⟩, ⟨2, 1, 1, false, false, []⟩] }

/-- the by-passed Jump must not be the vertex the routine starts with: after the deletion the routine starts with
whatever stood behind it -/
theorem buildBranches_start_vertex_counterexample :
    branchesStructOk cexStart = true ∧ answersOk [some (0, 0)] cexStart = false ∧
    ∃ g', buildBranches [some (0, 0)] cexStart = .ok g' ∧
      ¬ Equivalent cexStart.toGraph.ltsE g'.toGraph.ltsE (0 : Nat) (0 : Nat) := by
  refine ⟨by decide, by decide, cexStartAfter, by rfl, ?_⟩
  intro h
  exact not_sim_of_traces cexStart.toGraph.ltsE cexStartAfter.toGraph.ltsE (0 : Nat) (0 : Nat) (fun _ => false) 6 3
    [.tst ⟨"Branch", []⟩ false, .op ⟨"Bar", []⟩, .stop evReturn]
    [.op ⟨"Foo", []⟩, .stop evReturn]
    (by rfl) (by rfl) (by decide) h.1

/-- `Foo` (vertex 1) has TWO out-edges of flow level 0, to the Jump in front of the end label and to `Qux`: which one
is "the" fall-through edge is decided by igraph's incident order (lowest target id first) -/
def cexLevels : BGraph :=
  { vs := [bv 0 (.ljump ⟨0, "Branch", []⟩ 7 false), bv 1 (.op ⟨1, "Foo", []⟩), bv 2 (.ljump ⟨2, "Jump", []⟩ 8 false),
           bv 3 (.op ⟨3, "Qux", []⟩), bv 4 (.op ⟨4, "Bar", []⟩), bv 5 (.label 8), bv 6 (.op ⟨5, "Baz", []⟩)],
    es := [⟨0, 1, 0, false, false, []⟩, ⟨0, 4, 1, false, false, []⟩, ⟨1, 2, 0, false, false, []⟩, ⟨1, 3, 0, false, false, []⟩,
           ⟨2, 5, 1, false, false, []⟩, ⟨4, 5, 0, false, false, []⟩, ⟨5, 6, 0, false, false, []⟩] }

def cexLevelsAfter : BGraph :=
  { vs := [⟨some 0, .item (.ljump ⟨0, "Branch", []⟩ 7 false), some 0, [], [], false, none, [], false, false, none, [], none, none, false⟩, bv 1 (.op ⟨1, "Foo", []⟩),
           bv 3 (.op ⟨3, "Qux", []⟩), bv 4 (.op ⟨4, "Bar", []⟩), ⟨some 5, .item (.label 8), none, [0], [], false, none, [], false, false, none, [], none, none, false⟩,
           bv 6 (.op ⟨5, "Baz", []⟩)],
    es := [⟨0, 1, 0, false, true, []⟩, ⟨0, 3, 1, false, false, []⟩, ⟨1, 2, 0, false, false, []⟩, ⟨3, 4, 0, false, false, []⟩,
           ⟨4, 5, 0, false, false, []⟩, ⟨1, 4, 0, false, false, []⟩] }

/-- `branchesStructOk` (edges of one source and level have one target) is needed: the answer is fine (`answerOk`), the
moved edge now leads to a vertex with a higher id than `Qux`, and `Foo` falls through to `Qux` instead -/
theorem buildBranches_levels_counterexample :
    branchesStructOk cexLevels = false ∧ answersOk [some (5, 4)] cexLevels = true ∧
    ∃ g', buildBranches [some (5, 4)] cexLevels = .ok g' ∧
      ¬ Equivalent cexLevels.toGraph.ltsE g'.toGraph.ltsE (0 : Nat) (0 : Nat) := by
  refine ⟨by decide, by decide, cexLevelsAfter, by rfl, ?_⟩
  intro h
  exact not_sim_of_traces cexLevels.toGraph.ltsE cexLevelsAfter.toGraph.ltsE (0 : Nat) (0 : Nat) (fun _ => false) 7 4
    [.tst ⟨"Branch", []⟩ false, .op ⟨"Foo", []⟩, .op ⟨"Baz", []⟩, .stop evReturn]
    [.tst ⟨"Branch", []⟩ false, .op ⟨"Foo", []⟩, .op ⟨"Qux", []⟩, .stop evReturn]
    (by rfl) (by rfl) (by decide) h.1

/-- the else-branch ends with a Jump (vertex 2) to ANOTHER label than the one the if-branch ends at -/
def cexTarget : BGraph :=
  { vs := [bv 0 (.ljump ⟨0, "Branch", []⟩ 7 false), bv 1 (.op ⟨1, "Foo", []⟩), bv 2 (.ljump ⟨2, "Jump", []⟩ 9 false),
           bv 3 (.op ⟨3, "Bar", []⟩), bv 4 (.label 8), bv 5 (.op ⟨4, "Baz", []⟩), bv 6 (.label 9),
           bv 7 (.op ⟨5, "Zed", []⟩)],
    es := [⟨0, 1, 0, false, false, []⟩, ⟨0, 3, 1, false, false, []⟩, ⟨1, 2, 0, false, false, []⟩, ⟨2, 6, 1, false, false, []⟩,
           ⟨3, 4, 0, false, false, []⟩, ⟨4, 5, 0, false, false, []⟩, ⟨6, 7, 0, false, false, []⟩] }

def cexTargetAfter : BGraph :=
  { vs := [⟨some 0, .item (.ljump ⟨0, "Branch", []⟩ 7 false), some 0, [], [], false, none, [], false, false, none, [], none, none, false⟩, bv 1 (.op ⟨1, "Foo", []⟩),
           bv 3 (.op ⟨3, "Bar", []⟩), ⟨some 4, .item (.label 8), none, [0], [], false, none, [], false, false, none, [], none, none, false⟩, bv 5 (.op ⟨4, "Baz", []⟩),
           bv 6 (.label 9), bv 7 (.op ⟨5, "Zed", []⟩)],
    es := [⟨0, 1, 0, false, true, []⟩, ⟨0, 2, 1, false, false, []⟩, ⟨2, 3, 0, false, false, []⟩, ⟨3, 4, 0, false, false, []⟩,
           ⟨5, 6, 0, false, false, []⟩, ⟨1, 3, 0, false, false, []⟩] }

/-- the two edges of an answer must lead to the same vertex (here: the by-passed Jump must go to the end label):
`build_branches` takes the target of the FIRST edge as the end for both paths -/
theorem buildBranches_other_target_counterexample :
    branchesStructOk cexTarget = true ∧ answersOk [some (4, 3)] cexTarget = false ∧
    ∃ g', buildBranches [some (4, 3)] cexTarget = .ok g' ∧
      ¬ Equivalent cexTarget.toGraph.ltsE g'.toGraph.ltsE (0 : Nat) (0 : Nat) := by
  refine ⟨by decide, by decide, cexTargetAfter, by rfl, ?_⟩
  intro h
  exact not_sim_of_traces cexTarget.toGraph.ltsE cexTargetAfter.toGraph.ltsE (0 : Nat) (0 : Nat) (fun _ => false) 7 6
    [.tst ⟨"Branch", []⟩ false, .op ⟨"Foo", []⟩, .op ⟨"Zed", []⟩, .stop evReturn]
    [.tst ⟨"Branch", []⟩ false, .op ⟨"Foo", []⟩, .op ⟨"Baz", []⟩, .stop evReturn]
    (by rfl) (by rfl) (by decide) h.1

end ESV.Decomp
