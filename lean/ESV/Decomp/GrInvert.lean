import ESV.Decomp.GrFlag
import ESV.Decomp.BrModel
/-
`invert_branches`: swapping the two flags of an if and setting `is_not` leaves the step function `stepP` as it is -
provided the if has at most one out-edge per flag (`FU`) and is not inverted already.
-/
namespace ESV.Decomp.Gr
open ESV.Beh ESV.Decomp ESV.Decomp.Br

/-- the graph after the swap -/
def inverted (g : BGraph) (v ie ii : Nat) : BGraph := ((g.setElseFlag ie false).setElseFlag ii true).setNot v

theorem toGraph_setElseFlag (g : BGraph) (i : Nat) (b : Bool) : (g.setElseFlag i b).toGraph = g.toGraph := by
  unfold BGraph.setElseFlag BGraph.toGraph
  simp only [Graph.mk.injEq, true_and]
  apply map_modify_of_eq
  intro x; rfl

theorem toGraph_setNot (g : BGraph) (v : Nat) : (g.setNot v).toGraph = g.toGraph := by
  unfold BGraph.setNot BGraph.toGraph
  simp only [Graph.mk.injEq, and_true]
  apply map_modify_of_eq
  intro x; rfl

theorem toGraph_inverted (g : BGraph) (v ie ii : Nat) : (inverted g v ie ii).toGraph = g.toGraph := by
  unfold inverted; rw [toGraph_setNot, toGraph_setElseFlag, toGraph_setElseFlag]

theorem inverted_vs (g : BGraph) (v ie ii : Nat) : (inverted g v ie ii).vs = g.vs.modify v BGraph.setNotV := rfl

theorem inverted_vs_get (g : BGraph) (v ie ii u : Nat) :
    (inverted g v ie ii).vs[u]? = (g.vs[u]?).map fun x => if v = u then BGraph.setNotV x else x := by
  rw [inverted_vs, List.getElem?_modify]
  cases g.vs[u]? <;> simp

theorem inverted_es_get (g : BGraph) (v ie ii k : Nat) :
    (inverted g v ie ii).es[k]? = (g.es[k]?).map fun e =>
      if ii = k then { e with isElse := true } else if ie = k then { e with isElse := false } else e := by
  show ((g.es.modify ie _).modify ii _)[k]? = _
  rw [List.getElem?_modify, List.getElem?_modify]
  cases g.es[k]? with
  | none => rfl
  | some e => by_cases h1 : ii = k <;> by_cases h2 : ie = k <;> simp [h1, h2]

theorem isIfV_inverted (g : BGraph) (v ie ii u : Nat) : (inverted g v ie ii).isIfV u = g.isIfV u := by
  unfold BGraph.isIfV
  rw [inverted_vs_get]
  cases g.vs[u]? with
  | none => rfl
  | some x =>
    by_cases h : v = u
    · simp only [Option.map_some, h, if_true]; rfl
    · simp [h]

/-- the situation in which `invert_branches` swaps -/
structure ICtx (g : BGraph) (v ie ii : Nat) (eE eI : BEdge) : Prop where
  isIf : g.isIfV v = true
  fu : FU g
  hE : g.firstElse v = some (ie, eE)
  hI : g.firstIf v = some (ii, eI)

namespace ICtx
variable {g : BGraph} {v ie ii : Nat} {eE eI : BEdge}

theorem ne (c : ICtx g v ie ii eE eI) : ie ≠ ii := by
  intro h
  obtain ⟨h1, _, h3⟩ := firstElse_some g v ie eE c.hE
  obtain ⟨h4, _, h6⟩ := firstIf_some g v ii eI c.hI
  rw [h, h4] at h1; cases h1; rw [h3] at h6; cases h6

/-- an out-edge of `v` is one of the two -/
theorem edge_of_v (c : ICtx g v ie ii eE eI) (k : Nat) (e : BEdge) (hk : g.es[k]? = some e) (hs : e.src = v) :
    (k = ie ∧ e = eE) ∨ (k = ii ∧ e = eI) := by
  obtain ⟨h1, h2, h3⟩ := firstElse_some g v ie eE c.hE
  obtain ⟨h4, h5, h6⟩ := firstIf_some g v ii eI c.hI
  cases hf : e.isElse with
  | true =>
    have : k = ie := c.fu k ie e eE hk h1 (by rw [hs, h2]) (by rw [hs]; exact c.isIf) (by rw [hf, h3])
    subst this; rw [h1] at hk; cases hk; exact Or.inl ⟨rfl, rfl⟩
  | false =>
    have : k = ii := c.fu k ii e eI hk h4 (by rw [hs, h5]) (by rw [hs]; exact c.isIf) (by rw [hf, h6])
    subst this; rw [h4] at hk; cases hk; exact Or.inr ⟨rfl, rfl⟩

/-- an edge of the graph after the swap, with its origin -/
theorem edge_inv (c : ICtx g v ie ii eE eI) (k : Nat) (e' : BEdge) (hk : (inverted g v ie ii).es[k]? = some e') :
    (k = ii ∧ e' = { eI with isElse := true }) ∨ (k = ie ∧ e' = { eE with isElse := false }) ∨
    (g.es[k]? = some e' ∧ e'.src ≠ v) := by
  rw [inverted_es_get] at hk
  obtain ⟨h1, _, _⟩ := firstElse_some g v ie eE c.hE
  obtain ⟨h4, _, _⟩ := firstIf_some g v ii eI c.hI
  cases he : g.es[k]? with
  | none => rw [he] at hk; cases hk
  | some e =>
    rw [he] at hk
    simp only [Option.map_some, Option.some.injEq] at hk
    by_cases h1' : ii = k
    · subst h1'; rw [h4] at he; cases he; simp at hk; exact Or.inl ⟨rfl, hk.symm⟩
    · by_cases h2' : ie = k
      · subst h2'; rw [h1] at he; cases he; simp [h1'] at hk; exact Or.inr (Or.inl ⟨rfl, hk.symm⟩)
      · simp [h1', h2'] at hk; subst hk
        refine Or.inr (Or.inr ⟨rfl, ?_⟩)
        intro hs
        rcases c.edge_of_v k e he hs with ⟨h, _⟩ | ⟨h, _⟩
        · exact h2' h.symm
        · exact h1' h.symm

theorem fu_inverted (c : ICtx g v ie ii eE eI) : FU (inverted g v ie ii) := by
  obtain ⟨h1, h2, h3⟩ := firstElse_some g v ie eE c.hE
  obtain ⟨h4, h5, h6⟩ := firstIf_some g v ii eI c.hI
  intro i j e e' hi hj hs hv hf
  rw [isIfV_inverted] at hv
  rcases c.edge_inv i e hi with ⟨rfl, rfl⟩ | ⟨rfl, rfl⟩ | ⟨hi', hsi⟩
  · rcases c.edge_inv j e' hj with ⟨rfl, rfl⟩ | ⟨rfl, rfl⟩ | ⟨hj', hsj⟩
    · rfl
    · simp at hf
    · exact absurd (by rw [← hs]; exact h5) hsj
  · rcases c.edge_inv j e' hj with ⟨rfl, rfl⟩ | ⟨rfl, rfl⟩ | ⟨hj', hsj⟩
    · simp at hf
    · rfl
    · exact absurd (by rw [← hs]; exact h2) hsj
  · rcases c.edge_inv j e' hj with ⟨rfl, rfl⟩ | ⟨rfl, rfl⟩ | ⟨hj', hsj⟩
    · exact absurd (by rw [hs]; exact h5) hsi
    · exact absurd (by rw [hs]; exact h2) hsi
    · exact c.fu i j e e' hi' hj' hs hv hf

/-- the out-edges of another vertex are untouched -/
theorem flagCorr_other (c : ICtx g v ie ii eE eI) (u : Nat) (hu : u ≠ v) :
    FlagCorr g (inverted g v ie ii) u u id := by
  constructor
  · intro e he hs
    obtain ⟨k, hk⟩ := List.getElem?_of_mem he
    refine ⟨e, ?_, hs, rfl, rfl⟩
    apply List.mem_of_getElem? (i := k)
    rw [inverted_es_get, hk]
    have h1 : ii ≠ k := by
      intro h; subst h
      obtain ⟨h4, h5, _⟩ := firstIf_some g v ii eI c.hI
      rw [h4] at hk; cases hk; exact hu (hs.symm.trans h5)
    have h2 : ie ≠ k := by
      intro h; subst h
      obtain ⟨h4, h5, _⟩ := firstElse_some g v ie eE c.hE
      rw [h4] at hk; cases hk; exact hu (hs.symm.trans h5)
    simp [h1, h2]
  · intro e' he' hs
    obtain ⟨k, hk⟩ := List.getElem?_of_mem he'
    obtain ⟨_, h2, _⟩ := firstElse_some g v ie eE c.hE
    obtain ⟨_, h5, _⟩ := firstIf_some g v ii eI c.hI
    rcases c.edge_inv k e' hk with ⟨_, rfl⟩ | ⟨_, rfl⟩ | ⟨hk', _⟩
    · exact absurd (hs.symm.trans h5) hu
    · exact absurd (hs.symm.trans h2) hu
    · exact ⟨e', List.mem_of_getElem? hk', hs, rfl, rfl⟩

/-- **one swap**: the step function is unchanged -/
theorem stepP_inverted (c : ICtx g v ie ii eE eI) (x : BVertex) (hx : g.vs[v]? = some x) (hnot : x.isNot = false)
    (s : Nat × Nat) : (inverted g v ie ii).stepP s = g.stepP s := by
  obtain ⟨u, j⟩ := s
  have hfu' := c.fu_inverted
  obtain ⟨h1, h2, h3⟩ := firstElse_some g v ie eE c.hE
  obtain ⟨h4, h5, h6⟩ := firstIf_some g v ii eI c.hI
  cases hu : g.isIfV u with
  | false =>
    rw [stepP_not_if g u j hu, stepP_not_if _ u j (by rw [isIfV_inverted]; exact hu), toGraph_inverted]
  | true =>
    have hu' : (inverted g v ie ii).isIfV u = true := by rw [isIfV_inverted]; exact hu
    have hstuck : id g.toGraph.stuck = (inverted g v ie ii).toGraph.stuck := by rw [toGraph_inverted]; rfl
    by_cases huv : u = v
    · subst huv
      have hx' : (inverted g u ie ii).vs[u]? = some (BGraph.setNotV x) := by rw [inverted_vs_get, hx]; simp
      rw [stepP_if g u j x hu hx, stepP_if _ u j _ hu' hx']
      have t1 : (inverted g u ie ii).elseTarget u = g.ifTarget u := by
        rw [elseTarget_of_edge _ hfu' u ii { eI with isElse := true } hu'
          (by rw [inverted_es_get, h4]; simp) h5 rfl]
        unfold BGraph.ifTarget; rw [c.hI]
      have t2 : (inverted g u ie ii).ifTarget u = g.elseTarget u := by
        rw [ifTarget_of_edge _ hfu' u ie { eE with isElse := false } hu'
          (by rw [inverted_es_get, h1]; simp [c.ne.symm]) h2 rfl]
        unfold BGraph.elseTarget; rw [c.hE]
      unfold BGraph.ifStep BGraph.takenOf BGraph.notTakenOf
      have e1 : BGraph.testsOf (BGraph.setNotV x) = BGraph.testsOf x := rfl
      have e2 : (BGraph.setNotV x).isNot = true := rfl
      simp only [e1, e2, hnot, t1, t2, if_true, Bool.false_eq_true, if_false]
    · cases hxu : g.vs[u]? with
      | none => have := isIfV_lt g u hu; rw [List.getElem?_eq_none_iff] at hxu; omega
      | some y =>
        have hy' : (inverted g v ie ii).vs[u]? = some y := by rw [inverted_vs_get, hxu]; simp [Ne.symm huv]
        rw [stepP_if g u j y hu hxu, stepP_if _ u j y hu' hy']
        have t1 := elseTarget_corr g _ u u id (c.flagCorr_other u huv) hfu' hu' hstuck
        have t2 := ifTarget_corr g _ u u id (c.flagCorr_other u huv) hfu' hu' hstuck
        unfold BGraph.ifStep BGraph.takenOf BGraph.notTakenOf
        simp only [t1, t2, id]

end ICtx

/-- what the loop of `invert_branches` keeps: at most one out-edge per flag; the ifs still to come are not inverted -/
structure IInv (g : BGraph) (rest : List Nat) : Prop where
  fu : FU g
  notYet : ∀ u ∈ rest, g.isIfV u = true → ∀ x, g.vs[u]? = some x → x.isNot = false

theorem invertOne_step (g g' : BGraph) (v : Nat) (rest : List Nat) (hinv : IInv g (v :: rest)) (hv : g.isIfV v = true)
    (hnd : v ∉ rest) (h : g.invertOne v = .ok g') :
    IInv g' rest ∧ (∀ s, g'.stepP s = g.stepP s) ∧ g'.vs.length = g.vs.length := by
  have keep : IInv g rest := ⟨hinv.fu, fun u hu => hinv.notYet u (List.mem_cons_of_mem _ hu)⟩
  unfold BGraph.invertOne at h
  split at h
  · cases h
  · rename_i ie eE hE
    split at h
    · cases h
    · rename_i ii eI hI
      split at h
      · cases h; exact ⟨keep, fun _ => rfl, rfl⟩
      · split at h
        · cases h
        · split at h
          · cases h
            have c : ICtx g v ie ii eE eI := ⟨hv, hinv.fu, hE, hI⟩
            cases hx : g.vs[v]? with
            | none => have := isIfV_lt g v hv; rw [List.getElem?_eq_none_iff] at hx; omega
            | some x =>
              refine ⟨⟨c.fu_inverted, ?_⟩, c.stepP_inverted x hx (hinv.notYet v (by simp) hv x hx), ?_⟩
              · intro u hu hiu y hy
                have huv : v ≠ u := fun e => hnd (e ▸ hu)
                change (inverted g v ie ii).isIfV u = true at hiu
                rw [isIfV_inverted] at hiu
                change (inverted g v ie ii).vs[u]? = some y at hy
                rw [inverted_vs_get] at hy
                cases hgu : g.vs[u]? with
                | none => rw [hgu] at hy; cases hy
                | some z =>
                  rw [hgu] at hy; simp [huv] at hy; subst hy
                  exact hinv.notYet u (List.mem_cons_of_mem _ hu) hiu z hgu
              · show (g.vs.modify v BGraph.setNotV).length = _
                rw [List.length_modify]
          · cases h; exact ⟨keep, fun _ => rfl, rfl⟩

theorem invertGo_steps (rest : List Nat) : ∀ (g g' : BGraph), IInv g rest → rest.Nodup →
    BGraph.invertGo rest g = .ok g' → (∀ s, g'.stepP s = g.stepP s) ∧ g'.vs.length = g.vs.length := by
  induction rest with
  | nil => intro g g' _ _ h; unfold BGraph.invertGo at h; cases h; exact ⟨fun _ => rfl, rfl⟩
  | cons v rest ih =>
    intro g g' hinv hnd h
    rw [List.nodup_cons] at hnd
    unfold BGraph.invertGo at h
    split at h
    · rename_i hv
      split at h
      · cases h
      · rename_i g1 h1
        obtain ⟨i1, s1, l1⟩ := invertOne_step g g1 v rest hinv hv hnd.1 h1
        obtain ⟨s2, l2⟩ := ih g1 g' i1 hnd.2 h
        exact ⟨fun s => (s2 s).trans (s1 s), l2.trans l1⟩
    · exact ih g g' ⟨hinv.fu, fun u hu => hinv.notYet u (List.mem_cons_of_mem _ hu)⟩ hnd.2 h

theorem iinv_init (g : BGraph) (h1 : flagsUnique g = true) (h2 : noNot g = true) :
    IInv g (List.range g.vs.length) := by
  refine ⟨fu_of_flagsUnique g h1, ?_⟩
  intro u hu hv x hx
  unfold noNot at h2
  rw [List.all_eq_true] at h2
  have := h2 u hu
  rw [hx] at this
  simpa [hv] using this

end ESV.Decomp.Gr
