import ESV.Decomp.SemE
import ESV.Decomp.GraphSort
import ESV.Decomp.OptLts
/-
`stepE` read off the out-edges as a set: if the out-edges of `a'` in `g'` are the out-edges of `a` in `g` with the
targets renamed by `ρ` (levels kept), the vertex attribute is the same and "behind a context op" agrees, then
`g'.stepE a' = mapStep ρ (g.stepE a)` - provided edges of one source and level have one target.
-/
namespace ESV.Decomp.Opt
open ESV.Beh ESV.Decomp

/-- out-edges of `a'` in `g'` = out-edges of `a` in `g`, targets renamed by `ρ` -/
def EdgeCorr (g g' : Graph) (a a' : Nat) (ρ : Nat → Nat) : Prop :=
  (∀ e' ∈ g'.es, e'.src = a' → ∃ e ∈ g.es, e.src = a ∧ e.level = e'.level ∧ ρ e.dst = e'.dst) ∧
  (∀ e ∈ g.es, e.src = a → ∃ e' ∈ g'.es, e'.src = a' ∧ e'.level = e.level ∧ e'.dst = ρ e.dst)

/-- edges of one source with the same level have the same target -/
def LD (g : Graph) : Prop :=
  ∀ e ∈ g.es, ∀ e' ∈ g.es, e.src = e'.src → e.level = e'.level → e.dst = e'.dst

theorem lowest_corr (g g' : Graph) (a a' : Nat) (ρ : Nat → Nat) (hc : EdgeCorr g g' a a' ρ) (hld : LD g) :
    (g.lowest a = none ∧ g'.lowest a' = none) ∨
    (∃ e e', g.lowest a = some e ∧ g'.lowest a' = some e' ∧ e'.level = e.level ∧ e'.dst = ρ e.dst) := by
  rcases lowest_spec g a with ⟨h1, hno⟩ | ⟨e, he, hmem, hsrc, hmin⟩
  · rcases lowest_spec g' a' with ⟨h2, _⟩ | ⟨e', _, hmem', hsrc', _⟩
    · exact Or.inl ⟨h1, h2⟩
    · obtain ⟨e0, h0, hs0, _⟩ := hc.1 e' hmem' hsrc'
      exact absurd hs0 (hno e0 h0)
  · rcases lowest_spec g' a' with ⟨_, hno'⟩ | ⟨e', he', hmem', hsrc', hmin'⟩
    · obtain ⟨e0, h0, hs0, _⟩ := hc.2 e hmem hsrc
      exact absurd hs0 (hno' e0 h0)
    · right
      obtain ⟨e2, h2, hs2, hl2, hd2⟩ := hc.1 e' hmem' hsrc'
      obtain ⟨e3, h3, hs3, hl3, _⟩ := hc.2 e hmem hsrc
      have m1 := hmin e2 h2 hs2
      have m2 := hmin' e3 h3 hs3
      have hl : e2.level = e.level := by omega
      have hd : e2.dst = e.dst := hld e2 h2 e hmem (by rw [hs2, hsrc]) hl
      exact ⟨e, e', he, he', by omega, by rw [← hd2, hd]⟩

theorem highest_corr (g g' : Graph) (a a' : Nat) (ρ : Nat → Nat) (hc : EdgeCorr g g' a a' ρ) (hld : LD g) :
    (g.highest a = none ∧ g'.highest a' = none) ∨
    (∃ e e', g.highest a = some e ∧ g'.highest a' = some e' ∧ e'.level = e.level ∧ e'.dst = ρ e.dst) := by
  rcases highest_spec g a with ⟨h1, hno⟩ | ⟨e, he, hmem, hsrc, hmin⟩
  · rcases highest_spec g' a' with ⟨h2, _⟩ | ⟨e', _, hmem', hsrc', _⟩
    · exact Or.inl ⟨h1, h2⟩
    · obtain ⟨e0, h0, hs0, _⟩ := hc.1 e' hmem' hsrc'
      exact absurd hs0 (hno e0 h0)
  · rcases highest_spec g' a' with ⟨_, hno'⟩ | ⟨e', he', hmem', hsrc', hmin'⟩
    · obtain ⟨e0, h0, hs0, _⟩ := hc.2 e hmem hsrc
      exact absurd hs0 (hno' e0 h0)
    · right
      obtain ⟨e2, h2, hs2, hl2, hd2⟩ := hc.1 e' hmem' hsrc'
      obtain ⟨e3, h3, hs3, hl3, _⟩ := hc.2 e hmem hsrc
      have m1 := hmin e2 h2 hs2
      have m2 := hmin' e3 h3 hs3
      have hl : e2.level = e.level := by omega
      have hd : e2.dst = e.dst := hld e2 h2 e hmem (by rw [hs2, hsrc]) hl
      exact ⟨e, e', he, he', by omega, by rw [← hd2, hd]⟩

theorem fall_corr (g g' : Graph) (a a' : Nat) (ρ : Nat → Nat) (hc : EdgeCorr g g' a a' ρ) (hld : LD g)
    (hfell : ρ g.fellOff = g'.fellOff) : g'.fall a' = ρ (g.fall a) := by
  unfold Graph.fall
  rcases lowest_corr g g' a a' ρ hc hld with ⟨h1, h2⟩ | ⟨e, e', h1, h2, _, hd⟩
  · rw [h1, h2]; exact hfell.symm
  · rw [h1, h2]; exact hd

theorem jumpTarget_corr (g g' : Graph) (a a' : Nat) (ρ : Nat → Nat) (hc : EdgeCorr g g' a a' ρ) (hld : LD g)
    (hstuck : ρ g.stuck = g'.stuck) : g'.jumpTarget a' = ρ (g.jumpTarget a) := by
  unfold Graph.jumpTarget
  rcases highest_corr g g' a a' ρ hc hld with ⟨h1, h2⟩ | ⟨e, e', h1, h2, _, hd⟩
  · rw [h1, h2]; exact hstuck.symm
  · rw [h1, h2]; exact hd

theorem fallOfJump_corr (g g' : Graph) (a a' : Nat) (ρ : Nat → Nat) (hc : EdgeCorr g g' a a' ρ) (hld : LD g)
    (hfell : ρ g.fellOff = g'.fellOff) : g'.fallOfJump a' = ρ (g.fallOfJump a) := by
  unfold Graph.fallOfJump
  rcases lowest_corr g g' a a' ρ hc hld with ⟨h1, h2⟩ | ⟨e, e', h1, h2, hl, hd⟩
  · rw [h1, h2]; exact hfell.symm
  · rcases highest_corr g g' a a' ρ hc hld with ⟨h3, h4⟩ | ⟨x, x', h3, h4, hl', hd'⟩
    · rw [h1, h2, h3, h4]; exact hfell.symm
    · rw [h1, h2, h3, h4]; simp only [hl, hl']
      split
      · exact hd
      · exact hfell.symm

theorem stepE_morph (g g' : Graph) (a a' : Nat) (ρ : Nat → Nat)
    (hvs : g'.vs[a']? = g.vs[a]?) (hc : EdgeCorr g g' a a' ρ) (hld : LD g)
    (hfell : ρ g.fellOff = g'.fellOff) (hstuck : ρ g.stuck = g'.stuck)
    (hnone : g.vs[a]? = none → (a' = g'.fellOff ↔ a = g.fellOff))
    (hctx : ∀ o, g.vs[a]? = some (.item (.op o)) → g'.afterCtxE a' = g.afterCtxE a) :
    g'.stepE a' = mapStep ρ (g.stepE a) := by
  unfold Graph.stepE
  rw [hvs]
  cases hv : g.vs[a]? with
  | none =>
    have := hnone hv
    by_cases h : a = g.fellOff
    · simp [h, this.mpr h, mapStep]
    · have h' : ¬ a' = g'.fellOff := fun x => h (this.mp x)
      simp [h, h', mapStep]
  | some vo =>
    cases vo with
    | foreign lid => simp [mapStep]
    | item it =>
      cases it with
      | label id => simp only [mapStep]; rw [fall_corr g g' a a' ρ hc hld hfell]
      | ljump root lbl call =>
        simp only
        split
        · simp only [mapStep]; rw [jumpTarget_corr g g' a a' ρ hc hld hstuck]
        · simp only [mapStep]
          rw [jumpTarget_corr g g' a a' ρ hc hld hstuck, fallOfJump_corr g g' a a' ρ hc hld hfell]
      | op o =>
        simp only
        rw [hctx o hv]
        split
        · simp [mapStep]
        · simp only [mapStep]; rw [fall_corr g g' a a' ρ hc hld hfell]

/-! successors are targets of out-edges, or the two final states -/

theorem fall_cases (g : Graph) (a : Nat) :
    g.fall a = g.fellOff ∨ ∃ e ∈ g.es, e.src = a ∧ e.dst = g.fall a := by
  unfold Graph.fall
  rcases lowest_spec g a with ⟨h, _⟩ | ⟨e, he, hm, hs, _⟩
  · rw [h]; exact Or.inl rfl
  · rw [he]; exact Or.inr ⟨e, hm, hs, rfl⟩

theorem jumpTarget_cases (g : Graph) (a : Nat) :
    g.jumpTarget a = g.stuck ∨ ∃ e ∈ g.es, e.src = a ∧ e.dst = g.jumpTarget a := by
  unfold Graph.jumpTarget
  rcases highest_spec g a with ⟨h, _⟩ | ⟨e, he, hm, hs, _⟩
  · rw [h]; exact Or.inl rfl
  · rw [he]; exact Or.inr ⟨e, hm, hs, rfl⟩

theorem fallOfJump_cases (g : Graph) (a : Nat) :
    g.fallOfJump a = g.fellOff ∨ ∃ e ∈ g.es, e.src = a ∧ e.dst = g.fallOfJump a := by
  unfold Graph.fallOfJump
  rcases lowest_spec g a with ⟨h, _⟩ | ⟨e, he, hm, hs, _⟩
  · rw [h]; exact Or.inl rfl
  · rw [he]
    cases g.highest a with
    | none => exact Or.inl rfl
    | some hi =>
      simp only
      split
      · exact Or.inr ⟨e, hm, hs, rfl⟩
      · exact Or.inl rfl

/-- a property that holds for the targets of the out-edges of `a` and for the two final states holds for all
successors of `a` -/
theorem allSucc_stepE (g : Graph) (a : Nat) (P : Nat → Prop) (hfell : P g.fellOff) (hstuck : P g.stuck)
    (hedge : ∀ e ∈ g.es, e.src = a → P e.dst) : allSucc P (g.stepE a) := by
  have hf : P (g.fall a) := by
    rcases fall_cases g a with h | ⟨e, he, hs, hd⟩
    · rw [h]; exact hfell
    · rw [← hd]; exact hedge e he hs
  have hj : P (g.jumpTarget a) := by
    rcases jumpTarget_cases g a with h | ⟨e, he, hs, hd⟩
    · rw [h]; exact hstuck
    · rw [← hd]; exact hedge e he hs
  have hfj : P (g.fallOfJump a) := by
    rcases fallOfJump_cases g a with h | ⟨e, he, hs, hd⟩
    · rw [h]; exact hfell
    · rw [← hd]; exact hedge e he hs
  unfold Graph.stepE
  split
  · split <;> trivial
  · trivial
  · exact hf
  · split
    · exact hj
    · exact ⟨hj, hfj⟩
  · split
    · trivial
    · exact hf

end ESV.Decomp.Opt
