import ESV.Decomp.GrRound
/-
The loops of `group_branches` (`groupLoop`: the while loop for one if vertex; `groupGo`: the loop over the vertices)
keep the invariant `GInv`, the set of if vertices and the number of vertices; every vertex of the graph after behaves
like the same vertex of the graph before; the vertices marked for deletion are if vertices.
-/
namespace ESV.Decomp.Gr
open ESV.Beh ESV.Decomp ESV.Decomp.Opt ESV.Decomp.Br

/-- what a loop of `group_branches` does to the graph, as far as the theorem is concerned -/
structure Keeps (g g' : BGraph) : Prop where
  inv : GInv g'
  equiv : ∀ u, Equivalent g.ltsP g'.ltsP (u, 0) (u, 0)
  len : g'.vs.length = g.vs.length
  ifs : ∀ u, g'.isIfV u = g.isIfV u

theorem Keeps.refl (g : BGraph) (h : GInv g) : Keeps g g := ⟨h, fun _ => Equivalent.refl _ _, rfl, fun _ => rfl⟩

theorem Keeps.trans {g g' g'' : BGraph} (h1 : Keeps g g') (h2 : Keeps g' g'') : Keeps g g'' :=
  ⟨h2.inv, fun u => Equivalent.trans (h1.equiv u) (h2.equiv u), h2.len.trans h1.len, fun u => (h2.ifs u).trans (h1.ifs u)⟩

theorem rootOfVertex_spec (x : BVertex) (r : MOp) (h : BGraph.rootOfVertex x = some r) :
    ∃ l c, x.op = .item (.ljump r l c) ∧ x.ifOps = [] := by
  unfold BGraph.rootOfVertex at h
  split at h
  · rename_i r' l c h1 h2; cases h; exact ⟨l, c, h1, h2⟩
  · cases h

theorem rootOf_spec (g : BGraph) (v : Nat) (x : BVertex) (r : MOp) (hx : g.vs[v]? = some x) (h : g.rootOf v = some r) :
    ∃ l c, x.op = .item (.ljump r l c) ∧ x.ifOps = [] := by
  unfold BGraph.rootOf at h; rw [hx] at h; exact rootOfVertex_spec x r h

theorem keeps_removeIfEnd (g : BGraph) (id : Nat) (h : GInv g) : Keeps g (g.removeIfEnd id) := by
  rcases removeIfEnd_eq g id with h1 | ⟨u, h1⟩
  · rw [h1]; exact Keeps.refl g h
  · rw [h1]
    have hs : (modV g u (BGraph.eraseIfEndV id)).stepP = g.stepP := funext (stepP_modV g u _ (semPres_eraseIfEnd id))
    refine ⟨ginv_modV g u _ (semPres_eraseIfEnd id) h, ?_, modV_length g u _, isIfV_modV g u _ (fun _ => ⟨rfl, rfl⟩)⟩
    intro a
    exact equiv_of_step_eq g.stepP (modV g u (BGraph.eraseIfEndV id)).stepP hs.symm (a, 0)

/-- one round: attributes of `v` changed by `F`, else-edge reconnected to `w`'s else-target -/
theorem keeps_round (g : BGraph) (v ei ii iw iwe : Nat) (eE eI wI wE : BEdge) (F : BVertex → BVertex)
    (x y : BVertex) (c : RCtx g v ei ii eE eI F) (hx : g.vs[v]? = some x) (hy : g.vs[eE.dst]? = some y)
    (hw : g.isIfV eE.dst = true) (hwI : g.firstIf eE.dst = some (iw, wI)) (hsame : wI.dst = eI.dst)
    (hwE : g.firstElse eE.dst = some (iwe, wE))
    (htests : BGraph.testsOf (F x) = BGraph.testsOf x ++ BGraph.testsOf y) :
    Keeps g (merged g v F ei eE wE.dst) := by
  have m : Merge g (merged g v F ei eE wE.dst) v eE.dst x (F x) y := {
    ifv := c.ifv
    ifv' := c.ifv' _
    ifw := hw
    hx := hx
    hx' := by rw [RCtx.merged_vs_get, hx]; simp
    hy := hy
    tests := htests
    notx := c.inv.nn v x c.ifv hx
    notx' := c.fnot x (c.inv.nn v x c.ifv hx)
    noty := c.inv.nn _ y hw hy
    elseV := by unfold BGraph.elseTarget; rw [c.hE]
    ifW := by unfold BGraph.ifTarget; rw [hwI, c.hI]; exact hsame
    ifV' := c.ifTarget_v _
    elseV' := by rw [c.elseTarget_v]; unfold BGraph.elseTarget; rw [hwE]
    others := fun u hu j => c.stepP_other _ u hu j }
  exact ⟨c.ginv_merged _, m.equiv, RCtx.merged_length _ _ _ _ _ _, c.isIfV_merged _⟩

theorem vertex_of_isIfV (g : BGraph) (v : Nat) (h : g.isIfV v = true) : ∃ x, g.vs[v]? = some x := by
  cases hx : g.vs[v]? with
  | none => have := isIfV_lt g v h; rw [List.getElem?_eq_none_iff] at hx; omega
  | some x => exact ⟨x, rfl⟩

theorem testsOf_addIf (x : BVertex) (rw' : MOp) (r : MOp) (l : Nat) (c : Bool) (h : x.op = .item (.ljump r l c)) :
    BGraph.testsOf (BGraph.addIfV rw' x) = BGraph.testsOf x ++ [rw'] := by
  unfold BGraph.testsOf BGraph.addIfV; simp [h]

theorem testsOf_root (y : BVertex) (r : MOp) (h : BGraph.rootOfVertex y = some r) : BGraph.testsOf y = [r] := by
  obtain ⟨l, c, h1, h2⟩ := rootOfVertex_spec y r h
  unfold BGraph.testsOf; rw [h1, h2]

/-- the while loop for the if vertex `v` -/
theorem groupLoop_keeps (fuel : Nat) : ∀ (g : BGraph) (v : Nat) (del : List Nat) (first : Bool) (g' : BGraph)
    (del' : List Nat), GInv g → g.isIfV v = true → (∀ d ∈ del, g.isIfV d = true) →
    g.groupLoop fuel v del first = .ok (g', del') → Keeps g g' ∧ ∀ d ∈ del', g'.isIfV d = true := by
  induction fuel with
  | zero => intro g v del first g' del' _ _ _ h; unfold BGraph.groupLoop at h; cases h
  | succ fuel ih =>
    intro g v del first g' del' hinv hv hdel h
    unfold BGraph.groupLoop at h
    split at h
    · cases h
    · rename_i ei eE hE
      split at h
      · cases h
      · rename_i ii eI hI
        simp only at h
        split at h
        · cases h; exact ⟨Keeps.refl g hinv, hdel⟩
        · rename_i hw
          simp only [Bool.not_eq_true', Bool.not_eq_false] at hw
          split at h
          · cases h
          · rename_i iw wI hwI
            split at h
            · cases h; exact ⟨Keeps.refl g hinv, hdel⟩
            · rename_i hsame
              simp only [bne_iff_ne, ne_eq, Decidable.not_not] at hsame
              split at h
              · cases h
              · rename_i wid _
                obtain ⟨x, hx⟩ := vertex_of_isIfV g v hv
                obtain ⟨y, hy⟩ := vertex_of_isIfV g eE.dst hw
                obtain ⟨x0, r0, l0, id0, hx0, hop0, _⟩ := isIfV_spec g v hv
                rw [hx] at hx0; cases hx0
                split at h
                · cases h
                · rename_i g1 hg1
                  -- which vertex function the round applies
                  have hF : ∃ F : BVertex → BVertex, g1 = modV g v F ∧ (∀ z, (F z).op = z.op ∧ (F z).ifStart = z.ifStart) ∧
                      (∀ z, z.isNot = false → (F z).isNot = false) ∧
                      BGraph.testsOf (F x) = BGraph.testsOf x ++ BGraph.testsOf y := by
                    by_cases hf : first = true
                    · simp only [hf, if_true] at hg1
                      split at hg1
                      · rename_i rv rw' hrv hrw
                        cases hg1
                        refine ⟨BGraph.makeMultiV rw', rfl, fun _ => ⟨rfl, rfl⟩, fun _ _ => rfl, ?_⟩
                        unfold BGraph.rootOf at hrv hrw
                        rw [hx] at hrv; rw [hy] at hrw
                        rw [testsOf_root x rv hrv, testsOf_root y rw' hrw]
                        obtain ⟨l, c, h1, _⟩ := rootOfVertex_spec x rv hrv
                        unfold BGraph.testsOf BGraph.makeMultiV; simp [h1]
                      · cases hg1
                    · simp only [hf, Bool.false_eq_true, if_false] at hg1
                      split at hg1
                      · rename_i rw' hrw
                        cases hg1
                        refine ⟨BGraph.addIfV rw', rfl, fun _ => ⟨rfl, rfl⟩, fun _ hz => hz, ?_⟩
                        unfold BGraph.rootOf at hrw
                        rw [hy] at hrw
                        rw [testsOf_root y rw' hrw, testsOf_addIf x rw' r0 l0 false hop0]
                      · cases hg1
                  obtain ⟨F, rfl, hfop, hfnot, htests⟩ := hF
                  split at h
                  · cases h
                  · rename_i iwe wE hwE
                    have hwE' : g.firstElse eE.dst = some (iwe, wE) := hwE
                    have c : RCtx g v ei ii eE eI F := ⟨hinv, hv, hE, hI, hfop, hfnot⟩
                    have hrec : (modV g v F).reconnect ei wE.dst = merged g v F ei eE wE.dst := by
                      unfold BGraph.reconnect
                      have : (modV g v F).es[ei]? = some eE := c.eE_facts.1
                      rw [this]; rfl
                    rw [hrec] at h
                    have k1 := keeps_round g v ei ii iw iwe eE eI wI wE F x y c hx hy hw hwI hsame hwE' htests
                    have k2 := keeps_removeIfEnd (merged g v F ei eE wE.dst) wid k1.inv
                    have k12 := k1.trans k2
                    have hv3 : ((merged g v F ei eE wE.dst).removeIfEnd wid).isIfV v = true := by rw [k12.ifs]; exact hv
                    have hdel3 : ∀ d ∈ del ++ [eE.dst], ((merged g v F ei eE wE.dst).removeIfEnd wid).isIfV d = true := by
                      intro d hd
                      rw [k12.ifs]
                      rcases List.mem_append.mp hd with h' | h'
                      · exact hdel d h'
                      · simp only [List.mem_singleton] at h'; subst h'; exact hw
                    obtain ⟨k3, hd3⟩ := ih _ v _ false g' del' k12.inv hv3 hdel3 h
                    exact ⟨k12.trans k3, hd3⟩

/-- the loop over the vertices -/
theorem groupGo_keeps (l : List Nat) : ∀ (g : BGraph) (del : List Nat) (g' : BGraph) (del' : List Nat),
    GInv g → (∀ d ∈ del, g.isIfV d = true) → BGraph.groupGo l g del = .ok (g', del') →
    Keeps g g' ∧ ∀ d ∈ del', g'.isIfV d = true := by
  induction l with
  | nil => intro g del g' del' hinv hdel h; unfold BGraph.groupGo at h; cases h; exact ⟨Keeps.refl g hinv, hdel⟩
  | cons v rest ih =>
    intro g del g' del' hinv hdel h
    unfold BGraph.groupGo at h
    split at h
    · rename_i hc
      simp only [Bool.and_eq_true] at hc
      split at h
      · cases h
      · rename_i g1 del1 h1
        obtain ⟨k1, hd1⟩ := groupLoop_keeps _ g v del true g1 del1 hinv hc.1 hdel h1
        obtain ⟨k2, hd2⟩ := ih g1 del1 g' del' k1.inv hd1 h
        exact ⟨k1.trans k2, hd2⟩
    · exact ih g del g' del' hinv hdel h

end ESV.Decomp.Gr
