import ESV.Decomp.GraphInv
/-
The fuel of `explore` (the FIFO worklist of `_get_edges__add_edge`) never runs out: every queue entry is
popped once, a visit pushes at most three entries, and only the `items.length` item vertices are visited,
each at most once.
-/
namespace ESV.Decomp.Fuel
open ESV.Beh

/-- the item indices that were not visited yet -/
def unvisited (n : Nat) (visited : List Nat) : List Nat :=
  (List.range n).filter fun j => !visited.contains j

theorem filter_length_lt {α} (p q : α → Bool) (l : List α) (x : α) (hx : x ∈ l) (hp : p x = true)
    (hq : q x = false) (himp : ∀ y, q y = true → p y = true) :
    (l.filter q).length + 1 ≤ (l.filter p).length := by
  induction l with
  | nil => simp at hx
  | cons y ys ih =>
    have hmono : (ys.filter q).length ≤ (ys.filter p).length := by
      clear ih hx
      induction ys with
      | nil => simp
      | cons z zs ihz =>
        simp only [List.filter_cons]
        cases hqz : q z
        · cases p z <;> simp <;> omega
        · simp [himp z hqz]; exact ihz
    rcases List.mem_cons.mp hx with h | h
    · subst h
      simp [hp, hq]; exact hmono
    · have := ih h
      simp only [List.filter_cons]
      cases hqy : q y
      · cases p y <;> simp <;> omega
      · simp [himp y hqy]; exact this

theorem unvisited_cons (n : Nat) (visited : List Nat) (i : Nat) (hi : i < n) (hv : visited.contains i = false) :
    (unvisited n (i :: visited)).length + 1 ≤ (unvisited n visited).length := by
  unfold unvisited
  apply filter_length_lt _ _ _ i (by simpa using hi)
  · simpa using hv
  · simp
  · intro y hy
    simp only [List.contains_cons, Bool.not_or, Bool.and_eq_true] at hy
    exact hy.2

theorem unvisited_le (n : Nat) (visited : List Nat) : (unvisited n visited).length ≤ n := by
  unfold unvisited
  have := List.length_filter_le (fun j => !visited.contains j) (List.range n)
  simpa using this

theorem n1F_length (opt : Bool) (items : List Item) (lv i : Nat) (prev it : Item) :
    (n1F opt items lv i prev it).length ≤ 1 := by
  unfold n1F; split <;> simp

theorem holdF_length (opt : Bool) (items : List Item) (lv i : Nat) (prev it : Item) :
    (holdF opt items lv i prev it).length ≤ 1 := by
  unfold holdF
  split
  · split
    · split <;> simp
    · simp
  · simp

/-- `_get_edges__get_next_for` yields at most three successors, and only for an index inside the routine -/
theorem nextFor_length (labels : List Lbl) (opt : Bool) (rid : Nat) (items : List Item) (g : Graph)
    (lv i : Nat) (S : List (Nat × Nat)) (g1 : Graph)
    (h : nextFor labels opt rid items g lv i = .ok (S, g1)) : S.length ≤ 3 ∧ i < items.length := by
  obtain ⟨prev, it, hp, hi⟩ := nextFor_none labels opt rid items g lv i S g1 h
  have hlt : i < items.length := by
    rcases Nat.lt_or_ge i items.length with h | h
    · exact h
    · rw [List.getElem?_eq_none h] at hi; simp at hi
  refine ⟨?_, hlt⟩
  have h1 := n1F_length opt items lv i prev it
  have h2 := holdF_length opt items lv i prev it
  rw [nextFor_some labels opt rid items g lv i prev it hp hi] at h
  cases it with
  | op o => simp at h; obtain ⟨rfl, _⟩ := h; simp; omega
  | label id => simp at h; obtain ⟨rfl, _⟩ := h; simp; omega
  | ljump r lid c =>
    simp only at h
    cases hf : labels.find? fun l => l.id == lid with
    | none => simp [hf] at h
    | some l =>
      simp only [hf] at h
      split at h
      · cases hli : labelIndex items lid with
        | none => simp [hli] at h
        | some li => simp [hli] at h; obtain ⟨rfl, _⟩ := h; simp; omega
      · simp at h; obtain ⟨rfl, _⟩ := h; simp; omega

/-- the errors of `nextFor` are Python exceptions, never the model's "fuel" -/
theorem nextFor_not_fuel (labels : List Lbl) (opt : Bool) (rid : Nat) (items : List Item) (g : Graph)
    (lv i : Nat) : nextFor labels opt rid items g lv i ≠ .error "fuel" := by
  cases hp : prevItem items i with
  | none => unfold nextFor; simp [hp]
  | some prev =>
    cases hi : items[i]? with
    | none => unfold nextFor; simp [hp, hi]
    | some it =>
      rw [nextFor_some labels opt rid items g lv i prev it hp hi]
      cases it with
      | op o => simp
      | label id => simp
      | ljump r lid c =>
        simp only
        cases hf : labels.find? fun l => l.id == lid with
        | none => simp
        | some l =>
          simp only
          split
          · cases hli : labelIndex items lid with
            | none => simp
            | some li => simp
          · simp

/-- **the worklist never runs out of fuel**: the potential `queue.length + 3 * #unvisited` is at most the
fuel and decreases with every iteration -/
theorem explore_never_fuel (labels : List Lbl) (opt : Bool) (rid : Nat) (items : List Item) :
    ∀ (fuel : Nat) (queue : List (Nat × Nat)) (visited : List Nat) (g : Graph),
      queue.length + 3 * (unvisited items.length visited).length ≤ fuel →
      explore labels opt rid items fuel queue visited g ≠ .error "fuel" := by
  intro fuel
  induction fuel with
  | zero =>
    intro queue visited g h
    cases queue with
    | nil => simp [explore]
    | cons p q => simp at h
  | succ fuel ih =>
    intro queue visited g h
    cases queue with
    | nil => simp [explore]
    | cons p q =>
      obtain ⟨lv, i⟩ := p
      simp only [List.length_cons] at h
      simp only [explore]
      split
      · exact ih q visited g (by omega)
      · rename_i hv
        have hv' : visited.contains i = false := by simpa using hv
        split
        · exact ih q visited g (by omega)
        · split
          · rename_i e hnf
            intro hc
            have : e = "fuel" := by simpa using hc
            subst this
            exact nextFor_not_fuel labels opt rid items g lv i hnf
          · rename_i S g1 hnf
            obtain ⟨hS, hi⟩ := nextFor_length labels opt rid items g lv i S g1 hnf
            obtain ⟨_, _, a3⟩ := addEdges_spec i S g1 q
            have hu := unvisited_cons items.length visited i hi hv'
            apply ih
            rw [a3, List.length_append]
            omega

end ESV.Decomp.Fuel
