import ESV.Decomp.GrDelG
import ESV.Decomp.GrInv
import ESV.Decomp.GrMerge
/-
The final `delete_vertices` of `group_branches` under the flag-based reading: if no edge leads from a vertex that
stays to one that goes, and the vertices that go are if vertices, the graph after the deletion behaves like the kept
part of the graph before it, state `(a, j)` ↦ `(renumber del a, j)`.
-/
namespace ESV.Decomp.Gr
open ESV.Beh ESV.Decomp ESV.Decomp.Opt ESV.Decomp.Br

structure BDel (g : BGraph) (del : List Nat) : Prop where
  inv : GInv g
  closed : ∀ e ∈ g.es, e.src ∉ del → e.dst ∉ del
  ifs : ∀ d ∈ del, g.isIfV d = true

namespace BDel
variable {g : BGraph} {del : List Nat}

theorem vs_get (g : BGraph) (del : List Nat) (a : Nat) (ha : a ∉ del) :
    (g.deleteVs del).vs[renumber del a]? = g.vs[a]? := by
  have h : (g.deleteVs del).vs = keepIdx del g.vs 0 := rfl
  rw [h, renumber_eq_kept]
  have := keepIdx_get del g.vs 0 a (Nat.zero_le _) ha
  simpa [kept_zero] using this

theorem vs_length (g : BGraph) (del : List Nat) : (g.deleteVs del).vs.length = renumber del g.vs.length := by
  have h : (g.deleteVs del).vs = keepIdx del g.vs 0 := rfl
  rw [h, renumber_eq_kept]
  have := keepIdx_length del g.vs 0
  simpa [kept_zero] using this

theorem mem_es (g : BGraph) (del : List Nat) (e' : BEdge) :
    e' ∈ (g.deleteVs del).es ↔
      ∃ e ∈ g.es, e.src ∉ del ∧ e.dst ∉ del ∧ e' = { e with src := renumber del e.src, dst := renumber del e.dst } := by
  unfold BGraph.deleteVs
  simp only [List.mem_map, List.mem_filter]
  constructor
  · rintro ⟨e, ⟨he, hc⟩, rfl⟩
    simp at hc
    exact ⟨e, he, hc.1, hc.2, rfl⟩
  · rintro ⟨e, he, h1, h2, rfl⟩
    exact ⟨e, ⟨he, by simp [h1, h2]⟩, rfl⟩

theorem isIfV_del (g : BGraph) (del : List Nat) (a : Nat) (ha : a ∉ del) :
    (g.deleteVs del).isIfV (renumber del a) = g.isIfV a := isIfV_congr g _ a _ (vs_get g del a ha)

theorem lt (h : BDel g del) : ∀ d ∈ del, d < g.vs.length := fun d hd => isIfV_lt g d (h.ifs d hd)

theorem delAt (h : BDel g del) : DelAt g.toGraph del := by
  refine ⟨?_, ?_, ?_⟩
  · intro e he hs
    obtain ⟨b, hb, rfl⟩ := (mem_toGraph_es g e).mp he
    exact h.closed b hb hs
  · intro d hd; rw [toGraph_vs_length]; exact h.lt d hd
  · intro d hd
    obtain ⟨x, r, l, id, h1, h2, _⟩ := isIfV_spec g d (h.ifs d hd)
    unfold Graph.isCtxVertex
    rw [toGraph_vs_op g d, h1]; simp [h2]

theorem fu_del (h : BDel g del) : FU (g.deleteVs del) := by
  apply fu_of_ful
  have h0 := ful_of_fu g h.inv.fu
  unfold FUl at h0 ⊢
  unfold BGraph.deleteVs
  simp only
  rw [List.pairwise_map]
  have h1 := h0.sublist (List.filter_sublist (p := fun e => !del.contains e.src && !del.contains e.dst) (l := g.es))
  apply List.Pairwise.imp_of_mem _ h1
  intro a b ha hb hr hs hv
  have ha' := (List.mem_filter.mp ha).2
  have hb' := (List.mem_filter.mp hb).2
  simp at ha' hb'
  simp only at hs hv
  have hsrc : a.src = b.src := renumber_inj del _ _ ha'.1 hb'.1 hs
  have hv' : g.isIfV a.src = true := by
    have := isIfV_del g del a.src ha'.1
    unfold BGraph.deleteVs at this
    rw [← this]; exact hv
  exact hr hsrc hv'

theorem flagCorr (h : BDel g del) (a : Nat) (ha : a ∉ del) :
    FlagCorr g (g.deleteVs del) a (renumber del a) (renumber del) := by
  constructor
  · intro e he hs
    have hsd : e.src ∉ del := by rw [hs]; exact ha
    have hdd : e.dst ∉ del := h.closed e he hsd
    exact ⟨_, (mem_es g del _).mpr ⟨e, he, hsd, hdd, rfl⟩, by simp [hs], rfl, rfl⟩
  · intro e' he' hs
    obtain ⟨e, he, hsd, hdd, rfl⟩ := (mem_es g del e').mp he'
    simp only at hs
    exact ⟨e, he, renumber_inj del _ _ hsd ha hs, rfl, rfl⟩

theorem stuck_del (h : BDel g del) : renumber del g.toGraph.stuck = (g.deleteVs del).toGraph.stuck := by
  rw [toGraph_deleteVs]; exact h.delAt.stuck

theorem allSucc_mapStep {σ τ : Type} (f : σ → τ) (P : σ → Prop) (Q : τ → Prop) (hpq : ∀ s, P s → Q (f s))
    (st : Step σ Ev) (h : allSucc P st) : allSucc Q (mapStep f st) := by
  cases st with
  | silent n => exact hpq n h
  | emit e n => exact hpq n h
  | test e y n => exact ⟨hpq y h.1, hpq n h.2⟩
  | halt e => trivial

theorem mapStep_comp {σ τ υ : Type} (f : σ → τ) (f' : τ → υ) (st : Step σ Ev) :
    mapStep f' (mapStep f st) = mapStep (f' ∘ f) st := by cases st <;> rfl

/-- targets of a kept if vertex are kept -/
theorem targets_kept (h : BDel g del) (a : Nat) (ha : a ∉ del) : g.ifTarget a ∉ del ∧ g.elseTarget a ∉ del := by
  have hst : g.toGraph.stuck ∉ del := by
    intro hd; have := h.lt _ hd; rw [toGraph_stuck] at this; omega
  constructor
  · unfold BGraph.ifTarget
    cases hf : g.firstIf a with
    | none => exact hst
    | some p =>
      obtain ⟨h1, h2, _⟩ := firstIf_some g a p.1 p.2 hf
      exact h.closed _ (List.mem_of_getElem? h1) (by rw [h2]; exact ha)
  · unfold BGraph.elseTarget
    cases hf : g.firstElse a with
    | none => exact hst
    | some p =>
      obtain ⟨h1, h2, _⟩ := firstElse_some g a p.1 p.2 hf
      exact h.closed _ (List.mem_of_getElem? h1) (by rw [h2]; exact ha)

/-- the step of a kept vertex commutes with the renumbering, and its successors are kept -/
theorem step_del (h : BDel g del) (s : Nat × Nat) (hs : s.1 ∉ del) :
    (g.deleteVs del).stepP (renumber del s.1, s.2) = mapStep (fun p => (renumber del p.1, p.2)) (g.stepP s) ∧
    allSucc (fun p => p.1 ∉ del) (g.stepP s) := by
  obtain ⟨a, j⟩ := s
  simp only at hs
  cases hif : g.isIfV a with
  | false =>
    have hif' : (g.deleteVs del).isIfV (renumber del a) = false := by rw [isIfV_del g del a hs]; exact hif
    rw [stepP_not_if g a j hif, stepP_not_if _ _ j hif', toGraph_deleteVs, h.delAt.stepE a hs]
    by_cases hj : j = 0
    · simp only [hj, if_true, mapStep_comp]
      refine ⟨rfl, ?_⟩
      exact allSucc_mapStep (fun w : Nat => (w, 0)) (fun s => s ∉ del) (fun p : Nat × Nat => p.1 ∉ del) (fun s hs => hs) _
        (h.delAt.succ_kept a hs)
    · simp only [hj, if_false]; exact ⟨rfl, trivial⟩
  | true =>
    have hif' : (g.deleteVs del).isIfV (renumber del a) = true := by rw [isIfV_del g del a hs]; exact hif
    cases hx : g.vs[a]? with
    | none => have := isIfV_lt g a hif; rw [List.getElem?_eq_none_iff] at hx; omega
    | some x =>
      have hx' : (g.deleteVs del).vs[renumber del a]? = some x := by rw [vs_get g del a hs]; exact hx
      rw [stepP_if g a j x hif hx, stepP_if _ _ j x hif' hx']
      have t1 := elseTarget_corr g _ a _ (renumber del) (h.flagCorr a hs) h.fu_del hif' h.stuck_del
      have t2 := ifTarget_corr g _ a _ (renumber del) (h.flagCorr a hs) h.fu_del hif' h.stuck_del
      obtain ⟨k1, k2⟩ := h.targets_kept a hs
      unfold BGraph.ifStep BGraph.takenOf BGraph.notTakenOf
      simp only [t1, t2]
      cases (BGraph.testsOf x)[j]? with
      | none => exact ⟨rfl, trivial⟩
      | some t =>
        simp only [mapStep]
        constructor
        · congr 1
          · cases x.isNot <;> rfl
          · split
            · rfl
            · cases x.isNot <;> rfl
        · constructor
          · cases x.isNot <;> simp [k1, k2]
          · split
            · exact hs
            · cases x.isNot <;> simp [k1, k2]

/-- **the deletion**: a kept vertex behaves as before -/
theorem equiv (h : BDel g del) (a : Nat) (ha : a ∉ del) :
    Equivalent g.ltsP (g.deleteVs del).ltsP (a, 0) (renumber del a, 0) :=
  equiv_of_stepMap g.ltsP (g.deleteVs del).ltsP (fun p => (renumber del p.1, p.2)) (fun p => p.1 ∉ del)
    (fun s hs => h.step_del s hs) (a, 0) ha

end BDel
end ESV.Decomp.Gr
