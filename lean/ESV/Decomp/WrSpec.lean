import ESV.Comp.CgAlloc
import ESV.Decomp.WriterSem
/-
What `Src.tr` (the meaning of a core program: a continuation-passing translation into a node table) leaves in the table,
stated as relations between a statement, its entry node and its continuation node over the FINAL node list - the node table read,
not built.  The fragment without loops, switches, jumps and calls (`lf`: ops, context ops, `return` / `end` / `hold`,
if / elseif / else with `not` and `||`, and label statements), for which `Src.tr` appends nodes and sets the node of every label
it meets - once, when every label is defined once (`Nodup`).  This file: the relations and the bookkeeping of tables;
`tr_spec` / `graph_spec` are in WrSpecTr.lean.
-/
namespace ESV.Decomp.Wr
open ESV ESV.Beh ESV.Comp

/-- the tests of one branch (`Src.testChain`): entry, where a taken test goes, where the last untaken test goes -/
inductive SpecT (N : List Src.Node) : List Ev → Nat → Nat → Nat → Prop where
  | nil {onTaken onNone : Nat} : SpecT N [] onNone onTaken onNone
  | cons {t : Ev} {rest : List Ev} {e re onTaken onNone : Nat} :
      N[e]? = some (.test t onTaken re) → SpecT N rest re onTaken onNone → SpecT N (t :: rest) e onTaken onNone

/-- the single statement behind a context op (`Src.afterCtxSpecial`): it never stops the routine -/
inductive SpecI (N : List Src.Node) : Src.Stmt → Nat → Nat → Prop where
  | op {name : String} {ps : List Beh.Param} {e k : Nat} : N[e]? = some (.emit ⟨name, ps⟩ k) → SpecI N (.op name ps) e k
  | ret {e k : Nat} : N[e]? = some (.emit ⟨ESV.Spec.op_return, []⟩ k) → SpecI N .ret e k
  | end_ {e k : Nat} : N[e]? = some (.emit ⟨ESV.Spec.op_end, []⟩ k) → SpecI N .end_ e k
  | hold {e k : Nat} : N[e]? = some (.emit ⟨ESV.Spec.op_hold, []⟩ k) → SpecI N .hold e k

mutual
/-- statement, entry node, continuation node; `labs`: the node of every label -/
inductive SpecS (labs : List (String × Nat)) (N : List Src.Node) : Src.Stmt → Nat → Nat → Prop where
  | opHalt {name : String} {ps : List Beh.Param} {e k : Nat} : endsFlow name = true → N[e]? = some (.halt ⟨name, ps⟩) →
      SpecS labs N (.op name ps) e k
  | opEmit {name : String} {ps : List Beh.Param} {e k : Nat} : endsFlow name = false → N[e]? = some (.emit ⟨name, ps⟩ k) →
      SpecS labs N (.op name ps) e k
  | ret {e k : Nat} : N[e]? = some (.halt ⟨ESV.Spec.op_return, []⟩) → SpecS labs N .ret e k
  | end_ {e k : Nat} : N[e]? = some (.halt ⟨ESV.Spec.op_end, []⟩) → SpecS labs N .end_ e k
  | hold {e k : Nat} : N[e]? = some (.halt ⟨ESV.Spec.op_hold, []⟩) → SpecS labs N .hold e k
  | ctx {c : String} {cps : List Beh.Param} {inner : Src.Stmt} {e ie k : Nat} : N[e]? = some (.emit ⟨c, cps⟩ ie) → SpecI N inner ie k →
      SpecS labs N (.ctx c cps inner) e k
  | label {n : String} {e k : Nat} : labs.lookup n = some e → N[e]? = some (.silent k) → SpecS labs N (.label n) e k
  | iteElse {bs : Src.Branches} {els : Src.Stmts} {e ee k : Nat} : SpecL labs N els ee k → SpecB labs N bs e k ee →
      SpecS labs N (.ite bs true els) e k
  | iteNoElse {bs : Src.Branches} {els : Src.Stmts} {e k : Nat} : SpecB labs N bs e k k → SpecS labs N (.ite bs false els) e k
/-- statement list -/
inductive SpecL (labs : List (String × Nat)) (N : List Src.Node) : Src.Stmts → Nat → Nat → Prop where
  | nil {k : Nat} : SpecL labs N .nil k k
  | cons {s : Src.Stmt} {r : Src.Stmts} {e m k : Nat} : SpecS labs N s e m → SpecL labs N r m k → SpecL labs N (.cons s r) e k
/-- branches of an if: entry, continuation of the bodies, entry of the else part -/
inductive SpecB (labs : List (String × Nat)) (N : List Src.Node) : Src.Branches → Nat → Nat → Nat → Prop where
  | nil {k ee : Nat} : SpecB labs N .nil ee k ee
  | consPos {tests : List Ev} {body : Src.Stmts} {r : Src.Branches} {e re be k ee : Nat} :
      SpecB labs N r re k ee → SpecL labs N body be k → SpecT N tests e be re → SpecB labs N (.cons false tests body r) e k ee
  | consNeg {tests : List Ev} {body : Src.Stmts} {r : Src.Branches} {e re be k ee : Nat} :
      SpecB labs N r re k ee → SpecL labs N body be k → SpecT N tests e re be → SpecB labs N (.cons true tests body r) e k ee
end

/-! ## the fragment -/

def lfInner : Src.Stmt → Bool
  | .op _ _ | .ret | .end_ | .hold => true
  | _ => false

def isNilStmts : Src.Stmts → Bool
  | .nil => true
  | _ => false

mutual
def lf : Src.Stmt → Bool
  | .op _ _ | .ret | .end_ | .hold | .label _ => true
  | .ctx _ _ inner => lfInner inner
  | .ite bs hasElse els => lfB bs && lfL els && (hasElse || isNilStmts els)
  | _ => false
def lfL : Src.Stmts → Bool
  | .nil => true
  | .cons s r => lf s && lfL r
def lfB : Src.Branches → Bool
  | .nil => true
  | .cons _ _ body r => lfL body && lfB r
end

/-! ## tables -/

/-- `i` is the node of no label of `D` -/
def Off (labs : List (String × Nat)) (D : List String) (i : Nat) : Prop := ∀ n ∈ D, labs.lookup n ≠ some i

/-- `R` was made from `b` by appending nodes and setting the nodes of labels of `D` -/
def GrowL (labs : List (String × Nat)) (D : List String) (b R : Src.B) : Prop :=
  (tbl b).length ≤ (tbl R).length ∧ ∀ i, i < (tbl b).length → Off labs D i → (tbl R)[i]? = (tbl b)[i]?

/-- the final list `N` has what `R` has at every node that is no label node, and at the nodes of the labels of `D` -/
def ExtL (labs : List (String × Nat)) (D : List String) (R : Src.B) (N : List Src.Node) : Prop :=
  ∀ i, i < (tbl R).length → ((∀ n, labs.lookup n ≠ some i) ∨ ∃ n ∈ D, labs.lookup n = some i) → N[i]? = (tbl R)[i]?

theorem GrowL.refl (labs : List (String × Nat)) (D : List String) (b : Src.B) : GrowL labs D b b := ⟨Nat.le_refl _, fun _ _ _ => rfl⟩

theorem GrowL.of_pushes {labs : List (String × Nat)} {D : List String} {b R : Src.B} (h : Pushes b R) : GrowL labs D b R :=
  ⟨h.len, fun _ hi _ => h.same hi⟩

theorem Off.sub {labs : List (String × Nat)} {D D' : List String} {i : Nat} (h : Off labs D i) (hs : ∀ n ∈ D', n ∈ D) : Off labs D' i :=
  fun n hn => h n (hs n hn)

theorem GrowL.trans {labs : List (String × Nat)} {D1 D2 D : List String} {a b c : Src.B} (h1 : GrowL labs D1 a b) (h2 : GrowL labs D2 b c)
    (hd1 : ∀ n ∈ D1, n ∈ D) (hd2 : ∀ n ∈ D2, n ∈ D) : GrowL labs D a c :=
  ⟨Nat.le_trans h1.1 h2.1, fun i hi ho => by
    rw [h2.2 i (Nat.lt_of_lt_of_le hi h1.1) (ho.sub hd2), h1.2 i hi (ho.sub hd1)]⟩

theorem GrowL.mono {labs : List (String × Nat)} {D D' : List String} {b R : Src.B} (h : GrowL labs D b R) (hs : ∀ n ∈ D, n ∈ D') :
    GrowL labs D' b R := ⟨h.1, fun i hi ho => h.2 i hi (ho.sub hs)⟩

/-- the label table: names have different nodes, all below `len` -/
structure LabsOk (labs : List (String × Nat)) (len : Nat) : Prop where
  inj : ∀ n n' i, labs.lookup n = some i → labs.lookup n' = some i → n = n'
  lt : ∀ n i, labs.lookup n = some i → i < len

theorem LabsOk.mono {labs : List (String × Nat)} {a b : Nat} (h : LabsOk labs a) (hab : a ≤ b) : LabsOk labs b :=
  ⟨h.inj, fun n i hl => Nat.lt_of_lt_of_le (h.lt n i hl) hab⟩

/-- what is kept when the table grows by a part that defines other labels -/
theorem ExtL.back {labs : List (String × Nat)} {D1 D2 : List String} {R1 R2 : Src.B} {N : List Src.Node} (hl : LabsOk labs (tbl R1).length)
    (h : ExtL labs (D2 ++ D1) R2 N) (hg : GrowL labs D2 R1 R2) (hdis : ∀ n ∈ D1, n ∉ D2) : ExtL labs D1 R1 N := by
  intro i hi hc
  have hi2 : i < (tbl R2).length := Nat.lt_of_lt_of_le hi hg.1
  rcases hc with hno | ⟨n, hn, hln⟩
  · rw [h i hi2 (.inl hno), hg.2 i hi (fun n _ => hno n)]
  · rw [h i hi2 (.inr ⟨n, List.mem_append_right _ hn, hln⟩)]
    exact hg.2 i hi (fun n' hn' hl' => hdis n hn (by rw [hl.inj n n' i hln hl']; exact hn'))

theorem ExtL.sub {labs : List (String × Nat)} {D D' : List String} {R : Src.B} {N : List Src.Node} (h : ExtL labs D R N)
    (hs : ∀ n ∈ D', n ∈ D) : ExtL labs D' R N := fun i hi hc =>
  h i hi (hc.imp id (fun ⟨n, hn, hl⟩ => ⟨n, hs n hn, hl⟩))

/-- the node a push has made is no label node: the final list has it -/
theorem ExtL.at_push {labs : List (String × Nat)} {D : List String} {b : Src.B} {n : Src.Node} {N : List Src.Node}
    (hl : LabsOk labs (tbl b).length) (h : ExtL labs D (b.push n).1 N) : N[(tbl b).length]? = some n := by
  have hlen := (tbl_push b n).1
  rw [h _ (by rw [hlen]; simp) (.inl fun m hm => Nat.lt_irrefl _ (hl.lt m _ hm)), hlen]; simp

theorem ExtL.of_push {labs : List (String × Nat)} {D : List String} {b : Src.B} {n : Src.Node} {N : List Src.Node}
    (h : ExtL labs D (b.push n).1 N) : ExtL labs D b N := fun i hi hc => by
  have hlen := (tbl_push b n).1
  rw [h i (by rw [hlen]; simp; omega) hc, hlen, List.getElem?_append_left hi]

theorem ExtL.of_pushes {labs : List (String × Nat)} {D : List String} {b R : Src.B} {N : List Src.Node}
    (h : ExtL labs D R N) (hp : Pushes b R) : ExtL labs D b N := fun i hi hc => by
  rw [h i (Nat.lt_of_lt_of_le hi hp.len) hc, hp.same hi]

theorem plainEnv_ev {env : Src.Env} (he : PlainEnv env) (e : Ev) : Src.substEv env.subst e = e := by
  rw [he.1]; exact substEv_nil e

theorem testChain_spec (labs : List (String × Nat)) (D : List String) : ∀ (ts : List Ev) (x y : Nat) (b : Src.B),
    LabsOk labs (tbl b).length →
    Pushes b (Src.testChain [] ts x y b).1 ∧
      ∀ N, ExtL labs D (Src.testChain [] ts x y b).1 N → SpecT N ts (Src.testChain [] ts x y b).2 x y
  | [], x, y, b, _ => by simp only [Src.testChain]; exact ⟨Pushes.refl b, fun _ _ => .nil⟩
  | t :: rest, x, y, b, hl => by
    simp only [Src.testChain]
    obtain ⟨hp, hs⟩ := testChain_spec labs D rest x y b hl
    refine ⟨hp.trans (Pushes.push _ _), fun N hN => ?_⟩
    rw [(tbl_push _ _).2]
    refine .cons ?_ (hs N hN.of_push)
    have := hN.at_push (hl.mono hp.len)
    rwa [substEv_nil] at this

end ESV.Decomp.Wr
