import ESV.Decomp.SemE
/-
Why `noSilentCycle` is needed: `Wait; §L1: Jump @L2; §L2: Jump @L1` has the structure of a base graph; the rule
fires twice (L1/J1 and L2/J2), everything but the `Wait` is deleted, and the endless loop becomes "run off the end".
-/
namespace ESV.Decomp
open ESV.Beh

def cexSilentCycle : Graph :=
  { vs := [.item (.op ⟨0, "Wait", []⟩), .item (.label 1), .item (.ljump ⟨1, "Jump", []⟩ 2 false),
           .item (.label 2), .item (.ljump ⟨2, "Jump", []⟩ 1 false)],
    es := [⟨0, 1, 0, false⟩, ⟨1, 2, 0, false⟩, ⟨2, 3, 1, false⟩, ⟨3, 4, 0, false⟩, ⟨4, 1, 1, true⟩] }

def cexSilentCycleLabels : List Lbl := [⟨1, 1, 0, false⟩, ⟨2, 2, 0, false⟩]

theorem cexSilentCycle_diverges (ω : Nat → Bool) :
    ∀ (m k : Nat) (s : Nat), (s = 1 ∨ s = 2 ∨ s = 3 ∨ s = 4) → (run cexSilentCycle.ltsE ω m k s).2 ≠ none := by
  intro m
  induction m with
  | zero => intro k s _; simp [run]
  | succ m ih =>
    intro k s hs
    have h1 : cexSilentCycle.ltsE.step (1 : Nat) = .silent (2 : Nat) := by rfl
    have h2 : cexSilentCycle.ltsE.step (2 : Nat) = .silent (3 : Nat) := by rfl
    have h3 : cexSilentCycle.ltsE.step (3 : Nat) = .silent (4 : Nat) := by rfl
    have h4 : cexSilentCycle.ltsE.step (4 : Nat) = .silent (1 : Nat) := by rfl
    rcases hs with rfl | rfl | rfl | rfl
    · simp only [run, h1]; exact ih k 2 (by simp)
    · simp only [run, h2]; exact ih k 3 (by simp)
    · simp only [run, h3]; exact ih k 4 (by simp)
    · simp only [run, h4]; exact ih k 1 (by simp)

/-- without `noSilentCycle` the statement of `optimizePaths_preserves` is false -/
theorem optimize_silent_cycle_counterexample :
    graphOk cexSilentCycle = true ∧ noSilentCycle cexSilentCycle = false ∧
    ∃ g', optimizePaths cexSilentCycleLabels cexSilentCycle = .ok g' ∧
      ¬ Equivalent cexSilentCycle.ltsE g'.ltsE (0 : Nat) (0 : Nat) := by
  refine ⟨by decide, by decide, ⟨[.item (.op ⟨0, "Wait", []⟩)], []⟩, by rfl, ?_⟩
  intro h
  obtain ⟨m, _, q⟩ := h.2 (fun _ => true) 2 0
  have hh : (run (Graph.ltsE ⟨[.item (.op ⟨0, "Wait", []⟩)], []⟩) (fun _ => true) 2 0 (0 : Nat)).2 = none := by rfl
  have := (q hh).1
  cases m with
  | zero => simp [run] at this
  | succ m =>
    have h0 : cexSilentCycle.ltsE.step (0 : Nat) = .emit ⟨"Wait", []⟩ (1 : Nat) := by rfl
    simp only [run, h0] at this
    exact cexSilentCycle_diverges (fun _ => true) m 0 1 (by simp) this

end ESV.Decomp
