import ESV.Decomp.BrGuard
import ESV.Decomp.BrGraph
/-
`BGraph.toGraph` and the operations of `build_branches`: markers and the else flag are invisible, `reconnect` is
`reconnectG`, `deleteVs` is `deleteVertices`; the vertex tests of the model read the forgotten graph.
-/
namespace ESV.Decomp.Br
open ESV.Beh ESV.Decomp ESV.Decomp.Opt

theorem map_modify_of_eq {α β : Type} (f : α → β) (m : α → α) (h : ∀ x, f (m x) = f x) (l : List α) (i : Nat) :
    (l.modify i m).map f = l.map f := by
  apply List.ext_getElem?
  intro j
  rw [List.getElem?_map, List.getElem?_map, List.getElem?_modify]
  cases l[j]? with
  | none => rfl
  | some x => by_cases hij : i = j <;> simp [hij, h]

theorem map_eraseIdx {α β : Type} (f : α → β) (l : List α) (i : Nat) :
    (l.eraseIdx i).map f = (l.map f).eraseIdx i := by
  induction l generalizing i with
  | nil => rfl
  | cons x xs ih =>
    cases i with
    | zero => rfl
    | succ i => simp [List.eraseIdx, ih]

theorem toGraph_setIfStart (g : BGraph) (v id : Nat) : (g.setIfStart v id).toGraph = g.toGraph := by
  unfold BGraph.setIfStart BGraph.toGraph
  simp only [Graph.mk.injEq, and_true]
  apply map_modify_of_eq
  intro x; rfl

theorem toGraph_addIfEnd (g : BGraph) (v id : Nat) : (g.addIfEnd v id).toGraph = g.toGraph := by
  unfold BGraph.addIfEnd BGraph.toGraph
  simp only [Graph.mk.injEq, and_true]
  apply map_modify_of_eq
  intro x; rfl

theorem toGraph_setElse (g : BGraph) (i : Nat) : (g.setElse i).toGraph = g.toGraph := by
  unfold BGraph.setElse BGraph.toGraph
  simp only [Graph.mk.injEq, true_and]
  apply map_modify_of_eq
  intro x; rfl

theorem toGraph_es_get (g : BGraph) (i : Nat) : g.toGraph.es[i]? = (g.es[i]?).map BEdge.toEdge := by
  unfold BGraph.toGraph; simp

theorem toGraph_vs_get (g : BGraph) (v : Nat) : g.toGraph.vs[v]? = g.opAt v := by
  unfold BGraph.toGraph BGraph.opAt; simp

theorem toGraph_reconnect (g : BGraph) (i new : Nat) : (g.reconnect i new).toGraph = reconnectG g.toGraph i new := by
  unfold BGraph.reconnect reconnectG
  rw [toGraph_es_get]
  cases h : g.es[i]? with
  | none => rfl
  | some e =>
    simp only [Option.map_some]
    unfold BGraph.toGraph
    simp only [List.map_append, List.map_cons, List.map_nil, map_eraseIdx]
    rfl

theorem toGraph_deleteVs (g : BGraph) (del : List Nat) : (g.deleteVs del).toGraph = deleteVertices g.toGraph del := by
  unfold BGraph.deleteVs deleteVertices BGraph.toGraph
  simp only [Graph.mk.injEq]
  constructor
  · rw [List.zipIdx_map, List.filter_map, List.map_map, List.map_map]
    rfl
  · rw [List.filter_map, List.map_map, List.map_map]
    rfl

theorem isJumpV_eq (g : BGraph) (v : Nat) : g.isJumpV v = isJumpVertex g.toGraph v := by
  unfold BGraph.isJumpV isJumpVertex
  rw [toGraph_vs_get]
  rcases g.opAt v with _ | (it | _)
  · rfl
  · cases it <;> rfl
  · rfl

theorem isLabelV_eq (g : BGraph) (v : Nat) : g.isLabelV v = isLabelVertex g.toGraph v := by
  unfold BGraph.isLabelV isLabelVertex
  rw [toGraph_vs_get]
  rcases g.opAt v with _ | (it | _)
  · rfl
  · cases it <;> rfl
  · rfl

/-- the guard reads the forgotten graph only -/
theorem jumpOk_congr (g g' : BGraph) (h : g.toGraph = g'.toGraph) (j endV : Nat) : g.jumpOk j endV = g'.jumpOk j endV := by
  unfold BGraph.jumpOk BGraph.inIds
  rw [isJumpV_eq, isJumpV_eq, h]

theorem toGraph_bypassJump (g g' : BGraph) (h : g.toGraph = g'.toGraph) (del del' : List Nat) (j endV : Nat) :
    (g.bypassJump del j endV).1.toGraph = (g'.bypassJump del' j endV).1.toGraph := by
  unfold BGraph.bypassJump BGraph.inIds
  rw [isJumpV_eq, isJumpV_eq, h]
  split
  · split
    · simp only [toGraph_reconnect, h]
    · exact h
  · exact h

end ESV.Decomp.Br
