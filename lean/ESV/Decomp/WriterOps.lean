import ESV.Decomp.SemL
import ESV.Src.Ast
/-
The text writers of the ExplorerScript decompiler (`ssb_converting/decompiler/write_handlers/`), op level.

The writers print special syntax for many ops (`$X = 1;`, `if ( $X == 1 )`, `switch ( dungeon_mode(5) )`, `case > 3:` …).  The
model does not produce text: it produces the core statement the text DENOTES, i.e. what `surface.lower_program(astdump(text))`
(harness/gen/surface.py, written from docs/language_spec.rst) makes of it.  For most ops that is the op itself; where it is not
(`BranchValue(x, ==, y)` is printed `x == y` and read back as `Branch(x, y)`; `flag_CalcValue(x, =, y)` → `flag_Set`; `$PERF[i]`
→ `BranchPerformance` / `flag_SetPerformance`; `BranchDebug(5)` → `debug` → `BranchDebug(1)`; `CaseScenario` ↔ `CaseValue` by the
switch it stands in; parameters the syntax does not print are dropped) the function below says so.

Two kinds of failure:
* the Python code raises (IndexError for a missing parameter, TypeError for `const > 0`, ValueError for `SsbOperator(99)` or an
  unknown op): `.error class` - `convert()` answers with the SsbScript fallback;
* the text is written but the parser cannot read it back (a string where the grammar wants `integer_like`, a constant where it
  wants `INTEGER`): second component `some why` - the writer goes on, the routine set is counted as "unparseable".
-/
namespace ESV.Decomp.Wr
open ESV.Beh ESV.Src

/-- a constant is printed as its name: read back as IDENTIFIER / VARIABLE (`[$]? [a-zA-Z_][0-9a-zA-Z_]*`) unless the lexer
takes the name for one of its literal tokens (`TRUE`, `FALSE`, `end`, … - `ESV.Gen.expsLitC`, regenerated from the lexer) -/
def constOk (s : String) : Bool :=
  let cs := s.toList
  let body := match cs with
    | '$' :: r => r
    | r => r
  (match body with
   | c :: r => (c.isAlpha || c == '_') && r.all fun d => d.isAlphanum || d == '_'
   | [] => false) && !(ESV.Gen.expsLitC.any fun kv => kv.1 == cs)

/-- the grammar's `integer_like`: INTEGER | DECIMAL | IDENTIFIER | VARIABLE -/
def isIL : Param → Bool
  | .int _ | .fixed _ => true
  | .const s => constOk s
  | _ => false

/-- the grammar's `pos_argument`: integer_like | string | position_marker -/
def argOk : Param → Bool
  | .const s => constOk s
  | _ => true

def argsBad (ps : List Param) : Option String := if ps.all argOk then none else some "argument"

def isIntLit : Param → Bool
  | .int _ => true
  | _ => false

/-- the grammar's `string`: a string literal or a language string -/
def isStrLit : Param → Bool
  | .str _ | .lang _ => true
  | _ => false

def need (ok : Bool) (why : String) : Option String := if ok then none else some why

def orBad (a b : Option String) : Option String :=
  match a with
  | some x => some x
  | none => b

/-- `Position<'name', x, y>` prints an offset > 1 as `.5`, which reads back as offset 2; any other offset as nothing (0) -/
def canonParam : Param → Param
  | .pos n xo yo xr yr => .pos n (if xo > 1 then 2 else 0) (if yo > 1 then 2 else 0) xr yr
  | p => p

/-- `op.params[i]` -/
def param (ps : List Param) (i : Nat) : Except String Param :=
  match ps[i]? with
  | some p => .ok p
  | none => .error "IndexError"

/-- `p > 0` of a Python parameter object: only ints compare with ints -/
def gt0 : Param → Except String Bool
  | .int i => .ok (decide (i > 0))
  | _ => .error "TypeError"

/-- `p < 1` -/
def lt1 : Param → Except String Bool
  | .int i => .ok (decide (i < 1))
  | _ => .error "TypeError"

/-- `SsbOperator(p).notation`; the text is read back through the same table -/
def operatorNotation (p : Param) : Except String String :=
  match p with
  | .int i =>
    match ESV.Gen.ssbOperators.find? fun t => (t.2.1 : Int) == i with
    | some t => .ok t.2.2
    | none => .error "ValueError"
  | _ => .error "ValueError"

/-- `SsbCalcOperator(p).notation` -/
def calcNotation (p : Param) : Except String String :=
  match p with
  | .int i =>
    match ESV.Gen.ssbCalcOperators.find? fun t => (t.2.1 : Int) == i with
    | some t => .ok t.2.2
    | none => .error "ValueError"
  | _ => .error "ValueError"

def b2i (b : Bool) : Param := .int (if b then 1 else 0)

/-- `IfWriteHandler._if_header_for(op)`: one clause of an if header, as the test it denotes -/
def lowerTest (perf : String) (o : MOp) : Except String (Ev × Option String) := do
  let ps := o.params
  if o.name == "Branch" then
    let p0 ← param ps 0
    let p1 ← param ps 1
    pure (⟨"Branch", [p0, p1]⟩, need (isIL p0 && isIL p1) "if-header")
  else if o.name == "BranchBit" then
    let p0 ← param ps 0
    let p1 ← param ps 1
    -- `$PERFORMANCE_PROGRESS_LIST[i]` is read as BranchPerformance(i, 1)
    if p0 == .const perf then pure (⟨"BranchPerformance", [p1, .int 1]⟩, need (isIntLit p1) "if-header")
    else pure (⟨"BranchBit", [p0, p1]⟩, need (isIL p0 && isIntLit p1) "if-header")
  else if o.name == "BranchDebug" || o.name == "BranchEdit" || o.name == "BranchVariation" then
    let p0 ← param ps 0
    let b ← gt0 p0
    pure (⟨o.name, [b2i b]⟩, none)
  else if o.name == "BranchExecuteSub" || o.name == "BranchSum" then
    pure (⟨o.name, ps.map canonParam⟩, argsBad ps)
  else if o.name == "BranchPerformance" then
    let p1 ← param ps 1
    let neg ← lt1 p1
    let p0 ← param ps 0
    pure (⟨"BranchPerformance", [p0, b2i (!neg)]⟩, need (isIntLit p0) "if-header")
  else if o.name == "BranchScenarioNow" || o.name == "BranchScenarioNowAfter" || o.name == "BranchScenarioNowBefore"
      || o.name == "BranchScenarioAfter" || o.name == "BranchScenarioBefore" then
    let p0 ← param ps 0
    let p1 ← param ps 1
    let p2 ← param ps 2
    pure (⟨o.name, [p0, p1, p2]⟩, need (isIL p0 && isIntLit p1 && isIntLit p2) "if-header")
  else if o.name == "BranchValue" then
    let p0 ← param ps 0
    let p1 ← param ps 1
    let nt ← operatorNotation p1
    let p2 ← param ps 2
    -- `x == y` is read as Branch(x, y)
    if nt == "==" then pure (⟨"Branch", [p0, p2]⟩, need (isIL p0 && isIL p2) "if-header")
    else pure (⟨"BranchValue", [p0, p1, p2]⟩, need (isIL p0 && isIL p2) "if-header")
  else if o.name == "BranchVariable" then
    let p0 ← param ps 0
    let p1 ← param ps 1
    let _ ← operatorNotation p1
    let p2 ← param ps 2
    pure (⟨"BranchVariable", [p0, p1, p2]⟩, need (isIL p0 && isIL p2) "if-header")
  else .error "ValueError"

/-- the op names `SwitchWriteHandler._switch_header_for` prints as an operation call -/
def switchAsOperation : List String :=
  ["message_SwitchMenu", "message_SwitchMenu2", "SwitchDirection", "SwitchDirectionLives", "SwitchDirectionLives2",
   "SwitchDirectionMark", "SwitchLives", "SwitchValue", "SwitchVariable", "main_EnterAdventure", "main_EnterRescueUser",
   "main_EnterTraining", "main_EnterTraining2", "message_Menu", "ProcessSpecial"]

/-- `SwitchWriteHandler._switch_header_for(op)` -/
def lowerSwitchHdr (o : MOp) : Except String (Ev × Option String) := do
  let ps := o.params
  if switchAsOperation.contains o.name then pure (⟨o.name, ps.map canonParam⟩, argsBad ps)
  else if o.name == ESV.Gen.op_switch_dungeon_mode || o.name == "SwitchRandom" || o.name == "SwitchScenario"
      || o.name == "SwitchScenarioLevel" || o.name == "Switch" then
    let p0 ← param ps 0
    pure (⟨o.name, [p0]⟩, need (isIL p0) "switch-header")
  else if o.name == "SwitchSector" then pure (⟨"SwitchSector", []⟩, none)
  else .error "ValueError"

/-- `SwitchWriteHandler._case_header_for(op, is_switch_dungeon_mode)`, read back inside a switch whose header lowers to the
op `switchName` (`lower_case_header`: a comparison case is a `CaseScenario` under `SwitchScenario`, a `CaseValue` anywhere else).
A dungeon-mode number 0..3 is printed as its configured constant: compared after `canon_dmode_core` on both sides. -/
def lowerCase (switchName : String) (o : MOp) : Except String (Ev × Option String) := do
  let ps := o.params
  if o.name == "Case" then
    let p0 ← param ps 0
    pure (⟨"Case", [p0]⟩, need (isIL p0) "case-header")
  else if o.name == "CaseMenu" then
    let p0 ← param ps 0
    pure (⟨"CaseMenu", [p0]⟩, need (isStrLit p0) "case-header")
  else if o.name == "CaseMenu2" then
    let p0 ← param ps 0
    pure (⟨"CaseMenu2", [p0]⟩, need (isIL p0) "case-header")
  else if o.name == "CaseScenario" || o.name == "CaseValue" then
    let p0 ← param ps 0
    let _ ← operatorNotation p0
    let p1 ← param ps 1
    pure (⟨if switchName == "SwitchScenario" then "CaseScenario" else "CaseValue", [p0, p1]⟩, need (isIL p1) "case-header")
  else if o.name == "CaseVariable" then
    let p0 ← param ps 0
    let _ ← operatorNotation p0
    let p1 ← param ps 1
    pure (⟨"CaseVariable", [p0, p1]⟩, need (isIL p1) "case-header")
  else .error "ValueError"

/-- `FlagSimpleOpWriteHandler.write_content`: the assignment statement, as the op it denotes -/
def lowerFlag (perf : String) (o : MOp) : Except String (Stmt × Option String) := do
  let ps := o.params
  if o.name == ESV.Gen.ops_flag__calc_bit then
    let p0 ← param ps 0
    let p1 ← param ps 1
    let p2 ← param ps 2
    -- `$PERFORMANCE_PROGRESS_LIST[i] = v` is read as flag_SetPerformance(i, v)
    if p0 == .const perf then pure (.op "flag_SetPerformance" [p1, p2], need (isIntLit p1 && isIL p2) "assignment")
    else pure (.op "flag_CalcBit" [p0, p1, p2], need (isIL p0 && isIntLit p1 && isIL p2) "assignment")
  else if o.name == ESV.Gen.ops_flag__calc_value then
    let p0 ← param ps 0
    let p1 ← param ps 1
    let nt ← calcNotation p1
    let p2 ← param ps 2
    -- `x = y` is read as flag_Set(x, y)
    if nt == "=" then pure (.op "flag_Set" [p0, p2], need (isIL p0 && isIL p2) "assignment")
    else pure (.op "flag_CalcValue" [p0, p1, p2], need (isIL p0 && isIL p2) "assignment")
  else if o.name == ESV.Gen.ops_flag__calc_variable then
    let p0 ← param ps 0
    let p1 ← param ps 1
    let _ ← calcNotation p1
    let p2 ← param ps 2
    pure (.op "flag_CalcVariable" [p0, p1, p2], need (isIL p0 && isIL p2) "assignment")
  else if o.name == ESV.Gen.ops_flag__clear then
    let p0 ← param ps 0
    pure (.op "flag_Clear" [p0], need (isIL p0) "assignment")
  else if o.name == ESV.Gen.ops_flag__initial then
    let p0 ← param ps 0
    pure (.op "flag_Initial" [p0], need (isIL p0) "assignment")
  else if o.name == ESV.Gen.ops_flag__set then
    let p0 ← param ps 0
    let p1 ← param ps 1
    pure (.op "flag_Set" [p0, p1], need (isIL p0 && isIL p1) "assignment")
  else if o.name == ESV.Gen.ops_flag__reset_dungeon_result then
    pure (.op "flag_ResetDungeonResult" [], none)
  else if o.name == ESV.Gen.ops_flag__reset_scenario then
    let p0 ← param ps 0
    pure (.op "flag_ResetScenario" [p0], need (isIL p0) "assignment")
  else if o.name == ESV.Gen.ops_flag__set_adventure_log then
    let p0 ← param ps 0
    pure (.op "flag_SetAdventureLog" [p0], need (isIL p0) "assignment")
  else if o.name == ESV.Gen.ops_flag__set_dungeon_mode then
    -- (`get_explorerscript_constant_for(params[1])` is evaluated first)
    let p1 ← param ps 1
    let p0 ← param ps 0
    pure (.op "flag_SetDungeonMode" [p0, p1], need (isIL p0 && isIL p1) "assignment")
  else if o.name == ESV.Gen.ops_flag__set_performance then
    let p0 ← param ps 0
    let p1 ← param ps 1
    pure (.op "flag_SetPerformance" [p0, p1], need (isIntLit p0 && isIL p1) "assignment")
  else if o.name == ESV.Gen.ops_flag__set_scenario then
    let p0 ← param ps 0
    let p1 ← param ps 1
    let p2 ← param ps 2
    pure (.op "flag_SetScenario" [p0, p1, p2], need (isIL p0 && isIntLit p1 && isIntLit p2) "assignment")
  else .error "ValueError"

/-- which handler `SimpleOperationWriteHandler.get_real_handler` picks for a plain op -/
inductive SimpleKind where
  | simple | keyword | ctx | msgSwitch | msgCase | flag
deriving DecidableEq, Repr

def simpleKind (name : String) : SimpleKind :=
  if name == ESV.Gen.op_jump || name == ESV.Gen.op_call || name == ESV.Gen.op_return || name == ESV.Gen.op_end
      || name == ESV.Gen.op_hold then .keyword
  else if ESV.Gen.opsCtx.contains name then .ctx
  else if ESV.Gen.opsSwitchTextCaseMap.any (fun kv => kv.1 == name) then .msgSwitch
  else if name == ESV.Gen.op_case_text || name == ESV.Gen.op_default_text then .msgCase
  else if ESV.Gen.opsFlagAll.contains name then .flag
  else .simple

/-- `KeywordSimpleOpWriteHandler`: `return;` / `end;` / `hold;` -/
def lowerKeyword (o : MOp) : Except String Stmt :=
  if o.name == ESV.Gen.op_return then .ok .ret
  else if o.name == ESV.Gen.op_end then .ok .end_
  else if o.name == ESV.Gen.op_hold then .ok .hold
  else .error "ValueError"

/-- the header of `CtxSimpleOpWriteHandler`: (op name, parameter) of `actor x` / `object x` / `performer x` -/
def lowerCtx (o : MOp) : Except String ((String × List Param) × Option String) :=
  match o.params with
  | [p] =>
    if o.name == ESV.Gen.ops_ctx_lives || o.name == ESV.Gen.ops_ctx_object || o.name == ESV.Gen.ops_ctx_performer then
      .ok ((o.name, [p]), need (isIL p) "ctx-header")
    else .error "ValueError"
  | _ => .error "ValueError"

/-- `SimpleSimpleOpWriteHandler`: `Name(params);` -/
def lowerSimple (o : MOp) : Stmt × Option String := (.op o.name (o.params.map canonParam), argsBad o.params)

/-- `MesageSwitchCasesSimpleOpWriteHandler` (`case x: 'text'` / `default: 'text'`; an op of another name writes nothing) -/
def lowerMsgCase (o : MOp) : Except String ((Option Stmt) × Option String) := do
  let ps := o.params
  if o.name == ESV.Gen.op_case_text then
    let p0 ← param ps 0
    let p1 ← param ps 1
    pure (some (.op "CaseText" [p0, p1]), need (isIL p0 && isStrLit p1) "message-case")
  else if o.name == ESV.Gen.op_default_text then
    let p0 ← param ps 0
    pure (some (.op "DefaultText" [p0]), need (isStrLit p0) "message-case")
  else pure (none, none)

def Stmts.ofList : List Stmt → Stmts
  | [] => .nil
  | s :: r => .cons s (Stmts.ofList r)

def isDefaultStmt : Stmt → Bool
  | .op n _ => n == "DefaultText"
  | _ => false

/-- `lower_stmt` of a message switch: the header op, the cases, then the defaults -/
def msgSwitchStmts (hdr : Stmt) (cases : List Stmt) : List Stmt :=
  hdr :: (cases.filter fun s => !isDefaultStmt s) ++ cases.filter isDefaultStmt

end ESV.Decomp.Wr
