import ESV.Decomp.SwCaseStep
/-
The loop `for v in g.vs` of `build_and_group_switch_cases` (`switchGo`) keeps the invariant and the behaviour; the whole phase
with its final `delete_vertices`.
-/
namespace ESV.Decomp.Sw
open ESV.Beh ESV.Decomp ESV.Decomp.Opt ESV.Decomp.Gr

/-- no key of `OPS_SWITCH_CASE_MAP` is a context op (`lives`, `object`, `performer`) -/
theorem switch_not_ctx (name : String) (cs : List String) (h : BGraph.switchCasesOf name = some cs) : isCtx name = false := by
  have key : ESV.Gen.opsSwitchCaseMap.all (fun kv => !isCtx kv.1) = true := by decide
  unfold BGraph.switchCasesOf at h
  cases hf : ESV.Gen.opsSwitchCaseMap.find? (fun kv => kv.1 == name) with
  | none => rw [hf] at h; cases h
  | some kv =>
    have h1 := List.mem_of_find?_eq_some hf
    have h2 := List.find?_some hf
    rw [List.all_eq_true] at key
    have := key kv h1
    have hn : kv.1 = name := by simpa using h2
    rw [hn] at this
    simpa using this

theorem switchOpOf_spec (x : BVertex) (o : MOp) (cases : List String) (h : BGraph.switchOpOf x = some (o, cases)) :
    x.op = .item (.op o) ∧ x.switchStart = none ∧ BGraph.switchCasesOf o.name = some cases := by
  unfold BGraph.switchOpOf at h
  split at h
  · rename_i o' h1 h2
    cases hc : BGraph.switchCasesOf o'.name with
    | none => rw [hc] at h; cases h
    | some cs =>
      rw [hc] at h
      simp only [Option.map_some, Option.some.injEq, Prod.mk.injEq] at h
      obtain ⟨rfl, rfl⟩ := h
      exact ⟨h1, h2, hc⟩
  · cases h

theorem chainOk_alive (g : BGraph) (v n : Nat) (cases : List String) (del : List Nat)
    (hne : (g.outEs v).isEmpty = false) (h : g.chainOk v n cases del = true) : v ∉ del := by
  cases houts : g.outEs v with
  | nil => rw [houts] at hne; simp at hne
  | cons p rest =>
    obtain ⟨i0, e0⟩ := p
    exact (chainOk_spec g v n cases del i0 e0 rest houts h).1

theorem switchGo_inv : ∀ (vsl : List Nat) (answers : List (Option (List Nat))) (g : BGraph) (delH delI : List Nat) (n : Nat)
    (g' : BGraph) (delH' delI' : List Nat),
    SInv g (delH ++ delI) → BGraph.switchOkGo vsl answers g delH delI n = true →
    BGraph.switchGo vsl answers g delH delI n = .ok (g', delH', delI') →
    SInv g' (delH' ++ delI') ∧ Equivalent g.ltsPS g'.ltsPS (0, 0) (0, 0) ∧ g'.vs.length = g.vs.length := by
  intro vsl
  induction vsl with
  | nil =>
    intro answers g delH delI n g' delH' delI' hinv _ hr
    unfold BGraph.switchGo at hr
    simp only [Except.ok.injEq, Prod.mk.injEq] at hr
    obtain ⟨rfl, rfl, rfl⟩ := hr
    exact ⟨hinv, Equivalent.refl _ _, rfl⟩
  | cons v rest ih =>
    intro answers g delH delI n g' delH' delI' hinv hok hr
    unfold BGraph.switchGo at hr
    unfold BGraph.switchOkGo at hok
    cases hsw : (g.vs[v]?).bind BGraph.switchOpOf with
    | none =>
      rw [hsw] at hr hok
      exact ih answers g delH delI n g' delH' delI' hinv hok hr
    | some p =>
      obtain ⟨o, cases⟩ := p
      rw [hsw] at hr hok
      simp only at hr hok
      by_cases hdel : delH.contains v = true
      · rw [if_pos hdel] at hr hok
        exact ih answers g delH delI n g' delH' delI' hinv hok hr
      · rw [if_neg hdel] at hr hok
        by_cases hemp : (g.outEs v).isEmpty = true
        · rw [if_pos hemp] at hr hok
          exact ih answers g delH delI (n + 1) g' delH' delI' hinv hok hr
        · rw [if_neg hemp] at hr hok
          have hne : (g.outEs v).isEmpty = false := by simpa using hemp
          simp only [Bool.and_eq_true] at hok
          obtain ⟨hchain, hok⟩ := hok
          cases hcp : g.casePart v n cases delH with
          | error e => rw [hcp] at hr; cases hr
          | ok res =>
            obtain ⟨g2, dH2⟩ := res
            rw [hcp] at hr hok
            simp only at hr hok
            -- the switch op vertex
            obtain ⟨x, hx, hso⟩ : ∃ x, g.vs[v]? = some x ∧ BGraph.switchOpOf x = some (o, cases) := by
              cases hxv : g.vs[v]? with
              | none => rw [hxv] at hsw; cases hsw
              | some x => rw [hxv] at hsw; exact ⟨x, rfl, hsw⟩
            obtain ⟨hop, hss, hcs⟩ := switchOpOf_spec x o cases hso
            have hvf : VFacts g v (delH ++ delI) o :=
              ⟨⟨x, hx, hop, hss⟩, chainOk_alive g v n cases _ hne hchain⟩
            obtain ⟨e0, ch, next, he0, he0s, hfall, hplain, hce, hchn, hdH, hnc⟩ :=
              casePart_spec hinv hvf delH g2 dH2 hne hchain hcp
            have k : CaseCtx g v n (delH ++ delI) cases o e0 g2 ch next :=
              ⟨hinv, hvf, switch_not_ctx o.name cases hcs, he0, he0s, hfall, hplain, hce, hchn, hnc⟩
            have hinv2 : SInv g2 (dH2 ++ delI) := by
              refine k.inv2.congr ?_
              intro y; rw [hdH]; simp only [List.mem_append]
              constructor <;> (intro hh; rcases hh with (hh | hh) | hh <;> simp [hh])
            have heq2 := k.equiv
            have hlen2 := k.vs_length
            by_cases hfew : (g2.outEs v).length < 2
            · rw [if_pos hfew] at hr hok
              obtain ⟨a1, a2, a3⟩ := ih answers g2 dH2 delI (n + 1) g' delH' delI' hinv2 hok hr
              exact ⟨a1, Equivalent.trans heq2 a2, by rw [a3, hlen2]⟩
            · rw [if_neg hfew] at hr hok
              cases answers with
              | nil => cases hr
              | cons a answers' =>
                simp only [Bool.and_eq_true] at hr hok
                obtain ⟨hend, hok⟩ := hok
                cases hep : g2.endPart n delI a with
                | error e => rw [hep] at hr; cases hr
                | ok res3 =>
                  obtain ⟨g3, dI3⟩ := res3
                  rw [hep] at hr hok
                  simp only at hr hok
                  obtain ⟨js, hjs, hinv3, hlen3, heq3⟩ := endPart_step hinv2 hend hep
                  have hinv3' : SInv g3 (dH2 ++ dI3) := by
                    refine hinv3.congr ?_
                    intro y; rw [hjs]; simp only [List.mem_append]
                    constructor
                    · intro hh; rcases hh with hh | hh | hh <;> simp [hh]
                    · intro hh; rcases hh with (hh | hh) | hh <;> simp [hh]
                  obtain ⟨a1, a2, a3⟩ := ih answers' g3 dH2 dI3 (n + 1) g' delH' delI' hinv3' hok hr
                  exact ⟨a1, Equivalent.trans (Equivalent.trans heq2 heq3) a2, by rw [a3, hlen3, hlen2]⟩

/-- the invariant holds at the start: no vertex is marked, the readings are determined -/
theorem sinv_init (g : BGraph) (hs : switchStructOk g = true) : SInv g [] := by
  unfold switchStructOk at hs
  simp only [Bool.and_eq_true] at hs
  obtain ⟨⟨hm, hl⟩, hf⟩ := hs
  have hnos := noSwitch_of_marks g hm
  refine ⟨⟨?_, ?_, ?_, ?_⟩, by simp, by simp, by simp, by simp, by simp⟩
  · intro e he e' he' hsrc hlr hlv
    unfold lvlDet at hl
    rw [List.all_eq_true] at hl
    have := hl e he
    rw [List.all_eq_true] at this
    have := this e' he'
    have hlr' : g.levelRead e'.src = true := by rw [← hsrc]; exact hlr
    simpa [hsrc, hlr', hlv] using this
  · intro e he e' he' hsrc hif hfl
    unfold flagDet at hf
    rw [List.all_eq_true] at hf
    have := hf e he
    rw [List.all_eq_true] at this
    have := this e' he'
    have hif' : g.isIfV e'.src = true := by rw [← hsrc]; exact hif
    simpa [hsrc, hif', hfl] using this
  · intro e _ e' _ _ hsw; rw [hnos] at hsw; cases hsw
  · intro e _ e' _ _ hsw; rw [hnos] at hsw; cases hsw

/-- **`build_and_group_switch_cases` keeps the behaviour** (pairs; `buildSwitchCases_preserves` is the encoded form) -/
theorem buildSwitchCases_equiv (answers : List (Option (List Nat))) (g g' : BGraph)
    (hs : switchStructOk g = true) (ha : switchAnswersOk answers g = true) (h : buildSwitchCases answers g = .ok g') :
    Equivalent g.ltsB g'.ltsS (0 : Nat) (0 : Nat) := by
  unfold buildSwitchCases buildSwitchCasesRaw at h
  unfold switchAnswersOk at ha
  cases hgo : BGraph.switchGo (List.range g.vs.length) answers g [] [] 0 with
  | error e => rw [hgo] at h; cases h
  | ok res =>
    obtain ⟨g1, delH, delI⟩ := res
    rw [hgo] at h
    simp only [Except.ok.injEq] at h
    subst h
    obtain ⟨hinv, heq, _⟩ := switchGo_inv _ answers g [] [] 0 g1 delH delI (by simpa using sinv_init g hs) ha hgo
    have hdel := delete_equiv hinv 0 hinv.nz
    have hr0 : renumber (delH ++ delI) 0 = 0 := by unfold renumber; simp
    rw [hr0] at hdel
    have hS := ltsS_of_ltsPS g (g1.deleteVs (delH ++ delI)) 0 0 (Nat.zero_le _) (Nat.zero_le _) (Equivalent.trans heq hdel)
    have hm : noSwitchMarks g = true := by
      unfold switchStructOk at hs; simp only [Bool.and_eq_true] at hs; exact hs.1.1
    have hB : Equivalent g.ltsB g.ltsS (0 : Nat) (0 : Nat) :=
      equiv_of_step_eq g.stepB g.stepS (stepS_eq_stepB g (noSwitch_of_marks g hm)).symm 0
    exact Equivalent.trans hB hS

end ESV.Decomp.Sw
