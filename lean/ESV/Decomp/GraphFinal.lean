import ESV.Decomp.GraphSimJump
/-
From the step correspondence to behavioural equality of the item list and its base graph.
-/
namespace ESV.Decomp
open ESV.Beh ESV.Decomp.Bisim

section
variable {labels : List Lbl} {opt : Bool} {rid : Nat} {items : List Item} {visited : List Nat} {g : Graph}

theorem stepMatch_fwd (F : Final labels opt rid items visited g) (hguard : ctxGuard items = true)
    (hnames : namesGuard items = true) (a b : Nat) (h : Rel ⟨labels, rid, items⟩ g visited a b) :
    StepMatch (RMachine.lts ⟨labels, rid, items⟩) g.lts (Rel ⟨labels, rid, items⟩ g visited) a b := by
  have hc := corr F hguard hnames a b h
  cases hs1 : RMachine.stepAll ⟨labels, rid, items⟩ a with
  | silent a' =>
    cases hs2 : g.step b with
    | silent b' =>
      rw [hs1, hs2] at hc
      exact stepMatch_silent (L₁ := RMachine.lts ⟨labels, rid, items⟩) (L₂ := g.lts) hs1 ⟨1, b', ⟨b', hs2, rfl⟩, hc⟩
    | emit _ _ => rw [hs1, hs2] at hc; exact hc.elim
    | test _ _ _ => rw [hs1, hs2] at hc; exact hc.elim
    | halt _ => rw [hs1, hs2] at hc; exact hc.elim
  | emit e a' =>
    cases hs2 : g.step b with
    | emit e' b' =>
      rw [hs1, hs2] at hc
      obtain ⟨rfl, hr⟩ := hc
      exact stepMatch_emit (L₁ := RMachine.lts ⟨labels, rid, items⟩) (L₂ := g.lts) hs1 ⟨1, b', settle_emit (L := g.lts) 0 hs2, hr⟩
    | silent _ => rw [hs1, hs2] at hc; exact hc.elim
    | test _ _ _ => rw [hs1, hs2] at hc; exact hc.elim
    | halt _ => rw [hs1, hs2] at hc; exact hc.elim
  | test e y n =>
    cases hs2 : g.step b with
    | test e' y' n' =>
      rw [hs1, hs2] at hc
      obtain ⟨rfl, hy, hn⟩ := hc
      exact stepMatch_test (L₁ := RMachine.lts ⟨labels, rid, items⟩) (L₂ := g.lts) hs1 ⟨1, y', n', settle_test (L := g.lts) 0 hs2, hy, hn⟩
    | silent _ => rw [hs1, hs2] at hc; exact hc.elim
    | emit _ _ => rw [hs1, hs2] at hc; exact hc.elim
    | halt _ => rw [hs1, hs2] at hc; exact hc.elim
  | halt e =>
    cases hs2 : g.step b with
    | halt e' =>
      rw [hs1, hs2] at hc
      have : e = e' := hc
      subst this
      exact stepMatch_halt (L₁ := RMachine.lts ⟨labels, rid, items⟩) (L₂ := g.lts) hs1 ⟨1, settle_halt (L := g.lts) 0 hs2⟩
    | silent b' =>
      rw [hs1, hs2] at hc
      obtain ⟨lid, rfl, hv⟩ := hc
      have h3 : g.step b' = .halt (evForeign lid) := by simp [Graph.step, hv]
      exact stepMatch_halt (L₁ := RMachine.lts ⟨labels, rid, items⟩) (L₂ := g.lts) hs1 ⟨2, (settle_silent (L := g.lts) 1 hs2).trans (settle_halt (L := g.lts) 0 h3)⟩
    | emit _ _ => rw [hs1, hs2] at hc; exact hc.elim
    | test _ _ _ => rw [hs1, hs2] at hc; exact hc.elim

theorem stepMatch_bwd (F : Final labels opt rid items visited g) (hguard : ctxGuard items = true)
    (hnames : namesGuard items = true) (b a : Nat) (h : Rel ⟨labels, rid, items⟩ g visited a b) :
    StepMatch g.lts (RMachine.lts ⟨labels, rid, items⟩)
      (fun b a => Rel ⟨labels, rid, items⟩ g visited a b) b a := by
  have hc := corr F hguard hnames a b h
  cases hs2 : g.step b with
  | silent b' =>
    cases hs1 : RMachine.stepAll ⟨labels, rid, items⟩ a with
    | silent a' =>
      rw [hs1, hs2] at hc
      exact stepMatch_silent (L₁ := g.lts) (L₂ := RMachine.lts ⟨labels, rid, items⟩) hs2 ⟨1, a', ⟨a', hs1, rfl⟩, hc⟩
    | halt e =>
      rw [hs1, hs2] at hc
      obtain ⟨lid, rfl, hv⟩ := hc
      exact stepMatch_silent (L₁ := g.lts) (L₂ := RMachine.lts ⟨labels, rid, items⟩) hs2 ⟨0, a, rfl, Or.inr (Or.inr ⟨lid, hs1, hv⟩)⟩
    | emit _ _ => rw [hs1, hs2] at hc; exact hc.elim
    | test _ _ _ => rw [hs1, hs2] at hc; exact hc.elim
  | emit e' b' =>
    cases hs1 : RMachine.stepAll ⟨labels, rid, items⟩ a with
    | emit e a' =>
      rw [hs1, hs2] at hc
      obtain ⟨rfl, hr⟩ := hc
      exact stepMatch_emit (L₁ := g.lts) (L₂ := RMachine.lts ⟨labels, rid, items⟩) hs2 ⟨1, a', settle_emit (L := RMachine.lts ⟨labels, rid, items⟩) 0 hs1, hr⟩
    | silent _ => rw [hs1, hs2] at hc; exact hc.elim
    | test _ _ _ => rw [hs1, hs2] at hc; exact hc.elim
    | halt _ => rw [hs1, hs2] at hc; exact hc.elim
  | test e' y' n' =>
    cases hs1 : RMachine.stepAll ⟨labels, rid, items⟩ a with
    | test e y n =>
      rw [hs1, hs2] at hc
      obtain ⟨rfl, hy, hn⟩ := hc
      exact stepMatch_test (L₁ := g.lts) (L₂ := RMachine.lts ⟨labels, rid, items⟩) hs2 ⟨1, y, n, settle_test (L := RMachine.lts ⟨labels, rid, items⟩) 0 hs1, hy, hn⟩
    | silent _ => rw [hs1, hs2] at hc; exact hc.elim
    | emit _ _ => rw [hs1, hs2] at hc; exact hc.elim
    | halt _ => rw [hs1, hs2] at hc; exact hc.elim
  | halt e' =>
    cases hs1 : RMachine.stepAll ⟨labels, rid, items⟩ a with
    | halt e =>
      rw [hs1, hs2] at hc
      have : e = e' := hc
      subst this
      exact stepMatch_halt (L₁ := g.lts) (L₂ := RMachine.lts ⟨labels, rid, items⟩) hs2 ⟨1, settle_halt (L := RMachine.lts ⟨labels, rid, items⟩) 0 hs1⟩
    | silent _ => rw [hs1, hs2] at hc; exact hc.elim
    | emit _ _ => rw [hs1, hs2] at hc; exact hc.elim
    | test _ _ _ => rw [hs1, hs2] at hc; exact hc.elim

end

/-- the base graph of a routine behaves like its item list -/
theorem baseGraph_equivalent (labels : List Lbl) (opt : Bool) (rid : Nat) (items : List Item) (g : Graph)
    (hg : baseGraph labels opt rid items = .ok g) (hguard : ctxGuard items = true)
    (hnames : namesGuard items = true) :
    Equivalent (RMachine.lts ⟨labels, rid, items⟩) g.lts (0 : Nat) (0 : Nat) := by
  unfold baseGraph at hg
  split at hg
  · -- the empty routine
    rename_i hlen
    have hnil : items = [] := by
      cases items with
      | nil => rfl
      | cons x xs => simp at hlen
    subst hnil
    simp only [Except.ok.injEq] at hg
    subst hg
    apply equivalent_of_stepMatch (RMachine.lts ⟨labels, rid, []⟩) (Graph.lts ⟨[], []⟩)
      (fun a b => a = (0 : Nat) ∧ b = (0 : Nat)) (fun b a => b = (0 : Nat) ∧ a = (0 : Nat))
    · rintro a b ⟨rfl, rfl⟩
      have h1 : RMachine.stepAll ⟨labels, rid, []⟩ 0 = .halt evReturn := by
        simp [RMachine.stepAll, RMachine.step, RMachine.fellOff]
      exact stepMatch_halt (L₁ := RMachine.lts ⟨labels, rid, []⟩) (L₂ := Graph.lts ⟨[], []⟩) h1
        ⟨1, settle_halt (L := Graph.lts ⟨[], []⟩) 0 (by simp [Graph.lts, Graph.step, Graph.fellOff])⟩
    · rintro b a ⟨rfl, rfl⟩
      have h1 : Graph.step ⟨[], []⟩ 0 = .halt evReturn := by
        simp [Graph.step, Graph.fellOff]
      exact stepMatch_halt (L₁ := Graph.lts ⟨[], []⟩) (L₂ := RMachine.lts ⟨labels, rid, []⟩) h1
        ⟨1, settle_halt (L := RMachine.lts ⟨labels, rid, []⟩) 0 (by simp [RMachine.lts, RMachine.stepAll, RMachine.step, RMachine.fellOff])⟩
    · exact ⟨rfl, rfl⟩
    · exact ⟨rfl, rfl⟩
  · rename_i hlen
    have hpos : 0 < items.length := by omega
    have hinit : Inv labels opt rid items [] [(0, 0)] ⟨items.map .item, []⟩ := by
      refine ⟨⟨[], by simp, by simp⟩, ?_, ?_, ?_, ?_⟩
      · intro k hk; simp [keys] at hk
      · intro i hi; simp at hi
      · intro k hk; simp [keys] at hk
      · exact Or.inr (Or.inr ⟨0, by simp⟩)
    obtain ⟨visited, hinv⟩ := explore_inv labels opt rid items _ _ _ _ g hinit hg
    have F := hinv.final
    have h0 : 0 ∈ visited := by
      rcases hinv.zero with h | h | ⟨l, h⟩
      · exact h
      · have hi : items[0]? = some items[0] := by simp [hpos]
        have := F.vs_item 0 _ hi
        simp [isForeignV, this] at h
      · simp at h
    have hrel : Rel ⟨labels, rid, items⟩ g visited 0 0 := Or.inl ⟨rfl, h0⟩
    exact equivalent_of_stepMatch (RMachine.lts ⟨labels, rid, items⟩) g.lts
      (Rel ⟨labels, rid, items⟩ g visited) (fun b a => Rel ⟨labels, rid, items⟩ g visited a b)
      (stepMatch_fwd F hguard hnames) (fun b a h => stepMatch_bwd F hguard hnames b a h) (0 : Nat) (0 : Nat) hrel hrel

end ESV.Decomp
