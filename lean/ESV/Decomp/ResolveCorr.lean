import ESV.Decomp.ResolveItems
/-
Position correspondences between the SSB machine on `flatten rs` and the labelled machine on the layout
of the resolver's output: jump targets, routine entries, successors, the context test.
-/
namespace ESV.Decomp
open ESV.Beh ESV.Decomp.Layout

/-- everything the comparison needs to know about the input and the final label table -/
structure RCtx where
  rs : List (List MOp)
  K : List Lbl
  dist : DistIds K
  tgt : ∀ o ∈ allOps rs, tgtOk K o
  wf : ∀ o ∈ allOps rs, jumpOk ((allOps rs).map (·.off)) o = true

namespace RCtx
variable (c : RCtx)

def ops : List FOp := fl c.rs
def items : List FItem := lay (preI c.K) (mainI c.K) c.ops
def n : Nat := c.ops.length
def M : Machine := ⟨c.ops.toArray⟩
def LM : LMachine := ⟨c.items.toArray⟩
def st (i : Nat) : Nat := Layout.st (preI c.K) (mainI c.K) c.ops i
def pos (i : Nat) : Nat := Layout.pos (preI c.K) (mainI c.K) c.ops i

/-- the bisimulation relation: a machine position is related to the position of its item and to the start
of its block (the label before it, if any) -/
def R (a b : Nat) : Prop := a ≤ c.n ∧ (b = c.st a ∨ b = c.pos a)

theorem st_n : c.st c.n = c.items.length := Layout.st_ge _ _ _ _ (Nat.le_refl _)
theorem pos_n : c.pos c.n = c.items.length := Layout.pos_ge _ _ _ _ (Nat.le_refl _)

end RCtx

theorem fl_ops_go : ∀ (rs : List (List MOp)) (k : Nat),
    ((rs.zipIdx k).flatMap fun (p : List MOp × Nat) => p.1.map fun o => (⟨p.2, o⟩ : FOp)).map (·.op) =
      allOps rs := by
  intro rs
  induction rs with
  | nil => intro k; rfl
  | cons r rs ih =>
    intro k
    simp only [List.zipIdx_cons, List.flatMap_cons, List.map_append, ih (k+1)]
    simp [allOps, Function.comp_def]

theorem fl_ops (rs : List (List MOp)) : (fl rs).map (·.op) = allOps rs := fl_ops_go rs 0

namespace RCtx
variable (c : RCtx)

theorem op_mem {f : FOp} (h : f ∈ c.ops) : f.op ∈ allOps c.rs := by
  rw [← fl_ops]; exact List.mem_map.mpr ⟨f, h, rfl⟩

theorem getElem_mem {a : Nat} (h : a < c.n) : c.ops[a] ∈ c.ops := List.getElem_mem h

theorem offs_eq : (allOps c.rs).map (·.off) = c.ops.map (·.op.off) := by
  rw [← fl_ops]; simp [ops]

/-! ### blocks -/

theorem mem_blk_rtn {f : FOp} {y : FItem} (h : y ∈ blk (preI c.K) (mainI c.K) f) : y.rtn = f.rtn := by
  simp only [blk, preI, mainI, List.mem_append, List.mem_singleton] at h
  rcases h with h | h
  · cases hl : lblOf c.K f.op.off with
    | none => simp [hl] at h
    | some it => simp [hl] at h; rw [h]
  · rw [h]

def isLabelB (lid : Nat) (f : FItem) : Bool :=
  match f.it with
  | .label i => i == lid
  | _ => false

theorem conv_not_label (K : List Lbl) (o : MOp) (lid : Nat) (r : Nat) :
    isLabelB lid ⟨r, conv K o⟩ = false := by
  rcases conv_cases K o with h | ⟨root, l, cc, h, _, _⟩ <;> simp [isLabelB, h]

/-- jump targets correspond -/
theorem resolve_corr (t : Int) (lid : Nat) (ht : t ∈ (allOps c.rs).map (·.off))
    (hid : idOf c.K t = some lid) :
    ∃ i, i < c.n ∧ c.M.resolve t = i ∧ c.LM.labelPos lid = c.st i := by
  unfold idOf at hid
  obtain ⟨l0, hf0, hl0⟩ := Option.map_eq_some_iff.mp hid
  have hmem0 := List.mem_of_find?_eq_some hf0
  have hoff0 : l0.off = t := by have := List.find?_some hf0; simpa using this
  have key := findIdx_lay (preI c.K) (mainI c.K) (isLabelB lid) (fun f => f.op.off == t) c.ops ?_ ?_
  · rw [c.offs_eq] at ht
    obtain ⟨f, hfm, hft⟩ := List.mem_map.mp ht
    cases hfi : c.ops.findIdx? (fun f => f.op.off == t) with
    | none =>
      rw [List.findIdx?_eq_none_iff] at hfi
      have := hfi f hfm
      simp [hft] at this
    | some i =>
      obtain ⟨hlt, _, _⟩ := List.findIdx?_eq_some_iff_getElem.mp hfi
      refine ⟨i, hlt, ?_, ?_⟩
      · simp only [Machine.resolve, M, List.findIdx?_toArray, hfi]
      · rw [hfi] at key
        simp only [LMachine.labelPos, LM, List.findIdx?_toArray]
        have key' : c.items.findIdx? (isLabelB lid) = some (c.st i) := key
        show (match c.items.findIdx? (isLabelB lid) with
          | some i => i
          | none => _) = _
        rw [key']
  · intro f _ hq y hy
    simp only [blk, List.mem_append, List.mem_singleton] at hy
    rcases hy with hy | hy
    · simp only [preI, lblOf] at hy
      cases hk : c.K.find? fun l => l.off == f.op.off with
      | none => simp [hk] at hy
      | some l =>
        simp [hk] at hy
        subst hy
        simp only [isLabelB]
        by_cases hll : l.id = lid
        · exfalso
          have hmem := List.mem_of_find?_eq_some hk
          have hoff : l.off = f.op.off := by have := List.find?_some hk; simpa using this
          have := c.dist.eq_of_id hmem hmem0 (hll.trans hl0.symm)
          subst this
          rw [hoff0] at hoff
          simp [hoff] at hq
        · simpa using hll
    · subst hy; exact conv_not_label _ _ _ _
  · intro f _ hq
    have hft : f.op.off = t := by simpa using hq
    refine ⟨⟨f.rtn, .label l0.id⟩, [mainI c.K f], ?_, ?_⟩
    · simp [blk, preI, lblOf, hft, hf0]
    · simp [isLabelB, hl0]

/-- routine entries correspond -/
theorem entry_corr (k : Nat) : c.R (c.M.entry k) (c.LM.entry k) := by
  have key := findIdx_lay (preI c.K) (mainI c.K) (fun y => y.rtn == k) (fun f => f.rtn == k) c.ops ?_ ?_
  · simp only [Machine.entry, LMachine.entry, M, LM, List.findIdx?_toArray]
    have key' : c.items.findIdx? (fun y => y.rtn == k) = _ := key
    rw [key']
    cases hfi : c.ops.findIdx? (fun f => f.rtn == k) with
    | none =>
      simp only [Option.map_none, Machine.fellOff, LMachine.fellOff, List.size_toArray]
      exact ⟨Nat.le_refl _, Or.inl (c.st_n).symm⟩
    | some i =>
      obtain ⟨hlt, _, _⟩ := List.findIdx?_eq_some_iff_getElem.mp hfi
      simp only [Option.map_some]
      exact ⟨Nat.le_of_lt hlt, Or.inl rfl⟩
  · intro f _ hq y hy
    rw [c.mem_blk_rtn hy]; exact hq
  · intro f _ hq
    cases hb : blk (preI c.K) (mainI c.K) f with
    | nil => simp [blk] at hb
    | cons y ys =>
      refine ⟨y, ys, rfl, ?_⟩
      have : y ∈ blk (preI c.K) (mainI c.K) f := by rw [hb]; simp
      show (y.rtn == k) = true
      rw [c.mem_blk_rtn this]; exact hq

/-! ### items at the related positions -/

theorem item_pos {a : Nat} (h : a < c.n) : c.items[c.pos a]? = some ⟨c.ops[a].rtn, conv c.K c.ops[a].op⟩ :=
  Layout.get_pos _ _ _ _ h

theorem item_st_rtn {a : Nat} (h : a < c.n) : ∃ y, c.items[c.st a]? = some y ∧ y.rtn = c.ops[a].rtn := by
  refine ⟨_, Layout.get_st _ _ _ _ h, ?_⟩
  cases hp : preI c.K c.ops[a] with
  | none => rfl
  | some x =>
    show x.rtn = _
    simp only [preI] at hp
    cases hl : lblOf c.K c.ops[a].op.off with
    | none => simp [hl] at hp
    | some it => simp [hl] at hp; rw [← hp]

theorem st_succ {a : Nat} (h : a < c.n) : c.st (a+1) = c.pos a + 1 := Layout.st_succ _ _ _ _ h

/-- the start of a block either is the item position or holds a label of the same routine directly before -/
theorem st_or {a : Nat} (h : a < c.n) :
    c.st a = c.pos a ∨ (c.st a + 1 = c.pos a ∧ ∃ l, c.items[c.st a]? = some ⟨c.ops[a].rtn, .label l⟩) := by
  cases hp : preI c.K c.ops[a] with
  | none => left; exact (Layout.pos_of_none _ _ _ _ h hp).symm
  | some x =>
    right
    refine ⟨(Layout.pos_of_some _ _ _ _ h x hp).symm, ?_⟩
    have hx := Layout.get_st_some (preI c.K) (mainI c.K) c.ops a h x hp
    simp only [preI, lblOf] at hp
    cases hk : c.K.find? fun l => l.off == c.ops[a].op.off with
    | none => simp [hk] at hp
    | some l =>
      simp [hk] at hp
      exact ⟨l.id, by rw [← hp] at hx; exact hx⟩

/-- successors correspond -/
theorem next_corr {a : Nat} (h : a < c.n) (r : Nat) : c.R (c.M.next a r) (c.LM.next (c.pos a) r) := by
  simp only [Machine.next, LMachine.next, M, LM, List.getElem?_toArray, Machine.fellOff, LMachine.fellOff,
    List.size_toArray]
  rw [← c.st_succ h]
  by_cases h1 : a + 1 < c.n
  · obtain ⟨y, hy, hyr⟩ := c.item_st_rtn h1
    rw [hy, List.getElem?_eq_getElem h1]
    simp only [hyr]
    split
    · exact ⟨Nat.le_of_lt h1, Or.inl rfl⟩
    · exact ⟨Nat.le_refl _, Or.inl c.st_n.symm⟩
  · have h2 : a + 1 = c.n := by omega
    have : c.ops[a+1]? = none := List.getElem?_eq_none (by unfold RCtx.n at h2; omega)
    rw [this, h2, c.st_n]
    simp only [List.getElem?_eq_none (Nat.le_refl _)]
    exact ⟨Nat.le_refl _, Or.inl c.st_n.symm⟩

/-- the context test corresponds -/
theorem afterCtx_st {a : Nat} (h : a < c.n) :
    c.LM.afterCtx (c.st a) c.ops[a].rtn = c.M.afterCtx a c.ops[a].rtn := by
  cases a with
  | zero =>
    have : c.st 0 = 0 := Layout.st_zero _ _ _
    rw [this]; simp [LMachine.afterCtx, Machine.afterCtx]
  | succ a' =>
    have h' : a' < c.n := by omega
    rw [c.st_succ h']
    simp only [LMachine.afterCtx, Machine.afterCtx, M, LM, List.getElem?_toArray]
    rw [c.item_pos h', List.getElem?_eq_getElem h']
    simp only
    by_cases hr : c.ops[a'].rtn = c.ops[a'+1].rtn
    · simp only [hr, bne_self_eq_false, Bool.false_eq_true, if_false, beq_self_eq_true, Bool.true_and]
      rcases conv_cases c.K c.ops[a'].op with hc | ⟨root, lid, cc, hc, _, hj⟩
      · rw [hc]
      · rw [hc]
        simp only
        cases hji : jumpIndex c.ops[a'].op.name with
        | none => exact absurd hji hj
        | some idx => exact (jumpIndex_some hji).2.symm
    · have : (c.ops[a'].rtn != c.ops[a'+1].rtn) = true := by simpa using hr
      simp [this, hr]

theorem afterCtx_corr {a : Nat} (h : a < c.n) :
    c.LM.afterCtx (c.pos a) c.ops[a].rtn = c.M.afterCtx a c.ops[a].rtn := by
  rcases c.st_or h with he | ⟨he, l, hl⟩
  · rw [← he]; exact c.afterCtx_st h
  · rw [← he, ← c.afterCtx_st h]
    conv => lhs; unfold LMachine.afterCtx
    simp only [LM, List.getElem?_toArray, hl, bne_self_eq_false, Bool.false_eq_true, if_false]

end RCtx
end ESV.Decomp
