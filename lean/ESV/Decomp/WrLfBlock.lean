import ESV.Decomp.WrLfIf
/-
Label-free fragment: `BlockWriteHandler.write_content` (`block_step`), the induction on the writer's fuel (`lf_all`) and the
theorem for one routine (`writeRoutine_lf_equiv`).
-/
namespace ESV.Decomp.Wr
open ESV ESV.Beh ESV.Decomp ESV.Decomp.BGraph ESV.Decomp.Opt ESV.Comp

/-- a node that returns behaves like running off the end of the routine's graph -/
theorem ret_eq (g : BGraph) (N : List Src.Node) (e : Nat) (h : N[e]? = some (.halt evReturn)) : EQ g N e (st g none) :=
  Equivalent.of_halt (nodeStep_of h) (stepPL_fellOff g)

theorem block_step (perf : String) (g : BGraph) (hg : lfGraph perf g = true) (fuel : Nat) (hB : PBlock perf g fuel)
    (hV : PVertex perf g fuel) : PBlock perf g (fuel + 1) := by
  intro ind chk vsb pm cur first written prev last acc σ r hchk hw
  rw [wBlock.eq_def] at hw
  simp only at hw
  cases cur with
  | none =>
    simp only [Option.isNone_none, Bool.true_and, hchk.nested, Bool.not_false, Bool.and_true] at hw
    split at hw
    · cases prev with
      | none => cases hw
      | some p =>
        simp only [Except.ok.injEq] at hw
        subst hw
        refine ⟨rfl, if needsDummy g p = true then [.ret] else [], ?_, ?_, ?_⟩
        · simp only; split <;> simp
        · split <;> simp [Stmts.ofList, lf0L, lf0]
        · intro labs N e k hS hk
          split at hS
          · cases specL_single hS with
            | ret hN => exact ret_eq g N e hN
          · simp only [Stmts.ofList] at hS
            cases hS; exact hk
    · simp only [Except.ok.injEq] at hw
      subst hw
      refine ⟨rfl, [], by simp, rfl, ?_⟩
      intro labs N e k hS hk
      simp only [Stmts.ofList] at hS
      cases hS; exact hk
  | some v =>
    simp only at hw
    split at hw
    · cases hw
    · cases hx : g.vs[v]? with
      | none => simp [hx] at hw
      | some x =>
        simp only [hx] at hw
        have hv := lfGraph_vertex hg hx
        cases hh : hinfoOf x with
        | error e => simp [hh] at hw
        | ok h =>
          simp only [hh, hchk.goesOn hv, hchk.nested, Bool.not_true, Bool.false_eq_true, if_false, Bool.false_and] at hw
          cases hr1 : wVertex fuel g perf ind v x vsb first pm σ with
          | error e => simp [hr1] at hw
          | ok r1 =>
            simp only [hr1] at hw
            obtain ⟨hn, code', hout', hlf', hcl'⟩ := hB _ _ _ _ _ _ _ _ _ _ _ r hchk hw
            obtain ⟨hlf1, hcl1⟩ := hV _ _ _ _ _ _ _ r1 hx hr1
            refine ⟨hn, r1.out ++ code', by rw [hout', List.append_assoc], by rw [lf0L_append, hlf1, hlf']; rfl, ?_⟩
            intro labs N e k hS hk
            obtain ⟨m, h1, h2⟩ := (ofList_append r1.out code' labs N e k).mp hS
            exact hcl1 labs N e m h1 (hcl' labs N m k h2 hk)

theorem lf_all (perf : String) (g : BGraph) (hg : lfGraph perf g = true) : ∀ fuel,
    PBlock perf g fuel ∧ PVertex perf g fuel ∧ PPlain perf g fuel ∧ PJump perf g fuel ∧ PIf perf g fuel ∧ PChain perf g fuel
  | 0 => by
    refine ⟨?_, ?_, ?_, ?_, ?_, ?_⟩
    · intro _ _ _ _ _ _ _ _ _ _ _ _ _ hw; rw [wBlock.eq_def] at hw; cases hw
    · intro _ _ _ _ _ _ _ _ _ hw; rw [wVertex.eq_def] at hw; cases hw
    · intro _ _ _ _ _ _ _ _ _ hw; rw [wPlain.eq_def] at hw; cases hw
    · intro _ _ _ _ _ _ _ hw; rw [wJumpObj.eq_def] at hw; cases hw
    · intro _ _ _ _ _ _ _ _ hw; rw [wIf.eq_def] at hw; cases hw
    · intro _ _ _ _ _ _ _ _ _ hw; rw [wChain.eq_def] at hw; cases hw
  | fuel + 1 => by
    obtain ⟨hB, hV, hP, hJ, hI, hC⟩ := lf_all perf g hg fuel
    exact ⟨block_step perf g hg fuel hB hV, vertex_step perf g hg fuel hP hJ, plain_step perf g hg fuel,
      jump_step perf g hg fuel hI, if_step perf g hg fuel hB hC, chain_step perf g hg fuel hB hC⟩

/-- **the writers on the label-free fragment**: if the final graph of a routine consists of plain ops (whose statements denote
them), context ops in front of simple ops and ifs, and the write handlers produce a statement list for it, that statement list -
under the language semantics, as the only routine of a program - behaves like the graph from its first vertex: the same operations
and tests for every outcome of every test, halting preserved. -/
theorem writeRoutine_lf_equiv (perf : String) (info : RInfo) (g : BGraph) (ss : Src.Stmts) (hg : lfGraph perf g = true)
    (hw : writeRoutine perf info g = .ok (some ss)) : Equivalent (astLts ss) g.ltsL (astEntry ss) (0 : Nat) := by
  unfold writeRoutine at hw
  cases hst : writeRoutineSt perf info g {} with
  | error e => simp [hst] at hw
  | ok bs =>
    obtain ⟨b, σ'⟩ := bs
    simp only [hst, Except.ok.injEq] at hw
    unfold writeRoutineSt at hst
    split at hst
    · cases hst
    · split at hst
      · cases hst
      · split at hst
        · simp only [Except.ok.injEq, Prod.mk.injEq] at hst
          rw [← hst.1] at hw; cases hw
        · cases hr : wBlock (writeFuel g) g perf 1 .none none false (some 0) true [] none {} [] {} with
          | error e => simp [hr] at hst
          | ok r =>
          simp only [hr, Except.ok.injEq, Prod.mk.injEq] at hst
          rw [← hst.1] at hw
          simp only [Option.map_some, Option.some.injEq] at hw
          obtain ⟨_, code, hout, hlf, hcl⟩ := (lf_all perf g hg (writeFuel g)).1 _ _ _ _ _ _ _ _ _ _ _ r (Or.inl rfl) hr
          simp only [List.nil_append] at hout
          have hss : ss = Stmts.ofList code := by rw [← hw, hout]
          subst hss
          obtain ⟨hlfl, hnl⟩ := lf0L_spec _ hlf
          obtain ⟨labs, e, he, hS, h0⟩ := graph_spec (Stmts.ofList code) hlfl (by rw [hnl]; exact List.nodup_nil)
          have h1 := hcl labs _ e 0 hS (ret_eq g _ 0 h0)
          have h2 := Lp.ltsPL_equiv_ltsL g (0, 0)
          have henc : g.enc (0, 0) = 0 := by simp [BGraph.enc]
          rw [henc] at h2
          have h3 : Equivalent (nodeLTS (routineProgram (Stmts.ofList code)).graph.nodes.toList) g.ltsL e (0 : Nat) :=
            Equivalent.trans h1 h2
          rw [he]
          have hstep : (routineProgram (Stmts.ofList code)).graph.step = nodeStep (routineProgram (Stmts.ofList code)).graph.nodes.toList := by
            funext i
            simp only [Src.Graph.step, nodeStep, Array.getElem?_toList]
            rfl
          exact Equivalent.trans (Gr.equiv_of_step_eq _ _ hstep e) h3

end ESV.Decomp.Wr
