import ESV.Decomp.SwCounter
/-
The counterexample theorems for `build_and_group_switch_cases` / `group_switch_cases` (witnesses: SwCounter.lean).
-/
namespace ESV.Decomp
open ESV.Beh

/-- `inDead` is needed: an in-edge of a merged case vertex from a vertex that stays (`Foo`) is cut by the final
`delete_vertices` -/
theorem buildSwitchCases_in_edge_counterexample :
    switchStructOk cexSwIn = true ∧ switchAnswersOk [none] cexSwIn = false ∧
    ∃ g', buildSwitchCases [none] cexSwIn = .ok g' ∧ ¬ Equivalent cexSwIn.ltsB g'.ltsS (0 : Nat) (0 : Nat) := by
  refine ⟨by decide, by decide, sw_cex cexSwIn [none] (fun k => k == 0)
    [.op ⟨"Switch", []⟩, .tst ⟨"Case", []⟩ true, .op ⟨"Foo", []⟩, .tst ⟨"CaseValue", []⟩ false, .op ⟨"Qux", []⟩, .stop evReturn]
    [.op ⟨"Switch", []⟩, .tst ⟨"Case", []⟩ true, .op ⟨"Foo", []⟩, .stop evReturn]
    ⟨_, by rfl, rfl⟩ (by rfl) (by rfl) (by decide)⟩

/-- `caseVertexOk` is needed (1): the merged case vertex must not be vertex 0, where the routine starts -/
theorem buildSwitchCases_start_vertex_counterexample :
    switchStructOk cexSwStart = true ∧ switchAnswersOk [none] cexSwStart = false ∧
    ∃ g', buildSwitchCases [none] cexSwStart = .ok g' ∧ ¬ Equivalent cexSwStart.ltsB g'.ltsS (0 : Nat) (0 : Nat) := by
  refine ⟨by decide, by decide, sw_cex cexSwStart [none] (fun k => k == 0)
    [.tst ⟨"Case", []⟩ true, .op ⟨"Foo", []⟩, .op ⟨"Switch", []⟩, .tst ⟨"Case", []⟩ false, .op ⟨"Bar", []⟩, .stop evReturn]
    [.op ⟨"Foo", []⟩, .op ⟨"Switch", []⟩, .tst ⟨"Case", []⟩ true, .op ⟨"Foo", []⟩, .op ⟨"Switch", []⟩, .tst ⟨"Case", []⟩ false,
      .op ⟨"Bar", []⟩, .stop evReturn]
    ⟨_, by rfl, rfl⟩ (by rfl) (by rfl) (by decide)⟩

/-- `caseVertexOk` is needed (2): a case edge that is flagged else becomes a second else edge of the switch -/
theorem buildSwitchCases_case_else_counterexample :
    switchStructOk cexSwCaseElse = true ∧ switchAnswersOk [none] cexSwCaseElse = false ∧
    ∃ g', buildSwitchCases [none] cexSwCaseElse = .ok g' ∧ ¬ Equivalent cexSwCaseElse.ltsB g'.ltsS (0 : Nat) (0 : Nat) := by
  refine ⟨by decide, by decide, sw_cex cexSwCaseElse [none] (fun _ => false)
    [.op ⟨"Switch", []⟩, .tst ⟨"Case", []⟩ false, .op ⟨"Bar", []⟩, .stop evReturn]
    [.op ⟨"Switch", []⟩, .tst ⟨"Case", []⟩ false, .op ⟨"Foo", []⟩, .stop evReturn]
    ⟨_, by rfl, rfl⟩ (by rfl) (by rfl) (by decide)⟩

/-- `chainOk` is needed (1): the phase starts the case chain at the FIRST out-edge of the switch op in igraph's order, the
op falls through along its lowest one -/
theorem buildSwitchCases_first_edge_counterexample :
    switchStructOk cexSwFall = true ∧ switchAnswersOk [none] cexSwFall = false ∧
    ∃ g', buildSwitchCases [none] cexSwFall = .ok g' ∧ ¬ Equivalent cexSwFall.ltsB g'.ltsS (0 : Nat) (0 : Nat) := by
  refine ⟨by decide, by decide, sw_cex cexSwFall [none] (fun _ => true)
    [.op ⟨"Switch", []⟩, .op ⟨"Foo", []⟩, .stop evReturn]
    [.op ⟨"Switch", []⟩, .op ⟨"Bar", []⟩, .stop evReturn]
    ⟨_, by rfl, rfl⟩ (by rfl) (by rfl) (by decide)⟩

/-- `chainOk` is needed (2): an out-edge of the switch op that is already flagged else stays a second else edge -/
theorem buildSwitchCases_flagged_edge_counterexample :
    switchStructOk cexSwPlain = true ∧ switchAnswersOk [none] cexSwPlain = false ∧
    ∃ g', buildSwitchCases [none] cexSwPlain = .ok g' ∧ ¬ Equivalent cexSwPlain.ltsB g'.ltsS (0 : Nat) (0 : Nat) := by
  refine ⟨by decide, by decide, sw_cex cexSwPlain [none] (fun _ => false)
    [.op ⟨"Switch", []⟩, .tst ⟨"Case", []⟩ false, .op ⟨"Bar", []⟩, .stop evReturn]
    [.op ⟨"Switch", []⟩, .tst ⟨"Case", []⟩ false, .op ⟨"Qux", []⟩, .stop evReturn]
    ⟨_, by rfl, rfl⟩ (by rfl) (by rfl) (by decide)⟩

/-- `jumpOkS` is needed (1): a second in-edge of the by-passed Jump is cut by the deletion -/
theorem buildSwitchCases_second_in_edge_counterexample :
    switchStructOk cexSwJumpIn = true ∧ switchAnswersOk [some [0]] cexSwJumpIn = false ∧
    ∃ g', buildSwitchCases [some [0]] cexSwJumpIn = .ok g' ∧ ¬ Equivalent cexSwJumpIn.ltsB g'.ltsS (0 : Nat) (0 : Nat) := by
  refine ⟨by decide, by decide, sw_cex cexSwJumpIn [some [0]] (fun _ => true)
    [.op ⟨"Switch", []⟩, .tst ⟨"Case", []⟩ true, .op ⟨"Foo", []⟩, .op ⟨"Bar", []⟩, .stop evReturn]
    [.op ⟨"Switch", []⟩, .tst ⟨"Case", []⟩ true, .op ⟨"Foo", []⟩, .stop evReturn]
    ⟨_, by rfl, rfl⟩ (by rfl) (by rfl) (by decide)⟩

/-- `jumpOkS` is needed (2): the by-passed Jump must not be vertex 0 -/
theorem buildSwitchCases_jump_start_counterexample :
    switchStructOk cexSwJumpStart = true ∧ switchAnswersOk [some [0]] cexSwJumpStart = false ∧
    ∃ g', buildSwitchCases [some [0]] cexSwJumpStart = .ok g' ∧ ¬ Equivalent cexSwJumpStart.ltsB g'.ltsS (0 : Nat) (0 : Nat) := by
  refine ⟨by decide, by decide, sw_cex cexSwJumpStart [some [0]] (fun _ => true)
    [.op ⟨"Bar", []⟩, .stop evReturn]
    [.op ⟨"Switch", []⟩, .tst ⟨"Case", []⟩ true, .op ⟨"Bar", []⟩, .stop evReturn]
    ⟨_, by rfl, rfl⟩ (by rfl) (by rfl) (by decide)⟩

/-- `jumpOkS` is needed (3): the by-passed Jump must lead to the end label -/
theorem buildSwitchCases_other_target_counterexample :
    switchStructOk cexSwJumpTarget = true ∧ switchAnswersOk [some [5, 1]] cexSwJumpTarget = false ∧
    ∃ g', buildSwitchCases [some [5, 1]] cexSwJumpTarget = .ok g' ∧
      ¬ Equivalent cexSwJumpTarget.ltsB g'.ltsS (0 : Nat) (0 : Nat) := by
  refine ⟨by decide, by decide, sw_cex cexSwJumpTarget [some [5, 1]] (fun _ => true)
    [.op ⟨"Switch", []⟩, .tst ⟨"Case", []⟩ true, .op ⟨"Foo", []⟩, .op ⟨"Qux", []⟩, .stop evReturn]
    [.op ⟨"Switch", []⟩, .tst ⟨"Case", []⟩ true, .op ⟨"Foo", []⟩, .op ⟨"Bar", []⟩, .stop evReturn]
    ⟨_, by rfl, rfl⟩ (by rfl) (by rfl) (by decide)⟩

/-- `lvlDet` is needed: with two out-edges of one flow level, the by-pass (new target, new edge id) changes which of them
is the first in igraph's order -/
theorem buildSwitchCases_levels_counterexample :
    noSwitchMarks cexSwLvl = true ∧ flagDet cexSwLvl = true ∧ switchAnswersOk [some [2]] cexSwLvl = true ∧
    lvlDet cexSwLvl = false ∧
    ∃ g', buildSwitchCases [some [2]] cexSwLvl = .ok g' ∧ ¬ Equivalent cexSwLvl.ltsB g'.ltsS (0 : Nat) (0 : Nat) := by
  refine ⟨by decide, by decide, by decide, by decide, sw_cex cexSwLvl [some [2]] (fun _ => true)
    [.op ⟨"Switch", []⟩, .tst ⟨"Case", []⟩ true, .op ⟨"Foo", []⟩, .op ⟨"Bar", []⟩, .stop evReturn]
    [.op ⟨"Switch", []⟩, .tst ⟨"Case", []⟩ true, .op ⟨"Foo", []⟩, .op ⟨"Qux", []⟩, .stop evReturn]
    ⟨_, by rfl, rfl⟩ (by rfl) (by rfl) (by decide)⟩

/-- `flagDet` is needed: the same with the two else edges of an if -/
theorem buildSwitchCases_flags_counterexample :
    noSwitchMarks cexSwFlag = true ∧ lvlDet cexSwFlag = true ∧ switchAnswersOk [some [3]] cexSwFlag = true ∧
    flagDet cexSwFlag = false ∧
    ∃ g', buildSwitchCases [some [3]] cexSwFlag = .ok g' ∧ ¬ Equivalent cexSwFlag.ltsB g'.ltsS (0 : Nat) (0 : Nat) := by
  refine ⟨by decide, by decide, by decide, by decide, sw_cex cexSwFlag [some [3]] (fun k => k == 0)
    [.op ⟨"Switch", []⟩, .tst ⟨"Case", []⟩ true, .tst ⟨"Branch", []⟩ false, .op ⟨"Bar", []⟩, .stop evReturn]
    [.op ⟨"Switch", []⟩, .tst ⟨"Case", []⟩ true, .tst ⟨"Branch", []⟩ false, .op ⟨"Qux", []⟩, .stop evReturn]
    ⟨_, by rfl, rfl⟩ (by rfl) (by rfl) (by decide)⟩

/-- `noSwitchMarks` is needed: a switch that is already there (here with two else edges) is read by its flags, which the
structure hypotheses of this phase do not cover -/
theorem buildSwitchCases_marks_counterexample :
    lvlDet cexSwMarks = true ∧ flagDet cexSwMarks = true ∧ switchAnswersOk [some [2]] cexSwMarks = true ∧
    noSwitchMarks cexSwMarks = false ∧
    ∃ g', buildSwitchCases [some [2]] cexSwMarks = .ok g' ∧ ¬ Equivalent cexSwMarks.ltsS g'.ltsS (0 : Nat) (0 : Nat) := by
  refine ⟨by decide, by decide, by decide, by decide, afterSwitch [some [2]] cexSwMarks, by rfl, ?_⟩
  intro h
  exact not_sim_of_traces cexSwMarks.ltsS (afterSwitch [some [2]] cexSwMarks).ltsS (0 : Nat) (0 : Nat) (fun _ => true) 12 12
    [.op ⟨"Switch", []⟩, .tst ⟨"Case", []⟩ true, .op ⟨"SwitchSector", []⟩, .op ⟨"Bar", []⟩, .stop evReturn]
    [.op ⟨"Switch", []⟩, .tst ⟨"Case", []⟩ true, .op ⟨"SwitchSector", []⟩, .op ⟨"Qux", []⟩, .stop evReturn]
    (by rfl) (by rfl) (by decide) h.1

/-- `elseNoOps` is needed for `group_switch_cases`: the `switch_ops` of an else edge that is merged into another edge are
dropped (`if rest_e["is_else"]: first_e["is_else"] = True  else: first_e["switch_ops"] += …`) -/
theorem groupSwitchCases_else_ops_counterexample :
    lvlDet cexGsElseOps = true ∧ flagDet cexGsElseOps = true ∧ elseDet cexGsElseOps = true ∧ idxDet cexGsElseOps = true ∧
    elseNoOps cexGsElseOps = false ∧
    ∃ g', groupSwitchCases cexGsElseOps = .ok g' ∧ ¬ Equivalent cexGsElseOps.ltsS g'.ltsS (0 : Nat) (0 : Nat) := by
  refine ⟨by decide, by decide, by decide, by decide, by decide, afterGroupSw cexGsElseOps, by rfl, ?_⟩
  intro h
  exact not_sim_of_traces cexGsElseOps.ltsS (afterGroupSw cexGsElseOps).ltsS (0 : Nat) (0 : Nat) (fun _ => false) 12 12
    [.op ⟨"Switch", []⟩, .tst ⟨"Case", []⟩ false, .tst ⟨"CaseValue", []⟩ false, .tst ⟨"CaseVariable", []⟩ false,
      .op ⟨"Foo", []⟩, .stop evReturn]
    [.op ⟨"Switch", []⟩, .tst ⟨"CaseValue", []⟩ false, .tst ⟨"CaseVariable", []⟩ false, .op ⟨"Foo", []⟩, .stop evReturn]
    (by rfl) (by rfl) (by decide) h.1

end ESV.Decomp
