import ESV.Decomp.SwTests
/-
`step_congr`: the step of a vertex commutes with a renaming `τ` of the vertices whenever the vertex keeps its attributes, its
out-edges correspond (`EdgeCorr`), what it reads from them is determined (`Det`), and "directly behind a context op" is kept.
Used for every stage of the switch phases: vertices whose edges do not change (`τ = id`), the by-pass of Jumps (`τ` maps a
by-passed Jump to the end label), `delete_vertices` (`τ = renumber`).
-/
namespace ESV.Decomp.Sw
open ESV.Beh ESV.Decomp ESV.Decomp.Opt ESV.Decomp.Gr

/-- the renaming respects the two extra states "fell off the routine" and "stuck" -/
structure StateMap (g g' : BGraph) (τ : Nat → Nat) : Prop where
  fell : τ g.vs.length = g'.vs.length
  stuck : τ (g.vs.length + 1) = g'.vs.length + 1

def pmap (τ : Nat → Nat) (p : Nat × Nat) : Nat × Nat := (τ p.1, p.2)

variable {g g' : BGraph} {τ : Nat → Nat} {a : Nat}

theorem mapStep_mapStep {α β γ : Type} (f : α → β) (h : β → γ) (s : Step α Ev) :
    mapStep h (mapStep f s) = mapStep (fun x => h (f x)) s := by
  cases s <;> rfl

theorem levelRead_of (hi : g.isIfV a = false) (hs : g.isSwitchV a = false) : g.levelRead a = true := by
  unfold BGraph.levelRead; simp [hi, hs]

/-- the attributes of a vertex that a step reads (everything but its name and the end markers of a label) -/
def core (x : BVertex) : VOp × Option Nat × List MOp × Bool × Option Nat := (x.op, x.ifStart, x.ifOps, x.isNot, x.switchStart)

/-- `a` keeps what a step reads of its attributes -/
def SameV (g g' : BGraph) (a a' : Nat) : Prop := (g'.vs[a']?).map core = (g.vs[a]?).map core

theorem SameV.of_eq {a a' : Nat} (h : g'.vs[a']? = g.vs[a]?) : SameV g g' a a' := by unfold SameV; rw [h]

theorem SameV.op {a a' : Nat} (h : SameV g g' a a') : (g'.vs[a']?).map (·.op) = (g.vs[a]?).map (·.op) := by
  unfold SameV at h
  cases h1 : g'.vs[a']? <;> cases h2 : g.vs[a]? <;> rw [h1, h2] at h <;> simp [core] at h ⊢
  exact h.1

theorem SameV.none {a a' : Nat} (h : SameV g g' a a') (hn : g.vs[a]? = none) : g'.vs[a']? = none := by
  unfold SameV at h
  rw [hn] at h
  cases h1 : g'.vs[a']? with
  | none => rfl
  | some x => rw [h1] at h; simp at h

theorem isSwitchV_same {a a' : Nat} (h : SameV g g' a a') : g'.isSwitchV a' = g.isSwitchV a := by
  unfold SameV at h
  unfold BGraph.isSwitchV
  cases h1 : g'.vs[a']? <;> cases h2 : g.vs[a]? <;> rw [h1, h2] at h <;> simp [core] at h ⊢
  unfold BGraph.isSwitchVertex
  rw [h.1, h.2.2.2.2]

theorem isIfV_same {a a' : Nat} (h : SameV g g' a a') : g'.isIfV a' = g.isIfV a := by
  unfold SameV at h
  unfold BGraph.isIfV
  cases h1 : g'.vs[a']? <;> cases h2 : g.vs[a]? <;> rw [h1, h2] at h <;> simp [core] at h ⊢
  unfold BGraph.isIfVertex
  rw [h.1, h.2.1]

theorem stepE_congr (hdet : Det g) (hm : StateMap g g' τ) (hi : g.isIfV a = false) (hs : g.isSwitchV a = false)
    (hvs : SameV g g' a (τ a))
    (hout : g.vs[a]? = none → ((τ a == g'.vs.length) = (a == g.vs.length)))
    (hc : EdgeCorr g g' τ a)
    (hctx : ∀ o, (g.vs[a]?).map (·.op) = some (.item (.op o)) → g'.toGraph.afterCtxE (τ a) = g.toGraph.afterCtxE a) :
    g'.toGraph.stepE (τ a) = mapStep τ (g.toGraph.stepE a) := by
  have hlr := levelRead_of hi hs
  unfold Graph.stepE
  rw [toGraph_vs_get', toGraph_vs_get', hvs.op, toGraph_fellOff, toGraph_fellOff]
  cases hx : g.vs[a]? with
  | none =>
    simp only [Option.map_none]
    rw [hout hx]
    split <;> rfl
  | some x =>
    simp only [Option.map_some]
    cases hop : x.op with
    | foreign l => rfl
    | item it =>
      cases it with
      | label l => simp only [mapStep]; rw [fall_congr hdet hlr hc hm.fell]
      | ljump r l c =>
        simp only
        split
        · simp only [mapStep]; rw [jumpTarget_congr hdet hlr hc hm.stuck]
        · simp only [mapStep]; rw [jumpTarget_congr hdet hlr hc hm.stuck, fallOfJump_congr hdet hlr hc hm.fell]
      | op o =>
        simp only
        rw [hctx o (by rw [hx]; simp [hop])]
        split
        · rfl
        · simp only [mapStep]; rw [fall_congr hdet hlr hc hm.fell]

theorem ifStep_congr (hdet : Det g) (hm : StateMap g g' τ) (hi : g.isIfV a = true) (hs : g.isSwitchV a = false)
    (hc : EdgeCorr g g' τ a) (j : Nat) (x x' : BVertex) (hx : core x' = core x) :
    g'.ifStep (τ a) j x' = mapStep (pmap τ) (g.ifStep a j x) := by
  have h1 := ifTarget_congr hdet hi hs hc hm.stuck
  have h2 := elseTarget_congr hdet hi hs hc hm.stuck
  simp only [core, Prod.mk.injEq] at hx
  obtain ⟨e1, _, e3, e4, _⟩ := hx
  have ht : BGraph.testsOf x' = BGraph.testsOf x := by unfold BGraph.testsOf; rw [e1, e3]
  unfold BGraph.ifStep BGraph.takenOf BGraph.notTakenOf
  rw [ht, e4]
  cases (BGraph.testsOf x)[j]? with
  | none => rfl
  | some t =>
    simp only [mapStep, pmap, h1, h2]
    congr 1
    · split <;> rfl
    · split
      · rfl
      · split <;> rfl

theorem switchStep_congr (hdet : Det g) (hm : StateMap g g' τ) (hs : g.isSwitchV a = true) (hc : EdgeCorr g g' τ a)
    (hctx : g'.toGraph.afterCtxE (τ a) = g.toGraph.afterCtxE a) (j : Nat) (o : MOp) :
    g'.switchStep (τ a) j o = mapStep (pmap τ) (g.switchStep a j o) := by
  unfold BGraph.switchStep
  cases j with
  | zero =>
    simp only
    rw [hctx]
    split
    · rfl
    · simp only [mapStep]; rw [switchNext_congr hdet hs hc hm.fell]; rfl
  | succ i =>
    simp only
    rw [nextTest_congr hdet hs hc i]
    cases g.nextTest a i with
    | none => rfl
    | some t =>
      obtain ⟨ix, op, d⟩ := t
      simp only [Option.map_some, mapT, mapStep]
      rw [switchNext_congr hdet hs hc hm.fell]; rfl

/-- the step of a switch vertex, spelled out -/
theorem stepPS_switch (g : BGraph) (a j : Nat) (x : BVertex) (o : MOp) (hx : g.vs[a]? = some x) (hs : g.isSwitchV a = true)
    (ho : x.op = .item (.op o)) : g.stepPS (a, j) = g.switchStep a j o := by
  unfold BGraph.stepPS
  simp only [hs, if_true]
  rw [hx]
  obtain ⟨n, op, a1, a2, a3, a4, a5, a6, a7, a8, a9, a10, a11, a12, a13⟩ := x
  simp only at ho
  subst ho
  rfl

theorem isSwitchV_op (g : BGraph) (a : Nat) (hs : g.isSwitchV a = true) :
    ∃ x o, g.vs[a]? = some x ∧ x.op = .item (.op o) := by
  unfold BGraph.isSwitchV at hs
  cases hx : g.vs[a]? with
  | none => rw [hx] at hs; cases hs
  | some x =>
    rw [hx] at hs
    simp only at hs
    unfold BGraph.isSwitchVertex at hs
    split at hs
    · rename_i o _ h1 _; exact ⟨x, o, rfl, h1⟩
    · cases hs

theorem step_congr (hdet : Det g) (hm : StateMap g g' τ) (a j : Nat)
    (hvs : SameV g g' a (τ a))
    (hout : g.vs[a]? = none → ((τ a == g'.vs.length) = (a == g.vs.length)))
    (hc : EdgeCorr g g' τ a)
    (hctx : ∀ o, (g.vs[a]?).map (·.op) = some (.item (.op o)) → g'.toGraph.afterCtxE (τ a) = g.toGraph.afterCtxE a) :
    g'.stepPS (τ a, j) = mapStep (pmap τ) (g.stepPS (a, j)) := by
  have hsw := isSwitchV_same hvs
  have hif := isIfV_same hvs
  cases hs : g.isSwitchV a with
  | true =>
    obtain ⟨x, o, hx, ho⟩ := isSwitchV_op g a hs
    obtain ⟨x', o', hx', ho'⟩ := isSwitchV_op g' (τ a) (by rw [hsw]; exact hs)
    have hop := hvs.op
    rw [hx, hx'] at hop
    simp only [Option.map_some, Option.some.injEq] at hop
    rw [ho, ho'] at hop
    have : o' = o := by simpa using hop
    subst this
    rw [stepPS_switch g a j x o' hx hs ho, stepPS_switch g' (τ a) j x' o' hx' (by rw [hsw]; exact hs) ho']
    exact switchStep_congr hdet hm hs hc (hctx o' (by rw [hx]; simp [ho])) j o'
  | false =>
    rw [stepPS_of_not_switch g' (τ a, j) (by rw [hsw]; exact hs), stepPS_of_not_switch g (a, j) hs]
    unfold BGraph.stepP
    simp only
    rw [hif]
    cases hi : g.isIfV a with
    | true =>
      simp only [if_true]
      unfold SameV at hvs
      cases h1 : g'.vs[τ a]? <;> cases h2 : g.vs[a]? <;> rw [h1, h2] at hvs <;> simp at hvs
      · rfl
      · exact ifStep_congr hdet hm hi hs hc j _ _ hvs
    | false =>
      simp only [Bool.false_eq_true, if_false]
      split
      · rw [stepE_congr hdet hm hi hs hvs hout hc hctx, mapStep_mapStep, mapStep_mapStep]; rfl
      · rfl

end ESV.Decomp.Sw
