import ESV.Decomp.SwLts
import ESV.Decomp.GrBridge
import ESV.Decomp.GrFlag
/-
What a vertex reads from its out-edges is a function of the SET of its out-edges, as long as the reading is determined
(`Det`: edges of one level-read vertex and flow level, of one if and flag, else edges of one switch, case tests of one switch
and index lead to the same vertex).  `EdgeCorr g g' τ a`: the out-edges of `τ a` in `g'` are the out-edges of `a` in `g` that `a`
reads, retargeted by `τ`.  This file: the readings of the level-read vertices and of the ifs commute with `τ`.
-/
namespace ESV.Decomp.Sw
open ESV.Beh ESV.Decomp ESV.Decomp.Opt ESV.Decomp.Gr

structure Det (g : BGraph) : Prop where
  lvl : ∀ e ∈ g.es, ∀ e' ∈ g.es, e.src = e'.src → g.levelRead e.src = true → e.level = e'.level → e.dst = e'.dst
  flag : ∀ e ∈ g.es, ∀ e' ∈ g.es, e.src = e'.src → g.isIfV e.src = true → e.isElse = e'.isElse → e.dst = e'.dst
  els : ∀ e ∈ g.es, ∀ e' ∈ g.es, e.src = e'.src → g.isSwitchV e.src = true → e.isElse = true → e'.isElse = true →
    e.dst = e'.dst
  idx : ∀ e ∈ g.es, ∀ e' ∈ g.es, e.src = e'.src → g.isSwitchV e.src = true → ∀ t ∈ e.switchOps, ∀ t' ∈ e'.switchOps,
    t.2.1 = t'.2.1 → t.2.2 = t'.2.2 ∧ e.dst = e'.dst

/-- an edge with both ends renamed -/
def img (τ : Nat → Nat) (e : BEdge) : BEdge := { e with src := τ e.src, dst := τ e.dst }

structure EdgeCorr (g g' : BGraph) (τ : Nat → Nat) (a : Nat) : Prop where
  up : ∀ e' ∈ g'.es, e'.src = τ a → ∃ e ∈ g.es, e.src = a ∧ e' = img τ e
  low : ∀ e ∈ g.es, e.src = a → g.ignoredE e = false → img τ e ∈ g'.es

theorem ignoredE_of_not_switch (g : BGraph) (e : BEdge) (h : g.isSwitchV e.src = false) : g.ignoredE e = false := by
  unfold BGraph.ignoredE; simp [h]

theorem mem_toGraph_es (g : BGraph) (e : Edge) : e ∈ g.toGraph.es ↔ ∃ b ∈ g.es, b.toEdge = e := by
  unfold BGraph.toGraph; simp

theorem lowest_char (g : BGraph) (a : Nat) :
    (g.toGraph.lowest a = none ∧ ∀ b ∈ g.es, b.src ≠ a) ∨
    ∃ b ∈ g.es, b.src = a ∧ g.toGraph.lowest a = some b.toEdge ∧ ∀ b' ∈ g.es, b'.src = a → b.level ≤ b'.level := by
  rcases lowest_spec g.toGraph a with ⟨h1, h2⟩ | ⟨e, h1, h2, h3, h4⟩
  · left
    refine ⟨h1, ?_⟩
    intro b hb hs
    exact h2 b.toEdge ((mem_toGraph_es g _).mpr ⟨b, hb, rfl⟩) hs
  · right
    obtain ⟨b, hb, rfl⟩ := (mem_toGraph_es g e).mp h2
    refine ⟨b, hb, h3, h1, ?_⟩
    intro b' hb' hs'
    exact h4 b'.toEdge ((mem_toGraph_es g _).mpr ⟨b', hb', rfl⟩) hs'

theorem highest_char (g : BGraph) (a : Nat) :
    (g.toGraph.highest a = none ∧ ∀ b ∈ g.es, b.src ≠ a) ∨
    ∃ b ∈ g.es, b.src = a ∧ g.toGraph.highest a = some b.toEdge ∧ ∀ b' ∈ g.es, b'.src = a → b'.level ≤ b.level := by
  rcases highest_spec g.toGraph a with ⟨h1, h2⟩ | ⟨e, h1, h2, h3, h4⟩
  · left
    refine ⟨h1, ?_⟩
    intro b hb hs
    exact h2 b.toEdge ((mem_toGraph_es g _).mpr ⟨b, hb, rfl⟩) hs
  · right
    obtain ⟨b, hb, rfl⟩ := (mem_toGraph_es g e).mp h2
    refine ⟨b, hb, h3, h1, ?_⟩
    intro b' hb' hs'
    exact h4 b'.toEdge ((mem_toGraph_es g _).mpr ⟨b', hb', rfl⟩) hs'

variable {g g' : BGraph} {τ : Nat → Nat} {a : Nat}

/-- the lowest out-edges correspond: same level, target renamed -/
theorem low_congr (hdet : Det g) (hlr : g.levelRead a = true) (hc : EdgeCorr g g' τ a) :
    (g.toGraph.lowest a = none ∧ g'.toGraph.lowest (τ a) = none) ∨
    ∃ lo lo', g.toGraph.lowest a = some lo ∧ g'.toGraph.lowest (τ a) = some lo' ∧ lo'.level = lo.level ∧
      lo'.dst = τ lo.dst := by
  have hsw : g.isSwitchV a = false := by
    unfold BGraph.levelRead at hlr; simp only [Bool.and_eq_true, Bool.not_eq_true'] at hlr; exact hlr.2
  have hlow : ∀ e ∈ g.es, e.src = a → img τ e ∈ g'.es := fun e he hs =>
    hc.low e he hs (ignoredE_of_not_switch g e (by rw [hs]; exact hsw))
  rcases lowest_char g' (τ a) with ⟨h1, h2⟩ | ⟨b', hb', hs', h1, h2⟩
  · left
    rcases lowest_char g a with ⟨h3, _⟩ | ⟨b, hb, hs, _, _⟩
    · exact ⟨h3, h1⟩
    · exact absurd (show (img τ b).src = τ a by simp [img, hs]) (h2 _ (hlow b hb hs))
  · right
    obtain ⟨b0, hb0, hs0, rfl⟩ := hc.up b' hb' hs'
    rcases lowest_char g a with ⟨_, h4⟩ | ⟨b, hb, hs, h3, h4⟩
    · exact absurd hs0 (h4 b0 hb0)
    · refine ⟨_, _, h3, h1, ?_, ?_⟩
      · have l1 : (img τ b0).level ≤ (img τ b).level := h2 _ (hlow b hb hs) (by simp [img, hs])
        have l2 : b.level ≤ b0.level := h4 b0 hb0 hs0
        show (img τ b0).level = b.level
        simp only [img] at l1 ⊢
        omega
      · have l1 : (img τ b0).level ≤ (img τ b).level := h2 _ (hlow b hb hs) (by simp [img, hs])
        have l2 : b.level ≤ b0.level := h4 b0 hb0 hs0
        have hd : b.dst = b0.dst := hdet.lvl b hb b0 hb0 (by rw [hs, hs0]) (by rw [hs]; exact hlr)
          (by simp only [img] at l1; omega)
        show (img τ b0).dst = τ b.dst
        simp [img, hd]

theorem high_congr (hdet : Det g) (hlr : g.levelRead a = true) (hc : EdgeCorr g g' τ a) :
    (g.toGraph.highest a = none ∧ g'.toGraph.highest (τ a) = none) ∨
    ∃ hi hi', g.toGraph.highest a = some hi ∧ g'.toGraph.highest (τ a) = some hi' ∧ hi'.level = hi.level ∧
      hi'.dst = τ hi.dst := by
  have hsw : g.isSwitchV a = false := by
    unfold BGraph.levelRead at hlr; simp only [Bool.and_eq_true, Bool.not_eq_true'] at hlr; exact hlr.2
  have hlow : ∀ e ∈ g.es, e.src = a → img τ e ∈ g'.es := fun e he hs =>
    hc.low e he hs (ignoredE_of_not_switch g e (by rw [hs]; exact hsw))
  rcases highest_char g' (τ a) with ⟨h1, h2⟩ | ⟨b', hb', hs', h1, h2⟩
  · left
    rcases highest_char g a with ⟨h3, _⟩ | ⟨b, hb, hs, _, _⟩
    · exact ⟨h3, h1⟩
    · exact absurd (show (img τ b).src = τ a by simp [img, hs]) (h2 _ (hlow b hb hs))
  · right
    obtain ⟨b0, hb0, hs0, rfl⟩ := hc.up b' hb' hs'
    rcases highest_char g a with ⟨_, h4⟩ | ⟨b, hb, hs, h3, h4⟩
    · exact absurd hs0 (h4 b0 hb0)
    · refine ⟨_, _, h3, h1, ?_, ?_⟩
      · have l1 : (img τ b).level ≤ (img τ b0).level := h2 _ (hlow b hb hs) (by simp [img, hs])
        have l2 : b0.level ≤ b.level := h4 b0 hb0 hs0
        show (img τ b0).level = b.level
        simp only [img] at l1 ⊢
        omega
      · have l1 : (img τ b).level ≤ (img τ b0).level := h2 _ (hlow b hb hs) (by simp [img, hs])
        have l2 : b0.level ≤ b.level := h4 b0 hb0 hs0
        have hd : b.dst = b0.dst := hdet.lvl b hb b0 hb0 (by rw [hs, hs0]) (by rw [hs]; exact hlr)
          (by simp only [img] at l1; omega)
        show (img τ b0).dst = τ b.dst
        simp [img, hd]

theorem fall_congr (hdet : Det g) (hlr : g.levelRead a = true) (hc : EdgeCorr g g' τ a)
    (hfell : τ g.vs.length = g'.vs.length) : g'.toGraph.fall (τ a) = τ (g.toGraph.fall a) := by
  unfold Graph.fall
  rcases low_congr hdet hlr hc with ⟨h1, h2⟩ | ⟨lo, lo', h1, h2, _, h4⟩
  · rw [h1, h2, toGraph_fellOff, toGraph_fellOff, hfell]
  · rw [h1, h2]; exact h4

theorem jumpTarget_congr (hdet : Det g) (hlr : g.levelRead a = true) (hc : EdgeCorr g g' τ a)
    (hstuck : τ (g.vs.length + 1) = g'.vs.length + 1) : g'.toGraph.jumpTarget (τ a) = τ (g.toGraph.jumpTarget a) := by
  unfold Graph.jumpTarget
  rcases high_congr hdet hlr hc with ⟨h1, h2⟩ | ⟨hi, hi', h1, h2, _, h4⟩
  · rw [h1, h2, toGraph_stuck, toGraph_stuck, hstuck]
  · rw [h1, h2]; exact h4

theorem fallOfJump_congr (hdet : Det g) (hlr : g.levelRead a = true) (hc : EdgeCorr g g' τ a)
    (hfell : τ g.vs.length = g'.vs.length) : g'.toGraph.fallOfJump (τ a) = τ (g.toGraph.fallOfJump a) := by
  unfold Graph.fallOfJump
  rcases low_congr hdet hlr hc with ⟨h1, h2⟩ | ⟨lo, lo', h1, h2, h3, h4⟩
  · rw [h1, h2, toGraph_fellOff, toGraph_fellOff, hfell]
  · rcases high_congr hdet hlr hc with ⟨h5, h6⟩ | ⟨hi, hi', h5, h6, h7, _⟩
    · rw [h1, h2, h5, h6, toGraph_fellOff, toGraph_fellOff, hfell]
    · rw [h1, h2, h5, h6]
      simp only [h3, h7]
      split
      · exact h4
      · rw [toGraph_fellOff, toGraph_fellOff, hfell]

/-! ## ifs: the flagged edges -/

theorem ifTarget_congr (hdet : Det g) (hif : g.isIfV a = true) (hsw : g.isSwitchV a = false) (hc : EdgeCorr g g' τ a)
    (hstuck : τ (g.vs.length + 1) = g'.vs.length + 1) : g'.ifTarget (τ a) = τ (g.ifTarget a) := by
  have hlow : ∀ e ∈ g.es, e.src = a → img τ e ∈ g'.es := fun e he hs =>
    hc.low e he hs (ignoredE_of_not_switch g e (by rw [hs]; exact hsw))
  unfold BGraph.ifTarget
  cases h' : g'.firstIf (τ a) with
  | none =>
    cases h : g.firstIf a with
    | none => simp only; rw [toGraph_stuck, toGraph_stuck, hstuck]
    | some p =>
      obtain ⟨i, e⟩ := p
      obtain ⟨h1, h2, h3⟩ := firstIf_some g a i e h
      have hm := hlow e (List.mem_of_getElem? h1) h2
      obtain ⟨k, hk⟩ := List.getElem?_of_mem hm
      have := firstIf_none g' (τ a) h' k _ hk (by simp [img, h2])
      simp [img, h3] at this
  | some p' =>
    obtain ⟨i', e'⟩ := p'
    obtain ⟨h1, h2, h3⟩ := firstIf_some g' (τ a) i' e' h'
    obtain ⟨e0, he0, hs0, rfl⟩ := hc.up e' (List.mem_of_getElem? h1) h2
    cases h : g.firstIf a with
    | none =>
      obtain ⟨k, hk⟩ := List.getElem?_of_mem he0
      have := firstIf_none g a h k e0 hk hs0
      simp [img, this] at h3
    | some p =>
      obtain ⟨i, e⟩ := p
      obtain ⟨h4, h5, h6⟩ := firstIf_some g a i e h
      have hd : e.dst = e0.dst := hdet.flag e (List.mem_of_getElem? h4) e0 he0 (by rw [h5, hs0]) (by rw [h5]; exact hif)
        (by simp only [img] at h3; rw [h6, h3])
      simp [img, hd]

theorem elseTarget_congr (hdet : Det g) (hif : g.isIfV a = true) (hsw : g.isSwitchV a = false) (hc : EdgeCorr g g' τ a)
    (hstuck : τ (g.vs.length + 1) = g'.vs.length + 1) : g'.elseTarget (τ a) = τ (g.elseTarget a) := by
  have hlow : ∀ e ∈ g.es, e.src = a → img τ e ∈ g'.es := fun e he hs =>
    hc.low e he hs (ignoredE_of_not_switch g e (by rw [hs]; exact hsw))
  unfold BGraph.elseTarget
  cases h' : g'.firstElse (τ a) with
  | none =>
    cases h : g.firstElse a with
    | none => simp only; rw [toGraph_stuck, toGraph_stuck, hstuck]
    | some p =>
      obtain ⟨i, e⟩ := p
      obtain ⟨h1, h2, h3⟩ := firstElse_some g a i e h
      have hm := hlow e (List.mem_of_getElem? h1) h2
      obtain ⟨k, hk⟩ := List.getElem?_of_mem hm
      have := firstElse_none g' (τ a) h' k _ hk (by simp [img, h2])
      simp [img, h3] at this
  | some p' =>
    obtain ⟨i', e'⟩ := p'
    obtain ⟨h1, h2, h3⟩ := firstElse_some g' (τ a) i' e' h'
    obtain ⟨e0, he0, hs0, rfl⟩ := hc.up e' (List.mem_of_getElem? h1) h2
    cases h : g.firstElse a with
    | none =>
      obtain ⟨k, hk⟩ := List.getElem?_of_mem he0
      have := firstElse_none g a h k e0 hk hs0
      simp [img, this] at h3
    | some p =>
      obtain ⟨i, e⟩ := p
      obtain ⟨h4, h5, h6⟩ := firstElse_some g a i e h
      have hd : e.dst = e0.dst := hdet.flag e (List.mem_of_getElem? h4) e0 he0 (by rw [h5, hs0]) (by rw [h5]; exact hif)
        (by simp only [img] at h3; rw [h6, h3])
      simp [img, hd]

end ESV.Decomp.Sw
