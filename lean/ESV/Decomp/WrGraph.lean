import ESV.Decomp.WrSim
import ESV.Decomp.WrSpecTr
import ESV.Decomp.WriterGuard
import ESV.Decomp.LpSem
import ESV.Decomp.SwRead
/-
The graph side of the writer theorems: what `stepPL` (lean/ESV/Decomp/SemL.lean) does at the vertices the writers meet, in terms
of what the writers read (`outEs`: the out-edges in igraph's order), and the decidable hypothesis "the statement the writer prints
for this op denotes exactly this op" (`plainIdOk`, `testIdOk`).
-/
namespace ESV.Decomp.Wr
open ESV ESV.Beh ESV.Decomp ESV.Decomp.BGraph ESV.Decomp.Opt

/-- behavioural equality of a node of the list `N` (the table of a core program) and a state of the graph -/
abbrev EQ (g : BGraph) (N : List Src.Node) (e : Nat) (s : Nat × Nat) : Prop :=
  Equivalent (ESV.Comp.nodeLTS N) g.ltsPL e s

/-- the state a block continues in: at its next vertex, or - no vertex left - off the end of the routine -/
def st (g : BGraph) : Option Nat → Nat × Nat
  | some v => (v, 0)
  | none => (g.toGraph.fellOff, 0)

theorem toGraph_vs (g : BGraph) (v : Nat) : g.toGraph.vs[v]? = (g.vs[v]?).map (·.op) := by
  simp [BGraph.toGraph]

theorem toGraph_len (g : BGraph) : g.toGraph.vs.length = g.vs.length := by simp [BGraph.toGraph]

/-- off the end: the routine returns -/
theorem stepPL_fellOff (g : BGraph) : g.stepPL (g.toGraph.fellOff, 0) = .halt evReturn := by
  have hn : g.vs[g.toGraph.fellOff]? = none := by
    simp [Graph.fellOff, toGraph_len]
  have hn' : g.toGraph.vs[g.toGraph.fellOff]? = none := by rw [toGraph_vs, hn]; rfl
  simp [BGraph.stepPL, BGraph.isSynV, BGraph.stepPS, BGraph.isSwitchV, BGraph.stepP, BGraph.isIfV, hn, Graph.stepE, hn', mapStep]

/-- a vertex that is neither inserted, nor a switch, nor an if is read as `stepE` reads it -/
theorem stepPL_level (g : BGraph) (v : Nat) (x : BVertex) (hx : g.vs[v]? = some x) (hs : x.synthetic = false)
    (hw : isSwitchVertex x = false) (hi : isIfVertex x = false) :
    g.stepPL (v, 0) = mapStep (fun w => (w, 0)) (g.toGraph.stepE v) := by
  simp [BGraph.stepPL, BGraph.isSynV, BGraph.stepPS, BGraph.isSwitchV, BGraph.stepP, BGraph.isIfV, hx, hs, hw, hi]

theorem stepPL_if (g : BGraph) (v j : Nat) (x : BVertex) (hx : g.vs[v]? = some x) (hs : x.synthetic = false)
    (hw : isSwitchVertex x = false) (hi : isIfVertex x = true) : g.stepPL (v, j) = g.ifStep v j x := by
  simp [BGraph.stepPL, BGraph.isSynV, BGraph.stepPS, BGraph.isSwitchV, BGraph.stepP, BGraph.isIfV, hx, hs, hw, hi]

/-- the only out-edge is the fall-through edge -/
theorem fall_single (g : BGraph) (v : Nat) (p : Nat × BEdge) (h : g.outEs v = [p]) : g.toGraph.fall v = p.2.dst := by
  have hp : p ∈ g.outEs v := by rw [h]; simp
  obtain ⟨hpe, hps⟩ := (Gr.mem_outEs g v p.1 p.2).mp hp
  rcases Sw.lowest_char g v with ⟨_, hno⟩ | ⟨b, hb, hbs, hlow, _⟩
  · exact absurd hps (hno p.2 (List.mem_of_getElem? hpe))
  · obtain ⟨i, hi⟩ := List.getElem?_of_mem hb
    have : (i, b) ∈ g.outEs v := (Gr.mem_outEs g v i b).mpr ⟨hi, hbs⟩
    rw [h] at this
    simp only [List.mem_singleton] at this
    simp only [Graph.fall, hlow, BEdge.toEdge]
    rw [← this]

theorem fall_none (g : BGraph) (v : Nat) (h : g.outEs v = []) : g.toGraph.fall v = g.toGraph.fellOff := by
  rcases Sw.lowest_char g v with ⟨hn, _⟩ | ⟨b, hb, hbs, _, _⟩
  · simp [Graph.fall, hn]
  · obtain ⟨i, hi⟩ := List.getElem?_of_mem hb
    have : (i, b) ∈ g.outEs v := (Gr.mem_outEs g v i b).mpr ⟨hi, hbs⟩
    rw [h] at this; cases this

/-- the only out-edge is the jump edge -/
theorem jumpTarget_single (g : BGraph) (v : Nat) (p : Nat × BEdge) (h : g.outEs v = [p]) : g.toGraph.jumpTarget v = p.2.dst := by
  have hp : p ∈ g.outEs v := by rw [h]; simp
  obtain ⟨hpe, hps⟩ := (Gr.mem_outEs g v p.1 p.2).mp hp
  rcases Sw.highest_char g v with ⟨_, hno⟩ | ⟨b, hb, hbs, hhigh, _⟩
  · exact absurd hps (hno p.2 (List.mem_of_getElem? hpe))
  · obtain ⟨i, hi⟩ := List.getElem?_of_mem hb
    have : (i, b) ∈ g.outEs v := (Gr.mem_outEs g v i b).mpr ⟨hi, hbs⟩
    rw [h] at this
    simp only [List.mem_singleton] at this
    simp only [Graph.jumpTarget, hhigh, BEdge.toEdge]
    rw [← this]

/-- `exits01` is the fall-through successor -/
theorem exits01_fall (g : BGraph) (v : Nat) (n : Option Nat) (h : exits01 g v = .ok n) : (g.toGraph.fall v, 0) = st g n := by
  unfold exits01 at h
  split at h
  · rename_i h0; cases h; simp [st, fall_none g v h0]
  · rename_i p h1; cases h; simp [st, fall_single g v p h1]
  · cases h

end ESV.Decomp.Wr
