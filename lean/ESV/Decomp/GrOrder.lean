import ESV.Decomp.GraphSort
import ESV.Decomp.Optimize
/-
igraph's incident order (`outEdges`: ascending target id, then descending edge id) depends on the edge ids only through
their relative order: the out-edges of `v`, in the order `outEdges` delivers them, are a function (`isort`) of the
sublist of the edge list with source `v`.  Hence deleting / appending edges of OTHER vertices, and `delete_vertices`
(which renumbers monotonically), keep the order - no "one target per flow level" hypothesis is needed to follow
`lowest` / `highest` through `group_branches`.
-/
namespace ESV.Decomp.Gr
open ESV.Beh ESV.Decomp

/-- igraph's order on (edge id, edge) -/
def ltE (a b : Nat × Edge) : Bool := a.2.dst < b.2.dst || (a.2.dst == b.2.dst && a.1 > b.1)

def swapP (p : Edge × Nat) : Nat × Edge := (p.2, p.1)

/-- the edges of `F` (all leaving one vertex) in igraph's order, their positions in `F` as ids -/
def isort (F : List Edge) : List Edge := (sortBy ltE (F.zipIdx.map swapP)).map (·.2)

theorem outL_def (g : Graph) (v : Nat) :
    outL g v = (sortBy ltE ((g.es.zipIdx.filter fun p => p.1.src == v).map swapP)).map (·.2) := rfl

/-- same edges, possibly other ids -/
inductive SameE : List (Nat × Edge) → List (Nat × Edge) → Prop where
  | nil : SameE [] []
  | cons {a b : Nat × Edge} {as bs : List (Nat × Edge)} : a.2 = b.2 → SameE as bs → SameE (a :: as) (b :: bs)

theorem insert_rel (a b : Nat × Edge) (hab : a.2 = b.2) (A B : List (Nat × Edge)) (h : SameE A B)
    (ha : ∀ x ∈ A, a.1 < x.1) (hb : ∀ y ∈ B, b.1 < y.1) : SameE (insertBy ltE a A) (insertBy ltE b B) := by
  induction h with
  | nil => exact SameE.cons hab SameE.nil
  | @cons x y xs ys hxy hrest ih =>
    have h1 : ltE a x = ltE b y := by
      have ha' := ha x (by simp)
      have hb' := hb y (by simp)
      unfold ltE
      rw [hab, hxy]
      have e1 : decide (a.1 > x.1) = false := by simp; omega
      have e2 : decide (b.1 > y.1) = false := by simp; omega
      rw [e1, e2]
    unfold insertBy
    rw [h1]
    split
    · exact SameE.cons hab (SameE.cons hxy hrest)
    · exact SameE.cons hxy (ih (fun z hz => ha z (by simp [hz])) (fun z hz => hb z (by simp [hz])))

theorem sort_rel (A B : List (Nat × Edge)) (h : SameE A B) (ha : A.Pairwise fun x y => x.1 < y.1)
    (hb : B.Pairwise fun x y => x.1 < y.1) : SameE (sortBy ltE A) (sortBy ltE B) := by
  induction h with
  | nil => exact SameE.nil
  | @cons x y xs ys hxy hrest ih =>
    rw [List.pairwise_cons] at ha hb
    have e1 : sortBy ltE (x :: xs) = insertBy ltE x (sortBy ltE xs) := rfl
    have e2 : sortBy ltE (y :: ys) = insertBy ltE y (sortBy ltE ys) := rfl
    rw [e1, e2]
    apply insert_rel x y hxy _ _ (ih ha.2 hb.2)
    · intro z hz; exact ha.1 z ((mem_sortBy ltE z xs).mp hz)
    · intro z hz; exact hb.1 z ((mem_sortBy ltE z ys).mp hz)

theorem map_snd_of_sameE (A B : List (Nat × Edge)) (h : SameE A B) : A.map (·.2) = B.map (·.2) := by
  induction h with
  | nil => rfl
  | cons hxy _ ih => simp only [List.map_cons, hxy, ih]

theorem sameE_of_map_snd (A B : List (Nat × Edge)) (h : A.map (·.2) = B.map (·.2)) : SameE A B := by
  induction A generalizing B with
  | nil => cases B with
    | nil => exact SameE.nil
    | cons b bs => simp at h
  | cons a as ih => cases B with
    | nil => simp at h
    | cons b bs =>
      simp only [List.map_cons, List.cons.injEq] at h
      exact SameE.cons h.1 (ih bs h.2)

theorem zipIdx_pairwise {α : Type} (l : List α) (k : Nat) : (l.zipIdx k).Pairwise fun x y => x.2 < y.2 := by
  induction l generalizing k with
  | nil => exact List.Pairwise.nil
  | cons x xs ih =>
    rw [List.zipIdx_cons, List.pairwise_cons]
    refine ⟨?_, ih (k+1)⟩
    intro y hy
    have := List.le_snd_of_mem_zipIdx hy
    simp only; omega

theorem inc_swap (L : List (Edge × Nat)) (h : L.Pairwise fun x y => x.2 < y.2) :
    (L.map swapP).Pairwise fun x y => x.1 < y.1 := by
  rw [List.pairwise_map]; exact h

/-- **the out-edges of `v` in igraph's order depend on the sublist of edges with source `v` only** -/
theorem outL_eq_isort (g : Graph) (v : Nat) : outL g v = isort (g.es.filter fun e => e.src == v) := by
  rw [outL_def]
  unfold isort
  apply map_snd_of_sameE
  apply sort_rel
  · apply sameE_of_map_snd
    simp only [List.map_map]
    have e1 : ((fun x : Nat × Edge => x.2) ∘ swapP) = Prod.fst := rfl
    rw [e1, List.zipIdx_map_fst]
    have e2 : (fun p : Edge × Nat => p.1.src == v) = ((fun e : Edge => e.src == v) ∘ Prod.fst) := rfl
    rw [e2, ← List.filter_map, List.zipIdx_map_fst]
  · exact inc_swap _ ((zipIdx_pairwise g.es 0).sublist List.filter_sublist)
  · exact inc_swap _ (zipIdx_pairwise _ 0)

theorem insertBy_map_mem {α β : Type} (lt : α → α → Bool) (lt' : β → β → Bool) (f : α → β) (x : α) (l : List α)
    (h : ∀ z ∈ l, lt' (f x) (f z) = lt x z) : insertBy lt' (f x) (l.map f) = (insertBy lt x l).map f := by
  induction l with
  | nil => rfl
  | cons y ys ih =>
    simp only [List.map_cons, insertBy, h y (by simp)]
    split
    · rfl
    · rw [List.map_cons, ih (fun z hz => h z (by simp [hz]))]

theorem sortBy_map_mem {α β : Type} (lt : α → α → Bool) (lt' : β → β → Bool) (f : α → β) (l : List α)
    (h : ∀ x ∈ l, ∀ y ∈ l, lt' (f x) (f y) = lt x y) : sortBy lt' (l.map f) = (sortBy lt l).map f := by
  induction l with
  | nil => rfl
  | cons y ys ih =>
    have e1 : sortBy lt' ((y :: ys).map f) = insertBy lt' (f y) (sortBy lt' (ys.map f)) := rfl
    have e2 : sortBy lt (y :: ys) = insertBy lt y (sortBy lt ys) := rfl
    rw [e1, e2, ih (fun a ha b hb => h a (by simp [ha]) b (by simp [hb]))]
    apply insertBy_map_mem
    intro z hz
    exact h y (by simp) z (by simp [(mem_sortBy lt z ys).mp hz])

/-- renaming the edges by a map that keeps the order of the targets keeps igraph's order -/
theorem isort_map (F : List Edge) (f : Edge → Edge)
    (hlt : ∀ x ∈ F, ∀ y ∈ F, decide ((f x).dst < (f y).dst) = decide (x.dst < y.dst))
    (heq : ∀ x ∈ F, ∀ y ∈ F, ((f x).dst == (f y).dst) = (x.dst == y.dst)) :
    isort (F.map f) = (isort F).map f := by
  unfold isort
  rw [List.zipIdx_map, List.map_map]
  have e1 : (swapP ∘ Prod.map f id) = ((fun q : Nat × Edge => (q.1, f q.2)) ∘ swapP) := rfl
  rw [e1, ← List.map_map,
    sortBy_map_mem ltE ltE (fun q : Nat × Edge => (q.1, f q.2)) (F.zipIdx.map swapP), List.map_map, List.map_map]
  · rfl
  · intro a ha b hb
    obtain ⟨p, hp, rfl⟩ := List.mem_map.mp ha
    obtain ⟨q, hq, rfl⟩ := List.mem_map.mp hb
    have hp' := List.fst_mem_of_mem_zipIdx hp
    have hq' := List.fst_mem_of_mem_zipIdx hq
    unfold ltE swapP
    simp only
    rw [hlt p.1 hp' q.1 hq', heq p.1 hp' q.1 hq']

theorem filter_eraseIdx {α : Type} (p : α → Bool) (l : List α) (i : Nat) (x : α) (hi : l[i]? = some x)
    (hx : p x = false) : (l.eraseIdx i).filter p = l.filter p := by
  induction l generalizing i with
  | nil => rfl
  | cons y ys ih =>
    cases i with
    | zero =>
      simp only [List.getElem?_cons_zero, Option.some.injEq] at hi
      subst hi
      simp [List.eraseIdx, hx]
    | succ i =>
      simp only [List.getElem?_cons_succ] at hi
      simp only [List.eraseIdx, List.filter_cons, ih i hi]

end ESV.Decomp.Gr
