import ESV.Decomp.Branches
/-
Decidable hypotheses of `buildBranches_preserves` (lean/ESV/Props/DecompBranches.lean): the structure of the graph
that enters `build_branches`, and what an answer of the (unmodelled) search `find_first_common_next_vertex_in_edges`
has to satisfy, evaluated on the graph at the time of the call.  Core Lean only: the driver evaluates both on the
REAL graphs and the recorded REAL answers (`decomp.validate_branches`), so that it is measured on every run how often
the theorem applies.
-/
namespace ESV.Decomp
open ESV.Beh

namespace BGraph

/-- the Jump `j` in front of the end label `endV` can be by-passed and deleted without changing behaviour: it is not
the vertex the routine starts with, and either nothing leads to it, or exactly one edge does and the Jump goes to
`endV` (that edge is the one `_reconnect` moves to `endV`; a second in-edge would be cut by the deletion) -/
def jumpOk (g : BGraph) (j endV : Nat) : Bool :=
  !g.isJumpV j ||
  (j != 0 &&
    match g.inIds j with
    | [] => true
    | [_] => g.toGraph.jumpTarget j == endV
    | _ => false)

/-- **`AnswerOk g ans`**: what `buildBranches_preserves` asks of one answer of the search, on the graph `g` at the
time of the call.  Nothing is asked of an answer the phase does not act on (`None`, the end is not a label, a loop
edge, an edge going back); otherwise the Jump before the end on the if-path must be by-passable, and - unless both
paths end via the same edge - so must the Jump on the else-path, on the graph as it is after the first by-pass. -/
def answerOk (g : BGraph) : Option (Nat × Nat) → Bool
  | none => true
  | some (ei, ee) =>
    match g.es[ei]?, g.es[ee]? with
    | some eIf, some eElse =>
      let endV := eIf.dst
      if !g.isLabelV endV then true
      else if eIf.loop || eElse.loop || g.goesBack eIf || g.goesBack eElse then true
      else
        g.jumpOk eIf.src endV &&
          (ei == ee || (g.bypassJump [] eIf.src endV).1.jumpOk eElse.src endV)
    | _, _ => true

/-- `answerOk` for every call of the search during the loop of `build_branches` (same recursion as `buildGo`) -/
def answersOkGo : List Nat → List (Option (Nat × Nat)) → BGraph → List Nat → Nat → Bool
  | [], _, _, _, _ => true
  | v :: rest, answers, g, del, n =>
    if g.isBranchVertex v then
      match g.lowHigh v with
      | none => answersOkGo rest answers g del (n+1)
      | some (elseE, ifE) =>
        if elseE == ifE then true
        else if g.hasMarker v then true
        else
          let g1 := (g.setIfStart v n).setElse elseE
          match answers with
          | [] => true
          | a :: answers' =>
            g1.answerOk a &&
              match g1.applyAnswer del n a with
              | .error _ => true
              | .ok (g2, del2) => answersOkGo rest answers' g2 del2 (n+1)
    else answersOkGo rest answers g del n

end BGraph

/-- every answer of the search during `buildBranches answers g` satisfies `answerOk` at the time of its call -/
def answersOk (answers : List (Option (Nat × Nat))) (g : BGraph) : Bool :=
  BGraph.answersOkGo (List.range g.vs.length) answers g [] 0

/-- structure of the graph entering `build_branches`: out-edges of one vertex with the same flow level lead to the
same vertex (`levelsDetermine`, part of `graphOk`; kept by `optimize_paths`) -/
def branchesStructOk (g : BGraph) : Bool := levelsDetermine g.toGraph

end ESV.Decomp
