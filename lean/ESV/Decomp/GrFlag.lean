import ESV.Decomp.GrEdges
/-
`ifTarget` / `elseTarget` read off the out-edges as a set: if the out-edges of `u'` in `g'` are the out-edges of `u` in
`g` with the targets renamed by `ρ` (flags kept) and `g'` has at most one out-edge per flag at its if vertices, then
the two targets of `u'` are the renamed targets of `u`.
-/
namespace ESV.Decomp.Gr
open ESV.Beh ESV.Decomp

/-- out-edges of `u'` in `g'` = out-edges of `u` in `g`, flags kept, targets renamed by `ρ` -/
def FlagCorr (g g' : BGraph) (u u' : Nat) (ρ : Nat → Nat) : Prop :=
  (∀ e ∈ g.es, e.src = u → ∃ e' ∈ g'.es, e'.src = u' ∧ e'.isElse = e.isElse ∧ e'.dst = ρ e.dst) ∧
  (∀ e' ∈ g'.es, e'.src = u' → ∃ e ∈ g.es, e.src = u ∧ e.isElse = e'.isElse ∧ e'.dst = ρ e.dst)

theorem firstElse_eq_none (g : BGraph) (v : Nat) (h : ∀ e ∈ g.es, e.src = v → e.isElse = false) :
    g.firstElse v = none := by
  cases hf : g.firstElse v with
  | none => rfl
  | some p =>
    obtain ⟨h1, h2, h3⟩ := firstElse_some g v p.1 p.2 hf
    have := h p.2 (List.mem_of_getElem? h1) h2
    rw [h3] at this; cases this

theorem firstIf_eq_none (g : BGraph) (v : Nat) (h : ∀ e ∈ g.es, e.src = v → e.isElse = true) :
    g.firstIf v = none := by
  cases hf : g.firstIf v with
  | none => rfl
  | some p =>
    obtain ⟨h1, h2, h3⟩ := firstIf_some g v p.1 p.2 hf
    have := h p.2 (List.mem_of_getElem? h1) h2
    rw [h3] at this; cases this

theorem elseTarget_corr (g g' : BGraph) (u u' : Nat) (ρ : Nat → Nat) (hc : FlagCorr g g' u u' ρ) (hfu : FU g')
    (hv : g'.isIfV u' = true) (hstuck : ρ g.toGraph.stuck = g'.toGraph.stuck) :
    g'.elseTarget u' = ρ (g.elseTarget u) := by
  cases hf : g.firstElse u with
  | none =>
    have hn : g'.firstElse u' = none := by
      apply firstElse_eq_none
      intro e' he' hs'
      obtain ⟨e, he, hs, hfl, _⟩ := hc.2 e' he' hs'
      obtain ⟨i, hi⟩ := List.getElem?_of_mem he
      rw [← hfl]; exact firstElse_none g u hf i e hi hs
    unfold BGraph.elseTarget; rw [hf, hn]; exact hstuck.symm
  | some p =>
    obtain ⟨h1, h2, h3⟩ := firstElse_some g u p.1 p.2 hf
    obtain ⟨e', he', hs', hfl, hd⟩ := hc.1 p.2 (List.mem_of_getElem? h1) h2
    obtain ⟨i', hi'⟩ := List.getElem?_of_mem he'
    rw [elseTarget_of_edge g' hfu u' i' e' hv hi' hs' (by rw [hfl, h3]), hd]
    unfold BGraph.elseTarget; rw [hf]

theorem ifTarget_corr (g g' : BGraph) (u u' : Nat) (ρ : Nat → Nat) (hc : FlagCorr g g' u u' ρ) (hfu : FU g')
    (hv : g'.isIfV u' = true) (hstuck : ρ g.toGraph.stuck = g'.toGraph.stuck) :
    g'.ifTarget u' = ρ (g.ifTarget u) := by
  cases hf : g.firstIf u with
  | none =>
    have hn : g'.firstIf u' = none := by
      apply firstIf_eq_none
      intro e' he' hs'
      obtain ⟨e, he, hs, hfl, _⟩ := hc.2 e' he' hs'
      obtain ⟨i, hi⟩ := List.getElem?_of_mem he
      rw [← hfl]; exact firstIf_none g u hf i e hi hs
    unfold BGraph.ifTarget; rw [hf, hn]; exact hstuck.symm
  | some p =>
    obtain ⟨h1, h2, h3⟩ := firstIf_some g u p.1 p.2 hf
    obtain ⟨e', he', hs', hfl, hd⟩ := hc.1 p.2 (List.mem_of_getElem? h1) h2
    obtain ⟨i', hi'⟩ := List.getElem?_of_mem he'
    rw [ifTarget_of_edge g' hfu u' i' e' hv hi' hs' (by rw [hfl, h3]), hd]
    unfold BGraph.ifTarget; rw [hf]

/-- the step of an if vertex, spelled out -/
theorem stepP_if (g : BGraph) (v j : Nat) (x : BVertex) (hv : g.isIfV v = true) (hx : g.vs[v]? = some x) :
    g.stepP (v, j) = g.ifStep v j x := by
  unfold BGraph.stepP; simp only [hv, if_true, hx]

theorem stepP_not_if (g : BGraph) (v j : Nat) (hv : g.isIfV v = false) :
    g.stepP (v, j) = if j = 0 then Opt.mapStep (fun w => (w, 0)) (g.toGraph.stepE v) else .halt evStuck := by
  unfold BGraph.stepP; simp only [hv, Bool.false_eq_true, if_false]

/-- equal step functions: equal behaviour -/
theorem equiv_of_step_eq {σ : Type} (s₁ s₂ : σ → Step σ Ev) (h : s₁ = s₂) (a : σ) :
    Equivalent (⟨σ, s₁⟩ : LTS Ev) ⟨σ, s₂⟩ a a := by
  subst h; exact Equivalent.refl _ _

/-- vertices that exist: `toGraph` has as many -/
theorem toGraph_vs_length (g : BGraph) : g.toGraph.vs.length = g.vs.length := by
  unfold BGraph.toGraph; simp

theorem toGraph_stuck (g : BGraph) : g.toGraph.stuck = g.vs.length + 1 := by
  unfold Graph.stuck; rw [toGraph_vs_length]

theorem toGraph_fellOff (g : BGraph) : g.toGraph.fellOff = g.vs.length := by
  unfold Graph.fellOff; rw [toGraph_vs_length]

end ESV.Decomp.Gr
