import ESV.Decomp.WrJnIf
/-
"Ifs that join": `BlockWriteHandler.write_content` (`jn_block_step`), the induction on the writer's fuel (`jn_all`) and the theorem
for one routine (`writeRoutine_jn_equiv`).
-/
namespace ESV.Decomp.Wr
open ESV ESV.Beh ESV.Decomp ESV.Decomp.BGraph ESV.Decomp.Opt ESV.Comp

theorem jn_block_step (perf : String) (g : BGraph) (fuel : Nat) (hB : JBlock perf g fuel)
    (hV : JVertex perf g fuel) : JBlock perf g (fuel + 1) := by
  intro ind chk vsb pm v first written prev last acc σ r hchk hw
  rw [wBlock.eq_def] at hw
  simp only at hw
  split at hw
  · cases hw
  · cases hx : g.vs[v]? with
    | none => simp [hx] at hw
    | some x =>
      simp only [hx] at hw
      cases hh : hinfoOf x with
      | error e => simp [hh] at hw
      | ok h =>
        simp only [hh] at hw
        by_cases hgo : chk.goesOn x first = true
        · simp only [hgo, hchk.nested, Bool.not_true, Bool.false_eq_true, if_false, Bool.false_and] at hw
          cases hr1 : wVertex fuel g perf ind v x vsb first pm σ with
          | error e => simp [hr1] at hw
          | ok r1 =>
            simp only [hr1] at hw
            have hc1 := hV _ _ _ _ _ _ _ r1 hx hr1
            cases hn1 : r1.next with
            | some w =>
              rw [hn1] at hw
              obtain ⟨hnn, code', hout', hcl'⟩ := hB _ _ _ _ _ _ _ _ _ _ _ r hchk hw
              refine ⟨hnn, r1.out ++ code', by rw [hout', List.append_assoc], fun hnj => ?_⟩
              rw [noJumpL_append, Bool.and_eq_true] at hnj
              obtain ⟨hl1, _, hv1⟩ := hc1 hnj.1
              obtain ⟨hl2, hc2⟩ := hcl' hnj.2
              refine ⟨by rw [lfL_append, hl1, hl2]; rfl, fun labs N e k hS hk => ?_⟩
              obtain ⟨m, h1, h2⟩ := (ofList_append r1.out code' labs N e k).mp hS
              exact hv1 labs N e m h1 (fun w' hw' => by
                have : w' = w := by rw [hn1] at hw'; exact (Option.some.inj hw').symm
                rw [this]; exact hc2 labs N m k h2 hk) (fun hnone => by rw [hn1] at hnone; cases hnone)
            | none =>
              rw [hn1] at hw
              cases fuel with
              | zero => rw [wBlock.eq_def] at hw; cases hw
              | succ f =>
                rw [wBlock.eq_def] at hw
                simp only [Option.isNone_none, Bool.true_and, hchk.nested, Bool.not_false, Bool.and_true] at hw
                cases heoj : r1.eoj with
                | true =>
                  simp only [heoj, Bool.not_true, Bool.false_eq_true, if_false, Except.ok.injEq] at hw
                  subst hw
                  refine ⟨fun _ => rfl, r1.out, rfl, fun hnj => ?_⟩
                  obtain ⟨_, he, _⟩ := hc1 hnj
                  have := he hn1
                  rw [heoj] at this; cases this
                | false =>
                  simp only [heoj, Bool.not_false, if_true, Except.ok.injEq] at hw
                  subst hw
                  refine ⟨fun _ => rfl, r1.out ++ (if needsDummy g v = true then [.ret] else []), ?_, fun hnj => ?_⟩
                  · simp only; split <;> simp
                  · rw [noJumpL_append, Bool.and_eq_true] at hnj
                    obtain ⟨hl1, _, hv1⟩ := hc1 hnj.1
                    refine ⟨?_, fun labs N e k hS _ => ?_⟩
                    · rw [lfL_append, hl1]; split <;> simp [Stmts.ofList, lfL, lf]
                    · obtain ⟨m, h1, h2⟩ := (ofList_append r1.out _ labs N e k).mp hS
                      exact hv1 labs N e m h1 (fun w' hw' => by rw [hn1] at hw'; cases hw') (fun _ hnd => by
                        rw [if_pos hnd] at h2
                        cases specL_single h2 with
                        | ret hN => exact ret_eq g N m hN)
        · -- the block stops in front of this vertex (the end label of its if) and returns it
          have hgo' : (!chk.goesOn x first) = true := by simpa using hgo
          simp only [hgo', if_true, Option.isNone_some, Bool.false_and, Bool.false_eq_true, if_false, Except.ok.injEq] at hw
          subst hw
          refine ⟨fun hc => ?_, [], by simp, fun _ => ⟨rfl, fun labs N e k hS hk => ?_⟩⟩
          · subst hc; exact absurd rfl hgo
          · simp only [Stmts.ofList] at hS
            cases hS
            exact hk v rfl

theorem jn_all (perf : String) (g : BGraph) (hg : jnGraph perf g = true) : ∀ fuel,
    JBlock perf g fuel ∧ JVertex perf g fuel ∧ JJump perf g fuel ∧ JIf perf g fuel
  | 0 => by
    refine ⟨?_, ?_, ?_, ?_⟩
    · intro _ _ _ _ _ _ _ _ _ _ _ _ _ hw; rw [wBlock.eq_def] at hw; cases hw
    · intro _ _ _ _ _ _ _ _ _ hw; rw [wVertex.eq_def] at hw; cases hw
    · intro _ _ _ _ _ _ _ hw; rw [wJumpObj.eq_def] at hw; cases hw
    · intro _ _ _ _ _ _ _ _ hw; rw [wIf.eq_def] at hw; cases hw
  | fuel + 1 => by
    obtain ⟨hB, hV, hJ, hI⟩ := jn_all perf g hg fuel
    exact ⟨jn_block_step perf g fuel hB hV, jn_vertex_step perf g hg fuel hJ, jn_jump_step perf g hg fuel hI,
      jn_if_step perf g hg fuel hB⟩

/-- **ifs that join**: if the final graph of a routine consists of plain ops, context ops in front of simple ops, ifs without elseif
chains and labels that end ifs (`jnGraph`), and the write handlers produce for it a statement list without `jump` / `call`
statements whose labels are written once, that statement list behaves like the graph from its first vertex. -/
theorem writeRoutine_jn_equiv (perf : String) (info : RInfo) (g : BGraph) (ss : Src.Stmts) (hg : jnGraph perf g = true)
    (hw : writeRoutine perf info g = .ok (some ss)) (hnj : noJumpL ss = true) (hnd : (Src.labelsOfStmts ss).Nodup) :
    Equivalent (astLts ss) g.ltsL (astEntry ss) (0 : Nat) := by
  unfold writeRoutine at hw
  cases hst : writeRoutineSt perf info g {} with
  | error e => simp [hst] at hw
  | ok bs =>
    obtain ⟨b, σ'⟩ := bs
    simp only [hst, Except.ok.injEq] at hw
    unfold writeRoutineSt at hst
    split at hst
    · cases hst
    · split at hst
      · cases hst
      · split at hst
        · simp only [Except.ok.injEq, Prod.mk.injEq] at hst
          rw [← hst.1] at hw; cases hw
        · cases hr : wBlock (writeFuel g) g perf 1 .none none false (some 0) true [] none {} [] {} with
          | error e => simp [hr] at hst
          | ok r =>
          simp only [hr, Except.ok.injEq, Prod.mk.injEq] at hst
          rw [← hst.1] at hw
          simp only [Option.map_some, Option.some.injEq] at hw
          obtain ⟨hnone, code, hout, hcl⟩ := (jn_all perf g hg (writeFuel g)).1 _ _ _ _ _ _ _ _ _ _ _ r (Or.inl rfl) hr
          simp only [List.nil_append] at hout
          have hss : ss = Stmts.ofList code := by rw [← hw, hout]
          subst hss
          obtain ⟨hlf, hc⟩ := hcl hnj
          obtain ⟨labs, e, he, hS, h0⟩ := graph_spec (Stmts.ofList code) hlf hnd
          have h1 := hc labs _ e 0 hS (fun w hw' => by rw [hnone rfl] at hw'; cases hw')
          have h2 := Lp.ltsPL_equiv_ltsL g (0, 0)
          have henc : g.enc (0, 0) = 0 := by simp [BGraph.enc]
          rw [henc] at h2
          have h3 : Equivalent (nodeLTS (routineProgram (Stmts.ofList code)).graph.nodes.toList) g.ltsL e (0 : Nat) :=
            Equivalent.trans h1 h2
          rw [he]
          have hstep : (routineProgram (Stmts.ofList code)).graph.step = nodeStep (routineProgram (Stmts.ofList code)).graph.nodes.toList := by
            funext i
            simp only [Src.Graph.step, nodeStep, Array.getElem?_toList]
            rfl
          exact Equivalent.trans (Gr.equiv_of_step_eq _ _ hstep e) h3

end ESV.Decomp.Wr
