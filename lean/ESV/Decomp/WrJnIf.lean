import ESV.Decomp.WrJnStep
/-
"Ifs that join": `IfWriteHandler.write_content` for an if without elseif chain - `if (…) { … }` in front of its end label and
`if (…) { … } else { … }` (`jn_if_step`).
-/
namespace ESV.Decomp.Wr
open ESV ESV.Beh ESV.Decomp ESV.Decomp.BGraph ESV.Decomp.Opt ESV.Comp

/-- the else-edge does not lead to an if: `_build_else_if_chain` returns at once -/
theorem wChain_jn (perf : String) (g : BGraph) (hg : jnGraph perf g = true) (fuel ind v id : Nat) (elseE : Nat × BEdge)
    (hfe : g.firstElse v = some elseE) (hne : noElseIf g v = true) (branches : List (Bool × List Ev × List Src.Stmt))
    (ae : Option Nat) (conts : List Nat) (σ : WSt) (c : CRes)
    (h : wChain fuel g perf ind v id elseE branches ae conts σ = .ok c) : c = ⟨branches, some elseE, ae, conts, σ⟩ := by
  cases fuel with
  | zero => rw [wChain.eq_def] at h; cases h
  | succ f =>
    rw [wChain.eq_def] at h
    simp only at h
    cases htx : g.vs[elseE.2.dst]? with
    | none => simp [htx] at h
    | some tx =>
      simp only [htx] at h
      cases hj : isJumpObj tx with
      | false =>
        simp only [hj, Bool.false_eq_true, if_false, Except.ok.injEq] at h
        exact h.symm
      | true =>
        rcases jn_jumpObj (jnGraph_vertex hg htx) hj with ⟨r, lbl, id', hf, _⟩ | ⟨r, lbl, _, _, _, _, _, hm⟩
        · unfold noElseIf at hne
          simp [hfe, htx, hf.ifs] at hne
        · simp only [hj, if_true, hm, Except.ok.injEq] at h
          exact h.symm

theorem noJump_ite {bs : Src.Branches} {hasElse : Bool} {els : Src.Stmts} (h : noJumpL (Stmts.ofList [.ite bs hasElse els]) = true) :
    noJumpB bs = true ∧ noJumpL els = true := by
  simpa [Stmts.ofList, noJumpL, noJump] using h

theorem jn_if_step (perf : String) (g : BGraph) (hg : jnGraph perf g = true) (fuel : Nat) (hB : JBlock perf g fuel) :
    JIf perf g (fuel + 1) := by
  intro ind v x id σ r hx hj hw
  rw [wIf.eq_def] at hw
  rcases jn_jumpObj (jnGraph_vertex hg hx) hj with ⟨r0, lbl, id', hf, hne⟩ | ⟨r0, lbl, hop, hjn, _, _, _, _⟩
  rotate_left
  · -- a plain Jump is no if: `_write_if_header` finds no clause it can print
    simp only at hw
    have : ifHeader g perf v x = .error "ValueError" := by
      unfold ifHeader
      simp only [hop, List.mapM_cons]
      have : lowerTest perf r0 = .error "ValueError" := by
        have hn : r0.name = "Jump" := by
          have : r0.name = ESV.Spec.op_jump := by simpa [isJump] using hjn
          rw [this]; decide
        unfold lowerTest
        simp [hn]
      simp [this, bind, Except.bind]
    simp [this] at hw
  simp only at hw
  cases hh : ifHeader g perf v x with
  | error e => simp [hh] at hw
  | ok hd =>
    obtain ⟨ifE, elseE, tests, b⟩ := hd
    simp only [hh] at hw
    obtain ⟨htests, hit, het⟩ := ifHeader_lf perf g v x r0 lbl id' hf ifE elseE tests b hh
    have hfe : g.firstElse v = some elseE := by
      unfold ifHeader at hh
      simp only [hf.op] at hh
      cases hm : (r0 :: x.ifOps).mapM (lowerTest perf) with
      | error e => simp [hm] at hh
      | ok ts =>
        simp only [hm] at hh
        cases he : g.firstElse v with
        | none => simp [he] at hh
        | some el =>
          simp only [he] at hh
          cases hi : g.firstIf v with
          | none => simp [hi] at hh
          | some ie =>
            simp only [hi, Except.ok.injEq, Prod.mk.injEq] at hh
            rw [hh.2.1]
    split at hw
    · cases hw
    · cases hr : wBlock fuel g perf (ind + 1) (EndCheck.ifEnd id) (some v) false (some ifE.2.dst) true [] none {} []
          (σ.addBad b) with
      | error e => simp [hr] at hw
      | ok rIf =>
        simp only [hr] at hw
        obtain ⟨_, code, hout, hcl⟩ := hB _ _ _ _ _ _ _ _ _ _ _ rIf (Or.inr ⟨id, rfl⟩) hr
        simp only [List.nil_append] at hout
        subst htests
        split at hw
        · -- `if (…) { … }` in front of its end label
          split at hw
          · cases hw
          · rename_i hdup
            simp only [Except.ok.injEq] at hw
            subst hw
            intro hnj
            simp only [Option.isSome_none, Option.getD_none] at hnj ⊢
            obtain ⟨hnjb, _⟩ := noJump_ite hnj
            simp only [Branches.ofList, noJumpB, Bool.and_eq_true] at hnjb
            obtain ⟨hlfc, hclc⟩ := hcl (by rw [← hout]; exact hnjb.1)
            have hret : (match rIf.next with | some a => some a | none => some elseE.2.dst) = some elseE.2.dst := by
              cases hn : rIf.next with
              | none => rfl
              | some a =>
                simp only [hn, Option.toList_some, List.cons_append, List.nil_append] at hdup
                rw [eraseDups_two a elseE.2.dst hdup]
            refine ⟨lfL_single _ ?_, fun _ => trivial, fun labs N e m hS h1 _ => ?_⟩
            · have : lfL (Stmts.ofList rIf.out) = true := by rw [hout]; exact hlfc
              simp [lf, Branches.ofList, lfB, Stmts.ofList, lfL, isNilStmts, this]
            · have hm : EQ g N m (elseE.2.dst, 0) := h1 _ hret
              have hS' := specL_single hS
              simp only [Branches.ofList] at hS'
              cases hS' with
              | iteNoElse hBr =>
                have hbody : ∀ be, SpecL labs N (Stmts.ofList rIf.out) be m → EQ g N be (ifE.2.dst, 0) := fun be hb =>
                  hclc labs N be m (by rw [← hout]; exact hb) (fun w hw' => by
                    have : w = elseE.2.dst := by
                      simp only [hw', Option.toList_some, List.cons_append, List.nil_append] at hdup
                      exact eraseDups_two w elseE.2.dst hdup
                    rw [this]; exact hm)
                cases hn : x.isNot with
                | true =>
                  rw [hn] at hBr
                  cases hBr with
                  | consNeg hR hBd hT =>
                    cases hR
                    exact branch_eq perf g v x r0 lbl id' hx hf ifE elseE hit het N _ _ _ (by simp only [hn, if_true]; exact hT)
                      (hbody _ hBd) hm
                | false =>
                  rw [hn] at hBr
                  cases hBr with
                  | consPos hR hBd hT =>
                    cases hR
                    exact branch_eq perf g v x r0 lbl id' hx hf ifE elseE hit het N _ _ _
                      (by simp only [hn, Bool.false_eq_true, if_false]; exact hT) (hbody _ hBd) hm
        · -- `if (…) { … } else { … }`
          cases hc : wChain fuel g perf ind v id elseE [] none rIf.next.toList rIf.st with
          | error e => simp [hc] at hw
          | ok c =>
            simp only [hc] at hw
            have hceq := wChain_jn perf g hg fuel ind v id elseE hfe hne [] none rIf.next.toList rIf.st c hc
            subst hceq
            simp only at hw
            · cases hre : wBlock fuel g perf (ind + 1) (EndCheck.ifEnd id) (some v) false (some elseE.2.dst) true [] none {} [] rIf.st with
              | error e => simp [hre] at hw
              | ok rElse =>
                simp only [hre] at hw
                obtain ⟨_, ecode, heout, hecl⟩ := hB _ _ _ _ _ _ _ _ _ _ _ rElse (Or.inr ⟨id, rfl⟩) hre
                simp only [List.nil_append] at heout
                split at hw
                · cases hw
                · split at hw
                  · cases hw
                  · rename_i hdup
                    simp only [Except.ok.injEq] at hw
                    subst hw
                    intro hnj
                    simp only [Option.isSome_some, Option.getD_some] at hnj ⊢
                    obtain ⟨hnjb, hnje⟩ := noJump_ite hnj
                    simp only [Branches.ofList, noJumpB, Bool.and_eq_true] at hnjb
                    obtain ⟨hlfc, hclc⟩ := hcl (by rw [← hout]; exact hnjb.1)
                    obtain ⟨hlfe, hcle⟩ := hecl (by rw [← heout]; exact hnje)
                    refine ⟨lfL_single _ ?_, fun _ => trivial, fun labs N e m hS h1 _ => ?_⟩
                    · have h1 : lfL (Stmts.ofList rIf.out) = true := by rw [hout]; exact hlfc
                      have h2 : lfL (Stmts.ofList rElse.out) = true := by rw [heout]; exact hlfe
                      simp [lf, Branches.ofList, lfB, h1, h2]
                    · have hS' := specL_single hS
                      simp only [Branches.ofList] at hS'
                      cases hS' with
                      | iteElse hE hBr =>
                        have hbody : ∀ be, SpecL labs N (Stmts.ofList rIf.out) be m → EQ g N be (ifE.2.dst, 0) := fun be hb =>
                          hclc labs N be m (by rw [← hout]; exact hb) (fun w hw' => h1 w (by simp [hw']))
                        have hee : EQ g N _ (elseE.2.dst, 0) := hcle labs N _ m (by rw [← heout]; exact hE) (fun w hw' => by
                          cases hn : rIf.next with
                          | none => exact h1 w (by simp [hn, hw'])
                          | some a =>
                            have : a = w := by
                              simp only [hn, hw', Option.toList_some, List.cons_append, List.nil_append] at hdup
                              exact eraseDups_two a w hdup
                            exact h1 w (by simp [hn, this]))
                        cases hn : x.isNot with
                        | true =>
                          rw [hn] at hBr
                          cases hBr with
                          | consNeg hR hBd hT =>
                            cases hR
                            exact branch_eq perf g v x r0 lbl id' hx hf ifE elseE hit het N _ _ _ (by simp only [hn, if_true]; exact hT)
                              (hbody _ hBd) hee
                        | false =>
                          rw [hn] at hBr
                          cases hBr with
                          | consPos hR hBd hT =>
                            cases hR
                            exact branch_eq perf g v x r0 lbl id' hx hf ifE elseE hit het N _ _ _
                              (by simp only [hn, Bool.false_eq_true, if_false]; exact hT) (hbody _ hBd) hee

end ESV.Decomp.Wr
