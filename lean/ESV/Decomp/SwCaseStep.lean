import ESV.Decomp.SwCaseInv
/-
The first part of `build_and_group_switch_cases` for one switch op keeps the behaviour: the state "at the `k`-th case vertex
of the chain" of the graph before is the state "the switch is about to perform test `k`" of the graph after; every other
vertex steps as before.
-/
namespace ESV.Decomp.Sw
open ESV.Beh ESV.Decomp ESV.Decomp.Opt ESV.Decomp.Gr

theorem mapStep_congr_on {σ τ : Type} (f h : σ → τ) (s : Step σ Ev) (hs : allSucc (fun p => f p = h p) s) :
    mapStep f s = mapStep h s := by
  cases s with
  | silent n => simp only [mapStep]; rw [show f n = h n from hs]
  | emit e n => simp only [mapStep]; rw [show f n = h n from hs]
  | test e y n => simp only [mapStep]; rw [show f y = h y from hs.1, show f n = h n from hs.2]
  | halt e => rfl

theorem mapStep_id' {σ : Type} (s : Step σ Ev) : mapStep (fun p => p) s = s := by cases s <;> rfl

theorem stepPS_stuckState (g : BGraph) : g.stepPS (g.vs.length + 1, 0) = .halt evStuck := by
  rw [stepPS_of_not_switch g _ (isSwitchV_ge g _ (by show g.vs.length ≤ g.vs.length + 1; omega))]
  unfold BGraph.stepP
  simp only [isIfV_ge g (g.vs.length + 1) (by omega), Bool.false_eq_true, if_false, if_true]
  unfold Graph.stepE
  rw [toGraph_vs_get', List.getElem?_eq_none (by omega), toGraph_fellOff]
  simp [mapStep]

theorem stepPS_succ_plain (g : BGraph) (a k : Nat) (hi : g.isIfV a = false) (hs : g.isSwitchV a = false) :
    g.stepPS (a, k + 1) = .halt evStuck := by
  rw [stepPS_of_not_switch g _ hs]
  unfold BGraph.stepP
  simp [hi]

theorem stepPS_testV (g : BGraph) (w : Nat) (r : MOp) (h : TestV g w r) :
    g.stepPS (w, 0) = .test ⟨r.name, r.params⟩ (g.toGraph.jumpTarget w, 0) (g.toGraph.fallOfJump w, 0) := by
  obtain ⟨hi, hs, _⟩ := testV_kind g w r h
  obtain ⟨x, l, c, h1, h2, _, _, h5⟩ := h
  rw [stepPS_of_not_switch g _ hs]
  unfold BGraph.stepP
  simp only [hi, Bool.false_eq_true, if_false, if_true]
  unfold Graph.stepE
  rw [toGraph_vs_get', h1]
  simp [h2, h5, mapStep]

theorem stepPS_opV (g : BGraph) (v : Nat) (x : BVertex) (o : MOp) (hx : g.vs[v]? = some x) (hop : x.op = .item (.op o))
    (hi : g.isIfV v = false) (hs : g.isSwitchV v = false) :
    g.stepPS (v, 0) = if endsFlow o.name && !g.toGraph.afterCtxE v then .halt ⟨o.name, o.params⟩
      else .emit ⟨o.name, o.params⟩ (g.toGraph.fall v, 0) := by
  rw [stepPS_of_not_switch g _ hs]
  unfold BGraph.stepP
  simp only [hi, Bool.false_eq_true, if_false, if_true]
  unfold Graph.stepE
  rw [toGraph_vs_get', hx]
  simp only [Option.map_some, hop]
  split <;> rfl

variable {g g2 : BGraph} {v n : Nat} {del : List Nat} {cases : List String} {o : MOp} {e0 : BEdge} {ch : List CElem}
  {next : Option Nat}

/-- where a state of the graph before is found afterwards -/
def rho (ch : List CElem) (v n0 : Nat) (p : Nat × Nat) : Nat × Nat :=
  if p.1 = v then (if p.2 = 0 then (v, 0) else (n0 + 1, 0))
  else if p.1 ∈ ch.map (·.w) then (if p.2 = 0 then (v, (ch.map (·.w)).idxOf p.1 + 1) else (n0 + 1, 0))
  else p

theorem rho_other (n0 : Nat) (p : Nat × Nat) (h1 : p.1 ≠ v) (h2 : p.1 ∉ ch.map (·.w)) : rho ch v n0 p = p := by
  unfold rho; rw [if_neg h1, if_neg h2]

theorem rho_v0 (n0 : Nat) : rho ch v n0 (v, 0) = (v, 0) := by unfold rho; simp

theorem rho_zero (n0 b : Nat) (h2 : b ∉ ch.map (·.w)) : rho ch v n0 (b, 0) = (b, 0) := by
  by_cases h1 : b = v
  · subst h1; exact rho_v0 n0
  · exact rho_other n0 (b, 0) h1 h2

namespace CaseCtx

theorem rho_chain (k : CaseCtx g v n del cases o e0 g2 ch next) (n0 j : Nat) (c : CElem) (hj : ch[j]? = some c) :
    rho ch v n0 (c.w, 0) = (v, j + 1) := by
  have hc := List.mem_of_getElem? hj
  have hne := (k.chain_w c hc).2.1
  have hm : c.w ∈ ch.map (·.w) := List.mem_map.mpr ⟨c, hc, rfl⟩
  unfold rho
  simp only [hne, if_false, hm, if_true]
  have hjlt : j < (ch.map (·.w)).length := by simpa using (List.getElem?_eq_some_iff.mp hj).1
  have hget : (ch.map (·.w))[j] = c.w := by
    rw [List.getElem_map]
    have := (List.getElem?_eq_some_iff.mp hj).2
    rw [this]
  have := List.Nodup.idxOf_getElem k.chn.nodup j hjlt
  rw [hget] at this
  rw [this]

/-- the fall-through target of a chain vertex, as a state afterwards -/
theorem rho_next (k : CaseCtx g v n del cases o e0 g2 ch next) (j : Nat) (c : CElem) (hj : ch[j]? = some c) :
    rho ch v g.vs.length (nxTarget g c.nx, 0) = g2.switchNext v (j + 1) := by
  unfold BGraph.switchNext
  rcases Nat.lt_or_ge (j + 1) ch.length with hlt | hge
  · obtain ⟨c', hc'⟩ : ∃ c', ch[j + 1]? = some c' := ⟨ch[j + 1], List.getElem?_eq_getElem hlt⟩
    rw [k.nextTest_lt (j + 1) c' hc', k.chn.link j c c' hj hc']
    exact k.rho_chain _ (j + 1) c' hc'
  · rw [k.nextTest_ge (j + 1) hge, k.switchElse_eq]
    have hjl := (List.getElem?_eq_some_iff.mp hj).1
    have hlast := k.chn.last
    rw [getLast?_eq_getElem?, show ch.length - 1 = j by omega, hj] at hlast
    simp only at hlast
    rw [hlast]
    cases hn : c.nx with
    | none =>
      simp only [nxTarget]
      exact rho_zero _ _ (fun hm => by
        obtain ⟨c', hc', heq⟩ := List.mem_map.mp hm
        have := (k.chain_w c' hc').2.2.2.2.2.2.1
        omega)
    | some x =>
      simp only [nxTarget]
      exact rho_zero _ _ (k.next_ok x (by rw [hlast, hn])).1

/-- the first part keeps the behaviour from every live state -/
theorem strong (k : CaseCtx g v n del cases o e0 g2 ch next) (a j : Nat) (ha : a ∉ del) :
    Strong g.ltsPS g2.ltsPS (rho ch v g.vs.length) (fun p => p.1 ∉ del) (a, j) := by
  refine ⟨?_, k.inv.succ_alive a j ha⟩
  show g2.stepPS (rho ch v g.vs.length (a, j)) = mapStep (rho ch v g.vs.length) (g.stepPS (a, j))
  have hstuck2 : g2.stepPS (g.vs.length + 1, 0) = .halt evStuck := by rw [← k.vs_length]; exact stepPS_stuckState g2
  by_cases hav : a = v
  · subst hav
    obtain ⟨hs2, hs, hi⟩ := k.switch_v
    obtain ⟨x, hx, hop, _, hx2⟩ := k.vs_v
    cases j with
    | succ j' =>
      rw [stepPS_succ_plain g a j' hi hs]
      have : rho ch a g.vs.length (a, j' + 1) = (g.vs.length + 1, 0) := by unfold rho; simp
      rw [this, hstuck2]; rfl
    | zero =>
      rw [rho_v0, stepPS_opV g a x o hx hop hi hs,
        stepPS_switch g2 a 0 (BGraph.setSwitchStartV n x) o hx2 hs2 (by simp [BGraph.setSwitchStartV, hop])]
      unfold BGraph.switchStep
      simp only
      rw [k.afterCtx_same a]
      split
      · rfl
      · simp only [mapStep]
        congr 1
        rw [k.fall]
        unfold BGraph.switchNext
        cases hch : ch with
        | nil =>
          have h0 : g2.nextTest a 0 = none := k.nextTest_ge 0 (by rw [hch]; simp)
          rw [h0, k.switchElse_eq]
          have hlast := k.chn.last
          rw [hch] at hlast
          simp only [List.getLast?_nil] at hlast
          rw [hlast]
          simp only [nxTarget]
          exact (rho_zero _ _ (by simp)).symm
        | cons c0 rest =>
          have hj0 : ch[0]? = some c0 := by rw [hch]; rfl
          rw [← hch, k.nextTest_lt 0 c0 hj0]
          simp only
          rw [← k.chn.head c0 hj0]
          exact (k.rho_chain _ 0 c0 hj0).symm
  · by_cases haw : a ∈ ch.map (·.w)
    · obtain ⟨c, hc, rfl⟩ := List.mem_map.mp haw
      obtain ⟨jc, hjc⟩ := List.getElem?_of_mem hc
      have e := k.chn.elem c hc
      obtain ⟨_, _, _, hi, hs, _⟩ := k.chain_w c hc
      cases j with
      | succ j' =>
        rw [stepPS_succ_plain g c.w j' hi hs]
        have : rho ch v g.vs.length (c.w, j' + 1) = (g.vs.length + 1, 0) := by
          unfold rho; simp [hav, haw]
        rw [this, hstuck2]; rfl
      | zero =>
        obtain ⟨hs2, _, _⟩ := k.switch_v
        obtain ⟨x, _, hop, _, hx2⟩ := k.vs_v
        rw [k.rho_chain _ jc c hjc, stepPS_testV g c.w c.r e.test,
          stepPS_switch g2 v (jc + 1) (BGraph.setSwitchStartV n x) o hx2 hs2 (by simp [BGraph.setSwitchStartV, hop])]
        unfold BGraph.switchStep
        simp only
        rw [k.nextTest_lt jc c hjc]
        simp only [mapStep]
        rw [e.jump, e.fall, rho_zero _ _ (k.tgt_ok c hc).1, k.rho_next jc c hjc]
    · -- a vertex outside the chain: same step, and none of its successors is renamed
      rw [rho_other _ (a, j) hav haw]
      have hsm : StateMap g g2 id := ⟨k.vs_length.symm, by rw [k.vs_length]; rfl⟩
      have h1 := step_congr k.inv.det hsm a j (k.sameV_ne a hav) (fun _ => by rw [k.vs_length]; rfl)
        (k.edgeCorr_other a hav haw) (fun _ _ => k.afterCtx_same a)
      have hpm : pmap id = fun p : Nat × Nat => p := by funext p; rfl
      rw [hpm, mapStep_id'] at h1
      have h1' : g2.stepPS (a, j) = g.stepPS (a, j) := h1
      rw [h1']
      have h2 : mapStep (rho ch v g.vs.length) (g.stepPS (a, j)) = mapStep (fun p => p) (g.stepPS (a, j)) := by
        apply mapStep_congr_on
        refine allSucc_imp ?_ _ (succ_read g a j)
        rintro p (h3 | ⟨h3, h4 | h4 | ⟨e, he, hs, hd, hi⟩⟩)
        · exact rho_other _ p (by rw [h3]; exact hav) (by rw [h3]; exact haw)
        · obtain ⟨p1, p2⟩ := p
          simp only at h3 h4; subst h3 h4
          exact rho_zero _ _ (fun hm => by
            obtain ⟨c', hc', heq⟩ := List.mem_map.mp hm
            have := (k.chain_w c' hc').2.2.2.2.2.2.1
            omega)
        · obtain ⟨p1, p2⟩ := p
          simp only at h3 h4; subst h3 h4
          exact rho_zero _ _ (fun hm => by
            obtain ⟨c', hc', heq⟩ := List.mem_map.mp hm
            have := (k.chain_w c' hc').2.2.2.2.2.2.1
            omega)
        · obtain ⟨p1, p2⟩ := p
          simp only at h3 hd; subst h3 hd
          exact rho_zero _ _ (k.no_entry a ha haw hav e he hs hi)
      rw [h2, mapStep_id']

/-- **the first part for one switch op keeps the behaviour** -/
theorem equiv (k : CaseCtx g v n del cases o e0 g2 ch next) : Equivalent g.ltsPS g2.ltsPS (0, 0) (0, 0) := by
  have h := equiv_of_stepMap g.ltsPS g2.ltsPS (rho ch v g.vs.length) (fun p => p.1 ∉ del)
    (fun p hp => k.strong p.1 p.2 hp) (0, 0) k.inv.nz
  have h0 : rho ch v g.vs.length (0, 0) = (0, 0) := by
    apply rho_zero
    intro hm
    obtain ⟨c, hc, heq⟩ := List.mem_map.mp hm
    exact (k.chain_w c hc).2.2.1 heq
  rw [h0] at h; exact h

end CaseCtx

end ESV.Decomp.Sw
