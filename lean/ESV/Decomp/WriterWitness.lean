import ESV.Decomp.WriterGuard
/-
Witnesses for the writer theorems (lean/ESV/Props/DecompWriter.lean): graphs and the statement lists the write handlers produce for
them.  Definitions only (the driver hands them to the harness, which replays them on the real write handlers); the facts about
them are in WrCounter.lean.
-/
namespace ESV.Decomp.Wr
open ESV.Beh ESV.Decomp

def wOp (i : Nat) (off : Int) (name : String) (ps : List Beh.Param := []) : BVertex := { name := some i, op := .item (.op ⟨off, name, ps⟩) }
def wIfV (i : Nat) (off : Int) (name : String) (ps : List Beh.Param) (ifs : Nat) (neg : Bool := false) (more : List MOp := []) : BVertex :=
  { name := some i, op := .item (.ljump ⟨off, name, ps⟩ 0 false), ifStart := some ifs, isNot := neg, ifOps := more }
def wE (s d lv : Nat) (isElse : Bool := false) : BEdge := ⟨s, d, lv, false, isElse, []⟩

def perfName : String := "$PERFORMANCE_PROGRESS_LIST"
def generic : RInfo := ⟨"GENERIC", false⟩

/-- `Foo(1); if not ( $X > 3 || debug ) { Bar<actor 2>(); end; } elseif ( $Y[4] ) { $Z = 1; hold; } else { Baz(); }` (+ dummy return) -/
def exLf : BGraph :=
  ⟨[wOp 0 0 "Foo" [.int 1],
    wIfV 1 1 "BranchValue" [.const "$X", .int 3, .int 3] 0 true [⟨2, "BranchDebug", [.int 1]⟩],
    wOp 2 3 "lives" [.int 2], wOp 3 4 "Bar", wOp 4 5 "End",
    wIfV 5 6 "BranchBit" [.const "$Y", .int 4] 1,
    wOp 6 7 "flag_Set" [.const "$Z", .int 1], wOp 7 8 "Hold",
    wOp 8 9 "Baz"],
   [wE 0 1 0, wE 1 2 1, wE 1 5 0 true, wE 2 3 1, wE 3 4 1, wE 5 6 2, wE 5 8 1 true, wE 6 7 2]⟩

/-- `Return(1)` is printed `return;` -/
def cexParams : BGraph := ⟨[wOp 0 0 "Return" [.int 1]], []⟩

/-- `if ( $X == 1 )` for `BranchValue($X, ==, 1)` is read back as `Branch($X, 1)` -/
def cexLowering : BGraph :=
  ⟨[wIfV 0 0 "BranchValue" [.const "$X", .int 2, .int 1] 0, wOp 1 1 "End", wOp 2 2 "Hold"], [wE 0 1 1, wE 0 2 0 true]⟩

/-- `Destroy` is the if-target of an if AND stands behind a context op: the graph's reading ("some in-edge comes from a context op")
lets it never stop the routine, the `Destroy();` the writer prints in the if-branch does -/
def cexCtxShared : BGraph :=
  ⟨[wIfV 0 0 "Branch" [.const "$X", .int 1] 0, wOp 1 1 "lives" [.int 3], wOp 2 2 "Destroy"], [wE 0 2 1, wE 0 1 0 true, wE 1 2 0]⟩

def wLab (i : Nat) (id : Nat) (ife : List Nat := []) : BVertex := { name := some i, op := .item (.label id), ifEnds := ife }

/-- `if ( $X == 1 ) { Foo(); } else { Bar<actor 2>(); } @label_3; Baz(); end;` -/
def exJn : BGraph :=
  ⟨[wIfV 0 0 "Branch" [.const "$X", .int 1] 0, wOp 1 1 "Foo", wOp 2 2 "lives" [.int 2], wOp 3 3 "Bar",
    wLab 4 3 [0], wOp 5 4 "Baz", wOp 6 5 "End"],
   [wE 0 1 1, wE 0 2 0 true, wE 1 4 1, wE 2 3 0, wE 3 4 0, wE 4 5 0, wE 5 6 0]⟩

/-- `if ( $X == 1 ) { end; } elseif ( $Y == 2 ) { end; }` - the label that ends the INNER if is reached when neither condition
holds; the chain of elseifs stops in front of it, nothing continues there: `Baz(); end;` is lost -/
def cexElseIf : BGraph :=
  ⟨[wIfV 0 0 "Branch" [.const "$X", .int 1] 0, wOp 1 1 "End",
    wIfV 2 2 "Branch" [.const "$Y", .int 2] 1, wOp 3 3 "End",
    wLab 4 7 [1], wOp 5 4 "Baz", wOp 6 5 "End"],
   [wE 0 1 1, wE 0 2 0 true, wE 2 3 1, wE 2 4 0 true, wE 4 5 0, wE 5 6 0]⟩

/-- what the writers make of `exLf` -/
def exLfAst : Src.Stmts :=
  Stmts.ofList [.op "Foo" [.int 1],
    .ite (Branches.ofList [(true, [⟨"BranchValue", [.const "$X", .int 3, .int 3]⟩, ⟨"BranchDebug", [.int 1]⟩],
        [.ctx "lives" [.int 2] (.op "Bar" []), .end_]),
      (false, [⟨"BranchBit", [.const "$Y", .int 4]⟩], [.op "flag_Set" [.const "$Z", .int 1], .hold])]) true
      (Stmts.ofList [.op "Baz" [], .ret])]

/-- `return;` -/
def cexParamsAst : Src.Stmts := Stmts.ofList [.ret]
/-- `if ( $X == 1 ) { end; } else { hold; }` -/
def cexLoweringAst : Src.Stmts :=
  Stmts.ofList [.ite (Branches.ofList [(false, [⟨"Branch", [.const "$X", .int 1]⟩], [.end_])]) true (Stmts.ofList [.hold])]
/-- `if ( $X == 1 ) { Destroy(); } else { Destroy<actor 3>(); return; }` -/
def cexCtxSharedAst : Src.Stmts :=
  Stmts.ofList [.ite (Branches.ofList [(false, [⟨"Branch", [.const "$X", .int 1]⟩], [.op "Destroy" []])]) true
    (Stmts.ofList [.ctx "lives" [.int 3] (.op "Destroy" []), .ret])]

def exJnAst : Src.Stmts :=
  Stmts.ofList [.ite (Branches.ofList [(false, [⟨"Branch", [.const "$X", .int 1]⟩], [.op "Foo" []])]) true
      (Stmts.ofList [.ctx "lives" [.int 2] (.op "Bar" [])]),
    .label "label_3", .op "Baz" [], .end_]

def cexElseIfAst : Src.Stmts :=
  Stmts.ofList [.ite (Branches.ofList [(false, [⟨"Branch", [.const "$X", .int 1]⟩], [.end_]),
    (false, [⟨"Branch", [.const "$Y", .int 2]⟩], [.end_])]) false .nil]

end ESV.Decomp.Wr
