import ESV.Decomp.SemL
import ESV.Decomp.SwGuard
/-
Decidable hypotheses of the theorems about `build_loops` and `remove_label_markers` (lean/ESV/Props/DecompLoops.lean).  Core
Lean only: the driver evaluates them on the REAL graphs and the recorded REAL loop constructions on every run
(`decomplp.validate`), so that it is measured how often the theorems apply.
-/
namespace ESV.Decomp
open ESV.Beh

/-- whatever a vertex reads from its out-edges has one value (the four determinacy clauses of `groupSwStructOk`) -/
def detOk (g : BGraph) : Bool := lvlDet g && flagDet g && elseDet g && idxDet g

/-- every edge joins two vertices of the graph (igraph guarantees it) -/
def edgesInRangeB (g : BGraph) : Bool := g.es.all fun e => decide (e.src < g.vs.length) && decide (e.dst < g.vs.length)

/-- no vertex has been inserted by `build_loops` yet -/
def noSynthetic (g : BGraph) : Bool := g.vs.all fun x => !x.synthetic

/-- an inserted vertex is neither an if nor a switch (`build_loops` creates them without such markers) -/
def synPlainOk (g : BGraph) : Bool := g.vs.all fun x => !x.synthetic || (x.ifStart.isNone && x.switchStart.isNone)

/-- the inserted vertices do not disturb the reading "directly behind a context op": an inserted vertex (a copy of the root op of
the vertex in front of it) is a context op exactly if the vertex in front of it is one - a copy of a context op passes the context
on; the copy of the root of a label jump could only differ if a jump op were a context op -/
def synCtxOk (g : BGraph) : Bool :=
  g.es.all fun e => !g.isSynV e.dst || (g.toGraph.isCtxVertex e.src == g.toGraph.isCtxVertex e.dst)

namespace BGraph

/-- every continue edge of the construction leads to the loop's start vertex (real constructions: the continue edges ARE
the loop in-edges of the start vertex) -/
def contOk (g : BGraph) (r : LoopRec) : Bool :=
  r.continues.all fun i => match g.es[i]? with
    | some e => e.dst == r.v
    | none => true

/-- the edge ids of the construction name edges of the graph (real constructions: Edge handles of it) -/
def idsOk (g : BGraph) (r : LoopRec) : Bool :=
  (r.breaks.all fun i => decide (i < g.es.length)) && r.continues.all fun i => decide (i < g.es.length)

/-- what `buildLoops_preserves` asks of one loop construction, on the graph as it is then -/
def recOk (g : BGraph) (id : Nat) (r : LoopRec) : Bool :=
  match g.applyLoop id r with
  | .error _ => true
  | .ok g' => edgesInRangeB g && g.idsOk r && g.contOk r && detOk g' && synCtxOk g'

def loopsOkGo : List LoopRec → Nat → BGraph → Bool
  | [], _, _ => true
  | r :: rest, id, g =>
    g.recOk id r &&
    match g.applyLoop id r with
    | .error _ => true
    | .ok g' => loopsOkGo rest (id + 1) g'

end BGraph

/-- every loop construction during `buildLoops records g` satisfies `recOk` at the time it is carried out (and the graph that
enters the phase has no inserted vertex that is an if or a switch: it has no inserted vertex at all) -/
def loopRecordsOk (records : List LoopRec) (g : BGraph) : Bool := synPlainOk g && BGraph.loopsOkGo records 0 g

/-! ## `remove_label_markers` -/

/-- the flow level of an edge after the first loop of `remove_label_markers`: the copy of a by-passed edge is one level up -/
def raisedLevel (bs : List Byp) (e : BEdge) : Nat := if bs.any (fun b => b.ein == e) then e.level + 1 else e.level

/-- raising the flow level of the by-passed edges does not change the ORDER of the levels among the out-edges of a vertex that
is read by its flow levels (`Call @l; jump @m;` - the fall-through edge of the Call, raised to the level of its jump edge - is
the shape that violates it) -/
def raiseOk (g : BGraph) (bs : List Byp) : Bool :=
  g.es.all fun e => g.es.all fun e' => !(e.src == e'.src && g.levelRead e.src) ||
    (decide (e.level < e'.level) == decide (raisedLevel bs e < raisedLevel bs e'))

/-- a Jump without marker, as the semantics reads it: a label jump (no if, no multi-if) whose root is Jump -/
def plainJumpX (x : BVertex) : Bool :=
  !x.synthetic && x.ifStart.isNone && x.ifOps.isEmpty && x.switchStart.isNone &&
  match x.op with
  | .item (.ljump r _ _) => isJump r.name
  | _ => false

/-- a vertex that may be deleted: an `SsbLabel` or a Jump without marker (silent, no context op, reads its out-edges by level) -/
def silentX (x : BVertex) : Bool := BGraph.isLabelX x || plainJumpX x

/-- a vertex whose step reads "directly behind a context op": a plain op or a wrapped switch op -/
def readsCtxX (x : BVertex) : Bool :=
  !x.synthetic &&
  match x.op with
  | .item (.op _) => true
  | _ => false

/-- what `removeLabelMarkers_preserves` asks of one of the two loops of the pass, on the state in front of its
`delete_vertices` (`g` = graph with the copies appended, `del` = `vs_to_delete`, `bs` = the by-passes):
* vertex 0 - where the routine starts - stays;
* what goes is a label or a Jump without marker;
* a by-passed vertex leads, on all its out-edges (there is one), to the vertex its in-edge was copied to, and that vertex stays;
* an edge from a vertex that stays to a vertex that goes is the by-passed edge of that vertex;
* the copy of an edge that comes from a context op does not lead to a plain op (or wrapped switch op). -/
def bypOk (g : BGraph) (del : List Nat) (bs : List Byp) : Bool :=
  !del.contains 0 &&
  (del.all fun d => match g.vs[d]? with
    | some x => silentX x
    | none => false) &&
  (bs.all fun b => !del.contains b.a && (g.es.any fun e => e.src == b.d) && (g.es.all fun e => !(e.src == b.d) || e.dst == b.a) &&
    !(g.toGraph.isCtxVertex b.ein.src && match g.vs[b.a]? with
      | some y => readsCtxX y
      | none => false)) &&
  g.es.all fun e => !del.contains e.dst || del.contains e.src || bs.any fun b => b.d == e.dst && b.ein == e

/-- hypotheses of `removeLabelMarkers_preserves`: the readings of the graph are determined, the raised flow levels keep their
order, both loops satisfy `bypOk` -/
def removeOk (labels : List Lbl) (g : BGraph) : Bool :=
  detOk g && synPlainOk g &&
  match removeJumpsRaw g with
  | .error _ => true
  | .ok (g1, del1, bs1) =>
    raiseOk g bs1 && bypOk g1 del1 bs1 &&
    match removeLabelsRaw labels (g1.deleteVs del1) with
    | .error _ => true
    | .ok (g2, del2, bs2) => detOk (g1.deleteVs del1) && bypOk g2 del2 bs2

end ESV.Decomp
