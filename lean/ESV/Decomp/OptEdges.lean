import ESV.Decomp.SemE
import ESV.Decomp.GraphSort
import ESV.Decomp.OptLts
/-
The edge list after one application of the rule `[Any, Label1, Jump, Label2] -> [Any, Label2]`
(`redirect` = the `add_edge` loop, then `delete_edges`): as a set, every edge keeps source, level and loop flag and
has its target renamed by `tgt L ov` (`L` becomes `ov`).
-/
namespace ESV.Decomp.Opt
open ESV.Beh ESV.Decomp

theorem mem_inEdgeIds (g : Graph) (v i : Nat) :
    i ∈ inEdgeIds g v ↔ ∃ e, g.es[i]? = some e ∧ e.dst = v := by
  unfold inEdgeIds
  simp only [List.mem_map, mem_sortBy, List.mem_filter]
  constructor
  · rintro ⟨p, ⟨q, ⟨hq, hs⟩, rfl⟩, rfl⟩
    rw [List.mem_zipIdx_iff_getElem?] at hq
    exact ⟨q.1, hq, by simpa using hs⟩
  · rintro ⟨e, he, hd⟩
    refine ⟨(i, e), ⟨(e, i), ⟨?_, by simpa using hd⟩, rfl⟩, rfl⟩
    rw [List.mem_zipIdx_iff_getElem?]; exact he

theorem mem_outEdges (g : Graph) (v i : Nat) (e : Edge) :
    (i, e) ∈ outEdges g v ↔ g.es[i]? = some e ∧ e.src = v := by
  unfold outEdges
  simp only [mem_sortBy, List.mem_map, List.mem_filter]
  constructor
  · rintro ⟨q, ⟨hq, hs⟩, heq⟩
    rw [List.mem_zipIdx_iff_getElem?] at hq
    simp only [Prod.mk.injEq] at heq
    obtain ⟨rfl, rfl⟩ := heq
    exact ⟨hq, by simpa using hs⟩
  · rintro ⟨he, hs⟩
    refine ⟨(e, i), ⟨?_, by simpa using hs⟩, rfl⟩
    rw [List.mem_zipIdx_iff_getElem?]; exact he

theorem inEdgeIds_lt (g : Graph) (v i : Nat) (h : i ∈ inEdgeIds g v) : i < g.es.length := by
  obtain ⟨e, he, _⟩ := (mem_inEdgeIds g v i).mp h
  exact (List.getElem?_eq_some_iff.mp he).1

/-- the single in-edge -/
theorem inEdge_unique (g : Graph) (v i : Nat) (e : Edge) (h : inEdgeIds g v = [i]) (he : g.es[i]? = some e) :
    e.dst = v ∧ ∀ e' ∈ g.es, e'.dst = v → e' = e := by
  constructor
  · have : i ∈ inEdgeIds g v := by rw [h]; simp
    obtain ⟨e0, h0, hd⟩ := (mem_inEdgeIds g v i).mp this
    rw [he] at h0; cases h0; exact hd
  · intro e' he' hd
    obtain ⟨j, hj⟩ := List.getElem?_of_mem he'
    have : j ∈ inEdgeIds g v := (mem_inEdgeIds g v j).mpr ⟨e', hj, hd⟩
    rw [h] at this; simp at this; subst this
    rw [he] at hj; cases hj; rfl

/-- the single out-edge -/
theorem outEdge_unique (g : Graph) (v o : Nat) (e : Edge) (h : outEdgeIds g v = [o]) (he : g.es[o]? = some e) :
    e.src = v ∧ ∀ e' ∈ g.es, e'.src = v → e' = e := by
  unfold outEdgeIds at h
  cases hl : outEdges g v with
  | nil => rw [hl] at h; simp at h
  | cons p ps =>
    rw [hl] at h
    simp only [List.map_cons, List.cons.injEq, List.map_eq_nil_iff] at h
    obtain ⟨hp, rfl⟩ := h
    obtain ⟨i, x⟩ := p
    simp only at hp; subst hp
    have hm : (i, x) ∈ outEdges g v := by rw [hl]; simp
    obtain ⟨hx, hs⟩ := (mem_outEdges g v i x).mp hm
    rw [he] at hx; cases hx
    refine ⟨hs, ?_⟩
    intro e' he' hs'
    obtain ⟨j, hj⟩ := List.getElem?_of_mem he'
    have : (j, e') ∈ outEdges g v := (mem_outEdges g v j e').mpr ⟨hj, hs'⟩
    rw [hl] at this; simp at this
    exact this.2

theorem redirect_vs (g : Graph) (ov : Nat) (ids : List Nat) : (redirect g ov ids).vs = g.vs := by
  induction ids generalizing g with
  | nil => rfl
  | cons id ids ih =>
    unfold redirect
    split
    · rw [ih]
    · rw [ih]

/-- `redirect` appends the copies -/
theorem redirect_es (g : Graph) (ov : Nat) (ids : List Nat) (hlt : ∀ id ∈ ids, id < g.es.length) :
    ∃ extra, (redirect g ov ids).es = g.es ++ extra ∧
      ∀ e', e' ∈ extra ↔ ∃ id ∈ ids, ∃ e, g.es[id]? = some e ∧ e' = { e with dst := ov } := by
  induction ids generalizing g with
  | nil => exact ⟨[], by simp [redirect], by simp⟩
  | cons id ids ih =>
    have hid : id < g.es.length := hlt id (by simp)
    unfold redirect
    rw [List.getElem?_eq_getElem hid]
    simp only
    obtain ⟨extra, h1, h2⟩ := ih { g with es := g.es ++ [{ g.es[id] with dst := ov }] }
      (by intro j hj; have := hlt j (by simp [hj]); simp; omega)
    refine ⟨{ g.es[id] with dst := ov } :: extra, by rw [h1]; simp, ?_⟩
    intro e'
    have hlook : ∀ j ∈ ids, (g.es ++ [{ g.es[id] with dst := ov }])[j]? = g.es[j]? := by
      intro j hj
      exact List.getElem?_append_left (hlt j (by simp [hj]))
    simp only [List.mem_cons, h2]
    constructor
    · rintro (rfl | ⟨j, hj, e, he, rfl⟩)
      · exact ⟨id, Or.inl rfl, g.es[id], List.getElem?_eq_getElem hid, rfl⟩
      · exact ⟨j, Or.inr hj, e, by rw [← hlook j hj]; exact he, rfl⟩
    · rintro ⟨j, (rfl | hj), e, he, rfl⟩
      · left; rw [List.getElem?_eq_getElem hid] at he; cases he; rfl
      · right; exact ⟨j, hj, e, by rw [hlook j hj]; exact he, rfl⟩

theorem deleteEdges_vs (g : Graph) (ids : List Nat) : (deleteEdges g ids).vs = g.vs := rfl

theorem mem_deleteEdges (g : Graph) (ids : List Nat) (e : Edge) :
    e ∈ (deleteEdges g ids).es ↔ ∃ i, g.es[i]? = some e ∧ i ∉ ids := by
  unfold deleteEdges
  simp only [List.mem_map, List.mem_filter]
  constructor
  · rintro ⟨p, ⟨hp, hc⟩, rfl⟩
    rw [List.mem_zipIdx_iff_getElem?] at hp
    exact ⟨p.2, hp, by simpa using hc⟩
  · rintro ⟨i, hi, hn⟩
    exact ⟨(e, i), ⟨by rw [List.mem_zipIdx_iff_getElem?]; exact hi, by simpa using hn⟩, rfl⟩

/-- the graph after one rule application -/
def stepGraph (g : Graph) (L ov : Nat) : Graph :=
  deleteEdges (redirect g ov (inEdgeIds g L)) (inEdgeIds g L)

theorem stepGraph_vs (g : Graph) (L ov : Nat) : (stepGraph g L ov).vs = g.vs := by
  unfold stepGraph; rw [deleteEdges_vs, redirect_vs]

theorem mem_stepGraph_es (g : Graph) (L ov : Nat) (e' : Edge) :
    e' ∈ (stepGraph g L ov).es ↔ ∃ e ∈ g.es, e' = { e with dst := tgt L ov e.dst } := by
  unfold stepGraph
  obtain ⟨extra, h1, h2⟩ := redirect_es g ov (inEdgeIds g L) (inEdgeIds_lt g L)
  rw [mem_deleteEdges, h1]
  constructor
  · rintro ⟨i, hi, hn⟩
    by_cases hlt : i < g.es.length
    · rw [List.getElem?_append_left hlt] at hi
      refine ⟨e', List.mem_of_getElem? hi, ?_⟩
      have : e'.dst ≠ L := fun hd => hn ((mem_inEdgeIds g L i).mpr ⟨e', hi, hd⟩)
      rw [tgt_ne _ _ _ this]
    · rw [List.getElem?_append_right (by omega)] at hi
      have := List.mem_of_getElem? hi
      obtain ⟨j, hj, e, he, rfl⟩ := (h2 e').mp this
      obtain ⟨e0, h0, hd⟩ := (mem_inEdgeIds g L j).mp hj
      rw [he] at h0; cases h0
      exact ⟨e, List.mem_of_getElem? he, by rw [hd, tgt_self]⟩
  · rintro ⟨e, he, rfl⟩
    obtain ⟨i, hi⟩ := List.getElem?_of_mem he
    by_cases hd : e.dst = L
    · have hin : i ∈ inEdgeIds g L := (mem_inEdgeIds g L i).mpr ⟨e, hi, hd⟩
      have hm : ({ e with dst := ov } : Edge) ∈ extra := (h2 _).mpr ⟨i, hin, e, hi, rfl⟩
      obtain ⟨k, hk⟩ := List.getElem?_of_mem hm
      refine ⟨g.es.length + k, ?_, ?_⟩
      · rw [List.getElem?_append_right (by omega)]
        simp only [Nat.add_sub_cancel_left]
        rw [hk, hd, tgt_self]
      · intro hin'; have := inEdgeIds_lt g L _ hin'; omega
    · refine ⟨i, ?_, ?_⟩
      · rw [List.getElem?_append_left (List.getElem?_eq_some_iff.mp hi).1, hi, tgt_ne _ _ _ hd]
      · intro hin
        obtain ⟨e0, h0, hd0⟩ := (mem_inEdgeIds g L i).mp hin
        rw [hi] at h0; cases h0; exact hd hd0

end ESV.Decomp.Opt
