import ESV.Decomp.Sem
/-
Totality of label resolution: on a well-formed routine set `processOp` never fails.
-/
namespace ESV.Decomp
open ESV.Beh

/-! ## end offsets -/

def lastOff (l : List MOp) (prev : Int) : Int :=
  match l.getLast? with
  | some o => o.off
  | none => prev

theorem endOffsets_cons (r : List MOp) (rs : List (List MOp)) (prev : Int) :
    endOffsets (r :: rs) prev = lastOff r prev :: endOffsets rs (lastOff r prev) := by
  rfl

theorem endOffsets_length (rs : List (List MOp)) : ∀ prev, (endOffsets rs prev).length = rs.length := by
  induction rs with
  | nil => intro prev; simp [endOffsets]
  | cons r rs ih => intro prev; simp [endOffsets_cons, ih]

theorem lastOff_append (a b : List MOp) (prev : Int) :
    lastOff (a ++ b) prev = lastOff b (lastOff a prev) := by
  unfold lastOff
  rw [List.getLast?_append]
  cases b.getLast? <;> simp

theorem allOps_cons (r : List MOp) (rs : List (List MOp)) : allOps (r :: rs) = r ++ allOps rs := by
  simp [allOps]

theorem endOffsets_getLast (rs : List (List MOp)) :
    ∀ prev, rs ≠ [] → (endOffsets rs prev).getLast? = some (lastOff (allOps rs) prev) := by
  induction rs with
  | nil => intro prev h; exact absurd rfl h
  | cons r rs ih =>
    intro prev _
    rw [endOffsets_cons, allOps_cons, lastOff_append]
    cases rs with
    | nil => simp [endOffsets, allOps, lastOff]
    | cons r' rs' =>
      have := ih (lastOff r prev) (by simp)
      rw [List.getLast?_cons]
      rw [this]; simp

/-! ## increasing offsets: the last is the largest -/

theorem offsetsIncreasing_le_last : ∀ (l : List Int), offsetsIncreasing l = true →
    ∀ x ∈ l, ∀ e, l.getLast? = some e → x ≤ e := by
  intro l
  induction l with
  | nil => intro _ x hx; simp at hx
  | cons a rest ih =>
    intro h x hx e he
    cases rest with
    | nil =>
      simp at hx he; omega
    | cons b rest' =>
      simp only [offsetsIncreasing, Bool.and_eq_true, decide_eq_true_eq] at h
      obtain ⟨⟨_, hab⟩, hrest⟩ := h
      have he' : (b :: rest').getLast? = some e := by
        rw [List.getLast?_cons_cons] at he; exact he
      rcases List.mem_cons.mp hx with rfl | hx'
      · have := ih hrest b (by simp) e he'
        omega
      · exact ih hrest x hx' e he'

/-! ## the walks -/

theorem walkDown_le (ends : List Int) (t : Int) : ∀ r, walkDown ends t r ≤ r := by
  intro r
  induction r with
  | zero => simp [walkDown]
  | succ r ih =>
    unfold walkDown
    split
    · split
      · omega
      · omega
    · omega

theorem walkUp_ok (ends : List Int) (t : Int) (hlast : ∀ e, ends.getLast? = some e → t ≤ e) :
    ∀ fuel r, r < ends.length → ends.length ≤ fuel + r → ∃ r', walkUp ends t fuel r = .ok r' := by
  intro fuel
  induction fuel with
  | zero => intro r h1 h2; omega
  | succ fuel ih =>
    intro r h1 h2
    unfold walkUp
    have hr : ends[r]? = some ends[r] := List.getElem?_eq_getElem h1
    rw [hr]
    simp only
    by_cases hgt : t > ends[r]
    · rw [if_pos hgt]
      by_cases hend : r + 1 ≥ ends.length
      · exfalso
        have hidx : r = ends.length - 1 := by omega
        have : ends.getLast? = some ends[r] := by
          rw [List.getLast?_eq_getElem?]
          rw [← hidx]; exact hr
        have := hlast _ this
        omega
      · rw [if_neg hend]
        exact ih (r+1) (by omega) (by omega)
    · rw [if_neg hgt]; exact ⟨r, rfl⟩

/-! ## totality of the three loops -/

/-- what `processOp` needs of an op: target present as an int at the declared index and not beyond the
last end offset -/
def opFine (ends : List Int) (o : MOp) : Prop :=
  ∀ idx, jumpIndex o.name = some idx →
    ∃ t, ¬ (o.params.length < idx) ∧ o.params[idx]? = some (.int t) ∧
      (∀ e, ends.getLast? = some e → t ≤ e)

theorem processOp_total (ends : List Int) (known : List Lbl) (rid : Nat) (o : MOp)
    (hf : opFine ends o) (hr : rid < ends.length) : ∃ res, processOp ends known rid o = .ok res := by
  unfold processOp
  cases hj : jumpIndex o.name with
  | none => exact ⟨_, rfl⟩
  | some idx =>
    obtain ⟨t, h1, h2, h3⟩ := hf idx hj
    simp only [if_neg h1, h2]
    cases hk : known.find? fun l => l.off == t with
    | some l => exact ⟨_, rfl⟩
    | none =>
      simp only
      have hd := walkDown_le ends t rid
      obtain ⟨r', hr'⟩ := walkUp_ok ends t h3 (ends.length + 1) (walkDown ends t rid) (by omega) (by omega)
      rw [hr']
      exact ⟨_, rfl⟩

theorem processRoutine_total (ends : List Int) (rid : Nat) (hr : rid < ends.length) :
    ∀ (os : List MOp) (known : List Lbl), (∀ o ∈ os, opFine ends o) →
      ∃ res, processRoutine ends rid known os = .ok res := by
  intro os
  induction os with
  | nil => intro known _; exact ⟨_, rfl⟩
  | cons o os ih =>
    intro known hf
    unfold processRoutine
    obtain ⟨⟨k', it⟩, h1⟩ := processOp_total ends known rid o (hf o (by simp)) hr
    rw [h1]
    obtain ⟨⟨k'', its⟩, h2⟩ := ih k' (fun o' ho' => hf o' (by simp [ho']))
    simp only [h2]
    exact ⟨_, rfl⟩

theorem processAll_total (ends : List Int) :
    ∀ (rs : List (List MOp)) (rid : Nat) (known : List Lbl), rid + rs.length ≤ ends.length →
      (∀ r ∈ rs, ∀ o ∈ r, opFine ends o) →
      ∃ res, processAll ends rid known rs = .ok res := by
  intro rs
  induction rs with
  | nil => intro rid known _ _; exact ⟨_, rfl⟩
  | cons r rs ih =>
    intro rid known hlen hf
    unfold processAll
    simp only [List.length_cons] at hlen
    obtain ⟨⟨k', its⟩, h1⟩ := processRoutine_total ends rid (by omega) r known (hf r (by simp))
    rw [h1]
    obtain ⟨⟨k'', rest⟩, h2⟩ := ih (rid+1) k' (by omega) (fun r' hr' => hf r' (by simp [hr']))
    simp only [h2]
    exact ⟨_, rfl⟩

/-! ## well-formed sets are fine -/

theorem mem_allOps {rs : List (List MOp)} {r : List MOp} {o : MOp} (hr : r ∈ rs) (ho : o ∈ r) :
    o ∈ allOps rs := by
  unfold allOps
  exact List.mem_flatMap.mpr ⟨r, hr, ho⟩

theorem wfSet_opFine (rs : List (List MOp)) (h : wfSet rs = true) (prev : Int) :
    ∀ r ∈ rs, ∀ o ∈ r, opFine (endOffsets rs prev) o := by
  intro r hr o ho idx hj
  unfold wfSet at h
  simp only [Bool.and_eq_true, List.all_eq_true] at h
  obtain ⟨hinc, hall⟩ := h
  have hjo := hall o (mem_allOps hr ho)
  unfold jumpOk at hjo
  rw [hj] at hjo
  simp only [Bool.and_eq_true, beq_iff_eq] at hjo
  obtain ⟨hlen, hp⟩ := hjo
  cases hpi : o.params[idx]? with
  | none => rw [hpi] at hp; simp at hp
  | some p =>
    rw [hpi] at hp
    cases p with
    | int t =>
      simp only [List.contains_iff_mem] at hp
      refine ⟨t, by omega, rfl, ?_⟩
      intro e he
      have hne : rs ≠ [] := by intro hn; subst hn; simp at hr
      rw [endOffsets_getLast rs prev hne] at he
      have hnonempty : allOps rs ≠ [] := by
        intro hn; have := mem_allOps hr ho; rw [hn] at this; simp at this
      obtain ⟨lo, hlo⟩ : ∃ lo, (allOps rs).getLast? = some lo := by
        cases hh : (allOps rs).getLast? with
        | none => rw [List.getLast?_eq_none_iff] at hh; exact absurd hh hnonempty
        | some lo => exact ⟨lo, rfl⟩
      have hlast : ((allOps rs).map (·.off)).getLast? = some lo.off := by
        rw [List.getLast?_map, hlo]; rfl
      have := offsetsIncreasing_le_last _ hinc t hp lo.off hlast
      unfold lastOff at he
      rw [hlo] at he
      simp at he
      omega
    | _ => simp at hp

theorem resolve_total' (rs : List (List MOp)) (h : wfSet rs = true) : ∃ r, resolve rs = .ok r := by
  unfold resolve
  obtain ⟨⟨known, rtns⟩, h1⟩ := processAll_total (endOffsets rs 0) rs 0 []
    (by rw [endOffsets_length]; omega) (wfSet_opFine rs h 0)
  rw [h1]
  exact ⟨_, rfl⟩

end ESV.Decomp
