import ESV.Decomp.SwCaseFacts
/-
After the first part for one switch op: the readings are still determined (`Det`), the invariant holds with the merged case
vertices marked for deletion, the vertices outside the chain keep their out-edges, "directly behind a context op" is kept.
-/
namespace ESV.Decomp.Sw
open ESV.Beh ESV.Decomp ESV.Decomp.Opt ESV.Decomp.Gr

variable {g g2 : BGraph} {v n : Nat} {del : List Nat} {cases : List String} {o : MOp} {e0 : BEdge} {ch : List CElem}
  {next : Option Nat}

namespace CaseCtx

theorem old_of_src (k : CaseCtx g v n del cases o e0 g2 ch next) (y : BEdge) (hy : y ∈ g2.es) (hs : y.src ≠ v) : y ∈ g.es := by
  rcases k.ce.up y hy with h1 | ⟨j, c, _, rfl⟩ | ⟨x, _, h2, _⟩
  · exact h1
  · exact absurd (caseEdge_src j c.r c.eh) hs
  · exact absurd h2 hs

theorem ifV_v2 (k : CaseCtx g v n del cases o e0 g2 ch next) : g2.isIfV v = false := by
  obtain ⟨x, _, h2, _, h4⟩ := k.vs_v
  unfold BGraph.isIfV BGraph.isIfVertex; rw [h4]; simp [BGraph.setSwitchStartV, h2]

theorem det2 (k : CaseCtx g v n del cases o e0 g2 ch next) : Det g2 := by
  have hsv := k.switch_v.1
  constructor
  · intro y hy y' hy' hs hl hlv
    have hne : y.src ≠ v := by
      intro h; rw [h] at hl; unfold BGraph.levelRead at hl; rw [hsv] at hl; simp at hl
    exact k.inv.det.lvl y (k.old_of_src y hy hne) y' (k.old_of_src y' hy' (by rw [← hs]; exact hne)) hs
      (by rw [← levelRead_same (k.sameV_ne y.src hne)]; exact hl) hlv
  · intro y hy y' hy' hs hl hlv
    have hne : y.src ≠ v := by intro h; rw [h, k.ifV_v2] at hl; cases hl
    exact k.inv.det.flag y (k.old_of_src y hy hne) y' (k.old_of_src y' hy' (by rw [← hs]; exact hne)) hs
      (by rw [← isIfV_same (k.sameV_ne y.src hne)]; exact hl) hlv
  · intro y hy y' hy' hs hl h1 h2
    by_cases hne : y.src = v
    · obtain ⟨x, hx, hd⟩ := k.v_else y hy hne h1
      obtain ⟨x', hx', hd'⟩ := k.v_else y' hy' (by rw [← hs]; exact hne) h2
      rw [hx] at hx'
      have : x' = x := by simpa using hx'.symm
      rw [hd, hd', this]
    · exact k.inv.det.els y (k.old_of_src y hy hne) y' (k.old_of_src y' hy' (by rw [← hs]; exact hne)) hs
        (by rw [← isSwitchV_same (k.sameV_ne y.src hne)]; exact hl) h1 h2
  · intro y hy y' hy' hs hl t ht t' ht' hix
    by_cases hne : y.src = v
    · have hne' : y'.src = v := by rw [← hs]; exact hne
      have pick : ∀ z ∈ g2.es, z.src = v → ∀ u ∈ z.switchOps, ∃ j c, ch[j]? = some c ∧ z.dst = c.eh.dst ∧ u = (0, j, c.r) := by
        intro z hz hzs u hu
        rcases k.ce.up z hz with h1 | ⟨j, c, hj, rfl⟩ | ⟨x, _, _, _, _, hops⟩
        · rw [(k.plain z h1 hzs).2] at hu; cases hu
        · rw [caseEdge_ops] at hu
          exact ⟨j, c, hj, rfl, by simpa using hu⟩
        · rw [hops] at hu; cases hu
      obtain ⟨j, c, hj, hd, rfl⟩ := pick y hy hne t ht
      obtain ⟨j', c', hj', hd', rfl⟩ := pick y' hy' hne' t' ht'
      simp only at hix
      subst hix
      rw [hj] at hj'
      have : c' = c := by simpa using hj'.symm
      subst this
      exact ⟨rfl, by rw [hd, hd']⟩
    · exact k.inv.det.idx y (k.old_of_src y hy hne) y' (k.old_of_src y' hy' (by rw [← hs]; exact hne)) hs
        (by rw [← isSwitchV_same (k.sameV_ne y.src hne)]; exact hl) t ht t' ht' hix

/-- an edge the graph before does not read is not read afterwards either -/
theorem ignored_mono (k : CaseCtx g v n del cases o e0 g2 ch next) (e : BEdge) (h : g.ignoredE e = true) :
    g2.ignoredE e = true := by
  unfold BGraph.ignoredE at h ⊢
  simp only [Bool.and_eq_true] at h ⊢
  refine ⟨⟨?_, h.1.2⟩, h.2⟩
  by_cases hs : e.src = v
  · rw [hs]; exact k.switch_v.1
  · rw [isSwitchV_same (k.sameV_ne e.src hs)]; exact h.1.1

theorem inv2 (k : CaseCtx g v n del cases o e0 g2 ch next) : SInv g2 (del ++ ch.map (·.w)) := by
  refine ⟨k.det2, ?_, ?_, ?_, ?_, ?_⟩
  · intro hm
    rcases List.mem_append.mp hm with h1 | h1
    · exact k.inv.nz h1
    · obtain ⟨c, hc, heq⟩ := List.mem_map.mp h1
      exact (k.chain_w c hc).2.2.1 heq
  · intro y hy hd
    rcases k.ce.up y hy with h1 | ⟨j, c, hj, rfl⟩ | ⟨x, hx, _, hdx, _, _⟩
    · rcases List.mem_append.mp hd with h2 | h2
      · rcases k.inv.dead y h1 h2 with h3 | h3
        · exact Or.inl (List.mem_append_left _ h3)
        · exact Or.inr (k.ignored_mono y h3)
      · obtain ⟨c, hc, heq⟩ := List.mem_map.mp h2
        rcases k.chn.inn c hc y h1 heq.symm with h3 | h3 | h3
        · exact Or.inl (List.mem_append_left _ h3)
        · exact Or.inl (List.mem_append_right _ h3)
        · right
          rw [ignoredE_vs (g.setSwitchStart v n) g2 k.ce.vs]; exact h3
    · exfalso
      have hc := List.mem_of_getElem? hj
      rw [caseEdge_dst] at hd
      rcases List.mem_append.mp hd with h2 | h2
      · exact (k.tgt_ok c hc).2 h2
      · exact (k.tgt_ok c hc).1 h2
    · exfalso
      rw [hdx] at hd
      rcases List.mem_append.mp hd with h2 | h2
      · exact (k.next_ok x hx).2 h2
      · exact (k.next_ok x hx).1 h2
  · intro d hd
    have hop : g2.isLabelV d = g.isLabelV d := by unfold BGraph.isLabelV BGraph.opAt; rw [k.op_same d]
    rw [hop]
    rcases List.mem_append.mp hd with h1 | h1
    · exact k.inv.nolab d h1
    · obtain ⟨c, hc, rfl⟩ := List.mem_map.mp h1
      exact (k.chain_w c hc).2.2.2.2.2.2.2
  · intro d hd
    rw [k.isCtxVertex_same d]
    rcases List.mem_append.mp hd with h1 | h1
    · exact k.inv.noctx d h1
    · obtain ⟨c, hc, rfl⟩ := List.mem_map.mp h1
      exact (k.chain_w c hc).2.2.2.2.2.1
  · intro d hd
    rw [k.vs_length]
    rcases List.mem_append.mp hd with h1 | h1
    · exact k.inv.lt d h1
    · obtain ⟨c, hc, rfl⟩ := List.mem_map.mp h1
      exact (k.chain_w c hc).2.2.2.2.2.2.1

theorem img_id (e : BEdge) : img id e = e := rfl

/-- a vertex outside the chain, other than the switch, keeps its out-edges -/
theorem edgeCorr_other (k : CaseCtx g v n del cases o e0 g2 ch next) (a : Nat) (hv : a ≠ v) (hw : a ∉ ch.map (·.w)) :
    EdgeCorr g g2 id a := by
  constructor
  · intro y hy hs
    exact ⟨y, k.old_of_src y hy (by rw [hs]; exact hv), hs, rfl⟩
  · intro e he hs _
    rw [img_id]
    exact k.ce.keep e he (by rw [hs]; exact hv)
      (fun c hc heq => hw (List.mem_map.mpr ⟨c, hc, by rw [← heq, hs]⟩))

/-- "directly behind a context op" is kept at every vertex: the edges that go or come leave case tests or the switch op -/
theorem afterCtx_same (k : CaseCtx g v n del cases o e0 g2 ch next) (a : Nat) :
    g2.toGraph.afterCtxE a = g.toGraph.afterCtxE a := by
  apply afterCtxE_congr
  · intro y hy hd hc
    rw [k.isCtxVertex_same] at hc
    have hs : y.src ≠ v := by intro h; rw [h, k.v_not_ctx] at hc; cases hc
    exact ⟨y, k.old_of_src y hy hs, hd, hc⟩
  · intro e he hd hc
    have hs : e.src ≠ v := by intro h; rw [h, k.v_not_ctx] at hc; cases hc
    refine ⟨e, k.ce.keep e he hs ?_, hd, by rw [k.isCtxVertex_same]; exact hc⟩
    intro c hcm heq
    rw [heq, (k.chain_w c hcm).2.2.2.2.2.1] at hc; cases hc

end CaseCtx

end ESV.Decomp.Sw
