import ESV.Decomp.OptFinal
import ESV.Decomp.BrGuard
/-
The structure hypothesis of `buildBranches_preserves` holds for every graph that leaves `optimize_paths`
(edges of one source and flow level have one target: kept by the rule applications and by the final deletion).
-/
namespace ESV.Decomp.Br
open ESV.Beh ESV.Decomp ESV.Decomp.Opt

theorem LD_deleteVertices (g : Graph) (del : List Nat) (h : LD g) : LD (deleteVertices g del) := by
  intro e1 h1 e2 h2 hs hl
  obtain ⟨a, ha, has, _, rfl⟩ := (mem_deleteVertices_es g del e1).mp h1
  obtain ⟨b, hb, hbs, _, rfl⟩ := (mem_deleteVertices_es g del e2).mp h2
  simp only at hs hl ⊢
  rw [renumber_eq_kept, renumber_eq_kept] at hs
  have hsrc : a.src = b.src := kept_inj del _ _ has hbs hs
  rw [h a ha b hb hsrc hl]

theorem levelsDetermine_of_LD (g : Graph) (h : LD g) : levelsDetermine g = true := by
  unfold levelsDetermine
  rw [List.all_eq_true]
  intro e he
  rw [List.all_eq_true]
  intro e' he'
  by_cases hc : e.src = e'.src ∧ e.level = e'.level
  · simp [hc.1, hc.2, h e he e' he' hc.1 hc.2]
  · have : (e.src == e'.src && e.level == e'.level) = false := by
      rw [Bool.and_eq_false_iff]
      by_cases h1 : e.src = e'.src
      · right; exact beq_false_of_ne (fun h2 => hc ⟨h1, h2⟩)
      · left; exact beq_false_of_ne h1
    simp [this]

/-- every graph leaving `optimize_paths` has the structure `build_branches` needs -/
theorem optimizePaths_levelsDetermine (labels : List Lbl) (g g' : Graph) (hok : graphOk g = true)
    (hns : noSilentCycle g = true) (h : optimizePaths labels g = .ok g') : levelsDetermine g' = true := by
  unfold optimizePaths at h
  split at h
  · exact absurd h (by simp)
  · rename_i gf delf hgo
    simp only [Except.ok.injEq] at h
    subst h
    obtain ⟨hinv, _⟩ := optimizeGo_preserves labels _ g [] gf delf (Inv.init g hok hns) hgo
    exact levelsDetermine_of_LD _ (LD_deleteVertices gf delf hinv.delOk.ld)

end ESV.Decomp.Br
