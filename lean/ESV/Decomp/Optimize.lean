import ESV.Decomp.Sem
/-
`SsbGraphMinimizer.optimize_paths` (graph_building/graph_minimizer.py): the first rewriting phase of the
decompiler.  RULE: [Any, Label1, Jump[in=1,out=1], Label2] -> [Any, Label2] - a label that is only followed by
a Jump to another label is removed together with the Jump, its in-edges are redirected to the other label.
igraph operations are modelled on the two lists of `Graph`: `add_edge` appends, `delete_edges` /
`delete_vertices` remove and renumber preserving order (re-measured on every run, harness/impl_decomp.py).
-/
namespace ESV.Decomp
open ESV.Beh

/-- `g.incident(v, IN)`: ids of the in-edges in ascending source id, then descending edge id -/
def inEdgeIds (g : Graph) (v : Nat) : List Nat :=
  let own := (g.es.zipIdx.filter fun p => p.1.dst == v).map fun p => (p.2, p.1)
  (sortBy (fun a b => a.2.src < b.2.src || (a.2.src == b.2.src && a.1 > b.1)) own).map (·.1)

def outEdgeIds (g : Graph) (v : Nat) : List Nat := (outEdges g v).map (·.1)

/-- `g.delete_edges(ids)` -/
def deleteEdges (g : Graph) (ids : List Nat) : Graph :=
  { g with es := (g.es.zipIdx.filter fun p => !ids.contains p.2).map (·.1) }

/-- new index of vertex `v` after deleting the vertices `del` -/
def renumber (del : List Nat) (v : Nat) : Nat := v - ((List.range v).filter fun i => del.contains i).length

/-- `g.delete_vertices(ids)`: the vertices go, their incident edges go, the rest is renumbered in order -/
def deleteVertices (g : Graph) (del : List Nat) : Graph :=
  { vs := (g.vs.zipIdx.filter fun p => !del.contains p.2).map (·.1),
    es := (g.es.filter fun e => !del.contains e.src && !del.contains e.dst).map fun e =>
      { e with src := renumber del e.src, dst := renumber del e.dst } }

def isLabelV (labels : List Lbl) (g : Graph) (v : Nat) : Option Lbl :=
  match g.vs[v]? with
  | some (.item (.label id)) => labels.find? fun l => l.id == id
  | _ => none

def isLabelVertex (g : Graph) (v : Nat) : Bool :=
  match g.vs[v]? with
  | some (.item (.label _)) => true
  | _ => false

/-- the `for in_edge_id in ins: g.add_edge(iv, ov, **attr)` loop -/
def redirect (g : Graph) (ov : Nat) : List Nat → Graph
  | [] => g
  | id :: ids =>
    match g.es[id]? with
    | some e => redirect { g with es := g.es ++ [{ e with dst := ov }] } ov ids
    | none => redirect g ov ids

/-- `_optimize_paths__jump_after_label`; `none` = the AssertionError (`len(outs) == 1`) -/
def jumpAfterLabel (g : Graph) (jump label : Nat) : Option (Graph × List Nat) :=
  match outEdgeIds g jump with
  | [o] =>
    match g.es[o]? with
    | some e =>
      if isLabelVertex g e.dst then
        let ins := inEdgeIds g label
        some (deleteEdges (redirect g e.dst ins) ins, [jump, label])
      else some (g, [])
    | none => none
  | _ => none

def isJumpVertex (g : Graph) (v : Nat) : Bool :=
  match g.vs[v]? with
  | some (.item (.ljump root _ _)) => root.name == ESV.Gen.op_jump
  | _ => false

def optimizeGo (labels : List Lbl) : List Nat → Graph → List Nat → Except String (Graph × List Nat)
  | [], g, del => .ok (g, del)
  | v :: rest, g, del =>
    if isJumpVertex g v then
      match inEdgeIds g v with
      | [i] =>
        match g.es[i]? with
        | some e =>
          match isLabelV labels g e.src with
          | some l =>
            if !l.foreign && e.src != 0 then
              match jumpAfterLabel g v e.src with
              | some (g', d) => optimizeGo labels rest g' (del ++ d)
              | none => .error "AssertionError"
            else optimizeGo labels rest g del
          | none => optimizeGo labels rest g del
        | none => optimizeGo labels rest g del
      | _ => optimizeGo labels rest g del
    else optimizeGo labels rest g del

/-- `optimize_paths` for one routine graph -/
def optimizePaths (labels : List Lbl) (g : Graph) : Except String Graph :=
  match optimizeGo labels (List.range g.vs.length) g [] with
  | .error e => .error e
  | .ok (g', del) => .ok (deleteVertices g' del)

end ESV.Decomp
