/-
Generic layout lemmas: a list `ops` is laid out as the concatenation of blocks `pre f ? ++ [main f]`
(an optional element before a mandatory one).  `st i` is the start of block `i`, `pos i` the position of
its mandatory element.
-/
namespace ESV.Decomp.Layout
variable {α β : Type} (pre : α → Option β) (main : α → β)

def blk (f : α) : List β := (pre f).toList ++ [main f]
def lay (ops : List α) : List β := ops.flatMap (blk pre main)
def st (ops : List α) (i : Nat) : Nat := (lay pre main (ops.take i)).length
def pos (ops : List α) (i : Nat) : Nat :=
  st pre main ops i + (match ops[i]? with | some f => (pre f).toList.length | none => 0)

theorem lay_cons (a : α) (ops : List α) : lay pre main (a :: ops) = blk pre main a ++ lay pre main ops := by
  simp [lay]

theorem lay_append (l₁ l₂ : List α) : lay pre main (l₁ ++ l₂) = lay pre main l₁ ++ lay pre main l₂ := by
  simp [lay]

theorem lay_decomp (ops : List α) (i : Nat) (h : i < ops.length) :
    lay pre main ops = lay pre main (ops.take i) ++
      ((pre ops[i]).toList ++ main ops[i] :: lay pre main (ops.drop (i+1))) := by
  conv => lhs; rw [← List.take_append_drop i ops, List.drop_eq_getElem_cons h]
  rw [lay_append, lay_cons]
  simp [blk]

theorem st_zero (ops : List α) : st pre main ops 0 = 0 := by simp [st, lay]

theorem st_cons_succ (a : α) (ops : List α) (i : Nat) :
    st pre main (a :: ops) (i+1) = (blk pre main a).length + st pre main ops i := by
  simp [st, lay_cons]

theorem st_ge (ops : List α) (i : Nat) (h : ops.length ≤ i) :
    st pre main ops i = (lay pre main ops).length := by
  simp [st, List.take_of_length_le h]

theorem pos_ge (ops : List α) (i : Nat) (h : ops.length ≤ i) :
    pos pre main ops i = (lay pre main ops).length := by
  have : ops[i]? = none := List.getElem?_eq_none h
  simp [pos, this, st_ge pre main ops i h]

theorem pos_of_none (ops : List α) (i : Nat) (h : i < ops.length) (hp : pre ops[i] = none) :
    pos pre main ops i = st pre main ops i := by
  simp [pos, List.getElem?_eq_getElem h, hp]

theorem pos_of_some (ops : List α) (i : Nat) (h : i < ops.length) (x : β) (hp : pre ops[i] = some x) :
    pos pre main ops i = st pre main ops i + 1 := by
  simp [pos, List.getElem?_eq_getElem h, hp]

theorem st_succ (ops : List α) (i : Nat) (h : i < ops.length) :
    st pre main ops (i+1) = pos pre main ops i + 1 := by
  simp only [st, pos, List.getElem?_eq_getElem h]
  rw [List.take_succ_eq_append_getElem h, lay_append]
  simp [lay, blk]
  omega

theorem get_pos (ops : List α) (i : Nat) (h : i < ops.length) :
    (lay pre main ops)[pos pre main ops i]? = some (main ops[i]) := by
  rw [lay_decomp pre main ops i h]
  simp only [pos, st, List.getElem?_eq_getElem h]
  rw [List.getElem?_append_right (by omega)]
  rw [List.getElem?_append_right (by omega)]
  simp

theorem get_st_some (ops : List α) (i : Nat) (h : i < ops.length) (x : β) (hp : pre ops[i] = some x) :
    (lay pre main ops)[st pre main ops i]? = some x := by
  rw [lay_decomp pre main ops i h]
  simp only [st]
  rw [List.getElem?_append_right (by omega)]
  simp [hp]

theorem get_end (ops : List α) : (lay pre main ops)[st pre main ops ops.length]? = none := by
  rw [st_ge pre main ops _ (Nat.le_refl _)]
  simp

theorem st_le_pos (ops : List α) (i : Nat) : st pre main ops i ≤ pos pre main ops i := by
  simp [pos]

/-- the element at the start of block `i` -/
theorem get_st (ops : List α) (i : Nat) (h : i < ops.length) :
    (lay pre main ops)[st pre main ops i]? = some ((pre ops[i]).getD (main ops[i])) := by
  cases hp : pre ops[i] with
  | none =>
    rw [← pos_of_none pre main ops i h hp, get_pos pre main ops i h]; simp
  | some x =>
    rw [get_st_some pre main ops i h x hp]; simp

theorem findIdx_lay (p : β → Bool) (q : α → Bool) : ∀ (ops : List α),
    (∀ f ∈ ops, q f = false → ∀ y ∈ blk pre main f, p y = false) →
    (∀ f ∈ ops, q f = true → ∃ y ys, blk pre main f = y :: ys ∧ p y = true) →
    (lay pre main ops).findIdx? p = (ops.findIdx? q).map (st pre main ops) := by
  intro ops
  induction ops with
  | nil => intro _ _; simp [lay]
  | cons a ops ih =>
    intro h1 h2
    rw [lay_cons, List.findIdx?_append, List.findIdx?_cons]
    cases hq : q a with
    | true =>
      obtain ⟨y, ys, hb, hy⟩ := h2 a (by simp) hq
      rw [hb]
      simp [List.findIdx?_cons, hy, st_zero]
    | false =>
      have hnone : (blk pre main a).findIdx? p = none := by
        rw [List.findIdx?_eq_none_iff]
        intro y hy
        simp [h1 a (by simp) hq y hy]
      rw [hnone]
      have := ih (fun f hf => h1 f (by simp [hf])) (fun f hf => h2 f (by simp [hf]))
      rw [this]
      simp only [Option.none_or, Bool.false_eq_true, if_false, Option.map_map]
      congr 1
      funext i
      simp [st_cons_succ]
      omega

end ESV.Decomp.Layout
