import ESV.Decomp.GraphSort
import ESV.Decomp.GraphInv
/-
Reading successors off the edge keys of a vertex: `fall`, `jumpTarget`, `fallOfJump` are determined as soon
as the set of (level, target) pairs of the out-edges is known.
-/
namespace ESV.Decomp
open ESV.Beh

theorem key_of_mem (g : Graph) (e : Edge) (he : e ∈ g.es) : (e.src, e.level, e.dst) ∈ keys g :=
  (mem_keys g _ _ _).mpr ⟨e, he, rfl, rfl, rfl⟩

theorem fall_eq (g : Graph) (i t : Nat) (hall : ∀ l d, (i, l, d) ∈ keys g → d = t)
    (hex : ∃ l, (i, l, t) ∈ keys g) : g.fall i = t := by
  unfold Graph.fall
  rcases lowest_spec g i with ⟨_, hno⟩ | ⟨e, he, hmem, hsrc, _⟩
  · obtain ⟨l, hl⟩ := hex
    obtain ⟨e, he, hs, _, _⟩ := (mem_keys g _ _ _).mp hl
    exact absurd hs (hno e he)
  · rw [he]; simp only
    have := key_of_mem g e hmem
    rw [hsrc] at this
    exact hall _ _ this

theorem fall_none (g : Graph) (i : Nat) (hno : ∀ l d, (i, l, d) ∉ keys g) : g.fall i = g.vs.length := by
  unfold Graph.fall
  rcases lowest_spec g i with ⟨hn, _⟩ | ⟨e, he, hmem, hsrc, _⟩
  · rw [hn]; rfl
  · have := key_of_mem g e hmem
    rw [hsrc] at this
    exact absurd this (hno _ _)

theorem jumpTarget_eq (g : Graph) (i lv t : Nat) (hj : (i, lv+1, t) ∈ keys g)
    (hall : ∀ l d, (i, l, d) ∈ keys g → (l = lv+1 ∧ d = t) ∨ l = lv) : g.jumpTarget i = t := by
  unfold Graph.jumpTarget
  obtain ⟨ej, hej, hs, hl, hd⟩ := (mem_keys g _ _ _).mp hj
  rcases highest_spec g i with ⟨_, hno⟩ | ⟨e, he, hmem, hsrc, hmax⟩
  · exact absurd hs (hno ej hej)
  · rw [he]; simp only
    have hk := key_of_mem g e hmem
    rw [hsrc] at hk
    have := hmax ej hej hs
    rcases hall _ _ hk with ⟨_, h⟩ | h
    · exact h
    · omega

theorem fallOfJump_some (g : Graph) (i lv t d0 : Nat) (hj : (i, lv+1, t) ∈ keys g)
    (hf : (i, lv, d0) ∈ keys g)
    (hall : ∀ l d, (i, l, d) ∈ keys g → (l = lv+1 ∧ d = t) ∨ (l = lv ∧ d = d0)) :
    g.fallOfJump i = d0 := by
  unfold Graph.fallOfJump
  obtain ⟨ej, hej, hs, hl, hd⟩ := (mem_keys g _ _ _).mp hj
  obtain ⟨ef, hef, hfs, hfl, hfd⟩ := (mem_keys g _ _ _).mp hf
  rcases lowest_spec g i with ⟨_, hno⟩ | ⟨lo, hlo, hlomem, hlosrc, hmin⟩
  · exact absurd hs (hno ej hej)
  · rcases highest_spec g i with ⟨_, hno⟩ | ⟨hi, hhi, hhimem, hhisrc, hmax⟩
    · exact absurd hs (hno ej hej)
    · rw [hlo, hhi]; simp only
      have hk1 := key_of_mem g lo hlomem
      rw [hlosrc] at hk1
      have hk2 := key_of_mem g hi hhimem
      rw [hhisrc] at hk2
      have m1 := hmin ef hef hfs
      have m2 := hmax ej hej hs
      rcases hall _ _ hk1 with ⟨h1, _⟩ | ⟨h1, h1d⟩
      · omega
      · rcases hall _ _ hk2 with ⟨h2, _⟩ | ⟨h2, _⟩
        · rw [if_pos (by omega)]; exact h1d
        · omega

theorem fallOfJump_none (g : Graph) (i lv t : Nat) (hj : (i, lv+1, t) ∈ keys g)
    (hall : ∀ l d, (i, l, d) ∈ keys g → l = lv+1 ∧ d = t) : g.fallOfJump i = g.vs.length := by
  unfold Graph.fallOfJump
  obtain ⟨ej, hej, hs, hl, hd⟩ := (mem_keys g _ _ _).mp hj
  rcases lowest_spec g i with ⟨_, hno⟩ | ⟨lo, hlo, hlomem, hlosrc, hmin⟩
  · exact absurd hs (hno ej hej)
  · rcases highest_spec g i with ⟨_, hno⟩ | ⟨hi, hhi, hhimem, hhisrc, hmax⟩
    · exact absurd hs (hno ej hej)
    · rw [hlo, hhi]; simp only
      have hk1 := key_of_mem g lo hlomem
      rw [hlosrc] at hk1
      have hk2 := key_of_mem g hi hhimem
      rw [hhisrc] at hk2
      have h1 := (hall _ _ hk1).1
      have h2 := (hall _ _ hk2).1
      rw [if_neg (by omega)]; rfl

end ESV.Decomp
