import ESV.Decomp.SemE
/-
`SsbGraphMinimizer.build_branches` (graph_building/graph_minimizer.py): the second rewriting phase of the
decompiler, which runs right after `optimize_paths`.  It marks ifs: every label jump whose root is a Branch* op gets
an `IfStart(id)` marker, its lowest out-edge becomes the else-edge, a heuristic search
(`find_first_common_next_vertex_in_edges`, graph_utils.py) proposes the two edges on which the branches reach their
common end; the end label gets `IfEnd(id)`, a Jump directly in front of the end label is by-passed (`_reconnect`) and
deleted at the end of the phase.

The heuristic search iterates over Python sets of igraph Edge handles and is NOT modelled: its answers are an
ORACLE INPUT of the model (`answers`: one `Option (Nat × Nat)` of edge ids per call, in call order); the tie records
the real answers and feeds them to the model (harness/impl_decomp.py).  Everything else is modelled statement by
statement.  New data of this phase: the vertex attribute "name" (`v<i>`: original item index; `FLR<…>` for foreign
label vertices: `none`), the markers, and the edge attribute `is_else` - carried by `BGraph`; `BGraph.toGraph`
forgets them (they do not enter `Graph.stepE`).
-/
namespace ESV.Decomp
open ESV.Beh

structure BVertex where
  /-- the igraph vertex attribute "name": `some i` for "v<i>", `none` for "FLR<from…>" -/
  name : Option Nat
  op : VOp
  /-- `IfStart(if_id)` marker of a label jump -/
  ifStart : Option Nat := none
  /-- `IfEnd(if_id)` markers of a label, in the order they were added -/
  ifEnds : List Nat := []
  /-- `MultiIfStart.original_ssb_ifs_ops` WITHOUT its first entry (which stays in `op` as the root): non-empty exactly
  for a multi-if (`group_branches`; the Python object then has `root = None` and the opcode name "ES_OR_MULTI_IF") -/
  ifOps : List MOp := []
  /-- `IfStart.is_not` (`invert_branches`) -/
  isNot : Bool := false
  /-- `SwitchStart(switch_id)` marker (`build_and_group_switch_cases`): the Python object is then `SsbLabelJump(op, None)`
  around the plain switch op that stays in `op` -/
  switchStart : Option Nat := none
  /-- `SwitchEnd(switch_id)` markers of a label, in the order they were added -/
  switchEnds : List Nat := []
  /-- `SsbLabel.force_write` (`remove_label_markers`) -/
  forceWrite : Bool := false
  /-- `SwitchFalltrough` marker of a label (`build_switch_fallthroughs`) -/
  fallthrough : Bool := false
  /-- `ForeverStart(loop_id)` marker (`build_loops`; a label, or - never on real runs - a label jump without marker) -/
  foreverStart : Option Nat := none
  /-- `ForeverEnd(loop_id)` markers, in the order they were added -/
  foreverEnds : List Nat := []
  /-- `ForeverBreak(loop_id)` marker of a label jump -/
  foreverBreak : Option Nat := none
  /-- `ForeverContinue(loop_id)` marker of a label jump -/
  foreverContinue : Option Nat := none
  /-- a vertex `build_loops` has inserted: `SsbLabelJump(copy of the root of the source vertex, None)`; `op` holds the copy -/
  synthetic : Bool := false
deriving DecidableEq, Repr

structure BEdge where
  src : Nat
  dst : Nat
  level : Nat
  loop : Bool
  isElse : Bool := false
  /-- the edge attribute "switch_ops": `SwitchCaseOperation(switch_index, index, op)` triples; `[]` for `None` -/
  switchOps : List (Nat × Nat × MOp) := []
deriving DecidableEq, Repr

structure BGraph where
  vs : List BVertex
  es : List BEdge
deriving Repr

def BEdge.toEdge (e : BEdge) : Edge := ⟨e.src, e.dst, e.level, e.loop⟩

/-- forget names, markers and `is_else` -/
def BGraph.toGraph (g : BGraph) : Graph := ⟨g.vs.map (·.op), g.es.map BEdge.toEdge⟩

def BEdge.ofEdge (e : Edge) : BEdge := ⟨e.src, e.dst, e.level, e.loop, false, []⟩

/-- the graph that leaves `optimize_paths`, with the vertex names (by vertex id); no markers, no else-edges -/
def BGraph.ofGraph (names : List (Option Nat)) (g : Graph) : BGraph :=
  ⟨g.vs.zipIdx.map fun p => ⟨(names[p.2]?).join, p.1, none, [], [], false, none, [], false, false, none, [], none, none, false⟩, g.es.map BEdge.ofEdge⟩

/-- vertex names of a base graph: item vertices are "v<i>", foreign label vertices (appended behind the items)
are "FLR<from…>" -/
def baseNames (g : Graph) : List (Option Nat) :=
  g.vs.zipIdx.map fun p => match p.1 with
    | .item _ => some p.2
    | .foreign _ => none

/-- vertex names after `optimize_paths`: `delete_vertices` keeps the attributes of the vertices that stay -/
def optNames (labels : List Lbl) (g : Graph) : List (Option Nat) :=
  let del := optimizeGoDeleted labels g
  ((baseNames g).zipIdx.filter fun p => !del.contains p.2).map (·.1)

namespace BGraph

def opAt (g : BGraph) (v : Nat) : Option VOp := (g.vs[v]?).map (·.op)

/-- `isinstance(v["op"], SsbLabelJump) and v["op"].root.op_code.name in OPS_BRANCH.keys()` -/
def isBranchVertex (g : BGraph) (v : Nat) : Bool :=
  match g.opAt v with
  | some (.item (.ljump root _ _)) => ESV.Gen.opsBranch.any fun kv => kv.1 == root.name
  | _ => false

/-- `isinstance(v["op"], SsbLabelJump) and v["op"].root.op_code.name == OP_JUMP` -/
def isJumpV (g : BGraph) (v : Nat) : Bool :=
  match g.opAt v with
  | some (.item (.ljump root _ _)) => root.name == ESV.Gen.op_jump
  | _ => false

/-- `isinstance(v["op"], SsbLabel)` (an `SsbForeignLabel` is not an `SsbLabel`) -/
def isLabelV (g : BGraph) (v : Nat) : Bool :=
  match g.opAt v with
  | some (.item (.label _)) => true
  | _ => false

/-- `g.incident(v, OUT)`: edge ids in ascending target id, then descending edge id -/
def outIds (g : BGraph) (v : Nat) : List Nat := outEdgeIds g.toGraph v

/-- `v.in_edges()`: edge ids in ascending source id, then descending edge id -/
def inIds (g : BGraph) (v : Nat) : List Nat := inEdgeIds g.toGraph v

def levelOf (g : BGraph) (i : Nat) : Nat :=
  match g.es[i]? with
  | some e => e.level
  | none => 0

/-- Python `min(edges, key=flow_level)`: the FIRST minimal element -/
def firstMin (g : BGraph) : List Nat → Option Nat
  | [] => none
  | i :: rest => some (rest.foldl (fun m j => if g.levelOf j < g.levelOf m then j else m) i)

/-- Python `max(edges, key=flow_level)`: the FIRST maximal element -/
def firstMax (g : BGraph) : List Nat → Option Nat
  | [] => none
  | i :: rest => some (rest.foldl (fun m j => if g.levelOf j > g.levelOf m then j else m) i)

/-- `find_lowest_and_highest_out_edge(g, v, "flow_level")`; `none` = ValueError (no out-edges) -/
def lowHigh (g : BGraph) (v : Nat) : Option (Nat × Nat) :=
  match g.firstMin (g.outIds v), g.firstMax (g.outIds v) with
  | some lo, some hi => some (lo, hi)
  | _, _ => none

def setIfStart (g : BGraph) (v id : Nat) : BGraph :=
  { g with vs := g.vs.modify v fun x => { x with ifStart := some id } }

def addIfEnd (g : BGraph) (v id : Nat) : BGraph :=
  { g with vs := g.vs.modify v fun x => { x with ifEnds := x.ifEnds ++ [id] } }

def setElse (g : BGraph) (i : Nat) : BGraph :=
  { g with es := g.es.modify i fun e => { e with isElse := true } }

/-- `SsbLabelJump.add_marker` raises ValueError when the jump already carries a marker (CallJump, IfStart) -/
def hasMarker (g : BGraph) (v : Nat) : Bool :=
  match g.vs[v]? with
  | some ⟨_, .item (.ljump _ _ call), ifs, _, _, _, _, _, _, _, _, _, _, _, _⟩ => call || ifs.isSome
  | _ => false

/-- `_goes_back(e)`: both ends are named "v<i>" and the target's original index is not behind the source's -/
def goesBack (g : BGraph) (e : BEdge) : Bool :=
  match g.vs[e.src]?, g.vs[e.dst]? with
  | some s, some t =>
    match s.name, t.name with
    | some a, some b => decide (b ≤ a)
    | _, _ => false
  | _, _ => false

/-- `_reconnect(g, e.source, e, new)` for the edge with id `i`: `attr = e.attributes()`; `g.delete_edges(e)` (the
ids above `i` shift down by one); `g.add_edge(e.source, new, **attr)` (appended, highest id) -/
def reconnect (g : BGraph) (i : Nat) (new : Nat) : BGraph :=
  match g.es[i]? with
  | some e => { g with es := g.es.eraseIdx i ++ [{ e with dst := new }] }
  | none => g

/-- the block "if v_on_…_bef_end is a Jump: vs_to_delete.add(...); in_edges = ….in_edges(); if len(in_edges) > 0:
_reconnect(in_edges[0] …)" -/
def bypassJump (g : BGraph) (del : List Nat) (j endV : Nat) : BGraph × List Nat :=
  if g.isJumpV j then
    match g.inIds j with
    | i :: _ => (g.reconnect i endV, del ++ [j])
    | [] => (g, del ++ [j])
  else (g, del)

/-- what `build_branches` does with one answer of `find_first_common_next_vertex_in_edges`, for if number `id`;
`g` already carries the IfStart marker and the else flag.  Errors: the answer names an edge that does not exist
(cannot happen with real answers, which are edge handles of `g`). -/
def applyAnswer (g : BGraph) (del : List Nat) (id : Nat) : Option (Nat × Nat) → Except String (BGraph × List Nat)
  | none => .ok (g, del)
  | some (ei, ee) =>
    match g.es[ei]?, g.es[ee]? with
    | some eIf, some eElse =>
      let endV := eIf.dst
      let vIf := eIf.src
      let vElse := eElse.src
      if !g.isLabelV endV then .ok (g, del)
      else if eIf.loop || eElse.loop || g.goesBack eIf || g.goesBack eElse then .ok (g, del)
      else
        let r := (g.addIfEnd endV id).bypassJump del vIf endV
        if ei == ee then .ok r
        else .ok (r.1.bypassJump r.2 vElse endV)
    | _, _ => .error "OracleEdgeMissing"

/-- the loop `for v in g.vs` of `build_branches`; `n` = `current_if_id + 1` -/
def buildGo : List Nat → List (Option (Nat × Nat)) → BGraph → List Nat → Nat → Except String (BGraph × List Nat)
  | [], _, g, del, _ => .ok (g, del)
  | v :: rest, answers, g, del, n =>
    if g.isBranchVertex v then
      -- current_if_id += 1  (its value is `n` from here on)
      match g.lowHigh v with
      | none => buildGo rest answers g del (n+1)           -- ValueError caught: `continue`
      | some (elseE, ifE) =>
        if elseE == ifE then .error "AssertionError"
        else if g.hasMarker v then .error "ValueError"
        else
          let g1 := (g.setIfStart v n).setElse elseE
          match answers with
          | [] => .error "OracleExhausted"
          | a :: answers' =>
            match g1.applyAnswer del n a with
            | .error e => .error e
            | .ok (g2, del2) => buildGo rest answers' g2 del2 (n+1)
    else buildGo rest answers g del n

/-- `g.delete_vertices(vs_to_delete)` -/
def deleteVs (g : BGraph) (del : List Nat) : BGraph :=
  { vs := (g.vs.zipIdx.filter fun p => !del.contains p.2).map (·.1),
    es := (g.es.filter fun e => !del.contains e.src && !del.contains e.dst).map fun e =>
      { e with src := renumber del e.src, dst := renumber del e.dst } }

end BGraph

/-- `build_branches` for one routine graph, given the answers of the search it calls -/
def buildBranches (answers : List (Option (Nat × Nat))) (g : BGraph) : Except String BGraph :=
  match BGraph.buildGo (List.range g.vs.length) answers g [] 0 with
  | .error e => .error e
  | .ok (g', del) => .ok (g'.deleteVs del)

/-- the vertices `build_branches` deletes at its end (for the harness: where vertex 0 goes) -/
def buildBranchesDeleted (answers : List (Option (Nat × Nat))) (g : BGraph) : List Nat :=
  match BGraph.buildGo (List.range g.vs.length) answers g [] 0 with
  | .error _ => []
  | .ok (_, del) => del

end ESV.Decomp
