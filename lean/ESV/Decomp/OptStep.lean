import ESV.Decomp.OptEdges
import ESV.Decomp.OptMorph
import ESV.Props.Tables
/-
(a) one application of the rule: `L` a label vertex whose out-edges lead to the Jump `v`, `v` has its only in-edge
from `L` and its only out-edge to the label vertex `ov`.  The graph with every edge target `L` renamed to `ov`
behaves like the graph before, from every vertex but `L` and `v`.
-/
namespace ESV.Decomp.Opt
open ESV.Beh ESV.Decomp

/-- out-edges of one label vertex have one target -/
def LS (g : Graph) : Prop :=
  ∀ e ∈ g.es, ∀ e' ∈ g.es, isLabelVertex g e.src = true → e.src = e'.src → e.dst = e'.dst

/-- the situation in which the rule fires -/
structure RuleCtx (g : Graph) (L v ov : Nat) : Prop where
  hL : isLabelVertex g L = true
  hv : isJumpVertex g v = true
  hov : isLabelVertex g ov = true
  inV : ∀ e ∈ g.es, e.dst = v → e.src = L
  edgeLv : ∃ e ∈ g.es, e.src = L ∧ e.dst = v
  outV : ∃ e ∈ g.es, e.src = v ∧ e.dst = ov ∧ ∀ e' ∈ g.es, e'.src = v → e' = e

theorem isLabelVertex_lt (g : Graph) (v : Nat) (h : isLabelVertex g v = true) : v < g.vs.length := by
  unfold isLabelVertex at h
  cases hv : g.vs[v]? with
  | none => simp [hv] at h
  | some x => exact (List.getElem?_eq_some_iff.mp hv).1

theorem isJumpVertex_lt (g : Graph) (v : Nat) (h : isJumpVertex g v = true) : v < g.vs.length := by
  unfold isJumpVertex at h
  cases hv : g.vs[v]? with
  | none => simp [hv] at h
  | some x => exact (List.getElem?_eq_some_iff.mp hv).1

theorem label_not_jump (g : Graph) (v : Nat) (h : isLabelVertex g v = true) : isJumpVertex g v = false := by
  unfold isLabelVertex at h
  unfold isJumpVertex
  split at h <;> simp_all

theorem stepE_label (g : Graph) (v : Nat) (h : isLabelVertex g v = true) : g.stepE v = .silent (g.fall v) := by
  unfold isLabelVertex at h
  unfold Graph.stepE
  split at h
  · rename_i heq; rw [heq]
  · exact absurd h (by simp)

theorem stepE_jump (g : Graph) (v : Nat) (h : isJumpVertex g v = true) :
    g.stepE v = .silent (g.jumpTarget v) := by
  unfold isJumpVertex at h
  unfold Graph.stepE
  split at h
  · rename_i root _ _ heq
    rw [heq]
    simp only
    have : isJump root.name = true := by
      unfold isJump; rw [← ESV.TableTie.op_jump_eq]; exact h
    rw [if_pos this]
  · exact absurd h (by simp)

namespace RuleCtx
variable {g : Graph} {L v ov : Nat}

theorem stepL (c : RuleCtx g L v ov) (hls : LS g) : g.stepE L = .silent v := by
  rw [stepE_label g L c.hL]
  obtain ⟨e, he, hs, hd⟩ := c.edgeLv
  rcases fall_cases g L with h | ⟨e', he', hs', hd'⟩
  · exfalso
    unfold Graph.fall at h
    rcases lowest_spec g L with ⟨_, hno⟩ | ⟨x, hx, hm, hsx, _⟩
    · exact hno e he hs
    · rw [hx] at h
      have hlt := isLabelVertex_lt g L c.hL
      -- the lowest edge is an edge of `L`, its target is `v`
      have : x.dst = v := by
        rw [← hd]; exact hls x hm e he (by rw [hsx]; exact c.hL) (by rw [hsx, hs])
      have hv := isJumpVertex_lt g v c.hv
      simp only [Graph.fellOff] at h
      omega
  · rw [← hd', ← hd]
    congr 1
    exact hls e' he' e he (by rw [hs']; exact c.hL) (by rw [hs', hs])

theorem stepV (c : RuleCtx g L v ov) : g.stepE v = .silent ov := by
  rw [stepE_jump g v c.hv]
  obtain ⟨e, he, hs, hd, huniq⟩ := c.outV
  unfold Graph.jumpTarget
  rcases highest_spec g v with ⟨_, hno⟩ | ⟨x, hx, hm, hsx, _⟩
  · exact absurd hs (hno e he)
  · rw [hx, huniq x hm hsx]; simp only [hd]

theorem ov_ne_v (c : RuleCtx g L v ov) : ov ≠ v := by
  intro h
  have := label_not_jump g ov c.hov
  rw [h, c.hv] at this
  exact absurd this (by simp)

theorem L_ne_v (c : RuleCtx g L v ov) : L ≠ v := by
  intro h
  have := label_not_jump g L c.hL
  rw [h, c.hv] at this
  exact absurd this (by simp)

theorem ov_ne_L (c : RuleCtx g L v ov) (hls : LS g) (hs : Settles g.ltsE) : ov ≠ L := by
  intro h
  have h1 := c.stepL hls
  have h2 := c.stepV
  rw [h] at h2
  obtain ⟨f, hf⟩ := hs L
  have := (not_settles_two_cycle g.ltsE L v h1 h2 f).1
  rw [this] at hf
  exact absurd hf (by simp)

theorem edgeCorr (g : Graph) (L ov b : Nat) : EdgeCorr g (stepGraph g L ov) b b (tgt L ov) := by
  constructor
  · intro e' he' hs
    obtain ⟨e, he, rfl⟩ := (mem_stepGraph_es g L ov e').mp he'
    exact ⟨e, he, hs, rfl, rfl⟩
  · intro e he hs
    exact ⟨_, (mem_stepGraph_es g L ov _).mpr ⟨e, he, rfl⟩, hs, rfl, rfl⟩

theorem isCtxVertex_step (g : Graph) (L ov a : Nat) :
    (stepGraph g L ov).isCtxVertex a = g.isCtxVertex a := by
  unfold Graph.isCtxVertex; rw [stepGraph_vs]

theorem afterCtxE_step (c : RuleCtx g L v ov) (a : Nat) (o : MOp) (ha : g.vs[a]? = some (.item (.op o))) :
    (stepGraph g L ov).afterCtxE a = g.afterCtxE a := by
  have haL : a ≠ L := by
    intro h; have := c.hL; unfold isLabelVertex at this; rw [← h, ha] at this; exact absurd this (by simp)
  have haov : a ≠ ov := by
    intro h; have := c.hov; unfold isLabelVertex at this; rw [← h, ha] at this; exact absurd this (by simp)
  unfold Graph.afterCtxE
  rw [Bool.eq_iff_iff, List.any_eq_true, List.any_eq_true]
  constructor
  · rintro ⟨e', he', hc⟩
    obtain ⟨e, he, rfl⟩ := (mem_stepGraph_es g L ov e').mp he'
    simp only [Bool.and_eq_true, beq_iff_eq] at hc
    rw [isCtxVertex_step] at hc
    have hd : e.dst ≠ L := by
      intro h; rw [h, tgt_self] at hc; exact haov hc.1.symm
    rw [tgt_ne _ _ _ hd] at hc
    exact ⟨e, he, by simp [hc.1, hc.2]⟩
  · rintro ⟨e, he, hc⟩
    simp only [Bool.and_eq_true, beq_iff_eq] at hc
    refine ⟨_, (mem_stepGraph_es g L ov _).mpr ⟨e, he, rfl⟩, ?_⟩
    simp only [Bool.and_eq_true, beq_iff_eq]
    rw [isCtxVertex_step, hc.1, tgt_ne _ _ _ haL]
    exact ⟨rfl, hc.2⟩

theorem stepE_step (c : RuleCtx g L v ov) (hld : LD g) (b : Nat) :
    (stepGraph g L ov).stepE b = mapStep (tgt L ov) (g.stepE b) := by
  have hlt := isLabelVertex_lt g L c.hL
  apply stepE_morph g (stepGraph g L ov) b b (tgt L ov) (by rw [stepGraph_vs]) (edgeCorr g L ov b) hld
  · unfold Graph.fellOff; rw [stepGraph_vs]; exact tgt_ne _ _ _ (by omega)
  · unfold Graph.stuck; rw [stepGraph_vs]; exact tgt_ne _ _ _ (by omega)
  · intro _; unfold Graph.fellOff; rw [stepGraph_vs]
  · intro o ho; exact c.afterCtxE_step b o ho

theorem collapse (c : RuleCtx g L v ov) (hld : LD g) (hls : LS g) (hs : Settles g.ltsE) :
    Collapse g.stepE (stepGraph g L ov).stepE L v ov where
  map := c.stepE_step hld
  stepL := c.stepL hls
  stepV := c.stepV
  ovL := c.ov_ne_L hls hs
  ovV := c.ov_ne_v
  noV := by
    intro b hb
    have hv := isJumpVertex_lt g v c.hv
    apply allSucc_stepE g b (fun s => s ≠ v)
    · unfold Graph.fellOff; omega
    · unfold Graph.stuck; omega
    · intro e he hs hd
      exact hb (by rw [← hs]; exact c.inV e he hd)
  stepOv := ⟨_, stepE_label g ov c.hov⟩

/-- **(a)** the single-step theorem -/
theorem equiv (c : RuleCtx g L v ov) (hld : LD g) (hls : LS g) (hs : Settles g.ltsE) (a : Nat)
    (haL : a ≠ L) (haV : a ≠ v) : Equivalent g.ltsE (stepGraph g L ov).ltsE a a :=
  equiv_of_collapse g.stepE (stepGraph g L ov).stepE L v ov (c.collapse hld hls hs) a haL haV

theorem settles (c : RuleCtx g L v ov) (hld : LD g) (hls : LS g) (hs : Settles g.ltsE) :
    Settles (stepGraph g L ov).ltsE :=
  settles_of_collapse g.stepE (stepGraph g L ov).stepE L v ov (c.collapse hld hls hs) hs

end RuleCtx

end ESV.Decomp.Opt
