import ESV.Decomp.GraphOkInv
import ESV.Decomp.GraphFinal
import ESV.Decomp.SemE
/-
What a finished base graph looks like: the final invariants packaged, the shape of the successor list `nextFor`
returns, and the length of `outEdges`.
-/
namespace ESV.Decomp
open ESV.Beh

/-- the facts about a finished base graph of a non-empty routine -/
theorem baseGraph_final (labels : List Lbl) (opt : Bool) (rid : Nat) (items : List Item) (g : Graph)
    (hg : baseGraph labels opt rid items = .ok g) (hpos : 0 < items.length) :
    ∃ visited, Final labels opt rid items visited g ∧ 0 ∈ visited ∧ CountOk labels opt rid items g := by
  unfold baseGraph at hg
  rw [if_neg (by omega)] at hg
  have hinit : Inv labels opt rid items [] [(0, 0)] ⟨items.map .item, []⟩ := by
    refine ⟨⟨[], by simp, by simp⟩, ?_, ?_, ?_, ?_⟩
    · intro k hk; simp [keys] at hk
    · intro i hi; simp at hi
    · intro k hk; simp [keys] at hk
    · exact Or.inr (Or.inr ⟨0, by simp⟩)
  have hinit2 : Inv2 labels opt rid items [] ⟨items.map .item, []⟩ := by
    refine ⟨?_, ?_⟩
    · intro k hk; simp [keys] at hk
    · intro i; exact ⟨[], by simp [outKeys, keys], Or.inl rfl⟩
  obtain ⟨visited, hinv⟩ := explore_inv labels opt rid items _ _ _ _ g hinit hg
  have hc := explore_inv2 labels opt rid items _ _ _ _ g hinit2 hg
  have F := hinv.final
  refine ⟨visited, F, ?_, hc⟩
  rcases hinv.zero with h | h | ⟨l, h⟩
  · exact h
  · have hi : items[0]? = some items[0] := by simp [hpos]
    have := F.vs_item 0 _ hi
    simp [isForeignV, this] at h
  · simp at h

theorem mem_outKeys (g : Graph) (i l d : Nat) : (i, l, d) ∈ outKeys g i ↔ (i, l, d) ∈ keys g := by
  simp [outKeys]

/-- what `CountOk` says about one edge -/
theorem CountOk.edge {labels : List Lbl} {opt : Bool} {rid : Nat} {items : List Item} {g : Graph}
    (C : CountOk labels opt rid items g) (s l d : Nat) (hk : (s, l, d) ∈ keys g) :
    ∃ S lv g0 g1, nextFor labels opt rid items g0 lv s = .ok (S, g1) ∧ (l, d) ∈ S ∧
      outKeys g s = S.map (fun p => (s, p.1, p.2)) ∧ g1.vs <+: g.vs := by
  obtain ⟨S, h1, h2⟩ := C s
  have hm := (mem_outKeys g s l d).mpr hk
  rw [h1] at hm
  obtain ⟨p, hp, hpe⟩ := List.mem_map.mp hm
  simp only [Prod.mk.injEq, true_and] at hpe
  obtain ⟨rfl, rfl⟩ := hpe
  rcases h2 with h2 | ⟨lv, g0, g1, h2, h3⟩
  · subst h2; simp at hp
  · exact ⟨S, lv, g0, g1, h2, hp, h1, h3⟩

theorem holdF_label (opt : Bool) (items : List Item) (lv i : Nat) (prev : Item) (id : Nat) : holdF opt items lv i prev (.label id) = [] := by
  unfold holdF
  rw [if_neg]
  intro h
  simp only [Bool.and_eq_true, beq_iff_eq] at h
  rw [ESV.TableTie.op_hold_eq, realName_label] at h
  exact labelName_ne id _ (by decide) h.1.1

theorem n1F_length (opt : Bool) (items : List Item) (lv i : Nat) (prev it : Item) :
    (n1F opt items lv i prev it).length ≤ 1 := by
  unfold n1F; split <;> simp

/-- the successor list of an item: fall-through entries `(lv, i+1)` and, for a label jump only, jump entries
`(lv+1, t)` with one target `t`, a label position or the index of a fresh foreign vertex -/
theorem nextFor_shape (labels : List Lbl) (opt : Bool) (rid : Nat) (items : List Item) (g0 g1 : Graph)
    (lv i : Nat) (S : List (Nat × Nat)) (h : nextFor labels opt rid items g0 lv i = .ok (S, g1)) :
    ∃ it, items[i]? = some it ∧ ∃ T : Option Nat,
      (∀ l d, (l, d) ∈ S → (l = lv ∧ d = i + 1 ∧ i + 1 < items.length) ∨ (l = lv + 1 ∧ T = some d)) ∧
      (∀ t, T = some t → ∃ r lid c, it = .ljump r lid c ∧
        ((labelIndex items lid = some t) ∨ (t = g0.vs.length ∧ g1.vs = g0.vs ++ [.foreign lid]))) := by
  obtain ⟨prev, it, hp, hi⟩ := nextFor_none labels opt rid items g0 lv i S g1 h
  refine ⟨it, hi, ?_⟩
  have fallCase : ∀ l d, ((l, d) ∈ n1F opt items lv i prev it ∨ (l, d) ∈ holdF opt items lv i prev it) →
      (l = lv ∧ d = i + 1 ∧ i + 1 < items.length) := by
    intro l d hm
    rcases hm with hm | hm
    · have := n1F_mem _ _ _ _ _ _ _ hm; simp only [Prod.mk.injEq] at this; exact ⟨this.1.1, this.1.2, this.2⟩
    · have := holdF_mem _ _ _ _ _ _ _ hm; simp only [Prod.mk.injEq] at this; exact ⟨this.1.1, this.1.2, this.2⟩
  cases it with
  | op o =>
    have hS := nextFor_op labels opt rid items g0 g1 lv i S prev o hp hi h
    refine ⟨none, ?_, by simp⟩
    intro l d hm
    rw [hS] at hm
    exact Or.inl (fallCase l d (List.mem_append.mp hm))
  | label id =>
    have hS := nextFor_label labels opt rid items g0 g1 lv i S prev id hp hi h
    refine ⟨none, ?_, by simp⟩
    intro l d hm
    rw [hS] at hm
    exact Or.inl (fallCase l d (List.mem_append.mp hm))
  | ljump r lid c =>
    obtain ⟨lb, hf, hcase⟩ := nextFor_ljump labels opt rid items g0 g1 lv i S prev r lid c hp hi h
    have mem3 : ∀ (t l d : Nat), (l, d) ∈ n1F opt items lv i prev (.ljump r lid c) ++ [(lv + 1, t)] ++
        holdF opt items lv i prev (.ljump r lid c) →
        (l = lv ∧ d = i + 1 ∧ i + 1 < items.length) ∨ (l = lv + 1 ∧ some t = some d) := by
      intro t l d hm
      rcases List.mem_append.mp hm with hm | hm
      · rcases List.mem_append.mp hm with hm | hm
        · exact Or.inl (fallCase l d (Or.inl hm))
        · simp only [List.mem_singleton, Prod.mk.injEq] at hm
          exact Or.inr ⟨hm.1, by rw [hm.2]⟩
      · exact Or.inl (fallCase l d (Or.inr hm))
    rcases hcase with ⟨_, li, hli, hS⟩ | ⟨_, hS, hg1⟩
    · refine ⟨some li, ?_, ?_⟩
      · intro l d hm; rw [hS] at hm; exact mem3 li l d hm
      · intro t ht; simp only [Option.some.injEq] at ht; subst ht
        exact ⟨r, lid, c, rfl, Or.inl hli⟩
    · refine ⟨some g0.vs.length, ?_, ?_⟩
      · intro l d hm; rw [hS] at hm; exact mem3 _ l d hm
      · intro t ht; simp only [Option.some.injEq] at ht; subst ht
        exact ⟨r, lid, c, rfl, Or.inr ⟨rfl, hg1⟩⟩

/-- a label gets at most one successor -/
theorem nextFor_label_length (labels : List Lbl) (opt : Bool) (rid : Nat) (items : List Item) (g0 g1 : Graph)
    (lv i : Nat) (S : List (Nat × Nat)) (id : Nat) (hi : items[i]? = some (.label id))
    (h : nextFor labels opt rid items g0 lv i = .ok (S, g1)) : S.length ≤ 1 := by
  obtain ⟨prev, it, hp, hi'⟩ := nextFor_none labels opt rid items g0 lv i S g1 h
  have hS := nextFor_label labels opt rid items g0 g1 lv i S prev id hp hi h
  rw [hS, holdF_label, List.append_nil]
  exact n1F_length _ _ _ _ _ _

/-! length of `outEdges` -/

theorem length_insertBy {α} (lt : α → α → Bool) (x : α) (l : List α) :
    (insertBy lt x l).length = l.length + 1 := by
  induction l with
  | nil => simp [insertBy]
  | cons y ys ih =>
    unfold insertBy
    split
    · simp
    · simp [ih]

theorem length_sortBy {α} (lt : α → α → Bool) (l : List α) : (sortBy lt l).length = l.length := by
  induction l with
  | nil => simp [sortBy]
  | cons z zs ih =>
    have : sortBy lt (z :: zs) = insertBy lt z (sortBy lt zs) := rfl
    rw [this, length_insertBy, ih]; simp

theorem length_outEdges (g : Graph) (v : Nat) : (outEdges g v).length = (outKeys g v).length := by
  unfold outEdges outKeys keys
  simp only [length_sortBy, List.length_map]
  rw [List.filter_map, List.length_map]
  have h1 : g.es.filter ((fun k : Nat × Nat × Nat => k.1 == v) ∘ ekey) = g.es.filter (fun e => e.src == v) := rfl
  rw [h1]
  have h2 : g.es.filter (fun e => e.src == v) =
      (g.es.zipIdx.filter (fun p => p.1.src == v)).map (·.1) := by
    conv => lhs; rw [← List.zipIdx_map_fst 0 g.es]
    rw [List.filter_map]; rfl
  rw [h2, List.length_map]

end ESV.Decomp
