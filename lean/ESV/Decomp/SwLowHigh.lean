import ESV.Decomp.SwEndStep
/-
`find_lowest_and_highest_out_edge` (`lowHigh`): the two positions hold out-edges of minimal / maximal flow level, and they
differ only if the levels differ (both are the FIRST such edge in igraph's order).
-/
namespace ESV.Decomp.Sw
open ESV.Beh ESV.Decomp ESV.Decomp.Opt ESV.Decomp.Gr

theorem mem_outIds (g : BGraph) (v i : Nat) : i ∈ g.outIds v ↔ ∃ e, g.es[i]? = some e ∧ e.src = v := by
  unfold BGraph.outIds outEdgeIds
  simp only [List.mem_map]
  constructor
  · rintro ⟨⟨k, e⟩, hm, rfl⟩
    obtain ⟨h1, h2⟩ := (mem_outEdges g.toGraph v k e).mp hm
    rw [Br.toGraph_es_get] at h1
    cases hb : g.es[k]? with
    | none => rw [hb] at h1; cases h1
    | some b => rw [hb] at h1; simp at h1; subst h1; exact ⟨b, rfl, h2⟩
  · rintro ⟨b, hb, hs⟩
    exact ⟨(i, b.toEdge), (mem_outEdges g.toGraph v i _).mpr ⟨by rw [Br.toGraph_es_get, hb]; rfl, hs⟩, rfl⟩

def minStep (g : BGraph) (m j : Nat) : Nat := if g.levelOf j < g.levelOf m then j else m
def maxStep (g : BGraph) (m j : Nat) : Nat := if g.levelOf j > g.levelOf m then j else m

theorem foldMin_spec (g : BGraph) : ∀ (l : List Nat) (m0 : Nat),
    (l.foldl (minStep g) m0 ∈ m0 :: l) ∧ (∀ j ∈ m0 :: l, g.levelOf (l.foldl (minStep g) m0) ≤ g.levelOf j) ∧
    ((∀ j ∈ l, g.levelOf m0 ≤ g.levelOf j) → l.foldl (minStep g) m0 = m0)
  | [], m0 => by simp
  | x :: xs, m0 => by
    obtain ⟨h1, h2, h3⟩ := foldMin_spec g xs (minStep g m0 x)
    simp only [List.foldl_cons]
    have hm : minStep g m0 x = m0 ∨ minStep g m0 x = x := by unfold minStep; split <;> simp
    have hle : g.levelOf (minStep g m0 x) ≤ g.levelOf m0 ∧ g.levelOf (minStep g m0 x) ≤ g.levelOf x := by
      unfold minStep; split <;> omega
    refine ⟨?_, ?_, ?_⟩
    · rcases List.mem_cons.mp h1 with h | h
      · rw [h]; rcases hm with h' | h' <;> simp [h']
      · simp [h]
    · intro j hj
      rcases List.mem_cons.mp hj with h | h
      · subst h; exact Nat.le_trans (h2 _ (List.mem_cons_self ..)) hle.1
      · rcases List.mem_cons.mp h with h | h
        · subst h; exact Nat.le_trans (h2 _ (List.mem_cons_self ..)) hle.2
        · exact h2 j (List.mem_cons_of_mem _ h)
    · intro hall
      have hx := hall x (List.mem_cons_self ..)
      have : minStep g m0 x = m0 := by unfold minStep; rw [if_neg (by omega)]
      rw [this] at h3 ⊢
      exact h3 fun j hj => hall j (List.mem_cons_of_mem _ hj)

theorem foldMax_spec (g : BGraph) : ∀ (l : List Nat) (m0 : Nat),
    (l.foldl (maxStep g) m0 ∈ m0 :: l) ∧ (∀ j ∈ m0 :: l, g.levelOf j ≤ g.levelOf (l.foldl (maxStep g) m0)) ∧
    ((∀ j ∈ l, g.levelOf j ≤ g.levelOf m0) → l.foldl (maxStep g) m0 = m0)
  | [], m0 => by simp
  | x :: xs, m0 => by
    obtain ⟨h1, h2, h3⟩ := foldMax_spec g xs (maxStep g m0 x)
    simp only [List.foldl_cons]
    have hm : maxStep g m0 x = m0 ∨ maxStep g m0 x = x := by unfold maxStep; split <;> simp
    have hle : g.levelOf m0 ≤ g.levelOf (maxStep g m0 x) ∧ g.levelOf x ≤ g.levelOf (maxStep g m0 x) := by
      unfold maxStep; split <;> omega
    refine ⟨?_, ?_, ?_⟩
    · rcases List.mem_cons.mp h1 with h | h
      · rw [h]; rcases hm with h' | h' <;> simp [h']
      · simp [h]
    · intro j hj
      rcases List.mem_cons.mp hj with h | h
      · subst h; exact Nat.le_trans hle.1 (h2 _ (List.mem_cons_self ..))
      · rcases List.mem_cons.mp h with h | h
        · subst h; exact Nat.le_trans hle.2 (h2 _ (List.mem_cons_self ..))
        · exact h2 j (List.mem_cons_of_mem _ h)
    · intro hall
      have hx := hall x (List.mem_cons_self ..)
      have : maxStep g m0 x = m0 := by unfold maxStep; rw [if_neg (by omega)]
      rw [this] at h3 ⊢
      exact h3 fun j hj => hall j (List.mem_cons_of_mem _ hj)

theorem levelOf_eq (g : BGraph) (i : Nat) (e : BEdge) (h : g.es[i]? = some e) : g.levelOf i = e.level := by
  unfold BGraph.levelOf; rw [h]

theorem lowHigh_spec (g : BGraph) (w lo hi : Nat) (h : g.lowHigh w = some (lo, hi)) :
    ∃ el eh, g.es[lo]? = some el ∧ g.es[hi]? = some eh ∧ el.src = w ∧ eh.src = w ∧
      (∀ e ∈ g.es, e.src = w → el.level ≤ e.level ∧ e.level ≤ eh.level) ∧ (lo ≠ hi → el.level < eh.level) := by
  unfold BGraph.lowHigh at h
  cases hl : g.outIds w with
  | nil => rw [hl] at h; simp [BGraph.firstMin] at h
  | cons i0 rest =>
    rw [hl] at h
    simp only [BGraph.firstMin, BGraph.firstMax, Option.some.injEq, Prod.mk.injEq] at h
    obtain ⟨hlo, hhi⟩ := h
    obtain ⟨m1, m2, m3⟩ := foldMin_spec g rest i0
    obtain ⟨x1, x2, x3⟩ := foldMax_spec g rest i0
    change rest.foldl (minStep g) i0 = lo at hlo
    change rest.foldl (maxStep g) i0 = hi at hhi
    rw [hlo] at m1 m2 m3
    rw [hhi] at x1 x2 x3
    obtain ⟨el, hel, hels⟩ := (mem_outIds g w lo).mp (by rw [hl]; exact m1)
    obtain ⟨eh, heh, hehs⟩ := (mem_outIds g w hi).mp (by rw [hl]; exact x1)
    refine ⟨el, eh, hel, heh, hels, hehs, ?_, ?_⟩
    · intro e he hs
      obtain ⟨k, hk⟩ := List.getElem?_of_mem he
      have hkm : k ∈ i0 :: rest := by rw [← hl]; exact (mem_outIds g w k).mpr ⟨e, hk, hs⟩
      have a1 := m2 k hkm
      have a2 := x2 k hkm
      rw [levelOf_eq g lo el hel, levelOf_eq g k e hk] at a1
      rw [levelOf_eq g hi eh heh, levelOf_eq g k e hk] at a2
      exact ⟨a1, a2⟩
    · intro hne
      rcases Nat.lt_or_ge el.level eh.level with hlt | hge
      · exact hlt
      · exfalso
        -- all levels are equal: both folds return the head
        have hall : ∀ j ∈ i0 :: rest, g.levelOf j = el.level := by
          intro j hj
          have a1 := m2 j hj
          have a2 := x2 j hj
          rw [levelOf_eq g lo el hel] at a1
          rw [levelOf_eq g hi eh heh] at a2
          omega
        have h0 := hall i0 (List.mem_cons_self ..)
        have e1 : lo = i0 := m3 fun j hj => by rw [h0, hall j (List.mem_cons_of_mem _ hj)]; exact Nat.le_refl _
        have e2 : hi = i0 := x3 fun j hj => by rw [h0, hall j (List.mem_cons_of_mem _ hj)]; exact Nat.le_refl _
        exact hne (by rw [e1, e2])

end ESV.Decomp.Sw
