import ESV.Decomp.Model
/-
Semantics of the two intermediate forms of the decompiler's front phases, as labelled transition systems
over the same events as the SSB machine (ESV.Beh.Machine), and the well-formedness predicate of the
routine sets properties C02/C06 quantify over (the part the front phases need).
-/
namespace ESV.Decomp
open ESV.Beh

/-! ## well-formed routine sets (front-phase part of the quantifier of C02/C06) -/

def allOps (rs : List (List MOp)) : List MOp := rs.flatMap id

/-- offsets increase through the file, starting at or after 0 (as a binary reader numbers them) -/
def offsetsIncreasing : List Int → Bool
  | [] => true
  | [a] => decide (0 ≤ a)
  | a :: b :: rest => decide (0 ≤ a) && decide (a < b) && offsetsIncreasing (b :: rest)

/-- a jump-carrying op has its target as last parameter (C03), at the index the repository table
declares, and the target is the offset of an op of the set -/
def jumpOk (offs : List Int) (o : MOp) : Bool :=
  match jumpIndex o.name with
  | none => true
  | some idx =>
    idx + 1 == o.params.length &&
    match o.params[idx]? with
    | some (.int t) => offs.contains t
    | _ => false

def wfSet (rs : List (List MOp)) : Bool :=
  let offs := (allOps rs).map (·.off)
  offsetsIncreasing offs && (allOps rs).all (jumpOk offs)

/-! ## the labelled machine: meaning of the resolver's output -/

structure FItem where
  rtn : Nat
  it : Item
deriving Repr

def flattenItems (rtns : List (List Item)) : Array FItem :=
  (rtns.zipIdx.flatMap fun (its, r) => its.map fun i => ⟨r, i⟩).toArray

structure LMachine where
  items : Array FItem

namespace LMachine

def fellOff (m : LMachine) : Nat := m.items.size
def stuck (m : LMachine) : Nat := m.items.size + 1

def labelPos (m : LMachine) (lid : Nat) : Nat :=
  match m.items.findIdx? (fun f => match f.it with | .label i => i == lid | _ => false) with
  | some i => i
  | none => m.stuck

def next (m : LMachine) (i r : Nat) : Nat :=
  match m.items[i+1]? with
  | some f => if f.rtn == r then i + 1 else m.fellOff
  | none => m.fellOff

/-- the previous item of the same routine that is not a label is a context op -/
def afterCtx (m : LMachine) : Nat → Nat → Bool
  | 0, _ => false
  | j+1, r =>
    match m.items[j]? with
    | some f =>
      if f.rtn != r then false
      else match f.it with
        | .label _ => afterCtx m j r
        | .op o => isCtx o.name
        | .ljump _ _ _ => false
    | none => false

def step (m : LMachine) (i : Nat) : Step Nat Ev :=
  match m.items[i]? with
  | none => if i == m.fellOff then .halt evReturn else .halt evStuck
  | some f =>
    match f.it with
    | .label _ => .silent (m.next i f.rtn)
    | .ljump root lid _ =>
      if isJump root.name then .silent (m.labelPos lid)
      else .test ⟨root.name, root.params⟩ (m.labelPos lid) (m.next i f.rtn)
    | .op o =>
      if endsFlow o.name && !m.afterCtx i f.rtn then .halt ⟨o.name, o.params⟩
      else .emit ⟨o.name, o.params⟩ (m.next i f.rtn)

def lts (m : LMachine) : LTS Ev := ⟨Nat, m.step⟩

def entry (m : LMachine) (r : Nat) : Nat :=
  match m.items.findIdx? (fun f => f.rtn == r) with
  | some i => i
  | none => m.fellOff

end LMachine

def Resolved.machine (r : Resolved) : LMachine := ⟨flattenItems r.rtns⟩

/-! ## one routine in isolation: leaving the routine through a label of another routine is a final event -/

def evForeign (lid : Nat) : Ev := ⟨"!FOREIGN", [.int lid]⟩

/-- meaning of the item list of routine `rid` alone (positions `0 … len`, `len` = fell off, `len+1` = stuck) -/
structure RMachine where
  labels : List Lbl
  rid : Nat
  items : List Item

namespace RMachine

def fellOff (m : RMachine) : Nat := m.items.length
def stuck (m : RMachine) : Nat := m.items.length + 1

def next (m : RMachine) (i : Nat) : Nat := if i + 1 < m.items.length then i + 1 else m.fellOff

def afterCtx (m : RMachine) : Nat → Bool
  | 0 => false
  | j+1 =>
    match m.items[j]? with
    | some (.label _) => afterCtx m j
    | some (.op o) => isCtx o.name
    | _ => false

/-- where a label jump goes: `inl pos` inside the routine, `inr lid` a label of another routine -/
def target (m : RMachine) (lid : Nat) : Option (Nat ⊕ Nat) :=
  match m.labels.find? fun l => l.id == lid with
  | none => none
  | some l =>
    if l.rtn == m.rid then (labelIndex m.items lid).map .inl
    else some (.inr lid)

def step (m : RMachine) (i : Nat) : Step Nat Ev :=
  match m.items[i]? with
  | none => if i == m.fellOff then .halt evReturn else .halt evStuck
  | some (.label _) => .silent (m.next i)
  | some (.ljump root lid _) =>
    match m.target lid with
    | none => .halt evStuck
    | some (.inr l) =>
      -- leaving the routine: a Jump leaves for good, a test leaves when taken
      if isJump root.name then .halt (evForeign l)
      else .test ⟨root.name, root.params⟩ (m.items.length + 2 + l) (m.next i)
    | some (.inl p) =>
      if isJump root.name then .silent p
      else .test ⟨root.name, root.params⟩ p (m.next i)
  | some (.op o) =>
    if endsFlow o.name && !m.afterCtx i then .halt ⟨o.name, o.params⟩
    else .emit ⟨o.name, o.params⟩ (m.next i)

/-- states `len + 2 + l`: "has left for label `l` of another routine" -/
def stepAll (m : RMachine) (i : Nat) : Step Nat Ev :=
  if i ≥ m.items.length + 2 then .halt (evForeign (i - (m.items.length + 2))) else m.step i

def lts (m : RMachine) : LTS Ev := ⟨Nat, m.stepAll⟩

end RMachine

/-! ## meaning of a base graph: ops by kind, successors read off the edges -/

namespace Graph

/-- targets of the out-edges of `v` with the lowest / highest flow level (first in igraph order) -/
def lowest (g : Graph) (v : Nat) : Option Edge :=
  ((outEdges g v).map (·.2)).foldl (fun acc e => match acc with
    | none => some e
    | some a => if e.level < a.level then some e else some a) none

def highest (g : Graph) (v : Nat) : Option Edge :=
  ((outEdges g v).map (·.2)).foldl (fun acc e => match acc with
    | none => some e
    | some a => if e.level > a.level then some e else some a) none

def fellOff (g : Graph) : Nat := g.vs.length
def stuck (g : Graph) : Nat := g.vs.length + 1

/-- fall-through successor of a plain op or label: its (lowest) out-edge, running off the routine if none -/
def fall (g : Graph) (v : Nat) : Nat :=
  match g.lowest v with
  | some e => e.dst
  | none => g.fellOff

/-- a label jump has its jump edge one level above its fall-through edge; a single edge is the jump edge -/
def jumpTarget (g : Graph) (v : Nat) : Nat :=
  match g.highest v with
  | some e => e.dst
  | none => g.stuck

def fallOfJump (g : Graph) (v : Nat) : Nat :=
  match g.lowest v, g.highest v with
  | some lo, some hi => if lo.level < hi.level then lo.dst else g.fellOff
  | _, _ => g.fellOff

def afterCtx (g : Graph) : Nat → Bool
  | 0 => false
  | j+1 =>
    match g.vs[j]? with
    | some (.item (.label _)) => afterCtx g j
    | some (.item (.op o)) => isCtx o.name
    | _ => false

def step (g : Graph) (v : Nat) : Step Nat Ev :=
  match g.vs[v]? with
  | none => if v == g.fellOff then .halt evReturn else .halt evStuck
  | some (.foreign lid) => .halt (evForeign lid)
  | some (.item (.label _)) => .silent (g.fall v)
  | some (.item (.ljump root _ _)) =>
    if isJump root.name then .silent (g.jumpTarget v)
    else .test ⟨root.name, root.params⟩ (g.jumpTarget v) (g.fallOfJump v)
  | some (.item (.op o)) =>
    if endsFlow o.name && !g.afterCtx v then .halt ⟨o.name, o.params⟩
    else .emit ⟨o.name, o.params⟩ (g.fall v)

def lts (g : Graph) : LTS Ev := ⟨Nat, g.step⟩

end Graph

/-- the flow analysis of `_get_edges__get_next_for` looks at the item directly before an op, labels included:
an op that ends the flow, sits behind a context op and is also a jump target (a label stands between the two)
gets no fall-through edge; and an op that "will jump guaranteed" (JumpCommon) never gets one, also directly behind a
context op, where the machine of C01/C02 lets no op stop the routine.  The graph theorem is stated for routines
without these two shapes: directly behind a context op stands neither a label nor a guaranteed-jump op. -/
def ctxGuard : List Item → Bool
  | .op o :: nx :: rest =>
    (!isCtx o.name || (match nx with
      | .label _ => false
      | .op o' => !ESV.Spec.opsJumpGuaranteed.contains o'.name
      | .ljump _ _ _ => true)) && ctxGuard (nx :: rest)
  | _ :: rest => ctxGuard rest
  | [] => true

def itemNameOk : Item → Bool
  | .op o => !isJump o.name
  | .ljump r _ _ => isJump r.name || !ESV.Spec.opsEndFlow.contains r.name
  | .label _ => true

/-- a plain op is not called Jump (a Jump always carries its target, the resolver turns it into a label
jump); the root of a label jump is Jump or an op that does not end the flow (Branch*, Case*, Call) -/
def namesGuard (items : List Item) : Bool := items.all itemNameOk

end ESV.Decomp
