import ESV.Decomp.OptInv
/-
(d) composition along the loop of `optimize_paths`, and the final deletion at vertex 0.
-/
namespace ESV.Decomp.Opt
open ESV.Beh ESV.Decomp

theorem isLabelV_isLabelVertex (labels : List Lbl) (g : Graph) (v : Nat) (l : Lbl)
    (h : isLabelV labels g v = some l) : isLabelVertex g v = true := by
  unfold isLabelV at h
  unfold isLabelVertex
  split at h
  · rfl
  · exact absurd h (by simp)

/-- what `jumpAfterLabel` returns: nothing changed, or the rule was applied in a `RuleCtx` -/
theorem jumpAfterLabel_spec (g : Graph) (v i : Nat) (e : Edge) (g' : Graph) (d : List Nat)
    (hv : isJumpVertex g v = true) (hin : inEdgeIds g v = [i]) (hei : g.es[i]? = some e)
    (hL : isLabelVertex g e.src = true) (h : jumpAfterLabel g v e.src = some (g', d)) :
    (g' = g ∧ d = []) ∨
    (∃ ov, RuleCtx g e.src v ov ∧ g' = stepGraph g e.src ov ∧ d = [v, e.src]) := by
  unfold jumpAfterLabel at h
  split at h
  · rename_i o ho
    split at h
    · rename_i eo heo
      split at h
      · rename_i hov
        right
        simp only [Option.some.injEq, Prod.mk.injEq] at h
        obtain ⟨rfl, rfl⟩ := h
        obtain ⟨hd, huniq⟩ := inEdge_unique g v i e hin hei
        obtain ⟨hs, houniq⟩ := outEdge_unique g v o eo ho heo
        refine ⟨eo.dst, ⟨hL, hv, hov, ?_, ?_, ?_⟩, rfl, rfl⟩
        · intro e' he' hd'; rw [huniq e' he' hd']
        · exact ⟨e, List.mem_of_getElem? hei, rfl, hd⟩
        · exact ⟨eo, List.mem_of_getElem? heo, hs, rfl, houniq⟩
      · left
        simp only [Option.some.injEq, Prod.mk.injEq] at h
        exact ⟨h.1.symm, h.2.symm⟩
    · exact absurd h (by simp)
  · exact absurd h (by simp)

theorem optimizeGo_preserves (labels : List Lbl) :
    ∀ (todo : List Nat) (g : Graph) (del : List Nat) (gf : Graph) (delf : List Nat),
      Inv g del todo → optimizeGo labels todo g del = .ok (gf, delf) →
      Inv gf delf [] ∧ Equivalent g.ltsE gf.ltsE (0 : Nat) (0 : Nat) := by
  intro todo
  induction todo with
  | nil =>
    intro g del gf delf hinv h
    unfold optimizeGo at h
    simp only [Except.ok.injEq, Prod.mk.injEq] at h
    obtain ⟨rfl, rfl⟩ := h
    exact ⟨hinv, Equivalent.refl _ _⟩
  | cons v rest ih =>
    intro g del gf delf hinv h
    have skip : optimizeGo labels rest g del = .ok (gf, delf) →
        Inv gf delf [] ∧ Equivalent g.ltsE gf.ltsE (0 : Nat) (0 : Nat) :=
      fun h' => ih g del gf delf hinv.tail h'
    unfold optimizeGo at h
    split at h
    · rename_i hv
      split at h
      · rename_i i hin
        split at h
        · rename_i e hei
          split at h
          · rename_i l hl
            split at h
            · rename_i hcond
              split at h
              · rename_i g' d hjal
                have hL := isLabelV_isLabelVertex labels g e.src l hl
                have hL0 : e.src ≠ 0 := by
                  simp only [Bool.and_eq_true, bne_iff_ne] at hcond
                  exact hcond.2
                rcases jumpAfterLabel_spec g v i e g' d hv hin hei hL hjal with ⟨rfl, rfl⟩ | ⟨ov, c, rfl, rfl⟩
                · rw [List.append_nil] at h; exact skip h
                · obtain ⟨hinv', heq⟩ := hinv.step c hL0
                  obtain ⟨hf, heq'⟩ := ih _ _ gf delf hinv' h
                  exact ⟨hf, Equivalent.trans heq heq'⟩
              · exact absurd h (by simp)
            · exact skip h
          · exact skip h
        · exact skip h
      · exact skip h
    · exact skip h

theorem renumber_zero (del : List Nat) : renumber del 0 = 0 := rfl

/-- **`optimize_paths` preserves behaviour** -/
theorem optimizePaths_preserves' (labels : List Lbl) (g g' : Graph) (hok : graphOk g = true)
    (hns : noSilentCycle g = true) (h : optimizePaths labels g = .ok g') :
    Equivalent g.ltsE g'.ltsE (0 : Nat) (0 : Nat) := by
  unfold optimizePaths at h
  split at h
  · exact absurd h (by simp)
  · rename_i gf delf hgo
    simp only [Except.ok.injEq] at h
    subst h
    obtain ⟨hinv, heq⟩ := optimizeGo_preserves labels _ g [] gf delf (Inv.init g hok hns) hgo
    have := deleteVertices_equiv gf delf hinv.delOk 0 hinv.zero
    rw [renumber_zero] at this
    exact Equivalent.trans heq this

end ESV.Decomp.Opt
