import ESV.Decomp.GrOrder
import ESV.Decomp.OptMorph
/-
`stepE` read off the out-edges as a LIST: if the out-edges of `a'` in `g'`, in igraph's order, are those of `a` in `g`
with the targets renamed by `ρ` (levels kept), the vertex attribute is the same and "behind a context op" agrees, then
`g'.stepE a' = mapStep ρ (g.stepE a)`.  (The set-based form `stepE_morph` needs one target per flow level.)
-/
namespace ESV.Decomp.Gr
open ESV.Beh ESV.Decomp ESV.Decomp.Opt

/-- an edge after a renaming of the vertices: source `a'`, target `ρ` of the old one -/
def renE (a' : Nat) (ρ : Nat → Nat) (e : Edge) : Edge := { e with src := a', dst := ρ e.dst }

theorem foldl_pickLow_map (f : Edge → Edge) (hl : ∀ e, (f e).level = e.level) (l : List Edge) (acc : Option Edge) :
    (l.map f).foldl pickLow (acc.map f) = (l.foldl pickLow acc).map f := by
  induction l generalizing acc with
  | nil => rfl
  | cons x xs ih =>
    simp only [List.map_cons, List.foldl_cons]
    have : pickLow (acc.map f) (f x) = (pickLow acc x).map f := by
      cases acc with
      | none => rfl
      | some a => simp only [pickLow, Option.map_some, hl]; split <;> rfl
    rw [this, ih]

theorem foldl_pickHigh_map (f : Edge → Edge) (hl : ∀ e, (f e).level = e.level) (l : List Edge) (acc : Option Edge) :
    (l.map f).foldl pickHigh (acc.map f) = (l.foldl pickHigh acc).map f := by
  induction l generalizing acc with
  | nil => rfl
  | cons x xs ih =>
    simp only [List.map_cons, List.foldl_cons]
    have : pickHigh (acc.map f) (f x) = (pickHigh acc x).map f := by
      cases acc with
      | none => rfl
      | some a => simp only [pickHigh, Option.map_some, hl]; split <;> rfl
    rw [this, ih]

theorem lowest_outL (g g' : Graph) (a a' : Nat) (ρ : Nat → Nat) (h : outL g' a' = (outL g a).map (renE a' ρ)) :
    g'.lowest a' = (g.lowest a).map (renE a' ρ) := by
  rw [lowest_eq, lowest_eq, h]
  exact foldl_pickLow_map (renE a' ρ) (fun _ => rfl) _ none

theorem highest_outL (g g' : Graph) (a a' : Nat) (ρ : Nat → Nat) (h : outL g' a' = (outL g a).map (renE a' ρ)) :
    g'.highest a' = (g.highest a).map (renE a' ρ) := by
  rw [highest_eq, highest_eq, h]
  exact foldl_pickHigh_map (renE a' ρ) (fun _ => rfl) _ none

theorem stepE_of_outL (g g' : Graph) (a a' : Nat) (ρ : Nat → Nat)
    (hvs : g'.vs[a']? = g.vs[a]?) (hout : outL g' a' = (outL g a).map (renE a' ρ))
    (hfell : ρ g.fellOff = g'.fellOff) (hstuck : ρ g.stuck = g'.stuck)
    (hnone : g.vs[a]? = none → (a' = g'.fellOff ↔ a = g.fellOff))
    (hctx : ∀ o, g.vs[a]? = some (.item (.op o)) → g'.afterCtxE a' = g.afterCtxE a) :
    g'.stepE a' = mapStep ρ (g.stepE a) := by
  have hlo := lowest_outL g g' a a' ρ hout
  have hhi := highest_outL g g' a a' ρ hout
  have hfall : g'.fall a' = ρ (g.fall a) := by
    unfold Graph.fall; rw [hlo]
    cases g.lowest a with
    | none => exact hfell.symm
    | some e => rfl
  have hjt : g'.jumpTarget a' = ρ (g.jumpTarget a) := by
    unfold Graph.jumpTarget; rw [hhi]
    cases g.highest a with
    | none => exact hstuck.symm
    | some e => rfl
  have hfj : g'.fallOfJump a' = ρ (g.fallOfJump a) := by
    unfold Graph.fallOfJump; rw [hlo, hhi]
    cases g.lowest a with
    | none => exact hfell.symm
    | some lo =>
      cases g.highest a with
      | none => exact hfell.symm
      | some hi =>
        simp only [Option.map_some, renE]
        split
        · rfl
        · exact hfell.symm
  unfold Graph.stepE
  rw [hvs]
  cases hv : g.vs[a]? with
  | none =>
    have := hnone hv
    by_cases h : a = g.fellOff
    · simp [h, this.mpr h, mapStep]
    · have h' : ¬ a' = g'.fellOff := fun x => h (this.mp x)
      simp [h, h', mapStep]
  | some vo =>
    cases vo with
    | foreign lid => simp [mapStep]
    | item it =>
      cases it with
      | label id => simp only [mapStep]; rw [hfall]
      | ljump root lbl call =>
        simp only
        split
        · simp only [mapStep]; rw [hjt]
        · simp only [mapStep]; rw [hjt, hfj]
      | op o =>
        simp only
        rw [hctx o hv]
        split
        · simp [mapStep]
        · simp only [mapStep]; rw [hfall]

end ESV.Decomp.Gr
