import ESV.Decomp.WrSpec
/-
`tr_spec`: what `Src.tr` / `Src.trStmts` / `Src.trBranches` leave in the node table for the statements of the fragment `lf`
(relations of WrSpec.lean over any final list that keeps the nodes: `ExtL`), and `graph_spec`: the table of the one-routine program.
-/
namespace ESV.Decomp.Wr
open ESV ESV.Beh ESV.Comp

theorem labelsOf_inner (inner : Src.Stmt) (h : lfInner inner = true) : Src.labelsOf inner = [] := by
  cases inner <;> first | (simp [lfInner] at h; done) | (rw [Src.labelsOf] <;> simp)

section spec
variable (fuel : Nat) (ms : List Src.Macro)

theorem inner_spec (labs : List (String × Nat)) (D : List String) (env : Src.Env) (he : PlainEnv env) (inner : Src.Stmt)
    (hi : lfInner inner = true) (k : Nat) (b : Src.B) (hl : LabsOk labs (tbl b).length) :
    ∃ r, Src.afterCtxSpecial env inner k b = some r ∧ Pushes b r.1 ∧ ∀ N, ExtL labs D r.1 N → SpecI N inner r.2 k := by
  cases inner <;> simp only [lfInner] at hi <;> try cases hi
  · refine ⟨_, rfl, Pushes.push _ _, fun N hN => ?_⟩
    rw [(tbl_push _ _).2]
    exact .op (by have := hN.at_push hl; rwa [plainEnv_ev he] at this)
  · simp only [Src.afterCtxSpecial, he.2]
    exact ⟨_, rfl, Pushes.push _ _, fun N hN => by rw [(tbl_push _ _).2]; exact .ret (hN.at_push hl)⟩
  · exact ⟨_, rfl, Pushes.push _ _, fun N hN => by rw [(tbl_push _ _).2]; exact .end_ (hN.at_push hl)⟩
  · exact ⟨_, rfl, Pushes.push _ _, fun N hN => by rw [(tbl_push _ _).2]; exact .hold (hN.at_push hl)⟩

/-- the labels of a list are defined once and have nodes -/
def LabelsOk (env : Src.Env) (D : List String) : Prop := D.Nodup ∧ ∀ n ∈ D, (env.labels.lookup n).isSome = true

theorem LabelsOk.left {env : Src.Env} {a b : List String} (h : LabelsOk env (a ++ b)) : LabelsOk env a :=
  ⟨(List.nodup_append.mp h.1).1, fun n hn => h.2 n (List.mem_append_left _ hn)⟩
theorem LabelsOk.right {env : Src.Env} {a b : List String} (h : LabelsOk env (a ++ b)) : LabelsOk env b :=
  ⟨(List.nodup_append.mp h.1).2.1, fun n hn => h.2 n (List.mem_append_right _ hn)⟩
theorem LabelsOk.disj {env : Src.Env} {a b : List String} (h : LabelsOk env (a ++ b)) : ∀ n ∈ b, n ∉ a := fun n hb ha =>
  (List.nodup_append.mp h.1).2.2 n ha n hb rfl

mutual
theorem tr_spec (env : Src.Env) (he : PlainEnv env) : ∀ (S : Src.Stmt), lf S = true → LabelsOk env (Src.labelsOf S) → ∀ k b,
    LabsOk env.labels (tbl b).length →
    GrowL env.labels (Src.labelsOf S) b (Src.tr fuel ms env S k b).1 ∧
      ∀ N, ExtL env.labels (Src.labelsOf S) (Src.tr fuel ms env S k b).1 N → SpecS env.labels N S (Src.tr fuel ms env S k b).2 k
  | .op name ps, _, _, k, b, hl => by
    rw [Src.tr]; simp only [plainEnv_ev he]
    by_cases hf : endsFlow name = true
    · simp only [hf, if_true]
      exact ⟨.of_pushes (Pushes.push _ _), fun N hN => by rw [(tbl_push _ _).2]; exact .opHalt hf (hN.at_push hl)⟩
    · have hf' : endsFlow name = false := by simpa using hf
      simp only [hf', Bool.false_eq_true, if_false]
      exact ⟨.of_pushes (Pushes.push _ _), fun N hN => by rw [(tbl_push _ _).2]; exact .opEmit hf' (hN.at_push hl)⟩
  | .ret, _, _, k, b, hl => by
    rw [Src.tr]; simp only [he.2]
    exact ⟨.of_pushes (Pushes.push _ _), fun N hN => by rw [(tbl_push _ _).2]; exact .ret (hN.at_push hl)⟩
  | .end_, _, _, k, b, hl => by
    rw [Src.tr]
    exact ⟨.of_pushes (Pushes.push _ _), fun N hN => by rw [(tbl_push _ _).2]; exact .end_ (hN.at_push hl)⟩
  | .hold, _, _, k, b, hl => by
    rw [Src.tr]
    exact ⟨.of_pushes (Pushes.push _ _), fun N hN => by rw [(tbl_push _ _).2]; exact .hold (hN.at_push hl)⟩
  | .label n, _, hd, k, b, hl => by
    have hsome := hd.2 n (by simp [Src.labelsOf])
    cases hlk : env.labels.lookup n with
    | none => rw [hlk] at hsome; cases hsome
    | some i =>
      have hi : i < (tbl b).length := hl.lt n i hlk
      rw [Src.tr]; simp only [hlk, Src.labelsOf]
      refine ⟨⟨by rw [tbl_set]; simp, fun j hj ho => ?_⟩, fun N hN => ?_⟩
      · have hne : i ≠ j := fun h => ho n (by simp) (by rw [hlk, h])
        rw [tbl_set, List.getElem?_set_ne hne]
      · refine .label hlk ?_
        rw [hN i (by rw [tbl_set]; simpa using hi) (.inr ⟨n, by simp, hlk⟩), tbl_set, List.getElem?_set_self hi]
  | .ctx c cps inner, h, _, k, b, hl => by
    simp only [lf] at h
    obtain ⟨r, hr, hp, hs⟩ := inner_spec env.labels (Src.labelsOf (.ctx c cps inner)) env he inner h k b hl
    rw [Src.tr]; simp only [hr, plainEnv_ev he]
    refine ⟨.of_pushes (hp.trans (Pushes.push _ _)), fun N hN => ?_⟩
    rw [(tbl_push _ _).2]
    exact .ctx (hN.at_push (hl.mono hp.len)) (hs N hN.of_push)
  | .ite bs true els, h, hd, k, b, hl => by
    simp only [lf, Bool.and_eq_true] at h
    simp only [Src.labelsOf] at hd ⊢
    rw [Src.tr]; simp only [if_true]
    obtain ⟨hg1, hs1⟩ := trStmts_spec env he els h.1.2 hd.right k b hl
    obtain ⟨hg2, hs2⟩ := trBranches_spec env he bs h.1.1 hd.left k (Src.trStmts fuel ms env els k b).2 (Src.trStmts fuel ms env els k b).1
      (hl.mono hg1.1)
    refine ⟨hg1.trans hg2 (fun n hn => List.mem_append_right _ hn) (fun n hn => List.mem_append_left _ hn), fun N hN => ?_⟩
    exact .iteElse (hs1 N (hN.back (hl.mono hg1.1) hg2 hd.disj)) (hs2 N (hN.sub fun n hn => List.mem_append_left _ hn))
  | .ite bs false els, h, hd, k, b, hl => by
    simp only [lf, Bool.and_eq_true, Bool.false_or] at h
    have hnil : els = .nil := by cases els <;> simp_all [isNilStmts]
    subst hnil
    simp only [Src.labelsOf, Src.labelsOfStmts, List.append_nil] at hd ⊢
    rw [Src.tr]; simp only [Bool.false_eq_true, if_false]
    obtain ⟨hg2, hs2⟩ := trBranches_spec env he bs h.1.1 hd k k b hl
    exact ⟨hg2, fun N hN => .iteNoElse (hs2 N hN)⟩

theorem trStmts_spec (env : Src.Env) (he : PlainEnv env) : ∀ (S : Src.Stmts), lfL S = true → LabelsOk env (Src.labelsOfStmts S) → ∀ k b,
    LabsOk env.labels (tbl b).length →
    GrowL env.labels (Src.labelsOfStmts S) b (Src.trStmts fuel ms env S k b).1 ∧
      ∀ N, ExtL env.labels (Src.labelsOfStmts S) (Src.trStmts fuel ms env S k b).1 N →
        SpecL env.labels N S (Src.trStmts fuel ms env S k b).2 k
  | .nil, _, _, k, b, _ => by rw [Src.trStmts]; exact ⟨.refl _ _ b, fun _ _ => .nil⟩
  | .cons s r, h, hd, k, b, hl => by
    simp only [lfL, Bool.and_eq_true] at h
    simp only [Src.labelsOfStmts] at hd ⊢
    rw [Src.trStmts]
    obtain ⟨hg1, hs1⟩ := trStmts_spec env he r h.2 hd.right k b hl
    obtain ⟨hg2, hs2⟩ := tr_spec env he s h.1 hd.left (Src.trStmts fuel ms env r k b).2 (Src.trStmts fuel ms env r k b).1 (hl.mono hg1.1)
    refine ⟨hg1.trans hg2 (fun n hn => List.mem_append_right _ hn) (fun n hn => List.mem_append_left _ hn), fun N hN => ?_⟩
    exact .cons (hs2 N (hN.sub fun n hn => List.mem_append_left _ hn)) (hs1 N (hN.back (hl.mono hg1.1) hg2 hd.disj))

theorem trBranches_spec (env : Src.Env) (he : PlainEnv env) : ∀ (S : Src.Branches), lfB S = true → LabelsOk env (Src.labelsOfBranches S) →
    ∀ k ee b, LabsOk env.labels (tbl b).length →
    GrowL env.labels (Src.labelsOfBranches S) b (Src.trBranches fuel ms env S k ee b).1 ∧
      ∀ N, ExtL env.labels (Src.labelsOfBranches S) (Src.trBranches fuel ms env S k ee b).1 N →
        SpecB env.labels N S (Src.trBranches fuel ms env S k ee b).2 k ee
  | .nil, _, _, k, ee, b, _ => by rw [Src.trBranches]; exact ⟨.refl _ _ b, fun _ _ => .nil⟩
  | .cons neg tests body r, h, hd, k, ee, b, hl => by
    simp only [lfB, Bool.and_eq_true] at h
    simp only [Src.labelsOfBranches] at hd ⊢
    rw [Src.trBranches]
    obtain ⟨hg1, hs1⟩ := trBranches_spec env he r h.2 hd.right k ee b hl
    obtain ⟨hg2, hs2⟩ := trStmts_spec env he body h.1 hd.left k (Src.trBranches fuel ms env r k ee b).1 (hl.mono hg1.1)
    have hl2 := (hl.mono hg1.1).mono hg2.1
    have hg12 := hg1.trans hg2 (fun n hn => List.mem_append_right _ hn) (fun n hn => List.mem_append_left _ hn)
      (D := Src.labelsOfStmts body ++ Src.labelsOfBranches r)
    simp only [he.1]
    cases neg with
    | true =>
      simp only [if_true]
      obtain ⟨hp3, hs3⟩ := testChain_spec env.labels (Src.labelsOfStmts body ++ Src.labelsOfBranches r) tests
        (Src.trBranches fuel ms env r k ee b).2 (Src.trStmts fuel ms env body k (Src.trBranches fuel ms env r k ee b).1).2
        (Src.trStmts fuel ms env body k (Src.trBranches fuel ms env r k ee b).1).1 hl2
      refine ⟨hg12.trans (.of_pushes hp3) (fun _ hn => hn) (fun _ hn => hn), fun N hN => ?_⟩
      have hN2 := hN.of_pushes hp3
      exact .consNeg (hs1 N (hN2.back (hl.mono hg1.1) hg2 hd.disj)) (hs2 N (hN2.sub fun n hn => List.mem_append_left _ hn)) (hs3 N hN)
    | false =>
      simp only [Bool.false_eq_true, if_false]
      obtain ⟨hp3, hs3⟩ := testChain_spec env.labels (Src.labelsOfStmts body ++ Src.labelsOfBranches r) tests
        (Src.trStmts fuel ms env body k (Src.trBranches fuel ms env r k ee b).1).2 (Src.trBranches fuel ms env r k ee b).2
        (Src.trStmts fuel ms env body k (Src.trBranches fuel ms env r k ee b).1).1 hl2
      refine ⟨hg12.trans (.of_pushes hp3) (fun _ hn => hn) (fun _ hn => hn), fun N hN => ?_⟩
      have hN2 := hN.of_pushes hp3
      exact .consPos (hs1 N (hN2.back (hl.mono hg1.1) hg2 hd.disj)) (hs2 N (hN2.sub fun n hn => List.mem_append_left _ hn)) (hs3 N hN)
end

end spec

end ESV.Decomp.Wr

namespace ESV.Decomp.Wr
open ESV ESV.Beh ESV.Comp

/-- the node table of the one-routine program of a statement list of the fragment whose labels are defined once: node 0 is "ran off
the end" (a `Return`), the body is translated with that node as its continuation, `labs` holds the node of every label -/
theorem graph_spec (ss : Src.Stmts) (h : lfL ss = true) (hn : (Src.labelsOfStmts ss).Nodup) :
    ∃ labs e, astEntry ss = e ∧ SpecL labs (routineProgram ss).graph.nodes.toList ss e 0 ∧
      (routineProgram ss).graph.nodes.toList[0]? = some (.halt evReturn) := by
  have hl : Src.allRoutineLabels (routineProgram ss).routines = Src.labelsOfStmts ss := by
    simp [Src.allRoutineLabels, routineProgram]
  let b1 : Src.B := ⟨#[.halt evReturn]⟩
  obtain ⟨hinv, hcov⟩ := allocLabels_spec b1 (Src.labelsOfStmts ss)
  let b2 := (Src.allocLabels b1 (Src.labelsOfStmts ss)).1
  let labs := (Src.allocLabels b1 (Src.labelsOfStmts ss)).2
  let env : Src.Env := { labels := labs }
  have hg : (routineProgram ss).graph = ⟨(Src.trStmts 1 [] env ss 0 b2).1.nodes, [some (Src.trStmts 1 [] env ss 0 b2).2]⟩ := by
    unfold Src.Program.graph
    simp only [hl]
    simp [Src.B.push, routineProgram, b1, b2, labs, env]
  have hlabs : LabsOk labs (tbl b2).length :=
    ⟨hinv.inj, fun n i hl => by have := (hinv.node n i hl).2.1; rw [hinv.len]; exact this⟩
  obtain ⟨hgr, hs⟩ := trStmts_spec 1 [] env ⟨rfl, rfl⟩ ss h ⟨hn, hcov⟩ 0 b2 hlabs
  refine ⟨labs, (Src.trStmts 1 [] env ss 0 b2).2, ?_, ?_, ?_⟩
  · simp only [astEntry, hg]; rfl
  · rw [hg]; exact hs _ (fun i _ _ => rfl)
  · rw [hg]
    have h0 : (0 : Nat) < (tbl b2).length := by rw [hinv.len]; simp [tbl, b1]; omega
    have hoff : Off labs (Src.labelsOfStmts ss) 0 := fun n _ hl0 => by
      have := (hinv.node n 0 hl0).1
      simp [tbl, b1] at this
    have := hgr.2 0 h0 hoff
    show (tbl (Src.trStmts 1 [] env ss 0 b2).1)[0]? = _
    rw [this, hinv.pushes.same (by simp [tbl, b1])]
    simp [tbl, b1]

end ESV.Decomp.Wr

namespace ESV.Decomp.Wr
open ESV ESV.Beh ESV.Comp

/-! ## the fragment without label statements -/

mutual
def lf0 : Src.Stmt → Bool
  | .op _ _ | .ret | .end_ | .hold => true
  | .ctx _ _ inner => lfInner inner
  | .ite bs hasElse els => lf0B bs && lf0L els && (hasElse || isNilStmts els)
  | _ => false
def lf0L : Src.Stmts → Bool
  | .nil => true
  | .cons s r => lf0 s && lf0L r
def lf0B : Src.Branches → Bool
  | .nil => true
  | .cons _ _ body r => lf0L body && lf0B r
end

mutual
theorem lf0_spec : ∀ (S : Src.Stmt), lf0 S = true → lf S = true ∧ Src.labelsOf S = []
  | .op _ _, _ => ⟨rfl, by simp [Src.labelsOf]⟩
  | .ret, _ => ⟨rfl, by simp [Src.labelsOf]⟩
  | .end_, _ => ⟨rfl, by simp [Src.labelsOf]⟩
  | .hold, _ => ⟨rfl, by simp [Src.labelsOf]⟩
  | .ctx c cps inner, h => by
    simp only [lf0] at h
    exact ⟨by simp only [lf]; exact h, by rw [Src.labelsOf]; exact labelsOf_inner inner h⟩
  | .ite bs hasElse els, h => by
    simp only [lf0, Bool.and_eq_true] at h
    obtain ⟨h1, h2⟩ := lf0B_spec bs h.1.1
    obtain ⟨h3, h4⟩ := lf0L_spec els h.1.2
    exact ⟨by simp only [lf, Bool.and_eq_true]; exact ⟨⟨h1, h3⟩, h.2⟩, by simp [Src.labelsOf, h2, h4]⟩
theorem lf0L_spec : ∀ (S : Src.Stmts), lf0L S = true → lfL S = true ∧ Src.labelsOfStmts S = []
  | .nil, _ => ⟨rfl, by simp [Src.labelsOfStmts]⟩
  | .cons s r, h => by
    simp only [lf0L, Bool.and_eq_true] at h
    obtain ⟨h1, h2⟩ := lf0_spec s h.1
    obtain ⟨h3, h4⟩ := lf0L_spec r h.2
    exact ⟨by simp only [lfL, Bool.and_eq_true]; exact ⟨h1, h3⟩, by simp [Src.labelsOfStmts, h2, h4]⟩
theorem lf0B_spec : ∀ (S : Src.Branches), lf0B S = true → lfB S = true ∧ Src.labelsOfBranches S = []
  | .nil, _ => ⟨rfl, by simp [Src.labelsOfBranches]⟩
  | .cons _ _ body r, h => by
    simp only [lf0B, Bool.and_eq_true] at h
    obtain ⟨h1, h2⟩ := lf0L_spec body h.1
    obtain ⟨h3, h4⟩ := lf0B_spec r h.2
    exact ⟨by simp only [lfB, Bool.and_eq_true]; exact ⟨h1, h3⟩, by simp [Src.labelsOfBranches, h2, h4]⟩
end

end ESV.Decomp.Wr
